(** * SafeDrop: the non-collector activations other than commands (unbag, script, cleaning action, store, the drop glues, Cc::drop) satisfy their post-condition. *)
From Coq Require Import NArith Bool List Lia.
From stdpp Require Import base list option.
From RecordUpdate Require Import RecordSet.
From RC Require Import Hdr Machine RunInd Inv InvP SafeHelpers SafePrims SafeCalls SafeGlue.
Import ListNotations RecordSetNotations.
Local Open Scope N_scope.

Section Steps.
  Context (K : conf) (P : prog).
  Context (PreC : bool -> list id -> call -> machine -> Prop)
          (PostC : bool -> list id -> call -> machine -> machine -> outcome -> Prop).
  Context (rec : call -> machine -> machine * outcome).
  Hypothesis Hrec : forall b E, rec_ok (Pre K PreC b E) (Post K PostC b E) rec.
  Implicit Types (m : machine) (o : id) (x : obj).

  Notation PostOf b E c m res := (Post K PostC b E c m (fst res) (snd res)).

  Lemma rec_post b E c m : is_coll c = false ->
    NoBad m -> SInv K b (own_of c ++ E) [] m ->
    match c with
     | KCmd self c => self_ok E self [c] m
     | KScript self cs => self_ok E self cs m
     | KStore r v => loc_valid m r /\ good_h m v
     | KDropCc o => own_ok m o
     | KDropValue o => droppable K E m o
     | KDropFields o _ | KDropMapSlots o _ => exists x, get m o = Some x /\ o_vst x = VDropping
     | _ => True
     end -> PostOf b E c m (rec c m).
  Proof. intros Hc H1 H2 H3. apply Hrec. rewrite Pre_nc by exact Hc. auto. Qed.

  Lemma cnt_le_refl (E : list id) : forall o, (cnt_id o E <= cnt_id o E)%nat.
  Proof. intros; lia. Qed.
  Lemma cnt_le_cons (E : list id) a : forall o, (cnt_id o E <= cnt_id o (a :: E))%nat.
  Proof. intros o. rewrite cnt_id_cons. lia. Qed.

  (** [only_touches] *)
  Lemma ot_refl o m : only_touches o m m.
  Proof. intros p _. reflexivity. Qed.
  Lemma ot_trans o m1 m2 m3 : only_touches o m1 m2 -> only_touches o m2 m3 -> only_touches o m1 m3.
  Proof. intros A B p Hp. rewrite (B p Hp). apply A, Hp. Qed.
  Lemma ot_heap o m m' : heap m' = heap m -> only_touches o m m'.
  Proof. intros H p _. unfold get. rewrite H. reflexivity. Qed.
  Lemma ot_alter o f m m' : heap m' = alter f o (heap m) -> only_touches o m m'.
  Proof. intros H p Hp. eapply get_alter_ne; eauto. Qed.
  Lemma ot_dec_rc_m o m : only_touches o m (dec_rc_m o m).
  Proof. unfold dec_rc_m. destruct (dec_rc (hdr_of m o)); [eapply ot_alter; reflexivity | apply ot_heap; reflexivity]. Qed.
  Lemma ot_remove_from_list o m : only_touches o m (remove_from_list o m).
  Proof.
    unfold remove_from_list. destruct (is_in_pc (hdr_of m o)); [|apply ot_refl]. destruct (pc_alive m); [|apply ot_refl].
    unfold dec_size. match goal with |- context [if ?c then _ else _] => destruct c end; eapply ot_alter; reflexivity.
  Qed.
  Lemma ot_add_to_list o m : only_touches o m (add_to_list o m).
  Proof.
    unfold add_to_list. destruct (is_in_pc (hdr_of m o)); [apply ot_refl|]. destruct (pc_alive m); [|apply ot_refl].
    destruct (is_not_marked (hdr_of m o) && negb (is_dropped (hdr_of m o))); eapply ot_alter; reflexivity.
  Qed.
  Lemma ot_dealloc o m : only_touches o m (dealloc K o m).
  Proof.
    unfold dealloc. destruct (get m o) as [x|]; [|apply ot_heap; reflexivity]. destruct (box_layout K x) as [sz al].
    destruct (o_box x); repeat (match goal with |- context [if ?c then _ else _] => destruct c end); eapply ot_alter; reflexivity.
  Qed.
  Lemma ot_drop_metadata o m : only_touches o m (drop_metadata K o m).
  Proof.
    unfold drop_metadata. destruct (negb (k_weak K)); [apply ot_refl|]. destruct (get m o) as [x|]; [|apply ot_heap; reflexivity].
    destruct (h_side (o_hdr x)); [|apply ot_refl]. destruct (o_side x) as [s|]; [|apply ot_heap; reflexivity].
    destruct (w_cnt (sd_wk s) =? 0).
    - unfold sfree. match goal with |- context [get ?mm o] => destruct (get mm o) as [y|] end; [|destruct (sd_freed s); apply ot_heap; reflexivity].
      destruct (o_side y) as [s'|]; [|destruct (sd_freed s); apply ot_heap; reflexivity].
      destruct (sd_freed s'), (sd_freed s); eapply ot_alter; reflexivity.
    - destruct (sd_freed s); eapply ot_alter; reflexivity.
  Qed.
  Lemma quiet_vacuous o m m' x : get m o = Some x -> (o_ismap x = false \/ o_mslots x <> []) -> quiet_map o m m'.
  Proof. intros Hx H y Hy Hm Hs. assert (y = x) by congruence. subst. destruct H; congruence. Qed.

  (** outcome Abort / Fuel of a non-collector activation: nothing to show *)
  Ltac triv_post := rewrite Post_nc by reflexivity; exact I.
  Ltac fin C := eapply Post_intro; [reflexivity | exact C | try exact I | try discriminate; auto].

  (** *** unbag *)
  Lemma step_unbag_ok b E k m :
    Pre K PreC b E (KUnbag k) m -> PostOf b E (KUnbag k) m (step_unbag rec k m).
  Proof.
    rewrite Pre_nc by reflexivity. cbn [own_of app]. intros (Hnb & HI & _).
    pose proof (Cur_init K b true E None E [] m Hnb HI) as C0.
    unfold step_unbag. destruct k as [|k']; [cbn [fst snd]; fin C0|].
    destruct (bag m) as [|o bg] eqn:Hb; [cbn [fst snd]; fin C0|].
    pose proof (Cur_bag_pop K _ _ _ _ _ _ _ _ o bg C0 Hb) as C1.
    assert (Hown : own_ok (m <| bag := bg |>) o).
    { intros Hd. destruct (sv_loc _ _ _ _ _ HI None false o) as (xt & _ & _ & _ & _ & Hi); [constructor 2; rewrite Hb; left|].
      change (inD (m <| bag := bg |>) o) with (inD m o) in Hd. congruence. }
    pose proof (rec_post b E (KDropCc o) _ eq_refl (cur_nb _ _ _ _ _ _ _ _ _ C1) (cur_inv _ _ _ _ _ _ _ _ _ C1) Hown) as HP1.
    destruct (rec (KDropCc o) (m <| bag := bg |>)) as [m1 r1]. cbn [fst snd] in HP1.
    destruct r1; cbn [fst snd]; try triv_post.
    - destruct (Cur_call_n K PostC (KDropCc o) _ _ _ _ _ _ _ _ _ eq_refl C1 HP1 (cnt_le_refl E) (or_introl eq_refl)) as [C2 _].
      pose proof (rec_post b E (KUnbag k') _ eq_refl (cur_nb _ _ _ _ _ _ _ _ _ C2) (cur_inv _ _ _ _ _ _ _ _ _ C2) I) as HP2.
      destruct (rec (KUnbag k') m1) as [m2 r2]. cbn [fst snd] in *.
      destruct r2; try triv_post.
      + destruct (Cur_call_n K PostC (KUnbag k') _ _ _ _ _ _ _ _ _ eq_refl C2 HP2 (cnt_le_refl E) (or_introl eq_refl)) as [C3 _]. fin C3.
      + destruct (Cur_call_p K PostC (KUnbag k') _ _ _ _ _ _ _ _ _ eq_refl C2 HP2 (cnt_le_refl E) (or_introl eq_refl)) as [C3 _]. fin C3.
    - destruct (Cur_call_p K PostC (KDropCc o) _ _ _ _ _ _ _ _ _ eq_refl C1 HP1 (cnt_le_refl E) (or_introl eq_refl)) as [C2 _]. fin C2.
  Qed.
  Lemma self_ok_head E self c cs m : self_ok E self (c :: cs) m -> self_ok E self [c] m.
  Proof.
    destruct self as [g|]; cbn; [|auto]. intros [H|[H1 H2]]; [left; exact H|right].
    apply andb_true_iff in H1 as [H1 _]. rewrite H1. auto.
  Qed.
  Lemma self_ok_tail E self c cs m m1 :
    self_ok E self (c :: cs) m -> Fr K E None m m1 -> self_ok E self cs m1.
  Proof.
    destruct self as [g|]; cbn; [|auto]. intros [(x & Hx & Hb & Hv & Hi & Hm & Hp)|[H1 (x & Hx & Hv)]] F.
    - left. destruct (fr_obj _ _ _ _ _ F g x Hx) as (x' & Hx' & OF).
      destruct (of_prot _ _ _ _ _ _ _ OF) as (P1 & P2 & P3 & P4); [discriminate | exact Hb | exact Hp |].
      exists x'. split; [exact Hx'|]. split; [exact P1|]. split; [congruence|]. split.
      { destruct (inD m1 g) eqn:Ei; [|reflexivity]. rewrite (P3 eq_refl) in Hi. discriminate. }
      split; [rewrite (of_ismap _ _ _ _ _ _ _ OF); exact Hm|].
      apply (protected_trans E None m m1 g x x' (fr_coll _ _ _ _ _ F) OF); [discriminate | exact Hb | exact Hp].
    - right. apply andb_true_iff in H1 as [_ H1]. split; [exact H1|].
      destruct (fr_obj _ _ _ _ _ F g x Hx) as (x' & Hx' & OF).
      destruct (of_dropping _ _ _ _ _ _ _ OF Hv) as (D1 & _); [discriminate|]. eauto.
  Qed.

  (** *** script *)
  Lemma step_script_ok b E self cs m :
    Pre K PreC b E (KScript self cs) m -> PostOf b E (KScript self cs) m (step_script rec self cs m).
  Proof.
    rewrite Pre_nc by reflexivity. cbn [own_of app]. intros (Hnb & HI & Hself).
    pose proof (Cur_init K b true E None E [] m Hnb HI) as C0.
    unfold step_script. destruct cs as [|c cs']; [cbn [fst snd]; fin C0|].
    pose proof (rec_post b E (KCmd self c) _ eq_refl Hnb HI (self_ok_head _ _ _ _ _ Hself)) as HP1.
    destruct (rec (KCmd self c) m) as [m1 r1]. cbn [fst snd] in HP1.
    destruct r1; cbn [fst snd]; try triv_post.
    - destruct (Cur_call_n K PostC (KCmd self c) _ _ _ _ _ _ _ _ _ eq_refl C0 HP1 (cnt_le_refl E) (or_introl eq_refl)) as [C1 _].
      pose proof (rec_post b E (KScript self cs') _ eq_refl (cur_nb _ _ _ _ _ _ _ _ _ C1) (cur_inv _ _ _ _ _ _ _ _ _ C1)
                    (self_ok_tail _ _ _ _ _ _ Hself (cur_fr _ _ _ _ _ _ _ _ _ C1))) as HP2.
      destruct (rec (KScript self cs') m1) as [m2 r2]. cbn [fst snd] in *.
      destruct r2; try triv_post.
      + destruct (Cur_call_n K PostC (KScript self cs') _ _ _ _ _ _ _ _ _ eq_refl C1 HP2 (cnt_le_refl E) (or_introl eq_refl)) as [C2 _]. fin C2.
      + destruct (Cur_call_p K PostC (KScript self cs') _ _ _ _ _ _ _ _ _ eq_refl C1 HP2 (cnt_le_refl E) (or_introl eq_refl)) as [C2 _]. fin C2.
    - destruct (Cur_call_p K PostC (KCmd self c) _ _ _ _ _ _ _ _ _ eq_refl C0 HP1 (cnt_le_refl E) (or_introl eq_refl)) as [C1 _]. fin C1.
  Qed.

  Lemma Cur_tick b n E0 ex m0 E W m k : Cur K b n E0 ex m0 E W m -> Cur K b n E0 ex m0 E W (tick k m).1.
  Proof.
    intros C. unfold tick. destruct (get_fuse k m =? 0); [exact C|]. cbn [fst].
    eapply Cur_ieq; [exact C | destruct k; repeat split | destruct k; apply C].
  Qed.

  (** a callback whose fuse fires, or any other [raise] *)
  Lemma raise_post b b' n E c m m' :
    is_coll c = false -> Cur K b' n E (ex_of c) m E [] m' -> post_own c m m' ->
    Post K PostC b E c m m' (raise m').
  Proof.
    intros Hc C Hown. unfold raise. destruct (panicking m'); [rewrite Post_nc by exact Hc; exact I|].
    eapply Post_intro; [exact Hc | exact C | exact Hown | discriminate].
  Qed.

  (** *** a cleaning action *)
  Lemma step_clean_run_ok b E mo aid script m :
    Pre K PreC b E (KCleanRun mo aid script) m ->
    PostOf b E (KCleanRun mo aid script) m (step_clean_run K P rec mo aid script m).
  Proof.
    rewrite Pre_nc by reflexivity. cbn [own_of app]. intros (Hnb & HI & _).
    pose proof (Cur_init K b true E None E [] m Hnb HI) as C0.
    unfold step_clean_run.
    pose proof (Cur_tick _ _ _ _ _ _ _ _ KAction (Cur_emit K _ _ _ _ _ _ _ _ (ECb KAction aid (cur_flags K m)) C0 eq_refl)) as C1.
    destruct (tick KAction (emit (ECb KAction aid (cur_flags K m)) m)) as [m1 boom]. cbn [fst] in C1.
    destruct boom; cbn [fst snd].
    - apply (raise_post b b true E (KCleanRun mo aid script) m m1 eq_refl C1 I).
    - pose proof (rec_post b E (KScript None (script_of P script)) _ eq_refl (cur_nb _ _ _ _ _ _ _ _ _ C1) (cur_inv _ _ _ _ _ _ _ _ _ C1) I) as HP1.
      destruct (rec (KScript None (script_of P script)) m1) as [m2 r2]. cbn [fst snd] in *.
      destruct r2; try triv_post.
      + destruct (Cur_call_n K PostC (KScript None (script_of P script)) _ _ _ _ _ _ _ _ _ eq_refl C1 HP1 (cnt_le_refl E) (or_introl eq_refl)) as [C2 _]. fin C2.
      + destruct (Cur_call_p K PostC (KScript None (script_of P script)) _ _ _ _ _ _ _ _ _ eq_refl C1 HP1 (cnt_le_refl E) (or_introl eq_refl)) as [C2 _]. fin C2.
  Qed.

  (** *** store *)
  Lemma step_store_ok b E r v m :
    Pre K PreC b E (KStore r v) m -> PostOf b E (KStore r v) m (step_store rec r v m).
  Proof.
    rewrite Pre_nc by reflexivity. cbn [own_of app]. intros (Hnb & HI & (Hidx & Hold) & Hgood).
    pose proof (Cur_init K b true E None (v :: E) [] m Hnb HI) as C0.
    unfold step_store.
    assert (Hiv : idx_valid m r).
    { destruct r as [i|p j]; cbn in *; [rewrite (proj1 (sv_lens _ _ _ _ _ HI)); exact Hidx|].
      destruct Hidx as (x & Hx & Hj & _). eauto. }
    pose proof (Cur_write_loc K b true E None m E [] m r (Some v) C0 Hiv) as C1.
    specialize (C1 (fun t Ht => ltac:(injection Ht as <-; exact Hgood))).
    assert (Hh : forall p j x, r = RField p j -> get m p = Some x ->
               (o_box x <> BNotYet \/ o_vst x = VDropping) /\ (o_vst x <> VDropping \/ None = Some p) /\ o_vst x <> VUninit /\
               (inD m p = false \/ o_vst x = VDropped \/ None = Some p)).
    { intros p j x -> Hx. cbn in Hidx. destruct Hidx as (y & Hy & _ & Hb & Hvd & Hnu & Hdd). assert (y = x) by congruence. subst.
      repeat split; auto. destruct (inD m p); auto. }
    specialize (C1 Hh).
    destruct (read_loc r m) as [t|] eqn:Hr; cbn [ol app] in C1; [|cbn [fst snd]; fin C1].
    assert (Hown : own_ok (write_loc r (Some v) m) t).
    { intros Hd. assert (Hd' : inD m t = true) by (destruct r; exact Hd).
      specialize (Hold t eq_refl Hd'). unfold marked_at in *.
      destruct r as [i|p j]; [exact Hold|]. cbn [write_loc]. unfold hdr_of in *. rewrite get_upd.
      destruct (decide (p = t)) as [->|]; [|exact Hold]. destruct (get m t); exact Hold. }
    pose proof (rec_post b E (KDropCc t) _ eq_refl (cur_nb _ _ _ _ _ _ _ _ _ C1) (cur_inv _ _ _ _ _ _ _ _ _ C1) Hown) as HP1.
    destruct (rec (KDropCc t) (write_loc r (Some v) m)) as [m1 r1]. cbn [fst snd] in *.
    destruct r1; try triv_post.
    + destruct (Cur_call_n K PostC (KDropCc t) _ _ _ _ _ _ _ _ _ eq_refl C1 HP1 (cnt_le_refl E) (or_introl eq_refl)) as [C2 _]. fin C2.
    + destruct (Cur_call_p K PostC (KDropCc t) _ _ _ _ _ _ _ _ _ eq_refl C1 HP1 (cnt_le_refl E) (or_introl eq_refl)) as [C2 _]. fin C2.
  Qed.
  (** the common part of the three drop glues: run a continuation, also while unwinding *)
  Lemma unwinding_post b E c0 c m m1 :
    is_coll c0 = false -> is_coll c = false ->
    forall (C : Cur K false false E (ex_of c0) m (own_of c ++ E) [] m1),
    (forall m1', Cur K false false E (ex_of c0) m (own_of c ++ E) [] m1' -> m1' = m1 <| panicking := true |> ->
       PostOf false E c m1' (rec c m1')) ->
    (ex_of c = None \/ ex_of c0 = ex_of c) ->
    (forall m2, post_own c (m1 <| panicking := true |>) m2 -> Fr K E (ex_of c) (m1 <| panicking := true |>) m2 ->
       post_own c0 m (m2 <| panicking := panicking m1 |>)) ->
    PostOf b E c0 m (unwinding (rec c) m1).
  Proof.
    intros Hc0 Hc C Hcall Hex Hown. unfold unwinding.
    assert (C1 : Cur K false false E (ex_of c0) m (own_of c ++ E) [] (m1 <| panicking := true |>)).
    { eapply Cur_ieq; [exact C | repeat split | apply C]. }
    specialize (Hcall _ C1 eq_refl).
    destruct (rec c (m1 <| panicking := true |>)) as [m2 r2]. cbn [fst snd] in *.
    destruct r2; cbn [fst snd]; try (rewrite Post_nc by exact Hc0; exact I).
    - destruct (Cur_call_n K PostC c _ _ _ _ _ _ _ _ _ Hc C1 Hcall (cnt_le_refl E) Hex) as [C2 Ho].
      assert (C3 : Cur K false false E (ex_of c0) m E [] (m2 <| panicking := panicking m1 |>)).
      { eapply Cur_ieq; [exact C2 | repeat split | apply C2]. }
      assert (HF : Fr K E (ex_of c) (m1 <| panicking := true |>) m2).
      { rewrite Post_nc in Hcall by exact Hc. apply Hcall. }
      destruct (panicking m1); [rewrite Post_nc by exact Hc0; exact I|].
      eapply Post_intro; [exact Hc0 | exact C3 | apply Hown; assumption | discriminate].
    - destruct (Cur_call_p K PostC c _ _ _ _ _ _ _ _ _ Hc C1 Hcall (cnt_le_refl E) Hex) as [C2 Ho].
      assert (C3 : Cur K false false E (ex_of c0) m E [] (m2 <| panicking := panicking m1 |>)).
      { eapply Cur_ieq; [exact C2 | repeat split | apply C2]. }
      assert (HF : Fr K E (ex_of c) (m1 <| panicking := true |>) m2).
      { rewrite Post_nc in Hcall by exact Hc. apply Hcall. }
      destruct (panicking m1); [rewrite Post_nc by exact Hc0; exact I|].
      eapply Post_intro; [exact Hc0 | exact C3 | apply Hown; assumption | discriminate].
  Qed.
  Lemma lookup_insert_None_other {A} (l : list (option A)) j i : i <> j -> <[j := None]> l !! i = l !! i.
  Proof. intros H. apply list_lookup_insert_ne. congruence. Qed.

  Lemma marked_at_upd o f m t : (forall y, o_hdr (f y) = o_hdr y) -> marked_at (upd o f m) t = marked_at m t.
  Proof.
    intros H. unfold marked_at, hdr_of. rewrite get_upd. destruct (decide (o = t)); [|reflexivity].
    destruct (get m t); cbn; [rewrite H|]; reflexivity.
  Qed.

  (** *** drop glue: the strong fields, then the weak fields, then the cleaner *)
  Lemma step_drop_fields_ok b E o j m :
    Pre K PreC b E (KDropFields o j) m -> PostOf b E (KDropFields o j) m (step_drop_fields rec o j m).
  Proof.
    rewrite Pre_nc by reflexivity. cbn [own_of app]. intros (Hnb & HI & x & Hx & Hv).
    pose proof (Cur_init K b true E (Some o) E [] m Hnb HI) as C0.
    unfold step_drop_fields. rewrite Hx.
    destruct (decide (j < length (o_fields x))%nat) as [Hj|Hj].
    - (* field j *)
      set (m1 := upd o (fun x => x <| o_fields ::= <[j := None]> |>) m).
      assert (Hrl : read_loc (RField o j) m = mjoin (o_fields x !! j)) by (cbn; rewrite Hx; reflexivity).
      assert (C1 : Cur K b true E (Some o) m (ol (mjoin (o_fields x !! j)) ++ E) [] m1).
      { rewrite <- Hrl. apply (Cur_write_loc K b true E (Some o) m E [] m (RField o j) None C0).
        - cbn. eauto.
        - discriminate.
        - intros p j' y [= <- <-] Hy. assert (y = x) by congruence. subst. split; [auto|]. split; [auto|]. split; [congruence | auto]. }
      set (x1 := x <| o_fields ::= <[j := None]> |>).
      assert (Hx1 : get m1 o = Some x1) by (apply get_upd_eq, Hx).
      (* what the post-condition needs from a final state *)
      assert (Hfin : forall m2 m3 x2, Fr K E None m1 m2 -> post_own (KDropFields o (S j)) m2 m3 ->
                 get m2 o = Some x2 -> o_fields x2 = o_fields x1 -> o_box x2 = o_box x1 ->
                 (inD m2 o = true -> inD m1 o = true) ->
                 post_own (KDropFields o j) m m3).
      { intros m2 m3 x2 _ (y2 & x3 & Hy2 & Hx3 & V3 & B3 & D3 & L3 & G3 & Cl3) Hx2 F2 B2 D2.
        assert (y2 = x2) by congruence. subst y2.
        exists x, x3. split; [exact Hx|]. split; [exact Hx3|]. split; [exact V3|].
        split; [rewrite B3, B2; reflexivity|]. split; [intros Hd; apply D2, D3, Hd|].
        split; [|split; [|exact Cl3]].
        - intros i Hi. rewrite L3 by lia. rewrite F2. unfold x1. cbn. apply list_lookup_insert_ne. lia.
        - intros i t Hi Hl. destruct (decide (i = j)) as [->|Hne]; [|apply (G3 i t); [lia | exact Hl]].
          rewrite L3 in Hl by lia. rewrite F2 in Hl. unfold x1 in Hl. cbn in Hl.
          rewrite list_lookup_insert in Hl by exact Hj. discriminate. }
      destruct (mjoin (o_fields x !! j)) as [t|] eqn:Hf; cbn [ol app] in C1.
      + (* a handle: Cc::drop *)
        assert (Hown : own_ok m1 t).
        { intros Hd. change (inD m1 t) with (inD m t) in Hd.
          assert (Hl : hloc m (Some o) false t).
          { destruct (o_fields x !! j) as [[t'|]|] eqn:Ej; cbn in Hf; try discriminate. injection Hf as ->. econstructor 3; eauto. }
          destruct (sv_loc _ _ _ _ _ HI _ _ _ Hl) as (xt & Hxt & _ & _ & Hc). destruct (Hc x Hx) as [_ Hc2].
          destruct (Hc2 Hd) as (_ & _ & Hm). specialize (Hm Hv).
          unfold m1. rewrite marked_at_upd by reflexivity. rewrite (marked_at_get _ _ _ Hxt). exact Hm. }
        pose proof (rec_post b E (KDropCc t) _ eq_refl (cur_nb _ _ _ _ _ _ _ _ _ C1) (cur_inv _ _ _ _ _ _ _ _ _ C1) Hown) as HP1.
        destruct (rec (KDropCc t) m1) as [m2 r1]. cbn [fst snd] in HP1.
        assert (HF12 : r1 = ONormal \/ r1 = OPanic -> Fr K E None m1 m2).
        { rewrite Post_nc in HP1 by reflexivity. intros [-> | ->]; apply HP1. }
        assert (Hx2 : r1 = ONormal \/ r1 = OPanic -> exists x2, get m2 o = Some x2 /\ o_vst x2 = VDropping /\
                        o_fields x2 = o_fields x1 /\ o_box x2 = o_box x1 /\ (inD m2 o = true -> inD m1 o = true)).
        { intros Hr. destruct (fr_obj _ _ _ _ _ (HF12 Hr) o x1 Hx1) as (x2 & Hx2 & OF).
          destruct (of_dropping _ _ _ _ _ _ _ OF Hv) as (D1 & D2 & D3 & D4 & D5); [discriminate|]. eauto 8. }
        destruct r1; cbn [fst snd]; try triv_post.
        * destruct (Cur_call_n K PostC (KDropCc t) _ _ _ _ _ _ _ _ _ eq_refl C1 HP1 (cnt_le_refl E) (or_introl eq_refl)) as [C2 _].
          destruct (Hx2 (or_introl eq_refl)) as (x2 & Hx2' & V2 & F2 & B2 & D2).
          pose proof (rec_post b E (KDropFields o (S j)) _ eq_refl (cur_nb _ _ _ _ _ _ _ _ _ C2) (cur_inv _ _ _ _ _ _ _ _ _ C2)
                        (ex_intro _ x2 (conj Hx2' V2))) as HP2.
          destruct (rec (KDropFields o (S j)) m2) as [m3 r2]. cbn [fst snd] in *.
          destruct r2; try triv_post.
          -- destruct (Cur_call_n K PostC (KDropFields o (S j)) _ _ _ _ _ _ _ _ _ eq_refl C2 HP2 (cnt_le_refl E) (or_intror eq_refl)) as [C3 Ho3].
             eapply Post_intro; [reflexivity | exact C3 | eapply Hfin; eauto | auto].
          -- destruct (Cur_call_p K PostC (KDropFields o (S j)) _ _ _ _ _ _ _ _ _ eq_refl C2 HP2 (cnt_le_refl E) (or_intror eq_refl)) as [C3 Ho3].
             eapply Post_intro; [reflexivity | exact C3 | eapply Hfin; eauto | discriminate].
        * destruct (Cur_call_p K PostC (KDropCc t) _ _ _ _ _ _ _ _ _ eq_refl C1 HP1 (cnt_le_refl E) (or_introl eq_refl)) as [C2 _].
          destruct (Hx2 (or_intror eq_refl)) as (x2 & Hx2' & V2 & F2 & B2 & D2).
          apply (unwinding_post b E (KDropFields o j) (KDropFields o (S j)) m m2 eq_refl eq_refl C2).
          -- intros m2' C2' ->. apply (rec_post false E (KDropFields o (S j)) _ eq_refl (cur_nb _ _ _ _ _ _ _ _ _ C2') (cur_inv _ _ _ _ _ _ _ _ _ C2')).
             exists x2. split; [exact Hx2' | exact V2].
          -- right. reflexivity.
          -- intros m3 Ho3 _. destruct Ho3 as (y2 & x3 & Hy2 & Hx3 & R).
             eapply (Hfin m2 _ x2 (HF12 (or_intror eq_refl))); [| exact Hx2' | exact F2 | exact B2 | exact D2].
             exists y2, x3. split; [exact Hy2|]. split; [exact Hx3 | exact R].
      + (* an empty field *)
        cbn [fst snd].
        pose proof (rec_post b E (KDropFields o (S j)) _ eq_refl (cur_nb _ _ _ _ _ _ _ _ _ C1) (cur_inv _ _ _ _ _ _ _ _ _ C1)
                      (ex_intro _ x1 (conj Hx1 Hv))) as HP2.
        destruct (rec (KDropFields o (S j)) m1) as [m3 r2]. cbn [fst snd] in *.
        destruct r2; try triv_post.
        * destruct (Cur_call_n K PostC (KDropFields o (S j)) _ _ _ _ _ _ _ _ _ eq_refl C1 HP2 (cnt_le_refl E) (or_intror eq_refl)) as [C3 Ho3].
          eapply Post_intro; [reflexivity | exact C3 | eapply (Hfin m1 _ x1 (Fr_refl K E None m1)); eauto | auto].
        * destruct (Cur_call_p K PostC (KDropFields o (S j)) _ _ _ _ _ _ _ _ _ eq_refl C1 HP2 (cnt_le_refl E) (or_intror eq_refl)) as [C3 Ho3].
          eapply Post_intro; [reflexivity | exact C3 | eapply (Hfin m1 _ x1 (Fr_refl K E None m1)); eauto | discriminate].
    - (* no strong field left: the Weak fields, then the cleaner *)
      set (m1 := fold_left (fun m w => weak_drop_opt w m) (o_wfields x) m).
      set (m2 := upd o (fun x => x <| o_wfields ::= fmap (fun _ => None) |>) m1).
      pose proof (Cur_drop_wfields K b true E (Some o) m E [] m o x C0 Hx (or_intror Hv) (or_intror eq_refl)) as C1. fold m1 m2 in C1.
      destruct (fold_weak_drop_keep (o_wfields x) m o x Hx) as (y1 & Hy1 & S1 & S2 & S3 & S4 & S5 & S6 & S7 & S8). fold m1 in Hy1.
      set (x2 := y1 <| o_wfields ::= fmap (fun _ => None) |>).
      assert (Hx2 : get m2 o = Some x2) by (apply get_upd_eq, Hy1).
      assert (Hd2 : forall o', inD m2 o' = inD m o').
      { intros o'. unfold inD. change (dead m2) with (dead m1). unfold m1. rewrite dead_fold_weak_drop. reflexivity. }
      assert (Hge : forall i t, (j <= i)%nat -> o_fields x !! i = Some (Some t) -> False).
      { intros i t Hi Hl. apply lookup_lt_Some in Hl. lia. }
      destruct (o_cleaner x) as [t|] eqn:Hcl.
      + set (m3 := upd o (fun x => x <| o_cleaner := None |>) m2).
        assert (C2 : Cur K b true E (Some o) m (t :: E) [] m3).
        { pose proof (Cur_set_cleaner K b true E (Some o) m E [] m2 o x2 None C1 Hx2) as C2.
          assert (Hc2 : o_cleaner x2 = Some t) by (unfold x2; cbn; congruence). rewrite Hc2 in C2.
          apply C2; [congruence | discriminate | right; unfold x2; cbn; congruence | right; reflexivity | unfold x2; cbn; congruence | auto]. }
        set (x3 := x2 <| o_cleaner := None |>).
        assert (Hx3 : get m3 o = Some x3) by (apply get_upd_eq, Hx2).
        assert (Hown : own_ok m3 t).
        { intros Hd. change (inD m3 t) with (inD m2 t) in Hd.
          assert (Hl : hloc m2 (Some o) true t) by (econstructor 4; [exact Hx2 | unfold x2; cbn; congruence]).
          destruct (sv_loc _ _ _ _ _ (cur_inv _ _ _ _ _ _ _ _ _ C1) _ _ _ Hl) as (xt & Hxt & _ & _ & Hc). destruct (Hc x2 Hx2) as [_ Hc2].
          destruct (Hc2 Hd) as (_ & _ & Hm). assert (Hv2 : o_vst x2 = VDropping) by (unfold x2; cbn; congruence). specialize (Hm Hv2).
          unfold m3. rewrite marked_at_upd by reflexivity. rewrite (marked_at_get m2 t xt Hxt). exact Hm. }
        pose proof (rec_post b E (KDropCc t) _ eq_refl (cur_nb _ _ _ _ _ _ _ _ _ C2) (cur_inv _ _ _ _ _ _ _ _ _ C2) Hown) as HP1.
        destruct (rec (KDropCc t) m3) as [m4 r1]. cbn [fst snd] in *.
        assert (Hfin : r1 = ONormal \/ r1 = OPanic -> post_own (KDropFields o j) m m4).
        { intros Hr. assert (HF : Fr K E None m3 m4) by (rewrite Post_nc in HP1 by reflexivity; destruct Hr as [-> | ->]; apply HP1).
          destruct (fr_obj _ _ _ _ _ HF o x3 Hx3) as (x4 & Hx4 & OF).
          assert (Hv3 : o_vst x3 = VDropping) by (unfold x3, x2; cbn; congruence).
          destruct (of_dropping _ _ _ _ _ _ _ OF Hv3) as (D1 & D2 & D3 & D4 & D5); [discriminate|].
          exists x, x4. split; [exact Hx|]. split; [exact Hx4|]. split; [exact D1|].
          split; [rewrite D4; unfold x3, x2; cbn; congruence|].
          split; [intros Hd; specialize (D5 Hd); change (inD m3 o) with (inD m2 o) in D5; rewrite Hd2 in D5; exact D5|].
          assert (Hf4 : o_fields x4 = o_fields x) by (rewrite D2; unfold x3, x2; cbn; congruence).
          split; [intros i _; rewrite Hf4; reflexivity|]. split; [intros i t' Hi; rewrite Hf4; apply Hge, Hi|].
          rewrite D3. reflexivity. }
        destruct r1; try triv_post.
        * destruct (Cur_call_n K PostC (KDropCc t) _ _ _ _ _ _ _ _ _ eq_refl C2 HP1 (cnt_le_refl E) (or_introl eq_refl)) as [C3 _].
          eapply Post_intro; [reflexivity | exact C3 | apply Hfin; auto | auto].
        * destruct (Cur_call_p K PostC (KDropCc t) _ _ _ _ _ _ _ _ _ eq_refl C2 HP1 (cnt_le_refl E) (or_introl eq_refl)) as [C3 _].
          eapply Post_intro; [reflexivity | exact C3 | apply Hfin; auto | discriminate].
      + cbn [fst snd]. eapply Post_intro; [reflexivity | exact C1 | | auto].
        exists x, x2. split; [exact Hx|]. split; [exact Hx2|]. split; [unfold x2; cbn; congruence|].
        split; [unfold x2; cbn; congruence|]. split; [rewrite Hd2; auto|].
        assert (Hf2 : o_fields x2 = o_fields x) by (unfold x2; cbn; congruence).
        split; [intros i _; rewrite Hf2; reflexivity|]. split; [intros i t' Hi; rewrite Hf2; apply Hge, Hi|].
        unfold x2. cbn. congruence.
  Qed.
  (** *** drop of a CleanerMap's value: the occupied slots in order *)
  Lemma step_drop_map_slots_ok b E o j m :
    Pre K PreC b E (KDropMapSlots o j) m -> PostOf b E (KDropMapSlots o j) m (step_drop_map_slots rec o j m).
  Proof.
    rewrite Pre_nc by reflexivity. cbn [own_of app]. intros (Hnb & HI & x & Hx & Hv).
    pose proof (Cur_init K b true E (Some o) E [] m Hnb HI) as C0.
    unfold step_drop_map_slots. rewrite Hx.
    assert (Hrefl : post_own (KDropMapSlots o j) m m).
    { split; [intros; apply ot_refl|]. exists x, x. repeat split; auto. }
    destruct (o_mslots x !! j) as [sl|] eqn:Hsl; [|cbn [fst snd]; eapply Post_intro; [reflexivity | exact C0 | exact Hrefl | auto]].
    set (f := fun x : obj => x <| o_mslots ::= <[j := MVacant]> |>).
    set (m1 := upd o f m).
    assert (C1 : Cur K b true E (Some o) m E [] m1).
    { eapply (Cur_upd_hs K b true E (Some o) m E [] E [] m o f x C0 Hx (or_intror Hv)); try reflexivity; try (intros H; exact H); auto.
      - apply (sv_obj _ _ _ _ _ HI _ _ Hx).
      - eapply ObjXp_nohdr; [apply (sv_objx _ _ _ _ _ HI _ _ Hx) | reflexivity ..|].
        intros Hk. apply (sv_objx _ _ _ _ _ HI _ _ Hx), Hk.
      - intros Hin. destruct (sv_pc _ _ _ _ _ HI _ Hin) as (y & Hy & _ & Hvy & _). congruence. }
    set (x1 := f x).
    assert (Hx1 : get m1 o = Some x1) by (apply get_upd_eq, Hx).
    assert (Hv1 : o_vst x1 = VDropping) by exact Hv.
    assert (Hfin : forall m2 m3 x2, post_own (KDropMapSlots o (S j)) m2 m3 ->
               get m2 o = Some x2 -> o_fields x2 = o_fields x -> o_cleaner x2 = o_cleaner x -> o_box x2 = o_box x ->
               (inD m2 o = true -> inD m o = true) -> post_own (KDropMapSlots o j) m m3).
    { intros m2 m3 x2 (_ & y2 & x3 & Hy2 & Hx3 & V3 & B3 & D3 & F3 & Cl3) Hx2 F2 Cl2 B2 D2.
      assert (y2 = x2) by congruence. subst y2.
      split; [intros y Hy Hn; assert (y = x) by congruence; subst; congruence|].
      exists x, x3. split; [exact Hx|]. split; [exact Hx3|]. split; [exact V3|].
      split; [congruence|]. split; [auto|]. split; congruence. }
    (* the action of the slot, if any *)
    assert (Hmid : forall m2 r1,
               (match sl with MAction aid script => rec (KCleanRun o aid script) m1 | MVacant => (m1, ONormal) end) = (m2, r1) ->
               (r1 = ONormal -> Cur K b true E (Some o) m E [] m2) /\ (r1 = OPanic -> Cur K false false E (Some o) m E [] m2) /\
               (r1 = ONormal \/ r1 = OPanic -> exists x2, get m2 o = Some x2 /\ o_vst x2 = VDropping /\ o_fields x2 = o_fields x /\
                    o_cleaner x2 = o_cleaner x /\ o_box x2 = o_box x /\ (inD m2 o = true -> inD m o = true))).
    { intros m2 r1 Hcall. destruct sl as [|aid script].
      - injection Hcall as <- <-. split; [auto|]. split; [discriminate|]. intros _. exists x1. repeat split; auto.
      - pose proof (rec_post b E (KCleanRun o aid script) _ eq_refl (cur_nb _ _ _ _ _ _ _ _ _ C1) (cur_inv _ _ _ _ _ _ _ _ _ C1) I) as HP1.
        rewrite Hcall in HP1. cbn [fst snd] in HP1.
        assert (HF : r1 = ONormal \/ r1 = OPanic -> Fr K E None m1 m2).
        { rewrite Post_nc in HP1 by reflexivity. intros [-> | ->]; apply HP1. }
        split; [|split].
        + intros ->. apply (Cur_call_n K PostC (KCleanRun o aid script) _ _ _ _ _ _ _ _ _ eq_refl C1 HP1 (cnt_le_refl E) (or_introl eq_refl)).
        + intros ->. apply (Cur_call_p K PostC (KCleanRun o aid script) _ _ _ _ _ _ _ _ _ eq_refl C1 HP1 (cnt_le_refl E) (or_introl eq_refl)).
        + intros Hr. destruct (fr_obj _ _ _ _ _ (HF Hr) o x1 Hx1) as (x2 & Hx2 & OF).
          destruct (of_dropping _ _ _ _ _ _ _ OF Hv1) as (D1 & D2 & D3 & D4 & D5); [discriminate|].
          exists x2. repeat split; auto; try congruence. }
    destruct (match sl with MAction aid script => rec (KCleanRun o aid script) m1 | MVacant => (m1, ONormal) end) as [m2 r1] eqn:Hcall.
    destruct (Hmid m2 r1 eq_refl) as (HN & HPn & HX).
    destruct r1; cbn [fst snd]; try triv_post.
    - specialize (HN eq_refl). destruct (HX (or_introl eq_refl)) as (x2 & Hx2 & V2 & F2 & Cl2 & B2 & D2).
      pose proof (rec_post b E (KDropMapSlots o (S j)) _ eq_refl (cur_nb _ _ _ _ _ _ _ _ _ HN) (cur_inv _ _ _ _ _ _ _ _ _ HN)
                    (ex_intro _ x2 (conj Hx2 V2))) as HP2.
      destruct (rec (KDropMapSlots o (S j)) m2) as [m3 r2]. cbn [fst snd] in *.
      destruct r2; try triv_post.
      + destruct (Cur_call_n K PostC (KDropMapSlots o (S j)) _ _ _ _ _ _ _ _ _ eq_refl HN HP2 (cnt_le_refl E) (or_intror eq_refl)) as [C3 Ho3].
        eapply Post_intro; [reflexivity | exact C3 | eapply Hfin; eauto | auto].
      + destruct (Cur_call_p K PostC (KDropMapSlots o (S j)) _ _ _ _ _ _ _ _ _ eq_refl HN HP2 (cnt_le_refl E) (or_intror eq_refl)) as [C3 Ho3].
        eapply Post_intro; [reflexivity | exact C3 | eapply Hfin; eauto | discriminate].
    - specialize (HPn eq_refl). destruct (HX (or_intror eq_refl)) as (x2 & Hx2 & V2 & F2 & Cl2 & B2 & D2).
      apply (unwinding_post b E (KDropMapSlots o j) (KDropMapSlots o (S j)) m m2 eq_refl eq_refl HPn).
      + intros m2' C2' ->. apply (rec_post false E (KDropMapSlots o (S j)) _ eq_refl (cur_nb _ _ _ _ _ _ _ _ _ C2') (cur_inv _ _ _ _ _ _ _ _ _ C2')).
        exists x2. split; [exact Hx2 | exact V2].
      + right. reflexivity.
      + intros m3 Ho3 _. destruct Ho3 as (Hq3 & y2 & x3 & Hy2 & Hx3 & R).
        eapply (Hfin m2 _ x2); [| exact Hx2 | exact F2 | exact Cl2 | exact B2 | exact D2].
        split; [intros y Hy Hn p Hp; apply (Hq3 y Hy Hn p Hp)|].
        exists y2, x3. split; [exact Hy2|]. split; [exact Hx3 | exact R].
  Qed.
  (** [unwinding] never returns normally; what is known when it returns with a panic *)
  Lemma unwinding_cur E ex0 c m m1 m3 r3 :
    is_coll c = false ->
    Cur K false false E ex0 m (own_of c ++ E) [] m1 ->
    (forall m1', Cur K false false E ex0 m (own_of c ++ E) [] m1' -> m1' = m1 <| panicking := true |> ->
       PostOf false E c m1' (rec c m1')) ->
    (ex_of c = None \/ ex0 = ex_of c) ->
    unwinding (rec c) m1 = (m3, r3) ->
    r3 <> ONormal /\
    (r3 = OPanic -> exists m2, m3 = m2 <| panicking := panicking m1 |> /\
        Cur K false false E ex0 m E [] m3 /\ post_own c (m1 <| panicking := true |>) m2 /\
        Fr K E (ex_of c) (m1 <| panicking := true |>) m2).
  Proof.
    intros Hc C Hcall Hex. unfold unwinding.
    assert (C1 : Cur K false false E ex0 m (own_of c ++ E) [] (m1 <| panicking := true |>)).
    { eapply Cur_ieq; [exact C | repeat split | apply C]. }
    specialize (Hcall _ C1 eq_refl).
    destruct (rec c (m1 <| panicking := true |>)) as [m2 r2]. cbn [fst snd] in *. intros [= <- <-].
    destruct r2.
    - destruct (Cur_call_n K PostC c _ _ _ _ _ _ _ _ _ Hc C1 Hcall (cnt_le_refl E) Hex) as [C2 Ho].
      split; [destruct (panicking m1); discriminate|]. intros Hr. exists m2. split; [reflexivity|].
      split; [eapply Cur_ieq; [exact C2 | repeat split | apply C2]|]. split; [exact Ho|].
      rewrite Post_nc in Hcall by exact Hc. apply Hcall.
    - destruct (Cur_call_p K PostC c _ _ _ _ _ _ _ _ _ Hc C1 Hcall (cnt_le_refl E) Hex) as [C2 Ho].
      split; [destruct (panicking m1); discriminate|]. intros Hr. exists m2. split; [reflexivity|].
      split; [eapply Cur_ieq; [exact C2 | repeat split | apply C2]|]. split; [exact Ho|].
      rewrite Post_nc in Hcall by exact Hc. apply Hcall.
    - split; discriminate.
    - split; discriminate.
  Qed.

  Hypothesis Hwf : wf_prog P = true.

  Lemma wf_drop_script cls : forallb cmd_no_self (oscript P (c_drop (class_of P cls))) = true.
  Proof.
    unfold class_of. destruct (p_classes P !! cls) as [c|] eqn:Hc; cbn [default]; [|reflexivity].
    unfold wf_prog in Hwf. rewrite forallb_forall in Hwf.
    specialize (Hwf c (proj1 (elem_of_list_In _ _) (elem_of_list_lookup_2 _ _ _ Hc))).
    unfold oscript, script_of. change (Datatypes.id c) with c. destruct (c_drop c); [exact Hwf | reflexivity].
  Qed.

  (** *** drop of a value: Drop impl, then the drop glue *)
  Lemma drop_value_finish b b' n' E o m x m3 x3 r :
    get m o = Some x ->
    Cur K b' n' E (Some o) m E [] m3 -> get m3 o = Some x3 -> o_vst x3 = VDropping ->
    (forall jj t, o_fields x3 !! jj = Some (Some t) -> False) -> o_cleaner x3 = None ->
    o_box x3 = o_box x -> (inD m3 o = true -> inD m o = true) ->
    (r = ONormal -> b' = b /\ n' = true) ->
    (o_ismap x = true -> o_mslots x = [] -> only_touches o m m3) ->
    Post K PostC b E (KDropValue o) m (upd o (fun x => x <| o_vst := VDropped |>) m3) r.
  Proof.
    intros Hx C3 Hx3 V3 F3 Cl3 B3 D3 Hn Hq.
    pose proof (Cur_vst_dropped K b' n' E m E [] m3 o x3 C3 Hx3 V3 F3 Cl3) as C4.
    eapply Post_intro; [reflexivity | exact C4 | | exact Hn].
    split.
    { intros y Hy Hm Hs. assert (y = x) by congruence. subst y.
      eapply ot_trans; [apply Hq; assumption | eapply ot_alter; reflexivity]. }
    exists x, (x3 <| o_vst := VDropped |>). split; [exact Hx|]. split; [apply get_upd_eq, Hx3|].
    split; [reflexivity|]. split; [exact B3 | exact D3].
  Qed.

  Lemma drop_value_node b E o m m1 x x1 :
    get m o = Some x -> Cur K b true E (Some o) m E [] m1 -> get m1 o = Some x1 -> o_vst x1 = VDropping ->
    o_fields x1 = o_fields x -> o_cleaner x1 = o_cleaner x -> o_box x1 = o_box x -> o_cls x1 = o_cls x ->
    (forall o', inD m1 o' = inD m o') -> o_ismap x = false ->
    PostOf b E (KDropValue o) m
      (let m := emit (ECb KDrop o (cur_flags K m1)) m1 in
       let '(m, boom) := tick KDrop m in
       let '(m, r) := if boom then (m, raise m)
                      else rec (KScript (Some o) (oscript P (c_drop (class_of P (o_cls x))))) m in
       let '(m, r) :=
         match r with
         | ONormal => rec (KDropFields o 0) m
         | OPanic => unwinding (rec (KDropFields o 0)) m
         | _ => (m, r)
         end in
       (upd o (fun x => x <| o_vst := VDropped |>) m, r)).
  Proof.
    intros Hx C1 Hx1 Hv1 Hf1 Hc1 Hb1 Hcl1 Hd1 Hnm.
    set (script := oscript P (c_drop (class_of P (o_cls x)))).
    assert (Hgoal : forall mm (rr : outcome), rr = OAbort \/ rr = OFuel -> Post K PostC b E (KDropValue o) m mm rr).
    { intros mm rr [-> | ->]; rewrite Post_nc by reflexivity; exact I. }
    cbv zeta.
    pose proof (Cur_tick _ _ _ _ _ _ _ _ KDrop (Cur_emit K _ _ _ _ _ _ _ _ (ECb KDrop o (cur_flags K m1)) C1 eq_refl)) as C2.
    assert (Hg2 : forall o', get (tick KDrop (emit (ECb KDrop o (cur_flags K m1)) m1)).1 o' = get m1 o')
      by (intros o'; unfold tick; destruct (get_fuse KDrop _ =? 0); reflexivity).
    assert (Hd2 : forall o', inD (tick KDrop (emit (ECb KDrop o (cur_flags K m1)) m1)).1 o' = inD m o')
      by (intros o'; rewrite <- Hd1; unfold tick; destruct (get_fuse KDrop _ =? 0); reflexivity).
    destruct (tick KDrop (emit (ECb KDrop o (cur_flags K m1)) m1)) as [m2 boom]; cbn [fst] in C2, Hg2, Hd2.
    assert (Hx2 : get m2 o = Some x1) by (rewrite Hg2; exact Hx1).
    assert (Hscript : forall m3 r, (if boom then (m2, raise m2) else rec (KScript (Some o) script) m2) = (m3, r) ->
           (r = ONormal -> Cur K b true E (Some o) m E [] m3) /\
           (r = OPanic -> Cur K false false E (Some o) m E [] m3) /\
           (r = ONormal \/ r = OPanic -> exists x3, get m3 o = Some x3 /\ o_vst x3 = VDropping /\
               o_fields x3 = o_fields x /\ o_cleaner x3 = o_cleaner x /\ o_box x3 = o_box x /\
               (inD m3 o = true -> inD m o = true))).
    { intros m3 r Hres. destruct boom.
      - injection Hres as <- <-. split; [unfold raise; destruct (panicking m2); discriminate|].
        split; [intros _; eapply Cur_weaken; exact C2|].
        intros _. exists x1. rewrite Hd2. repeat split; auto.
      - pose proof (rec_post b E (KScript (Some o) script) _ eq_refl (cur_nb _ _ _ _ _ _ _ _ _ C2) (cur_inv _ _ _ _ _ _ _ _ _ C2)) as HP1.
        cbn beta iota in HP1.
        assert (Hso : self_ok E (Some o) script m2) by (right; split; [apply wf_drop_script | exists x1; auto]).
        specialize (HP1 Hso). rewrite Hres in HP1. cbn [fst snd] in HP1.
        assert (HF : r = ONormal \/ r = OPanic -> Fr K E None m2 m3)
          by (rewrite Post_nc in HP1 by reflexivity; intros [-> | ->]; apply HP1).
        split; [intros ->; apply (Cur_call_n K PostC (KScript (Some o) script) _ _ _ _ _ _ _ _ _ eq_refl C2 HP1 (cnt_le_refl E) (or_introl eq_refl))|].
        split; [intros ->; apply (Cur_call_p K PostC (KScript (Some o) script) _ _ _ _ _ _ _ _ _ eq_refl C2 HP1 (cnt_le_refl E) (or_introl eq_refl))|].
        intros Hr. destruct (fr_obj _ _ _ _ _ (HF Hr) o x1 Hx2) as (x3 & Hx3 & OF).
        destruct (of_dropping _ _ _ _ _ _ _ OF Hv1) as (D1 & D2 & D3 & D4 & D5); [discriminate|].
        exists x3. rewrite Hd2 in D5. repeat split; auto; congruence. }
    destruct (if boom then (m2, raise m2) else rec (KScript (Some o) script) m2) as [m3 r] eqn:Hres.
    destruct (Hscript m3 r eq_refl) as (HN & HPn & HX). clear Hscript.
    destruct r; [ | | apply Hgoal; auto | apply Hgoal; auto].
    - (* normal return of the Drop impl *)
      specialize (HN eq_refl). destruct (HX (or_introl eq_refl)) as (x3 & Hx3 & V3 & F3 & Cl3 & B3 & D3).
      pose proof (rec_post b E (KDropFields o 0) _ eq_refl (cur_nb _ _ _ _ _ _ _ _ _ HN) (cur_inv _ _ _ _ _ _ _ _ _ HN)
                    (ex_intro _ x3 (conj Hx3 V3))) as HP2.
      destruct (rec (KDropFields o 0) m3) as [m4 r2]. cbn [fst snd] in *.
      destruct r2; [ | | apply Hgoal; auto | apply Hgoal; auto].
      + destruct (Cur_call_n K PostC (KDropFields o 0) _ _ _ _ _ _ _ _ _ eq_refl HN HP2 (cnt_le_refl E) (or_intror eq_refl)) as [C4 Ho4].
        destruct Ho4 as (y3 & x4 & Hy3 & Hx4 & V4 & B4 & D4 & L4 & G4 & Cl4). assert (y3 = x3) by congruence. subst y3.
        eapply (drop_value_finish b _ _ E o m x m4 x4 _ Hx C4 Hx4 V4); [ | exact Cl4 | congruence | | auto | congruence ].
        * intros jj t. apply G4. lia.
        * intros Hd. apply D3, D4, Hd.
      + destruct (Cur_call_p K PostC (KDropFields o 0) _ _ _ _ _ _ _ _ _ eq_refl HN HP2 (cnt_le_refl E) (or_intror eq_refl)) as [C4 Ho4].
        destruct Ho4 as (y3 & x4 & Hy3 & Hx4 & V4 & B4 & D4 & L4 & G4 & Cl4). assert (y3 = x3) by congruence. subst y3.
        eapply (drop_value_finish b _ _ E o m x m4 x4 _ Hx C4 Hx4 V4); [ | exact Cl4 | congruence | | discriminate | congruence ].
        * intros jj t. apply G4. lia.
        * intros Hd. apply D3, D4, Hd.
    - (* the Drop impl panicked: the glue runs while unwinding *)
      specialize (HPn eq_refl). destruct (HX (or_intror eq_refl)) as (x3 & Hx3 & V3 & F3 & Cl3 & B3 & D3).
      destruct (unwinding (rec (KDropFields o 0)) m3) as [m4 r2] eqn:Hunw.
      destruct (unwinding_cur E (Some o) (KDropFields o 0) m m3 m4 r2 eq_refl HPn) as [Hnn Hpp].
      + intros m3' C3' ->. apply (rec_post false E (KDropFields o 0) _ eq_refl (cur_nb _ _ _ _ _ _ _ _ _ C3') (cur_inv _ _ _ _ _ _ _ _ _ C3')).
        exists x3. split; [exact Hx3 | exact V3].
      + right. reflexivity.
      + exact Hunw.
      + destruct r2; [congruence | | apply Hgoal; auto | apply Hgoal; auto].
        destruct (Hpp eq_refl) as (m4' & -> & C4 & Ho4 & _).
        destruct Ho4 as (y3 & x4 & Hy3 & Hx4 & V4 & B4 & D4 & L4 & G4 & Cl4).
        assert (y3 = x3) by (change (get (m3 <| panicking := true |>) o) with (get m3 o) in Hy3; congruence). subst y3.
        eapply (drop_value_finish b _ _ E o m x _ x4 _ Hx C4 Hx4 V4); [ | exact Cl4 | congruence | | discriminate | congruence ].
        * intros jj t. apply G4. lia.
        * intros Hd. apply D3, D4, Hd.
  Qed.

  Lemma step_drop_value_ok b E o m :
    Pre K PreC b E (KDropValue o) m -> PostOf b E (KDropValue o) m (step_drop_value K P rec o m).
  Proof.
    rewrite Pre_nc by reflexivity. cbn [own_of app]. intros (Hnb & HI & Hdr).
    pose proof (Cur_init K b true E (Some o) E [] m Hnb HI) as C0.
    pose proof (Cur_vst_dropping K b true E m E [] m o C0 Hdr) as C1.
    destruct Hdr as (x & Hx & He0 & Hdr).
    assert (Hvst : o_vst x = VLive \/ o_vst x = VMoved).
    { destruct (o_box x); [left; exact Hdr | left; apply Hdr | right; apply Hdr]. }
    unfold step_drop_value. rewrite Hx.
    set (m1 := upd o (fun x => x <| o_vst := VDropping |>) m) in *.
    set (x1 := x <| o_vst := VDropping |>).
    assert (Hx1 : get m1 o = Some x1) by (apply get_upd_eq, Hx).
    assert (Hv1 : o_vst x1 = VDropping) by reflexivity.
    assert (Hmain : PostOf b E (KDropValue o) m
      (if o_ismap x
       then let '(m2, r) := rec (KDropMapSlots o 0) m1 in (upd o (fun x => x <| o_vst := VDropped |>) m2, r)
       else let m := emit (ECb KDrop o (cur_flags K m1)) m1 in
            let '(m, boom) := tick KDrop m in
            let '(m, r) := if boom then (m, raise m)
                           else rec (KScript (Some o) (oscript P (c_drop (class_of P (o_cls x))))) m in
            let '(m, r) :=
              match r with
              | ONormal => rec (KDropFields o 0) m
              | OPanic => unwinding (rec (KDropFields o 0)) m
              | _ => (m, r)
              end in
            (upd o (fun x => x <| o_vst := VDropped |>) m, r))).
    { destruct (o_ismap x) eqn:Hmap.
      - pose proof (rec_post b E (KDropMapSlots o 0) _ eq_refl (cur_nb _ _ _ _ _ _ _ _ _ C1) (cur_inv _ _ _ _ _ _ _ _ _ C1)
                      (ex_intro _ x1 (conj Hx1 Hv1))) as HP1.
        destruct (rec (KDropMapSlots o 0) m1) as [m2 r1]. cbn [fst snd] in *.
        destruct (sv_objx _ _ _ _ _ HI _ _ Hx) as [_ _ _ _ X5 _]. destruct (X5 Hmap) as (Hf0 & Hc0 & _).
        destruct r1; try triv_post.
        + destruct (Cur_call_n K PostC (KDropMapSlots o 0) _ _ _ _ _ _ _ _ _ eq_refl C1 HP1 (cnt_le_refl E) (or_intror eq_refl)) as [C2 Ho2].
          destruct Ho2 as (Hq2 & y1 & x2 & Hy1 & Hx2 & V2 & B2 & D2 & F2 & Cl2). assert (y1 = x1) by congruence. subst y1.
          eapply (drop_value_finish b _ _ E o m x m2 x2 _ Hx C2 Hx2 V2); [ | | | | auto | ].
          * intros jj t. rewrite F2. unfold x1. cbn. rewrite Hf0. discriminate.
          * rewrite Cl2. unfold x1. cbn. exact Hc0.
          * rewrite B2. reflexivity.
          * intros Hd. apply D2, Hd.
          * intros _ Hs. apply (ot_trans o m m1 m2); [apply (ot_alter o (fun x => x <| o_vst := VDropping |>)); reflexivity|]. apply (Hq2 x1 Hx1). unfold x1. cbn. rewrite Hs. reflexivity.
        + destruct (Cur_call_p K PostC (KDropMapSlots o 0) _ _ _ _ _ _ _ _ _ eq_refl C1 HP1 (cnt_le_refl E) (or_intror eq_refl)) as [C2 Ho2].
          destruct Ho2 as (Hq2 & y1 & x2 & Hy1 & Hx2 & V2 & B2 & D2 & F2 & Cl2). assert (y1 = x1) by congruence. subst y1.
          eapply (drop_value_finish b _ _ E o m x m2 x2 _ Hx C2 Hx2 V2); [ | | | | discriminate | ].
          * intros jj t. rewrite F2. unfold x1. cbn. rewrite Hf0. discriminate.
          * rewrite Cl2. unfold x1. cbn. exact Hc0.
          * rewrite B2. reflexivity.
          * intros Hd. apply D2, Hd.
          * intros _ Hs. apply (ot_trans o m m1 m2); [apply (ot_alter o (fun x => x <| o_vst := VDropping |>)); reflexivity|]. apply (Hq2 x1 Hx1). unfold x1. cbn. rewrite Hs. reflexivity.
      - apply (drop_value_node b E o m m1 x x1 Hx C1 Hx1 Hv1); try reflexivity. exact Hmap. }
    destruct Hvst as [Hv|Hv]; rewrite Hv; exact Hmain.
  Qed.
  (** *** Cc::drop: the last part (the strong count reaches zero) *)
  Lemma drop_cc_tail b E o m0 mg xg :
    Cur K b true E None m0 (o :: E) [] mg ->
    get mg o = Some xg -> o_box xg = BAlloc -> o_vst xg = VLive -> inD mg o = false ->
    marked xg = false -> h_rc (o_hdr xg) = 1 -> is_dropped (o_hdr xg) = false ->
    (forall x0, get m0 o = Some x0 -> o_ismap x0 = true -> o_mslots x0 = [] ->
       only_touches o m0 mg /\ o_ismap xg = true /\ o_mslots xg = []) ->
    PostOf b E (KDropCc o) m0
      (let m := dec_rc_m o mg in
       let m := remove_from_list o m in
       let old_d := st_dropping m in
       let m := m <| st_dropping := true |> in
       let m := if k_weak K then uhdr o set_dropped m else m in
       let '(m, r) := rec (KDropValue o) m in
       match r with
       | ONormal =>
         let m := drop_metadata K o m in
         let m := dealloc K o m in
         (m <| st_dropping := old_d |>, ONormal)
       | _ => (m <| st_dropping := old_d |>, r)
       end).
  Proof.
    intros Cg Hxg Hbg Hvg Hig Hmg Hrg Hdg Hq0. cbv zeta.
    (* decrement *)
    pose proof (Cur_dec_rc K _ _ _ _ _ _ _ _ _ Cg) as C1.
    rewrite (dec_rc_m_eq mg o xg Hxg) in * by (rewrite Hrg; discriminate).
    set (x1 := xg <| o_hdr ::= fun _ => set_rc (h_rc (o_hdr xg) - 1) (o_hdr xg) |>).
    set (m1 := uhdr o (fun _ => set_rc (h_rc (o_hdr xg) - 1) (o_hdr xg)) mg) in *.
    assert (Hx1 : get m1 o = Some x1) by (apply get_upd_eq, Hxg).
    (* un-buffer *)
    pose proof (Cur_remove_from_list K _ _ _ _ _ _ _ _ o x1 C1 Hx1 Hbg) as C2.
    destruct (remove_from_list_obj m1 o x1 Hx1) as (x2 & Hx2 & (S1 & S2 & S3 & S4 & S5 & S6 & S7 & S8 & S9) & R1 & R2 & R3 & R4 & R5 & R6).
    set (m2 := remove_from_list o m1) in *.
    assert (Hrc2 : h_rc (o_hdr x2) = 0) by (rewrite R1; unfold x1; cbn; rewrite Hrg; reflexivity).
    assert (Hb2 : o_box x2 = BAlloc) by (rewrite S2; exact Hbg).
    assert (Hv2 : o_vst x2 = VLive) by (rewrite S1; exact Hvg).
    assert (Hi2 : inD m2 o = false) by (unfold inD; rewrite R6; exact Hig).
    assert (Hm2 : marked x2 = false) by (apply R4; exact Hmg).
    assert (Hd2 : is_dropped (o_hdr x2) = false) by (unfold is_dropped; rewrite R2; exact Hdg).
    assert (Hnpc : o ∉ pc m2) by (apply (remove_from_list_notin K b E [] m1 o (cur_inv _ _ _ _ _ _ _ _ _ C1))).
    pose proof (cur_inv _ _ _ _ _ _ _ _ _ C2) as HI2.
    assert (He0 : cnt_id o E = 0%nat).
    { destruct (okN_alloc K _ _ _ _ _ (sv_obj _ _ _ _ _ HI2 _ _ Hx2)) as (O1 & _); [congruence|]. rewrite Hrc2 in O1. lia. }
    (* the rest is done relative to [m2] with [o] as the own object, then joined *)
    pose proof (Cur_init K b true E (Some o) E [] m2 (cur_nb _ _ _ _ _ _ _ _ _ C2) HI2) as D0.
    pose proof (Cur_set_dropping_true K _ _ _ _ _ _ _ _ D0) as D1.
    set (m3 := m2 <| st_dropping := true |>) in *.
    assert (Hx3 : get m3 o = Some x2) by exact Hx2.
    set (m4 := if k_weak K then uhdr o set_dropped m3 else m3).
    assert (D2 : Cur K b true E (Some o) m2 E [] m4 /\
                 exists x4, get m4 o = Some x4 /\ o_box x4 = BAlloc /\ o_vst x4 = VLive /\ h_rc (o_hdr x4) = 0 /\
                            (k_weak K = true -> is_dropped (o_hdr x4) = true) /\ inD m4 o = false /\ o ∉ pc m4 /\
                            o_ismap x4 = o_ismap xg /\ o_mslots x4 = o_mslots xg).
    { unfold m4. destruct (k_weak K) eqn:Hk.
      - split.
        + apply (Cur_set_dropped K _ _ _ _ _ _ _ _ o x2 D1 Hx3); auto; congruence.
        + exists (x2 <| o_hdr ::= set_dropped |>). split; [apply get_upd_eq, Hx3|]. cbn. repeat split; auto; congruence.
      - split; [exact D1|]. exists x2. repeat split; auto; try congruence; try discriminate. }
    destruct D2 as (D2 & x4 & Hx4 & Hb4 & Hv4 & Hrc4 & Hdr4 & Hi4 & Hpc4 & Hmp4 & Hms4).
    assert (Hot4 : only_touches o mg m4).
    { apply (ot_trans o mg m1 m4); [apply (ot_alter o (fun x => x <| o_hdr ::= fun _ => set_rc (h_rc (o_hdr xg) - 1) (o_hdr xg) |>)); reflexivity|].
      apply (ot_trans o m1 m2 m4); [apply ot_remove_from_list|]. apply (ot_trans o m2 m3 m4); [apply ot_heap; reflexivity|].
      unfold m4. destruct (k_weak K); [apply (ot_alter o (fun x => x <| o_hdr ::= set_dropped |>)); reflexivity | apply ot_refl]. }
    assert (Hdroppable : droppable K E m4 o).
    { exists x4. split; [exact Hx4|]. split; [exact He0|]. rewrite Hb4. split; [exact Hv4|]. split; [exact Hdr4|]. left. auto. }
    pose proof (rec_post b E (KDropValue o) _ eq_refl (cur_nb _ _ _ _ _ _ _ _ _ D2) (cur_inv _ _ _ _ _ _ _ _ _ D2) Hdroppable) as HP.
    destruct (rec (KDropValue o) m4) as [m5 r]. cbn [fst snd] in *.
    (* closing the frame: what is needed of [o] *)
    assert (Hclose : forall bb nn mf, Cur K bb nn E (Some o) m2 E [] mf ->
              (forall xf, get mf o = Some xf -> o_vst xf <> VDropping) ->
              Cur K bb nn E None m0 E [] mf).
    { intros bb nn mf Df Hvf.
      assert (Df' : Cur K bb nn E None m2 E [] mf).
      { apply (Cur_close_ex K _ _ _ o _ _ _ _ Df). intros y y' Hy Hy'. assert (y = x2) by congruence. subst y.
        split; [congruence|]. split; [congruence|]. split; [congruence|]. split; [apply Hvf, Hy'|].
        split; [intros _ [Hp|[Hp _]]; [lia | congruence] | congruence]. }
      pose proof (Cur_join K _ _ _ _ _ _ _ _ _ _ _ _ _ C2 Df') as J. rewrite andb_true_l in J. exact J. }
    destruct r; try triv_post.
    - (* the value was dropped: free the box *)
      destruct (Cur_call_n K PostC (KDropValue o) _ _ _ _ _ _ _ _ _ eq_refl D2 HP (cnt_le_refl E) (or_intror eq_refl)) as [D3 Ho].
      destruct Ho as (Hq5 & y4 & x5 & Hy4 & Hx5 & Hv5 & Hb5 & Hi5). assert (y4 = x4) by congruence. subst y4.
      assert (Hi5' : inD m5 o = false) by (destruct (inD m5 o) eqn:Ei; [rewrite (Hi5 eq_refl) in Hi4; discriminate | reflexivity]).
      assert (Hz5 : (refs m5 o + cnt_id o E = 0)%nat).
      { pose proof (cur_inv _ _ _ _ _ _ _ _ _ D3) as HI5.
        destruct (sv_objx _ _ _ _ _ HI5 _ _ Hx5) as [_ X2 _ _ _ _].
        assert (Hr5 : h_rc (o_hdr x5) = 0) by (apply X2; [congruence | unfold dying; rewrite Hv5; reflexivity | exact Hi5']).
        destruct (okN_alloc K _ _ _ _ _ (sv_obj _ _ _ _ _ HI5 _ _ Hx5)) as (O1 & _); [congruence|]. rewrite Hr5 in O1. lia. }
      assert (Hnu5 : o_vst x5 <> VUninit) by congruence.
      pose proof (Cur_free K _ _ _ _ _ _ _ m5 o x5 D3 Hx5) as D4.
      specialize (D4 ltac:(congruence) Hz5 ltac:(unfold is_live; rewrite Hv5; reflexivity) ltac:(congruence) (or_intror (or_intror eq_refl))).
      pose proof (Cur_restore_dropping K _ _ _ _ _ _ _ _ _ _ _ D4 HI2) as D5.
      cbn [fst snd]. change (st_dropping m2) with (st_dropping (remove_from_list o m1)) in D5.
      eapply Post_intro; [reflexivity | apply (Hclose _ _ _ D5) | | auto].
      2: { intros x0 Hx0 Hm0 Hs0. destruct (Hq0 x0 Hx0 Hm0 Hs0) as (Hot0 & Hmg' & Hsg').
           apply (ot_trans o m0 mg _ Hot0). apply (ot_trans o mg m4 _ Hot4).
           apply (ot_trans o m4 m5 _ (Hq5 x4 Hx4 ltac:(congruence) ltac:(congruence))).
           apply (ot_trans o m5 (drop_metadata K o m5) _ (ot_drop_metadata o m5)).
           apply (ot_trans o _ (dealloc K o (drop_metadata K o m5)) _ (ot_dealloc o _)). apply ot_heap. reflexivity. }
      intros xf Hxf.
      assert (Hgf : exists y, get (dealloc K o (drop_metadata K o m5)) o = Some y /\ o_vst y = o_vst x5).
      { destruct (drop_metadata_vst K m5 o x5 Hx5) as (y1 & Hy1 & Hv1).
        destruct (dealloc_vst K _ o y1 Hy1) as (y2 & Hy2 & Hv2'). exists y2. split; [exact Hy2 | congruence]. }
      destruct Hgf as (y & Hy & Hvy). change (get (dealloc K o (drop_metadata K o m5) <| st_dropping := st_dropping (remove_from_list o m1) |>) o)
        with (get (dealloc K o (drop_metadata K o m5)) o) in Hxf. assert (xf = y) by congruence. subst. congruence.
    - (* the value drop panicked: the box is leaked *)
      destruct (Cur_call_p K PostC (KDropValue o) _ _ _ _ _ _ _ _ _ eq_refl D2 HP (cnt_le_refl E) (or_intror eq_refl)) as [D3 Ho].
      destruct Ho as (Hq5 & y4 & x5 & Hy4 & Hx5 & Hv5 & Hb5 & Hi5).
      pose proof (Cur_restore_dropping K _ _ _ _ _ _ _ _ _ _ _ D3 HI2) as D5.
      cbn [fst snd]. eapply Post_intro; [reflexivity | apply (Hclose _ _ _ D5) | | discriminate].
      2: { intros x0 Hx0 Hm0 Hs0. destruct (Hq0 x0 Hx0 Hm0 Hs0) as (Hot0 & Hmg' & Hsg').
           apply (ot_trans o m0 mg _ Hot0). apply (ot_trans o mg m4 _ Hot4).
           apply (ot_trans o m4 m5 _ (Hq5 x4 Hx4 ltac:(congruence) ltac:(congruence))). apply ot_heap. reflexivity. }
      intros xf Hxf. change (get (m5 <| st_dropping := st_dropping m2 |>) o) with (get m5 o) in Hxf. assert (xf = x5) by congruence. subst. congruence.
  Qed.
  Lemma inflight_live b E W m o x :
    SInv K b (o :: E) W m -> get m o = Some x -> inD m o = false ->
    o_box x = BAlloc /\ o_vst x = VLive /\ is_dropped (o_hdr x) = false /\ h_rc (o_hdr x) <> 0.
  Proof.
    intros HI Hx Hi. destruct (sv_E _ _ _ _ _ HI o) as (y & Hy & Hb); [left|]. assert (y = x) by congruence. subst y.
    destruct (okN_alloc K _ _ _ _ _ (sv_obj _ _ _ _ _ HI _ _ Hx) Hb) as (O1 & _ & _ & O4 & _ & O6).
    rewrite cnt_id_cons_eq in O1. assert (Hnz : h_rc (o_hdr x) <> 0) by lia.
    destruct (sv_objx _ _ _ _ _ HI _ _ Hx) as [X1 X2 _ _ _ _].
    assert (Hv : o_vst x = VLive).
    { destruct (o_vst x) eqn:Ev; auto.
      - destruct (X1 Hb eq_refl). congruence.
      - exfalso. apply Hnz, X2; auto. unfold dying. rewrite Ev. reflexivity.
      - exfalso. apply Hnz, X2; auto. unfold dying. rewrite Ev. reflexivity.
      - congruence. }
    split; [exact Hb|]. split; [exact Hv|]. split; [|exact Hnz].
    destruct (is_dropped (o_hdr x)) eqn:Ed; [|reflexivity]. exfalso. destruct (k_weak K).
    - destruct O4 as [_ O4]. destruct (O4 eq_refl) as [H|[H|H]]; [unfold dying in H; rewrite Hv in H; discriminate | congruence | congruence].
    - specialize (O4 eq_refl). unfold is_live in O4. rewrite Hv in O4. discriminate.
  Qed.

  (** handle_possible_cycle: the count stays positive, the object is buffered *)
  Lemma drop_cc_buffer b n E o m0 m x :
    Cur K b n E None m0 (o :: E) [] m -> get m o = Some x -> inD m o = false -> marked x = false ->
    h_rc (o_hdr x) <> 1 ->
    Cur K b n E None m0 E [] (add_to_list o (dec_rc_m o m)).
  Proof.
    intros C Hx Hi Hm Hr1.
    destruct (inflight_live _ _ _ _ _ _ (cur_inv _ _ _ _ _ _ _ _ _ C) Hx Hi) as (Hb & Hv & Hd & Hnz).
    pose proof (Cur_dec_rc K _ _ _ _ _ _ _ _ _ C) as C1.
    rewrite (dec_rc_m_eq m o x Hx Hnz) in *.
    eapply (Cur_add_to_list K _ _ _ _ _ _ _ _ o _ C1); [apply get_upd_eq, Hx | exact Hb | exact Hv | exact Hi | exact Hm | exact Hd].
  Qed.

  (** *** Cc::drop *)
  Lemma step_drop_cc_ok b E o m :
    Pre K PreC b E (KDropCc o) m -> PostOf b E (KDropCc o) m (step_drop_cc K P rec o m).
  Proof.
    rewrite Pre_nc by reflexivity. cbn [own_of app]. intros (Hnb & HI & Hown).
    pose proof (Cur_init K b true E None (o :: E) [] m Hnb HI) as C0.
    destruct (Cur_own_alloc K _ _ _ _ _ _ _ _ _ C0) as (x & Hx & Hb & R1 & R2).
    unfold step_drop_cc. rewrite Hx, Hb.
    destruct (is_in_list_or_queue (o_hdr x)) eqn:Hmk.
    { cbn [fst snd]. pose proof (Cur_dec_rc K _ _ _ _ _ _ _ _ _ C0) as C1. fin C1. intros ? ? ? ?. apply ot_dec_rc_m. }
    assert (Hi : inD m o = false).
    { destruct (inD m o) eqn:Ei; [|reflexivity]. specialize (Hown Ei). rewrite (marked_at_get _ _ _ Hx) in Hown.
      unfold marked in Hown. congruence. }
    destruct (inflight_live _ _ _ _ _ _ HI Hx Hi) as (_ & Hv & Hd & Hnz).
    destruct (h_rc (o_hdr x) =? 1) eqn:Hr1.
    2: { apply N.eqb_neq in Hr1. cbn [fst snd].
         pose proof (drop_cc_buffer _ _ _ _ _ _ _ C0 Hx Hi Hmk Hr1) as C1. fin C1.
         intros ? ? ? ?. eapply ot_trans; [apply ot_dec_rc_m | apply ot_add_to_list]. }
    apply N.eqb_eq in Hr1.
    (* the finalizer, if any *)
    set (finstep := fun m : machine =>
        if k_fin K && needs_fin (o_hdr x)
        then
         let old_f := st_finalizing m in
         let m0 := m <| st_finalizing := true |> in
         let m1 := uhdr o (set_fin true) m0 in
         let '(m2, r) :=
           if o_ismap x
           then (m1, ONormal)
           else
            let m2 := emit (ECb KFin o (cur_flags K m1)) m1 in
            let '(m3, boom) := tick KFin m2 in
            if boom then (m3, raise m3) else rec (KScript (Some o) (oscript P (c_fin (class_of P (o_cls x))))) m3 in
         match r with
         | ONormal =>
             if h_rc (hdr_of m2 o) =? 1
             then (m2 <| st_finalizing := old_f |>, ONormal, true)
             else (add_to_list o (dec_rc_m o m2) <| st_finalizing := old_f |>, ONormal, false)
         | _ => (m2 <| st_finalizing := old_f |>, r, false)
         end
        else (m, ONormal, true)).
    assert (Hfin : forall mf rf go, finstep m = (mf, rf, go) ->
              (go = true -> rf = ONormal /\ Cur K b true E None m (o :: E) [] mf /\
                 exists xf, get mf o = Some xf /\ o_box xf = BAlloc /\ o_vst xf = VLive /\ inD mf o = false /\
                            marked xf = false /\ h_rc (o_hdr xf) = 1 /\ is_dropped (o_hdr xf) = false /\
                            (o_ismap x = true -> o_mslots x = [] -> only_touches o m mf /\ o_ismap xf = true /\ o_mslots xf = [])) /\
              (go = false -> Post K PostC b E (KDropCc o) m mf rf)).
    { intros mf rf go Hres. unfold finstep in Hres.
      destruct (k_fin K && needs_fin (o_hdr x)) eqn:Hkf.
      2: { injection Hres as <- <- <-. split; [|discriminate]. intros _. split; [reflexivity|]. split; [exact C0|].
           exists x. unfold marked. repeat split; auto; try apply ot_refl. }
      cbv zeta in Hres.
      pose proof (Cur_set_finalizing K _ _ _ _ _ _ _ _ true C0) as C1.
      set (m1 := m <| st_finalizing := true |>) in *.
      assert (Hx1 : get m1 o = Some x) by exact Hx.
      pose proof (Cur_uhdr_same K _ _ _ _ _ _ _ _ o (set_fin true) x C1 Hx1 Hb) as C2.
      specialize (C2 ltac:(intros h; repeat split)).
      set (m2 := uhdr o (set_fin true) m1) in *.
      set (x2 := x <| o_hdr ::= set_fin true |>).
      assert (Hx2 : get m2 o = Some x2) by (apply get_upd_eq, Hx1).
      (* the result of the finalizer call *)
      assert (Hcall : forall m3 r,
                (if o_ismap x then (m2, ONormal)
                 else let m2' := emit (ECb KFin o (cur_flags K m2)) m2 in
                      let '(m3, boom) := tick KFin m2' in
                      if boom then (m3, raise m3) else rec (KScript (Some o) (oscript P (c_fin (class_of P (o_cls x))))) m3) = (m3, r) ->
                (r = ONormal -> Cur K b true E None m (o :: E) [] m3 /\
                   exists x3, get m3 o = Some x3 /\ o_box x3 = BAlloc /\ o_vst x3 = VLive /\ inD m3 o = false /\ marked x3 = false /\
                     (o_ismap x = true -> only_touches o m m3 /\ o_ismap x3 = o_ismap x /\ o_mslots x3 = o_mslots x)) /\
                (r = OPanic -> Cur K false false E None m (o :: E) [] m3 /\ o_ismap x = false)).
      { intros m3 r Hc. destruct (o_ismap x) eqn:Hmap.
        - injection Hc as <- <-. split; [|discriminate]. intros _. split; [exact C2|]. exists x2. unfold marked. repeat split; auto.
          apply (ot_alter o (fun x => x <| o_hdr ::= set_fin true |>)). reflexivity.
        - cbv zeta in Hc.
          pose proof (Cur_tick _ _ _ _ _ _ _ _ KFin (Cur_emit K _ _ _ _ _ _ _ _ (ECb KFin o (cur_flags K m2)) C2 eq_refl)) as C3.
          assert (Hg3 : forall o', get (tick KFin (emit (ECb KFin o (cur_flags K m2)) m2)).1 o' = get m2 o')
            by (intros o'; unfold tick; destruct (get_fuse KFin _ =? 0); reflexivity).
          assert (Hd3 : forall o', inD (tick KFin (emit (ECb KFin o (cur_flags K m2)) m2)).1 o' = inD m o')
            by (intros o'; unfold tick; destruct (get_fuse KFin _ =? 0); reflexivity).
          assert (Hc3 : st_collecting (tick KFin (emit (ECb KFin o (cur_flags K m2)) m2)).1 = st_collecting m)
            by (unfold tick; destruct (get_fuse KFin _ =? 0); reflexivity).
          destruct (tick KFin (emit (ECb KFin o (cur_flags K m2)) m2)) as [m3' boom]. cbn [fst] in C3, Hg3, Hd3, Hc3.
          destruct boom.
          + injection Hc as <- <-. split; [unfold raise; destruct (panicking m3'); discriminate|].
            intros _. split; [eapply Cur_weaken; exact C3 | reflexivity].
          + assert (Hx3' : get m3' o = Some x2) by (rewrite Hg3; exact Hx2).
            assert (Hso : self_ok (o :: E) (Some o) (oscript P (c_fin (class_of P (o_cls x)))) m3').
            { left. exists x2. rewrite Hd3. repeat split; auto. left. rewrite cnt_id_cons_eq. lia. }
            pose proof (rec_post b (o :: E) (KScript (Some o) (oscript P (c_fin (class_of P (o_cls x))))) _ eq_refl
                          (cur_nb _ _ _ _ _ _ _ _ _ C3) (cur_inv _ _ _ _ _ _ _ _ _ C3) Hso) as HP1.
            rewrite Hc in HP1. cbn [fst snd] in HP1.
            split.
            * intros ->. destruct (Cur_call_n K PostC (KScript (Some o) _) _ _ _ _ _ _ _ _ _ eq_refl C3 HP1 (cnt_le_cons E o) (or_introl eq_refl)) as [C4 _].
              split; [exact C4|].
              rewrite Post_nc in HP1 by reflexivity. destruct HP1 as (_ & _ & HF & _).
              destruct (fr_obj _ _ _ _ _ HF o x2 Hx3') as (x3 & Hx3 & OF).
              destruct (of_prot _ _ _ _ _ _ _ OF) as (P1 & P2 & P3 & _); [discriminate | exact Hb | left; rewrite cnt_id_cons_eq; lia |].
              exists x3. split; [exact Hx3|]. split; [exact P1|]. split; [rewrite P2; exact Hv|].
              split; [destruct (inD m3 o) eqn:Ei; [rewrite Hd3 in P3; rewrite (P3 eq_refl) in Hi; discriminate | reflexivity]|].
              split; [apply (of_unmarked _ _ _ _ _ _ _ OF); [exact Hmk | congruence] | congruence].
            * intros ->. split; [|reflexivity]. apply (Cur_call_p K PostC (KScript (Some o) _) _ _ _ _ _ _ _ _ _ eq_refl C3 HP1 (cnt_le_cons E o) (or_introl eq_refl)). }
      fold m1 m2 in Hres.
      destruct (if o_ismap x then (m2, ONormal)
                else let m2' := emit (ECb KFin o (cur_flags K m2)) m2 in
                     let '(m3, boom) := tick KFin m2' in
                     if boom then (m3, raise m3) else rec (KScript (Some o) (oscript P (c_fin (class_of P (o_cls x))))) m3) as [m3 r] eqn:Hc.
      destruct (Hcall m3 r eq_refl) as [HcN HcP]. clear Hcall.
      destruct r.
      - destruct (HcN eq_refl) as (C3 & x3 & Hx3 & Hb3 & Hv3 & Hi3 & Hm3 & Hq3).
        rewrite (hdr_of_get _ _ _ Hx3) in Hres.
        destruct (h_rc (o_hdr x3) =? 1) eqn:Hr3; injection Hres as <- <- <-.
        + split; [|discriminate]. intros _. split; [reflexivity|].
          split; [eapply Cur_ieq; [exact C3 | repeat split | apply C3]|].
          exists x3. apply N.eqb_eq in Hr3.
          destruct (inflight_live _ _ _ _ _ _ (cur_inv _ _ _ _ _ _ _ _ _ C3) Hx3 Hi3) as (_ & _ & Hd3 & _).
          repeat split; auto; destruct (Hq3 H) as (Q1 & Q2 & Q3); [eapply ot_trans; [exact Q1 | apply ot_heap; reflexivity] | congruence | congruence].
        + split; [discriminate|]. intros _. apply N.eqb_neq in Hr3.
          pose proof (drop_cc_buffer _ _ _ _ _ _ _ C3 Hx3 Hi3 Hm3 Hr3) as C4.
          assert (C5 : Cur K b true E None m E [] (add_to_list o (dec_rc_m o m3) <| st_finalizing := st_finalizing m |>))
            by (eapply Cur_ieq; [exact C4 | repeat split | apply C4]).
          fin C5. intros x0 Hx0 Hm0 Hs0. assert (x0 = x) by congruence. subst x0. destruct (Hq3 Hm0) as (Q1 & _).
          eapply ot_trans; [exact Q1|]. eapply ot_trans; [apply ot_dec_rc_m|]. eapply ot_trans; [apply ot_add_to_list | apply ot_heap; reflexivity].
      - injection Hres as <- <- <-. split; [discriminate|]. intros _. destruct (HcP eq_refl) as [HcP' Hnm].
        pose proof (Cur_leak K _ _ _ _ _ _ _ _ HcP') as C4.
        assert (C5 : Cur K false false E None m E [] (m3 <| st_finalizing := st_finalizing m |>))
          by (eapply Cur_ieq; [exact C4 | repeat split | apply C4]).
        fin C5. apply (quiet_vacuous o m _ x Hx). left. exact Hnm.
      - injection Hres as <- <- <-. split; [discriminate|]. intros _. triv_post.
      - injection Hres as <- <- <-. split; [discriminate|]. intros _. triv_post. }
    match goal with |- context [if k_fin K && needs_fin (o_hdr x) then ?a else ?bb] =>
      change (if k_fin K && needs_fin (o_hdr x) then a else bb) with (finstep m) end.
    destruct (finstep m) as [[mf rf] go] eqn:Hfs. destruct (Hfin mf rf go eq_refl) as [Hgo Hnogo]. clear Hfin.
    destruct go; cbn [negb].
    - destruct (Hgo eq_refl) as (-> & Cf & xf & Hxf & Hbf & Hvf & Hif & Hmf & Hrf & Hdf & Hqf).
      apply (drop_cc_tail b E o m mf xf Cf Hxf Hbf Hvf Hif Hmf Hrf Hdf).
      intros x0 Hx0 Hm0 Hs0. assert (x0 = x) by congruence. subst x0. apply Hqf; assumption.
    - cbn [fst snd]. apply Hnogo. reflexivity.
  Qed.
End Steps.

