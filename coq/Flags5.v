(** * Flags5: while a collection is in progress ([collecting] set) no activation changes
    [executions]: nested [collect_cycles] / allocation triggers are no-ops, at any depth.
    Instance of the generic step cases of Flags2 with the log predicate
    "[log_ok] and [st_exec = e0]" and the side condition [collecting = true]. *)
From Coq Require Import NArith Bool List Lia.
From stdpp Require Import base list option.
From RecordUpdate Require Import RecordSet.
From RC Require Import Hdr Machine RunInd Flags Flags2 Flags3 Flags4.
Import ListNotations RecordSetNotations.

Definition exA (K : conf) (e0 : N) : lpred :=
  LPred (ev_ok K) (fun n l => log_ok K l /\ n = e0)
        (fun e n l He H => conj (Forall_cons _ e l He (proj1 H)) (proj2 H)) (benign_ok K).

Definition EPre (K : conf) (c : call) (m : machine) : Prop := Pre K c m /\ st_collecting m = true.
Definition EPost (K : conf) (c : call) (m m' : machine) (r : outcome) : Prop :=
  res (exA K (st_exec m)) (target c m) (m', r).

Section ExecSteps.
  Context (K : conf) (P : prog).
  Context (rec : call -> machine -> machine * outcome).
  Context (Hrec : rec_ok (EPre K) (EPost K) rec).
  Implicit Types (m : machine) (c f d p : bool).

  Lemma e_inv_pre e0 k c f d p m :
    inv (exA K e0) (c, f, d, p) m -> c = true -> cond K k m ->
    res (exA K e0) (target k m) (rec k m).
  Proof.
    intros H -> Hc. pose proof (Hrec k m) as HH. unfold EPre, EPost, Pre in HH.
    destruct (inv_log _ _ _ H) as [Hl He]. cbn in Hl, He. rewrite He in HH.
    apply res_eta, HH. split; [split; assumption | eapply inv_c, H].
  Qed.

  Lemma e_rec_gen e0 k m c f d p :
    gen k = true -> c = true -> inv (exA K e0) (c, f, d, p) m -> tq K (c, f, d, p) ->
    res (exA K e0) (c, f, d, p) (rec k m).
  Proof.
    intros Hg Hc H Hq.
    assert (Ht : target k m = (c, f, d, p)).
    { rewrite <- (inv_ctl _ _ _ H). destruct k; try discriminate; reflexivity. }
    rewrite <- Ht. eapply e_inv_pre; [exact H | exact Hc |].
    pose proof (inv_quiet K _ _ _ H Hq) as Hq'.
    destruct k; try discriminate; cbn; auto.
  Qed.
  Lemma e_rec_loop e0 n f d p m :
    inv (exA K e0) (true, f, d, p) m -> res (exA K e0) (true, f, d, p) (rec (KCollectLoop n) m).
  Proof.
    intros H. rewrite <- (inv_ctl _ _ _ H).
    apply (e_inv_pre e0 (KCollectLoop n) true f d p m H eq_refl). cbn. eapply inv_c, H.
  Qed.
  Lemma e_rec_once e0 f d p m :
    inv (exA K e0) (true, f, d, p) m -> res (exA K e0) (true, f, d, p) (rec KCollectOnce m).
  Proof.
    intros H. rewrite <- (inv_ctl _ _ _ H).
    apply (e_inv_pre e0 KCollectOnce true f d p m H eq_refl). cbn. eapply inv_c, H.
  Qed.
  Lemma e_rec_finlist e0 L rest any old_f c d p m :
    c = true -> inv (exA K e0) (c, true, d, p) m -> tq K (c, true, d, p) ->
    res (exA K e0) (c, old_f, d, p) (rec (KFinalizeList L rest any old_f) m).
  Proof.
    intros Hc H Hq.
    pose proof (e_inv_pre e0 (KFinalizeList L rest any old_f) c true d p m H Hc) as HH.
    cbn [target cond] in HH.
    rewrite (inv_c _ _ _ _ _ _ H), (inv_d _ _ _ _ _ _ H), (inv_p _ _ _ _ _ _ H) in HH.
    apply HH. split; [eapply inv_quiet; eauto | eapply inv_f, H].
  Qed.
  Lemma e_rec_droplist e0 L rest old_d c f p m :
    c = true -> inv (exA K e0) (c, f, true, p) m ->
    res (exA K e0) (c, f, old_d, p) (rec (KDropList L rest old_d) m).
  Proof.
    intros Hc H.
    pose proof (e_inv_pre e0 (KDropList L rest old_d) c f true p m H Hc) as HH.
    cbn [target cond] in HH.
    rewrite (inv_c _ _ _ _ _ _ H), (inv_f _ _ _ _ _ _ H), (inv_p _ _ _ _ _ _ H) in HH.
    apply HH. eapply inv_d, H.
  Qed.

  Lemma exec_step_ok : rec_ok (EPre K) (EPost K) (step K P rec).
  Proof.
    intros k m [[Hl Hc] Hcol]. unfold EPost. rewrite <- surjective_pairing.
    set (e0 := st_exec m).
    pose proof (all_steps K P (exA K e0) (fun c => c = true) (fun e He => He) rec
                  (e_rec_gen e0) (e_rec_loop e0) (e_rec_once e0) (e_rec_finlist e0)
                  (e_rec_droplist e0))
      as (G1 & G2 & G3 & G4 & G5 & G6 & G7 & G8 & G9 & G10 & G11 & G12 & G13).
    assert (Hi : inv (exA K e0) (st_collecting m, st_finalizing m, st_dropping m, panicking m) m).
    { apply inv_self. split; [exact Hl | reflexivity]. }
    destruct k; cbn [step]; cbn [cond] in Hc.
    - apply G1; [exact Hcol | exact Hi | exact Hc].
    - apply G2; [exact Hcol | exact Hi | exact Hc].
    - apply G3; [exact Hcol | exact Hi | exact Hc].
    - apply G4; [exact Hcol | exact Hi | exact Hc].
    - apply G5; [exact Hcol | exact Hi | exact Hc].
    - apply G6; [exact Hcol | exact Hi | exact Hc].
    - apply G7; [exact Hcol | exact Hi | exact Hc].
    - unfold step_trigger. rewrite Hcol. apply res_intro, Hi.
    - unfold step_collect_cycles. rewrite Hcol. apply res_intro, Hi.
    - congruence.
    - unfold target, ctl. rewrite Hcol in *. apply G10. exact Hi.
    - unfold target, ctl. rewrite Hcol in *. apply G11; [reflexivity | exact Hi].
    - destruct Hc as [Hq Hf]. unfold target. rewrite Hf in Hi. apply G12.
      + exact Hcol.
      + exact Hi.
      + unfold quiet in Hq. rewrite Hf in Hq. exact Hq.
    - unfold target. rewrite Hc in Hi. apply G13; [exact Hcol | exact Hi].
    - apply G8; [exact Hcol | exact Hi | exact Hc].
    - apply G9; [exact Hcol | exact Hi | exact Hc].
  Qed.
End ExecSteps.

Theorem run_exec_frozen_post K P n : rec_ok (EPre K) (EPost K) (run K P n).
Proof.
  apply run_ind.
  - intros rec Hrec. apply exec_step_ok. exact Hrec.
  - intros k m [[Hl Hc] Hcol]. unfold EPost.
    eapply res_intro_fuel, inv_self. split; [exact Hl | reflexivity].
Qed.

(** ** C12: under a collection, [executions] is unchanged - by every activation, at every depth,
    whatever the outcome (even out of fuel). *)
Theorem run_exec_frozen K P n c m :
  Pre K c m -> st_collecting m = true -> st_exec (run K P n c m).1 = st_exec m.
Proof.
  intros Hp Hc. destruct (run_exec_frozen_post K P n c m (conj Hp Hc)) as [[_ H] _]. exact H.
Qed.

(** ** C07: from a state that is not collecting, [collect_cycles] runs exactly one collection *)
Theorem C07_collect_starts_once K P n m :
  st_collecting m = false -> pc_alive m = true -> log_ok K (log m) ->
  st_exec (run K P (S (S n)) KCollectCycles m).1 = N.succ (st_exec m).
Proof.
  intros Ec Ea Hl. rewrite (C07_collect_can_start K P n m Ec Ea).
  pose proof (run_exec_frozen K P n (KCollectLoop (if k_fin K then 10 else 1)%nat)
                (m <| st_collecting := true |> <| st_exec ::= N.succ |>)
                (conj Hl eq_refl) eq_refl) as H.
  destruct (run K P n _ _) as [m1 r]. cbn [fst] in H.
  assert (Ha : forall x, st_exec (adjust_trigger_point K x) = st_exec x).
  { intros x. unfold adjust_trigger_point, adjust. brk; reflexivity. }
  destruct r; cbn [fst]; rewrite ?Ha; exact H.
Qed.
