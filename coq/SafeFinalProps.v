(** * SafeFinalProps: state-level property lemmas for C01 / C04 / C08 / C09 / C13 on top of the
    strengthened invariant [SInv] of part A.  Everything here is about ONE state satisfying the
    invariant, for every configuration [K]; the program-level statements ("every state reached
    by every program satisfies the invariant") are in SafeFinal.v.  The lemmas that need only
    [inv_b], the pass theorem or unfolding are in SafeFinalPropsA.v.
    The restatements at full strength are in Props/C01.v, C04.v, C08.v, C09.v, C13.v. *)
From Coq Require Import NArith Bool List Lia.
From stdpp Require Import base list option.
From RecordUpdate Require Import RecordSet.
From RC Require Import Hdr Machine RunInd Inv InvP SafeHelpers SafePrims SafeCalls SafeGlue SafeDrop SafeCmd SafeCyclic SafeMain SafeProps SafeFinalPropsA.
Import ListNotations RecordSetNotations.
Local Open Scope N_scope.

(** ** C04 / C01: what [Cc::strong_count] / [weak_count] report, and that the value seen through a
    handle is alive.  (Hypotheses satisfiable: [SInv_init]; every state reached by a program
    satisfies [SInv K b [] [] m] by SafeFinal.safe_programs_sinv; no separate Example.) *)
Section Obs.
  Context (K : conf).
  Implicit Types (m : machine) (o : id) (x : obj).

  (** handles read from a slot, the bag, or a field of a live value outside the dying set are
      "good": allocated, live, outside the dying set, not a CleanerMap *)
  Lemma good_h_root b E W m t : SInv K b E W m -> hloc m None false t -> good_h m t.
  Proof.
    intros HI Hl. destruct (sv_loc _ _ _ _ _ HI _ _ _ Hl) as (xt & Hxt & Hb & Hmap & Hv & Hd).
    exists xt. auto 6.
  Qed.
  Lemma good_h_field b E W m p xp j t :
    SInv K b E W m -> get m p = Some xp -> o_vst xp = VLive -> inD m p = false ->
    o_fields xp !! j = Some (Some t) -> good_h m t.
  Proof.
    intros HI Hp Hv Hd Hj. destruct (sv_loc _ _ _ _ _ HI _ _ _ (HL_field m p xp j t Hp Hj)) as (xt & Hxt & Hb & Hmap & Hm).
    destruct (Hm xp Hp) as [[Hvt Hdt] _]; [exact Hv | exact Hd|]. exists xt. auto 6.
  Qed.
  Lemma good_h_slot b E W m i o : SInv K b E W m -> read_loc (RSlot i) m = Some o -> good_h m o.
  Proof.
    intros HI Hr. cbn in Hr. destruct (slots m !! i) as [[t|]|] eqn:Hs; try discriminate. injection Hr as ->.
    eapply good_h_root; [exact HI | econstructor 1; exact Hs].
  Qed.

  (** C04: the strong count is never too low, whatever happened before (panics included); the
      weak count is always exact; no misbehaviour is logged; the value is alive *)
  Lemma obs_never_too_low b E self l m r o :
    SInv K b E [] m -> resolve self l m = (m, Some r) -> read_loc r m = Some o -> good_h m o ->
    exists x rc, get m o = Some x /\ rc = h_rc (o_hdr x) /\
      N.of_nat (refs m o + cnt_id o E) <= rc /\ rc <= max_rc /\ (b = true -> rc = N.of_nat (refs m o + cnt_id o E)) /\
      cmd_obs self l m = ok (emit (EObs o rc (N.of_nat (wrefs m o)) (h_fin (o_hdr x)) true) m) ROk.
  Proof.
    intros HI Hres Hr (x & Hx & Hb & Hv & _). exists x, (h_rc (o_hdr x)). split; [exact Hx|]. split; [reflexivity|].
    destruct (okN_alloc K _ _ _ _ _ (sv_obj _ _ _ _ _ HI _ _ Hx) Hb) as (O1 & O2 & O3 & _ & O5 & _).
    split; [exact O1|]. split; [exact O3|]. split; [exact O2|].
    unfold cmd_obs. rewrite Hres. cbn [mbind option_bind]. rewrite Hr, Hx, Hb, Hv.
    unfold cnt_wr in O5. cbn in O5. change (cnt_w o []) with 0%nat in O5. rewrite Nat.add_0_r in O5.
    destruct (o_side x) as [s|].
    - destruct O5 as (-> & _ & _ & -> & _). reflexivity.
    - destruct O5 as (-> & ->). reflexivity.
  Qed.

  (** C01: the observation through a handle finds the value alive (and logs nothing else) *)
  Lemma obs_alive b E self l m r o :
    SInv K b E [] m -> resolve self l m = (m, Some r) -> read_loc r m = Some o -> good_h m o ->
    exists rc wc fin,
      cmd_obs self l m = ok (emit (EObs o rc wc fin true) m) ROk /\
      log (cmd_obs self l m).1 = ERes ROk :: EObs o rc wc fin true :: log m.
  Proof.
    intros HI Hres Hr Hg. destruct (obs_never_too_low b E self l m r o HI Hres Hr Hg) as (x & rc & _ & _ & _ & _ & _ & Hc).
    exists rc, (N.of_nat (wrefs m o)), (h_fin (o_hdr x)). rewrite Hc. split; reflexivity.
  Qed.
  (** the hypothesis [good_h] is automatic for a handle read from a slot *)
  Lemma obs_alive_slot b E self i m o :
    SInv K b E [] m -> (i < nslots)%nat -> slots m !! i = Some (Some o) ->
    exists rc wc fin, cmd_obs self (LS i) m = ok (emit (EObs o rc wc fin true) m) ROk.
  Proof.
    intros HI Hi Hs.
    destruct (obs_alive b E self (LS i) m (RSlot i) o HI) as (rc & wc & fin & Hc & _).
    - cbn. rewrite decide_True by exact Hi. reflexivity.
    - cbn. rewrite Hs. reflexivity.
    - eapply good_h_slot; [exact HI | cbn; rewrite Hs; reflexivity].
    - eauto.
  Qed.
End Obs.

(** ** C04: the last owner, with part A's specification of the callees *)
Section LastOwner2.
  Context (K : conf) (P : prog).
  Implicit Types (m : machine) (o : id) (x : obj).

  (** with part A's specification of the callees ([InvP.Pre]/[InvP.Post], satisfied by every
      [run K P n]): the destructor is entered in a state satisfying the pre-condition of
      [KDropValue o], so it returns with the value [VDropped]; the freed box therefore holds a
      destroyed value.
      NOT derived here: "everything it solely owned is destroyed too, recursively".  Part A's
      post-condition of [KDropValue o] ([InvP.post_own]) only says that [o]'s own value reaches
      [VDropped] and, through [KDropFields], that all its strong fields and its cleaner field are
      emptied; it does not describe the effect of the recursive [KDropCc t] calls on the targets
      [t] (only the frame [Fr] and the invariant).  Deriving the recursive statement needs a
      stronger post-condition of [KDropFields]/[KDropCc] ("if the count of [t] was 1 and nothing
      else ... then [t] is freed"), i.e. a new induction over the run. *)
  Section WithSpec.
    Context (PreC : bool -> list id -> call -> machine -> Prop)
            (PostC : bool -> list id -> call -> machine -> machine -> outcome -> Prop).
    Context (rec : call -> machine -> machine * outcome).
    Hypothesis Hrec : forall b E, rec_ok (Pre K PreC b E) (Post K PostC b E) rec.

    Lemma last_owner_value_dropped b E o m x m2 :
      Pre K PreC b E (KDropCc o) m ->
      get m o = Some x -> is_in_list_or_queue (o_hdr x) = false -> h_rc (o_hdr x) = 1 ->
      rec (KDropValue o) (last_owner_mid K o m) = (m2, ONormal) ->
      o_box x = BAlloc /\ o_vst x = VLive /\
      exists y, get m2 o = Some y /\ o_vst y = VDropped /\ o_box y = BAlloc /\ o_ismap y = o_ismap x.
    Proof.
      rewrite Pre_nc by reflexivity. cbn [own_of app]. intros (Hnb & HI & Hown) Hx Hmk Hrc Hr.
      pose proof (Cur_init K b true E None (o :: E) [] m Hnb HI) as Cg.
      destruct (Cur_own_alloc K _ _ _ _ _ _ _ _ _ Cg) as (x' & Hx' & Hbg & _). assert (x' = x) by congruence. subst x'.
      assert (Hig : inD m o = false).
      { destruct (inD m o) eqn:Ei; [|reflexivity]. specialize (Hown Ei). rewrite (marked_at_get _ _ _ Hx) in Hown.
        unfold marked in Hown. congruence. }
      destruct (inflight_live K _ _ _ _ _ _ HI Hx Hig) as (_ & Hvg & Hdg & Hnz).
      split; [exact Hbg|]. split; [exact Hvg|].
      unfold last_owner_mid in Hr. cbv zeta in Hr.
      pose proof (Cur_dec_rc K _ _ _ _ _ _ _ _ _ Cg) as C1.
      rewrite (dec_rc_m_eq m o x Hx Hnz) in *.
      set (x1 := x <| o_hdr ::= fun _ => set_rc (h_rc (o_hdr x) - 1) (o_hdr x) |>).
      set (m1 := uhdr o (fun _ => set_rc (h_rc (o_hdr x) - 1) (o_hdr x)) m) in *.
      assert (Hx1 : get m1 o = Some x1) by (apply get_upd_eq, Hx).
      pose proof (Cur_remove_from_list K _ _ _ _ _ _ _ _ o x1 C1 Hx1 Hbg) as C2.
      destruct (remove_from_list_obj m1 o x1 Hx1) as (x2 & Hx2 & (S1 & S2 & S3 & S4 & S5 & S6 & S7 & S8 & S9) & R1 & R2 & R3 & R4 & R5 & R6).
      set (m2' := remove_from_list o m1) in *.
      assert (Hrc2 : h_rc (o_hdr x2) = 0) by (rewrite R1; unfold x1; cbn; rewrite Hrc; reflexivity).
      assert (Hb2 : o_box x2 = BAlloc) by (rewrite S2; exact Hbg).
      assert (Hv2 : o_vst x2 = VLive) by (rewrite S1; exact Hvg).
      assert (Hi2 : inD m2' o = false) by (unfold inD; rewrite R6; exact Hig).
      assert (Hd2 : is_dropped (o_hdr x2) = false) by (unfold is_dropped; rewrite R2; exact Hdg).
      assert (Hnpc : o ∉ pc m2') by (apply (remove_from_list_notin K b E [] m1 o (cur_inv _ _ _ _ _ _ _ _ _ C1))).
      pose proof (cur_inv _ _ _ _ _ _ _ _ _ C2) as HI2.
      assert (He0 : cnt_id o E = 0%nat).
      { destruct (okN_alloc K _ _ _ _ _ (sv_obj _ _ _ _ _ HI2 _ _ Hx2)) as (O1 & _); [congruence|]. rewrite Hrc2 in O1. lia. }
      pose proof (Cur_init K b true E (Some o) E [] m2' (cur_nb _ _ _ _ _ _ _ _ _ C2) HI2) as D0.
      pose proof (Cur_set_dropping_true K _ _ _ _ _ _ _ _ D0) as D1.
      set (m3 := m2' <| st_dropping := true |>) in *.
      assert (Hx3 : get m3 o = Some x2) by exact Hx2.
      set (m4 := if k_weak K then uhdr o set_dropped m3 else m3) in *.
      assert (D2 : Cur K b true E (Some o) m2' E [] m4 /\
                   exists x4, get m4 o = Some x4 /\ o_box x4 = BAlloc /\ o_vst x4 = VLive /\ h_rc (o_hdr x4) = 0 /\
                              (k_weak K = true -> is_dropped (o_hdr x4) = true) /\ inD m4 o = false /\ o ∉ pc m4 /\
                              o_ismap x4 = o_ismap x).
      { unfold m4. destruct (k_weak K) eqn:Hk.
        - split.
          + apply (Cur_set_dropped K _ _ _ _ _ _ _ _ o x2 D1 Hx3); auto; congruence.
          + exists (x2 <| o_hdr ::= set_dropped |>). split; [apply get_upd_eq, Hx3|]. cbn. repeat split; auto; congruence.
        - split; [exact D1|]. exists x2. repeat split; auto; try congruence; try discriminate. }
      destruct D2 as (D2 & x4 & Hx4 & Hb4 & Hv4 & Hrc4 & Hdr4 & Hi4 & Hpc4 & Hmp4).
      assert (Hdroppable : droppable K E m4 o).
      { exists x4. split; [exact Hx4|]. split; [exact He0|]. rewrite Hb4. split; [exact Hv4|]. split; [exact Hdr4|]. left. auto. }
      pose proof (Hrec b E (KDropValue o) m4) as HP. rewrite Pre_nc in HP by reflexivity.
      specialize (HP (conj (cur_nb _ _ _ _ _ _ _ _ _ D2) (conj (cur_inv _ _ _ _ _ _ _ _ _ D2) Hdroppable))).
      rewrite Hr in HP. cbn [fst snd] in HP. rewrite Post_nc in HP by reflexivity.
      destruct HP as (_ & _ & HF & _ & _ & y4 & y & Hy4 & Hy & Hvy & Hby & _).
      assert (y4 = x4) by congruence. subst y4. exists y. split; [exact Hy|]. split; [exact Hvy|]. split; [congruence|].
      destruct (fr_obj _ _ _ _ _ HF o x4 Hx4) as (y' & Hy' & OF). assert (y' = y) by congruence. subst y'.
      rewrite (of_ismap _ _ _ _ _ _ _ OF). exact Hmp4.
    Qed.

    (** the two halves together *)
    Lemma last_owner b E o m x m2 :
      Pre K PreC b E (KDropCc o) m ->
      get m o = Some x -> is_in_list_or_queue (o_hdr x) = false -> h_rc (o_hdr x) = 1 ->
      k_fin K && needs_fin (o_hdr x) = false ->
      rec (KDropValue o) (last_owner_mid K o m) = (m2, ONormal) ->
      exists mf yf, step_drop_cc K P rec o m = (mf, ONormal) /\
        get mf o = Some yf /\ o_box yf = BFreed /\ o_vst yf = VDropped /\
        In (EFree o (box_layout K x).1 (box_layout K x).2) (log mf).
    Proof.
      intros Hpre Hx Hmk Hrc Hfin Hr.
      destruct (last_owner_value_dropped b E o m x m2 Hpre Hx Hmk Hrc Hr) as (Hb & _ & y & Hy & Hvy & _ & Hmap).
      destruct (last_owner_freed K P rec o m x m2 y Hx Hb Hmk Hrc Hfin Hr Hy) as (mf & yf & Hs & _ & Hg & Hbf & Hvf & Hl).
      exists mf, yf. split; [exact Hs|]. split; [exact Hg|]. split; [exact Hbf|]. split; [congruence|].
      (* the layout is that of the original object: [o_ismap] is preserved ([of_ismap]) *)
      unfold box_layout in *. rewrite Hmap in Hl. exact Hl.
    Qed.
  End WithSpec.
End LastOwner2.

(** ** C08: upgrade *)
Section Upgrade2.
  Context (K : conf).
  Implicit Types (m : machine) (o : id) (x : obj).

  (** a Weak whose target's value is being destroyed, was destroyed, was moved out, whose box was
      freed, or which belongs to the dying set, reports strong count 0 (and nothing is logged, the
      state is unchanged) *)
  Lemma dead_never_upgrades b E W m o x :
    SInv K b E W m -> k_weak K = true -> (0 < wrefs m o + cnt_wr o W)%nat -> get m o = Some x ->
    (o_vst x = VDropping \/ o_vst x = VDropped \/ o_vst x = VMoved \/ o_vst x = VUninit \/ o_box x = BFreed \/
     o_box x = BNotYet \/ inD m o = true \/ is_dropped (o_hdr x) = true \/ h_rc (o_hdr x) = 0) ->
    weak_strong_count (WTo o) m = (m, 0).
  Proof.
    intros HI Hk Hpos Hx Hc. destruct (weak_strong_count_ok K b E W m o HI Hk Hpos) as (sc & Hw & Hs).
    rewrite Hw. f_equal. destruct (N.eq_dec sc 0) as [Hz|Hnz]; [exact Hz|]. exfalso.
    destruct (Hs Hnz) as (x' & Hx' & Hb & Hv & Hi & Hrc & Hd). assert (x' = x) by congruence. subst x'.
    destruct Hc as [Hc|[Hc|[Hc|[Hc|[Hc|[Hc|[Hc|[Hc|Hc]]]]]]]]; congruence.
  Qed.

  (** ... hence [Weak::upgrade] returns [None] *)
  Lemma dead_upgrade_none rec b E m self w dst rw rd o x :
    SInv K b E [] m -> k_weak K = true ->
    wresolve self w m = (m, Some rw) -> resolve self dst m = (m, Some rd) -> read_wloc rw m = Some (WTo o) ->
    (0 < wrefs m o)%nat -> get m o = Some x ->
    (o_vst x = VDropping \/ o_vst x = VDropped \/ o_vst x = VMoved \/ o_vst x = VUninit \/ o_box x = BFreed \/
     o_box x = BNotYet \/ inD m o = true \/ is_dropped (o_hdr x) = true \/ h_rc (o_hdr x) = 0) ->
    cmd_upgrade K rec self w dst m = ok m RNone.
  Proof.
    intros HI Hk H1 H2 Hr Hpos Hx Hc. unfold cmd_upgrade. rewrite Hk. cbn [negb]. rewrite H1, H2. cbn [mbind option_bind].
    rewrite Hr, (dead_never_upgrades b E [] m o x HI Hk ltac:(lia) Hx Hc). reflexivity.
  Qed.
End Upgrade2.

(** ** C09: the weak count and the life of the side record *)
Section Weak.
  Context (K : conf).
  Implicit Types (m : machine) (o : id) (x : obj).

  Lemma cnt_wr_nil o : cnt_wr o [] = 0%nat.
  Proof. reflexivity. Qed.

  (** the side record of an allocated box: present iff a Weak was ever created, never freed,
      accessible, and its counter is exactly the number of existing Weak handles *)
  Lemma weak_count_exact_W b E W m o x :
    SInv K b E W m -> get m o = Some x -> o_box x = BAlloc ->
    match o_side x with
    | Some s => w_cnt (sd_wk s) = N.of_nat (wrefs m o + cnt_wr o W) /\ sd_freed s = false /\
                w_acc (sd_wk s) = true /\ h_side (o_hdr x) = true /\ w_cnt (sd_wk s) <= max_weak
    | None => (wrefs m o + cnt_wr o W = 0)%nat /\ h_side (o_hdr x) = false
    end.
  Proof.
    intros HI Hx Hb. destruct (okN_alloc K _ _ _ _ _ (sv_obj _ _ _ _ _ HI _ _ Hx) Hb) as (_ & _ & _ & _ & O5 & _).
    destruct (o_side x) as [s|]; [destruct O5 as (S1 & S2 & S3 & S4 & S5) | destruct O5 as (S1 & S2)]; auto.
  Qed.
  Lemma weak_count_exact b E m o x :
    SInv K b E [] m -> get m o = Some x -> o_box x = BAlloc ->
    match o_side x with
    | Some s => w_cnt (sd_wk s) = N.of_nat (wrefs m o) /\ sd_freed s = false /\ w_acc (sd_wk s) = true
    | None => wrefs m o = 0%nat
    end.
  Proof.
    intros HI Hx Hb. pose proof (weak_count_exact_W b E [] m o x HI Hx Hb) as H.
    rewrite cnt_wr_nil, Nat.add_0_r in H. destruct (o_side x) as [s|]; [destruct H as (? & ? & ? & _); auto | apply H].
  Qed.

  (** while a Weak handle exists, the side record exists and was not freed, whether the box is
      still allocated (accessible) or already freed (not accessible any more) *)
  Lemma side_alive_while_weak_freed b E m o x :
    SInv K b E [] m -> get m o = Some x -> o_box x = BFreed -> (0 < wrefs m o)%nat ->
    exists s, o_side x = Some s /\ sd_freed s = false /\ w_cnt (sd_wk s) = N.of_nat (wrefs m o) /\
              w_acc (sd_wk s) = false.
  Proof.
    intros HI Hx Hb Hpos. pose proof (sv_obj _ _ _ _ _ HI _ _ Hx) as Hok. rewrite cnt_wr_nil, Nat.add_0_r in Hok.
    apply okN_freed in Hok; [|exact Hb]. destruct Hok as (_ & _ & Hs).
    destruct (o_side x) as [s|]; [|lia]. destruct (sd_freed s) eqn:Ef; [lia|].
    destruct Hs as (S1 & S2 & S3). exists s. auto.
  Qed.
  Lemma side_alive_while_weak_alloc b E m o x :
    SInv K b E [] m -> get m o = Some x -> o_box x = BAlloc -> (0 < wrefs m o)%nat ->
    exists s, o_side x = Some s /\ sd_freed s = false /\ w_cnt (sd_wk s) = N.of_nat (wrefs m o) /\
              w_acc (sd_wk s) = true.
  Proof.
    intros HI Hx Hb Hpos. pose proof (weak_count_exact b E m o x HI Hx Hb) as H.
    destruct (o_side x) as [s|]; [|lia]. destruct H as (? & ? & ?). exists s. auto.
  Qed.
  (** a side record that was freed has no Weak handle left and belongs to a freed box: it is
      never used again *)
  Lemma side_freed_no_weak b E m o x s :
    SInv K b E [] m -> get m o = Some x -> o_box x <> BNotYet -> o_side x = Some s -> sd_freed s = true ->
    wrefs m o = 0%nat /\ o_box x = BFreed.
  Proof.
    intros HI Hx Hny Hs Hf. pose proof (sv_obj _ _ _ _ _ HI _ _ Hx) as Hok. rewrite cnt_wr_nil, Nat.add_0_r in Hok.
    destruct (o_box x) eqn:Hb; [congruence | |].
    - destruct (okN_alloc K _ _ _ _ _ Hok Hb) as (_ & _ & _ & _ & O5 & _). rewrite Hs in O5. destruct O5 as (_ & O5 & _). congruence.
    - apply okN_freed in Hok; [|exact Hb]. destruct Hok as (_ & _ & H). rewrite Hs, Hf in H. auto.
  Qed.

  (** [Weak::weak_count] on an existing Weak handle: no event, the exact number *)
  Lemma weak_weak_count_exact b E W m o :
    SInv K b E W m -> (0 < wrefs m o + cnt_wr o W)%nat ->
    weak_weak_count (WTo o) m = (m, N.of_nat (wrefs m o + cnt_wr o W)).
  Proof.
    intros HI Hpos. destruct (sv_wex _ _ _ _ _ HI o Hpos) as [x Hx].
    pose proof (sv_obj _ _ _ _ _ HI _ _ Hx) as Hok. unfold weak_weak_count. rewrite Hx.
    destruct (o_box x) eqn:Eb.
    - apply okN_notyet in Hok; [|exact Eb]. lia.
    - destruct (okN_alloc K _ _ _ _ _ Hok Eb) as (_ & _ & _ & _ & O5 & _).
      destruct (o_side x) as [s|]; [|lia]. destruct O5 as (_ & -> & _ & -> & _). reflexivity.
    - apply okN_freed in Hok; [|exact Eb]. destruct Hok as (_ & _ & Hs).
      destruct (o_side x) as [s|]; [|lia]. destruct (sd_freed s); [lia|]. destruct Hs as (_ & -> & _). reflexivity.
  Qed.

  (** no double free and no use after free was ever logged *)
  Lemma NoBad_no_event m b o : NoBad m -> In (EBad b o) (log m) -> bad_ok b = true.
  Proof. unfold NoBad, no_badU. rewrite forallb_forall. intros H Hin. exact (H _ Hin). Qed.
  Lemma side_freed_once m : NoBad m ->
    forall o, ~ In (EBad DoubleFree o) (log m) /\ ~ In (EBad UseAfterFree o) (log m) /\
              ~ In (EBad UseAfterDrop o) (log m) /\ ~ In (EBad DoubleDrop o) (log m).
  Proof.
    intros Hnb o. repeat split; intros Hin; apply (NoBad_no_event m _ o Hnb) in Hin; discriminate.
  Qed.

  (** what [Cc::weak_count] reports (the [wc] component of the observation) *)
  Lemma obs_weak_count b E self l m r o :
    SInv K b E [] m -> resolve self l m = (m, Some r) -> read_loc r m = Some o -> good_h m o ->
    exists rc fin, cmd_obs self l m = ok (emit (EObs o rc (N.of_nat (wrefs m o)) fin true) m) ROk.
  Proof.
    intros HI Hres Hr Hg. destruct (obs_never_too_low K b E self l m r o HI Hres Hr Hg) as (x & rc & _ & _ & _ & _ & _ & Hc).
    eauto.
  Qed.
End Weak.

Print Assumptions obs_never_too_low.
Print Assumptions obs_alive.
Print Assumptions obs_alive_slot.
Print Assumptions last_owner_value_dropped.
Print Assumptions last_owner.
Print Assumptions dead_never_upgrades.
Print Assumptions dead_upgrade_none.
Print Assumptions weak_count_exact_W.
Print Assumptions weak_weak_count_exact.
Print Assumptions side_alive_while_weak_freed.
Print Assumptions side_freed_no_weak.
Print Assumptions side_freed_once.
Print Assumptions obs_weak_count.
