(** * SafeRig: executable checkers for the strengthened invariant [InvP.SInv], the frame
    [InvP.Fr] and the per-call pre/post-conditions, and an instrumented interpreter [runc] that
    evaluates them at EVERY activation boundary (also inside callbacks).  Test rig only (it is
    extracted to OCaml and run on random programs to validate the statements before/while they
    are proved); nothing here is used by the proofs.

    The in-flight multiset [E] is not known to the interpreter; the rig uses the slack
    [h_rc - refs] of every allocated object instead (= the number of in-flight handles as long as
    no panic leaked a count). A violated conjunct is reported as [EBad BadState code]. *)
From Coq Require Import NArith Bool List Lia.
From stdpp Require Import base list option.
From RecordUpdate Require Import RecordSet.
From RC Require Import Hdr Machine RunInd Inv InvP.
Import ListNotations RecordSetNotations.
Local Open Scope nat_scope.

#[local] Instance wref_eq_dec : EqDecision wref. Proof. solve_decision. Defined.
#[local] Instance mslot_eq_dec : EqDecision mslot. Proof. solve_decision. Defined.
Definition hdr_eqb (a b : hdr) : bool :=
  N.eqb (h_rc a) (h_rc b) && N.eqb (h_tc a) (h_tc b) && mark_eqb (h_mark a) (h_mark b)
  && Bool.eqb (h_fin a) (h_fin b) && Bool.eqb (h_side a) (h_side b).
Definition side_eqb (a b : option side) : bool :=
  match a, b with
  | None, None => true
  | Some s, Some t => N.eqb (w_cnt (sd_wk s)) (w_cnt (sd_wk t)) && Bool.eqb (w_acc (sd_wk s)) (w_acc (sd_wk t))
                      && Bool.eqb (sd_freed s) (sd_freed t)
  | _, _ => false
  end.
Definition obj_eqb (x y : obj) : bool :=
  hdr_eqb (o_hdr x) (o_hdr y)
  && match o_vst x, o_vst y with VLive, VLive | VUninit, VUninit | VDropping, VDropping | VDropped, VDropped | VMoved, VMoved => true | _, _ => false end
  && match o_box x, o_box y with BNotYet, BNotYet | BAlloc, BAlloc | BFreed, BFreed => true | _, _ => false end
  && side_eqb (o_side x) (o_side y) && Nat.eqb (o_cls x) (o_cls y) && Bool.eqb (o_ismap x) (o_ismap y)
  && (if decide (o_fields x = o_fields y) then true else false)
  && (if decide (o_wfields x = o_wfields y) then true else false)
  && (if decide (o_cleaner x = o_cleaner y) then true else false)
  && Bool.eqb (o_borrowed x) (o_borrowed y)
  && (if decide (o_mslots x = o_mslots y) then true else false)
  && (if decide (o_mfree x = o_mfree y) then true else false)
  && Bool.eqb (o_mborrowed x) (o_mborrowed y).

Definition hlocs (m : machine) : list (option id * bool * id) :=
  omap (fun a => match a with Some t => Some (None, false, t) | None => None end) (slots m)
  ++ map (fun t => (None, false, t)) (bag m)
  ++ concat (imap (fun p x =>
        omap (fun a => match a with Some t => Some (Some p, false, t) | None => None end) (o_fields x)
        ++ match o_cleaner x with Some t => [(Some p, true, t)] | None => [] end) (heap m)).

Section Rig.
  Context (K : conf) (P : prog).

  Definition slack (m : machine) (o : id) (x : obj) : nat :=
    if is_alloc x then N.to_nat (h_rc (o_hdr x)) - refs m o else 0.
  Definition own_cnt (c : call) (o : id) : nat := cnt_id o (own_of c).
  Definition prot (c : call) (m : machine) (o : id) (x : obj) : bool :=
    (own_cnt c o <? slack m o x) || (marked x && st_collecting m).
  Definition vst_eqb (a b : vstate) : bool :=
    match a, b with VLive, VLive | VUninit, VUninit | VDropping, VDropping | VDropped, VDropped | VMoved, VMoved => true | _, _ => false end.
  Definition box_eqb (a b : bstate) : bool :=
    match a, b with BNotYet, BNotYet | BAlloc, BAlloc | BFreed, BFreed => true | _, _ => false end.
  Definition is_v (v : vstate) (x : obj) : bool := vst_eqb (o_vst x) v.
  Definition is_b (v : bstate) (x : obj) : bool := box_eqb (o_box x) v.
  Definition ismapb (m : machine) (o : id) : bool := is_map m o.
  Definition codes (l : list (nat * bool)) : list nat := omap (fun '(c, ok) => if ok : bool then None else Some c) l.
  Definition all_none (l : list (option id)) : bool := forallb (fun a => match a with None => true | Some _ => false end) l.
  Definition wtgt_nomap (m : machine) (w : option wref) : bool :=
    match w with Some (WTo o) => negb (ismapb m o) && (match heap m !! o with Some _ => true | None => false end) | _ => true end.

  (** *** the state invariant *)
  Definition obj_codes (m : machine) (o : id) (x : obj) : list nat :=
    let h := o_hdr x in
    let ind := inD m o in
    codes [
      (10, obj_okN K false (refs m o + slack m o x) (wrefs m o) ind x);
      (11, implb (is_b BAlloc x && is_v VUninit x) (N.eqb (h_rc h) 0 && negb (is_dropped h)));
      (12, implb (is_b BAlloc x && dying x && negb ind) (N.eqb (h_rc h) 0));
      (13, implb (k_weak K && ind && is_b BAlloc x && negb (is_dropped h)) (mark_eqb (h_mark h) IL && st_dropping m));
      (14, implb (negb (k_weak K)) (match o_side x with None => true | _ => false end));
      (15, implb (o_ismap x) (match o_fields x, o_cleaner x, o_wfields x with [], None, [] => true | _, _, _ => false end));
      (17, implb ind (negb (is_b BNotYet x) && negb (is_v VMoved x) && negb (is_v VUninit x)));
      (60, forallb (wtgt_nomap m) (o_wfields x))
    ].

  Definition loc_codes (m : machine) (l : option id * bool * id) : list nat :=
    let '(h, c, t) := l in
    match heap m !! t with
    | None => [20]
    | Some xt =>
      codes [
        (21, is_alloc xt);
        (22, implb (negb c) (negb (o_ismap xt)));
        (23, match h with
             | None => is_live xt && negb (inD m t)
             | Some p => match heap m !! p with
                         | None => false
                         | Some xp =>
                           implb (is_live xp && negb (inD m p)) (is_live xt && negb (inD m t))
                           && implb (inD m t) (inD m p && negb (is_v VDropped xp) && implb (is_v VDropping xp) (marked xt))
                         end
             end)
      ]
    end.

  Definition sinv_codes (m : machine) : list nat :=
    concat (imap (obj_codes m) (heap m))
    ++ concat (map (loc_codes m) (hlocs m))
    ++ concat (map (fun t => match heap m !! t with
                             | Some xt => codes [(30, is_alloc xt && is_live xt && negb (inD m t) && mark_eqb (h_mark (o_hdr xt)) PC)]
                             | None => [30] end) (pc m))
    ++ codes [(31, pc_alive m);
              (32, forallb (fun o => match heap m !! o with Some _ => true | None => false end) (dead m));
              (50, Nat.eqb (length (slots m)) nslots && Nat.eqb (length (wslots m)) nslots && Nat.eqb (length (cslots m)) nslots);
              (61, forallb (wtgt_nomap m) (wslots m) && forallb (fun w => wtgt_nomap m (Some w)) (wparam m));
              (62, forallb (fun c => match c with Some cr => match heap m !! cr_map cr with Some _ => true | None => false end | None => true end) (cslots m))]
    ++ concat (imap (fun v a => match a with
                                | Some o =>
                                  codes [(40, match heap m !! o with Some x => is_b BFreed x && is_v VMoved x | None => false end);
                                         (41, Nat.eqb (length (filter (fun a' => eqb_oid a' o = true) (values m))) 1)]
                                | None => [] end) (values m)).

  (** *** call-specific pre-conditions *)
  Definition own_okb (m : machine) (o : id) : bool := implb (inD m o) (marked_at m o).
  Definition fields_markedb (m : machine) (x : obj) : bool :=
    forallb (fun a => match a with Some t => own_okb m t | None => true end) (o_fields x)
    && match o_cleaner x with Some t => own_okb m t | None => true end.

  Definition self_okb (c : call) (self : option id) (cs : list cmd) (m : machine) : bool :=
    match self with
    | None => true
    | Some g => match heap m !! g with
                | Some x => (is_alloc x && is_live x && negb (inD m g) && negb (o_ismap x) && prot c m g x)
                            || (forallb cmd_no_self cs && is_v VDropping x)
                | None => false
                end
    end.

  Definition pre_codes (c : call) (m : machine) : list nat :=
    match c with
    | KCmd self cm => codes [(140, self_okb c self [cm] m)]
    | KScript self cs => codes [(141, self_okb c self cs m)]
    | KStore r v =>
      codes [(110, match heap m !! v with
                   | Some x => is_alloc x && is_live x && negb (inD m v) && negb (o_ismap x) && (0 <? slack m v x)
                   | None => false end);
             (111, match r with
                   | RSlot i => i <? nslots
                   | RField p j => match heap m !! p with
                                   | Some x => (j <? length (o_fields x)) && negb (is_b BNotYet x) && negb (is_v VDropping x) && negb (is_v VUninit x)
                                               && implb (inD m p) (is_v VDropped x)
                                   | None => false end
                   end);
             (112, match read_loc r m with Some t => own_okb m t | None => true end)]
    | KDropCc o =>
      codes [(100, match heap m !! o with Some x => is_alloc x && (0 <? slack m o x) | None => false end);
             (101, own_okb m o)]
    | KDropValue o =>
      match heap m !! o with
      | None => [120]
      | Some x =>
        codes [(121, Nat.eqb (slack m o x) 0);
               (122, match o_box x with
                     | BAlloc => is_live x && implb (k_weak K) (is_dropped (o_hdr x))
                                 && ((N.eqb (h_rc (o_hdr x)) 0 && negb (inD m o) && negb (mem_id o (pc m)))
                                     || (inD m o && fields_markedb m x))
                     | BNotYet => is_live x
                     | BFreed => is_v VMoved x && Nat.eqb (length (filter (fun a' => eqb_oid a' o = true) (values m))) 0
                     end)]
      end
    | KDropFields o _ | KDropMapSlots o _ =>
      codes [(130, match heap m !! o with Some x => is_v VDropping x | None => false end)]
    | _ => []
    end.

  (** *** the frame and the call-specific post-conditions *)
  Definition undropped (m : machine) (o : id) : bool :=
    match heap m !! o with
    | Some x => inD m o && is_alloc x && negb (is_dropped (o_hdr x))
    | None => false
    end.

  Definition objfr_codes (c : call) (m m' : machine) (o : id) (x : obj) : list nat :=
    match heap m' !! o with
    | None => [210]
    | Some x' =>
      let notex := match ex_of c with Some e => negb (Nat.eqb e o) | None => true end in
      codes [
        (211, Nat.eqb (o_cls x') (o_cls x) && Bool.eqb (o_ismap x') (o_ismap x)
              && Nat.eqb (length (o_fields x')) (length (o_fields x)));
        (212, implb (is_v VDropped x) (is_v VDropped x'));
        (213, implb (negb (is_b BNotYet x)) (negb (is_b BNotYet x')) && implb (is_b BFreed x) (is_b BFreed x'));
        (214, implb (is_b BNotYet x && notex && negb (is_v VDropping x)) (obj_eqb x' x));
        (215, implb (is_v VDropping x && notex)
                (is_v VDropping x' && (if decide (o_fields x' = o_fields x) then true else false)
                 && (if decide (o_cleaner x' = o_cleaner x) then true else false)
                 && box_eqb (o_box x') (o_box x) && implb (inD m' o) (inD m o)));
        (216, implb (negb (marked x) && negb (is_b BFreed x')) (negb (marked x')));
        (218, implb (notex && is_v VDropping x') (is_v VDropping x));
        (219, implb (notex && is_v VUninit x && is_alloc x)
                (is_v VUninit x' && is_alloc x' && (if decide (o_fields x' = o_fields x) then true else false)
                 && (if decide (o_wfields x' = o_wfields x) then true else false)
                 && (if decide (o_cleaner x' = o_cleaner x) then true else false)));
        (209, implb (is_v VUninit x') (is_v VUninit x));
        (207, implb (inD m o && notex && negb (is_v VDropped x'))
                ((if decide (o_fields x' = o_fields x) then true else false)
                 && (if decide (o_cleaner x' = o_cleaner x) then true else false)));
        (217, implb (notex && is_alloc x && prot c m o x)
                (is_alloc x' && vst_eqb (o_vst x') (o_vst x) && implb (inD m' o) (inD m o)
                 && implb (marked x && st_collecting m) (mark_eqb (h_mark (o_hdr x')) (h_mark (o_hdr x)))))
      ]
    end.

  (** *** experimental (C04): the objects solely owned, transitively, by a value whose destruction
      is running are frozen for every activation other than that value's own drop glue *)
  Definition sole_local (wk pcok : bool) (m : machine) (t : id) (x : obj) : bool :=
    is_alloc x && is_live x && N.eqb (h_rc (o_hdr x)) 1 && Nat.eqb (refs m t) 1 && Nat.eqb (ext_refs m t) 0
    && negb (marked x) && (pcok || mark_eqb (h_mark (o_hdr x)) NM)
    && (wk || Nat.eqb (wrefs m t) 0).
  Definition holder_in (m : machine) (acc : list id) (t : id) : bool :=
    existsb (fun q => match heap m !! q with Some y => 0 <? obj_refs t y | None => false end) acc.
  Definition sole_roots (c : call) (m : machine) : list id :=
    omap (fun a => a) (imap (fun p x => if is_v VDropping x && match ex_of c with Some e => negb (Nat.eqb e p) | None => true end
                                    then Some p else None) (heap m)).
  Fixpoint sole_close (wk pcok : bool) (m : machine) (k : nat) (acc : list id) : list id :=
    match k with
    | O => acc
    | S k' =>
      let new := omap (fun a => a) (imap (fun t x => if sole_local wk pcok m t x && negb (mem_id t acc) && holder_in m acc t
                                                 then Some t else None) (heap m)) in
      match new with [] => acc | _ => sole_close wk pcok m k' (new ++ acc) end
    end.
  Definition sole_set (wk pcok : bool) (c : call) (m : machine) : list id :=
    let roots := sole_roots c m in
    filter (fun t => negb (mem_id t roots)) (sole_close wk pcok m (length (heap m)) roots).
  Definition ess_eqb (x y : obj) : bool :=
    N.eqb (h_rc (o_hdr x)) (h_rc (o_hdr y)) && Bool.eqb (marked x) (marked y) && vst_eqb (o_vst x) (o_vst y)
    && box_eqb (o_box x) (o_box y) && Bool.eqb (h_fin (o_hdr x)) (h_fin (o_hdr y))
    && (if decide (o_fields x = o_fields y) then true else false)
    && (if decide (o_cleaner x = o_cleaner y) then true else false).
  Definition frozen (eqb : obj -> obj -> bool) (l : list id) (m m' : machine) : bool :=
    forallb (fun t => match heap m !! t, heap m' !! t with Some x, Some x' => eqb x' x | _, _ => false end) l.
  Definition sole_codes (c : call) (m m' : machine) : list nat :=
    match sole_roots c m with
    | [] => []
    | _ => codes [(240, frozen obj_eqb (sole_set false false c m) m m');
                  (244, frozen obj_eqb (sole_set false true c m) m m');
                  (243, frozen ess_eqb (sole_set false true c m) m m');
                  (245, forallb (fun t => Nat.eqb (wrefs m' t) 0) (sole_set false true c m));
                  (242, frozen ess_eqb (sole_set true false c m) m m');
                  (241, frozen ess_eqb (sole_set true true c m) m m')]
    end.

  Definition post_codes (c : call) (m m' : machine) (r : outcome) : list nat :=
    match r with
    | ONormal | OPanic =>
      codes [(200, Bool.eqb (st_collecting m') (st_collecting m));
             (205, if decide (wparam m' = wparam m) then true else false);
             (201, forallb (fun o => inD m' o) (dead m));
             (204, implb (st_collecting m) (forallb (fun o => inD m o) (dead m')));
             (202, implb (k_weak K) (forallb (fun o => implb (undropped m' o) (undropped m o)) (dead m')));
             (203, match r with
                   | ONormal => forallb (fun o => implb (negb (inD m o))
                                                   (match heap m' !! o with Some x' => is_v VDropped x' | None => false end)) (dead m')
                   | _ => true end)]
      ++ concat (imap (objfr_codes c m m') (heap m))
      ++ sole_codes c m m'
      ++ (let quiet o := match heap m !! o with
                          | Some x => if o_ismap x && match o_mslots x with [] => true | _ => false end
                                      then forallb (fun '(p, y) => Nat.eqb p o || match heap m' !! p with Some y' => obj_eqb y' y | None => false end)
                                                   (imap (fun p y => (p, y)) (heap m))
                                      else true
                          | None => true end in
          match c with
          | KDropCc o | KDropValue o => codes [(230, quiet o)]
          | _ => [] end)
      ++ match c with
         | KDropValue o =>
           codes [(220, match heap m !! o, heap m' !! o with
                        | Some x, Some x' => is_v VDropped x' && box_eqb (o_box x') (o_box x) && implb (inD m' o) (inD m o)
                        | _, _ => false end)]
         | KDropFields o j =>
           codes [(221, match heap m !! o, heap m' !! o with
                        | Some x, Some x' => is_v VDropping x' && box_eqb (o_box x') (o_box x) && implb (inD m' o) (inD m o)
                                             && (if decide (take j (o_fields x') = take j (o_fields x)) then true else false)
                                             && all_none (drop j (o_fields x'))
                                             && match o_cleaner x' with None => true | _ => false end
                        | _, _ => false end)]
         | KDropMapSlots o j =>
           codes [(222, match heap m !! o, heap m' !! o with
                        | Some x, Some x' => is_v VDropping x' && box_eqb (o_box x') (o_box x) && implb (inD m' o) (inD m o)
                        | _, _ => false end)]
         | _ => []
         end
    | _ => []
    end.

  Definition is_coll (c : call) : bool :=
    match c with
    | KCollect | KCollectLoop _ | KCollectOnce | KFinalizeList _ _ _ _ | KDropList _ _ _ => true
    | _ => false
    end.

  Definition report (base : nat) (l : list nat) (m : machine) : machine :=
    fold_left (fun m c => emit (EBad BadState (base + c)) m) l m.

  (** violations at entry are reported as 1000+code, at exit as 2000+code (state invariant) and
      3000+code (frame / post) *)
  Definition kindn (c : call) : nat :=
    match c with
    | KCmd _ _ => 1 | KScript _ _ => 2 | KStore _ _ => 3 | KDropCc _ => 4 | KDropValue _ => 5
    | KDropFields _ _ => 6 | KDropMapSlots _ _ => 7 | KTrigger => 8 | KCollectCycles => 9
    | KUnbag _ => 10 | KCleanRun _ _ _ => 11 | _ => 12 end.
  Definition chk (rec : call -> machine -> machine * outcome) (c : call) (m : machine) : machine * outcome :=
    if is_coll c then rec c m else
    let m0 := report (10000 * kindn c + 1000) (sinv_codes m ++ pre_codes c m) m in
    let '(m', r) := rec c m0 in
    match r with
    | ONormal | OPanic => (report (10000 * kindn c + 3000) (post_codes c m m' r) (report (10000 * kindn c + 2000) (sinv_codes m') m'), r)
    | _ => (m', r)
    end.

  Fixpoint runc (fuel : nat) (c : call) (m : machine) {struct fuel} : machine * outcome :=
    match fuel with
    | O => (m, OFuel)
    | S n => step K P (chk (runc n)) c m
    end.

  Definition exec_topc (fuel : nat) (c : cmd) (m : machine) : machine :=
    let '(m, r) := chk (runc fuel) (KCmd None c) m in
    match r with
    | ONormal => m
    | OPanic => emit (ERes RPanicked) m
    | OAbort => emit_bad Abort 0 m
    | OFuel => emit_bad Fuel 0 m
    end.
End Rig.

