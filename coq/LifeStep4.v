(** * LifeStep4: the finalization and drop passes, [Cc::new], [try_unwrap], [finalize_again]. *)
From Coq Require Import NArith Bool List Lia.
From stdpp Require Import base list option.
From RecordUpdate Require Import RecordSet.
From RC Require Import Hdr Machine RunInd Flags Flags2.
From RC Require Import Inv InvP LifeInv LifeInv2 LifeChk LifeStep LifeStep2 LifeStep3.
Import ListNotations RecordSetNotations.
Local Open Scope N_scope.

Section Special.
  Context (K : conf) (P : prog) (mu : id) (nfa : bool).
  Hypothesis Hprog : nfa = true -> prog_nfa P = true.
  Notation Ls := (Ls K mu nfa).
  Notation LsX := (LsX K mu nfa).
  Notation G := (G mu).
  Notation Pre2 := (Pre2 K nfa).
  Notation Post2 := (Post2 K mu nfa).
  Notation Sat := (Sat mu).
  Context (rec : call -> machine -> machine * outcome).
  Hypothesis Hrec : rec_ok Pre2 Post2 rec.

  Lemma live_alloc_spec m o : live_alloc m o = true ->
    exists x, get m o = Some x /\ o_vst x = VLive /\ o_box x = BAlloc.
  Proof.
    unfold live_alloc. destruct (get m o) as [x|]; [|discriminate]. intros H. apply andb_true_iff in H as [H1 H2].
    exists x. split; [reflexivity|]. unfold is_live, is_alloc in *. split; [destruct (o_vst x) | destruct (o_box x)]; congruence.
  Qed.

  (** ** the finalization pass *)
  Lemma l_step_finalize_list L rest any old_f m :
    Pre2 (KFinalizeList L rest any old_f) m -> chk (KFinalizeList L rest any old_f) m = true ->
    Ls (length (heap m)) m (step_finalize_list K P rec L rest any old_f m).1.
  Proof.
    intros Hk Hc. cbn [LifeStep.Pre2] in Hk. cbn [chk] in Hc. unfold step_finalize_list.
    destruct rest as [|g rest']; [go|].
    cbn [forallb] in Hc. apply andb_true_iff in Hc as [Hg _].
    destruct (live_alloc_spec m g Hg) as (x & Hx & Hv & Hb).
    pose proof (Ls_refl K mu nfa (length (heap m)) m) as HP0. cbv zeta.
    assert (Hh : hdr_of m g = o_hdr x) by (unfold hdr_of; rewrite Hx; reflexivity). rewrite Hh.
    destruct (needs_fin (o_hdr x)) eqn:Hnf; [|fin].
    unfold needs_fin in Hnf. apply negb_true_iff in Hnf.
    assert (Hmap : is_map (uhdr g (set_fin true) m) g = o_ismap x).
    { unfold is_map, uhdr. rewrite (get_upd_eq g _ m x Hx). reflexivity. }
    rewrite Hmap. destruct (o_ismap x) eqn:Hm.
    - pose proof (tr_setfin K mu nfa (length (heap m)) m g x Hx) as HP1. repeat adv; fin.
    - pose proof (tr_fin K mu nfa (length (heap m)) m g x (cur_flags K (uhdr g (set_fin true) m)) Hx Hnf Hv Hb Hm Hk) as HP1.
      set (m3 := emit (ECb KFin g (cur_flags K (uhdr g (set_fin true) m))) (uhdr g (set_fin true) m)) in *.
      clearbody m3. clear HP0. repeat adv; fin.
  Qed.

  (** ** the drop pass *)
  Lemma isDropped_F x x' : ObjF x x' -> isDropped x -> isDropped x'.
  Proof. intros HF. apply (f_dropped _ _ HF). Qed.

  Lemma fold_free n0 m0 : forall L' mi, Ls n0 m0 mi -> (forall g, g ∈ L' -> Sat mi g isDropped) ->
    Ls n0 m0 (fold_left (fun m g => dealloc K g (drop_metadata K g m)) L' mi).
  Proof.
    induction L' as [|g L' IH]; intros mi HP HS; cbn [fold_left]; [exact HP|].
    set (m6 := drop_metadata K g mi). assert (HQ6 : Quiet mi m6) by (unfold m6; lq).
    assert (Hfree : forall n, Ls n m6 (dealloc K g m6)).
    { intros n. apply tr_free. intros HG6 y Hy.
      destruct (HS g ltac:(left) (Quiet_G mu mi m6 HQ6 HG6)) as (x5 & Hx5 & Hv5).
      destruct (Quiet_get mi m6 g x5 HQ6 Hx5) as (y' & Hy' & Hl). assert (y' = y) by congruence. subst y'.
      rewrite (lv_vst _ _ Hl), Hv5. split; [discriminate | intros _; discriminate]. }
    apply IH.
    - eapply Ls_trans; [eapply Ls_q; [exact HP | exact HQ6] | apply Hfree].
    - intros g' Hg'. eapply (Sat_frame' K mu nfa m6); [| apply isDropped_F |].
      + apply Hfree.
      + eapply Sat_quiet; [apply isDropped_lv | exact HQ6 | apply HS; right; exact Hg'].
  Qed.

  Lemma l_step_drop_list L rest old_d m :
    chk (KDropList L rest old_d) m = true -> Ls (length (heap m)) m (step_drop_list K rec L rest old_d m).1.
  Proof.
    intros Hc. unfold step_drop_list. destruct rest as [|g rest']; [|go].
    cbn [chk] in Hc. apply andb_true_iff in Hc as [_ Hc]. cbv zeta. pose proof (Ls_refl K mu nfa (length (heap m)) m) as HP0.
    assert (HP1 : Ls (length (heap m)) m (fold_left (fun m g => dealloc K g (drop_metadata K g m)) L m)).
    { apply fold_free; [exact HP0|]. intros g Hg _. rewrite forallb_forall in Hc. apply elem_of_list_In in Hg.
      specialize (Hc g Hg). destruct (get m g) as [x|]; [|discriminate]. apply andb_true_iff in Hc as [_ Hd].
      cbn in Hd. exists x. split; [reflexivity|]. unfold is_dropped_v in Hd. unfold isDropped. destruct (o_vst x); congruence. }
    cbn [fst]. posq.
  Qed.

  (** ** [Cc::new] *)
  Definition isNotYet (x : obj) : Prop := o_box x = BNotYet.
  Lemma isNotYet_F x x' : ObjF x x' -> isNotYet x -> isNotYet x'.
  Proof. intros HF. apply (f_notyet _ _ HF). Qed.

  Lemma Quiet_len m m' : Quiet m m' -> length (heap m') = length (heap m).
  Proof. intros H. apply H. Qed.

  Lemma get_new m (x0 : obj) : get (m <| heap ::= fun h => h ++ [x0] |>) (length (heap m)) = Some x0.
  Proof. unfold get. cbn. rewrite lookup_app_r by lia. rewrite Nat.sub_diag. reflexivity. Qed.

  (** after an optional trigger, the own new object is still not allocated *)
  Lemma trigger_keeps n0 m0 m2 o (Q : obj -> Prop) :
    Ls n0 m0 m2 -> Sat m2 o Q -> (forall x x', ObjF x x' -> Q x -> Q x') ->
    exists m3 t, (if k_auto K then rec KTrigger m2 else (m2, ONormal)) = (m3, t) /\ Ls n0 m0 m3 /\ Sat m3 o Q.
  Proof.
    intros HP HS HQ. destruct (k_auto K); [|exists m2, ONormal; auto].
    pose proof (Ls_rec' K mu nfa rec Hrec m2 KTrigger I) as HL.
    pose proof (Sat_frame' K mu nfa _ _ o _ _ HL HQ HS) as HS3.
    pose proof (Ls_step K mu nfa n0 m0 _ _ HP HL) as HP3.
    destruct (rec KTrigger m2) as [m3 t]. exists m3, t. auto.
  Qed.

  Lemma l_cmd_new self dst cls m : Ls (length (heap m)) m (cmd_new K P rec self dst cls m).1.
  Proof.
    unfold cmd_new. pose proof (Ls_refl K mu nfa (length (heap m)) m) as HP0.
    assert (HQ1 : Quiet m (resolve self dst m).1) by lq.
    pose proof (Ls_q K mu nfa _ m m _ HP0 HQ1) as HP1. pose proof (Quiet_len _ _ HQ1) as HL1.
    destruct (resolve self dst m) as [m1 r]. cbn [fst snd] in *. destruct r as [r|]; [|fin].
    unfold new_node. cbv zeta.
    set (x0 := Obj (hdr_new false) VLive BNotYet None cls false (replicate (c_nf (class_of P cls)) None)
                   (replicate (c_nw (class_of P cls)) None) None false [] [] false).
    set (o := length (heap m1)).
    pose proof (Ls_trans K mu nfa _ m m1 _ HP1 (tr_new K mu nfa (length (heap m)) m1 x0 eq_refl eq_refl)) as HP2.
    assert (HS2 : Sat (m1 <| heap ::= fun h => h ++ [x0] |>) o isNotYet).
    { intros _. exists x0. split; [apply get_new | reflexivity]. }
    destruct (trigger_keeps _ m _ o isNotYet HP2 HS2 isNotYet_F) as (m3 & t & -> & HP3 & HS3).
    destruct t; try fin.
    assert (HP4 : Ls (length (heap m)) m (box_alloc K o m3)).
    { eapply Ls_trans; [exact HP3|]. apply tr_alloc; [unfold o; lia|].
      intros HG y Hy. destruct (HS3 HG) as (y' & Hy' & Hb). congruence. }
    clear HP0 HP1 HP2 HP3. repeat adv; fin.
  Qed.

  (** ** [try_unwrap] *)
  Lemma l_cmd_try_unwrap self l v m :
    chk (KCmd self (CTryUnwrap l v)) m = true -> Ls (length (heap m)) m (cmd_try_unwrap K self l v m).1.
  Proof.
    intros Hc. cbn [chk] in Hc. unfold cmd_try_unwrap. pose proof (Ls_refl K mu nfa (length (heap m)) m) as HP0.
    assert (HQ1 : Quiet m (resolve self l m).1) by lq.
    pose proof (Ls_q K mu nfa _ m m _ HP0 HQ1) as HP1.
    destruct (resolve self l m) as [m1 r]. cbn [fst snd] in *. destruct r as [r|]; [|fin].
    destruct (values m1 !! v) as [[?|]|]; try fin.
    destruct (read_loc r m1) as [o|] eqn:Hrd; [|fin].
    destruct (negb (h_rc (hdr_of m1 o) =? 1)); [fin|].
    destruct (st_collecting m1 || st_dropping m1 || k_fin K && st_finalizing m1); [fin|].
    destruct (live_alloc_spec m o Hc) as (x & Hx & Hv & Hb).
    set (m3 := remove_from_list o (write_loc r None m1)).
    assert (HQ3 : Quiet m m3) by (unfold m3; eapply Quiet_trans; [exact HQ1 | lq]).
    destruct (Quiet_get m m3 o x HQ3 Hx) as (x3 & Hx3 & Hl3).
    assert (Hv3 : o_vst x3 = VLive) by (rewrite (lv_vst _ _ Hl3); exact Hv).
    pose proof (Ls_q K mu nfa _ m m m3 HP0 HQ3) as HP3.
    pose proof (Ls_trans K mu nfa _ m m3 _ HP3 (tr_moved K mu nfa _ m3 o x3 Hx3 Hv3)) as HP4.
    change (upd o (fun x0 => x0 <| o_vst := VMoved |>) m3) with (upd o (f_vst VMoved) m3).
    set (m4 := upd o (f_vst VMoved) m3) in *.
    assert (Hx4 : get m4 o = Some (f_vst VMoved x3)) by apply (get_upd_eq o _ m3 x3 Hx3).
    clearbody m4.
    set (m6 := drop_metadata K o (m4 <| values ::= <[v := Some o]> |>)).
    assert (HQ6 : Quiet m4 m6) by (unfold m6; lq).
    pose proof (Ls_q K mu nfa _ m m4 m6 HP4 HQ6) as HP6.
    assert (HP7 : Ls (length (heap m)) m (dealloc K o m6)).
    { eapply Ls_trans; [exact HP6|]. apply tr_free. intros _ y Hy.
      destruct (Quiet_get m4 m6 o _ HQ6 Hx4) as (y' & Hy' & Hl). assert (y' = y) by congruence. subst y'.
      rewrite (lv_vst _ _ Hl). cbn. split; [discriminate | intros _; discriminate]. }
    fin.
  Qed.

  (** ** [finalize_again] *)
  Lemma l_cmd_fin_again self l m :
    Pre2 (KCmd self (CFinAgain l)) m -> Ls (length (heap m)) m (cmd_fin_again K self l m).1.
  Proof.
    intros Hp. cbn in Hp. assert (Hn : nfa = false) by (destruct nfa; [specialize (Hp eq_refl); discriminate | reflexivity]).
    unfold cmd_fin_again. pose proof (Ls_refl K mu nfa (length (heap m)) m) as HP0.
    destruct (negb (k_fin K)); [fin|]. adv.
    destruct (o ≫= λ r, read_loc r m0) as [t|]; [|fin].
    destruct (st_collecting m0 || st_finalizing m0 || st_dropping m0); [fin|].
    destruct (get m0 t) as [x|] eqn:Hx.
    - pose proof (Ls_trans K mu nfa _ m m0 _ HP (tr_finagain K mu nfa _ m0 t x Hx Hn)) as HP2. fin.
    - assert (HQ : Quiet m0 (uhdr t (set_fin false) m0)).
      { unfold uhdr. apply Quiet_upd_at; [|apply Quiet_refl]. intros y Hy. congruence. }
      pose proof (Ls_q K mu nfa _ m m0 _ HP HQ) as HP2. fin.
  Qed.
End Special.
