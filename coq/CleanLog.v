(** * CleanLog: "emits no [ECb KAction] event", literally.  The log only grows
    ([Flags3.run_log_mono]); if moreover the executed aids are unchanged, none of the new events
    is the execution of an action. *)
From Coq Require Import NArith Bool List Lia.
From stdpp Require Import base list option.
From RecordUpdate Require Import RecordSet.
From RC Require Import Hdr Machine RunInd Flags3 Clean CleanFrame CleanStep CleanStep2 CleanThm.
Import ListNotations RecordSetNotations.

Lemma omap_nil_Forall (k : list event) :
  executed_aids k = [] -> Forall (fun e => aid_of_ev e = None) k.
Proof.
  unfold executed_aids. induction k as [|e k IH]; cbn; intros H; [constructor|].
  destruct (aid_of_ev e) eqn:Ee; [discriminate|]. constructor; auto.
Qed.

Lemma quiet_ext_of_suffix (l l' : list event) :
  suffix l l' -> executed_aids l' = executed_aids l -> quiet_ext l l'.
Proof.
  intros [k ->] E. exists k. split; [reflexivity|]. apply omap_nil_Forall.
  unfold executed_aids in *. rewrite omap_app in E.
  apply (app_inv_tail (omap aid_of_ev l) _ []). exact E.
Qed.

(** Theorem 3, with the new events made explicit *)
Theorem C10_clean_after_noop_events K P fuel self c m cr :
  mjoin (cslots m !! c) = Some cr ->
  ((weak_strong_count (WTo (cr_map cr)) m).2 = 0%N \/
   (forall mx s, get m (cr_map cr) = Some mx ->
                 o_mslots mx !! cr_slot cr <> Some (MAction (cr_aid cr) s))) ->
  quiet_ext (log m) (log (run K P fuel (KCmd self (CClean c)) m).1).
Proof.
  intros Ecr Hno. apply quiet_ext_of_suffix.
  - apply run_log_mono.
  - exact (proj1 (C10_clean_after_noop K P fuel self c m cr Ecr Hno)).
Qed.

(** ** No action is ever lost: in every run that did not run out of fuel, every aid allocated
    so far is stored in exactly one slot and has not run, or has run exactly once and is stored
    nowhere. *)
Definition stored (m : machine) (a : nat) : Prop := exists o k s, slot_at m o k = Some (MAction a s).
Definition complete (m : machine) : Prop :=
  forall a, a < next_aid m -> stored m a \/ a ∈ executed_aids (log m).
Definition fuel_free (m : machine) : Prop := forall o, EBad Fuel o ∉ log m.

Lemma stored_cv m a : stored_in (cv_h (cv m)) a <-> stored m a.
Proof.
  unfold stored_in, stored. split; intros (o & k & s & H); exists o, k, s.
  - rewrite <- slotv_cv. exact H.
  - rewrite slotv_cv. exact H.
Qed.

Lemma complete_Rel m m' : complete m -> Rel (cv m) (cv m') -> complete m'.
Proof.
  intros HC ((_ & (_ & Hm & _) & _) & HK1 & HK3) a Ha. change (next_aid m') with (cv_n (cv m')) in Ha.
  destruct (decide (a < next_aid m)) as [Hlt|Hge].
  - destruct (HC a Hlt) as [(o & k & s & Hs)|Hx].
    + rewrite <- slotv_cv in Hs. destruct (HK1 o k a s Hs) as [Hs'|Hx']; [|right; exact Hx'].
      left. exists o, k, s. rewrite <- slotv_cv. exact Hs'.
    + right. exact (Hm a Hx).
  - destruct (HK3 a ltac:(cbn; lia) Ha) as [Hs|Hx]; [left; apply stored_cv, Hs|right; exact Hx].
Qed.

Lemma complete_cv m m' : cv m' = cv m -> complete m -> complete m'.
Proof.
  intros E HC a Ha. change (next_aid m') with (cv_n (cv m')) in Ha. rewrite E in Ha.
  destruct (HC a Ha) as [Hs|Hx].
  - left. apply stored_cv. rewrite E. apply stored_cv, Hs.
  - right. change (a ∈ cv_x (cv m')). rewrite E. exact Hx.
Qed.

Lemma exec_top_fuel_free K P fuel c m : fuel_free (exec_top K P fuel c m) -> fuel_free m.
Proof.
  unfold exec_top. pose proof (run_log_mono K P fuel (KCmd None c) m) as [l Hl].
  destruct (run K P fuel (KCmd None c) m) as [m' r]. cbn [fst] in Hl.
  intros Hff o Ho. apply (Hff o). destruct r; cbn; rewrite ?Hl;
    repeat first [apply elem_of_app; right | apply elem_of_cons; right]; exact Ho.
Qed.

Lemma exec_top_complete K P fuel c m :
  CI m -> complete m -> fuel_free (exec_top K P fuel c m) ->
  complete (exec_top K P fuel c m) /\ fuel_free m.
Proof.
  intros HI HC Hff. unfold exec_top in *.
  pose proof (run_clean K P fuel (KCmd None c) m (conj HI I)) as [HR _].
  pose proof (run_log_mono K P fuel (KCmd None c) m) as [l Hl].
  destruct (run K P fuel (KCmd None c) m) as [m' r]. cbn [fst snd] in *.
  assert (Hff' : forall m2, (forall o, EBad Fuel o ∉ log m2) -> (exists l2, log m2 = l2 ++ log m') -> fuel_free m).
  { intros m2 H2 (l2 & E2) o Ho. apply (H2 o). rewrite E2, Hl. apply elem_of_app. right.
    apply elem_of_app. right. exact Ho. }
  destruct r; unfold res in HR; cbn [fst snd] in HR.
  - split; [eapply complete_Rel; eassumption|]. apply (Hff' m' Hff). exists []. reflexivity.
  - split; [eapply complete_cv; [|eapply complete_Rel; eassumption]; apply cv_emit; reflexivity|].
    apply (Hff' _ Hff). exists [ERes RPanicked]. reflexivity.
  - split; [eapply complete_cv; [|eapply complete_Rel; eassumption]; apply cv_emit_bad|].
    apply (Hff' _ Hff). exists [EBad Abort 0]. reflexivity.
  - exfalso. apply (Hff 0). cbn. left.
Qed.

Theorem prog_complete K P fuel cmds :
  let m := fold_left (fun m c => exec_top K P fuel c m) cmds (init K) in
  fuel_free m -> complete m.
Proof.
  cbv zeta. induction cmds as [|c cmds IH] using rev_ind; intros Hff.
  - intros a Ha. cbn in Ha. lia.
  - rewrite fold_left_app in *. cbn [fold_left] in *.
    pose proof (exec_top_fuel_free K P fuel c _ Hff) as Hff0.
    apply (exec_top_complete K P fuel c _ (prog_CI K P fuel cmds) (IH Hff0) Hff).
Qed.

(** Theorem: at most once, and never lost *)
Theorem C10_never_lost K P fuel cmds :
  let m := fold_left (fun m c => exec_top K P fuel c m) cmds (init K) in
  fuel_free m ->
  forall a, a < next_aid m ->
    (stored m a /\ a ∉ executed_aids (log m)) \/
    (count_occ Nat.eq_dec (executed_aids (log m)) a = 1 /\ ~ stored m a).
Proof.
  intros m Hff a Ha. pose proof (prog_CI K P fuel cmds) as HI. fold m in HI.
  destruct (prog_complete K P fuel cmds Hff a Ha) as [Hs|Hx].
  - left. split; [exact Hs|]. destruct Hs as (o & k & s & Hs).
    exact (cis_nx _ (CI_spell _ HI) _ _ _ _ Hs).
  - right. split; [apply count_occ_NoDup_1; [exact (ci_xnd _ HI)|exact Hx]|].
    intros (o & k & s & Hs). exact (cis_nx _ (CI_spell _ HI) _ _ _ _ Hs Hx).
Qed.
