(** * CleanLog: "emits no [ECb KAction] event", literally.  The log only grows
    ([Flags3.run_log_mono]); if moreover the executed aids are unchanged, none of the new events
    is the execution of an action. *)
From Coq Require Import NArith Bool List Lia.
From stdpp Require Import base list option.
From RecordUpdate Require Import RecordSet.
From RC Require Import Hdr Machine RunInd Flags3 Clean CleanThm.
Import ListNotations RecordSetNotations.

Lemma omap_nil_Forall (k : list event) :
  executed_aids k = [] -> Forall (fun e => aid_of_ev e = None) k.
Proof.
  unfold executed_aids. induction k as [|e k IH]; cbn; intros H; [constructor|].
  destruct (aid_of_ev e) eqn:Ee; [discriminate|]. constructor; auto.
Qed.

Lemma quiet_ext_of_suffix (l l' : list event) :
  suffix l l' -> executed_aids l' = executed_aids l -> quiet_ext l l'.
Proof.
  intros [k ->] E. exists k. split; [reflexivity|]. apply omap_nil_Forall.
  unfold executed_aids in *. rewrite omap_app in E.
  apply (app_inv_tail (omap aid_of_ev l) _ []). exact E.
Qed.

(** Theorem 3, with the new events made explicit *)
Theorem C10_clean_after_noop_events K P fuel self c m cr :
  mjoin (cslots m !! c) = Some cr ->
  ((weak_strong_count (WTo (cr_map cr)) m).2 = 0%N \/
   (forall mx s, get m (cr_map cr) = Some mx ->
                 o_mslots mx !! cr_slot cr <> Some (MAction (cr_aid cr) s))) ->
  quiet_ext (log m) (log (run K P fuel (KCmd self (CClean c)) m).1).
Proof.
  intros Ecr Hno. apply quiet_ext_of_suffix.
  - apply run_log_mono.
  - exact (proj1 (C10_clean_after_noop K P fuel self c m cr Ecr Hno)).
Qed.
