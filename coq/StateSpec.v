(** * StateSpec: the code generated from src/state.rs (is_tracing, allocation accounting). *)
From Coq Require Import NArith Bool Lia.
From RC Require Import Hdr Word.
From RC.gen Require StateGen.
Module S := StateGen.
Local Open Scope N_scope.

(** State::is_tracing, both cfg variants (feat_fin = feature "finalization"). *)
Theorem gen_is_tracing_spec ff c f d : S.is_tracing ff c f d = Hdr.is_tracing_spec ff c f d.
Proof. destruct ff, c, f, d; reflexivity. Qed.

Theorem gen_is_tracing_asserts ff c f d :
  S.is_tracing_asserts ff c f d = true /\ S.is_tracing_noovf ff c f d = true.
Proof. split; reflexivity. Qed.

(** State::new *)
Theorem gen_state_new_spec :
  S.State_new_collecting = false /\ S.State_new_finalizing = false /\ S.State_new_dropping = false /\
  S.State_new_allocated_bytes = 0 /\ S.State_new_executions_counter = 0.
Proof. repeat split; reflexivity. Qed.

Corollary gen_is_tracing_initial ff :
  S.is_tracing ff S.State_new_collecting S.State_new_finalizing S.State_new_dropping = false.
Proof. destruct ff; reflexivity. Qed.

(** record_allocation: release semantics is wrapping addition; the debug-build overflow flag is
    exactly "the mathematical sum does not fit in usize". *)
Theorem gen_record_allocation_spec a sz :
  S.record_allocation a sz = (a + sz) mod 2 ^ 64 /\
  (S.record_allocation_noovf a sz = true <-> a + sz < 2 ^ 64) /\
  (a + sz < 2 ^ 64 -> S.record_allocation a sz = a + sz) /\
  S.record_allocation a sz < 2 ^ 64 /\ S.record_allocation_asserts a sz = true.
Proof.
  unfold S.record_allocation, S.record_allocation_noovf, Usz.add, Usz.add_ovf.
  repeat split.
  - rewrite negb_true_iff. apply wadd_ovf_false.
  - rewrite negb_true_iff. apply wadd_ovf_false.
  - apply wadd_small.
  - apply wadd_lt.
Qed.

(** record_deallocation: wrapping subtraction; the underflow flag is exactly [sz <= a]. *)
Theorem gen_record_deallocation_spec a sz :
  (S.record_deallocation_noovf a sz = true <-> sz <= a) /\
  (sz <= a -> a < 2 ^ 64 -> S.record_deallocation a sz = a - sz) /\
  (a < sz -> S.record_deallocation_noovf a sz = false) /\
  S.record_deallocation a sz < 2 ^ 64 /\ S.record_deallocation_asserts a sz = true.
Proof.
  unfold S.record_deallocation, S.record_deallocation_noovf, Usz.sub, Usz.sub_ovf.
  repeat split.
  - rewrite negb_true_iff. apply wsub_ovf_false.
  - rewrite negb_true_iff. apply wsub_ovf_false.
  - apply wsub_small.
  - intros H. apply negb_false_iff. unfold wsub_ovf. apply N.ltb_lt, H.
  - apply wsub_lt.
Qed.

(** Allocation followed by deallocation of the same size restores the count. *)
Corollary gen_alloc_dealloc a sz :
  a + sz < 2 ^ 64 -> S.record_deallocation (S.record_allocation a sz) sz = a.
Proof.
  intros H. destruct (gen_record_allocation_spec a sz) as (_ & _ & E & _). rewrite (E H).
  destruct (gen_record_deallocation_spec (a + sz) sz) as (_ & D & _). rewrite D; lia.
Qed.

(** increment_executions_count *)
Theorem gen_increment_executions_spec n :
  S.increment_executions_count n = (n + 1) mod 2 ^ 64 /\
  (n + 1 < 2 ^ 64 -> S.increment_executions_count n = n + 1) /\
  (S.increment_executions_count_noovf n = true <-> n + 1 < 2 ^ 64) /\
  S.increment_executions_count_asserts n = true.
Proof.
  unfold S.increment_executions_count, S.increment_executions_count_noovf, Usz.add, Usz.add_ovf.
  repeat split.
  - apply wadd_small.
  - rewrite negb_true_iff. apply wadd_ovf_false.
  - rewrite negb_true_iff. apply wadd_ovf_false.
Qed.
