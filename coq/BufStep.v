(** * BufStep: every activation kind of the interpreter preserves the buffer-and-marks
    invariant (one lemma per [step_*]/[cmd_*] definition), assuming it of the recursive calls. *)
From Coq Require Import NArith Bool List Lia.
From stdpp Require Import base list option sets.
From RecordUpdate Require Import RecordSet.
From RC Require Import Hdr Machine RunInd BufBase BufPass.
Import ListNotations RecordSetNotations.
Local Open Scope N_scope.

Section Defs.
  Context (K : conf) (P : prog).

  (** [A] is the active list of the enclosing collection pass: it is fixed while user code
      (finalizers, Drop impls, cleaning actions) runs. *)
  Definition PreA (A : list id) (c : call) (m : machine) : Prop :=
    match c with
    | KCollect => G K A m /\ st_collecting m = false
    | KCollectLoop _ | KCollectOnce => G K [] m /\ st_collecting m = true
    | KFinalizeList L _ _ _ | KDropList L _ _ => G K L m /\ st_collecting m = true
    | _ => G K A m
    end.

  Definition goalA (A : list id) (c : call) : machine -> Prop :=
    match c with
    | KCollectLoop _ | KCollectOnce | KFinalizeList _ _ _ _ | KDropList _ _ _ => G K []
    | _ => G K A
    end.

  Definition PostA (A : list id) (c : call) (m m' : machine) (r : outcome) : Prop :=
    frame m m' /\ (r <> OFuel -> goalA A c m') /\
    (c = KCollect -> r <> OFuel -> st_exec m' = N.succ (st_exec m)).

  Definition Pre (c : call) (m : machine) : Prop := exists A, PreA A c m.
  Definition Post (c : call) (m m' : machine) (r : outcome) : Prop :=
    forall A, PreA A c m -> PostA A c m m' r.

  Definition rok (rec : call -> machine -> machine * outcome) : Prop :=
    forall A c m, PreA A c m -> PostA A c m (rec c m).1 (rec c m).2.

  Lemma rok_rec_ok rec : rec_ok Pre Post rec <-> rok rec.
  Proof.
    split.
    - intros H A c m HP. apply H; [exists A; exact HP|exact HP].
    - intros H c m _ A HP. apply H, HP.
  Qed.

  (** calls made by program text and by [Cc::drop]: the active list is the ambient one *)
  Definition script_level (c : call) : Prop :=
    match c with
    | KCollect | KCollectLoop _ | KCollectOnce | KFinalizeList _ _ _ _ | KDropList _ _ _ => False
    | _ => True
    end.

  (** the position reached inside an activation that started in [m] *)
  Definition Res (A : list id) (m m' : machine) (r : outcome) : Prop :=
    frame m m' /\ (r <> OFuel -> G K A m').

  Lemma Res_start A m r : G K A m -> Res A m m r.
  Proof. intros H. split; [apply frame_refl|auto]. Qed.
  Lemma Res_mild A m mi r E : Res A m mi r -> mild K mi E -> Res A m E r.
  Proof.
    intros [F H] M. split; [eapply frame_trans; [exact F|apply M]|].
    intros Hr. eapply mild_G; [exact M|auto].
  Qed.
  Lemma Res_relabel A m mi r r' : Res A m mi r -> (r' <> OFuel -> r <> OFuel) -> Res A m mi r'.
  Proof. intros [F H] Hr. split; [exact F|auto]. Qed.
  Lemma Res_call rec A m mi r0 c E0 :
    rok rec -> script_level c -> Res A m mi r0 -> r0 <> OFuel -> mild K mi E0 ->
    Res A m (rec c E0).1 (rec c E0).2.
  Proof.
    intros Hrec Hc HR Hr0 M. destruct (Res_mild _ _ _ _ _ HR M) as [F H].
    assert (HP : PreA A c E0) by (destruct c; try contradiction; cbn; auto).
    destruct (Hrec A c E0 HP) as (F1 & G1 & _). split; [eapply frame_trans; eassumption|].
    intros Hr. specialize (G1 Hr). destruct c; try contradiction; exact G1.
  Qed.
  Lemma Res_unwind rec A m mi r0 c E0 :
    rok rec -> script_level c -> Res A m mi r0 -> r0 <> OFuel -> mild K mi E0 ->
    Res A m (unwinding (rec c) E0).1 (unwinding (rec c) E0).2.
  Proof.
    intros Hrec Hc HR Hr0 M. unfold unwinding.
    assert (M' : mild K mi (E0 <| panicking := true |>)) by mild_solve.
    pose proof (Res_call rec A m mi r0 c _ Hrec Hc HR Hr0 M') as H.
    destruct (rec c (E0 <| panicking := true |>)) as [m1 r1]. cbn [fst snd] in *.
    eapply Res_relabel; [eapply Res_mild; [exact H|mild_solve]|].
    destruct r1; try (intros _; discriminate). auto.
  Qed.
  Lemma Post_of_Res A c m m' r : script_level c -> Res A m m' r -> PostA A c m m' r.
  Proof.
    intros Hc [F H]. split; [exact F|]. split; [|intros ->; contradiction].
    intros Hr. specialize (H Hr). destruct c; try contradiction; exact H.
  Qed.

  Lemma Res_call_collect rec A m mi r0 E0 :
    rok rec -> Res A m mi r0 -> r0 <> OFuel -> mild K mi E0 -> st_collecting E0 = false ->
    Res A m (rec KCollect E0).1 (rec KCollect E0).2.
  Proof.
    intros Hrec HR Hr0 M Hc. destruct (Res_mild _ _ _ _ _ HR M) as [F H].
    assert (HP : PreA A KCollect E0) by (cbn; auto).
    destruct (Hrec A KCollect E0 HP) as (F1 & G1 & _). split; [eapply frame_trans; eassumption|].
    exact G1.
  Qed.

  (** states that agree on the projections the invariant reads *)
  Lemma Imk_same Ls Qs m m' :
    heap m' = heap m -> pc m' = pc m -> pc_size m' = pc_size m -> pc_alive m' = pc_alive m ->
    st_alloc m' = st_alloc m -> log m' = log m -> Imk K Ls Qs m -> Imk K Ls Qs m'.
  Proof.
    intros Eh Ep Es Ea Eb El [H1 H2 H3 H4 H5 H6 H7 H8 H9 H10 H11].
    unfold get, bytes, uflow in *.
    split; unfold get, bytes, uflow; rewrite ?Eh, ?Ep, ?Es, ?Ea, ?Eb, ?El; assumption.
  Qed.
  Lemma dirty_same m m' : log m' = log m -> dirty m -> dirty m'.
  Proof. unfold dirty. intros ->. auto. Qed.

  (** a collection can only start outside the finalization and drop passes *)
  Lemma G_idle A m : G K A m -> st_collecting m = false -> G K [] m.
  Proof.
    intros [D|(I & HA & Hz)] Hc; [left; exact D|right].
    destruct A as [|a A]; [split; [exact I|split; [exact HA|exact Hz]]|].
    rewrite HA in Hc by discriminate. discriminate.
  Qed.
  Lemma G_nil_any A m : G K [] m -> (A = [] \/ dirty m) -> G K A m.
  Proof. intros H [->|D]; [exact H|left; exact D]. Qed.
  Lemma G_idle_cases A m : G K A m -> st_collecting m = false -> A = [] \/ dirty m.
  Proof.
    intros [D|(I & HA & Hz)] Hc; [right; exact D|left]. destruct A as [|a A]; [reflexivity|].
    rewrite HA in Hc by discriminate. discriminate.
  Qed.
  Lemma G_of_GI L m :
    GI K L [] m -> (L <> [] -> st_collecting m = true) -> (dirty m \/ tcz m) -> G K L m.
  Proof.
    intros [D|I] H [D'|Hz]; [left; exact D|left; exact D|left; exact D'|right].
    split; [exact I|split; assumption].
  Qed.
  Lemma Ibuf_nil m : Imk K [] [] m -> tcz m -> Ibuf K [] m.
  Proof. intros I Hz. split; [exact I|]. split; [intros H; contradiction|exact Hz]. Qed.
  Lemma tcz_fold_uhdr f L : forall m,
    (forall h, h_mark (f h) = PC -> h_tc (f h) = 0) -> tcz m ->
    tcz (fold_left (fun m g => uhdr g f m) L m).
  Proof.
    induction L as [|a L IH]; intros m Hf Z; cbn; [exact Z|]. apply IH; [exact Hf|].
    apply tcz_upd; [exact Z|]. intros x _. cbn. apply Hf.
  Qed.
  Lemma tcz_box_alloc o m : tcz m -> tcz (box_alloc K o m).
  Proof.
    intros Z. unfold box_alloc. destruct (get m o) as [x|]; [|exact Z].
    destruct (box_layout K x) as [sz al].
    match goal with |- tcz (emit _ (upd o ?f ?m1)) =>
      apply (tcz_heap (upd o f m1)); [reflexivity|]; apply tcz_upd; [exact Z|] end.
    intros y _ Hm. discriminate Hm.
  Qed.
  Lemma GI_of_G L m : G K L m -> GI K L [] m.
  Proof. intros [D|[I _]]; [left; exact D|right; exact I]. Qed.

  (** the object a [Cc::drop] works on stays a heap object that once had a box *)
  Definition live_at (o : id) (m : machine) : Prop :=
    dirty m \/ exists x, get m o = Some x /\ o_box x <> BNotYet.
  Lemma live_frame o m m' : live_at o m -> frame m m' -> live_at o m'.
  Proof.
    intros [D|(x & Ex & Hb)] F; [left; eapply frame_dirty; eassumption|].
    destruct (fr_obj _ _ F o x Ex) as (x' & Ex' & N1 & _). right. exists x'. auto.
  Qed.
  Lemma mild_add_to_list' o m : live_at o m -> mild K m (add_to_list o m).
  Proof.
    intros [D|(x & Ex & Hb)]; [|eapply mild_add_to_list; eassumption].
    assert (D' : dirty (add_to_list o m)) by (eapply frame_dirty; [apply frame_add_to_list|exact D]).
    split; [apply frame_add_to_list|]. split; [intros Ls Qs _; left; exact D'|].
    intros Ls Qs _ _. left. exact D'.
  Qed.

  (** [set_dropped] is only ever applied to objects that are not buffered *)
  Lemma mild_drop_prelude o g Y :
    mild K Y (uhdr o set_dropped (set st_dropping g (remove_from_list o Y))).
  Proof.
    assert (M1 : mild K Y (set st_dropping g (remove_from_list o Y))).
    { eapply mild_trans; [apply mild_remove_from_list|apply mild_set_st_dropping]. }
    split; [eapply frame_trans; [apply M1|apply frame_uhdr]|]. split.
    - intros Ls Qs H. apply GI_uhdr; [intros h; reflexivity|]. apply (mild_GI K _ _ _ _ M1 H).
    - intros Ls Qs I Z. right. apply tcz_upd.
      + eapply (tcz_heap (remove_from_list o Y)); [reflexivity|]. apply tcz_remove_from_list, Z.
      + intros x E Hm. exfalso.
        apply (remove_from_list_notpc o Y x (ik_alive _ _ _ _ I)); [exact E|exact Hm].
  Qed.
  Lemma Res_shift A m m1 E r : frame m m1 -> Res A m1 E r -> Res A m E r.
  Proof. intros F [F1 H]. split; [eapply frame_trans; eassumption|exact H]. Qed.

  Lemma call_frame rec A m mi r0 c E0 :
    rok rec -> script_level c -> Res A m mi r0 -> r0 <> OFuel -> mild K mi E0 ->
    frame E0 (rec c E0).1.
  Proof.
    intros Hrec Hc HR Hr0 M. destruct (Res_mild _ _ _ _ _ HR M) as [F H].
    assert (HP : PreA A c E0) by (destruct c; try contradiction; cbn; auto).
    apply (Hrec A c E0 HP).
  Qed.

  Lemma G_box_alloc A o m :
    (forall x, get m o = Some x -> o_box x = BNotYet \/ dirty m) ->
    G K A m -> G K A (box_alloc K o m).
  Proof.
    intros Hb HG. destruct (GI_box_alloc K A [] o m Hb (GI_of_G _ _ HG)) as [D|I]; [left; exact D|].
    destruct HG as [D|(_ & HA & Hz)]; [left; eapply dirty_ext; [apply box_alloc_ext|exact D]|right].
    split; [exact I|]. split; [rewrite box_alloc_coll; exact HA|apply tcz_box_alloc, Hz].
  Qed.

  (** the box of the object created by the preceding [new_node]/[new_map] (in state [m2]) *)
  Lemma Res_box_alloc A m mi r o y m2 :
    frame m2 mi -> get m2 o = Some y -> o_box y = BNotYet ->
    Res A m mi r -> (length (heap m) <= o)%nat ->
    Res A m (box_alloc K o mi) r.
  Proof.
    intros F2 Hy Hb [F H] Hlen. split; [apply frame_box_alloc; assumption|].
    intros Hr. apply G_box_alloc; [|exact (H Hr)].
    intros x Ex. destruct (fr_obj _ _ F2 o y Hy) as (x' & Ex' & _ & N2).
    rewrite Ex in Ex'. injection Ex' as <-. exact (N2 Hb).
  Qed.

  Lemma raise_nf m : raise m <> OFuel.
  Proof. unfold raise. destruct (panicking m); discriminate. Qed.
End Defs.

#[export] Hint Extern 6 (mild ?K ?a ?b) =>
  match goal with H : mild K ?X b |- _ => apply (mild_trans K a X b); [|exact H] end : mild.

#[export] Hint Extern 2 (mild _ _ (uhdr ?o (fun _ => ?h) ?X)) =>
  (apply (mild_trans _ _ X);
   [|apply mild_uhdr_const;
     [first [eapply inc_rc_mark; eassumption | eapply dec_rc_mark; eassumption]
     |first [eapply inc_rc_tc; eassumption | eapply dec_rc_tc; eassumption]]]) : mild.

Ltac live_tac :=
  match goal with
  | HR : Res ?K _ ?m1 ?mi _, HL : live_at ?o ?m1 |- live_at ?o ?X =>
    eapply live_frame;
    [exact HL|eapply frame_trans; [apply HR|apply (mild_frame K); mild_solve]]
  end.
#[export] Hint Extern 1 (mild ?K _ (add_to_list ?o ?X)) =>
  (apply (mild_trans K _ X); [|apply mild_add_to_list'; live_tac]) : mild.

Ltac notpc_tac :=
  first
  [ left; apply dirty_emit_bad; reflexivity
  | right; intros ? Ex Hm;
    match goal with
    | H : is_in_list (hdr_of _ _) = true |- _ =>
      rewrite (hdr_of_get _ _ _ Ex) in H; apply mark_il in H; congruence
    end ].
#[export] Hint Extern 1 (mild ?K _ (uhdr ?o set_dropped (set st_dropping ?g (remove_from_list ?o ?Y)))) =>
  (apply (mild_trans K _ Y); [|apply mild_drop_prelude]) : mild.
#[export] Hint Extern 2 (mild ?K _ (uhdr ?o set_dropped ?X)) =>
  (apply (mild_trans K _ X);
   [|apply mild_uhdr_notpc; [intros ?; reflexivity|notpc_tac]]) : mild.

Ltac nf_tac := first [discriminate | apply raise_nf | assumption].
Ltac relabel_tac :=
  first [ exact (fun H => H) | intros _; discriminate | intros _; apply raise_nf | intros _; assumption ].

(** one step of symbolic execution: the hypothesis [Res K A m mi r] is the current position *)
Ltac new_obj_facts HR K m E0 :=
  let Hlen := fresh "Hlen" in
  assert (Hlen : (length (heap m) <= length (heap E0))%nat)
    by (apply frame_len; eapply frame_trans; [apply HR|apply (mild_frame K); mild_solve]).

Ltac adv_box HR K A m mi r0 o X :=
  let H := fresh "HR" in
  assert (H : Res K A m (box_alloc K o X) r0)
    by (eapply (Res_box_alloc K A m X r0 o);
        [ first [eassumption|apply frame_refl]
        | first [eassumption|erewrite get_upd_eq by eassumption; reflexivity]
        | first [eassumption|cbn; eassumption]
        | eapply Res_mild; [exact HR | mild_solve]
        | eassumption ]);
  clear HR.

Ltac step1 Hrec :=
  match goal with
  | HR : Res ?K ?A ?m ?mi ?r0 |- context [match ?X with _ => _ end] =>
    lazymatch X with
    | context [match _ with _ => _ end] => fail
    | _ => idtac
    end;
    first
    [ lazymatch X with
      | context [box_alloc K ?o ?Y] =>
        lazymatch mi with context [box_alloc K o Y] => fail | _ => idtac end;
        adv_box HR K A m mi r0 o Y
      end
    | lazymatch X with
      | new_node ?P ?cls ?E0 =>
        new_obj_facts HR K m E0;
        let H := fresh "HR" in
        assert (H : Res K A m (new_node P cls E0).1 r0) by (eapply Res_mild; [exact HR | mild_solve]);
        clear HR;
        let Ho := fresh "Ho" in let Hg := fresh "Hg" in
        pose proof (new_node_id P cls E0) as Ho; pose proof (new_node_get P cls E0) as Hg;
        destruct (new_node P cls E0) as [? ?]; cbn [fst snd] in H, Ho, Hg;
        subst; destruct Hg as (? & ? & ?)
      | new_map ?E0 =>
        new_obj_facts HR K m E0;
        let H := fresh "HR" in
        assert (H : Res K A m (new_map E0).1 r0) by (eapply Res_mild; [exact HR | mild_solve]);
        clear HR;
        let Ho := fresh "Ho" in let Hg := fresh "Hg" in
        pose proof (new_map_id E0) as Ho; pose proof (new_map_get E0) as Hg;
        destruct (new_map E0) as [? ?]; cbn [fst snd] in H, Ho, Hg;
        subst; destruct Hg as (? & ? & ?)
      end
    | lazymatch X with
      | unwinding (?rc ?c) ?E0 =>
        let H := fresh "HR" in
        assert (H : Res K A m (unwinding (rc c) E0).1 (unwinding (rc c) E0).2)
          by (eapply Res_unwind; [exact Hrec | exact I | exact HR | nf_tac | mild_solve]);
        clear HR; destruct (unwinding (rc c) E0) as [? ?]; cbn [fst snd] in H
      | ?rc ?c ?E0 =>
        lazymatch type of Hrec with rok _ ?rc' => constr_eq rc rc' end;
        let H := fresh "HR" in
        try (let HF := fresh "HF" in
             assert (HF : frame E0 (rc c E0).1)
               by (eapply call_frame; [exact Hrec | exact I | exact HR | nf_tac | mild_solve]));
        assert (H : Res K A m (rc c E0).1 (rc c E0).2)
          by (first [ eapply Res_call; [exact Hrec | exact I | exact HR | nf_tac | mild_solve]
                    | eapply Res_call_collect;
                      [exact Hrec | exact HR | nf_tac | mild_solve | assumption] ]);
        clear HR; destruct (rc c E0) as [? ?]; cbn [fst snd] in *
      end
    | lazymatch X with
      | weak_clone ?w ?E0 =>
        let E := fresh "Ewc" in
        destruct (weak_clone w E0) as [?|] eqn:E;
        [ apply (mild_weak_clone K) in E;
          let H := fresh "HR" in
          match type of E with
          | BufBase.mild _ _ ?m1 =>
            assert (H : Res K A m m1 r0) by (eapply Res_mild; [exact HR | mild_solve])
          end; clear HR
        | ]
      end
    | let H := fresh "HR" in
      assert (H : Res K A m (X).1 r0) by (eapply Res_mild; [exact HR | mild_solve]);
      clear HR; destruct X as [? ?] eqn:?; cbn [fst snd] in H
    | destruct X eqn:? ]
  end.

Ltac leaf Hrec :=
  try match goal with
  | HR : Res ?K ?A ?m ?mi ?r0 |- Res _ ?A ?m ?E _ =>
    lazymatch E with context [box_alloc K ?o ?Y] =>
      lazymatch mi with context [box_alloc K o Y] => fail | _ => idtac end;
      adv_box HR K A m mi r0 o Y end
  end;
  match goal with
  | HR : Res ?K ?A ?m ?mi ?r0 |- Res _ ?A ?m _ _ =>
    cbn [fst snd];
    first
    [ eapply Res_call; [exact Hrec | exact I | exact HR | nf_tac | mild_solve]
    | eapply Res_unwind; [exact Hrec | exact I | exact HR | nf_tac | mild_solve]
    | eapply Res_relabel; [eapply Res_mild; [exact HR | mild_solve] | relabel_tac] ]
  end.

Ltac run Hrec := repeat (step1 Hrec); try (leaf Hrec).

Section Steps.
  Context (K : conf) (P : prog).
  Context (rec : call -> machine -> machine * outcome).
  Hypothesis Hrec : rok K rec.
  Notation PostA := (PostA K).
  Notation PreA := (PreA K).
  Notation Res := (Res K).

  Lemma start A c m (X : machine * outcome) :
    script_level c -> PreA A c m -> (Res A m m ONormal -> Res A m X.1 X.2) -> PostA A c m X.1 X.2.
  Proof.
    intros Hc HP H. apply Post_of_Res; [exact Hc|]. apply H, Res_start.
    destruct c; try contradiction; exact HP.
  Qed.

  Lemma ok_step_script A self cs m :
    PreA A (KScript self cs) m ->
    PostA A (KScript self cs) m (step_script rec self cs m).1 (step_script rec self cs m).2.
  Proof.
    intros HP. apply start; [exact I|exact HP|]. intros HR. unfold step_script.
    run Hrec.
  Qed.

  Lemma ok_step_store A r v m :
    PreA A (KStore r v) m ->
    PostA A (KStore r v) m (step_store rec r v m).1 (step_store rec r v m).2.
  Proof.
    intros HP. apply start; [exact I|exact HP|]. intros HR. unfold step_store.
    run Hrec.
  Qed.

  Lemma ok_step_drop_value A o m :
    PreA A (KDropValue o) m ->
    PostA A (KDropValue o) m (step_drop_value K P rec o m).1 (step_drop_value K P rec o m).2.
  Proof.
    intros HP. apply start; [exact I|exact HP|]. intros HR. unfold step_drop_value.
    run Hrec.
  Qed.

  Lemma ok_step_drop_fields A o j m :
    PreA A (KDropFields o j) m ->
    PostA A (KDropFields o j) m (step_drop_fields rec o j m).1 (step_drop_fields rec o j m).2.
  Proof.
    intros HP. apply start; [exact I|exact HP|]. intros HR. unfold step_drop_fields.
    run Hrec.
  Qed.

  Lemma ok_step_drop_map_slots A o j m :
    PreA A (KDropMapSlots o j) m ->
    PostA A (KDropMapSlots o j) m (step_drop_map_slots rec o j m).1 (step_drop_map_slots rec o j m).2.
  Proof.
    intros HP. apply start; [exact I|exact HP|]. intros HR. unfold step_drop_map_slots.
    run Hrec.
  Qed.

  Lemma ok_step_clean_run A mo aid sc m :
    PreA A (KCleanRun mo aid sc) m ->
    PostA A (KCleanRun mo aid sc) m (step_clean_run K P rec mo aid sc m).1 (step_clean_run K P rec mo aid sc m).2.
  Proof.
    intros HP. apply start; [exact I|exact HP|]. intros HR. unfold step_clean_run.
    run Hrec.
  Qed.

  Lemma ok_step_unbag A k m :
    PreA A (KUnbag k) m ->
    PostA A (KUnbag k) m (step_unbag rec k m).1 (step_unbag rec k m).2.
  Proof.
    intros HP. apply start; [exact I|exact HP|]. intros HR. unfold step_unbag.
    run Hrec.
  Qed.

  Lemma ok_cmd_drop A self l m :
    PreA A (KCmd self (CDrop l)) m ->
    PostA A (KCmd self (CDrop l)) m (cmd_drop rec self l m).1 (cmd_drop rec self l m).2.
  Proof.
    intros HP. apply start; [exact I|exact HP|]. intros HR. unfold cmd_drop.
    run Hrec.
  Qed.

  Lemma ok_cmd_move A self src dst m :
    PreA A (KCmd self (CMove src dst)) m ->
    PostA A (KCmd self (CMove src dst)) m (cmd_move rec self src dst m).1 (cmd_move rec self src dst m).2.
  Proof.
    intros HP. apply start; [exact I|exact HP|]. intros HR. unfold cmd_move.
    run Hrec.
  Qed.

  Lemma ok_cmd_mark_alive A self l m :
    PreA A (KCmd self (CMarkAlive l)) m ->
    PostA A (KCmd self (CMarkAlive l)) m (cmd_mark_alive self l m).1 (cmd_mark_alive self l m).2.
  Proof.
    intros HP. apply start; [exact I|exact HP|]. intros HR. unfold cmd_mark_alive.
    run Hrec.
  Qed.

  Lemma ok_cmd_downgrade A self l w m :
    PreA A (KCmd self (CDowngrade l w)) m ->
    PostA A (KCmd self (CDowngrade l w)) m (cmd_downgrade K self l w m).1 (cmd_downgrade K self l w m).2.
  Proof.
    intros HP. apply start; [exact I|exact HP|]. intros HR. unfold cmd_downgrade.
    run Hrec.
  Qed.

  Lemma ok_cmd_w_new A self w m :
    PreA A (KCmd self (CWNew w)) m ->
    PostA A (KCmd self (CWNew w)) m (cmd_w_new K self w m).1 (cmd_w_new K self w m).2.
  Proof.
    intros HP. apply start; [exact I|exact HP|]. intros HR. unfold cmd_w_new.
    run Hrec.
  Qed.

  Lemma ok_cmd_w_clone A self src dst m :
    PreA A (KCmd self (CWClone src dst)) m ->
    PostA A (KCmd self (CWClone src dst)) m (cmd_w_clone K self src dst m).1 (cmd_w_clone K self src dst m).2.
  Proof.
    intros HP. apply start; [exact I|exact HP|]. intros HR. unfold cmd_w_clone.
    run Hrec.
  Qed.

  Lemma ok_cmd_w_drop A self w m :
    PreA A (KCmd self (CWDrop w)) m ->
    PostA A (KCmd self (CWDrop w)) m (cmd_w_drop K self w m).1 (cmd_w_drop K self w m).2.
  Proof.
    intros HP. apply start; [exact I|exact HP|]. intros HR. unfold cmd_w_drop.
    run Hrec.
  Qed.

  Lemma ok_cmd_drop_value A self v m :
    PreA A (KCmd self (CDropValue v)) m ->
    PostA A (KCmd self (CDropValue v)) m (cmd_drop_value rec self v m).1 (cmd_drop_value rec self v m).2.
  Proof.
    intros HP. apply start; [exact I|exact HP|]. intros HR. unfold cmd_drop_value.
    run Hrec.
  Qed.

  Lemma ok_cmd_fin_again A self l m :
    PreA A (KCmd self (CFinAgain l)) m ->
    PostA A (KCmd self (CFinAgain l)) m (cmd_fin_again K self l m).1 (cmd_fin_again K self l m).2.
  Proof.
    intros HP. apply start; [exact I|exact HP|]. intros HR. unfold cmd_fin_again.
    run Hrec.
  Qed.

  Lemma ok_cmd_c_drop A self c m :
    PreA A (KCmd self (CCDrop c)) m ->
    PostA A (KCmd self (CCDrop c)) m (cmd_c_drop K self c m).1 (cmd_c_drop K self c m).2.
  Proof.
    intros HP. apply start; [exact I|exact HP|]. intros HR. unfold cmd_c_drop.
    run Hrec.
  Qed.

  Lemma ok_cmd_unbag A self k m :
    PreA A (KCmd self (CUnbag k)) m ->
    PostA A (KCmd self (CUnbag k)) m (cmd_unbag rec self k m).1 (cmd_unbag rec self k m).2.
  Proof.
    intros HP. apply start; [exact I|exact HP|]. intros HR. unfold cmd_unbag.
    run Hrec.
  Qed.

  Lemma ok_cmd_borrow A self nd m :
    PreA A (KCmd self (CBorrow nd)) m ->
    PostA A (KCmd self (CBorrow nd)) m (cmd_borrow self nd m).1 (cmd_borrow self nd m).2.
  Proof.
    intros HP. apply start; [exact I|exact HP|]. intros HR. unfold cmd_borrow.
    run Hrec.
  Qed.

  Lemma ok_cmd_unborrow A self nd m :
    PreA A (KCmd self (CUnborrow nd)) m ->
    PostA A (KCmd self (CUnborrow nd)) m (cmd_unborrow self nd m).1 (cmd_unborrow self nd m).2.
  Proof.
    intros HP. apply start; [exact I|exact HP|]. intros HR. unfold cmd_unborrow.
    run Hrec.
  Qed.

  Lemma ok_cmd_cfg_auto A self b m :
    PreA A (KCmd self (CCfgAuto b)) m ->
    PostA A (KCmd self (CCfgAuto b)) m (cmd_cfg_auto K self b m).1 (cmd_cfg_auto K self b m).2.
  Proof.
    intros HP. apply start; [exact I|exact HP|]. intros HR. unfold cmd_cfg_auto.
    run Hrec.
  Qed.

  Lemma ok_cmd_cfg_percent A self num e m :
    PreA A (KCmd self (CCfgPercent num e)) m ->
    PostA A (KCmd self (CCfgPercent num e)) m (cmd_cfg_percent K self num e m).1 (cmd_cfg_percent K self num e m).2.
  Proof.
    intros HP. apply start; [exact I|exact HP|]. intros HR. unfold cmd_cfg_percent.
    run Hrec.
  Qed.

  Lemma ok_cmd_cfg_buffered A self b m :
    PreA A (KCmd self (CCfgBuffered b)) m ->
    PostA A (KCmd self (CCfgBuffered b)) m (cmd_cfg_buffered K self b m).1 (cmd_cfg_buffered K self b m).2.
  Proof.
    intros HP. apply start; [exact I|exact HP|]. intros HR. unfold cmd_cfg_buffered.
    run Hrec.
  Qed.

  Lemma ok_cmd_arm A self k v m :
    PreA A (KCmd self (CArm k v)) m ->
    PostA A (KCmd self (CArm k v)) m (cmd_arm self k v m).1 (cmd_arm self k v m).2.
  Proof.
    intros HP. apply start; [exact I|exact HP|]. intros HR. unfold cmd_arm.
    run Hrec.
  Qed.

  Lemma ok_cmd_panic A self  m :
    PreA A (KCmd self (CPanic)) m ->
    PostA A (KCmd self (CPanic)) m (cmd_panic self m).1 (cmd_panic self m).2.
  Proof.
    intros HP. apply start; [exact I|exact HP|]. intros HR. unfold cmd_panic.
    run Hrec.
  Qed.

  Lemma ok_cmd_obs A self l m :
    PreA A (KCmd self (CObs l)) m ->
    PostA A (KCmd self (CObs l)) m (cmd_obs self l m).1 (cmd_obs self l m).2.
  Proof.
    intros HP. apply start; [exact I|exact HP|]. intros HR. unfold cmd_obs.
    run Hrec.
  Qed.

  Lemma ok_cmd_w_obs A self w m :
    PreA A (KCmd self (CWObs w)) m ->
    PostA A (KCmd self (CWObs w)) m (cmd_w_obs K self w m).1 (cmd_w_obs K self w m).2.
  Proof.
    intros HP. apply start; [exact I|exact HP|]. intros HR. unfold cmd_w_obs.
    run Hrec.
  Qed.

  Lemma ok_cmd_s_obs A self  m :
    PreA A (KCmd self (CSObs)) m ->
    PostA A (KCmd self (CSObs)) m (cmd_s_obs K self m).1 (cmd_s_obs K self m).2.
  Proof.
    intros HP. apply start; [exact I|exact HP|]. intros HR. unfold cmd_s_obs.
    run Hrec.
  Qed.

  Lemma ok_cmd_clone A self src dst m :
    PreA A (KCmd self (CClone src dst)) m ->
    PostA A (KCmd self (CClone src dst)) m (cmd_clone rec self src dst m).1 (cmd_clone rec self src dst m).2.
  Proof.
    intros HP. apply start; [exact I|exact HP|]. intros HR. unfold cmd_clone.
    run Hrec.
  Qed.

  Lemma ok_cmd_collect A self  m :
    PreA A (KCmd self (CCollect)) m ->
    PostA A (KCmd self (CCollect)) m (cmd_collect rec self m).1 (cmd_collect rec self m).2.
  Proof.
    intros HP. apply start; [exact I|exact HP|]. intros HR. unfold cmd_collect.
    run Hrec.
  Qed.

  Lemma ok_cmd_upgrade A self w dst m :
    PreA A (KCmd self (CUpgrade w dst)) m ->
    PostA A (KCmd self (CUpgrade w dst)) m (cmd_upgrade K rec self w dst m).1 (cmd_upgrade K rec self w dst m).2.
  Proof.
    intros HP. apply start; [exact I|exact HP|]. intros HR. unfold cmd_upgrade.
    run Hrec.
  Qed.

  Lemma ok_cmd_try_unwrap A self l v m :
    PreA A (KCmd self (CTryUnwrap l v)) m ->
    PostA A (KCmd self (CTryUnwrap l v)) m (cmd_try_unwrap K self l v m).1 (cmd_try_unwrap K self l v m).2.
  Proof.
    intros HP. apply start; [exact I|exact HP|]. intros HR. unfold cmd_try_unwrap.
    run Hrec.
  Qed.

  Lemma ok_cmd_clean A self c m :
    PreA A (KCmd self (CClean c)) m ->
    PostA A (KCmd self (CClean c)) m (cmd_clean K rec self c m).1 (cmd_clean K rec self c m).2.
  Proof.
    intros HP. apply start; [exact I|exact HP|]. intros HR. unfold cmd_clean.
    run Hrec.
  Qed.

  Lemma ok_step_trigger A m :
    PreA A KTrigger m -> PostA A KTrigger m (step_trigger K rec m).1 (step_trigger K rec m).2.
  Proof.
    intros HP. apply start; [exact I|exact HP|]. intros HR. unfold step_trigger.
    run Hrec.
  Qed.

  Lemma ok_step_collect_cycles A m :
    PreA A KCollectCycles m ->
    PostA A KCollectCycles m (step_collect_cycles K rec m).1 (step_collect_cycles K rec m).2.
  Proof.
    intros HP. apply start; [exact I|exact HP|]. intros HR. unfold step_collect_cycles.
    run Hrec.
  Qed.

  Lemma ok_step_collect A m :
    PreA A KCollect m -> PostA A KCollect m (step_collect K rec m).1 (step_collect K rec m).2.
  Proof.
    intros [HG Hc]. unfold step_collect.
    set (m1 := m <| st_collecting := true |> <| st_exec ::= N.succ |>).
    set (n := if k_fin K then 10%nat else 1%nat).
    assert (HP1 : PreA A (KCollectLoop n) m1).
    { split; [|reflexivity]. destruct (G_idle _ _ _ HG Hc) as [D|(I & _ & Hz)]; [left; exact D|right].
      apply Ibuf_nil; [eapply Imk_same; [..|exact I]; reflexivity|].
      eapply tcz_heap; [|exact Hz]. reflexivity. }
    destruct (Hrec A _ _ HP1) as (F1 & G1 & _).
    destruct (rec (KCollectLoop n) m1) as [m2 r]. cbn [fst snd] in *.
    destruct F1 as [F1 F2 F3 F4 F5].
    assert (He : st_exec m2 = N.succ (st_exec m)) by (rewrite F4; reflexivity).
    split; [|split].
    - split.
      + destruct F1 as [l El]. exists l. exact El.
      + cbn. symmetry. exact Hc.
      + cbn. rewrite He. lia.
      + rewrite Hc. discriminate.
      + intros o x Ex. destruct (F5 o x Ex) as (x' & Ex' & N1 & N2). exists x'.
        split; [exact Ex'|]. split; [exact N1|]. exact N2.
    - intros Hr. cbn [goalA]. apply G_nil_any.
      + destruct (G1 Hr) as [D|(I & _ & Hz)]; [left; exact D|right].
        apply Ibuf_nil; [eapply Imk_same; [..|exact I]; reflexivity|].
        eapply tcz_heap; [|exact Hz]. reflexivity.
      + destruct (G_idle_cases _ _ _ HG Hc) as [->|D]; [left; reflexivity|right].
        eapply dirty_ext; [|exact D]. destruct F1 as [l El]. exists l. exact El.
    - intros _ _. exact He.
  Qed.

  Lemma ok_step_collect_loop A k m :
    PreA A (KCollectLoop k) m ->
    PostA A (KCollectLoop k) m (step_collect_loop rec k m).1 (step_collect_loop rec k m).2.
  Proof.
    intros [HG Hc]. unfold step_collect_loop.
    assert (Hret : PostA A (KCollectLoop k) m m ONormal).
    { split; [apply frame_refl|]. split; [intros _; exact HG|discriminate]. }
    destruct k as [|k']; [exact Hret|]. destruct (pc m) as [|p0 rest]; [exact Hret|].
    assert (HP1 : PreA A KCollectOnce m) by (split; assumption).
    destruct (Hrec A _ _ HP1) as (F1 & G1 & _).
    destruct (rec KCollectOnce m) as [m1 r1]. cbn [fst snd] in *.
    destruct r1; cbn [fst snd];
      try (split; [exact F1|split; [intros Hr; apply G1; exact Hr|discriminate]]).
    assert (HP2 : PreA A (KCollectLoop k') m1).
    { split; [apply G1; discriminate|]. rewrite (fr_coll _ _ F1). exact Hc. }
    destruct (Hrec A _ _ HP2) as (F2 & G2 & _).
    split; [eapply frame_trans; eassumption|]. split; [exact G2|discriminate].
  Qed.

  Lemma ok_step_collect_once A m :
    PreA A KCollectOnce m ->
    PostA A KCollectOnce m (step_collect_once K P rec m).1 (step_collect_once K P rec m).2.
  Proof.
    intros [HG Hc]. unfold step_collect_once.
    set (m0 := m <| st_finalizing := false |> <| st_dropping := false |>).
    assert (M0 : mild K m m0) by (subst m0; mild_solve).
    pose proof (mild_G K _ _ _ M0 HG) as HG0.
    pose proof (trace_pass_buf K P m0 (GI_of_G _ _ _ HG0)) as HT.
    pose proof (frame_trace_pass K P m0) as FT.
    pose proof (trace_pass_pcz K P m0) as HZ.
    destruct (trace_pass K P m0) as [m1 pr]. cbn [fst snd] in *.
    assert (F1 : frame m m1) by (eapply frame_trans; [apply M0|exact FT]).
    assert (Hc1 : st_collecting m1 = true) by (rewrite (fr_coll _ _ F1); exact Hc).
    set (m2 := m1 <| st_finalizing := st_finalizing m |> <| st_dropping := st_dropping m |>).
    assert (M2 : mild K m1 m2) by (subst m2; mild_solve).
    assert (F2 : frame m m2) by (eapply frame_trans; [exact F1|apply M2]).
    destruct pr as [L| |].
    - assert (HGL : G K L m2).
      { eapply mild_G; [exact M2|]. apply G_of_GI; [exact HT|intros _; exact Hc1|].
        eapply tcz_of_pcz; [exact HT|]. apply HZ. discriminate. }
      destruct L as [|g L'].
      + split; [exact F2|]. split; [intros _; exact HGL|discriminate].
      + destruct (k_fin K).
        * match goal with |- context [rec ?c ?E0] =>
            assert (HP1 : PreA A c E0) end.
          { split; [|exact Hc1]. eapply mild_G; [|exact HGL]. mild_solve. }
          destruct (Hrec A _ _ HP1) as (F3 & G3 & _).
          split; [eapply frame_trans; [exact F2|]; eapply frame_trans; [|exact F3]|].
          { apply (mild_frame K). mild_solve. }
          split; [exact G3|discriminate].
        * match goal with |- context [rec ?c ?E0] =>
            assert (HP1 : PreA A c E0) end.
          { split; [|exact Hc1]. eapply mild_G; [|exact HGL]. mild_solve. }
          destruct (Hrec A _ _ HP1) as (F3 & G3 & _).
          split; [eapply frame_trans; [exact F2|]; eapply frame_trans; [|exact F3]|].
          { apply (mild_frame K). mild_solve. }
          split; [exact G3|discriminate].
    - split; [exact F2|]. split; [|discriminate]. intros _.
      eapply mild_G; [exact M2|]. apply G_of_GI; [exact HT|intros H; contradiction|].
      eapply tcz_of_pcz; [exact HT|]. apply HZ. discriminate.
    - cbn [fst snd]. split; [|split; [intros H; contradiction|discriminate]].
      eapply frame_trans; [exact F2|apply frame_emit].
  Qed.

  (** *** the finalization and drop passes: the active list is [L] *)
  Definition pass_call (c : call) : Prop :=
    match c with KFinalizeList _ _ _ _ | KDropList _ _ _ => True | _ => False end.

  Lemma Post_nil A c m E r :
    pass_call c -> frame m E -> (r <> OFuel -> G K [] E) -> PostA A c m E r.
  Proof.
    intros Hc F H. split; [exact F|]. split; [|intros ->; contradiction].
    destruct c; try contradiction; exact H.
  Qed.

  Lemma G_unlink L m f :
    (forall h, f (f h) = f h) -> (forall h, h_mark (f h) = NM) ->
    G K L m -> G K [] (fold_left (fun m g => uhdr g f m) L m).
  Proof.
    intros Hf Hnm [D|(I & _ & Hz)]; [left; eapply frame_dirty; [apply frame_fold_uhdr|exact D]|right].
    apply Ibuf_nil.
    - eapply Imk_unlink_all; [exact I|exact Hf|exact Hnm|].
      intros o. rewrite app_nil_r. reflexivity.
    - apply tcz_fold_uhdr; [|exact Hz]. intros h Hm. rewrite Hnm in Hm. discriminate.
  Qed.

  Lemma pass_tail A L c0 c m mi r0 E0 :
    pass_call c0 ->
    match c with KFinalizeList L' _ _ _ | KDropList L' _ _ => L' = L | _ => False end ->
    Res L m mi r0 -> r0 <> OFuel -> st_collecting m = true -> mild K mi E0 ->
    PostA A c0 m (rec c E0).1 (rec c E0).2.
  Proof.
    intros Hc0 Hc HR Hr0 Hcoll M. destruct (Res_mild _ _ _ _ _ _ HR M) as [F H].
    assert (HP : PreA A c E0).
    { destruct c; try contradiction; subst; (split; [exact (H Hr0)|rewrite (fr_coll _ _ F); exact Hcoll]). }
    destruct (Hrec A c E0 HP) as (F1 & G1 & _).
    apply Post_nil; [exact Hc0|eapply frame_trans; eassumption|].
    intros Hr. specialize (G1 Hr). destruct c; try contradiction; exact G1.
  Qed.

  Lemma ok_step_finalize_list A L rest any old_f m :
    PreA A (KFinalizeList L rest any old_f) m ->
    PostA A (KFinalizeList L rest any old_f) m
          (step_finalize_list K P rec L rest any old_f m).1
          (step_finalize_list K P rec L rest any old_f m).2.
  Proof.
    intros [HG Hc]. assert (HR : Res L m m ONormal) by (apply Res_start, HG).
    assert (Hun : forall mi r E, Res L m mi r -> mild K mi E ->
              PostA A (KFinalizeList L rest any old_f) m (unmark_all L E) r).
    { intros mi r E HR' M. destruct (Res_mild _ _ _ _ _ _ HR' M) as [F H].
      apply Post_nil; [exact I|eapply frame_trans; [exact F|apply frame_unmark_all]|].
      intros Hr. apply G_unlink; auto. }
    unfold step_finalize_list. destruct rest as [|g rest'].
    - destruct (negb any).
      + eapply pass_tail; [exact I|reflexivity|exact HR|discriminate|exact Hc|mild_solve].
      + cbn [fst snd]. apply Post_nil; [exact I| |].
        * frame_peel. eapply frame_trans; [|apply frame_fold_uhdr]. frame_peel.
        * intros _.
          assert (HG' : G K L (m <| st_finalizing := old_f |>)) by (eapply mild_G; [|exact HG]; mild_solve).
          destruct HG' as [D|(I' & _ & Hz')].
          -- left. eapply dirty_same; [|eapply frame_dirty; [apply frame_fold_uhdr|exact D]]. reflexivity.
          -- right. apply Ibuf_nil; [apply Imk_rebuffer, I'|].
             eapply tcz_heap; [|apply tcz_fold_uhdr; [|exact Hz']]; [reflexivity|].
             intros h _. reflexivity.
    - repeat (step1 Hrec);
        try (exfalso; eapply raise_nf; eassumption);
        try (cbn [fst snd]; eapply Hun;
             [eapply Res_relabel; [eassumption|relabel_tac]|mild_solve]);
        try (eapply pass_tail; [exact I|reflexivity|eassumption|nf_tac|exact Hc|mild_solve]).
  Qed.

  (** the drop pass ends by freeing every member of its list *)
  Definition box_of (m : machine) (o : id) : option bstate := o_box <$> get m o.

  Lemma box_of_upd g f m o : (forall x, o_box (f x) = o_box x) -> box_of (upd g f m) o = box_of m o.
  Proof.
    intros Hf. unfold box_of. rewrite get_upd. destruct (decide (g = o)); [|reflexivity].
    destruct (get m o) as [x|]; cbn; [rewrite Hf|]; reflexivity.
  Qed.
  Lemma box_of_sfree g m o : box_of (sfree g m) o = box_of m o.
  Proof.
    unfold sfree. brk; try reflexivity.
    - change (box_of (upd g (fun x => x <| o_side := Some (Side (sd_wk s) true) |>) (emit_bad DoubleFree g m)) o = box_of m o).
      rewrite box_of_upd by reflexivity. reflexivity.
    - change (box_of (upd g (fun x => x <| o_side := Some (Side (sd_wk s) true) |>) m) o = box_of m o).
      apply box_of_upd. reflexivity.
  Qed.
  Lemma box_of_drop_metadata g m o : box_of (drop_metadata K g m) o = box_of m o.
  Proof.
    unfold drop_metadata. brk; try reflexivity; rewrite ?box_of_sfree; try reflexivity;
      unfold uside; rewrite box_of_upd by reflexivity; reflexivity.
  Qed.
  Lemma box_of_dealloc g m o :
    box_of (dealloc K g m) o =
    if decide (g = o) then (fun _ => BFreed) <$> box_of m o else box_of m o.
  Proof.
    unfold dealloc. destruct (get m g) as [x|] eqn:Ex.
    - destruct (box_layout K x) as [sz al].
      match goal with |- box_of (emit _ (upd g ?f ?m1)) o = _ =>
        change (box_of (upd g f m1) o = if decide (g = o) then (fun _ => BFreed) <$> box_of m o else box_of m o);
        assert (Hm1 : get m1 o = get m o) by (destruct (o_box x); destruct (_ <? _); reflexivity)
      end.
      unfold box_of. rewrite get_upd, Hm1. destruct (decide (g = o)); [|reflexivity].
      destruct (get m o); reflexivity.
    - change (box_of m o = if decide (g = o) then (fun _ => BFreed) <$> box_of m o else box_of m o).
      destruct (decide (g = o)) as [<-|]; [|reflexivity]. unfold box_of. rewrite Ex. reflexivity.
  Qed.

  Lemma box_of_fold_dealloc L : forall m o,
    box_of (fold_left (fun m g => dealloc K g (drop_metadata K g m)) L m) o =
    if decide (o ∈ L) then (fun _ => BFreed) <$> box_of m o else box_of m o.
  Proof.
    induction L as [|a L IH]; intros m o; cbn.
    - rewrite decide_False by apply not_elem_of_nil. reflexivity.
    - rewrite IH, box_of_dealloc, box_of_drop_metadata.
      destruct (decide (o ∈ L)), (decide (a = o)) as [->|].
      + rewrite decide_True by (apply elem_of_cons; auto). destruct (box_of m o); reflexivity.
      + rewrite decide_True by (apply elem_of_cons; auto). reflexivity.
      + rewrite decide_True by (apply elem_of_cons; auto). reflexivity.
      + rewrite decide_False; [reflexivity|]. rewrite elem_of_cons. intros [?|?]; congruence.
  Qed.

  Lemma Imk_freed L m :
    Imk K L [] m -> (forall o, o ∈ L -> box_of m o = Some BFreed) -> Imk K [] [] m.
  Proof.
    intros [H1 H2 H3 H4 H5 H6 H7 H8 H9 H10 H11] Hfr. split; try assumption.
    - constructor.
    - intros o Ho. apply H4. rewrite !elem_of_app in *. tauto.
    - intros o x Ex. split; [intros Ho; inversion Ho|]. intros Hm.
      destruct (H6 o x Ex) as [_ H]. destruct (H Hm) as [Ho|?]; [|auto]. right.
      specialize (Hfr o Ho). unfold box_of in Hfr. rewrite Ex in Hfr. cbn in Hfr. congruence.
  Qed.

  Lemma ok_step_drop_list A L rest old_d m :
    PreA A (KDropList L rest old_d) m ->
    PostA A (KDropList L rest old_d) m
          (step_drop_list K rec L rest old_d m).1 (step_drop_list K rec L rest old_d m).2.
  Proof.
    intros [HG Hc]. assert (HR : Res L m m ONormal) by (apply Res_start, HG).
    set (f := fun h => let h := set_mark NM h in if k_weak K then set_dropped h else h).
    assert (Hun : forall mi r E, Res L m mi r -> mild K mi E ->
              PostA A (KDropList L rest old_d) m
                    (fold_left (fun m g => uhdr g f m) L E <| st_dropping := old_d |>) r).
    { intros mi r E HR' M. destruct (Res_mild _ _ _ _ _ _ HR' M) as [F H].
      apply Post_nil; [exact I| |].
      - frame_peel. eapply frame_trans; [exact F|apply frame_fold_uhdr].
      - intros Hr. eapply mild_G; [|apply G_unlink; [| |exact (H Hr)]].
        + mild_solve.
        + intros h. subst f. cbn. destruct (k_weak K); reflexivity.
        + intros h. subst f. cbn. destruct (k_weak K); reflexivity. }
    unfold step_drop_list. destruct rest as [|g rest'].
    - cbn [fst snd].
      set (m' := fold_left (fun m g => dealloc K g (drop_metadata K g m)) L m).
      assert (M : mild K m m').
      { subst m'. apply mild_fold. intros m0 a. mild_solve. }
      apply Post_nil; [exact I| |].
      + frame_peel. apply M.
      + intros _. eapply mild_G; [|instantiate (1 := m')]; [mild_solve|].
        destruct (mild_G K _ _ _ M HG) as [D|(I' & _ & Hz')]; [left; exact D|right].
        apply Ibuf_nil; [|exact Hz']. eapply Imk_freed; [exact I'|].
        intros o Ho. subst m'. rewrite box_of_fold_dealloc, decide_True by exact Ho.
        destruct (ik_valid _ _ _ _ I' o) as [x Ex]; [rewrite !elem_of_app; auto|].
        assert (Hb : box_of (fold_left (fun m g => dealloc K g (drop_metadata K g m)) L m) o = Some (o_box x)).
        { unfold box_of. rewrite Ex. reflexivity. }
        rewrite box_of_fold_dealloc, decide_True in Hb by exact Ho.
        destruct (box_of m o); [reflexivity|discriminate].
    - repeat (step1 Hrec);
        try (exfalso; eapply raise_nf; eassumption);
        try (cbn [fst snd]; eapply Hun;
             [eapply Res_relabel; [eassumption|relabel_tac]|mild_solve]);
        try (eapply pass_tail; [exact I|reflexivity|eassumption|nf_tac|exact Hc|mild_solve]).
  Qed.

  Lemma ok_step_drop_cc A o m :
    PreA A (KDropCc o) m ->
    PostA A (KDropCc o) m (step_drop_cc K P rec o m).1 (step_drop_cc K P rec o m).2.
  Proof.
    intros HP. apply start; [exact I|exact HP|]. intros HR0. unfold step_drop_cc.
    destruct (get m o) as [x|] eqn:Ex; [|run Hrec].
    set (m1 := match o_box x with BAlloc => m | _ => emit_bad UseAfterFree o m end).
    assert (M1 : mild K m m1) by (subst m1; destruct (o_box x); mild_solve).
    assert (HL : live_at o m1).
    { subst m1. destruct (o_box x) eqn:Eb.
      - left. apply dirty_emit_bad. reflexivity.
      - right. exists x. split; [exact Ex|congruence].
      - left. apply dirty_emit_bad. reflexivity. }
    pose proof (Res_mild _ _ _ _ _ _ HR0 M1) as HR1.
    apply (Res_shift _ _ m m1); [apply M1|].
    assert (HR : Res A m1 m1 ONormal) by (apply Res_start; apply HR1; discriminate).
    clear HR0 HR1. clearbody m1.
    repeat (progress (cbv beta iota) || step1 Hrec); try (leaf Hrec).
  Qed.

  Lemma ok_cmd_new A self dst cls m :
    PreA A (KCmd self (CNew dst cls)) m ->
    PostA A (KCmd self (CNew dst cls)) m (cmd_new K P rec self dst cls m).1 (cmd_new K P rec self dst cls m).2.
  Proof.
    intros HP. apply start; [exact I|exact HP|]. intros HR. unfold cmd_new.
    run Hrec.
  Qed.
End Steps.
