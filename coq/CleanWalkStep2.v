(** * CleanWalkStep2: the activations that need an argument of their own. *)
From Coq Require Import NArith Bool List Lia.
From stdpp Require Import base list option.
From RecordUpdate Require Import RecordSet.
From RC Require Import Hdr Machine RunInd Inv.
From RC Require Import Clean CleanFrame CleanStep CleanUFrame CleanU CleanUStep.
From RC Require Import CleanWalk CleanWalkRel CleanWalkChk CleanWalkStep.
Import ListNotations RecordSetNotations.

Definition notclass (s : st) (o : nat) : Prop :=
  match s with
  | Some (e, n, h0) => e = Some o \/ n <= o \/
                       forall w, h0 !! o = Some w -> z_box w <> BNotYet \/ zdeadb w = true
  | None => True
  end.

Section S2.
  Context (mu : id) (K : conf) (P : prog).
  Context (rec : call -> machine -> machine * outcome).
  Context (Hrec : rec_ok (Pre3 mu) (Post3 mu) rec).
  Implicit Types (m : machine).

  Notation tn m := (mem_id mu (dead m) = true).
  Notation gd m := (mem_id mu (dead m) = false).

  Definition tok (X : machine -> machine * outcome) : Prop := forall m, TX mu None m -> xres mu None (X m).

  Lemma xres_None x : xres mu None x -> okr x.2 = true -> tn x.1.
  Proof. unfold xres. destruct x.2; intros H Hr; try discriminate; destruct H as [H|[]]; exact H. Qed.
  Lemma xres_None_sub s x : xres mu None x -> xres mu s x.
  Proof. unfold xres. destruct x.2; auto; intros [H|[]]; left; exact H. Qed.

  Lemma taint_post X c m : tok X -> tn m -> Post3 mu c m (X m).1 (X m).2.
  Proof. intros HX Ht Hr. left. apply xres_None; [apply HX; left; exact Ht|exact Hr]. Qed.

  Lemma TX_self m e n : gd m -> J (zv m) -> n <= length (zv m) -> TX mu (Some (e, n, zv m)) m.
  Proof. intros _ HJ Hn. right. split; [apply R_refl|]. split; [exact HJ|exact Hn]. Qed.

  Lemma post_of_xres c m x :
    gd m -> xres mu (Some (ex3 c, length (zv m), zv m)) x ->
    (okr x.2 = true -> gd x.1 -> J (zv x.1) -> xPost c m x.1) -> Post3 mu c m x.1 x.2.
  Proof.
    intros Hg Ht Hx Hr. destruct (mem_id mu (dead x.1)) eqn:Hg'; [left; reflexivity|]. right.
    unfold xres in Ht. destruct x.2; try discriminate; (destruct Ht as [Ht|(HR & HJ & _)]; [congruence|]);
      (split; [exact Hg|]; split; [exact HR|]; split; [exact HJ|]; apply Hx; auto).
  Qed.

  Lemma gen_post3 X c m :
    gen_okW mu X -> ex3 c = None -> (forall m', xPost c m m') -> Pre3 mu c m -> Post3 mu c m (X m).1 (X m).2.
  Proof.
    intros HX He Hxp HP. destruct (mem_id mu (dead m)) eqn:Hg.
    - apply taint_post; [intros m0; apply HX|exact Hg].
    - destruct HP as [HP|[HJ _]]; [congruence|].
      apply post_of_xres; [exact Hg| |intros; apply Hxp].
      apply HX. rewrite He. apply TX_self; auto.
  Qed.

  Lemma rec_call_dv o s m :
    TX mu s m -> (gd m -> RJv s (zv m) -> xPre (KDropValue o) m /\ notclass s o) ->
    xres mu s (rec (KDropValue o) m).
  Proof.
    intros H Hx. destruct (mem_id mu (dead m)) eqn:Hg.
    - pose proof (rec_taint mu rec Hrec (KDropValue o) m Hg) as HP.
      destruct (rec (KDropValue o) m) as [m' r]. cbn [fst snd] in HP.
      unfold xres. cbn [fst snd]. destruct r; try exact I; left; apply HP; reflexivity.
    - destruct H as [H|H]; [discriminate|]. destruct s as [[[e n] h0]|]; [|destruct H].
      destruct (Hx eq_refl H) as [Hxp Hnc]. destruct H as (HR & HJ & Hle).
      pose proof (rec_good mu rec Hrec (KDropValue o) m Hg HJ Hxp) as HP.
      assert (Hn : n <= length (zv m)) by (pose proof (r_len _ _ _ _ HR); lia).
      destruct (rec (KDropValue o) m) as [m' r]. cbn [fst snd] in HP. unfold xres. cbn [fst snd].
      destruct r; try exact I;
        (destruct (HP eq_refl) as [HT|(HR' & HJ' & _)]; [left; exact HT|right];
         split; [exact (R_trans_ex _ _ _ _ _ _ _ HR HR' Hn Hnc)|split; [exact HJ'|exact Hle]]).
  Qed.

  Lemma rec_both c s m :
    TX mu s m -> ex3 c = None -> (gd m -> RJv s (zv m) -> xPre c m) ->
    xres mu s (rec c m) /\
    (okr (rec c m).2 = true -> tn (rec c m).1 \/ (gd m /\ R None (length (zv m)) (zv m) (zv (rec c m).1))).
  Proof.
    intros H He Hx. split; [apply (rec_call mu rec Hrec); assumption|]. intros Hr.
    destruct (mem_id mu (dead m)) eqn:Hg; [left; apply (rec_taint mu rec Hrec); assumption|].
    destruct H as [H|H]; [discriminate|]. destruct s as [[[e n] h0]|]; [|destruct H].
    destruct (rec_good mu rec Hrec c m Hg (proj1 (proj2 H)) (Hx eq_refl H) Hr) as [HT|(HR & _)]; [left; exact HT|].
    right. split; [reflexivity|]. rewrite He in HR. exact HR.
  Qed.

  (** ** tactics with a solver [tac] for the extra pre-conditions and [rtac] for the updates of
      the view *)
  Ltac relX rtac :=
    cvs;
    first [ eassumption
          | (eapply TX_new; [eassumption|reflexivity|reflexivity|apply noact_nil])
          | (eapply TX_app; eassumption)
          | (left; assumption)
          | (left; match goal with H : _ \/ RJv None _ |- _ => destruct H as [H|[]]; exact H end)
          | rtac ].
  Ltac finX tac rtac :=
    unfold ok;
    lazymatch goal with
    | |- xres _ _ (unwinding _ _) => apply xres_unwinding'; finX tac rtac
    | |- xres _ _ (_, OAbort) => exact I
    | |- xres _ _ (_, OFuel) => exact I
    | |- xres _ _ (_, raise _) => apply xres_raise; relX rtac
    | |- xres _ _ (_, _) => apply xres_intro; relX rtac
    | |- xres _ _ (_ (KDropValue _) _) => eapply rec_call_dv; [relX rtac | first [(let H := fresh in intros _ H; exact (match H with end)) | tac]]
    | |- xres _ _ (_ _ _) => eapply rec_call; [eassumption | relX rtac | reflexivity | first [xpreW | tac]]
    end.
  Ltac res_pairX tac rtac x :=
    let Hr := fresh "Hr" in let m1 := fresh "m" in let r1 := fresh "r" in
    match goal with |- xres ?mu ?s _ => assert (Hr : xres mu s x) by finX tac rtac end;
    destruct x as [m1 r1]; destruct r1; unfold xres in Hr; cbn [fst snd] in Hr.
  Ltac mach_pairX rtac x :=
    let Hr := fresh "Hr" in let m1 := fresh "m" in let y1 := fresh "y" in
    match goal with |- xres ?mu ?s _ => assert (Hr : TX mu s x.1) by relX rtac end;
    destruct x as [m1 y1]; cbn [fst snd] in Hr.
  Ltac adv1X tac rtac :=
    inner_scrut ltac:(fun x =>
      lazymatch type of x with
      | (machine * outcome)%type => res_pairX tac rtac x
      | option machine =>
        lazymatch x with
        | weak_clone ?w ?m0 =>
          let E := fresh "E" in let m' := fresh "m" in
          destruct x as [m'|] eqn:E;
          [ match goal with |- xres ?mu ?s _ =>
              assert (TX mu s m') by (rewrite (zv_weak_clone _ _ _ E), (dd_weak_clone _ _ _ E); relX rtac) end | ]
        end
      | (machine * _)%type => mach_pairX rtac x
      | _ => destruct x eqn:?
      end); cbv beta iota zeta; cbn [negb andb orb].
  Ltac goX tac rtac := cbv beta iota zeta; cbn [negb andb orb]; repeat adv1X tac rtac; finX tac rtac.
  Ltac goT := goX fail fail.

  (** ** taint persists *)
  Lemma tok_step_drop_map_slots o j : tok (step_drop_map_slots rec o j).
  Proof. intros m H. unfold step_drop_map_slots. goT. Qed.
  Lemma tok_step_drop_value o : tok (step_drop_value K P rec o).
  Proof. intros m H. unfold step_drop_value. goT. Qed.
  Lemma tok_step_drop_cc o : tok (step_drop_cc K P rec o).
  Proof. intros m H. unfold step_drop_cc. destruct (k_fin K) eqn:Ek; goT. Qed.
  Lemma tok_step_drop_fields o j : tok (step_drop_fields rec o j).
  Proof. intros m H. unfold step_drop_fields. goT. Qed.
  Lemma tok_step_drop_list L rest d : tok (step_drop_list K rec L rest d).
  Proof. intros m H. unfold step_drop_list. goT. Qed.
  Lemma tok_step_finalize_list L rest a f : tok (step_finalize_list K P rec L rest a f).
  Proof. intros m H. unfold step_finalize_list. goT. Qed.
  Lemma tok_step_collect_once : tok (step_collect_once K P rec).
  Proof. intros m H. unfold step_collect_once. goT. Qed.
  Lemma tok_cmd_new self dst cls : tok (cmd_new K P rec self dst cls).
  Proof. intros m H. unfold cmd_new. goT. Qed.
  Lemma tok_cmd_new_cyclic self dst cls sc sw : tok (cmd_new_cyclic K P rec self dst cls sc sw).
  Proof. intros m H. unfold cmd_new_cyclic. goT. Qed.
  Lemma tok_cmd_register self nd sc c : tok (cmd_register K P rec self nd sc c).
  Proof. intros m H. unfold cmd_register. goT. Qed.
  Lemma tok_cmd_clean self c : tok (cmd_clean K rec self c).
  Proof. intros m H. unfold cmd_clean. goT. Qed.
  Lemma tok_cmd_try_unwrap self l v : tok (cmd_try_unwrap K self l v).
  Proof. intros m H. unfold cmd_try_unwrap. goT. Qed.
  Lemma tok_cmd_drop_value self v : tok (cmd_drop_value rec self v).
  Proof. intros m H. unfold cmd_drop_value. goT. Qed.

End S2.
