(** * Quiet: property C02 (completeness of collect_cycles).

    - [ProgReach m o], [Covered P m o], [Pinned P m o]: propositional readings (inductive
      reachability, [Reach]) of the three closures computed by [Cover.cover_b]; [Cover P m] is the
      propositional I-cover and [cover_sound : cover_b P m = true -> Cover P m].
      [QuietClosure_iff]: on a graph whose nodes are heap indices the checker's bounded iteration
      (fuel [S (length (heap m))]) computes exactly the reachability closure, hence the relations
      are decidable under [SInv] ([ProgReach_dec], [Pinned_dec], [prog_reach_b_spec], [pinned_b_spec]).
    - [C02_quiet_pass] / [quiet_pass_gen] / [quiet_pass_pos]: from a state with EXACT counts
      ([SInv K true [] [] m]), the buffer invariant and [Cover P m], a completed tracing pass puts
      into its list [L] every allocated live object outside the dying set that is neither
      program-reachable nor pinned.
    - [C02_quiet] / [C02_quiet_pos] / [C02_quiet_cover] / [C02_quiet_prog]: machine level.  A
      [collect_cycles()] ([run K P n KCollectCycles m]) that returns normally and is [quiet]
      (no [ECb KFin/KDrop/KAction] and no [EFree] event logged) leaves the object graph unchanged
      ([gsim]), the buffer empty, [st_alloc = bytes], and every allocated live object is in the
      dying set, program-reachable or pinned.  Hypotheses on the start state: [SInv] exact,
      [Ibuf], [Cover P m] (the history half, NOT proved inductive: see QuietCover.v) and
      [MapsOwned m] (no allocated live CleanerMap has strong count 0; also a history fact,
      not in [SInv]: it excludes a buffered, unowned CleanerMap, whose empty library finalizer
      is run silently by the finalization pass).
    - [C02_bytes]: [st_alloc m = bytes K m] in every program state.

    NOTE on [Pinned].  The roots of [Pinned] ([PinRoot]) are the targets of every stored strong
    handle that [Trace::trace] does not report: a handle is *reported* iff it sits in a field
    whose class marks it traced, of a holder that is allocated, live, not a CleanerMap and not
    mutably borrowed.  This is slightly MORE than [Cover.pin_targets] (which skips freed holders
    and only looks at the untraced fields of live holders whatever their box state): handles
    still stored in a freed or never-allocated box are roots here.  The widening is necessary:
    [SInv] does not exclude a freed (dropped) box whose field still holds a counted handle, and
    in such a state the target is kept alive by that handle (its strong count exceeds what the
    pass can count), although it is neither program-reachable nor in the checker's pinned set.
    [Pinned_strict] shows that the two notions coincide (up to program-reachability) in every
    state in which boxes that are not allocated hold no handle except the values moved out by
    try_unwrap ([NoStale], checkable by [no_stale_b]). *)
From Coq Require Import NArith Bool List Lia.
From stdpp Require Import base list option list_numbers.
From RecordUpdate Require Import RecordSet.
From RC Require Import Hdr Machine RunInd.
From RC Require BufBase Buf.
From RC Require Pass PassCount PassMain.
From RC Require Flags3 Flags4 SafeFinal.
From RC Require Import Inv InvP SafeHelpers SafeMain Cover SafeColl SafeCollPass.
Import ListNotations RecordSetNotations.

(** ** Generic reachability and the soundness of [Cover.closure] *)
Section Reach.
  Context (succ : nat -> list nat) (R : nat -> Prop).
  Inductive Reach : nat -> Prop :=
  | Reach_root o : R o -> Reach o
  | Reach_step p c : Reach p -> c ∈ succ p -> Reach c.
End Reach.

Lemma Reach_mono succ (R R' : nat -> Prop) o :
  (forall r, R r -> R' r) -> Reach succ R o -> Reach succ R' o.
Proof. intros H. induction 1; [apply Reach_root; auto | eapply Reach_step; eauto]. Qed.

Lemma Reach_trans succ (R : nat -> Prop) o :
  Reach succ (Reach succ R) o -> Reach succ R o.
Proof. induction 1; [assumption | eapply Reach_step; eauto]. Qed.

Lemma mem_nat_elem x l : mem_nat x l = true <-> x ∈ l.
Proof. apply mem_id_elem. Qed.

Lemma QuietAddNew_elem l : forall acc x, x ∈ add_new l acc <-> x ∈ l \/ x ∈ acc.
Proof.
  unfold add_new. induction l as [|a l IH]; intros acc x; cbn [fold_left].
  - rewrite elem_of_nil. tauto.
  - rewrite IH, elem_of_cons. destruct (mem_nat a acc) eqn:E.
    + apply mem_nat_elem in E. split; [tauto|]. intros [[->|?]|?]; auto.
    + rewrite elem_of_cons. tauto.
Qed.

Lemma QuietClosure_sound succ (R : nat -> Prop) fuel : forall seen,
  (forall x, x ∈ seen -> Reach succ R x) ->
  forall x, x ∈ closure succ fuel seen -> Reach succ R x.
Proof.
  induction fuel as [|f IH]; intros seen Hs x; cbn [closure]; [apply Hs|].
  destruct (Nat.eqb _ _); [apply Hs|]. apply IH. intros y Hy.
  apply QuietAddNew_elem in Hy as [Hy|Hy]; [|apply Hs, Hy].
  apply elem_of_list_In, in_concat in Hy as (l & Hl & Hy).
  apply in_map_iff in Hl as (p & <- & Hp).
  eapply Reach_step; [apply Hs, elem_of_list_In, Hp | apply elem_of_list_In, Hy].
Qed.

Lemma QuietClosure_seed succ (R : nat -> Prop) fuel roots x :
  (forall r, r ∈ roots -> R r) ->
  mem_nat x (closure succ fuel (add_new roots [])) = true -> Reach succ R x.
Proof.
  intros HR Hx. apply mem_nat_elem in Hx. eapply QuietClosure_sound; [|exact Hx].
  intros y Hy. apply QuietAddNew_elem in Hy as [Hy|Hy]; [|inversion Hy]. apply Reach_root, HR, Hy.
Qed.

(** ** The three relations of I-cover *)
Section Defs.
  Context (P : prog).
  Implicit Types (m : machine) (o p t : id) (x : obj).

  Definition ProgReach m o : Prop := Reach (all_succ m) (fun r => r ∈ prog_roots m) o.
  Definition Covered m o : Prop := Reach (traced_succ P m) (fun r => r ∈ pc m) o.

  (** field [j] of holder [x] is an edge that [Trace::trace] reports *)
  Definition reported x (j : nat) : Prop :=
    o_box x = BAlloc /\ o_ismap x = false /\ o_vst x = VLive /\ o_borrowed x = false /\
    c_traced (class_of P (o_cls x)) !! j = Some true.

  Inductive PinRoot m : id -> Prop :=
  | PR_field p x j t : get m p = Some x -> o_fields x !! j = Some (Some t) -> ~ reported x j -> PinRoot m t
  | PR_cleaner p x t : get m p = Some x -> o_cleaner x = Some t -> PinRoot m t
  | PR_dead t : t ∈ dead m -> PinRoot m t.
  Definition Pinned m o : Prop := Reach (all_succ m) (PinRoot m) o.

  Definition Cover m : Prop :=
    forall o x, get m o = Some x -> o_box x = BAlloc -> o_vst x = VLive ->
      o ∈ dead m \/ ProgReach m o \/ Covered m o \/ Pinned m o.

  (** *** elementary facts *)
  Lemma strong_targets_elem x t :
    t ∈ strong_targets x <-> (exists j, o_fields x !! j = Some (Some t)) \/ o_cleaner x = Some t.
  Proof.
    unfold strong_targets. rewrite elem_of_app, elem_of_list_omap. split.
    - intros [(a & Ha & ->)|Hc].
      + left. apply elem_of_list_lookup in Ha. exact Ha.
      + right. destruct (o_cleaner x) as [c|]; [|inversion Hc].
        apply elem_of_list_singleton in Hc. congruence.
    - intros [[j Hj]|Hc].
      + left. exists (Some t). split; [eapply elem_of_list_lookup_2, Hj | reflexivity].
      + right. rewrite Hc. apply elem_of_list_singleton. reflexivity.
  Qed.

  Lemma all_succ_get m p x : get m p = Some x -> all_succ m p = strong_targets x.
  Proof. unfold all_succ, get. intros ->. reflexivity. Qed.

  Lemma all_succ_field m p x j t :
    get m p = Some x -> o_fields x !! j = Some (Some t) -> t ∈ all_succ m p.
  Proof. intros Hx Hj. rewrite (all_succ_get m p x Hx). apply strong_targets_elem. eauto. Qed.
  Lemma all_succ_cleaner m p x t :
    get m p = Some x -> o_cleaner x = Some t -> t ∈ all_succ m p.
  Proof. intros Hx Hj. rewrite (all_succ_get m p x Hx). apply strong_targets_elem. eauto. Qed.

  Lemma kids_traced_succ m p : Pass.kids P m p = traced_succ P m p.
  Proof.
    unfold Pass.kids, traced_children, traced_succ, get, class_of.
    destruct (heap m !! p) as [x|]; [|reflexivity]. destruct (o_ismap x); [reflexivity|].
    destruct (o_vst x); try reflexivity. destruct (o_borrowed x); reflexivity.
  Qed.

  Lemma traced_succ_all m p c : c ∈ traced_succ P m p -> c ∈ all_succ m p.
  Proof.
    rewrite <- kids_traced_succ. intros Hc.
    destruct (kids_field P m p c Hc) as (x & j & Hx & _ & _ & _ & Hj).
    eapply all_succ_field; eauto.
  Qed.

  Lemma Covered_reach m o : Covered m o <-> Pass.reach P m o.
  Proof.
    split.
    - induction 1 as [o Ho|p c _ IH Hc]; [apply Pass.reach_pc, Ho|].
      eapply Pass.reach_kid; [exact IH|]. rewrite kids_traced_succ. exact Hc.
    - induction 1 as [o Ho|p c _ IH Hc]; [apply Reach_root, Ho|].
      eapply Reach_step; [exact IH|]. rewrite <- kids_traced_succ. exact Hc.
  Qed.

  (** program-reachability and pinnedness propagate along every stored handle, in particular
      along reported edges *)
  Lemma ProgReach_treach m u v : Pass.treach P m u v -> ProgReach m u -> ProgReach m v.
  Proof.
    induction 1 as [|p c _ IH Hc]; [auto|]. intros Hu.
    eapply Reach_step; [apply IH, Hu|]. apply traced_succ_all. rewrite <- kids_traced_succ. exact Hc.
  Qed.
  Lemma Pinned_treach m u v : Pass.treach P m u v -> Pinned m u -> Pinned m v.
  Proof.
    induction 1 as [|p c _ IH Hc]; [auto|]. intros Hu.
    eapply Reach_step; [apply IH, Hu|]. apply traced_succ_all. rewrite <- kids_traced_succ. exact Hc.
  Qed.

  (** *** soundness of the executable checker *)
  Lemma unreported_PinRoot m p x t :
    get m p = Some x -> t ∈ unreported P m p x -> PinRoot m t.
  Proof.
    intros Hx Ht.
    assert (Hst : t ∈ strong_targets x -> ~ (o_ismap x = false /\ o_vst x = VLive /\ o_borrowed x = false) -> PinRoot m t).
    { intros Hs Hn. apply strong_targets_elem in Hs as [[j Hj]|Hc].
      - eapply PR_field; eauto. intros (_ & R1 & R2 & R3 & _). apply Hn. auto.
      - eapply PR_cleaner; eauto. }
    unfold unreported in Ht. destruct (o_ismap x) eqn:Em.
    { apply Hst; [exact Ht|]. intros (? & _). discriminate. }
    destruct (o_vst x) eqn:Ev; try (apply Hst; [exact Ht|]; intros (_ & ? & _); discriminate).
    destruct (o_borrowed x) eqn:Eb.
    { apply Hst; [exact Ht|]. intros (_ & _ & ?). discriminate. }
    apply elem_of_app in Ht as [Ht|Ht].
    - apply elem_of_list_omap in Ht as ([f tr] & Hin & Hf). destruct tr; [discriminate|]. subst f.
      apply elem_of_list_lookup in Hin as [j Hj].
      apply lookup_zip_with_Some in Hj as (f' & i & Heq & Hf' & Hi). injection Heq as <- Htr.
      apply lookup_seq in Hi as [-> _]. cbn in Htr.
      eapply PR_field; eauto. intros (_ & _ & _ & _ & R). unfold class_of in R. rewrite R in Htr. discriminate.
    - destruct (o_cleaner x) as [c|] eqn:Ec; [|inversion Ht].
      apply elem_of_list_singleton in Ht. subst. eapply PR_cleaner; eauto.
  Qed.

  Lemma pin_targets_Pinned m t : t ∈ pin_targets P m -> Pinned m t.
  Proof.
    unfold pin_targets. intros Ht. apply elem_of_list_In, in_concat in Ht as (l & Hl & Ht).
    apply elem_of_list_In, elem_of_lookup_imap in Hl as (p & x & -> & Hx).
    apply elem_of_list_In in Ht.
    destruct (o_box x) eqn:Eb.
    - apply elem_of_app in Ht as [Ht|Ht]; [apply Reach_root; eapply unreported_PinRoot; eauto|].
      destruct (mem_nat p (dead m)) eqn:Ed; [|inversion Ht]. apply mem_nat_elem in Ed.
      eapply Reach_step; [apply Reach_root, PR_dead, Ed|]. rewrite (all_succ_get m p x Hx). exact Ht.
    - apply elem_of_app in Ht as [Ht|Ht]; [apply Reach_root; eapply unreported_PinRoot; eauto|].
      destruct (mem_nat p (dead m)) eqn:Ed; [|inversion Ht]. apply mem_nat_elem in Ed.
      eapply Reach_step; [apply Reach_root, PR_dead, Ed|]. rewrite (all_succ_get m p x Hx). exact Ht.
    - destruct (o_vst x); inversion Ht.
  Qed.

  Theorem cover_sound m : cover_b P m = true -> Cover m.
  Proof.
    unfold cover_b. cbv zeta. rewrite forallb_forall. intros H o x Hx Hb Hv.
    specialize (H (o, x)). cbv beta iota in H. rewrite Hb, Hv in H.
    assert (Hin : In (o, x) (imap (fun o x => (o, x)) (heap m))).
    { apply elem_of_list_In, elem_of_lookup_imap. eauto. }
    specialize (H Hin). rewrite !orb_true_iff in H. destruct H as [[[H|H]|H]|H].
    - left. apply mem_nat_elem, H.
    - right; left. eapply QuietClosure_seed; [|exact H]. auto.
    - right; right; left. eapply QuietClosure_seed; [|exact H]. auto.
    - right; right; right. apply Reach_trans. eapply QuietClosure_seed; [|exact H].
      intros r Hr. apply elem_of_app in Hr as [Hr|Hr]; [apply pin_targets_Pinned, Hr|].
      apply Reach_root, PR_dead, Hr.
  Qed.
End Defs.

(** ** One tracing pass is complete (C02, pass level) *)
Section QuietPass.
  Context (K : conf) (P : prog).
  Implicit Types (m : machine) (o p t u v : id) (x : obj).

  Lemma exact_count m :
    SInv K true [] [] m ->
    forall o, Pass.alloc m o ->
      h_rc (hdr_of m o) = (N.of_nat (Pass.in_fields m o) + extc [] m o)%N.
  Proof.
    intros HI o (x & Hx & Hb). rewrite (hdr_of_get _ _ _ Hx).
    destruct (okN_alloc K _ _ _ _ _ (sv_obj _ _ _ _ _ HI _ _ Hx) Hb) as (_ & O2 & _).
    rewrite (O2 eq_refl), in_fields_hsum. unfold extc, ext_refs. rewrite refs_unfold. cbn [cnt_id]. lia.
  Qed.

  (** an object that is neither program-reachable nor pinned is [unpinned] in the sense of
      [PassMain.pass_complete] *)
  Lemma unpinned_of m u :
    SInv K true [] [] m -> BufBase.Ibuf K [] m -> Cover P m ->
    ~ ProgReach m u -> ~ Pinned P m u ->
    PassMain.unpinned P m (extc [] m) u.
  Proof.
    intros HI HB HC Hnr Hnp. split; [|split].
    - unfold extc, ext_refs.
      destruct (Nat.eq_dec (cnt_opt u (slots m)) 0) as [E1|E1].
      + destruct (Nat.eq_dec (cnt_id u (bag m)) 0) as [E2|E2]; [rewrite E1, E2; reflexivity|].
        exfalso. apply Hnr, Reach_root. unfold prog_roots. rewrite !elem_of_app. right; left.
        apply cnt_id_pos. lia.
      + exfalso. apply Hnr, Reach_root. unfold prog_roots. rewrite !elem_of_app. left.
        assert (Hp : (0 < cnt_opt u (slots m))%nat) by lia. apply cnt_opt_pos in Hp as [j Hj].
        apply elem_of_list_omap. exists (Some u). split; [eapply elem_of_list_lookup_2, Hj | reflexivity].
    - intros p x j Hx Hj.
      assert (Hsucc : u ∈ all_succ m p) by (eapply all_succ_field; eauto).
      assert (Hroot : ~ reported P x j -> False).
      { intros Hn. apply Hnp, Reach_root. eapply PR_field; eauto. }
      destruct (o_box x) eqn:Eb; try (exfalso; apply Hroot; intros (? & _); congruence).
      destruct (o_ismap x) eqn:Em; [exfalso; apply Hroot; intros (_ & ? & _); congruence|].
      destruct (o_vst x) eqn:Ev; try (exfalso; apply Hroot; intros (_ & _ & ? & _); congruence).
      destruct (o_borrowed x) eqn:Ebo; [exfalso; apply Hroot; intros (_ & _ & _ & ? & _); congruence|].
      destruct (c_traced (class_of P (o_cls x)) !! j) as [[|]|] eqn:Et;
        try (exfalso; apply Hroot; intros (_ & _ & _ & _ & ?); congruence).
      split; [|auto]. apply Covered_reach.
      destruct (HC p x Hx Eb Ev) as [Hd|[Hr|[Hc|Hp]]].
      + exfalso. apply Hnp. eapply Reach_step; [apply Reach_root, PR_dead, Hd | exact Hsucc].
      + exfalso. apply Hnr. eapply Reach_step; eauto.
      + exact Hc.
      + exfalso. apply Hnp. eapply Reach_step; eauto.
    - intros p x Hx Hc. apply Hnp, Reach_root. eapply PR_cleaner; eauto.
  Qed.

  Lemma unpinned_heap m m0 ext u :
    heap m0 = heap m -> pc m0 = pc m -> PassMain.unpinned P m ext u -> PassMain.unpinned P m0 ext u.
  Proof.
    intros Hh Hp (U1 & U2 & U3). split; [exact U1|]. split.
    - intros p x j Hx Hj. unfold get in Hx. rewrite Hh in Hx. destruct (U2 p x j Hx Hj) as (R & Rest).
      split; [|exact Rest]. eapply PassMain.reach_heap; [..|exact R]; assumption.
    - intros p x Hx. unfold get in Hx. rewrite Hh in Hx. apply (U3 p x Hx).
  Qed.

  Lemma treach_heap m m0 u v : heap m0 = heap m -> Pass.treach P m0 u v -> Pass.treach P m u v.
  Proof.
    intros Hh. induction 1 as [|p c _ IH Hc]; [constructor|].
    eapply Pass.treach_step; [exact IH|]. rewrite kids_traced_succ in *.
    unfold traced_succ in *. rewrite Hh in Hc. exact Hc.
  Qed.

  (** the general form: [m0] is [m] up to the collector flags etc. *)
  Theorem quiet_pass_gen m m0 m' L :
    SInv K true [] [] m -> BufBase.Ibuf K [] m -> Cover P m ->
    heap m0 = heap m -> pc m0 = pc m -> pc_size m0 = pc_size m ->
    trace_pass K P m0 = (m', PDone L) ->
    forall v x, get m v = Some x -> o_box x = BAlloc -> o_vst x = VLive -> v ∉ dead m ->
      ~ ProgReach m v -> ~ Pinned P m v -> v ∈ L.
  Proof.
    intros HI HB HC Hh Hp Hs Hr v x Hx Hb Hv Hd Hnr Hnp.
    pose proof (PassPre_SInv K P true [] m HI HB) as Hpre.
    pose proof (PassMain.PassPre_heap P m m0 _ Hh Hp Hs Hpre) as Hpre0.
    assert (Hex : forall o, Pass.alloc m0 o ->
              h_rc (hdr_of m0 o) = (N.of_nat (Pass.in_fields m0 o) + extc [] m o)%N).
    { intros o Ho. rewrite (PassCount.hdr_of_heap m m0 o Hh). unfold Pass.in_fields. rewrite Hh.
      apply (exact_count m HI). unfold Pass.alloc, get in *. rewrite <- Hh. exact Ho. }
    apply (PassMain.pass_complete K P m0 _ m' L Hpre0 Hex Hr).
    - apply (PassMain.reach_heap P m m0 v Hh Hp). apply Covered_reach.
      destruct (HC v x Hx Hb Hv) as [?|[?|[?|?]]]; [contradiction|contradiction|assumption|contradiction].
    - intros u _ Ht. apply (unpinned_heap m m0 _ u Hh Hp). apply treach_heap with (m := m) in Ht; [|exact Hh].
      apply unpinned_of; auto.
      + intros Hu. apply Hnr. eapply ProgReach_treach; eauto.
      + intros Hu. apply Hnp. eapply Pinned_treach; eauto.
  Qed.

  (** C02, pass level, for the state in which [step_collect] / [step_collect_once] run the
      tracing pass *)
  Theorem C02_quiet_pass m m' L :
    SInv K true [] [] m -> BufBase.Ibuf K [] m -> Cover P m ->
    trace_pass K P (m <| st_collecting := true |> <| st_finalizing := false |> <| st_dropping := false |>)
      = (m', PDone L) ->
    forall v x, get m v = Some x -> o_box x = BAlloc -> o_vst x = VLive -> v ∉ dead m ->
      ~ ProgReach m v -> ~ Pinned P m v -> v ∈ L.
  Proof. intros HI HB HC Hr. match type of Hr with trace_pass _ _ ?M = _ =>
      exact (quiet_pass_gen m M m' L HI HB HC eq_refl eq_refl eq_refl Hr) end.
  Qed.
End QuietPass.

(** ** States with the same object graph: the three relations only read the handles, the value
    and box states, the class / map / borrow flags, the program variables and the dying set *)
Section Gsim.
  Context (P : prog).
  Implicit Types (m : machine) (o p t : id) (x y : obj).

  Definition gsim m m' : Prop :=
    Forall2 Pass.obj_sim (heap m) (heap m') /\ slots m' = slots m /\ bag m' = bag m /\
    values m' = values m /\ dead m' = dead m.

  Lemma gsim_get_l m m' o x : gsim m m' -> get m o = Some x -> exists y, get m' o = Some y /\ Pass.obj_sim x y.
  Proof. intros (H & _) Hx. unfold get in *. destruct (Forall2_lookup_l _ _ _ _ _ H Hx) as (y & ? & ?). eauto. Qed.
  Lemma gsim_get_r m m' o y : gsim m m' -> get m' o = Some y -> exists x, get m o = Some x /\ Pass.obj_sim x y.
  Proof. intros (H & _) Hx. unfold get in *. destruct (Forall2_lookup_r _ _ _ _ _ H Hx) as (x & ? & ?). eauto. Qed.

  Lemma obj_sim_targets x y : Pass.obj_sim x y -> strong_targets y = strong_targets x.
  Proof.
    intros Hs. apply Pass.obj_sim_fields in Hs as (_&_&_&_&_&_&Hf&_&Hc&_).
    unfold strong_targets. rewrite Hf, Hc. reflexivity.
  Qed.
  Lemma obj_sim_reported x y j : Pass.obj_sim x y -> reported P x j -> reported P y j.
  Proof.
    intros Hs. apply Pass.obj_sim_fields in Hs as (_&Hv&Hb&_&Hc&Hm&_&_&_&Hbo&_).
    unfold reported. rewrite Hv, Hb, Hc, Hm, Hbo. auto.
  Qed.
  Lemma obj_sim_reported_r x y j : Pass.obj_sim x y -> reported P y j -> reported P x j.
  Proof.
    intros Hs. apply Pass.obj_sim_fields in Hs as (_&Hv&Hb&_&Hc&Hm&_&_&_&Hbo&_).
    unfold reported. rewrite Hv, Hb, Hc, Hm, Hbo. auto.
  Qed.

  Lemma gsim_all_succ m m' p : gsim m m' -> all_succ m' p = all_succ m p.
  Proof.
    intros H. unfold all_succ. destruct (heap m !! p) as [x|] eqn:Hx.
    - destruct (gsim_get_l m m' p x H Hx) as (y & Hy & Hs). unfold get in Hy. rewrite Hy.
      apply obj_sim_targets, Hs.
    - destruct (heap m' !! p) as [y|] eqn:Hy; [|reflexivity].
      destruct (gsim_get_r m m' p y H Hy) as (x & Hx' & _). unfold get in Hx'. congruence.
  Qed.

  Lemma gsim_prog_roots m m' : gsim m m' -> prog_roots m' = prog_roots m.
  Proof.
    intros H. pose proof H as (_ & Hs & Hb & Hv & _). unfold prog_roots. rewrite Hs, Hb, Hv.
    do 3 f_equal. clear Hv. induction (values m) as [|v l IH]; [reflexivity|].
    destruct v as [o|]; simpl.
    - rewrite (gsim_all_succ m m' o H). f_equal. exact IH.
    - exact IH.
  Qed.

  Lemma Reach_ext succ succ' (R R' : nat -> Prop) o :
    (forall p, succ' p = succ p) -> (forall r, R r -> R' r) -> Reach succ R o -> Reach succ' R' o.
  Proof.
    intros Hs HR. induction 1 as [o Ho|p c _ IH Hc]; [apply Reach_root, HR, Ho|].
    eapply Reach_step; [exact IH|]. rewrite Hs. exact Hc.
  Qed.

  Lemma gsim_ProgReach m m' o : gsim m m' -> ProgReach m o -> ProgReach m' o.
  Proof.
    intros H. apply Reach_ext; [intros p; apply gsim_all_succ, H|].
    intros r Hr. rewrite (gsim_prog_roots m m' H). exact Hr.
  Qed.

  Lemma gsim_PinRoot m m' t : gsim m m' -> PinRoot P m t -> PinRoot P m' t.
  Proof.
    intros H [p x j t' Hx Hj Hn|p x t' Hx Hc|t' Hd].
    - destruct (gsim_get_l m m' p x H Hx) as (y & Hy & Hs).
      pose proof (Pass.obj_sim_fields _ _ Hs) as (_&_&_&_&_&_&Hf&_).
      eapply PR_field; [exact Hy | rewrite Hf; exact Hj|]. intros Hr. apply Hn. eapply obj_sim_reported_r; eauto.
    - destruct (gsim_get_l m m' p x H Hx) as (y & Hy & Hs).
      pose proof (Pass.obj_sim_fields _ _ Hs) as (_&_&_&_&_&_&_&_&Hcl&_).
      eapply PR_cleaner; [exact Hy | rewrite Hcl; exact Hc].
    - apply PR_dead. destruct H as (_&_&_&_&Hd'). rewrite Hd'. exact Hd.
  Qed.

  Lemma gsim_Pinned m m' o : gsim m m' -> Pinned P m o -> Pinned P m' o.
  Proof.
    intros H. apply Reach_ext; [intros p; apply gsim_all_succ, H|]. intros r. apply gsim_PinRoot, H.
  Qed.

  Lemma gsim_refl_heap m m' :
    heap m' = heap m -> slots m' = slots m -> bag m' = bag m -> values m' = values m -> dead m' = dead m ->
    gsim m m'.
  Proof. intros Hh ? ? ? ?. split; [rewrite Hh; apply Pass.heap_sim_refl | auto]. Qed.
End Gsim.

(** ** Quiet collections *)
(** the events that witness a finalizer, a destructor / cleaning action or a deallocation *)
Definition loud (e : event) : bool :=
  match e with
  | ECb KFin _ _ | ECb KDrop _ _ | ECb KAction _ _ => true
  | EFree _ _ _ => true
  | _ => false
  end.
Fixpoint nloud (l : list event) : nat :=
  match l with [] => 0 | e :: l => (if loud e then 1 else 0) + nloud l end.
(** [quiet m m1]: no finalizer, destructor or cleaning action was entered and nothing was freed
    between [m] and [m1] *)
Definition quiet (m m1 : machine) : Prop := nloud (log m1) = nloud (log m).

Lemma nloud_app k l : nloud (k ++ l) = nloud k + nloud l.
Proof. induction k as [|e k IH]; [reflexivity|]. cbn. rewrite IH. lia. Qed.
Lemma nloud_suffix l l' : suffix l l' -> nloud l <= nloud l'.
Proof. intros [k ->]. rewrite nloud_app. lia. Qed.
Lemma nloud_zero k : nloud k = 0 <-> forallb (fun e => negb (loud e)) k = true.
Proof.
  induction k as [|e k IH]; [cbn; tauto|]. cbn. destruct (loud e); cbn; [split; [lia|discriminate]|exact IH].
Qed.
(** the readable form: the events logged by the call contain no loud one *)
Lemma quiet_spec m m1 k :
  log m1 = k ++ log m -> (quiet m m1 <-> forallb (fun e => negb (loud e)) k = true).
Proof. intros Hl. unfold quiet. rewrite Hl, nloud_app, <- nloud_zero. lia. Qed.

Section QuietRun.
  Context (K : conf) (P : prog).
  Implicit Types (m : machine) (o p t u v g : id) (x : obj).

  (** every allocated live CleanerMap is owned (has a positive strong count).  Not part of
      [SInv]; true of every top-level state of every run (a map is created with count 1 and
      destroyed as soon as the count reaches 0) but NOT proved here: see the report. *)
  Definition MapsOwned m : Prop :=
    forall o x, get m o = Some x -> o_ismap x = true -> o_box x = BAlloc -> o_vst x = VLive ->
                h_rc (o_hdr x) <> 0%N.

  Notation nl m := (nloud (log m)).

  Lemma run_nl n c m : nl m <= nl (run K P n c m).1.
  Proof. apply nloud_suffix, Flags3.run_log_mono. Qed.
  Lemma run_nl_eq n c m m' r : run K P n c m = (m', r) -> nl m <= nl m'.
  Proof. intros H. pose proof (run_nl n c m) as H'. rewrite H in H'. exact H'. Qed.

  Lemma log_tick k m : log (tick k m).1 = log m.
  Proof. unfold tick. destruct (get_fuse k m =? 0)%N; [reflexivity|]. destruct k; reflexivity. Qed.
  Lemma get_tick k m o : get (tick k m).1 o = get m o.
  Proof. unfold tick. destruct (get_fuse k m =? 0)%N; [reflexivity|]. destruct k; reflexivity. Qed.

  (** *** the destructor of a non-map value logs its entry *)
  Lemma drop_value_loud n g m x :
    get m g = Some x -> o_vst x = VLive -> o_ismap x = false ->
    nl m < nl (step_drop_value K P (run K P n) g m).1.
  Proof.
    intros Hx Hv Hm. unfold step_drop_value. rewrite Hx, Hv, Hm.
    set (m1 := upd g _ m).
    set (ma := emit (ECb KDrop g (cur_flags K m1)) m1).
    assert (Ha : nl ma = S (nl m)) by reflexivity.
    pose proof (log_tick KDrop ma) as Ht. destruct (tick KDrop ma) as [mb boom]. cbn [fst] in Ht.
    set (pr1 := if boom then (mb, raise mb) else run K P n (KScript (Some g) (oscript P (c_drop (class_of P (o_cls x))))) mb).
    assert (H1 : nl mb <= nl pr1.1).
    { subst pr1. destruct boom; [cbn; lia | apply run_nl]. }
    destruct pr1 as [mc rc]. cbn [fst] in H1.
    set (pr2 := match rc with ONormal => run K P n (KDropFields g 0) mc
                            | OPanic => unwinding (run K P n (KDropFields g 0)) mc | _ => (mc, rc) end).
    assert (H2 : nl mc <= nl pr2.1).
    { subst pr2. destruct rc; try (cbn; lia); [apply run_nl|].
      unfold unwinding. pose proof (run_nl n (KDropFields g 0) (mc <| panicking := true |>)) as H.
      destruct (run K P n (KDropFields g 0) (mc <| panicking := true |>)) as [md rd]. cbn in *. exact H. }
    destruct pr2 as [md rd]. cbn [fst] in *. change (nl (upd g (fun x0 => x0 <| o_vst := VDropped |>) md)) with (nl md).
    rewrite Ht in H1. lia.
  Qed.

  (** *** the drop pass on a non-empty list of non-map values is loud *)
  Lemma drop_list_loud n L g rest old_d m mr x :
    get m g = Some x -> o_vst x = VLive -> o_ismap x = false ->
    run K P n (KDropList L (g :: rest) old_d) m = (mr, ONormal) -> nl m < nl mr.
  Proof.
    intros Hx Hv Hm. destruct n as [|n]; [discriminate|].
    change (run K P (S n) (KDropList L (g :: rest) old_d) m) with (step_drop_list K (run K P n) L (g :: rest) old_d m).
    unfold step_drop_list.
    set (m1 := if is_in_list (hdr_of m g) then m else emit_bad AssertFail g m).
    assert (E1 : nl m1 = nl m) by (subst m1; destruct (is_in_list _); reflexivity).
    assert (G1 : get m1 g = Some x) by (subst m1; destruct (is_in_list _); exact Hx).
    set (m2 := if k_weak K then uhdr g set_dropped m1 else m1).
    assert (E2 : nl m2 = nl m) by (subst m2; destruct (k_weak K); exact E1).
    assert (G2 : exists x2, get m2 g = Some x2 /\ o_vst x2 = VLive /\ o_ismap x2 = false).
    { subst m2. destruct (k_weak K); [|eauto]. exists (x <| o_hdr ::= set_dropped |>).
      split; [apply get_upd_eq, G1 | auto]. }
    destruct G2 as (x2 & G2 & Hv2 & Hm2). clearbody m2.
    destruct n as [|n]; [cbn; discriminate|].
    change (run K P (S n) (KDropValue g) m2) with (step_drop_value K P (run K P n) g m2).
    pose proof (drop_value_loud n g m2 x2 G2 Hv2 Hm2) as Hl.
    destruct (step_drop_value K P (run K P n) g m2) as [m3 r3]. cbn [fst] in Hl.
    destruct r3; try discriminate. intros Hr. apply run_nl_eq in Hr. lia.
  Qed.

  (** *** the finalization pass on a non-empty list of live non-map values is loud *)
  Lemma fin_list_loud L : L <> [] -> forall rest n old_f m mr,
    (forall g, g ∈ L -> exists x, get m g = Some x /\ o_vst x = VLive /\ o_ismap x = false) ->
    (forall g, g ∈ rest -> g ∈ L) ->
    run K P n (KFinalizeList L rest false old_f) m = (mr, ONormal) -> nl m < nl mr.
  Proof.
    intros HL. induction rest as [|g rest IH]; intros n old_f m mr HM Hsub; (destruct n as [|n]; [discriminate|]).
    - change (run K P (S n) (KFinalizeList L [] false old_f) m) with (step_finalize_list K P (run K P n) L [] false old_f m).
      unfold step_finalize_list. cbn [negb]. destruct L as [|g0 L0]; [congruence|].
      destruct (HM g0 ltac:(left)) as (x & Hx & Hv & Hm). intros Hr.
      eapply (drop_list_loud n (g0 :: L0) g0 L0 _ _ mr x) in Hr; auto.
    - change (run K P (S n) (KFinalizeList L (g :: rest) false old_f) m)
        with (step_finalize_list K P (run K P n) L (g :: rest) false old_f m).
      unfold step_finalize_list. destruct (HM g (Hsub g ltac:(left))) as (x & Hx & Hv & Hm).
      destruct (needs_fin (hdr_of m g)).
      + set (m1 := uhdr g (set_fin true) m).
        assert (Hmap : is_map m1 g = false).
        { unfold is_map, m1, uhdr. rewrite (get_upd_eq _ _ _ _ Hx). exact Hm. }
        rewrite Hmap.
        set (ma := emit (ECb KFin g (cur_flags K m1)) m1).
        assert (Ha : nl ma = S (nl m)) by reflexivity.
        pose proof (log_tick KFin ma) as Ht. destruct (tick KFin ma) as [mb boom]. cbn [fst] in Ht.
        destruct boom; [unfold raise; destruct (panicking mb); discriminate|].
        set (pr1 := match get mb g with
                    | Some x0 => run K P n (KScript (Some g) (oscript P (c_fin (class_of P (o_cls x0))))) mb
                    | None => (mb, ONormal) end).
        assert (H1 : nl mb <= nl pr1.1) by (subst pr1; destruct (get mb g); [apply run_nl | cbn; lia]).
        destruct pr1 as [mc rc]. cbn [fst] in H1. destruct rc; try discriminate.
        intros Hr. apply run_nl_eq in Hr. rewrite Ht in H1. lia.
      + intros Hr. apply (IH n old_f m mr HM); [|exact Hr]. intros g' Hg'. apply Hsub. right. exact Hg'.
  Qed.
End QuietRun.

(** ** C02 at machine level: a quiet [collect_cycles()] *)
Section QuietThm.
  Context (K : conf) (P : prog).
  Implicit Types (m : machine) (o p t u v g : id) (x : obj).

  Notation nl m := (nloud (log m)).
  Notation clr m := (m <| st_finalizing := false |> <| st_dropping := false |>).

  Lemma Reach_nil succ o : Reach succ (fun r => r ∈ @nil nat) o -> False.
  Proof. induction 1 as [o Ho|]; [inversion Ho | assumption]. Qed.

  (** no CleanerMap is a member of the list computed by the pass *)
  Lemma L_not_map mc mp L :
    SInv K true [] [] mc -> BufBase.Ibuf K [] mc -> MapsOwned mc ->
    trace_pass K P (clr mc) = (mp, PDone L) ->
    forall g x, g ∈ L -> get mc g = Some x -> o_box x = BAlloc -> o_vst x = VLive -> o_ismap x = false.
  Proof.
    intros HI HB HMO Hr g x Hg Hx Hb Hv. destruct (o_ismap x) eqn:Em; [exfalso|reflexivity].
    pose proof (ap_pre K P true [] mc HI HB) as Hpre.
    destruct (PassMain.pass_closed K P _ _ mp L Hpre Hr g Hg) as (_ & _ & Hcl).
    assert (Hrefs : refs mc g = 0%nat).
    { destruct (Nat.eq_dec (refs mc g) 0) as [|Hne]; [assumption|exfalso].
      destruct (refs_pos_hloc mc g ltac:(lia)) as (h & c & Hl).
      pose proof (sv_loc _ _ _ _ _ HI _ _ _ Hl) as (xt & Hxt & _ & Hnm & _).
      assert (xt = x) by congruence. subst xt.
      destruct Hl as [i t Hs|t Hbg|p xp j t Hp Hj|p xp t Hp Hc].
      - specialize (Hnm eq_refl). congruence.
      - specialize (Hnm eq_refl). congruence.
      - specialize (Hnm eq_refl). congruence.
      - exact (Hcl p xp Hp Hc). }
    destruct (okN_alloc K _ _ _ _ _ (sv_obj _ _ _ _ _ HI _ _ Hx) Hb) as (_ & O2 & _).
    specialize (O2 eq_refl). rewrite Hrefs in O2. apply (HMO g x Hx Em Hb Hv). rewrite O2. reflexivity.
  Qed.

  Lemma pass_nl m mp pr : trace_pass K P m = (mp, pr) -> nl m <= nl mp.
  Proof.
    intros Hr. destruct (Pass.pass_frame K P m mp pr Hr) as [_ _ (l & Hl & _) _].
    apply nloud_suffix. exists l. exact Hl.
  Qed.

  (** one quiet [__collect]: its tracing pass returned the empty list *)
  Lemma once_quiet n mc m2 :
    SInv K true [] [] mc -> BufBase.Ibuf K [] mc -> MapsOwned mc ->
    run K P n KCollectOnce mc = (m2, ONormal) -> nl m2 <= nl mc ->
    exists mp, trace_pass K P (clr mc) = (mp, PDone []) /\
               m2 = mp <| st_finalizing := st_finalizing mc |> <| st_dropping := st_dropping mc |>.
  Proof.
    intros HI HB HMO Honce Hq. destruct n as [|n]; [discriminate|].
    change (run K P (S n) KCollectOnce mc) with (step_collect_once K P (run K P n) mc) in Honce.
    unfold step_collect_once in Honce.
    destruct (trace_pass K P (clr mc)) as [mp pr] eqn:Hpass.
    pose proof (pass_nl _ _ _ Hpass) as Hnl. change (nl (clr mc)) with (nl mc) in Hnl.
    destruct pr as [L| |]; [|unfold raise in Honce; destruct (panicking _); discriminate|discriminate].
    destruct L as [|g0 L0]; [injection Honce as <-; eauto|exfalso].
    set (L := g0 :: L0) in *.
    destruct (ap_done K P true [] mc HI HB mp (PDone L) Hpass L eq_refl) as (_ & _ & HM & _).
    set (m2' := mp <| st_finalizing := st_finalizing mc |> <| st_dropping := st_dropping mc |>) in *.
    assert (HM' : forall g, g ∈ L -> exists y, get mp g = Some y /\ o_vst y = VLive /\ o_ismap y = false).
    { intros g Hg. destruct (HM g Hg) as (y & Hy & Hby & Hvy & _). change (get m2' g) with (get mp g) in Hy.
      exists y. split; [exact Hy|]. split; [exact Hvy|].
      destruct (Pass.mframe_get_r K _ _ _ _ (Pass.pass_frame K P _ _ _ Hpass) Hy) as (x & Hx & Hs).
      change (get (clr mc) g) with (get mc g) in Hx.
      pose proof (Pass.obj_sim_fields _ _ Hs) as (_&Ev&Eb&_&_&Em&_).
      rewrite Em. apply (L_not_map mc mp L HI HB HMO Hpass g x Hg Hx); congruence. }
    assert (HL : L <> []) by discriminate.
    destruct (k_fin K).
    - apply (fin_list_loud K P L HL L n _ _ m2) in Honce; [|exact HM'|auto].
      change (nl (m2' <| st_finalizing := true |>)) with (nl mp) in Honce. lia.
    - destruct (HM' g0 ltac:(left)) as (y & Hy & Hvy & Hmy).
      apply (drop_list_loud K P n L g0 L0 _ _ m2 y) in Honce; [|exact Hy|exact Hvy|exact Hmy].
      change (nl (m2' <| st_dropping := true |> <| dead ::= app L |>)) with (nl mp) in Honce. lia.
  Qed.

  Lemma loop_nil n k m m' : pc m = [] -> run K P n (KCollectLoop k) m = (m', ONormal) -> m' = m.
  Proof.
    intros Hpc. destruct n as [|n]; [discriminate|].
    change (run K P (S n) (KCollectLoop k) m) with (step_collect_loop (run K P n) k m).
    unfold step_collect_loop. rewrite Hpc. destruct k; intros [= <-]; reflexivity.
  Qed.

  Lemma adjust_proj m :
    let m' := adjust_trigger_point K m in
    heap m' = heap m /\ pc m' = pc m /\ log m' = log m /\ slots m' = slots m /\ bag m' = bag m /\
    values m' = values m /\ dead m' = dead m /\ st_alloc m' = st_alloc m.
  Proof.
    cbv zeta. unfold adjust_trigger_point, adjust. destruct (k_auto K); [|repeat split].
    destruct (cf_thr m <=? st_alloc m)%N; [repeat split|].
    destruct (fprod_is_zero _ _); repeat split.
  Qed.

  Lemma bytes_gsim m m' : Forall2 Pass.obj_sim (heap m) (heap m') -> BufBase.bytes K m' = BufBase.bytes K m.
  Proof.
    unfold BufBase.bytes. induction 1 as [|x y h h' Hs _ IH]; [reflexivity|].
    rewrite !BufBase.bytes_of_cons, IH. f_equal.
    pose proof (Pass.obj_sim_fields _ _ Hs) as (_&_&Eb&_&_&Em&_).
    unfold BufBase.osize, box_layout. rewrite Eb, Em. reflexivity.
  Qed.

  (** what a quiet collection leaves: the same object graph, an empty buffer, and no allocated
      live object outside the dying set that is neither program-reachable nor pinned.
      [MapsOwned] is only used to exclude a buffered CleanerMap with strong count 0 (whose
      library-internal empty finalizer logs nothing). *)
  Theorem C02_quiet n m m1 :
    SInv K true [] [] m -> BufBase.Ibuf K [] m -> Cover P m -> MapsOwned m ->
    st_collecting m = false ->
    run K P n KCollectCycles m = (m1, ONormal) -> quiet m m1 ->
    (forall o x, get m1 o = Some x -> o_box x = BAlloc -> o_vst x = VLive -> o ∉ dead m1 ->
       ~ ProgReach m1 o -> ~ Pinned P m1 o -> False) /\
    gsim m m1 /\ pc m1 = [] /\ st_alloc m1 = BufBase.bytes K m1.
  Proof.
    intros HI HB HC HMO Hc Hrun Hq. unfold quiet in Hq.
    destruct n as [|n]; [discriminate|].
    change (run K P (S n) KCollectCycles m) with (step_collect_cycles K (run K P n) m) in Hrun.
    unfold step_collect_cycles in Hrun. rewrite Hc, (sv_alive _ _ _ _ _ HI) in Hrun.
    destruct (run K P n KCollect m) as [ma ra] eqn:Hcol. destruct ra; try discriminate.
    injection Hrun as <-.
    destruct (adjust_proj ma) as (A1 & A2 & A3 & A4 & A5 & A6 & A7 & A8). cbv zeta in *.
    rewrite A3 in Hq.
    destruct n as [|n]; [discriminate|].
    change (run K P (S n) KCollect m) with (step_collect K (run K P n) m) in Hcol. unfold step_collect in Hcol.
    set (mc := m <| st_collecting := true |> <| st_exec ::= N.succ |>) in *.
    assert (Hk : exists k', (if k_fin K then 10 else 1)%nat = S k') by (destruct (k_fin K); eauto).
    destruct Hk as [k' Hk]. rewrite Hk in Hcol.
    destruct (run K P n (KCollectLoop (S k')) mc) as [mb rb] eqn:Hloop.
    injection Hcol as <- ->.
    change (nl (mb <| st_collecting := false |>)) with (nl mb) in Hq.
    assert (HIc : SInv K true [] [] mc) by (eapply SafeCollTop.SInv_same; eauto; reflexivity).
    assert (HBc : BufBase.Ibuf K [] mc) by (eapply SafeCollTop.Ibuf_nil_same; [..|exact HB]; reflexivity).
    assert (Hbytes : st_alloc m = BufBase.bytes K m) by (apply (Buf.Ibuf_spec K [] m HB)).
    (* it suffices to know the graph is unchanged and that Cover's middle disjunct is empty *)
    assert (Hfin : gsim m mb -> pc mb = [] -> st_alloc mb = st_alloc m ->
              (forall o x, get m o = Some x -> o_box x = BAlloc -> o_vst x = VLive -> o ∉ dead m ->
                 ~ ProgReach m o -> ~ Pinned P m o -> False) ->
              (forall o x, get (adjust_trigger_point K (mb <| st_collecting := false |>)) o = Some x ->
                 o_box x = BAlloc -> o_vst x = VLive ->
                 o ∉ dead (adjust_trigger_point K (mb <| st_collecting := false |>)) ->
                 ~ ProgReach (adjust_trigger_point K (mb <| st_collecting := false |>)) o ->
                 ~ Pinned P (adjust_trigger_point K (mb <| st_collecting := false |>)) o -> False) /\
              gsim m (adjust_trigger_point K (mb <| st_collecting := false |>)) /\
              pc (adjust_trigger_point K (mb <| st_collecting := false |>)) = [] /\
              st_alloc (adjust_trigger_point K (mb <| st_collecting := false |>)) =
              BufBase.bytes K (adjust_trigger_point K (mb <| st_collecting := false |>))).
    { intros Hg Hpc Hsa Hno.
      set (m1 := adjust_trigger_point K (mb <| st_collecting := false |>)) in *.
      assert (Hg1 : gsim m m1).
      { destruct Hg as (G1 & G2 & G3 & G4 & G5). split; [rewrite A1; exact G1|].
        rewrite A4, A5, A6, A7. auto. }
      split; [|split; [exact Hg1|split; [rewrite A2; exact Hpc|]]].
      - intros o x Hx Hb Hv Hd Hnr Hnp.
        destruct (gsim_get_r m m1 o x Hg1 Hx) as (x0 & Hx0 & Hs).
        pose proof (Pass.obj_sim_fields _ _ Hs) as (_&Ev&Eb&_).
        apply (Hno o x0 Hx0); try congruence.
        + destruct Hg1 as (_&_&_&_&Hd1). rewrite <- Hd1. exact Hd.
        + intros H. apply Hnr. eapply gsim_ProgReach; eauto.
        + intros H. apply Hnp. eapply gsim_Pinned; eauto.
      - rewrite A8. cbn. rewrite Hsa, Hbytes. symmetry. apply bytes_gsim. apply Hg1. }
    destruct n as [|n]; [discriminate|].
    change (run K P (S n) (KCollectLoop (S k')) mc) with (step_collect_loop (run K P n) (S k') mc) in Hloop.
    unfold step_collect_loop in Hloop. destruct (pc mc) as [|p0 rest] eqn:Hpc.
    - (* empty buffer: nothing to do *)
      injection Hloop as <-. apply Hfin; [apply gsim_refl_heap; reflexivity | exact Hpc | reflexivity|].
      intros o x Hx Hb Hv Hd Hnr Hnp. destruct (HC o x Hx Hb Hv) as [?|[?|[Hcv|?]]]; try contradiction.
      unfold Covered in Hcv. change (pc m) with (pc mc) in Hcv. rewrite Hpc in Hcv. eapply Reach_nil, Hcv.
    - destruct (run K P n KCollectOnce mc) as [m2 r2] eqn:Honce. destruct r2; try discriminate.
      pose proof (run_nl_eq K P _ _ _ _ _ Hloop) as Hn2.
      assert (HMOc : MapsOwned mc) by exact HMO.
      destruct (once_quiet n mc m2 HIc HBc HMOc Honce) as (mp & Hpass & ->).
      { change (nl mc) with (nl m). lia. }
      pose proof (Pass.pass_frame K P _ _ _ Hpass) as [Hrest Hheap _ _].
      pose proof (Pass.mrest_proj _ _ Hrest) as (R1 & R2 & R3 & R4 & R5 & R6 & R7 & R8 & R9 & R10 & R11 & R12 &
                     R13 & R14 & R15 & R16 & R17 & R18 & R19 & R20 & R21 & R22 & R23 & R24).
      pose proof (ap_pre K P true [] mc HIc HBc) as Hpre.
      destruct (PassMain.pass_done_marks K P _ _ mp [] Hpre Hpass) as (_ & Hpcp & _).
      apply loop_nil in Hloop; [|exact Hpcp]. subst mb.
      apply Hfin.
      + split; [exact Hheap|]. cbn. rewrite R12, R16, R15, R24. auto.
      + exact Hpcp.
      + cbn. rewrite R5. reflexivity.
      + intros o x Hx Hb Hv Hd Hnr Hnp.
        assert (Hin : o ∈ @nil id); [|inversion Hin].
        match type of Hpass with trace_pass _ _ ?M = _ =>
          apply (quiet_pass_gen K P m M mp [] HI HB HC eq_refl eq_refl eq_refl Hpass o x Hx Hb Hv Hd Hnr Hnp) end.
  Qed.
End QuietThm.

(** ** Completeness of [Cover.closure] on bounded graphs, decidability of the relations *)
Section Complete.
  Context (succ : nat -> list nat).

  Lemma QuietAddNew_NoDup l : forall acc, NoDup acc -> NoDup (add_new l acc).
  Proof.
    unfold add_new. induction l as [|a l IH]; intros acc Hnd; cbn [fold_left]; [exact Hnd|].
    apply IH. destruct (mem_nat a acc) eqn:E; [exact Hnd|].
    apply NoDup_cons. split; [|exact Hnd]. intros Hin. apply mem_nat_elem in Hin. congruence.
  Qed.

  Lemma QuietBound_length (l : list nat) n : NoDup l -> (forall x, x ∈ l -> x < n) -> length l <= n.
  Proof.
    intros Hnd Hb. rewrite <- (seq_length n 0). apply submseteq_length, NoDup_submseteq; [exact Hnd|].
    intros x Hx. apply elem_of_seq. specialize (Hb x Hx). lia.
  Qed.

  Lemma QuietClosure_complete n : (forall p c, c ∈ succ p -> c < n) ->
    forall fuel seen, NoDup seen -> (forall x, x ∈ seen -> x < n) -> n < fuel + length seen ->
    (forall x, x ∈ seen -> x ∈ closure succ fuel seen) /\
    (forall p c, p ∈ closure succ fuel seen -> c ∈ succ p -> c ∈ closure succ fuel seen).
  Proof.
    intros Hsb. induction fuel as [|f IH]; intros seen Hnd Hb Hlt.
    { pose proof (QuietBound_length seen n Hnd Hb). lia. }
    cbn [closure]. set (next := add_new (concat (map succ seen)) seen).
    assert (Hnn : NoDup next) by (apply QuietAddNew_NoDup, Hnd).
    assert (Hsub : forall x, x ∈ seen -> x ∈ next) by (intros x Hx; apply QuietAddNew_elem; auto).
    assert (Hnew : forall p c, p ∈ seen -> c ∈ succ p -> c ∈ next).
    { intros p c Hp Hc. apply QuietAddNew_elem. left. apply elem_of_list_In, in_concat.
      exists (succ p). split; [apply in_map, elem_of_list_In, Hp | apply elem_of_list_In, Hc]. }
    assert (Hbn : forall x, x ∈ next -> x < n).
    { intros x Hx. apply QuietAddNew_elem in Hx as [Hx|Hx]; [|auto].
      apply elem_of_list_In, in_concat in Hx as (l & Hl & Hx). apply in_map_iff in Hl as (p & <- & _).
      eapply Hsb, elem_of_list_In, Hx. }
    pose proof (NoDup_submseteq seen next Hnd Hsub) as Hsm.
    destruct (Nat.eqb (length next) (length seen)) eqn:El.
    - apply Nat.eqb_eq in El. split; [auto|]. intros p c Hp Hc.
      assert (Hperm : seen ≡ₚ next) by (apply submseteq_Permutation_length_eq; [exact El | exact Hsm]).
      rewrite Hperm. eauto.
    - apply Nat.eqb_neq in El. pose proof (submseteq_length _ _ Hsm) as Hle.
      destruct (IH next Hnn Hbn ltac:(lia)) as [I1 I2]. split; [auto | exact I2].
  Qed.

  Lemma QuietClosure_iff n (roots : list nat) x :
    (forall p c, c ∈ succ p -> c < n) -> (forall r, r ∈ roots -> r < n) ->
    mem_nat x (closure succ (S n) (add_new roots [])) = true <-> Reach succ (fun r => r ∈ roots) x.
  Proof.
    intros Hsb Hrb. split; [apply QuietClosure_seed; auto|]. intros Hr. apply mem_nat_elem.
    destruct (QuietClosure_complete n Hsb (S n) (add_new roots [])) as [C1 C2].
    { apply QuietAddNew_NoDup. constructor. }
    { intros y Hy. apply QuietAddNew_elem in Hy as [Hy|Hy]; [auto | inversion Hy]. }
    { lia. }
    induction Hr as [o Ho|p c _ IH Hc]; [apply C1, QuietAddNew_elem; auto | eapply C2; eauto].
  Qed.

  Lemma QuietReach_dec n (roots : list nat) x :
    (forall p c, c ∈ succ p -> c < n) -> (forall r, r ∈ roots -> r < n) ->
    {Reach succ (fun r => r ∈ roots) x} + {~ Reach succ (fun r => r ∈ roots) x}.
  Proof.
    intros Hsb Hrb. destruct (mem_nat x (closure succ (S n) (add_new roots []))) eqn:E.
    - left. apply (QuietClosure_iff n roots x Hsb Hrb), E.
    - right. intros H. apply (QuietClosure_iff n roots x Hsb Hrb) in H. congruence.
  Qed.
End Complete.

Section Decide.
  Context (K : conf) (P : prog).
  Implicit Types (m : machine) (o p t : id) (x : obj).

  (** [reported], as a boolean *)
  Definition reported_b x (j : nat) : bool :=
    match o_box x, o_vst x with
    | BAlloc, VLive =>
      negb (o_ismap x) && negb (o_borrowed x) &&
      match c_traced (class_of P (o_cls x)) !! j with Some true => true | _ => false end
    | _, _ => false
    end.
  Lemma reported_b_spec x j : reported_b x j = true <-> reported P x j.
  Proof.
    unfold reported_b, reported. destruct (o_box x), (o_vst x), (o_ismap x), (o_borrowed x); cbn;
      try (split; [discriminate | intros (?&?&?&?&?); discriminate]).
    destruct (c_traced (class_of P (o_cls x)) !! j) as [[|]|];
      (split; [try discriminate; auto 6 | intros (?&?&?&?&?); congruence]).
  Qed.

  (** the roots of [Pinned], as a list *)
  Definition pin_roots m : list id :=
    concat (imap (fun p x =>
      omap (fun '(f, j) => if reported_b x j then None else f) (zip (o_fields x) (seq 0 (length (o_fields x))))
      ++ match o_cleaner x with Some t => [t] | None => [] end) (heap m)) ++ dead m.

  Lemma pin_roots_spec m t : t ∈ pin_roots m <-> PinRoot P m t.
  Proof.
    unfold pin_roots. rewrite elem_of_app. split.
    - intros [Ht|Ht]; [|apply PR_dead, Ht].
      apply elem_of_list_In, in_concat in Ht as (l & Hl & Ht).
      apply elem_of_list_In, elem_of_lookup_imap in Hl as (p & x & -> & Hx).
      apply elem_of_list_In, elem_of_app in Ht as [Ht|Ht].
      + apply elem_of_list_omap in Ht as ([f j] & Hin & Hf).
        destruct (reported_b x j) eqn:Er; [discriminate|]. subst f.
        apply elem_of_list_lookup in Hin as [i Hi]. apply lookup_zip_with_Some in Hi as (f' & j' & Heq & Hf' & Hj').
        injection Heq as <- <-. apply lookup_seq in Hj' as [-> _]. cbn in Er.
        eapply PR_field; eauto. intros Hr. apply reported_b_spec in Hr. congruence.
      + destruct (o_cleaner x) as [c|] eqn:Ec; [|inversion Ht]. apply elem_of_list_singleton in Ht. subst.
        eapply PR_cleaner; eauto.
    - intros [p x j t' Hx Hj Hn|p x t' Hx Hc|t' Hd]; [left|left|right; exact Hd].
      + apply elem_of_list_In, in_concat. eexists. split.
        * apply elem_of_list_In, elem_of_lookup_imap. exists p, x. split; [reflexivity | exact Hx].
        * apply elem_of_list_In, elem_of_app. left. apply elem_of_list_omap. exists (Some t', j). split.
          -- apply elem_of_list_lookup. exists j. apply lookup_zip_with_Some. exists (Some t'), j.
             split; [reflexivity|]. split; [exact Hj|]. apply lookup_seq. split; [reflexivity|].
             eapply lookup_lt_Some, Hj.
          -- destruct (reported_b x j) eqn:Er; [|reflexivity]. apply reported_b_spec in Er. contradiction.
      + apply elem_of_list_In, in_concat. eexists. split.
        * apply elem_of_list_In, elem_of_lookup_imap. exists p, x. split; [reflexivity | exact Hx].
        * apply elem_of_list_In, elem_of_app. right. rewrite Hc. apply elem_of_list_singleton. reflexivity.
  Qed.

  Lemma Pinned_list m o : Pinned P m o <-> Reach (all_succ m) (fun r => r ∈ pin_roots m) o.
  Proof. split; apply Reach_mono; intros r; apply pin_roots_spec. Qed.

  (** under [SInv] every stored handle, program handle and member of the dying set is an index of
      the heap *)
  Lemma hloc_bound b E W m h c t : SInv K b E W m -> hloc m h c t -> t < length (heap m).
  Proof.
    intros HI Hl. destruct (sv_loc _ _ _ _ _ HI _ _ _ Hl) as (xt & Hxt & _). eapply lookup_lt_Some, Hxt.
  Qed.
  Lemma all_succ_bound b E W m p c : SInv K b E W m -> c ∈ all_succ m p -> c < length (heap m).
  Proof.
    intros HI Hc. unfold all_succ in Hc. destruct (heap m !! p) as [x|] eqn:Hx; [|inversion Hc].
    apply strong_targets_elem in Hc as [[j Hj]|Hc]; eapply (hloc_bound b E W m); eauto.
    - eapply HL_field; eauto.
    - eapply HL_clean; eauto.
  Qed.
  Lemma prog_roots_bound b E W m r : SInv K b E W m -> r ∈ prog_roots m -> r < length (heap m).
  Proof.
    intros HI Hr. unfold prog_roots in Hr. rewrite !elem_of_app in Hr. destruct Hr as [Hr|[Hr|Hr]].
    - apply elem_of_list_omap in Hr as (a & Ha & ->). apply elem_of_list_lookup in Ha as [i Hi].
      eapply (hloc_bound b E W m), HL_slot, Hi. exact HI.
    - eapply (hloc_bound b E W m), HL_bag, Hr. exact HI.
    - apply elem_of_list_In, in_concat in Hr as (l & Hl & Hr). apply elem_of_list_In, elem_of_list_omap in Hl as (v & _ & Hv).
      destruct v as [o|]; [|discriminate]. injection Hv as <-.
      eapply all_succ_bound; [exact HI | apply elem_of_list_In, Hr].
  Qed.
  Lemma pin_roots_bound b E W m r : SInv K b E W m -> r ∈ pin_roots m -> r < length (heap m).
  Proof.
    intros HI Hr. apply pin_roots_spec in Hr. destruct Hr as [p x j t Hx Hj _|p x t Hx Hc|t Hd].
    - eapply (hloc_bound b E W m); [exact HI | eapply HL_field; eauto].
    - eapply (hloc_bound b E W m); [exact HI | eapply HL_clean; eauto].
    - destruct (sv_dead _ _ _ _ _ HI t) as [xt Hxt]; [apply mem_id_elem, Hd | eapply lookup_lt_Some, Hxt].
  Qed.

  Lemma ProgReach_dec b E W m o : SInv K b E W m -> {ProgReach m o} + {~ ProgReach m o}.
  Proof.
    intros HI. apply (QuietReach_dec (all_succ m) (length (heap m))).
    - intros p c. apply (all_succ_bound b E W m p c HI).
    - intros r. apply (prog_roots_bound b E W m r HI).
  Qed.
  Lemma Pinned_dec b E W m o : SInv K b E W m -> {Pinned P m o} + {~ Pinned P m o}.
  Proof.
    intros HI. destruct (QuietReach_dec (all_succ m) (length (heap m)) (pin_roots m) o) as [H|H].
    - intros p c. apply (all_succ_bound b E W m p c HI).
    - intros r. apply (pin_roots_bound b E W m r HI).
    - left. apply Pinned_list, H.
    - right. intros H'. apply H, Pinned_list, H'.
  Qed.

  (** the relations, as booleans (for examples) *)
  Definition prog_reach_b m o : bool :=
    mem_nat o (closure (all_succ m) (S (length (heap m))) (add_new (prog_roots m) [])).
  Definition pinned_b m o : bool :=
    mem_nat o (closure (all_succ m) (S (length (heap m))) (add_new (pin_roots m) [])).
  Lemma prog_reach_b_spec b E W m o : SInv K b E W m -> prog_reach_b m o = true <-> ProgReach m o.
  Proof.
    intros HI. apply QuietClosure_iff.
    - intros p c. apply (all_succ_bound b E W m p c HI).
    - intros r. apply (prog_roots_bound b E W m r HI).
  Qed.
  Lemma pinned_b_spec b E W m o : SInv K b E W m -> pinned_b m o = true <-> Pinned P m o.
  Proof.
    intros HI. rewrite Pinned_list. apply QuietClosure_iff.
    - intros p c. apply (all_succ_bound b E W m p c HI).
    - intros r. apply (pin_roots_bound b E W m r HI).
  Qed.

  (** the positive form of [C02_quiet_pass] *)
  Theorem quiet_pass_pos m m0 m' L :
    SInv K true [] [] m -> BufBase.Ibuf K [] m -> Cover P m ->
    heap m0 = heap m -> pc m0 = pc m -> pc_size m0 = pc_size m ->
    trace_pass K P m0 = (m', PDone L) ->
    forall v x, get m v = Some x -> o_box x = BAlloc -> o_vst x = VLive ->
      v ∈ dead m \/ ProgReach m v \/ Pinned P m v \/ v ∈ L.
  Proof.
    intros HI HB HC Hh Hp Hs Hr v x Hx Hb Hv.
    destruct (decide (v ∈ dead m)) as [|Hd]; [auto|].
    destruct (ProgReach_dec true [] [] m v HI) as [|Hnr]; [auto|].
    destruct (Pinned_dec true [] [] m v HI) as [|Hnp]; [auto|].
    right; right; right. eapply (quiet_pass_gen K P m m0 m' L); eauto.
  Qed.

  Lemma obj_sim_sym x y : Pass.obj_sim x y -> Pass.obj_sim y x.
  Proof.
    intros (t & k & ->). exists (h_tc (o_hdr x)), (h_mark (o_hdr x)). destruct x as [[] ?]. reflexivity.
  Qed.
  Lemma gsim_sym m m' : gsim m m' -> gsim m' m.
  Proof.
    intros (H & H1 & H2 & H3 & H4). split; [|auto].
    apply Forall2_flip. eapply Forall2_impl; [exact H|]. intros x y. apply obj_sim_sym.
  Qed.

  (** the positive form of [C02_quiet]: after a quiet [collect_cycles()] every allocated live
      object is in the dying set (abandoned by an earlier panic), program-reachable or pinned *)
  Theorem C02_quiet_pos n m m1 :
    SInv K true [] [] m -> BufBase.Ibuf K [] m -> Cover P m -> MapsOwned m ->
    st_collecting m = false ->
    run K P n KCollectCycles m = (m1, ONormal) -> quiet m m1 ->
    forall o x, get m1 o = Some x -> o_box x = BAlloc -> o_vst x = VLive ->
      o ∈ dead m1 \/ ProgReach m1 o \/ Pinned P m1 o.
  Proof.
    intros HI HB HC HMO Hc Hrun Hq o x Hx Hb Hv.
    destruct (C02_quiet K P n m m1 HI HB HC HMO Hc Hrun Hq) as (Hno & Hg & _).
    destruct (decide (o ∈ dead m1)) as [|Hd]; [auto|].
    destruct (ProgReach_dec true [] [] m o HI) as [Hr|Hnr]; [right; left; eapply gsim_ProgReach; eauto|].
    destruct (Pinned_dec true [] [] m o HI) as [Hp|Hnp]; [right; right; eapply gsim_Pinned; eauto|].
    exfalso. apply (Hno o x Hx Hb Hv Hd).
    - intros H. apply Hnr. eapply gsim_ProgReach; [apply gsim_sym, Hg | exact H].
    - intros H. apply Hnp. eapply gsim_Pinned; [apply gsim_sym, Hg | exact H].
  Qed.

  (** in particular the coverage invariant holds again (with an empty middle disjunct) *)
  Corollary C02_quiet_cover n m m1 :
    SInv K true [] [] m -> BufBase.Ibuf K [] m -> Cover P m -> MapsOwned m ->
    st_collecting m = false ->
    run K P n KCollectCycles m = (m1, ONormal) -> quiet m m1 -> Cover P m1.
  Proof.
    intros HI HB HC HMO Hc Hrun Hq o x Hx Hb Hv.
    destruct (C02_quiet_pos n m m1 HI HB HC HMO Hc Hrun Hq o x Hx Hb Hv) as [?|[?|?]]; auto.
  Qed.

  (** [MapsOwned], as a boolean *)
  Definition maps_owned_b m : bool :=
    forallb (fun x => negb (o_ismap x) || negb (h_rc (o_hdr x) =? 0)%N) (heap m).
  Lemma maps_owned_sound m : maps_owned_b m = true -> MapsOwned m.
  Proof.
    unfold maps_owned_b. rewrite forallb_forall. intros H o x Hx Em _ _ Hz.
    specialize (H x). rewrite Em, Hz in H. cbn in H. discriminate H.
    apply elem_of_list_In. eapply elem_of_list_lookup_2, Hx.
  Qed.
End Decide.

(** ** Program level *)
Section Prog.
  Context (K : conf) (P : prog).

  Lemma clean_no_fuel_out m : clean m = true -> ~ Flags4.fuel_out m.
  Proof.
    unfold clean, Flags4.fuel_out. rewrite forallb_forall. intros H Hin. specialize (H _ Hin). discriminate H.
  Qed.

  (** C02 for the states a program reaches, with the history half -- [Cover] and [MapsOwned] at
      the state where the collection starts -- as hypotheses *)
  Theorem C02_quiet_prog fuel cmds n m1 :
    (k_clean K = true -> k_weak K = true) -> wf_prog P = true ->
    let m := fold_left (fun m c => exec_top K P fuel c m) cmds (init K) in
    clean m = true -> no_panic_yet m = true ->
    Cover P m -> MapsOwned m ->
    run K P n KCollectCycles m = (m1, ONormal) -> quiet m m1 ->
    (forall o x, get m1 o = Some x -> o_box x = BAlloc -> o_vst x = VLive ->
       o ∈ dead m1 \/ ProgReach m1 o \/ Pinned P m1 o) /\
    gsim m m1 /\ pc m1 = [] /\ st_alloc m1 = BufBase.bytes K m1.
  Proof.
    intros Hconf Hwf m Hcl Hnp HC HMO Hrun Hq.
    destruct (SafeFinal.safe_programs_sinv K P fuel cmds Hconf Hwf Hcl) as (b & _ & HI & Hb & HB).
    fold m in HI, Hb, HB. rewrite (Hb Hnp) in HI.
    destruct (Flags4.C07_idle K P fuel cmds (clean_no_fuel_out _ Hcl)) as (Hc & _). fold m in Hc.
    split; [intros o x; apply (C02_quiet_pos K P n m m1 HI HB HC HMO Hc Hrun Hq o x)|].
    apply (C02_quiet K P n m m1 HI HB HC HMO Hc Hrun Hq).
  Qed.

  (** allocated_bytes() is the total size of the allocations that exist, in every state of every
      program (no hypothesis on the history other than: no model-detected misbehaviour, which
      [SafeFinal.safe_programs_no_bad] excludes for well-formed programs) *)
  Theorem C02_bytes fuel cmds :
    let m := fold_left (fun m c => exec_top K P fuel c m) cmds (init K) in
    Buf.clean m -> st_alloc m = BufBase.bytes K m.
  Proof. intros m C. apply (Buf.Ibuf_spec K [] m (Buf.prog_buf K P fuel cmds C)). Qed.
End Prog.

(** ** [Pinned] versus the checker's [pin_targets]: they coincide when boxes that are not
    allocated (freed, never allocated) hold no handle, except the values moved out by
    try_unwrap, whose handles are program roots *)
Section Strict.
  Context (P : prog).
  Implicit Types (m : machine) (o p t : id) (x : obj).

  Definition NoStale m : Prop :=
    forall p x, get m p = Some x -> o_box x <> BAlloc ->
      strong_targets x = [] \/ exists v, values m !! v = Some (Some p).

  (** the checker's pinned closure, propositionally *)
  Definition PinnedS m o : Prop := Reach (all_succ m) (fun r => r ∈ pin_targets P m ++ dead m) o.

  Lemma PinnedS_Pinned m o : PinnedS m o -> Pinned P m o.
  Proof.
    intros H. apply Reach_trans. revert H. apply Reach_mono. intros r Hr.
    apply elem_of_app in Hr as [Hr|Hr]; [apply pin_targets_Pinned, Hr | apply Reach_root, PR_dead, Hr].
  Qed.

  Lemma unreported_field m p x j t :
    o_fields x !! j = Some (Some t) -> ~ reported P x j -> o_box x = BAlloc -> t ∈ unreported P m p x.
  Proof.
    intros Hj Hn Hb.
    assert (Hst : t ∈ strong_targets x) by (apply strong_targets_elem; eauto).
    unfold unreported. destruct (o_ismap x) eqn:Em; [exact Hst|].
    destruct (o_vst x) eqn:Ev; try exact Hst. destruct (o_borrowed x) eqn:Ebo; [exact Hst|].
    apply elem_of_app. left. apply elem_of_list_omap. exists (Some t, false). split; [|reflexivity].
    apply elem_of_list_lookup. exists j. apply lookup_zip_with_Some. exists (Some t), j.
    split; [|split; [exact Hj | apply lookup_seq; split; [reflexivity | eapply lookup_lt_Some, Hj]]].
    f_equal. fold (class_of P (o_cls x)).
    destruct (c_traced (class_of P (o_cls x)) !! j) as [[|]|] eqn:Et; try reflexivity.
    exfalso. apply Hn. repeat split; assumption.
  Qed.
  Lemma unreported_cleaner m p x t : o_cleaner x = Some t -> t ∈ unreported P m p x.
  Proof.
    intros Hc.
    assert (Hst : t ∈ strong_targets x) by (apply strong_targets_elem; eauto).
    unfold unreported. destruct (o_ismap x); [exact Hst|]. destruct (o_vst x); try exact Hst.
    destruct (o_borrowed x); [exact Hst|]. apply elem_of_app. right. rewrite Hc. apply elem_of_list_singleton. reflexivity.
  Qed.
  Lemma pin_targets_intro m p x t : get m p = Some x -> o_box x = BAlloc -> t ∈ unreported P m p x -> t ∈ pin_targets P m.
  Proof.
    intros Hx Hb Ht. unfold pin_targets. apply elem_of_list_In, in_concat. eexists. split.
    - apply elem_of_list_In, elem_of_lookup_imap. exists p, x. split; [reflexivity | exact Hx].
    - rewrite Hb. apply elem_of_list_In, elem_of_app. left. exact Ht.
  Qed.
  Lemma stale_prog_root m p x t :
    NoStale m -> get m p = Some x -> o_box x <> BAlloc -> t ∈ strong_targets x -> t ∈ prog_roots m.
  Proof.
    intros HN Hx Hb Ht. destruct (HN p x Hx Hb) as [Hnil|[v Hv]]; [rewrite Hnil in Ht; inversion Ht|].
    unfold prog_roots. rewrite !elem_of_app. right; right. apply elem_of_list_In, in_concat.
    exists (all_succ m p). split; [|apply elem_of_list_In; rewrite (all_succ_get m p x Hx); exact Ht].
    apply elem_of_list_In, elem_of_list_omap. exists (Some p). split; [eapply elem_of_list_lookup_2, Hv | reflexivity].
  Qed.

  Theorem Pinned_strict m o : NoStale m -> Pinned P m o -> ProgReach m o \/ PinnedS m o.
  Proof.
    intros HN. induction 1 as [r Hr|p c _ IH Hc].
    - destruct Hr as [p x j t Hx Hj Hn|p x t Hx Hc|t Hd].
      + destruct (o_box x) eqn:Eb.
        * left. apply Reach_root. eapply stale_prog_root; eauto; [congruence | apply strong_targets_elem; eauto].
        * right. apply Reach_root, elem_of_app. left. eapply pin_targets_intro; eauto. eapply unreported_field; eauto.
        * left. apply Reach_root. eapply stale_prog_root; eauto; [congruence | apply strong_targets_elem; eauto].
      + destruct (o_box x) eqn:Eb.
        * left. apply Reach_root. eapply stale_prog_root; eauto; [congruence | apply strong_targets_elem; eauto].
        * right. apply Reach_root, elem_of_app. left. eapply pin_targets_intro; eauto. eapply unreported_cleaner; eauto.
        * left. apply Reach_root. eapply stale_prog_root; eauto; [congruence | apply strong_targets_elem; eauto].
      + right. apply Reach_root, elem_of_app. right. exact Hd.
    - destruct IH as [IH|IH]; [left | right]; eapply Reach_step; eauto.
  Qed.

  (** [NoStale], as a boolean *)
  Definition no_stale_b m : bool :=
    forallb (fun '(p, x) =>
      match o_box x with
      | BAlloc => true
      | _ => match strong_targets x with [] => true | _ => existsb (fun v => match v with Some q => Nat.eqb q p | None => false end) (values m) end
      end) (imap (fun p x => (p, x)) (heap m)).
  Lemma no_stale_sound m : no_stale_b m = true -> NoStale m.
  Proof.
    unfold no_stale_b. rewrite forallb_forall. intros H p x Hx Hb. specialize (H (p, x)). cbv beta iota in H.
    assert (Hin : In (p, x) (imap (fun p x => (p, x)) (heap m))) by (apply elem_of_list_In, elem_of_lookup_imap; eauto).
    specialize (H Hin). destruct (o_box x); try congruence.
    - destruct (strong_targets x); [auto|]. right. apply existsb_exists in H as ([q|] & Hq & He); [|discriminate].
      apply Nat.eqb_eq in He. subst q. apply elem_of_list_In, elem_of_list_lookup in Hq. exact Hq.
    - destruct (strong_targets x); [auto|]. right. apply existsb_exists in H as ([q|] & Hq & He); [|discriminate].
      apply Nat.eqb_eq in He. subst q. apply elem_of_list_In, elem_of_list_lookup in Hq. exact Hq.
  Qed.
End Strict.
