(** * CleanWalkChk: the decidable facts of the count / no-dangling layer that the walk of
    CleanWalkStep*.v uses at the entry of an activation ([chkW] = [chkU] + "the targets of
    [Cc::drop], of a drop list, of [try_unwrap] and of a moved-out value have had a box"); they
    hold at the entry of every activation of a safe run ([chkW_ok]) and do not read the ghost
    [dead] ([chkW_dl]): the hypotheses of [Life.mrun_ind] / [Life.mfold_eq]. *)
From Coq Require Import NArith Bool List Lia.
From stdpp Require Import base list option.
From RecordUpdate Require Import RecordSet.
From RC Require Import Hdr Machine RunInd.
From RC Require Import Inv InvP SafeHelpers SafeMain SafeColl SafeCollPass SafeFinal.
From RC Require Import LifeGhost.
From RC Require Import Clean CleanFrame CleanStep CleanStep2 CleanThm CleanU CleanUStep CleanUChk.
From RC Require Import CleanWalk CleanWalkRel.
Import ListNotations RecordSetNotations.

(** the value [o] never got a box *)
Definition nyb (m : machine) (o : id) : bool :=
  match get m o with
  | Some x => match o_box x with BNotYet => true | _ => false end
  | None => false
  end.
Definition oboxed (m : machine) (f : option id) : bool :=
  match f with Some t => negb (nyb m t) | None => true end.
Definition refs_boxed (m : machine) : bool :=
  forallb (oboxed m) (slots m) && forallb (fun x => forallb (oboxed m) (o_fields x)) (heap m).

Definition chkX (c : call) (m : machine) : bool :=
  match c with
  | KDropCc o => negb (nyb m o)
  | KDropList L rest d => forallb (fun g => negb (nyb m g)) (L ++ rest)
  | KCmd self (CDropValue v) =>
    match mjoin (values m !! v) with Some o => negb (nyb m o) | None => true end
  | KCmd self (CTryUnwrap l v) => refs_boxed m
  | _ => true
  end.
Definition chkW (K : conf) (P : prog) (c : call) (m : machine) : bool := chkU K P c m && chkX c m.

Lemma nyb_spec m o : nyb m o = false -> forall w, zv m !! o = Some w -> z_box w <> BNotYet.
Proof.
  unfold nyb. intros H w Hw. destruct (zv_lookup_inv _ _ _ Hw) as (x & Hx & ->). rewrite Hx in H.
  intros Hb. cbn in Hb. rewrite Hb in H. discriminate.
Qed.

Lemma chkX_dl c s m : chkX c (dl s m) = chkX c m.
Proof. destruct c as [self cm| | | | | | | | | | | | | | |]; try reflexivity. Qed.
Lemma chkW_dl K P c s m : chkW K P c (dl s m) = chkW K P c m.
Proof. unfold chkW. rewrite chkU_dl, chkX_dl. reflexivity. Qed.

Lemma nyb_alloc m o x : get m o = Some x -> o_box x <> BNotYet -> negb (nyb m o) = true.
Proof. unfold nyb. intros -> H. destruct (o_box x); [exfalso; apply H|..]; reflexivity. Qed.

Section Ok.
  Context (K : conf) (P : prog).

  Lemma chkX_ok b E c m : InvP.Pre K (PreC K) b E c m -> chkX c m = true.
  Proof.
    intros Hpre. destruct c as [self cm| | |o| | | | | | | | | |L rest d| |]; try reflexivity.
    - destruct cm; try reflexivity; cbn [chkX].
      + (* try_unwrap *)
        destruct Hpre as (_ & HS & _). cbn [own_of app] in HS.
        unfold refs_boxed. apply andb_true_iff. split.
        * apply forallb_forall. intros [t|] Hin; [|reflexivity]. cbn.
          apply elem_of_list_In, elem_of_list_lookup in Hin. destruct Hin as (i & Hi).
          destruct (sv_loc K _ _ _ _ HS None false t (HL_slot m i t Hi)) as (xt & Hxt & Hb & _).
          apply (nyb_alloc _ _ _ Hxt). congruence.
        * apply forallb_forall. intros x Hin.
          apply elem_of_list_In, elem_of_list_lookup in Hin. destruct Hin as (p & Hp).
          apply forallb_forall. intros [t|] Hin; [|reflexivity]. cbn.
          apply elem_of_list_In, elem_of_list_lookup in Hin. destruct Hin as (j & Hj).
          destruct (sv_loc K _ _ _ _ HS (Some p) false t (HL_field m p x j t Hp Hj)) as (xt & Hxt & Hb & _).
          apply (nyb_alloc _ _ _ Hxt). congruence.
      + (* a moved-out value *)
        destruct (mjoin (values m !! v)) as [o|] eqn:Ev; [|reflexivity].
        destruct Hpre as (_ & HS & _). cbn [own_of app] in HS.
        assert (Hv : values m !! v = Some (Some o)).
        { destruct (values m !! v) as [[o'|]|]; cbn in Ev; congruence. }
        destruct (sv_values K _ _ _ _ HS v o Hv) as ((x & Hx & Hb & _) & _).
        apply (nyb_alloc _ _ _ Hx). congruence.
    - cbn [chkX]. destruct Hpre as (_ & HS & _). cbn [own_of app] in HS.
      destruct (sv_E K _ _ _ _ HS o) as (xt & Hxt & Eb); [left|].
      apply (nyb_alloc _ _ _ Hxt). congruence.
    - cbn [chkX]. destruct Hpre as (_ & _ & (dn & HL) & HM & _).
      apply forallb_forall. intros g Hin. apply elem_of_list_In in Hin.
      assert (Hin' : g ∈ L).
      { apply elem_of_app in Hin as [Hin|Hin]; [exact Hin|]. rewrite HL. apply elem_of_app. right. exact Hin. }
      clear Hin. rename Hin' into Hin.
      destruct (HM g Hin) as (_ & _ & x & Hx & Hb & _). apply (nyb_alloc _ _ _ Hx). congruence.
  Qed.

  Theorem chkW_ok b E A c m : InvP.Pre K (PreC K) b E c m -> Q K A c m -> chkW K P c m = true.
  Proof.
    intros Hpre HQ. unfold chkW. apply andb_true_iff. split.
    - exact (chkU_ok K P b E A c m Hpre HQ).
    - exact (chkX_ok b E c m Hpre).
  Qed.
End Ok.
