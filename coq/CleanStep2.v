(** * CleanStep2: the activations that touch cleaner maps ([step_clean_run],
    [step_drop_map_slots], [step_drop_value], [cmd_register], [cmd_clean]), the dispatchers and
    the instance of [RunInd.run_ind]. *)
From Coq Require Import NArith Bool List Lia.
From stdpp Require Import base list option.
From RecordUpdate Require Import RecordSet.
From RC Require Import Hdr Machine RunInd Clean CleanFrame CleanStep.
Import ListNotations RecordSetNotations.

Lemma res_eta' v0 x : res v0 x -> res v0 (x.1, x.2).
Proof. destruct x; auto. Qed.

Lemma DMS_step o j v v1 v2 v3 :
  RelW v v1 -> (forall a s, slotv (cv_h v1) o j <> Some (MAction a s)) ->
  RelW v1 v2 -> mono v2 v3 -> DMS o (S j) v2 v3 -> DMS o j v v3.
Proof.
  intros (_ & (N1 & _) & K21) Hn (_ & (N2 & _) & K22) (N3 & _) HD k a s H3.
  destruct (HD k a s H3) as [[Hk H2]|Hge]; [|right; lia].
  destruct (K22 o k a s H2) as [H1|Hge]; [|right; lia].
  destruct (decide (k = j)) as [->|Hne]; [exfalso; exact (Hn a s H1)|].
  destruct (K21 o k a s H1) as [H0|Hge]; [|right; lia].
  left. split; [lia|exact H0].
Qed.

Lemma DMS_end o j v : (forall k a s, slotv (cv_h v) o k = Some (MAction a s) -> k < j) -> DMS o j v v.
Proof. intros H k a s Hs. left. split; [eapply H, Hs|exact Hs]. Qed.

Section Steps2.
  Context (K : conf) (P : prog).
  Context (rec : call -> machine -> machine * outcome).
  Context (Hrec : rec_ok Pre Post rec).
  Implicit Types (m : machine).

  Definition PostX (c : call) (m : machine) (x : machine * outcome) : Prop := Post c m x.1 x.2.

  (** *** an action runs: its execution is logged first *)
  Lemma f_step_clean_run mo aid s m :
    Pre (KCleanRun mo aid s) m -> PostX (KCleanRun mo aid s) m (step_clean_run K P rec mo aid s m).
  Proof.
    intros (HI & Hns & Hnx & Hlt). unfold PostX, step_clean_run.
    set (m1 := emit (ECb KAction aid (cur_flags K m)) m).
    assert (H1 : Rel (cv m) (cv m1))
      by (unfold m1; rewrite cv_emit_action; apply Rel_exec'; assumption).
    assert (X1 : aid ∈ cv_x (cv m1)) by (unfold m1; rewrite cv_emit_action; cbn; left).
    clearbody m1.
    pose proof (cv_tick KAction m1) as E2.
    destruct (tick KAction m1) as [m2 boom]. cbn [fst] in E2.
    destruct boom.
    - split; cbn [fst snd].
      + apply res_raise. rewrite E2. exact H1.
      + intros _. rewrite E2. exact X1.
    - assert (HP : Pre (KScript None (script_of P s)) m2)
        by (split; [rewrite E2; eapply Rel_CIv, H1 | exact I]).
      pose proof (rec_post rec Hrec _ _ HP) as [HR _].
      destruct (rec (KScript None (script_of P s)) m2) as [m3 r3]. cbn [fst snd] in *.
      split.
      + eapply res_trans; [|exact HR]. rewrite E2. exact H1.
      + intros _. apply res_RelW in HR. cbn [fst] in HR. destruct HR as (_ & (_ & Hx & _) & _).
        apply Hx. rewrite E2. exact X1.
  Qed.

  (** *** the SlotMap's drop: every slot from [j] on is vacated and its action run, also while
      unwinding *)
  Lemma f_step_drop_map_slots o j m :
    Pre (KDropMapSlots o j) m -> PostX (KDropMapSlots o j) m (step_drop_map_slots rec o j m).
  Proof.
    intros [HI _]. unfold PostX, step_drop_map_slots.
    destruct (get m o) as [x|] eqn:Ex.
    2: { split; cbn [fst snd].
         - apply res_intro. cvs. apply Rel_refl, HI.
         - intros _. cvs. apply (DMS_end o j). intros k a s Hs. rewrite slotv_cv in Hs.
           unfold slot_at in Hs. unfold get in Ex. unfold Machine.id in *. rewrite Ex in Hs.
           discriminate. }
    destruct (o_mslots x !! j) as [sl|] eqn:Esl.
    2: { split; cbn [fst snd].
         - apply res_intro, Rel_refl, HI.
         - intros _. apply (DMS_end o j). intros k a s Hs. rewrite slotv_cv in Hs.
           unfold slot_at in Hs. unfold get in Ex. unfold Machine.id in *. rewrite Ex in Hs.
           apply lookup_lt_Some in Hs. apply lookup_ge_None_1 in Esl. lia. }
    cbv zeta.
    set (m1 := upd o (fun x => x <| o_mslots ::= <[j := MVacant]> |>) m).
    assert (E1 : cv m1 = CV (alter (vacate j) o (cv_h (cv m))) (cv_n (cv m)) (cv_x (cv m)))
      by (apply cv_upd_alter; reflexivity).
    assert (HV : vacated o j (view_obj x) (cv m) (cv m1)).
    { rewrite E1. exact (vacate_all (vacate j) (cv m) o j (view_obj x) HI (cv_h_lookup _ _ _ Ex)
                           eq_refl eq_refl eq_refl (or_introl eq_refl)). }
    destruct HV as (HW & HK & En1 & Hn & Hpre).
    clearbody m1.
    assert (Hsl0 : slotv (cv_h (cv m)) o j = Some sl)
      by (rewrite (slotv_eq _ _ _ _ (cv_h_lookup _ _ _ Ex)); exact Esl).
    set (X := match sl with
              | MVacant => (m1, ONormal)
              | MAction aid script => rec (KCleanRun o aid script) m1
              end).
    assert (HX : res (cv m) X /\ RelW (cv m1) (cv X.1)).
    { unfold X. destruct sl as [|aid script].
      - split; [|cbn [fst]; apply Rel_RelW, Rel_refl, (RelW_CIv _ _ HW)].
        apply res_intro. eapply Rel_vacate_none; [exact HW|exact HK|exact En1|].
        intros a s. rewrite Hsl0. discriminate.
      - assert (HP : Pre (KCleanRun o aid script) m1)
          by (split; [exact (RelW_CIv _ _ HW) | apply (Hpre aid script), Esl]).
        pose proof (rec_post rec Hrec _ _ HP) as [HR Hx].
        destruct (rec (KCleanRun o aid script) m1) as [m2 r2]. cbn [fst snd] in *.
        split; [|exact (res_RelW _ _ HR)].
        destruct r2; unfold res in *; cbn [fst snd] in *;
          first [ (eapply Rel_vacate_run; [exact HW|exact HK|exact En1|exact Hsl0|exact HR|apply Hx; discriminate])
                | (eapply RelW_trans; [exact HW|exact HR]) ]. }
    clearbody X. destruct X as [m2 r2]. destruct HX as [HX HW2]. cbn [fst] in HW2.
    destruct r2; unfold res in HX; cbn [fst snd] in HX.
    - (* normal: go on with the next slot *)
      assert (HP : Pre (KDropMapSlots o (S j)) m2) by (split; [eapply Rel_CIv, HX|exact I]).
      pose proof (rec_post rec Hrec _ _ HP) as [HR HD].
      destruct (rec (KDropMapSlots o (S j)) m2) as [m3 r3]. cbn [fst snd] in *.
      split; [eapply res_trans; [exact HX|exact HR]|].
      intros Hno. apply (DMS_step o j _ (cv m1) (cv m2)); auto.
      apply res_RelW in HR. exact (proj1 (proj2 HR)).
    - (* the action panicked: the remaining slots are dropped while unwinding *)
      unfold unwinding.
      assert (E2 : cv (m2 <| panicking := true |>) = cv m2) by (cvs; reflexivity).
      assert (HP : Pre (KDropMapSlots o (S j)) (m2 <| panicking := true |>))
        by (split; [rewrite E2; eapply Rel_CIv, HX|exact I]).
      pose proof (rec_post rec Hrec _ _ HP) as [HR HD]. rewrite E2 in HR, HD.
      destruct (rec (KDropMapSlots o (S j)) (m2 <| panicking := true |>)) as [m3 r3].
      cbn [fst snd] in *.
      split.
      + eapply res_trans; [exact HX|]. unfold res in *. cbn [fst snd] in *. cvs.
        destruct r3, (panicking m2); auto using Rel_RelW.
      + intros Hno. cvs. apply (DMS_step o j _ (cv m1) (cv m2)); auto.
        * apply res_RelW in HR. exact (proj1 (proj2 HR)).
        * apply HD. destruct r3, (panicking m2), Hno as [Hno|Hno]; try discriminate;
            first [left; reflexivity|right; reflexivity].
    - split; cbn [fst snd]; [apply res_intro, HX|]. intros [Hno|Hno]; discriminate.
    - split; cbn [fst snd]; [exact HX|]. intros [Hno|Hno]; discriminate.
  Qed.

  (** *** dropping a value: for a map, all its slots *)
  Lemma f_step_drop_value_gen o : gen_ok (step_drop_value K P rec o).
  Proof. intros v0 m H. unfold step_drop_value. go. Qed.

  Lemma f_step_drop_value o m :
    Pre (KDropValue o) m -> PostX (KDropValue o) m (step_drop_value K P rec o m).
  Proof.
    intros [HI _]. unfold PostX. split.
    - apply res_eta', f_step_drop_value_gen, Rel_refl, HI.
    - intros Hno x Ex Hmap Hvst. unfold step_drop_value in *. rewrite Ex in *.
      set (m1 := upd o (fun x => x <| o_vst := VDropping |>) m) in *.
      assert (E1 : cv m1 = cv m) by (unfold m1; cvs; reflexivity). clearbody m1.
      assert (HP : Pre (KDropMapSlots o 0) m1) by (split; [rewrite E1; exact HI|exact I]).
      pose proof (rec_post rec Hrec _ _ HP) as [_ HD]. rewrite E1 in HD.
      destruct Hvst as [Ev|Ev]; rewrite Ev in *; rewrite Hmap in *;
        destruct (rec (KDropMapSlots o 0) m1) as [m2 r2]; cbn [fst snd] in *; cvs; auto.
  Qed.

  (** *** Cleaner::register *)
  Lemma rel_map_insert v0 m mo mx s :
    Rel v0 (cv m) -> get m mo = Some mx -> o_ismap mx = true ->
    (length (cv_h v0) <= mo \/ ~ unlinked (cv_h (cv m)) mo) ->
    Rel v0 (cv (map_insert mo (next_aid m) s (m <| next_aid := S (next_aid m) |>)).1).
  Proof.
    intros H Emx Hmap Hlinked. unfold map_insert.
    change (get (m <| next_aid := S (next_aid m) |>) mo) with (get m mo). rewrite Emx.
    pose proof (cv_h_lookup _ _ _ Emx) as Hl.
    assert (En : cv (m <| next_aid := S (next_aid m) |>)
                 = CV (cv_h (cv m)) (S (cv_n (cv m))) (cv_x (cv m))) by reflexivity.
    destruct (o_mfree mx) as [|i fr] eqn:Efr; cbn [fst].
    - rewrite (cv_upd_alter _ (ins_app (next_aid m) s)) by reflexivity. rewrite En.
      cbn [cv_h cv_n cv_x]. apply (Rel_ins_app' v0 (cv m) mo s (view_obj mx)); auto.
    - rewrite (cv_upd_alter _ (ins_free i (next_aid m) s fr)) by reflexivity. rewrite En.
      cbn [cv_h cv_n cv_x]. apply (Rel_ins_free' v0 (cv m) mo i fr s (view_obj mx)); auto.
  Qed.

  Definition is_mapv (m : machine) (mo : id) : Prop :=
    exists w, cv_h (cv m) !! mo = Some w /\ v_ismap w = true.

  Lemma is_mapv_mono m m' mo : mono (cv m) (cv m') -> is_mapv m mo -> is_mapv m' mo.
  Proof.
    intros (_ & _ & Hm & _) (w & Hw & Ew). destruct (Hm mo w Hw) as (w' & Hw' & Ew').
    exists w'. split; [exact Hw'|congruence].
  Qed.
  Lemma is_mapv_cv m m' mo : cv m' = cv m -> is_mapv m mo -> is_mapv m' mo.
  Proof. unfold is_mapv. intros ->. auto. Qed.
  Lemma is_mapv_get m mo mx : is_mapv m mo -> get m mo = Some mx -> o_ismap mx = true.
  Proof.
    intros (w & Hw & Ew) Emx. rewrite (cv_h_lookup _ _ _ Emx) in Hw. injection Hw as <-. exact Ew.
  Qed.

  (** everything after the map has been found or created *)
  Definition linked (m : machine) (mo : id) : Prop :=
    exists y, cleaner_at (cv_h (cv m)) y = Some mo.
  Lemma linked_not_unlinked m mo : linked m mo -> ~ unlinked (cv_h (cv m)) mo.
  Proof. intros (y & Hy) Hu. exact (Hu y Hy). Qed.

  Ltac reg_tail Hmap Hlinked :=
    lazymatch goal with
    | |- res _ (match get ?M ?mo with _ => _ end) =>
      let mx := fresh "mx" in let Emx := fresh "Emx" in
      destruct (get M mo) as [mx|] eqn:Emx; [|go];
      destruct (o_mborrowed mx); [go|]; cbv zeta;
      let Hins := fresh "Hins" in
      lazymatch goal with
      | |- context [map_insert mo (next_aid M) ?s _] =>
        eassert (Hins : Rel _ (cv (map_insert mo (next_aid M) s
                                     (M <| next_aid := S (next_aid M) |>)).1))
          by (eapply rel_map_insert; [eassumption | exact Emx | exact (is_mapv_get _ _ _ Hmap Emx)
                                      | exact Hlinked]);
        destruct (map_insert mo (next_aid M) s (M <| next_aid := S (next_aid M) |>))
          as [? ?]; cbn [fst] in Hins; go
      end
    end.

  Lemma f_cmd_register self nd script c : gen_ok (cmd_register K P rec self nd script c).
  Proof.
    intros v0 m H. unfold cmd_register.
    destruct (negb (k_clean K)); [go|].
    adv1. destruct y as [o|]; [|go]. destruct (cslots m0 !! c) as [cs|]; [|go].
    destruct (get m0 o) as [x|] eqn:Ex; [|go].
    destruct (negb (c_cleaner (class_of P (o_cls x))) || o_ismap x); [go|].
    destruct (o_cleaner x) as [mo|] eqn:Ecl.
    - (* the owner already has a map *)
      assert (Hmap : is_mapv m0 mo).
      { destruct (ci_obj _ (Rel_CIv _ _ Hr) o _ (cv_h_lookup _ _ _ Ex)) as [_ Hc].
        apply Hc. exact Ecl. }
      assert (Hlinked : linked m0 mo).
      { exists o. rewrite (cleaner_at_Some _ _ _ (cv_h_lookup _ _ _ Ex)). exact Ecl. }
      cbv beta iota zeta. reg_tail Hmap (or_intror (length (cv_h v0) <= mo) (linked_not_unlinked _ _ Hlinked)).
    - (* a new map *)
      cbv beta iota zeta.
      pose proof (cv_new_map m0) as En.
      assert (Hlen : length (cv_h (cv m0)) = length (heap m0))
        by (unfold cv; cbn [cv_h]; apply fmap_length).
      unfold new_map in *. cbn [fst] in En.
      set (mo := length (heap m0)) in *.
      set (m1 := m0 <| heap ::= fun h => h ++ _ |>) in *.
      assert (H01 : Rel (cv m0) (cv m1)) by (rewrite En; apply Rel_new'; eapply Rel_CIv, Hr).
      assert (H1 : Rel v0 (cv m1)) by (eapply Rel_trans; eassumption).
      assert (Hmap1 : is_mapv m1 mo).
      { exists (VObj true [] [] None). rewrite En. cbn [cv_h]. split; [|reflexivity].
        rewrite lookup_app_r by lia. replace (mo - length (cv_h (cv m0))) with 0 by lia.
        reflexivity. }
      assert (Hun1 : unlinked (cv_h (cv m1)) mo).
      { intros y Hy. rewrite En in Hy. cbn [cv_h] in Hy. rewrite cleaner_at_snoc in Hy by reflexivity.
        pose proof (cleaner_at_lt _ _ _ (Rel_CIv _ _ Hr) Hy) as Hlt. rewrite Hlen in Hlt.
        exact (Nat.lt_irrefl _ Hlt). }
      assert (Hlen1 : length (cv_h (cv m1)) = S mo)
        by (rewrite En; cbn [cv_h]; rewrite app_length, Hlen; cbn [length]; lia).
      assert (Ho1 : is_Some (cv_h (cv m1) !! o)).
      { destruct H01 as ((_ & (_ & _ & Hk & _) & _) & _).
        destruct (Hk o _ (cv_h_lookup _ _ _ Ex)) as (w' & Hw' & _). eauto. }
      assert (Hge : length (cv_h v0) <= mo).
      { destruct Hr as ((_ & (_ & _ & _ & Hl & _) & _) & _). lia. }
      clearbody m1. clearbody mo.
      assert (HT : exists m2 t, (if k_auto K then rec KTrigger m1 else (m1, ONormal)) = (m2, t) /\
                                res v0 (m2, t) /\ is_mapv m2 mo /\ unlinked (cv_h (cv m2)) mo /\
                                is_Some (cv_h (cv m2) !! o) /\ mono (cv m0) (cv m2)).
      { destruct (k_auto K).
        - assert (HP : Pre KTrigger m1) by (split; [eapply Rel_CIv, H1|exact I]).
          pose proof (rec_post rec Hrec _ _ HP) as [HR _].
          destruct (rec KTrigger m1) as [m2 t]. cbn [fst snd] in HR. exists m2, t.
          split; [reflexivity|]. split; [eapply res_trans; eassumption|].
          apply res_RelW in HR. cbn [fst] in HR. pose proof (proj1 (proj2 HR)) as Hmono.
          split; [eapply is_mapv_mono; [exact Hmono|exact Hmap1]|].
          assert (Hm02 : mono (cv m0) (cv m2))
            by (eapply mono_trans; [exact (proj1 (proj2 (Rel_RelW _ _ H01)))|exact Hmono]).
          destruct Hmono as (_ & _ & Hk & _ & HKC & _). split; [|split; [|exact Hm02]].
          + intros y Hy. destruct (HKC y mo Hy) as [Hy1|Hge1]; [exact (Hun1 y Hy1)|lia].
          + destruct Ho1 as [w Hw]. destruct (Hk o w Hw) as (w' & Hw' & _). eauto.
        - exists m1, ONormal. split; [reflexivity|]. split; [apply res_intro, H1|].
          split; [exact Hmap1|]. split; [exact Hun1|]. split; [exact Ho1|].
          exact (proj1 (proj2 (Rel_RelW _ _ H01))). }
      destruct HT as (m2 & t & -> & H2 & Hmap2 & Hun2 & Ho2 & Hm02).
      destruct t; unfold res in H2; cbn [fst snd] in H2; cbv beta iota zeta.
      + (* the Option is checked again *)
        match goal with |- context [get ?M o ≫= o_cleaner] => set (m2' := M) end.
        assert (E2' : cv m2' = cv m2) by (unfold m2'; cvs; reflexivity).
        assert (H2' : Rel v0 (cv m2')) by (rewrite E2'; exact H2).
        destruct (get m2' o ≫= o_cleaner) as [ex|] eqn:Eex.
        * (* a nested register gave the owner a map meanwhile: the spare one is dropped *)
          destruct (get m2' o) as [xo|] eqn:Exo; [cbn in Eex|discriminate].
          assert (Hcl : cleaner_at (cv_h (cv m2')) o = Some ex)
            by (rewrite (cleaner_at_Some _ _ _ (cv_h_lookup _ _ _ Exo)); exact Eex).
          assert (Hmapx : is_mapv m2' ex).
          { destruct (ci_obj _ (Rel_CIv _ _ H2') o _ (cv_h_lookup _ _ _ Exo)) as [_ Hc]. apply Hc, Eex. }
          assert (Hgex : length (cv_h v0) <= ex).
          { destruct Hm02 as (_ & _ & _ & _ & HKC & _). rewrite E2' in Hcl.
            destruct (HKC o ex Hcl) as [H0|Hge0]; [|lia].
            rewrite (cleaner_at_Some _ _ _ (cv_h_lookup _ _ _ Ex)) in H0. cbn in H0. congruence. }
          clearbody m2'.
          assert (HP : Pre (KDropCc mo) m2') by (split; [eapply Rel_CIv, H2'|exact I]).
          pose proof (rec_post rec Hrec _ _ HP) as [HR3 _].
          destruct (rec (KDropCc mo) m2') as [m3 r3]. cbn [fst snd] in HR3. cbv beta iota zeta.
          assert (Hmap3 : is_mapv m3 ex).
          { eapply is_mapv_mono; [|exact Hmapx]. apply res_RelW in HR3. exact (proj1 (proj2 HR3)). }
          pose proof (res_trans _ _ _ H2' HR3) as H3. clear HR3.
          destruct r3; unfold res in H3; cbn [fst snd] in H3; [|go..].
          reg_tail Hmap3 (or_introl (~ unlinked (cv_h (cv m3)) ex) Hgex).
        * (* link the map to its owner *)
          cbv beta iota zeta.
          match goal with |- res _ (match get ?M _ with _ => _ end) => set (m3 := M) end.
          assert (E3 : cv m3 = CV (alter (set_cl (Some mo)) o (cv_h (cv m2))) (cv_n (cv m2)) (cv_x (cv m2))).
          { unfold m3. rewrite (cv_upd_alter _ (set_cl (Some mo))) by reflexivity. rewrite E2'. reflexivity. }
          assert (H3 : Rel v0 (cv m3)) by (rewrite E3; apply Rel_link'; assumption).
          assert (Hmap3 : is_mapv m3 mo).
          { destruct Hmap2 as (w & Hw & Ew). unfold is_mapv. rewrite E3. cbn [cv_h].
            destruct (ismap_alter (set_cl (Some mo)) o _ mo w (fun _ _ => eq_refl) Hw) as (w3 & H3' & E3').
            exists w3. split; [exact H3'|congruence]. }
          assert (Hlinked3 : linked m3 mo).
          { exists o. rewrite E3. cbn [cv_h]. destruct Ho2 as [w Hw].
            unfold cleaner_at. rewrite list_lookup_alter. unfold Machine.id in *. rewrite Hw.
            reflexivity. }
          clearbody m3. clearbody m2'.
          reg_tail Hmap3 (or_intror (length (cv_h v0) <= mo) (linked_not_unlinked _ _ Hlinked3)).
      + (* the trigger panicked: the new map (a by-value argument) is dropped while unwinding *)
        pose proof (unwinding_not_normal (rec (KDropValue mo)) m2) as Hnn.
        assert (HU : res v0 (unwinding (rec (KDropValue mo)) m2)) by fin.
        destruct (unwinding (rec (KDropValue mo)) m2) as [m3 r3]. cbn [snd] in Hnn.
        destruct r3; [contradiction|..]; unfold res in HU; cbn [fst snd] in HU; go.
      + go.
      + go.
  Qed.

  (** *** Cleanable::clean *)
  Lemma f_cmd_clean self c : gen_ok (cmd_clean K rec self c).
  Proof.
    intros v0 m H. unfold cmd_clean.
    destruct (negb (k_clean K)); [go|].
    destruct (mjoin (cslots m !! c)) as [cr|]; [|go].
    cbv zeta. adv1.
    destruct (y =? 0)%N; [go|].
    destruct (inc_rc (hdr_of m0 (cr_map cr))) as [h|]; [|go].
    set (m1 := remove_from_list (cr_map cr) (uhdr (cr_map cr) (fun _ => h) m0)).
    assert (H1 : Rel v0 (cv m1)) by (unfold m1; rel). clearbody m1.
    destruct (get m1 (cr_map cr)) as [mx|] eqn:Emx; [|go].
    destruct (o_mborrowed mx); [go|].
    set (m2 := upd (cr_map cr) (fun x => x <| o_mborrowed := true |>) m1).
    assert (E2 : cv m2 = cv m1) by (unfold m2; cvs; reflexivity).
    assert (H2 : Rel v0 (cv m2)) by (rewrite E2; exact H1).
    destruct (o_mslots mx !! cr_slot cr) as [[|aid script]|] eqn:Esl; [clearbody m2; go| |clearbody m2; go].
    destruct (decide (aid = cr_aid cr)) as [Ea|Ea]; [|clearbody m2; go].
    set (m3 := upd (cr_map cr) (fun x => x <| o_mslots ::= <[cr_slot cr := MVacant]> |>
                                           <| o_mfree ::= cons (cr_slot cr) |>) m2).
    assert (E3 : cv m3 = CV (alter (vacate_free (cr_slot cr)) (cr_map cr) (cv_h (cv m1)))
                            (cv_n (cv m1)) (cv_x (cv m1))).
    { unfold m3. rewrite (cv_upd_alter _ (vacate_free (cr_slot cr))) by reflexivity.
      rewrite E2. reflexivity. }
    assert (HV : vacated (cr_map cr) (cr_slot cr) (view_obj mx) (cv m1) (cv m3)).
    { rewrite E3.
      exact (vacate_all (vacate_free (cr_slot cr)) (cv m1) (cr_map cr) (cr_slot cr) (view_obj mx)
               (Rel_CIv _ _ H1) (cv_h_lookup _ _ _ Emx) eq_refl eq_refl eq_refl
               (or_intror (conj eq_refl (ex_intro _ aid (ex_intro _ script Esl))))). }
    destruct HV as (HW & HK & En1 & Hn & Hpre).
    clearbody m3. clearbody m2.
    assert (Hsl0 : slotv (cv_h (cv m1)) (cr_map cr) (cr_slot cr) = Some (MAction aid script))
      by (rewrite (slotv_eq _ _ _ _ (cv_h_lookup _ _ _ Emx)); exact Esl).
    assert (HP : Pre (KCleanRun (cr_map cr) aid script) m3)
      by (split; [exact (RelW_CIv _ _ HW) | apply (Hpre aid script), Esl]).
    pose proof (rec_post rec Hrec _ _ HP) as [HR Hx].
    assert (Hr4 : res v0 (rec (KCleanRun (cr_map cr) aid script) m3)).
    { destruct (rec (KCleanRun (cr_map cr) aid script) m3) as [m4 r4]. cbn [fst snd] in *.
      eapply res_trans; [exact H1|].
      destruct r4; unfold res in *; cbn [fst snd] in *;
        first [ (eapply Rel_vacate_run; [exact HW|exact HK|exact En1|exact Hsl0|exact HR|apply Hx; discriminate])
              | (eapply RelW_trans; [exact HW|exact HR]) ]. }
    clear HR Hx.
    destruct (rec (KCleanRun (cr_map cr) aid script) m3) as [m4 r4].
    destruct r4; unfold res in Hr4; cbn [fst snd] in Hr4; go.
  Qed.

  Lemma f_step_cmd self cm : gen_ok (step_cmd K P rec self cm).
  Proof.
    destruct cm; cbn [step_cmd];
      [ apply f_cmd_new
      | apply f_cmd_clone
      | apply f_cmd_drop
      | apply f_cmd_move
      | apply f_cmd_mark_alive
      | apply f_cmd_collect
      | apply f_cmd_downgrade
      | apply f_cmd_upgrade
      | apply f_cmd_w_new
      | apply f_cmd_w_clone
      | apply f_cmd_w_drop
      | apply f_cmd_try_unwrap
      | apply f_cmd_drop_value
      | apply f_cmd_fin_again
      | apply f_cmd_new_cyclic
      | apply f_cmd_register
      | apply f_cmd_clean
      | apply f_cmd_c_drop
      | apply f_cmd_bag
      | apply f_cmd_unbag
      | apply f_cmd_borrow
      | apply f_cmd_unborrow
      | apply f_cmd_cfg_auto
      | apply f_cmd_cfg_percent
      | apply f_cmd_cfg_buffered
      | apply f_cmd_arm
      | apply f_cmd_panic
      | apply f_cmd_obs
      | apply f_cmd_w_obs
      | apply f_cmd_s_obs ]; assumption.
  Qed.

  Lemma gen_post m (X : machine -> machine * outcome) :
    gen_ok X -> CIv (cv m) -> res (cv m) ((X m).1, (X m).2).
  Proof. intros HX HI. apply res_eta', HX, Rel_refl, HI. Qed.

  (** the step case of [run_ind] *)
  Lemma clean_step_ok : rec_ok Pre Post (step K P rec).
  Proof.
    intros c m HP. pose proof (proj1 HP) as HI.
    destruct c; cbn [step];
      try (split; [apply gen_post; [|exact HI]|exact I]).
    - apply f_step_cmd; assumption.
    - apply f_step_script; assumption.
    - apply f_step_store; assumption.
    - apply f_step_drop_cc; assumption.
    - apply f_step_drop_value, HP.
    - apply f_step_drop_fields; assumption.
    - apply f_step_drop_map_slots, HP.
    - apply f_step_trigger; assumption.
    - apply f_step_collect_cycles; assumption.
    - apply f_step_collect; assumption.
    - apply f_step_collect_loop; assumption.
    - apply f_step_collect_once; assumption.
    - apply f_step_finalize_list; assumption.
    - apply f_step_drop_list; assumption.
    - apply f_step_unbag; assumption.
    - apply f_step_clean_run, HP.
  Qed.
End Steps2.

(** ** Every run keeps the invariant and obeys [Post] *)
Theorem run_clean K P n : rec_ok Pre Post (run K P n).
Proof.
  apply run_ind.
  - intros rec Hrec. apply clean_step_ok. exact Hrec.
  - intros c m [HI Hx]. split.
    + apply res_fuel, Rel_RelW, Rel_refl, HI.
    + destruct c; try exact I.
      * intros [Hn|Hn]; discriminate.
      * intros [Hn|Hn]; discriminate.
      * intros Hn. contradiction.
Qed.
