(** * CleanWalkProg: the invariant [J] at every top-level state of a clean run of a well-formed
    program, hence: a CleanerMap whose value is [VDropped] holds no action (C10, program level,
    goal (1) of Props/C10prog.v) and every action it ever stored has run exactly once (goal (2)). *)
From Coq Require Import NArith Bool List Lia.
From stdpp Require Import base list option.
From RecordUpdate Require Import RecordSet.
From RC Require Import Hdr Machine RunInd Inv.
From RC Require Import InvP SafeMain SafeColl SafeFinal LifeGhost Life.
From RC Require Import Clean CleanFrame CleanStep CleanThm CleanLog CleanProg CleanUFrame.
From RC Require Import CleanWalk CleanWalkRel CleanWalkChk CleanWalkStep CleanWalkThm.
Import ListNotations RecordSetNotations.

Section Prog.
  Context (K : conf) (P : prog).
  Hypothesis Hconf : k_clean K = true -> k_weak K = true.
  Hypothesis Hwf : wf_prog P = true.
  Context (fuel : nat).

  Notation mx mu := (fun m0 c => mexec_top K P (chkW K P) mu fuel c m0).

  Lemma mexec_top_eq mu c mf :
    exists t, mexec_top K P (chkW K P) mu fuel c mf = dl t (exec_top K P fuel c mf) /\
              (mrun K P (chkW K P) mu fuel (KCmd None c) mf).2 = (run K P fuel (KCmd None c) mf).2.
  Proof.
    destruct (mrun_eq K P (chkW K P) (chkW_dl K P) mu fuel (KCmd None c) mf) as (t & _ & E).
    exists t. unfold mexec_top, exec_top. rewrite E.
    destruct (run K P fuel (KCmd None c) mf) as [m1 r]. cbn [fst snd]. split; [|reflexivity].
    destruct r; reflexivity.
  Qed.

  Lemma clean_mexec mu c mf :
    clean (mexec_top K P (chkW K P) mu fuel c mf) = true ->
    clean mf = true /\ okr (mrun K P (chkW K P) mu fuel (KCmd None c) mf).2 = true.
  Proof.
    destruct (mexec_top_eq mu c mf) as (t & E & Er). rewrite E, Er.
    change (clean (dl t (exec_top K P fuel c mf))) with (clean (exec_top K P fuel c mf)).
    intros H. destruct (clean_exec_top K P fuel c mf H) as [H1 [H2|H2]]; (split; [exact H1|]);
      unfold snd in *; rewrite H2; reflexivity.
  Qed.

  Lemma clean_mfold mu cs : forall mf, clean (fold_left (mx mu) cs mf) = true -> clean mf = true.
  Proof.
    induction cs as [|c cs IH]; intros mf H; [exact H|]. cbn [fold_left] in H.
    apply IH in H. apply (clean_mexec mu c mf H).
  Qed.

  Lemma inv_mexec mu c mf :
    clean (mexec_top K P (chkW K P) mu fuel c mf) = true ->
    (mem_id mu (dead mf) = true \/ J (zv mf)) ->
    let mf' := mexec_top K P (chkW K P) mu fuel c mf in
    mem_id mu (dead mf') = true \/ J (zv mf').
  Proof.
    intros Hc HI. destruct (clean_mexec mu c mf Hc) as [_ Hr].
    assert (HP : Pre3 mu (KCmd None c) mf) by (destruct HI as [HI|HI]; [left; exact HI|right; split; [exact HI|exact I]]).
    pose proof (C10W_nested_inv mu K P fuel (KCmd None c) mf HP Hr) as HQ.
    cbv zeta. unfold mexec_top.
    destruct (mrun K P (chkW K P) mu fuel (KCmd None c) mf) as [m1 r]. cbn [fst snd] in *.
    destruct r; try discriminate; cvs;
      (destruct HQ as [HQ|(_ & _ & HJ & _)]; [left; exact HQ|right; exact HJ]).
  Qed.

  Lemma inv_mfold mu cs : forall mf,
    clean (fold_left (mx mu) cs mf) = true -> (mem_id mu (dead mf) = true \/ J (zv mf)) ->
    mem_id mu (dead (fold_left (mx mu) cs mf)) = true \/ J (zv (fold_left (mx mu) cs mf)).
  Proof.
    induction cs as [|c cs IH]; intros mf Hc HI; [exact HI|]. cbn [fold_left] in *.
    apply IH; [exact Hc|]. apply inv_mexec; [|exact HI]. apply (clean_mfold mu cs _ Hc).
  Qed.

  Lemma mem_id_list_max mu (l : list id) : list_max l < mu -> mem_id mu l = false.
  Proof.
    intros H. unfold mem_id. apply not_true_is_false. intros Hx. apply existsb_exists in Hx as (x & Hin & Hx).
    apply Nat.eqb_eq in Hx. subst x.
    assert (Hle : list_max l <= list_max l) by lia. apply list_max_le in Hle.
    rewrite Forall_forall in Hle. specialize (Hle mu Hin). lia.
  Qed.

  Theorem prog_J cmds :
    let m := fold_left (fun m c => exec_top K P fuel c m) cmds (init K) in
    clean m = true -> J (zv m).
  Proof.
    cbv zeta. intros Hc.
    set (m := fold_left (fun m c => exec_top K P fuel c m) cmds (init K)) in *.
    set (mu := S (list_max (dead m) + length (heap m))).
    pose proof (mfold_eq K P Hconf Hwf (chkW K P) (chkW_dl K P) (chkW_ok K P) mu fuel cmds) as HE.
    cbv zeta in HE. fold m in HE. specialize (HE Hc ltac:(unfold mu; lia)).
    pose proof (inv_mfold mu cmds (init K)) as HI. rewrite HE in HI.
    destruct (HI Hc) as [HT|HJ]; [right; exact J_nil| |exact HJ].
    rewrite mem_id_list_max in HT by (unfold mu; lia). discriminate.
  Qed.

  (** (1) *)
  Theorem prog_dead_map_vacant cmds mo x :
    let m := fold_left (fun m c => exec_top K P fuel c m) cmds (init K) in
    clean m = true -> get m mo = Some x -> o_ismap x = true -> o_vst x = VDropped -> all_vacant m mo.
  Proof.
    cbv zeta. intros Hc Hx Hm Hv. pose proof (prog_J cmds Hc) as [HJ _].
    destruct (HJ mo _ (zv_lookup _ _ _ Hx) Hm) as [_ Hn]; [unfold zdeadb; cbn; rewrite Hv; reflexivity|].
    specialize (Hn Hv). cbn in Hn.
    intros k sl Hs. unfold slot_at in Hs. unfold get in Hx. unfold Machine.id in *. rewrite Hx in Hs.
    destruct sl as [|a s]; [reflexivity|]. exfalso. exact (Hn k a s Hs).
  Qed.

  (** a destroyed map is named by no Cleaner *)
  Theorem prog_dead_map_unlinked cmds mo x :
    let m := fold_left (fun m c => exec_top K P fuel c m) cmds (init K) in
    clean m = true -> get m mo = Some x -> o_ismap x = true -> o_vst x = VDropped -> unlinked_m m mo.
  Proof.
    cbv zeta. intros Hc Hx Hm Hv. pose proof (prog_J cmds Hc) as [HJ _].
    destruct (HJ mo _ (zv_lookup _ _ _ Hx) Hm) as [Hu _]; [unfold zdeadb; cbn; rewrite Hv; reflexivity|].
    intros y xy Hy Hcl. exact (Hu y _ (zv_lookup _ _ _ Hy) Hcl).
  Qed.

  (** (2) *)
  Theorem prog_dead_map_all_ran cmds1 cmds2 mo x :
    let m1 := fold_left (fun m c => exec_top K P fuel c m) cmds1 (init K) in
    let m := fold_left (fun m c => exec_top K P fuel c m) (cmds1 ++ cmds2) (init K) in
    clean m = true -> get m mo = Some x -> o_ismap x = true -> o_vst x = VDropped ->
    forall k a s, slot_at m1 mo k = Some (MAction a s) ->
      count_occ Nat.eq_dec (executed_aids (log m)) a = 1.
  Proof.
    cbv zeta. intros Hc Hx Hm Hv.
    apply (prog_vacant_all_ran_clean K P fuel cmds1 cmds2 mo Hc).
    exact (prog_dead_map_vacant (cmds1 ++ cmds2) mo x Hc Hx Hm Hv).
  Qed.
End Prog.

Print Assumptions prog_J.
Print Assumptions prog_dead_map_vacant.
Print Assumptions prog_dead_map_all_ran.
