(** * CleanWalkStep5: the drop glue of the fields, the collector's lists, the commands that
    create or destroy values. *)
From Coq Require Import NArith Bool List Lia.
From stdpp Require Import base list option.
From RecordUpdate Require Import RecordSet.
From RC Require Import Hdr Machine RunInd Inv.
From RC Require Import Clean CleanFrame CleanStep CleanUFrame CleanU CleanUStep.
From RC Require Import CleanWalk CleanWalkRel CleanWalkChk CleanWalkStep CleanWalkStep2 CleanWalkStep3 CleanWalkStep4.
Import ListNotations RecordSetNotations.

Lemma lz_mono e n h0 h g : R e n h0 h -> g < n -> g < length h0 -> zunl h0 g -> g < length h /\ zunl h g.
Proof.
  intros HR Hn Hl Hu. split; [pose proof (r_len _ _ _ _ HR); lia|]. exact (zunl_mono _ _ _ _ _ HR Hn Hu).
Qed.

Section S5.
  Context (mu : id) (K : conf) (P : prog).
  Context (rec : call -> machine -> machine * outcome).
  Context (Hrec : rec_ok (Pre3 mu) (Post3 mu) rec).
  Implicit Types (m : machine).

  Notation tn m := (mem_id mu (dead m) = true).
  Notation gd m := (mem_id mu (dead m) = false).

  Lemma w_step_drop_fields o j : gen_okW mu (step_drop_fields rec o j).
  Proof.
    intros s m H. unfold step_drop_fields.
    destruct (get m o) as [x|] eqn:Ex; [|goW].
    destruct (decide (j < length (o_fields x))); [goW|].
    cbv beta iota zeta.
    destruct (o_cleaner x) as [t|] eqn:Ec; [|goW].
    match goal with |- xres _ _ (rec _ ?M) => set (m1 := M) end.
    assert (H1 : TX mu s m1).
    { unfold m1. rewrite (zv_upd_alter _ (zcl None)) by (intros; reflexivity). cvs.
      apply TX_clear_cl. exact H. }
    clearbody m1. finW.
  Qed.

  (** the members of a list, later *)
  Ltac lmono Hpre :=
    let HR := fresh in intros _ HR; destruct HR as (HR & _ & _);
    first [ (let g' := fresh in let Hg' := fresh in
             intros g' Hg'; apply (lz_mono _ _ _ _ _ HR); apply Hpre; first [exact Hg' | right; exact Hg'])
          | (let g' := fresh in let Hg' := fresh in
             intros _ g' Hg'; apply (lz_mono _ _ _ _ _ HR); apply Hpre; exact Hg') ].

  Lemma W_step_finalize_list L rest any old_f m :
    Pre3 mu (KFinalizeList L rest any old_f) m ->
    Post3 mu (KFinalizeList L rest any old_f) m
          (step_finalize_list K P rec L rest any old_f m).1 (step_finalize_list K P rec L rest any old_f m).2.
  Proof.
    intros HP. destruct (mem_id mu (dead m)) eqn:Hg; [apply taint_post; [apply tok_step_finalize_list; exact Hrec|exact Hg]|].
    destruct HP as [HP|(HJ & Hpre)]; [congruence|]. cbn [xPre] in Hpre.
    pose proof (TX_self mu m None (length (zv m)) Hg HJ (le_n _)) as H0.
    apply post_of_xres; [exact Hg| |intros; exact I]. cbn [ex3].
    unfold step_finalize_list. destruct any.
    - goX ltac:(intros _ _ ?; discriminate) fail.
    - specialize (Hpre eq_refl).
      assert (Hpre' : forall g, g ∈ L -> g < length (zv m) /\ g < length (zv m) /\ zunl (zv m) g)
        by (intros g Hin; destruct (Hpre g Hin); auto).
      goX ltac:(first [ (intros _ _ ?; discriminate)
                      | (let HR := fresh in let g' := fresh in let Hg' := fresh in
                         intros _ HR; destruct HR as (HR & _ & _); intros _ g' Hg';
                         destruct (Hpre' g' Hg') as (A & B & C); exact (lz_mono _ _ _ _ _ HR A B C))
                      | (let HR := fresh in let g' := fresh in let Hg' := fresh in
                         intros _ HR; destruct HR as (HR & _ & _); intros g' Hg';
                         destruct (Hpre' g' Hg') as (A & B & C); exact (lz_mono _ _ _ _ _ HR A B C)) ]) fail.
  Qed.

  Lemma TX_dealloc_boxed s (d : list id) h g e h0 :
    s = Some (e, length h0, h0) -> (forall w0, h0 !! g = Some w0 -> z_box w0 <> BNotYet) ->
    (mem_id mu d = true \/ RJv s h) -> mem_id mu d = true \/ RJv s (alter (zbox BFreed) g h).
  Proof.
    intros -> Hb H. apply (TX_zbox' mu); [exact H|discriminate|].
    intros Hd e' n' h0' w [= <- <- <-] Hw.
    destruct H as [H|(HR & _)]; [congruence|].
    destruct (decide (g < length h0)) as [Hlt|Hge]; [left|right; right; lia].
    apply lookup_lt_is_Some in Hlt as [w0 Hw0].
    destruct (r_bm _ _ _ _ HR g w0 Hw0 (Hb w0 Hw0)) as (w' & Hw' & Hb'). congruence.
  Qed.

  Lemma W_step_drop_list L rest old_d m :
    Pre3 mu (KDropList L rest old_d) m -> chkW K P (KDropList L rest old_d) m = true ->
    Post3 mu (KDropList L rest old_d) m (step_drop_list K rec L rest old_d m).1 (step_drop_list K rec L rest old_d m).2.
  Proof.
    intros HP Hchk. destruct (mem_id mu (dead m)) eqn:Hg; [apply taint_post; [apply tok_step_drop_list; exact Hrec|exact Hg]|].
    destruct HP as [HP|(HJ & Hpre)]; [congruence|]. cbn [xPre] in Hpre.
    pose proof (TX_self mu m None (length (zv m)) Hg HJ (le_n _)) as H0.
    unfold chkW in Hchk. apply andb_true_iff in Hchk as [_ HcX]. cbn [chkX] in HcX.
    assert (HL : forall g, g ∈ L \/ g ∈ rest -> forall w0, zv m !! g = Some w0 -> z_box w0 <> BNotYet).
    { intros g Hin. apply nyb_spec. rewrite forallb_forall in HcX.
      apply negb_true_iff. apply HcX. apply elem_of_list_In, elem_of_app. exact Hin. }
    apply post_of_xres; [exact Hg| |intros; exact I]. cbn [ex3].
    unfold step_drop_list. destruct rest as [|g rest'].
    - cbv beta iota zeta. apply xres_intro. rewrite zv_set_st_dropping, dd_set_st_dropping.
      assert (HF : forall l m1, (forall g, g ∈ l -> g ∈ L) -> TX mu (Some (None, length (zv m), zv m)) m1 ->
                 TX mu (Some (None, length (zv m), zv m)) (fold_left (fun m0 g => dealloc K g (drop_metadata K g m0)) l m1)).
      { induction l as [|g l IH]; intros m1 Hin H1; [exact H1|]. cbn [fold_left]. apply IH; [intros; apply Hin; right; assumption|].
        cvs. eapply TX_dealloc_boxed; [reflexivity|apply HL; left; apply Hin; left|exact H1]. }
      apply HF; [auto|exact H0].
    - assert (Hg0 : g < length (zv m) /\ zunl (zv m) g) by (apply Hpre; left).
      assert (Hpre' : forall g', g' ∈ rest' -> g' < length (zv m) /\ g' < length (zv m) /\ zunl (zv m) g')
        by (intros g' Hin; destruct (Hpre g' (elem_of_list_further _ _ _ Hin)); auto).
      goX ltac:(first
        [ (let HR := fresh in intros _ HR; destruct HR as (HR & _ & _); split;
           [ intros ? ? ?; exact (proj2 (lz_mono _ _ _ _ _ HR (proj1 Hg0) (proj1 Hg0) (proj2 Hg0)))
           | right; right; intros w0 Hw0; left; exact (HL g (or_intror (elem_of_list_here _ _)) w0 Hw0) ])
        | (let HR := fresh in let g' := fresh in let Hg' := fresh in
           intros _ HR; destruct HR as (HR & _ & _); intros g' Hg';
           destruct (Hpre' g' Hg') as (A & B & C); exact (lz_mono _ _ _ _ _ HR A B C)) ]) fail.
  Qed.
End S5.
