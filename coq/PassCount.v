(** * PassCount: the invariant of the counting phase ([counting] = trace_counting). *)
From Coq Require Import NArith Bool List Lia.
From stdpp Require Import base list option numbers list_numbers.
From RecordUpdate Require Import RecordSet.
From RC Require Import Hdr Machine Pass.
Import ListNotations RecordSetNotations.

(** ** Counting handles: reported edges are stored handles *)
Section Handles.
  Context (P : prog).

  Definition hnd (m : machine) (p v : id) : nat :=
    match get m p with Some x => handles_of x v | None => 0%nat end.

  Definition traced_list (fs : list (option id)) (ts : list bool) : list id :=
    omap (λ '(f, t), if (t : bool) then f else None) (zip fs ts).

  Lemma traced_list_cons f fs t ts :
    traced_list (f :: fs) (t :: ts) =
    match (if (t : bool) then f else None) with
    | Some w => w :: traced_list fs ts
    | None => traced_list fs ts
    end.
  Proof. unfold traced_list. cbn. by destruct t, f. Qed.
  Lemma traced_list_nil_r fs : traced_list fs [] = [].
  Proof. by destruct fs. Qed.
  Lemma occ_opt_cons_eq l v : occ_opt (Some v :: l) v = S (occ_opt l v).
  Proof. unfold occ_opt. by rewrite filter_cons_True by done. Qed.
  Lemma occ_opt_cons_ne f l v : f ≠ Some v → occ_opt (f :: l) v = occ_opt l v.
  Proof. intros. unfold occ_opt. by rewrite filter_cons_False. Qed.

  Lemma occ_traced_le fs ts v : (occ (traced_list fs ts) v ≤ occ_opt fs v)%nat.
  Proof.
    revert ts. induction fs as [|f fs IH]; intros ts; [done|].
    destruct ts as [|t ts]; [rewrite traced_list_nil_r, occ_nil; lia|]. specialize (IH ts).
    rewrite traced_list_cons.
    destruct f as [w|]; [destruct (decide (w = v)) as [->|Hne]|].
    - rewrite occ_opt_cons_eq. destruct t; [rewrite occ_cons_eq|]; lia.
    - rewrite occ_opt_cons_ne by congruence. destruct t; [rewrite occ_cons_ne by done|]; lia.
    - rewrite occ_opt_cons_ne by done. destruct t; lia.
  Qed.

  (** equality forces every stored handle to be reported *)
  Lemma occ_traced_eq fs ts v :
    occ (traced_list fs ts) v = occ_opt fs v →
    ∀ j, fs !! j = Some (Some v) → ts !! j = Some true.
  Proof.
    revert ts. induction fs as [|f fs IH]; intros ts Heq j Hj; [done|].
    destruct ts as [|t ts].
    - exfalso. rewrite traced_list_nil_r, occ_nil in Heq. symmetry in Heq. unfold occ_opt in Heq.
      apply length_zero_iff_nil in Heq.
      assert (Hin : Some v ∈ filter (λ c, c = Some v) (f :: fs)).
      { apply elem_of_list_filter. split; [done|]. by eapply elem_of_list_lookup_2. }
      rewrite Heq in Hin. by apply elem_of_nil in Hin.
    - pose proof (occ_traced_le fs ts v) as Hle. rewrite traced_list_cons in Heq.
      destruct j as [|j]; cbn in Hj.
      + injection Hj as ->. destruct t; [done|]. exfalso.
        rewrite occ_opt_cons_eq in Heq. lia.
      + cbn. apply IH; [|done].
        destruct f as [w|]; [destruct (decide (w = v)) as [->|Hne]|].
        * rewrite occ_opt_cons_eq in Heq. destruct t; [rewrite occ_cons_eq in Heq|]; lia.
        * rewrite occ_opt_cons_ne in Heq by congruence.
          destruct t; [rewrite occ_cons_ne in Heq by done|]; lia.
        * rewrite occ_opt_cons_ne in Heq by done. destruct t; lia.
  Qed.

  Lemma occ_opt_pos fs v j : fs !! j = Some (Some v) → (0 < occ_opt fs v)%nat.
  Proof.
    intros Hj. unfold occ_opt.
    assert (Hin : Some v ∈ filter (λ c, c = Some v) fs).
    { apply elem_of_list_filter. split; [done|]. by eapply elem_of_list_lookup_2. }
    destruct (filter _ fs); [by apply elem_of_nil in Hin|cbn; lia].
  Qed.

  Lemma occ_opt_zero fs v : (∀ j, fs !! j ≠ Some (Some v)) → occ_opt fs v = 0%nat.
  Proof.
    induction fs as [|f fs IH]; [done|]. intros H.
    rewrite occ_opt_cons_ne by (intros ->; by apply (H 0%nat)).
    apply IH. intros j. apply (H (S j)).
  Qed.
  Lemma occ_opt_pos_inv fs v : (0 < occ_opt fs v)%nat → ∃ j, fs !! j = Some (Some v).
  Proof.
    induction fs as [|f fs IH]; [cbn; lia|]. intros Hpos.
    destruct (decide (f = Some v)) as [->|Hne]; [by exists 0%nat|].
    rewrite occ_opt_cons_ne in Hpos by done. destruct (IH Hpos) as [j Hj]. by exists (S j).
  Qed.

  (** conversely, when every stored handle is reported the counts agree *)
  Lemma occ_traced_all fs ts v :
    (∀ j, fs !! j = Some (Some v) → ts !! j = Some true) →
    occ (traced_list fs ts) v = occ_opt fs v.
  Proof.
    revert ts. induction fs as [|f fs IH]; intros ts H; [done|].
    destruct ts as [|t ts].
    - rewrite traced_list_nil_r, occ_nil. symmetry. apply occ_opt_zero.
      intros j Hj. by specialize (H j Hj).
    - rewrite traced_list_cons. specialize (IH ts (λ j, H (S j))).
      destruct f as [w|]; [destruct (decide (w = v)) as [->|Hne]|].
      + rewrite occ_opt_cons_eq. specialize (H 0%nat eq_refl). injection H as ->.
        rewrite occ_cons_eq. lia.
      + rewrite occ_opt_cons_ne by congruence. destruct t; [rewrite occ_cons_ne by done|]; lia.
      + rewrite occ_opt_cons_ne by done. destruct t; lia.
  Qed.

  Lemma kids_unfold m p x :
    get m p = Some x →
    kids P m p =
    if o_ismap x then []
    else match o_vst x with
         | VLive => if o_borrowed x then []
                    else traced_list (o_fields x) (c_traced (class_of P (o_cls x)))
         | _ => []
         end.
  Proof.
    intros Hx. unfold kids, traced_children. rewrite Hx.
    destruct (o_ismap x); [done|]. destruct (o_vst x); try done. by destruct (o_borrowed x).
  Qed.
  Lemma kids_none m p : get m p = None → kids P m p = [].
  Proof. intros Hx. unfold kids, traced_children. by rewrite Hx. Qed.

  Lemma kids_le_hnd m p v : (occ (kids P m p) v ≤ hnd m p v)%nat.
  Proof.
    unfold hnd. destruct (get m p) as [x|] eqn:Hx; [|by rewrite kids_none].
    rewrite (kids_unfold _ _ _ Hx). unfold handles_of.
    pose proof (occ_traced_le (o_fields x) (c_traced (class_of P (o_cls x))) v).
    destruct (o_ismap x); [cbn; lia|]. destruct (o_vst x); try (cbn; lia).
    destruct (o_borrowed x); [cbn; lia|]. lia.
  Qed.

  (** when all handles of [p] to [v] are reported *)
  Lemma kids_eq_hnd m p v x :
    get m p = Some x → occ (kids P m p) v = hnd m p v →
    o_cleaner x ≠ Some v ∧
    ∀ j, o_fields x !! j = Some (Some v) →
         c_traced (class_of P (o_cls x)) !! j = Some true ∧
         o_ismap x = false ∧ o_borrowed x = false ∧ o_vst x = VLive.
  Proof.
    intros Hx. unfold hnd. rewrite Hx, (kids_unfold _ _ _ Hx). unfold handles_of.
    pose proof (occ_traced_le (o_fields x) (c_traced (class_of P (o_cls x))) v) as Hle.
    intros Heq. split.
    - intros Hc. rewrite decide_True in Heq by done.
      destruct (o_ismap x); [cbn in Heq; lia|]. destruct (o_vst x); try (cbn in Heq; lia).
      destruct (o_borrowed x); [cbn in Heq; lia|]. lia.
    - intros j Hj. pose proof (occ_opt_pos _ _ _ Hj) as Hpos.
      destruct (o_ismap x); [cbn in Heq; lia|]. destruct (o_vst x); try (cbn in Heq; lia).
      destruct (o_borrowed x); [cbn in Heq; lia|]. split; [|done].
      eapply occ_traced_eq; [|done]. lia.
  Qed.

  Lemma sum_list_with_ext_in {A} (f g : A → nat) l :
    (∀ x, x ∈ l → f x = g x) → sum_list_with f l = sum_list_with g l.
  Proof.
    induction l as [|a l IH]; [done|]. intros H. cbn. rewrite (H a) by left.
    rewrite IH; [done|]. intros x Hx. apply H. by right.
  Qed.

  Lemma kids_all_hnd m p v x :
    get m p = Some x → o_cleaner x ≠ Some v →
    (∀ j, o_fields x !! j = Some (Some v) →
          c_traced (class_of P (o_cls x)) !! j = Some true ∧
          o_ismap x = false ∧ o_borrowed x = false ∧ o_vst x = VLive) →
    occ (kids P m p) v = hnd m p v.
  Proof.
    intros Hx Hc Hf. pose proof (kids_le_hnd m p v) as Hle. unfold hnd in *.
    rewrite Hx in *. unfold handles_of in *. rewrite decide_False in * by done.
    destruct (decide (0 < occ_opt (o_fields x) v)%nat) as [Hpos|Hz]; [|lia].
    destruct (occ_opt_pos_inv _ _ Hpos) as [j Hj]. destruct (Hf j Hj) as (_ & Hm & Hb & Hv).
    rewrite (kids_unfold _ _ _ Hx), Hm, Hv, Hb, Nat.add_0_r. apply occ_traced_all.
    intros j' Hj'. by apply Hf.
  Qed.

  Lemma in_fields_seq m v :
    in_fields m v = sum_list_with (λ p, hnd m p v) (seq 0 (length (heap m))).
  Proof.
    unfold in_fields, hnd, get. induction (heap m) as [|x h IH] using rev_ind; [done|].
    rewrite app_length, sum_list_with_app. cbn [length]. rewrite Nat.add_1_r, seq_S.
    rewrite sum_list_with_app. cbn. rewrite lookup_app_r, Nat.sub_diag by lia. cbn.
    rewrite IH. f_equal. apply sum_list_with_ext_in.
    intros i Hi%elem_of_seq. by rewrite lookup_app_l by lia.
  Qed.

  Lemma sum_submseteq {A} (g : A → nat) (l k : list A) :
    l ⊆+ k → (sum_list_with g l ≤ sum_list_with g k)%nat.
  Proof. induction 1; cbn; lia. Qed.

  (** The counting argument: a duplicate-free set of in-range sources reports at most the
      stored handles; in case of equality everything stored is reported by a member. *)
  Lemma cnt_le_in_fields m l v :
    NoDup l → (∀ p, p ∈ l → (p < length (heap m))%nat) →
    (cnt P m l v ≤ in_fields m v)%nat.
  Proof.
    intros Hnd Hlt. rewrite in_fields_seq.
    transitivity (sum_list_with (λ p, hnd m p v) l).
    - unfold cnt. clear. induction l as [|p l IH]; [done|]. cbn.
      pose proof (kids_le_hnd m p v). lia.
    - apply sum_submseteq, NoDup_submseteq; [done|]. intros p Hp. apply elem_of_seq.
      specialize (Hlt p Hp). lia.
  Qed.

  Lemma cnt_eq_in_fields m l v :
    NoDup l → (∀ p, p ∈ l → (p < length (heap m))%nat) →
    cnt P m l v = in_fields m v →
    (∀ p, p ∈ l → occ (kids P m p) v = hnd m p v) ∧
    (∀ p, p ∉ l → hnd m p v = 0%nat).
  Proof.
    intros Hnd Hlt Heq. rewrite in_fields_seq in Heq.
    assert (Hsub : l ⊆+ seq 0 (length (heap m))).
    { apply NoDup_submseteq; [done|]. intros p Hp. apply elem_of_seq.
      specialize (Hlt p Hp). lia. }
    apply submseteq_Permutation in Hsub as [k Hk].
    assert (Hsum : sum_list_with (λ p, hnd m p v) (seq 0 (length (heap m))) =
                   (sum_list_with (λ p, hnd m p v) l + sum_list_with (λ p, hnd m p v) k)%nat).
    { rewrite <- sum_list_with_app. clear -Hk. revert Hk.
      generalize (seq 0 (length (heap m))) (l ++ k).
      induction 1; cbn; lia. }
    rewrite Hsum in Heq. clear Hsum.
    assert (Hle : ∀ l', (cnt P m l' v ≤ sum_list_with (λ p, hnd m p v) l')%nat).
    { induction l' as [|p l' IH]; [done|]. rewrite cnt_cons. cbn.
      pose proof (kids_le_hnd m p v). lia. }
    pose proof (Hle l) as Hl.
    assert (H1 : cnt P m l v = sum_list_with (λ p, hnd m p v) l) by lia.
    assert (H2 : sum_list_with (λ p, hnd m p v) k = 0%nat) by lia.
    split.
    - clear -H1 Hle. induction l as [|q l IH]; [by intros ? ?%elem_of_nil|].
      rewrite cnt_cons in H1. cbn in H1. pose proof (kids_le_hnd m q v). pose proof (Hle l).
      intros p [->|Hp]%elem_of_cons; [lia|]. apply IH; [lia|done].
    - intros p Hp. destruct (decide (p < length (heap m))%nat) as [Hlt'|Hge].
      + assert (Hpk : p ∈ k).
        { assert (Hin : p ∈ seq 0 (length (heap m))) by (apply elem_of_seq; lia).
          rewrite Hk in Hin. apply elem_of_app in Hin as [?|?]; done. }
        pose proof (sum_list_with_in p (λ p, hnd m p v) k Hpk) as Hin. cbn in Hin. lia.
      + unfold hnd, get. rewrite lookup_ge_None_2 by lia. done.
  Qed.

  Lemma cnt_all_in_fields m l v :
    NoDup l → (∀ p, p ∈ l → (p < length (heap m))%nat) →
    (∀ p, p ∈ l → occ (kids P m p) v = hnd m p v) →
    (∀ p, p ∉ l → hnd m p v = 0%nat) →
    cnt P m l v = in_fields m v.
  Proof.
    intros Hnd Hlt Hin Hout. rewrite in_fields_seq.
    assert (Hsub : l ⊆+ seq 0 (length (heap m))).
    { apply NoDup_submseteq; [done|]. intros p Hp. apply elem_of_seq.
      specialize (Hlt p Hp). lia. }
    apply submseteq_Permutation in Hsub as [k Hk].
    assert (Hsum : sum_list_with (λ p, hnd m p v) (seq 0 (length (heap m))) =
                   (sum_list_with (λ p, hnd m p v) l + sum_list_with (λ p, hnd m p v) k)%nat).
    { rewrite <- sum_list_with_app. clear -Hk. revert Hk.
      generalize (seq 0 (length (heap m))) (l ++ k).
      induction 1; cbn; lia. }
    rewrite Hsum.
    assert (Hk0 : sum_list_with (λ p, hnd m p v) k = 0%nat).
    { assert (Hndk : NoDup (l ++ k)) by (rewrite <- Hk; apply NoDup_seq).
      apply NoDup_app in Hndk as (_ & Hdisj & _).
      assert (Hall : ∀ p, p ∈ k → hnd m p v = 0%nat).
      { intros p Hp. apply Hout. intros Hl. by apply (Hdisj p Hl). }
      clear -Hall. induction k as [|a k IH]; [done|]. cbn. rewrite (Hall a) by left.
      apply IH. intros p Hp. apply Hall. by right. }
    rewrite Hk0, Nat.add_0_r. unfold cnt. apply sum_list_with_ext_in. done.
  Qed.
End Handles.

(** ** The invariant of the counting phase *)
Section Count.
  Context (K : conf) (P : prog) (m0 : machine) (ext : id → N).
  Hypothesis Hpre : PassPre P m0 ext.

  Definition tracked (s : tstate) (busy : list id) : list id :=
    t_root s ++ t_non s ++ t_q s ++ pc (t_m s) ++ busy.
  Definition proc (s : tstate) : list id := t_root s ++ t_non s.

  Notation mk m v := (h_mark (hdr_of m v)).
  Notation tc m v := (h_tc (hdr_of m v)).
  Notation rc m v := (h_rc (hdr_of m v)).

  Definition nobad (m : machine) : Prop := ∀ b o, EBad b o ∈ log m → EBad b o ∈ log m0.

  Record CInv (busy done : list id) (s : tstate) : Prop := {
    ci_frame : mframe K m0 (t_m s);
    ci_nobad : nobad (t_m s);
    ci_suffix : pc (t_m s) `suffix_of` pc m0;
    ci_size : pc_size (t_m s) = N.of_nat (length (pc (t_m s)));
    ci_nodup : NoDup (tracked s busy);
    ci_reach : ∀ v, v ∈ tracked s busy → reach P m0 v;
    ci_il : ∀ v, alloc m0 v → mk (t_m s) v = IL ↔ v ∈ proc s;
    ci_iq : ∀ v, alloc m0 v → mk (t_m s) v = IQ ↔ v ∈ t_q s ++ busy;
    ci_pc : ∀ v, alloc m0 v → mk (t_m s) v = PC ↔ v ∈ pc (t_m s);
    ci_tc : ∀ v, v ∈ tracked s busy →
                 tc (t_m s) v = N.of_nat (cnt P m0 (proc s) v + occ done v);
    ci_un : ∀ v, v ∉ tracked s busy →
                 (cnt P m0 (proc s) v + occ done v = 0)%nat ∧ hdr_of (t_m s) v = hdr_of m0 v;
    ci_non : ∀ v, v ∈ t_non s → rc (t_m s) v = tc (t_m s) v;
    ci_root : ∀ v, v ∈ t_root s → rc (t_m s) v ≠ tc (t_m s) v;
  }.

  (** a single header changes *)
  Record upd1 (m m' : machine) (c : id) (h' : hdr) : Prop := {
    u_hdr : hdr_of m' c = h';
    u_other : ∀ v, v ≠ c → hdr_of m' v = hdr_of m v;
    u_pc : pc m' = pc m;
    u_size : pc_size m' = pc_size m;
    u_log : log m' = log m;
  }.
  Lemma upd1_uhdr c f m : is_Some (get m c) → upd1 m (uhdr c f m) c (f (hdr_of m c)).
  Proof.
    intros Hc. split; try done; [by apply hdr_of_uhdr_eq|]. intros. by apply hdr_of_uhdr_ne.
  Qed.

  Lemma reach_alloc v : reach P m0 v → alloc m0 v.
  Proof. intros H. by apply (pp_reach _ _ _ Hpre). Qed.

  Lemma tracked_mark busy done s v :
    CInv busy done s → alloc m0 v → v ∈ tracked s busy ↔ mk (t_m s) v ≠ NM.
  Proof.
    intros H Hv. pose proof (ci_il _ _ _ H v Hv) as Hil.
    pose proof (ci_iq _ _ _ H v Hv) as Hiq. pose proof (ci_pc _ _ _ H v Hv) as Hpc.
    unfold tracked, proc in *. rewrite !elem_of_app in *.
    destruct (mk (t_m s) v); split; intros; try done; try tauto.
    destruct Hil as [_ Hil], Hiq as [_ Hiq], Hpc as [_ Hpc].
    destruct H0 as [?|[?|[?|[?|?]]]]; try (by (discriminate Hil; tauto));
      try (by (discriminate Hiq; tauto)); try (by (discriminate Hpc; tauto)).
  Qed.

  Lemma inc_only_inv busy done s c m' :
    CInv busy done s →
    upd1 (t_m s) m' c (set_tc (tc (t_m s) c + 1) (hdr_of (t_m s) c)) →
    mframe K m0 m' →
    c ∈ tracked s busy → c ∉ t_non s →
    (c ∈ t_root s → rc (t_m s) c ≠ (tc (t_m s) c + 1)%N) →
    CInv busy (done ++ [c]) (TState m' (t_root s) (t_non s) (t_q s)).
  Proof.
    intros [Hfr Hnb Hsuf Hsz Hnd Hre Hil Hiq Hpc Htc Hun Hnon Hroot] [Uh Uo Upc Usz Ulog].
    intros Hfr' Hin Hnn Hrt.
    assert (Hmkall : ∀ v, mk m' v = mk (t_m s) v).
    { intros v. destruct (decide (v = c)) as [->|Hne]; [by rewrite Uh|by rewrite Uo]. }
    assert (Hrcall : ∀ v, rc m' v = rc (t_m s) v).
    { intros v. destruct (decide (v = c)) as [->|Hne]; [by rewrite Uh|by rewrite Uo]. }
    split; unfold tracked, proc, nobad in *; cbn [t_m t_root t_non t_q] in *;
      rewrite ?Upc, ?Usz, ?Ulog; try done.
    - intros v Hv. rewrite Hmkall. by apply Hil.
    - intros v Hv. rewrite Hmkall. by apply Hiq.
    - intros v Hv. rewrite Hmkall. by apply Hpc.
    - intros v Hv. destruct (decide (v = c)) as [->|Hne].
      + rewrite Uh. cbn. rewrite Htc by done. rewrite occ_snoc_eq. lia.
      + rewrite Uo by done. rewrite Htc by done. by rewrite occ_snoc_ne by done.
    - intros v Hv. assert (v ≠ c) by (intros ->; done).
      rewrite occ_snoc_ne, Uo by done. by apply Hun.
    - intros v Hv. assert (v ≠ c) by (intros ->; done). rewrite Uo by done. by apply Hnon.
    - intros v Hv. rewrite Hrcall. destruct (decide (v = c)) as [->|Hne].
      + rewrite Uh. cbn. by apply Hrt.
      + rewrite Uo by done. by apply Hroot.
  Qed.

  Lemma perm_ins (c : id) l1 l2 l3 l4 :
    l1 ++ l2 ++ (l3 ++ [c]) ++ l4 ≡ₚ c :: (l1 ++ l2 ++ l3 ++ l4).
  Proof.
    rewrite <- (assoc_L (++) l3). cbn.
    rewrite (assoc_L (++) l2), (assoc_L (++) l1). rewrite <- Permutation_middle.
    by rewrite <- !(assoc_L (++)).
  Qed.

  Lemma fresh_inv busy done s c m' h' :
    CInv busy done s →
    upd1 (t_m s) m' c h' → h_mark h' = IQ → h_tc h' = 1%N →
    mframe K m0 m' → reach P m0 c →
    c ∉ tracked s busy →
    CInv busy (done ++ [c]) (TState m' (t_root s) (t_non s) (t_q s ++ [c])).
  Proof.
    intros [Hfr Hnb Hsuf Hsz Hnd Hre Hil Hiq Hpc Htc Hun Hnon Hroot] [Uh Uo Upc Usz Ulog].
    intros Hmk Htc1 Hfr' Hrc Hnt.
    split; unfold tracked, proc, nobad in *; cbn [t_m t_root t_non t_q] in *;
      rewrite ?Upc, ?Usz, ?Ulog; try done.
    - rewrite perm_ins. by apply NoDup_cons.
    - intros v. rewrite perm_ins. intros [->|Hv]%elem_of_cons; [done|by apply Hre].
    - intros v Hv. destruct (decide (v = c)) as [->|Hne].
      + rewrite Uh, Hmk. split; [done|]. intros Hin. exfalso. apply Hnt.
        rewrite !elem_of_app in *. tauto.
      + rewrite Uo by done. by apply Hil.
    - intros v Hv. destruct (decide (v = c)) as [->|Hne].
      + rewrite Uh, Hmk. split; [|done]. intros _.
        rewrite !elem_of_app, elem_of_list_singleton. tauto.
      + rewrite Uo by done. rewrite (Hiq v Hv).
        rewrite !elem_of_app, elem_of_list_singleton. tauto.
    - intros v Hv. destruct (decide (v = c)) as [->|Hne].
      + rewrite Uh, Hmk. split; [done|]. intros Hin. exfalso. apply Hnt.
        rewrite !elem_of_app. tauto.
      + rewrite Uo by done. by apply Hpc.
    - intros v. rewrite perm_ins. intros [->|Hv]%elem_of_cons.
      + rewrite Uh, Htc1. destruct (Hun c Hnt) as [Hz _]. rewrite occ_snoc_eq. lia.
      + assert (v ≠ c) by (intros ->; done).
        rewrite Uo by done. rewrite occ_snoc_ne by done. by apply Htc.
    - intros v. rewrite perm_ins. intros [Hne Hv]%not_elem_of_cons.
      rewrite occ_snoc_ne, Uo by done. by apply Hun.
    - intros v Hv. assert (v ≠ c) by (intros ->; apply Hnt; rewrite !elem_of_app; tauto).
      rewrite Uo by done. by apply Hnon.
    - intros v Hv. assert (v ≠ c) by (intros ->; apply Hnt; rewrite !elem_of_app; tauto).
      rewrite Uo by done. by apply Hroot.
  Qed.

  Lemma cnt_remove_add R N c v :
    c ∈ R → NoDup R → cnt P m0 (remove_id c R ++ c :: N) v = cnt P m0 (R ++ N) v.
  Proof.
    intros Hin Hnd. apply cnt_perm. rewrite (remove_id_perm c R Hin Hnd) at 2. cbn.
    by rewrite <- Permutation_middle.
  Qed.

  Lemma move_inv busy done s c m' :
    CInv busy done s →
    upd1 (t_m s) m' c (set_tc (tc (t_m s) c + 1) (hdr_of (t_m s) c)) →
    mframe K m0 m' →
    c ∈ t_root s → rc (t_m s) c = (tc (t_m s) c + 1)%N →
    CInv busy (done ++ [c]) (TState m' (remove_id c (t_root s)) (c :: t_non s) (t_q s)).
  Proof.
    intros [Hfr Hnb Hsuf Hsz Hnd Hre Hil Hiq Hpc Htc Hun Hnon Hroot] [Uh Uo Upc Usz Ulog].
    intros Hfr' Hcr Heq1.
    assert (Hmkall : ∀ v, mk m' v = mk (t_m s) v).
    { intros v. destruct (decide (v = c)) as [->|Hne]; [by rewrite Uh|by rewrite Uo]. }
    assert (Hrcall : ∀ v, rc m' v = rc (t_m s) v).
    { intros v. destruct (decide (v = c)) as [->|Hne]; [by rewrite Uh|by rewrite Uo]. }
    assert (Hndr : NoDup (t_root s)) by (unfold tracked in Hnd; by apply NoDup_app in Hnd as [? _]).
    assert (Hcnn : c ∉ t_non s).
    { unfold tracked in Hnd. apply NoDup_app in Hnd as (_ & Hd & _). intros Hcn.
      apply (Hd c Hcr). rewrite !elem_of_app. tauto. }
    assert (Hp : remove_id c (t_root s) ++ (c :: t_non s) ++ t_q s ++ pc (t_m s) ++ busy
                 ≡ₚ tracked s busy).
    { unfold tracked. rewrite (remove_id_perm c (t_root s) Hcr Hndr) at 2. cbn.
      by rewrite <- Permutation_middle. }
    assert (Hcnt : ∀ v, cnt P m0 (remove_id c (t_root s) ++ c :: t_non s) v
                        = cnt P m0 (t_root s ++ t_non s) v)
      by (intros; by apply cnt_remove_add).
    assert (Hin : c ∈ tracked s busy) by (unfold tracked; rewrite !elem_of_app; tauto).
    split; unfold proc, nobad in *; cbn [t_m t_root t_non t_q] in *;
      rewrite ?Upc, ?Usz, ?Ulog; try done.
    - unfold tracked at 1. cbn [t_m t_root t_non t_q]. by rewrite Upc, Hp.
    - intros v. unfold tracked at 1. cbn [t_m t_root t_non t_q]. rewrite Upc, Hp. apply Hre.
    - intros v Hv. rewrite Hmkall, (Hil v Hv). rewrite !elem_of_app, elem_of_cons, remove_id_elem.
      destruct (decide (v = c)) as [->|?]; tauto.
    - intros v Hv. rewrite Hmkall. by apply Hiq.
    - intros v Hv. rewrite Hmkall. by apply Hpc.
    - intros v. unfold tracked at 1. cbn [t_m t_root t_non t_q]. rewrite Upc, Hp. intros Hv.
      rewrite Hcnt. destruct (decide (v = c)) as [->|Hne].
      + rewrite Uh. cbn. rewrite Htc by done. rewrite occ_snoc_eq. lia.
      + rewrite Uo by done. rewrite Htc by done. by rewrite occ_snoc_ne by done.
    - intros v. unfold tracked at 1. cbn [t_m t_root t_non t_q]. rewrite Upc, Hp. intros Hv.
      rewrite Hcnt. assert (v ≠ c) by (intros ->; done).
      rewrite occ_snoc_ne, Uo by done. by apply Hun.
    - intros v [->|Hv]%elem_of_cons.
      + rewrite Hrcall, Uh. cbn. done.
      + assert (v ≠ c) by (intros ->; done). rewrite Uo by done. by apply Hnon.
    - intros v [Hv Hne]%remove_id_elem. rewrite Uo by done. by apply Hroot.
  Qed.

  Lemma visit_counting_inv busy done s c :
    CInv busy done s → reach P m0 c →
    (∀ v, v ∈ tracked s busy →
          (N.of_nat (cnt P m0 (proc s) v + occ (done ++ [c]) v) ≤ rc m0 v)%N) →
    CInv busy (done ++ [c]) (visit_counting s c) ∧
    length (proc (visit_counting s c)) = length (proc s).
  Proof.
    intros HI Hrc Hle.
    destruct (pp_reach _ _ _ Hpre c Hrc) as (Hal & _ & Hndr).
    pose proof (pp_rcmax _ _ _ Hpre c Hrc) as Hmax.
    pose proof (visit_counting_frame K s c) as Hfr.
    assert (Hfr' : mframe K m0 (t_m (visit_counting s c)))
      by (eapply mframe_trans; [apply HI|done]).
    clear Hfr. revert Hfr'.
    destruct (proj2 (mframe_alloc K _ _ c (ci_frame _ _ _ HI)) Hal) as (x & Hx & Hbox).
    pose proof (hdr_of_get _ _ _ Hx) as Hh.
    pose proof (tracked_mark _ _ _ c HI Hal) as Htm.
    pose proof (mframe_rc K _ _ c (ci_frame _ _ _ HI)) as Hrceq.
    assert (Hbound : c ∈ tracked s busy → (tc (t_m s) c + 1 ≤ rc (t_m s) c)%N).
    { intros Hin. specialize (Hle c Hin). rewrite occ_snoc_eq in Hle.
      rewrite (ci_tc _ _ _ HI c Hin), Hrceq. lia. }
    assert (Hsome : is_Some (get (t_m s) c)) by eauto.
    unfold visit_counting. rewrite Hx, Hbox. rewrite <- Hh.
    unfold is_in_list_or_queue, is_in_pc, is_dropped, tc_dropped.
    unfold max_rc, tc_dropped in *.
    destruct (mk (t_m s) c) eqn:Hmk; cbn [mark_eqb].
    - (* NM: fresh *)
      assert (Hnt : c ∉ tracked s busy) by (rewrite Htm; tauto).
      destruct (ci_un _ _ _ HI c Hnt) as [_ Hsame].
      destruct (N.eqb_spec (tc (t_m s) c) 16383) as [Heq|_]; [by rewrite Hsame in Heq|].
      intros Hfr'. split; [|done]. eapply fresh_inv; try done.
      + apply upd1_uhdr. done.
      + done.
      + done.
    - (* PC *)
      assert (Hin : c ∈ tracked s busy) by (rewrite Htm; congruence).
      specialize (Hbound Hin).
      destruct (N.eqb_spec (tc (t_m s) c) 16383) as [Heq|_]; [lia|].
      intros Hfr'. split; [|done]. apply inc_only_inv; try done.
      + pose proof (upd1_uhdr c (λ h, default h (inc_tc h)) (t_m s) Hsome) as U.
        unfold inc_tc in U. destruct (N.eqb_spec (tc (t_m s) c) max_rc) as [Heq|_];
          [unfold max_rc in Heq; lia|]. exact U.
      + intros Hcn. assert (mk (t_m s) c = IL)
          by (apply (ci_il _ _ _ HI); [done|]; unfold proc; rewrite elem_of_app; tauto).
        congruence.
      + intros Hcr. assert (mk (t_m s) c = IL)
          by (apply (ci_il _ _ _ HI); [done|]; unfold proc; rewrite elem_of_app; tauto).
        congruence.
    - (* IL *)
      assert (Hin : c ∈ tracked s busy) by (rewrite Htm; congruence).
      specialize (Hbound Hin).
      assert (Hproc : c ∈ proc s) by (by apply (ci_il _ _ _ HI)).
      destruct (N.ltb_spec (tc (t_m s) c) (rc (t_m s) c)) as [_|?]; [|lia].
      destruct (N.eqb_spec (tc (t_m s) c) 16383) as [Heq|_]; [lia|]. cbn [andb negb].
      assert (Hinc : inc_tc (hdr_of (t_m s) c)
                     = Some (set_tc (tc (t_m s) c + 1) (hdr_of (t_m s) c))).
      { unfold inc_tc. destruct (N.eqb_spec (tc (t_m s) c) max_rc) as [Heq|_];
          [unfold max_rc in Heq; lia|done]. }
      rewrite Hinc. cbn [default from_option Datatypes.id]. unfold is_in_list. cbn [h_mark set_tc h_rc h_tc].
      rewrite Hmk. cbn [mark_eqb andb].
      pose proof (upd1_uhdr c (λ _, set_tc (tc (t_m s) c + 1) (hdr_of (t_m s) c)) (t_m s) Hsome)
        as U. cbn beta in U.
      destruct (N.eqb_spec (rc (t_m s) c) (tc (t_m s) c + 1)) as [Heq1|Hne1]; intros Hfr'.
      + assert (Hcr : c ∈ t_root s).
        { unfold proc in Hproc. apply elem_of_app in Hproc as [?|Hcn]; [done|].
          pose proof (ci_non _ _ _ HI c Hcn). lia. }
        split; [by apply move_inv|]. unfold proc. cbn [t_root t_non].
        rewrite !app_length. cbn [length].
        rewrite (remove_id_length c (t_root s)); [lia|done|].
        pose proof (ci_nodup _ _ _ HI) as Hnd. unfold tracked in Hnd.
        by apply NoDup_app in Hnd as [? _].
      + split; [|done]. apply inc_only_inv; try done.
        intros Hcn. pose proof (ci_non _ _ _ HI c Hcn). lia.
    - (* IQ *)
      assert (Hin : c ∈ tracked s busy) by (rewrite Htm; congruence).
      specialize (Hbound Hin).
      destruct (N.ltb_spec (tc (t_m s) c) (rc (t_m s) c)) as [_|?]; [|lia].
      destruct (N.eqb_spec (tc (t_m s) c) 16383) as [Heq|_]; [lia|]. cbn [andb negb].
      assert (Hinc : inc_tc (hdr_of (t_m s) c)
                     = Some (set_tc (tc (t_m s) c + 1) (hdr_of (t_m s) c))).
      { unfold inc_tc. destruct (N.eqb_spec (tc (t_m s) c) max_rc) as [Heq|_];
          [unfold max_rc in Heq; lia|done]. }
      rewrite Hinc. cbn [default from_option Datatypes.id]. unfold is_in_list. cbn [h_mark set_tc h_rc h_tc].
      rewrite Hmk. cbn [mark_eqb andb].
      pose proof (upd1_uhdr c (λ _, set_tc (tc (t_m s) c + 1) (hdr_of (t_m s) c)) (t_m s) Hsome)
        as U. cbn beta in U.
      intros Hfr'. split; [|done]. apply inc_only_inv; try done.
      + intros Hcn. assert (mk (t_m s) c = IL)
          by (apply (ci_il _ _ _ HI); [done|]; unfold proc; rewrite elem_of_app; tauto).
        congruence.
      + intros Hcr. assert (mk (t_m s) c = IL)
          by (apply (ci_il _ _ _ HI); [done|]; unfold proc; rewrite elem_of_app; tauto).
        congruence.
  Qed.

  (** *** Folds of header updates ([unmark_all], [reset_buffered]) *)
  Lemma fold_uhdr_same f l m :
    let m' := fold_left (λ m o, uhdr o f m) l m in
    pc m' = pc m ∧ pc_size m' = pc_size m ∧ log m' = log m.
  Proof. revert m. induction l as [|c l IH]; intros m; [done|]. cbn. apply (IH (uhdr c f m)). Qed.
  Lemma hdr_of_fold_uhdr f l m v :
    (∀ h, f (f h) = f h) → is_Some (get m v) →
    hdr_of (fold_left (λ m o, uhdr o f m) l m) v =
    if decide (v ∈ l) then f (hdr_of m v) else hdr_of m v.
  Proof.
    intros Hf. revert m. induction l as [|c l IH]; intros m Hv; [done|]. cbn.
    assert (Hv' : is_Some (get (uhdr c f m) v)).
    { rewrite get_uhdr. destruct (decide (v = c)); [by apply fmap_is_Some|done]. }
    rewrite (IH _ Hv'). destruct (decide (v = c)) as [->|Hne].
    - rewrite hdr_of_uhdr_eq by done. rewrite (decide_True (P := c ∈ c :: l)) by left.
      destruct (decide (c ∈ l)); by rewrite ?Hf.
    - rewrite hdr_of_uhdr_ne by done.
      destruct (decide (v ∈ l)) as [Hin|Hnin].
      + by rewrite decide_True by (by right).
      + rewrite decide_False; [done|]. by intros [?|?]%elem_of_cons.
  Qed.

  Lemma trace_event_same p m :
    let r := trace_event K p m in
    heap r.1 = heap m ∧ pc r.1 = pc m ∧ pc_size r.1 = pc_size m ∧
    (∀ b o, EBad b o ∈ log r.1 → EBad b o ∈ log m).
  Proof.
    unfold trace_event. destruct (is_map m p); [done|]. unfold tick. cbn.
    destruct (fuse_trace m =? 0)%N; cbn; repeat split; try done.
    - intros b o [?|?]%elem_of_cons; done.
    - intros b o [?|?]%elem_of_cons; done.
  Qed.

  Lemma hdr_of_heap m m' v : heap m' = heap m → hdr_of m' v = hdr_of m v.
  Proof. intros H. unfold hdr_of, get. by rewrite H. Qed.

  Lemma CInv_transport busy done s m' :
    CInv busy done s → heap m' = heap (t_m s) → pc m' = pc (t_m s) →
    pc_size m' = pc_size (t_m s) → mframe K m0 m' →
    (∀ b o, EBad b o ∈ log m' → EBad b o ∈ log (t_m s)) →
    CInv busy done (TState m' (t_root s) (t_non s) (t_q s)).
  Proof.
    intros [Hfr Hnb Hsuf Hsz Hnd Hre Hil Hiq Hpc Htc Hun Hnon Hroot] Hh Hp Hs Hfr' Hlog.
    assert (Hhd : ∀ v, hdr_of m' v = hdr_of (t_m s) v) by (intros; by apply hdr_of_heap).
    split; unfold tracked, proc, nobad in *; cbn [t_m t_root t_non t_q] in *;
      rewrite ?Hp, ?Hs; try done.
    - intros b o Hb. by apply Hnb, Hlog.
    - intros v Hv. rewrite Hhd. by apply Hil.
    - intros v Hv. rewrite Hhd. by apply Hiq.
    - intros v Hv. rewrite Hhd. by apply Hpc.
    - intros v Hv. rewrite Hhd. by apply Htc.
    - intros v Hv. rewrite Hhd. by apply Hun.
    - intros v Hv. rewrite Hhd. by apply Hnon.
    - intros v Hv. rewrite Hhd. by apply Hroot.
  Qed.

  Lemma traced_children_ok m p : live_or_map m p → traced_children P m p = (m, kids P m p).
  Proof.
    intros (x & Hx & Hlm). unfold kids, traced_children. rewrite Hx.
    destruct (o_ismap x); [done|]. destruct Hlm as [?|Hv]; [done|]. rewrite Hv. by destruct (o_borrowed x).
  Qed.

  Lemma tracked_busy_nodup s p :
    NoDup (tracked s [p]) → NoDup (p :: proc s).
  Proof.
    unfold tracked, proc. intros H.
    assert (Hp : t_root s ++ t_non s ++ t_q s ++ pc (t_m s) ++ [p]
                 ≡ₚ p :: (t_root s ++ t_non s) ++ t_q s ++ pc (t_m s)).
    { rewrite !(assoc_L (++)). rewrite <- Permutation_cons_append. done. }
    rewrite Hp in H. apply NoDup_cons in H as [Hn H]. apply NoDup_app in H as (H & _ & _).
    apply NoDup_cons. split; [|done]. intros Hin. apply Hn. apply elem_of_app. by left.
  Qed.

  Lemma count_bound s p done c l :
    CInv [p] done s → kids P m0 p = done ++ c :: l →
    ∀ v, v ∈ tracked s [p] →
         (N.of_nat (cnt P m0 (proc s) v + occ (done ++ [c]) v) ≤ rc m0 v)%N.
  Proof.
    intros HI Hk v Hv.
    pose proof (reach_alloc v (ci_reach _ _ _ HI v Hv)) as Hal.
    pose proof (pp_count _ _ _ Hpre v Hal) as Hc.
    pose proof (tracked_busy_nodup s p (ci_nodup _ _ _ HI)) as Hnd.
    assert (Hle : (cnt P m0 (p :: proc s) v ≤ in_fields m0 v)%nat).
    { apply cnt_le_in_fields; [done|]. intros q Hq. apply alloc_lt, reach_alloc.
      apply (ci_reach _ _ _ HI). unfold tracked, proc in *.
      rewrite elem_of_cons, !elem_of_app in Hq. rewrite !elem_of_app, elem_of_list_singleton.
      tauto. }
    rewrite cnt_cons, Hk in Hle.
    replace (done ++ c :: l) with ((done ++ [c]) ++ l) in Hle by (by rewrite <- (assoc_L (++))).
    rewrite (occ_app _ l) in Hle. lia.
  Qed.

  Lemma fold_visit_counting_inv p l done s :
    CInv [p] done s → kids P m0 p = done ++ l →
    CInv [p] (done ++ l) (fold_left visit_counting l s) ∧
    length (proc (fold_left visit_counting l s)) = length (proc s).
  Proof.
    revert done s. induction l as [|c l IH]; intros done s HI Hk.
    - by rewrite (right_id_L [] (++)).
    - cbn [fold_left].
      replace (done ++ c :: l) with ((done ++ [c]) ++ l) by (by rewrite <- (assoc_L (++))).
      assert (Hstep : CInv [p] (done ++ [c]) (visit_counting s c) ∧
                      length (proc (visit_counting s c)) = length (proc s)).
      { apply visit_counting_inv; [done| |by eapply count_bound].
        apply (reach_kid _ _ p).
        + apply (ci_reach _ _ _ HI). unfold tracked.
          rewrite !elem_of_app, elem_of_list_singleton. tauto.
        + rewrite Hk. apply elem_of_app. right. left. }
      destruct Hstep as [H1 H2]. rewrite <- H2. apply IH; [done|by rewrite <- (assoc_L (++))].
  Qed.

  (** the end of [process_counting]: [p] goes to one of the two lists *)
  Lemma finish_inv s p root' non' :
    CInv [p] (kids P m0 p) s →
    (rc (t_m s) p = tc (t_m s) p ∧ root' = t_root s ∧ non' = p :: t_non s ∨
     rc (t_m s) p ≠ tc (t_m s) p ∧ root' = p :: t_root s ∧ non' = t_non s) →
    CInv [] [] (TState (uhdr p (set_mark IL) (t_m s)) root' non' (t_q s)).
  Proof.
    intros HI Hcase.
    pose proof HI as [Hfr Hnb Hsuf Hsz Hnd Hre Hil Hiq Hpc Htc Hun Hnon Hroot].
    assert (Hpt : p ∈ tracked s [p])
      by (unfold tracked; rewrite !elem_of_app, elem_of_list_singleton; tauto).
    assert (Hal : alloc m0 p) by (by apply reach_alloc, Hre).
    assert (Hsome : is_Some (get (t_m s) p)).
    { apply alloc_get. by apply (mframe_alloc K _ _ p Hfr). }
    destruct (upd1_uhdr p (set_mark IL) (t_m s) Hsome) as [Uh Uo Upc Usz Ulog].
    set (m' := uhdr p (set_mark IL) (t_m s)) in *.
    assert (Hrcall : ∀ v, rc m' v = rc (t_m s) v).
    { intros v. destruct (decide (v = p)) as [->|Hne]; [by rewrite Uh|by rewrite Uo]. }
    assert (Htcall : ∀ v, tc m' v = tc (t_m s) v).
    { intros v. destruct (decide (v = p)) as [->|Hne]; [by rewrite Uh|by rewrite Uo]. }
    assert (Hperm : root' ++ non' ≡ₚ p :: proc s).
    { unfold proc. destruct Hcase as [(_ & -> & ->)|(_ & -> & ->)]; [|done].
      by rewrite <- Permutation_middle. }
    assert (Hperm2 : root' ++ non' ++ t_q s ++ pc (t_m s) ++ [] ≡ₚ tracked s [p]).
    { unfold tracked. rewrite (right_id_L [] (++)). rewrite (assoc_L (++) root'), Hperm.
      unfold proc. cbn. rewrite !(assoc_L (++)). by rewrite <- Permutation_cons_append. }
    assert (Hcnt : ∀ v, cnt P m0 (root' ++ non') v
                        = (cnt P m0 (proc s) v + occ (kids P m0 p) v)%nat).
    { intros v. rewrite (cnt_perm _ _ _ _ v Hperm), cnt_cons. lia. }
    assert (Hpn : p ∉ proc s).
    { pose proof (tracked_busy_nodup s p Hnd) as H. by apply NoDup_cons in H as [? _]. }
    split; unfold tracked, proc, nobad in *; cbn [t_m t_root t_non t_q] in *;
      fold m'; rewrite ?Upc, ?Usz, ?Ulog; try done.
    - eapply mframe_trans; [done|]. apply mframe_uhdr_all, hdr_sim_set_mark.
    - by rewrite Hperm2.
    - intros v. rewrite Hperm2. apply Hre.
    - intros v Hv. rewrite Hperm, elem_of_cons. destruct (decide (v = p)) as [->|Hne].
      + rewrite Uh. cbn. tauto.
      + rewrite Uo by done. rewrite (Hil v Hv). tauto.
    - intros v Hv. rewrite (right_id_L [] (++)). destruct (decide (v = p)) as [->|Hne].
      + rewrite Uh. cbn. split; [done|]. intros Hq. exfalso.
        unfold tracked in Hnd. rewrite !(assoc_L (++)) in Hnd.
        apply NoDup_app in Hnd as (_ & Hd & _). apply (Hd p); [|by left].
        rewrite !elem_of_app. tauto.
      + rewrite Uo by done. rewrite (Hiq v Hv), elem_of_app, elem_of_list_singleton. tauto.
    - intros v Hv. destruct (decide (v = p)) as [->|Hne].
      + rewrite Uh. cbn. split; [done|]. intros Hq. exfalso.
        unfold tracked in Hnd. rewrite !(assoc_L (++)) in Hnd.
        apply NoDup_app in Hnd as (_ & Hd & _). apply (Hd p); [|by left].
        rewrite !elem_of_app. tauto.
      + rewrite Uo by done. by apply Hpc.
    - intros v. rewrite Hperm2. intros Hv. rewrite Htcall, Hcnt, occ_nil, (Htc v Hv). lia.
    - intros v. rewrite Hperm2. intros Hv. rewrite Hcnt, occ_nil. destruct (Hun v Hv) as [Hz Hs].
      split; [lia|]. assert (v ≠ p) by (intros ->; done). by rewrite Uo.
    - intros v Hv. rewrite Hrcall, Htcall.
      destruct Hcase as [(Heq & -> & ->)|(Hne & -> & ->)]; [|by apply Hnon].
      apply elem_of_cons in Hv as [->|Hv]; [done|by apply Hnon].
    - intros v Hv. rewrite Hrcall, Htcall.
      destruct Hcase as [(Heq & -> & ->)|(Hne & -> & ->)]; [by apply Hroot|].
      apply elem_of_cons in Hv as [->|Hv]; [done|by apply Hroot].
  Qed.

  Lemma hdr_of_uhdr_cases o f m v :
    hdr_of (uhdr o f m) v = hdr_of m v ∨ (v = o ∧ hdr_of (uhdr o f m) v = f (hdr_of m v)).
  Proof.
    destruct (decide (v = o)) as [->|]; [|left; by apply hdr_of_uhdr_ne].
    destruct (get m o) as [x|] eqn:Hx.
    - right. split; [done|]. apply hdr_of_uhdr_eq. eauto.
    - left. unfold hdr_of. by rewrite get_uhdr, decide_True, Hx by done.
  Qed.

  (** folds of tc-non-increasing header updates *)
  Lemma fold_uhdr_tc f l m v :
    (∀ h, (h_tc (f h) ≤ h_tc h)%N) →
    (v ∉ l → hdr_of (fold_left (λ m o, uhdr o f m) l m) v = hdr_of m v) ∧
    (tc (fold_left (λ m o, uhdr o f m) l m) v ≤ tc m v)%N.
  Proof.
    intros Hf. revert m. induction l as [|c l IH]; intros m; [done|]. cbn [fold_left].
    destruct (IH (uhdr c f m)) as [IH1 IH2]. split.
    - intros [Hne Hnl]%not_elem_of_cons. rewrite IH1 by done. by apply hdr_of_uhdr_ne.
    - etrans; [exact IH2|]. destruct (hdr_of_uhdr_cases c f m v) as [->|[_ ->]]; [done|apply Hf].
  Qed.

  (** every header is either untouched, or belongs to a reachable object whose tracing counter
      does not exceed its (unchanged) strong count *)
  Definition TcOk (m' : machine) : Prop :=
    ∀ o, hdr_of m' o = hdr_of m0 o ∨ (reach P m0 o ∧ (tc m' o ≤ rc m0 o)%N).

  Lemma CInv_tc_le busy s v :
    CInv busy [] s → v ∈ tracked s busy → (tc (t_m s) v ≤ rc m0 v)%N.
  Proof.
    intros HI Hv. rewrite (ci_tc _ _ _ HI v Hv), occ_nil, Nat.add_0_r.
    pose proof (pp_count _ _ _ Hpre v (reach_alloc v (ci_reach _ _ _ HI v Hv))) as Hc.
    assert (Hle : (cnt P m0 (proc s) v ≤ in_fields m0 v)%nat); [|lia].
    apply cnt_le_in_fields.
    - pose proof (ci_nodup _ _ _ HI) as Hnd. unfold tracked in Hnd.
      rewrite (assoc_L (++)) in Hnd. by apply NoDup_app in Hnd as [? _].
    - intros q Hq. apply alloc_lt, reach_alloc, (ci_reach _ _ _ HI). unfold tracked, proc in *.
      rewrite !elem_of_app in *. tauto.
  Qed.

  Lemma CInv_tcok busy s : CInv busy [] s → TcOk (t_m s).
  Proof.
    intros HI o. destruct (decide (o ∈ tracked s busy)) as [Ho|Ho].
    - right. split; [by apply (ci_reach _ _ _ HI)|by eapply CInv_tc_le].
    - left. by apply (ci_un _ _ _ HI).
  Qed.

  (** what an unwound counting phase leaves behind *)
  Definition PanicPost (m' : machine) : Prop :=
    mframe K m0 m' ∧ nobad m' ∧ pc m' `suffix_of` pc m0 ∧
    pc_size m' = N.of_nat (length (pc m')) ∧
    (∀ v, alloc m0 v → (mk m' v = NM ∨ mk m' v = PC) ∧ (mk m' v = PC ↔ v ∈ pc m')) ∧
    (∀ v, v ∈ pc m' → tc m' v = 0%N) ∧
    TcOk m'.

  Lemma set_mark_idem k h : set_mark k (set_mark k h) = set_mark k h.
  Proof. done. Qed.
  Lemma reset_tc_idem h : reset_tc (reset_tc h) = reset_tc h.
  Proof. done. Qed.

  Lemma panic_cleanup s p :
    CInv [p] [] s →
    PanicPost (reset_buffered
                 (unmark_all (t_root s ++ t_non s ++ t_q s) (uhdr p (set_mark NM) (t_m s)))).
  Proof.
    intros HI.
    pose proof HI as [Hfr Hnb Hsuf Hsz Hnd Hre Hil Hiq Hpc Htc Hun Hnon Hroot].
    set (m2 := uhdr p (set_mark NM) (t_m s)).
    set (L := t_root s ++ t_non s ++ t_q s).
    set (m3 := unmark_all L m2).
    destruct (fold_uhdr_same (set_mark NM) L m2) as (Hpc3 & Hsz3 & Hlog3). fold (unmark_all L m2) in *.
    fold m3 in Hpc3, Hsz3, Hlog3.
    unfold reset_buffered.
    destruct (fold_uhdr_same reset_tc (pc m3) m3) as (Hpc4 & Hsz4 & Hlog4).
    set (m4 := fold_left _ (pc m3) m3) in *.
    assert (Hpcs : pc m3 = pc (t_m s)) by (by rewrite Hpc3).
    assert (Hfr2 : mframe K m0 m2).
    { eapply mframe_trans; [done|]. apply mframe_uhdr_all, hdr_sim_set_mark. }
    assert (Hfr3 : mframe K m0 m3) by (eapply mframe_trans; [done|apply unmark_all_frame]).
    assert (Hfr4 : mframe K m0 m4) by (eapply mframe_trans; [done|apply reset_fold_frame]).
    assert (Hsome : ∀ m v, mframe K m0 m → alloc m0 v → is_Some (get m v)).
    { intros m v Hm Hv. apply alloc_get. by apply (mframe_alloc K _ _ v Hm). }
    assert (Hm2 : ∀ v, alloc m0 v →
              hdr_of m2 v = if decide (v = p) then set_mark NM (hdr_of (t_m s) v)
                            else hdr_of (t_m s) v).
    { intros v Hv. subst m2. destruct (decide (v = p)) as [->|Hne].
      - apply hdr_of_uhdr_eq. by apply Hsome.
      - by apply hdr_of_uhdr_ne. }
    assert (Hm3 : ∀ v, alloc m0 v →
              hdr_of m3 v = if decide (v ∈ L) then set_mark NM (hdr_of m2 v) else hdr_of m2 v).
    { intros v Hv. apply hdr_of_fold_uhdr; [done|]. by apply Hsome. }
    assert (Hm4 : ∀ v, alloc m0 v →
              hdr_of m4 v = if decide (v ∈ pc m3) then reset_tc (hdr_of m3 v) else hdr_of m3 v).
    { intros v Hv. apply hdr_of_fold_uhdr; [done|]. by apply Hsome. }
    assert (Hdisj : ∀ v, v ∈ pc (t_m s) → v ∉ L ∧ v ≠ p).
    { intros v Hv. unfold tracked in Hnd. rewrite !(assoc_L (++)) in Hnd.
      apply NoDup_app in Hnd as (Hnd & Hd1 & _). apply NoDup_app in Hnd as (_ & Hd2 & _).
      split.
      - intros HL. apply (Hd2 v); [|done]. subst L. by rewrite <- !(assoc_L (++)).
      - intros ->. apply (Hd1 p); [|by left]. apply elem_of_app. by right. }
    assert (Hmark4 : ∀ v, alloc m0 v → mk m4 v = mk m3 v).
    { intros v Hv. rewrite (Hm4 v Hv). by destruct (decide _). }
    split; [done|]. split; [unfold nobad; rewrite Hlog4, Hlog3; apply Hnb|].
    split; [by rewrite Hpc4, Hpcs|]. split; [by rewrite Hsz4, Hpc4, Hsz3, Hpcs|].
    split.
    - intros v H. split; [|split].
      + rewrite (Hmark4 v H), (Hm3 v H), (Hm2 v H).
        destruct (decide (v ∈ L)) as [|n]; [by left|]. destruct (decide (v = p)); [by left|].
        pose proof (tracked_mark _ _ _ v HI H) as Htm.
        destruct (mk (t_m s) v) eqn:Hmk; [by left|by right| |].
        * exfalso. apply n. subst L. apply (Hil v H) in Hmk. unfold proc in Hmk.
          rewrite !elem_of_app in *. tauto.
        * exfalso. apply (Hiq v H) in Hmk. rewrite elem_of_app, elem_of_list_singleton in Hmk.
          destruct Hmk as [Hq| ->]; [|done]. apply n. subst L. rewrite !elem_of_app. tauto.
      + rewrite (Hmark4 v H), (Hm3 v H), (Hm2 v H), Hpc4, Hpcs.
        destruct (decide (v ∈ L)); [done|]. destruct (decide (v = p)); [done|].
        by apply Hpc.
      + rewrite (Hmark4 v H), (Hm3 v H), (Hm2 v H), Hpc4, Hpcs. intros Hv.
        destruct (Hdisj v Hv) as [HL Hp]. rewrite decide_False by done.
        rewrite decide_False by done. by apply Hpc.
    - split.
      { intros v. rewrite Hpc4. intros Hv.
        assert (Hal : alloc m0 v).
        { apply reach_alloc, Hre. rewrite Hpcs in Hv. unfold tracked. rewrite !elem_of_app. tauto. }
        rewrite (Hm4 v Hal). by rewrite decide_True by done. }
      intros v.
      destruct (fold_uhdr_tc reset_tc (pc m3) m3 v) as [E4 T4]; [cbn; lia|]. fold m4 in E4, T4.
      destruct (fold_uhdr_tc (set_mark NM) L m2 v) as [E3 T3]; [done|].
      fold (unmark_all L m2) in E3, T3. fold m3 in E3, T3.
      destruct (decide (v ∈ tracked s [p])) as [Hv|Hv].
      + right. split; [by apply Hre|]. etrans; [exact T4|]. etrans; [exact T3|].
        etrans; [|by eapply CInv_tc_le]. subst m2.
        destruct (hdr_of_uhdr_cases p (set_mark NM) (t_m s) v) as [->|[_ ->]]; done.
      + left. pose proof (proj2 (Hun v Hv)) as Hsame.
        unfold tracked in Hv. rewrite !not_elem_of_app, not_elem_of_cons in Hv.
        destruct Hv as (Hv1 & Hv2 & Hv3 & Hv4 & Hv5 & _).
        rewrite E4 by (by rewrite Hpcs). rewrite E3 by (subst L; rewrite !not_elem_of_app; done).
        subst m2. by rewrite hdr_of_uhdr_ne by done.
  Qed.

  Lemma process_counting_inv s p :
    CInv [p] [] (TState (uhdr p (set_mark IQ) (t_m s)) (t_root s) (t_non s) (t_q s)) →
    match process_counting K P s p with
    | (s', false) => CInv [] [] s' ∧ length (proc s') = S (length (proc s))
    | (s', true) => PanicPost (t_m s')
    end.
  Proof.
    intros HI. unfold process_counting.
    set (m1' := uhdr p (set_mark IQ) (t_m s)) in *.
    pose proof (trace_event_same p m1') as (Hh & Hp & Hs & Hl).
    pose proof (trace_event_frame K p m1') as Hf.
    destruct (trace_event K p m1') as [m1 boom]. cbn [fst] in *.
    assert (Hfr1 : mframe K m0 m1) by (eapply mframe_trans; [apply HI|done]).
    pose proof (CInv_transport _ _ _ m1 HI Hh Hp Hs Hfr1 Hl) as HI1.
    cbn [t_m t_root t_non t_q] in HI1.
    destruct boom.
    - cbn [t_m]. apply (panic_cleanup _ _ HI1).
    - assert (Hrp : reach P m0 p).
      { apply (ci_reach _ _ _ HI1). unfold tracked.
        rewrite !elem_of_app, elem_of_list_singleton. tauto. }
      assert (Hlm : live_or_map m1 p).
      { apply (mframe_live_or_map K _ _ p Hfr1). by apply (pp_reach _ _ _ Hpre). }
      rewrite (traced_children_ok _ _ Hlm), (mframe_kids K P _ _ p Hfr1).
      destruct (fold_visit_counting_inv p (kids P m0 p) [] _ HI1 eq_refl) as [HI2 Hlen].
      set (s2 := fold_left visit_counting _ _) in *. cbn [app] in HI2.
      unfold proc at 2 in Hlen. cbn [t_root t_non] in Hlen. fold (proc s) in Hlen.
      destruct (N.eqb_spec (rc (t_m s2) p) (tc (t_m s2) p)) as [Heq|Hne].
      + split; [apply finish_inv; [done|]; left; done|].
        unfold proc in *. cbn [t_root t_non]. rewrite app_length in *. cbn [length]. lia.
      + split; [apply finish_inv; [done|]; right; done|].
        unfold proc in *. cbn [t_root t_non]. rewrite app_length in *. cbn [length]. lia.
  Qed.

  Lemma CInv_init : CInv [] [] (TState m0 [] [] []).
  Proof.
    destruct Hpre as [Hnd Hpm Hmk Hmp Hsz Htc Hcnt Hmax Hre].
    split; unfold tracked, proc, nobad; cbn [t_m t_root t_non t_q app];
      rewrite ?(right_id_L [] (++)); try done.
    - apply mframe_refl.
    - intros v Hv. by apply reach_pc.
    - intros v Hv. rewrite elem_of_nil. destruct (Hmk v Hv) as [-> | ->]; split; done.
    - intros v Hv. rewrite elem_of_nil. destruct (Hmk v Hv) as [-> | ->]; split; done.
    - intros v Hv. split; [by apply Hmp|by apply Hpm].
    - intros v Hv. by apply elem_of_nil in Hv.
    - intros v Hv. by apply elem_of_nil in Hv.
  Qed.

  Lemma pop_inv s p m' q' :
    CInv [] [] s →
    (∀ v, hdr_of m' v = if decide (v = p) then set_mark IQ (hdr_of (t_m s) v)
                        else hdr_of (t_m s) v) →
    log m' = log (t_m s) → mframe K m0 m' →
    (t_q s = p :: q' ∧ pc m' = pc (t_m s) ∧ pc_size m' = pc_size (t_m s) ∨
     t_q s = q' ∧ pc (t_m s) = p :: pc m' ∧ pc_size m' = (pc_size (t_m s) - 1)%N) →
    CInv [p] [] (TState m' (t_root s) (t_non s) q').
  Proof.
    intros [Hfr Hnb Hsuf Hsz Hnd Hre Hil Hiq Hpc Htc Hun Hnon Hroot] Hh Hlog Hfr' Hcase.
    assert (Hperm : t_root s ++ t_non s ++ q' ++ pc m' ++ [p] ≡ₚ tracked s []).
    { unfold tracked. rewrite (right_id_L [] (++)).
      destruct Hcase as [(-> & -> & _)|(-> & -> & _)].
      - do 2 f_equiv. cbn. rewrite (assoc_L (++)). by rewrite <- Permutation_cons_append.
      - do 3 f_equiv. by rewrite <- Permutation_cons_append. }
    assert (Hpt : p ∈ tracked s []).
    { rewrite <- Hperm. rewrite !elem_of_app, elem_of_list_singleton. tauto. }
    assert (Hnd' : NoDup (t_root s ++ t_non s ++ q' ++ pc m' ++ [p])) by (by rewrite Hperm).
    assert (Hpn : p ∉ t_root s ++ t_non s ++ q' ++ pc m').
    { rewrite !(assoc_L (++)) in Hnd'. apply NoDup_app in Hnd' as (_ & Hd & _).
      intros Hin. apply (Hd p); [|by left]. by rewrite <- !(assoc_L (++)). }
    assert (Hmk : ∀ v, v ≠ p → mk m' v = mk (t_m s) v).
    { intros v Hv. by rewrite Hh, decide_False. }
    assert (Htcall : ∀ v, tc m' v = tc (t_m s) v).
    { intros v. rewrite Hh. by destruct (decide _). }
    assert (Hrcall : ∀ v, rc m' v = rc (t_m s) v).
    { intros v. rewrite Hh. by destruct (decide _). }
    assert (Hmkp : mk m' p = IQ) by (by rewrite Hh, decide_True).
    split; unfold tracked, proc, nobad; cbn [t_m t_root t_non t_q]; try done.
    - by rewrite Hlog.
    - destruct Hcase as [(_ & -> & _)|(_ & Hp & _)]; [done|].
      etrans; [|done]. rewrite Hp. by apply suffix_cons_r.
    - destruct Hcase as [(_ & -> & ->)|(_ & Hp & ->)]; [done|].
      rewrite Hsz, Hp. cbn [length]. lia.
    - intros v. rewrite Hperm. apply Hre.
    - intros v Hv. destruct (decide (v = p)) as [->|Hne].
      + rewrite Hmkp. split; [done|]. intros Hin. exfalso. apply Hpn.
        unfold proc in Hin. rewrite !elem_of_app in *. tauto.
      + rewrite Hmk by done. by apply Hil.
    - intros v Hv. destruct (decide (v = p)) as [->|Hne].
      + rewrite Hmkp. split; [|done]. intros _. rewrite elem_of_app, elem_of_list_singleton. tauto.
      + rewrite Hmk by done. rewrite (Hiq v Hv), (right_id_L [] (++)).
        rewrite elem_of_app, elem_of_list_singleton.
        destruct Hcase as [(-> & _)|(-> & _)]; [rewrite elem_of_cons|]; tauto.
    - intros v Hv. destruct (decide (v = p)) as [->|Hne].
      + rewrite Hmkp. split; [done|]. intros Hin. exfalso. apply Hpn.
        rewrite !elem_of_app. tauto.
      + rewrite Hmk by done. rewrite (Hpc v Hv).
        destruct Hcase as [(_ & -> & _)|(_ & -> & _)]; [|rewrite elem_of_cons]; tauto.
    - intros v. rewrite Hperm. intros Hv. rewrite Htcall. by apply Htc.
    - intros v. rewrite Hperm. intros Hv. destruct (Hun v Hv) as [Hz Hs]. split; [done|].
      assert (v ≠ p) by (intros ->; done). rewrite Hh, decide_False by done. done.
    - intros v Hv. rewrite Hrcall, Htcall. by apply Hnon.
    - intros v Hv. rewrite Hrcall, Htcall. by apply Hroot.
  Qed.

  Lemma nodup_bound (l : list id) n :
    NoDup l → (∀ x, x ∈ l → (x < n)%nat) → (length l ≤ n)%nat.
  Proof.
    intros Hnd Hlt. assert (Hsub : l ⊆+ seq 0 n).
    { apply NoDup_submseteq; [done|]. intros x Hx. apply elem_of_seq. specialize (Hlt x Hx). lia. }
    apply submseteq_length in Hsub. by rewrite seq_length in Hsub.
  Qed.

  Lemma proc_room s p :
    CInv [p] [] s → (length (proc s) < length (heap m0))%nat.
  Proof.
    intros HI. pose proof (tracked_busy_nodup s p (ci_nodup _ _ _ HI)) as Hnd.
    apply (nodup_bound _ (length (heap m0))) in Hnd; [cbn [length] in Hnd; lia|].
    intros q Hq. apply alloc_lt, reach_alloc, (ci_reach _ _ _ HI). unfold tracked, proc in *.
    rewrite elem_of_cons, !elem_of_app in Hq. rewrite !elem_of_app, elem_of_list_singleton.
    tauto.
  Qed.

  Lemma is_Some_get_uhdr o f m v : is_Some (get (uhdr o f m) v) ↔ is_Some (get m v).
  Proof.
    rewrite get_uhdr. destruct (decide (v = o)); [|done]. by rewrite fmap_is_Some.
  Qed.

  Lemma counting_inv fuel s :
    CInv [] [] s → (length (heap m0) - length (proc s) < fuel)%nat →
    ∃ s' b, counting K P fuel s = Some (s', b) ∧
      if (b : bool) then PanicPost (t_m s')
      else CInv [] [] s' ∧ pc (t_m s') = [] ∧ t_q s' = [].
  Proof.
    revert s. induction fuel as [|f IH]; intros s HI Hfuel; [lia|]. cbn [counting].
    assert (Hsome : ∀ v, v ∈ tracked s [] → is_Some (get (t_m s) v)).
    { intros v Hv. apply alloc_get. apply (mframe_alloc K _ _ v (ci_frame _ _ _ HI)).
      apply reach_alloc, (ci_reach _ _ _ HI), Hv. }
    destruct (pc (t_m s)) as [|p rest] eqn:Hpc.
    - destruct (t_q s) as [|p q'] eqn:Hq.
      + exists s, false. split; [done|]. done.
      + set (m1 := uhdr p (set_mark NM) (t_m s)).
        assert (Hps : is_Some (get (t_m s) p)).
        { apply Hsome. unfold tracked. rewrite Hq, !elem_of_app, elem_of_cons. tauto. }
        assert (HI1 : CInv [p] [] (TState (uhdr p (set_mark IQ) m1) (t_root s) (t_non s) q')).
        { apply pop_inv; [done| |done| |].
          - intros v. subst m1. destruct (decide (v = p)) as [->|Hne].
            + rewrite !hdr_of_uhdr_eq; [done|done|]. by apply is_Some_get_uhdr.
            + by rewrite !hdr_of_uhdr_ne.
          - eapply mframe_trans; [apply HI|]. eapply mframe_trans;
              apply mframe_uhdr_all, hdr_sim_set_mark.
          - left. done. }
        pose proof (process_counting_inv (TState m1 (t_root s) (t_non s) q') p HI1) as Hpc1.
        pose proof (proc_room _ _ HI1) as Hroom.
        destruct (process_counting K P _ p) as [s1 boom]. destruct boom.
        * exists s1, true. done.
        * destruct Hpc1 as [HI2 Hlen]. unfold proc in *. cbn [t_root t_non] in *.
          apply IH; [done|]. unfold proc. lia.
    - set (m1 := dec_size p (uhdr p (set_mark NM) (t_m s) <| pc := rest |>)).
      assert (Hps : is_Some (get (t_m s) p)).
      { apply Hsome. unfold tracked. rewrite Hpc, !elem_of_app, elem_of_cons. tauto. }
      assert (Hsz : pc_size (t_m s) = N.of_nat (S (length rest))).
      { rewrite (ci_size _ _ _ HI), Hpc. done. }
      assert (Hm1 : m1 = uhdr p (set_mark NM) (t_m s) <| pc := rest |>
                                <| pc_size ::= λ n, (n - 1)%N |>).
      { subst m1. unfold dec_size.
        change (pc_size (uhdr p (set_mark NM) (t_m s) <| pc := rest |>)) with (pc_size (t_m s)).
        destruct (N.eqb_spec (pc_size (t_m s)) 0) as [Hz|_]; [lia|done]. }
      assert (HI1 : CInv [p] [] (TState (uhdr p (set_mark IQ) m1) (t_root s) (t_non s) (t_q s))).
      { apply pop_inv; [done| |by rewrite Hm1| |].
        - intros v. rewrite Hm1. destruct (decide (v = p)) as [->|Hne].
          + rewrite hdr_of_uhdr_eq; [|by apply (is_Some_get_uhdr p (set_mark NM) (t_m s))].
            change (hdr_of (_ <| pc_size ::= _ |>) p)
              with (hdr_of (uhdr p (set_mark NM) (t_m s)) p).
            by rewrite hdr_of_uhdr_eq.
          + rewrite hdr_of_uhdr_ne by done.
            change (hdr_of (_ <| pc_size ::= _ |>) v)
              with (hdr_of (uhdr p (set_mark NM) (t_m s)) v).
            by rewrite hdr_of_uhdr_ne.
        - eapply mframe_trans; [apply HI|]. eapply mframe_trans;
            [|apply mframe_uhdr_all, hdr_sim_set_mark]. subst m1.
          eapply mframe_trans; [|apply mframe_dec_size].
          eapply mframe_trans; [|apply mframe_set_pc]. apply mframe_uhdr_all, hdr_sim_set_mark.
        - right. rewrite Hm1. done. }
      pose proof (process_counting_inv (TState m1 (t_root s) (t_non s) (t_q s)) p HI1) as Hpc1.
      pose proof (proc_room _ _ HI1) as Hroom.
      destruct (process_counting K P _ p) as [s1 boom]. destruct boom.
      + exists s1, true. done.
      + destruct Hpc1 as [HI2 Hlen]. unfold proc in *. cbn [t_root t_non] in *.
        apply IH; [done|]. unfold proc. lia.
  Qed.
End Count.
