(** * LifeGhost5: [LifeGhost4] continued: [cmd_new_cyclic], [cmd_bag], [step], and the theorem for [run]:
    [run n k (dl s m) = (dl s (run n k m).1, (run n k m).2)] (the field [dead] is a ghost). *)
From Coq Require Import NArith Bool List Lia.
From stdpp Require Import base list option.
From RecordUpdate Require Import RecordSet.
From RC Require Import Hdr Machine RunInd LifeGhost LifeGhost2 LifeGhost3 LifeGhost4.
Import ListNotations RecordSetNotations.
Local Open Scope N_scope.

Section Rel.
  Context (K : conf) (P : prog).
  Context (MK : list id -> Prop).
  Hypothesis MK_nil : MK [].
  Hypothesis MK_app : forall a b, MK a -> MK b -> MK (a ++ b).
  Context (rec1 rec2 : call -> machine -> machine * outcome).
  Hypothesis Hrel : forall k, related MK (rec1 k) (rec2 k).

  Ltac mk_solve := repeat first [ assumption | apply MK_nil | apply MK_app ].
  Ltac noproj X :=
    lazymatch X with
    | context [fst _] => fail
    | context [snd _] => fail
    | context [match _ with _ => _ end] => fail
    | _ => idtac
    end.
  Ltac rstep :=
    first
    [ match goal with
      | |- context [unwinding (rec1 ?k) (dl ?sg ?X)] =>
        noproj X;
        let t := fresh "t" in let Ht := fresh "Ht" in let E := fresh "E" in
        destruct (unwinding_rel MK rec1 rec2 Hrel k sg X) as (t & Ht & E); rewrite E; clear E;
        rewrite <- ?app_assoc
      | |- context [rec1 ?k (dl ?sg ?X)] =>
        noproj X;
        let t := fresh "t" in let Ht := fresh "Ht" in let E := fresh "E" in
        destruct (Hrel k sg X) as (t & Ht & E); rewrite E; clear E;
        rewrite <- ?app_assoc
      | |- context [fold_left ?f ?l (dl ?sg ?X)] =>
        rewrite (fold_dl f sg) by (intros; autorewrite with dlr; reflexivity)
      end
    | dstep_proj
    | dstep_bind
    | dstep_fmap
    | dstep_match ].
  Ltac rfin := try (eexists; split; [ | reflexivity ]; mk_solve).
  Ltac rgo := intros s m; rewrite (dl_app_nil s m); dlnorm; repeat (rstep; dlnorm); rfin.

  Lemma r_cmd_new_cyclic self dst cls script sw :
    related MK (cmd_new_cyclic K P rec1 self dst cls script sw) (cmd_new_cyclic K P rec2 self dst cls script sw).
  Proof. unfold cmd_new_cyclic. rgo. Qed.
  Lemma r_cmd_bag self l k : related MK (cmd_bag self l k) (cmd_bag self l k).
  Proof.
    intros s m. exists []. split; [apply MK_nil|]. rewrite app_nil_r. unfold cmd_bag. dlnorm.
    destruct (resolve self l m) as [m0 r]. cbn [fst snd].
    destruct r as [r|]; cbn [mbind option_bind]; [|reflexivity].
    rewrite read_loc_dl. destruct (read_loc r m0) as [o|]; [|reflexivity].
    generalize (N.to_nat k). intros n. revert m0. induction n as [|n IH]; intros m0; [reflexivity|].
    rewrite hdr_of_dl. destruct (inc_rc (hdr_of m0 o)); [|reflexivity]. dlnorm. apply IH.
  Qed.

  Lemma r_step_cmd self c : related MK (step_cmd K P rec1 self c) (step_cmd K P rec2 self c).
  Proof.
    destruct c; cbn [step_cmd].
    - apply r_cmd_new; assumption.
    - apply r_cmd_clone; assumption.
    - apply r_cmd_drop; assumption.
    - apply r_cmd_move; assumption.
    - apply r_cmd_mark_alive; assumption.
    - apply r_cmd_collect; assumption.
    - apply r_cmd_downgrade; assumption.
    - apply r_cmd_upgrade; assumption.
    - apply r_cmd_w_new; assumption.
    - apply r_cmd_w_clone; assumption.
    - apply r_cmd_w_drop; assumption.
    - apply r_cmd_try_unwrap; assumption.
    - apply r_cmd_drop_value; assumption.
    - apply r_cmd_fin_again; assumption.
    - apply r_cmd_new_cyclic; assumption.
    - apply r_cmd_register; assumption.
    - apply r_cmd_clean; assumption.
    - apply r_cmd_c_drop; assumption.
    - apply r_cmd_bag; assumption.
    - apply r_cmd_unbag; assumption.
    - apply r_cmd_borrow; assumption.
    - apply r_cmd_unborrow; assumption.
    - apply r_cmd_cfg_auto; assumption.
    - apply r_cmd_cfg_percent; assumption.
    - apply r_cmd_cfg_buffered; assumption.
    - apply r_cmd_arm; assumption.
    - apply r_cmd_panic; assumption.
    - apply r_cmd_obs; assumption.
    - apply r_cmd_w_obs; assumption.
    - apply r_cmd_s_obs; assumption.
  Qed.

  Theorem r_step k : related MK (step K P rec1 k) (step K P rec2 k).
  Proof.
    destruct k; cbn [step].
    - apply r_step_cmd.
    - apply r_step_script; assumption.
    - apply r_step_store; assumption.
    - apply r_step_drop_cc; assumption.
    - apply r_step_drop_value; assumption.
    - apply r_step_drop_fields; assumption.
    - apply r_step_drop_map_slots; assumption.
    - apply r_step_trigger; assumption.
    - apply r_step_collect_cycles; assumption.
    - apply r_step_collect; assumption.
    - apply r_step_collect_loop; assumption.
    - apply r_step_collect_once; assumption.
    - apply r_step_finalize_list; assumption.
    - apply r_step_drop_list; assumption.
    - apply r_step_unbag; assumption.
    - apply r_step_clean_run; assumption.
  Qed.
End Rel.

(** ** [dead] is a ghost: appending to it commutes with every run *)
Theorem run_dl K P n : forall k s m,
  run K P n k (dl s m) = (dl s (run K P n k m).1, (run K P n k m).2).
Proof.
  induction n as [|n IH]; intros k s m; [reflexivity|]. rewrite !run_S.
  assert (Happ : forall a b : list id, a = [] -> b = [] -> a ++ b = []) by (intros a b -> ->; reflexivity).
  assert (Hr : forall k', related (fun t => t = []) (run K P n k') (run K P n k')).
  { intros k' s' m'. exists []. split; [reflexivity|]. rewrite app_nil_r. apply IH. }
  destruct (r_step K P (fun t => t = []) eq_refl Happ (run K P n) (run K P n) Hr k s m) as (t & Ht & E).
  rewrite Ht, app_nil_r in E. exact E.
Qed.
Print Assumptions run_dl.
