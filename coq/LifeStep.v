(** * LifeStep: every activation preserves the lifecycle invariant (pre/post-conditions and the
    step cases; the induction itself is [Life.mrun_ind], in LifeFin.v). *)
From Coq Require Import NArith Bool List Lia.
From stdpp Require Import base list option.
From RecordUpdate Require Import RecordSet.
From RC Require Import Hdr Machine RunInd Flags.
From RC Require Import Inv InvP LifeInv LifeInv2 LifeChk.
Import ListNotations RecordSetNotations.
Local Open Scope N_scope.

Definition no_fa_cmd (c : cmd) : bool := match c with CFinAgain _ => false | _ => true end.
Definition prog_nfa (P : prog) : bool := forallb (forallb no_fa_cmd) (p_scripts P).

Lemma script_nfa P s : prog_nfa P = true -> forallb no_fa_cmd (script_of P s) = true.
Proof.
  unfold prog_nfa, script_of. intros H. destruct (p_scripts P !! s) as [cs|] eqn:E; [|reflexivity]. cbn.
  rewrite forallb_forall in H. apply H. apply elem_of_list_In. eapply elem_of_list_lookup_2. exact E.
Qed.
Lemma oscript_nfa P s : prog_nfa P = true -> forallb no_fa_cmd (oscript P s) = true.
Proof. destruct s; [apply script_nfa | reflexivity]. Qed.

Section Step.
  Context (K : conf) (P : prog) (mu : id) (nfa : bool).
  Hypothesis Hprog : nfa = true -> prog_nfa P = true.
  Notation Ls := (Ls K mu nfa).
  Notation G := (G mu).
  Notation Linv := (Linv K nfa).

  Definition Pre2 (c : call) (m : machine) : Prop :=
    match c with
    | KCmd _ c => nfa = true -> no_fa_cmd c = true
    | KScript _ cs => nfa = true -> forallb no_fa_cmd cs = true
    | KFinalizeList _ _ _ _ => k_fin K = true
    | _ => True
    end.

  Definition Post2 (c : call) (m m' : machine) (r : outcome) : Prop :=
    Ls (length (heap m)) m m' /\
    match c with
    | KDropValue o => (r = ONormal \/ r = OPanic) -> G m' -> exists x', get m' o = Some x' /\ o_vst x' = VDropped
    | _ => True
    end.

  Lemma Post2_vac c m m' r : mem_id mu (dead m') = true -> Post2 c m m' r.
  Proof.
    intros Hm. assert (HnG : ~ G m') by (intros [_ H]; congruence).
    split; [apply Ls_vac, HnG|]. destruct c; auto. intros _ HG. contradiction.
  Qed.
  Lemma Post2_fuel c m : Pre2 c m -> Post2 c m m OFuel.
  Proof. intros _. split; [apply Ls_refl|]. destruct c; auto. intros [H|H]; discriminate. Qed.

  Lemma Ls_step n0 m0 mi m' : Ls n0 m0 mi -> Ls (length (heap mi)) mi m' -> Ls n0 m0 m'.
  Proof.
    intros (A1 & A2 & A3) (B1 & B2 & B3). split; [auto|]. split; [auto|].
    intros HG. pose proof (B1 HG) as HGi. destruct (A3 HGi) as [L1 F1]. destruct (B3 HG) as [L2 F2].
    split; [lia|]. intros o x Ho Hx. destruct (F1 o x Ho Hx) as (y & Hy & FF1).
    destruct (F2 o y (lookup_lt_Some _ _ _ Hy) Hy) as (z & Hz & FF2).
    exists z. split; [exact Hz | eapply ObjF_trans; eassumption].
  Qed.
  Lemma Ls_q n0 m0 mi m' : Ls n0 m0 mi -> Quiet mi m' -> Ls n0 m0 m'.
  Proof. intros H HQ. eapply Ls_trans; [exact H | apply Quiet_Ls, HQ]. Qed.

  Context (rec : call -> machine -> machine * outcome).
  Hypothesis Hrec : rec_ok Pre2 Post2 rec.

  Lemma Ls_rec n0 m0 mi c : Ls n0 m0 mi -> Pre2 c mi -> Ls n0 m0 (rec c mi).1.
  Proof. intros H Hp. eapply Ls_step; [exact H | apply (Hrec c mi Hp)]. Qed.

  Lemma Ls_unwinding n0 m0 mi c :
    Ls n0 m0 mi -> Pre2 c (mi <| panicking := true |>) -> Ls n0 m0 (unwinding (rec c) mi).1.
  Proof.
    intros H Hp. unfold unwinding.
    assert (H1 : Ls n0 m0 (mi <| panicking := true |>)) by (eapply Ls_q; [exact H | lq]).
    pose proof (Ls_rec n0 m0 _ c H1 Hp) as H2. destruct (rec c (mi <| panicking := true |>)) as [m1 r1].
    cbn [fst snd] in *. eapply Ls_q; [exact H2 | lq].
  Qed.
End Step.

#[export] Hint Extern 2 (Quiet _ (fst (ok _ _))) => (unfold ok; cbn [fst]) : lq.
#[export] Hint Extern 2 (Quiet _ (ok _ _).1) => (unfold ok; cbn [fst]) : lq.
