(** * LifeGhost2: the interpreter commutes with appending ids at the end of the ghost [dead],
    in relational (two interpreters) form: if [rec1] behaves on [dl s m] like [rec2] on [m] up to
    a further list [t] of appended ids satisfying [MK], so does [step rec1] w.r.t. [step rec2]. *)
From Coq Require Import NArith Bool List Lia.
From stdpp Require Import base list option.
From RecordUpdate Require Import RecordSet.
From RC Require Import Hdr Machine RunInd LifeGhost.
Import ListNotations RecordSetNotations.
Local Open Scope N_scope.

Section Rel.
  Context (K : conf) (P : prog).
  Context (MK : list id -> Prop).
  Hypothesis MK_nil : MK [].
  Hypothesis MK_app : forall a b, MK a -> MK b -> MK (a ++ b).
  Context (rec1 rec2 : call -> machine -> machine * outcome).

  Definition related (X1 X2 : machine -> machine * outcome) : Prop :=
    forall s m, exists t, MK t /\ X1 (dl s m) = (dl (s ++ t) (X2 m).1, (X2 m).2).

  Hypothesis Hrel : forall k, related (rec1 k) (rec2 k).

  Lemma unwinding_rel k s m : exists t, MK t /\
    unwinding (rec1 k) (dl s m) = (dl (s ++ t) (unwinding (rec2 k) m).1, (unwinding (rec2 k) m).2).
  Proof.
    unfold unwinding. dlnorm.
    destruct (Hrel k s (m <| panicking := true |>)) as (t & Ht & E). rewrite E.
    exists t. split; [exact Ht|]. destruct (rec2 k (m <| panicking := true |>)) as [m1 r1].
    cbn [fst snd]. dlnorm. reflexivity.
  Qed.

  Lemma dl_app_nil s m : dl s m = dl (s ++ []) m.
  Proof. rewrite app_nil_r. reflexivity. Qed.

  Ltac mk_solve := repeat first [ assumption | apply MK_nil | apply MK_app ].

  Ltac noproj X :=
    lazymatch X with
    | context [fst _] => fail
    | context [snd _] => fail
    | context [match _ with _ => _ end] => fail
    | _ => idtac
    end.
  Ltac rstep :=
    first
    [ match goal with
      | |- context [unwinding (rec1 ?k) (dl ?sg ?X)] =>
        noproj X;
        let t := fresh "t" in let Ht := fresh "Ht" in let E := fresh "E" in
        destruct (unwinding_rel k sg X) as (t & Ht & E); rewrite E; clear E;
        rewrite <- ?app_assoc
      | |- context [rec1 ?k (dl ?sg ?X)] =>
        noproj X;
        let t := fresh "t" in let Ht := fresh "Ht" in let E := fresh "E" in
        destruct (Hrel k sg X) as (t & Ht & E); rewrite E; clear E;
        rewrite <- ?app_assoc
      | |- context [fold_left ?f ?l (dl ?sg ?X)] =>
        rewrite (fold_dl f sg) by (intros; autorewrite with dlr; reflexivity)
      end
    | dstep_proj
    | dstep_bind
    | dstep_fmap
    | dstep_match ].

  Ltac rfin := try (eexists; split; [ | reflexivity ]; mk_solve).
  Ltac rgo := intros s m; rewrite (dl_app_nil s m); dlnorm; repeat (rstep; dlnorm); rfin.

  Lemma r_step_script self cs : related (step_script rec1 self cs) (step_script rec2 self cs).
  Proof. unfold step_script. rgo. Qed.
  Lemma r_step_store r v : related (step_store rec1 r v) (step_store rec2 r v).
  Proof. unfold step_store. rgo. Qed.
  (** [step_drop_cc] in two parts (the automatic walk is too slow on the whole definition) *)
  Definition dcc_fin (rec : call -> machine -> machine * outcome) (o : id) (x : obj) (m : machine)
      : machine * outcome * bool :=
    if k_fin K && needs_fin (o_hdr x) then
      let old_f := st_finalizing m in
      let m := m <| st_finalizing := true |> in
      let m := uhdr o (set_fin true) m in
      let '(m, r) :=
        if o_ismap x then (m, ONormal)
        else
          let m := emit (ECb KFin o (cur_flags K m)) m in
          let '(m, boom) := tick KFin m in
          if boom then (m, raise m)
          else rec (KScript (Some o) (oscript P (c_fin (class_of P (o_cls x))))) m in
      match r with
      | ONormal =>
        if h_rc (hdr_of m o) =? 1 then (m <| st_finalizing := old_f |>, ONormal, true)
        else (add_to_list o (dec_rc_m o m) <| st_finalizing := old_f |>, ONormal, false)
      | _ => (m <| st_finalizing := old_f |>, r, false)
      end
    else (m, ONormal, true).
  Definition dcc_drop (rec : call -> machine -> machine * outcome) (o : id) (m : machine)
      : machine * outcome :=
    let m := dec_rc_m o m in
    let m := remove_from_list o m in
    let old_d := st_dropping m in
    let m := m <| st_dropping := true |> in
    let m := if k_weak K then uhdr o set_dropped m else m in
    let '(m, r) := rec (KDropValue o) m in
    match r with
    | ONormal =>
      let m := drop_metadata K o m in
      let m := dealloc K o m in
      (m <| st_dropping := old_d |>, ONormal)
    | _ => (m <| st_dropping := old_d |>, r)
    end.
  Lemma step_drop_cc_eq rec o m :
    step_drop_cc K P rec o m =
    match get m o with
    | None => (emit_bad BadState o m, ONormal)
    | Some x =>
      let m := match o_box x with BAlloc => m | _ => emit_bad UseAfterFree o m end in
      if is_in_list_or_queue (o_hdr x) then (dec_rc_m o m, ONormal)
      else if h_rc (o_hdr x) =? 1 then
        let '(m, r, go) := dcc_fin rec o x m in
        if negb go then (m, r) else dcc_drop rec o m
      else (add_to_list o (dec_rc_m o m), ONormal)
    end.
  Proof. reflexivity. Qed.

  Lemma r_dcc_fin o x s m : exists t, MK t /\
    dcc_fin rec1 o x (dl s m) =
    (dl (s ++ t) (dcc_fin rec2 o x m).1.1, (dcc_fin rec2 o x m).1.2, (dcc_fin rec2 o x m).2).
  Proof.
    unfold dcc_fin. revert s m. rgo.
  Qed.
  Lemma r_dcc_drop o : related (dcc_drop rec1 o) (dcc_drop rec2 o).
  Proof. unfold dcc_drop. rgo. Qed.

  Definition dcc_body (rec : call -> machine -> machine * outcome) (o : id) (x : obj) (m : machine)
      : machine * outcome :=
    if is_in_list_or_queue (o_hdr x) then (dec_rc_m o m, ONormal)
    else if h_rc (o_hdr x) =? 1 then
      let '(m, r, go) := dcc_fin rec o x m in
      if negb go then (m, r) else dcc_drop rec o m
    else (add_to_list o (dec_rc_m o m), ONormal).
  Lemma r_dcc_body o x : related (dcc_body rec1 o x) (dcc_body rec2 o x).
  Proof.
    intros s m. unfold dcc_body.
    destruct (is_in_list_or_queue (o_hdr x)).
    { exists []. split; [apply MK_nil|]. rewrite app_nil_r. dlnorm. reflexivity. }
    destruct (h_rc (o_hdr x) =? 1).
    2:{ exists []. split; [apply MK_nil|]. rewrite app_nil_r. dlnorm. reflexivity. }
    destruct (r_dcc_fin o x s m) as (t & Ht & E). rewrite E. clear E.
    destruct (dcc_fin rec2 o x m) as [[m1 r1] go]. cbn [fst snd].
    destruct (negb go).
    - exists t. split; [exact Ht | reflexivity].
    - destruct (r_dcc_drop o (s ++ t) m1) as (t' & Ht' & E). rewrite E. clear E.
      exists (t ++ t'). split; [apply MK_app; assumption|]. rewrite app_assoc. reflexivity.
  Qed.
  Lemma r_step_drop_cc o : related (step_drop_cc K P rec1 o) (step_drop_cc K P rec2 o).
  Proof.
    intros s m. rewrite !step_drop_cc_eq. rewrite get_dl.
    destruct (get m o) as [x|]; [|exists []; split; [apply MK_nil|rewrite app_nil_r; reflexivity]].
    cbv zeta. fold (dcc_body rec1 o x). fold (dcc_body rec2 o x).
    destruct (o_box x); [apply (r_dcc_body o x s (emit_bad UseAfterFree o m)) | apply r_dcc_body
                        | apply (r_dcc_body o x s (emit_bad UseAfterFree o m))].
  Qed.
  Lemma r_step_drop_value o : related (step_drop_value K P rec1 o) (step_drop_value K P rec2 o).
  Proof. unfold step_drop_value. rgo. Qed.
  Lemma r_step_drop_fields o j : related (step_drop_fields rec1 o j) (step_drop_fields rec2 o j).
  Proof.
    unfold step_drop_fields. intros s m. rewrite (dl_app_nil s m). dlnorm.
    destruct (get m o) as [x|]; [|rfin]. dlnorm.
    destruct (decide (j < length (o_fields x))%nat).
    - repeat (rstep; dlnorm); rfin.
    - rewrite (fold_dl (fun m w => weak_drop_opt w m)) by (intros; apply weak_drop_opt_dl).
      dlnorm. repeat (rstep; dlnorm); rfin.
  Qed.
  Lemma r_step_drop_map_slots o j : related (step_drop_map_slots rec1 o j) (step_drop_map_slots rec2 o j).
  Proof. unfold step_drop_map_slots. rgo. Qed.
  Lemma r_step_clean_run mo aid sc : related (step_clean_run K P rec1 mo aid sc) (step_clean_run K P rec2 mo aid sc).
  Proof. unfold step_clean_run. rgo. Qed.
  Lemma r_step_unbag k : related (step_unbag rec1 k) (step_unbag rec2 k).
  Proof. unfold step_unbag. rgo. Qed.
  Lemma r_step_trigger : related (step_trigger K rec1) (step_trigger K rec2).
  Proof. unfold step_trigger. rgo. Qed.
  Lemma r_step_collect_cycles : related (step_collect_cycles K rec1) (step_collect_cycles K rec2).
  Proof. unfold step_collect_cycles. rgo. Qed.
  Lemma r_step_collect : related (step_collect K rec1) (step_collect K rec2).
  Proof. unfold step_collect. rgo. Qed.
  Lemma r_step_collect_loop k : related (step_collect_loop rec1 k) (step_collect_loop rec2 k).
  Proof. unfold step_collect_loop. rgo. Qed.
  Lemma r_step_collect_once : related (step_collect_once K P rec1) (step_collect_once K P rec2).
  Proof. unfold step_collect_once. rgo. Qed.
  Lemma r_step_finalize_list L rest any old_f :
    related (step_finalize_list K P rec1 L rest any old_f) (step_finalize_list K P rec2 L rest any old_f).
  Proof. unfold step_finalize_list. rgo. Qed.
  Lemma r_step_drop_list L rest old_d :
    related (step_drop_list K rec1 L rest old_d) (step_drop_list K rec2 L rest old_d).
  Proof. unfold step_drop_list. rgo. Qed.
End Rel.
