(** * SoleWalk3: the commands preserve the frame for solely owned objects (part 1). *)
From Coq Require Import NArith Bool List Lia.
From stdpp Require Import base list option.
From RecordUpdate Require Import RecordSet.
From RC Require Import Hdr Machine RunInd.
From RC Require Import Inv InvP SafeHelpers.
From RC Require Import Clean CleanFrame CleanUFrame.
From RC Require Import SoleInv SolePrim SoleStep.
Import ListNotations RecordSetNotations.
Local Open Scope N_scope.

Section Walk.
  Context (K : conf) (P : prog) (U R : id -> Prop) (mu : id).
  Notation St := (St K U R mu).
  Notation SI := (SI K U R).
  Notation Args := (Args U R).
  Notation Keep := (Keep U R).
  Context (rec : call -> machine -> machine * outcome).
  Hypothesis Hrec : rec_ok (Pre2 K U R mu) (Post2 U R mu) rec.

  Lemma c_clone self src dst m : St m (Args (KCmd self (CClone src dst))) m -> St m True (cmd_clone rec self src dst m).1.
  Proof. intros HS. unfold cmd_clone. go aargs. Qed.
  Lemma c_drop self l m : St m (Args (KCmd self (CDrop l))) m -> St m True (cmd_drop rec self l m).1.
  Proof. intros HS. unfold cmd_drop. go aargs. Qed.
  Lemma c_move self src dst m : St m (Args (KCmd self (CMove src dst))) m -> St m True (cmd_move rec self src dst m).1.
  Proof. intros HS. unfold cmd_move. go aargs. Qed.
  Lemma c_mark_alive self l m : St m (Args (KCmd self (CMarkAlive l))) m -> St m True (cmd_mark_alive self l m).1.
  Proof. intros HS. unfold cmd_mark_alive. go aargs. Qed.
  Lemma c_collect self m : St m (Args (KCmd self CCollect)) m -> St m True (cmd_collect rec self m).1.
  Proof. intros HS. unfold cmd_collect. go aargs. Qed.

  Lemma c_downgrade self l w m : St m (Args (KCmd self (CDowngrade l w))) m -> St m True (cmd_downgrade K self l w m).1.
  Proof. intros HS. unfold cmd_downgrade. go aargs. Qed.
  Lemma c_upgrade self w dst m : St m (Args (KCmd self (CUpgrade w dst))) m -> St m True (cmd_upgrade K rec self w dst m).1.
  Proof. intros HS. unfold cmd_upgrade. go aargs. Qed.
  Lemma c_w_new self w m : St m (Args (KCmd self (CWNew w))) m -> St m True (cmd_w_new K self w m).1.
  Proof. intros HS. unfold cmd_w_new. go aargs. Qed.
  Lemma c_w_drop self w m : St m (Args (KCmd self (CWDrop w))) m -> St m True (cmd_w_drop K self w m).1.
  Proof. intros HS. unfold cmd_w_drop. go aargs. Qed.
  Lemma c_fin_again self l m : St m (Args (KCmd self (CFinAgain l))) m -> St m True (cmd_fin_again K self l m).1.
  Proof. intros HS. unfold cmd_fin_again. go aargs. Qed.
  Lemma c_unbag self k m : St m (Args (KCmd self (CUnbag k))) m -> St m True (cmd_unbag rec self k m).1.
  Proof. intros HS. unfold cmd_unbag. go aargs. Qed.
  Lemma c_borrow self nd m : St m (Args (KCmd self (CBorrow nd))) m -> St m True (cmd_borrow self nd m).1.
  Proof. intros HS. unfold cmd_borrow. go aargs. Qed.
  Lemma c_unborrow self nd m : St m (Args (KCmd self (CUnborrow nd))) m -> St m True (cmd_unborrow self nd m).1.
  Proof. intros HS. unfold cmd_unborrow. go aargs. Qed.
  Lemma c_cfg_auto self b m : St m (Args (KCmd self (CCfgAuto b))) m -> St m True (cmd_cfg_auto K self b m).1.
  Proof. intros HS. unfold cmd_cfg_auto. go aargs. Qed.
  Lemma c_cfg_percent self n e m : St m (Args (KCmd self (CCfgPercent n e))) m -> St m True (cmd_cfg_percent K self n e m).1.
  Proof. intros HS. unfold cmd_cfg_percent. go aargs. Qed.
  Lemma c_cfg_buffered self b m : St m (Args (KCmd self (CCfgBuffered b))) m -> St m True (cmd_cfg_buffered K self b m).1.
  Proof. intros HS. unfold cmd_cfg_buffered. go aargs. Qed.
  Lemma c_arm self k v m : St m (Args (KCmd self (CArm k v))) m -> St m True (cmd_arm self k v m).1.
  Proof. intros HS. unfold cmd_arm. go aargs. Qed.
  Lemma c_panic self m : St m (Args (KCmd self CPanic)) m -> St m True (cmd_panic self m).1.
  Proof. intros HS. unfold cmd_panic. go aargs. Qed.
  Lemma c_obs self l m : St m (Args (KCmd self (CObs l))) m -> St m True (cmd_obs self l m).1.
  Proof. intros HS. unfold cmd_obs. go aargs. Qed.
  Lemma c_w_obs self w m : St m (Args (KCmd self (CWObs w))) m -> St m True (cmd_w_obs K self w m).1.
  Proof. intros HS. unfold cmd_w_obs. go aargs. Qed.
  Lemma c_s_obs self m : St m (Args (KCmd self CSObs)) m -> St m True (cmd_s_obs K self m).1.
  Proof. intros HS. unfold cmd_s_obs. go aargs. Qed.
  Lemma c_c_drop self c m : St m (Args (KCmd self (CCDrop c))) m -> St m True (cmd_c_drop K self c m).1.
  Proof. intros HS. unfold cmd_c_drop. go aargs. Qed.
End Walk.
