(** * SafeCollDead: a closed list of live, IL-marked objects enters the ghost dying set (the
    beginning of the drop pass): the invariant survives, the frame composes. *)
From Coq Require Import NArith Bool List Lia.
From stdpp Require Import base list option.
From RecordUpdate Require Import RecordSet.
From RC Require Import Hdr Machine RunInd.
From RC Require BufBase BufPass BufStep Buf.
From RC Require Import Inv InvP SafeHelpers SafePrims SafeCalls SafeGlue SafeDrop SafeCmd SafeCyclic SafeMain.
From RC Require Import SafeColl SafeCollFr SafeCollHdr SafeCollTop.
Import ListNotations RecordSetNotations.
Local Open Scope N_scope.

Lemma mem_id_app o l1 l2 : mem_id o (l1 ++ l2) = mem_id o l1 || mem_id o l2.
Proof. unfold mem_id. apply existsb_app. Qed.

Section EnterDead.
  Context (K : conf).
  Implicit Types (m : machine) (o : id) (x : obj).

  Definition enter (L : list id) m : machine := m <| st_dropping := true |> <| dead ::= app L |>.

  Lemma inD_enter L m o : inD (enter L m) o = mem_id o L || inD m o.
  Proof. unfold inD, enter. cbn. apply mem_id_app. Qed.
  Lemma inD_enter_in L m o : o ∈ L -> inD (enter L m) o = true.
  Proof. intros H. rewrite inD_enter. apply mem_id_elem in H. rewrite H. reflexivity. Qed.
  Lemma inD_enter_out L m o : o ∉ L -> inD (enter L m) o = inD m o.
  Proof. intros H. rewrite inD_enter. apply mem_id_false in H. rewrite H. reflexivity. Qed.
  Lemma inD_enter_mono L m o : inD m o = true -> inD (enter L m) o = true.
  Proof. intros H. rewrite inD_enter, H. apply orb_true_r. Qed.

  Lemma okN_ind_mono b nr nw x : obj_okN K b nr nw false x = true -> obj_okN K b nr nw true x = true.
  Proof.
    intros H. destruct (o_box x) eqn:Eb.
    - apply okN_notyet in H; [|exact Eb]. apply okN_notyet; assumption.
    - pose proof (okN_alloc K _ _ _ _ _ H Eb) as (O1 & O2 & O3 & O4 & O5 & O6).
      apply okN_alloc_intro; [exact Eb|]. unfold OkAlloc. repeat split; auto.
      destruct (k_weak K); [|exact O4]. destruct O4 as [O4 O4']. split; [exact O4|]. intros Hd.
      destruct (O4' Hd) as [?|[?|?]]; auto.
    - apply okN_freed in H; [|exact Eb]. apply okN_freed; assumption.
  Qed.

  Lemma SInv_enter_dead b E L m :
    SInv K b E [] m -> (forall g, g ∈ L -> Member m g) -> ClosedL L E m ->
    SInv K b E [] (enter L m).
  Proof.
    intros HI HM [HE HC]. set (m' := enter L m).
    assert (Hget : forall o, get m' o = get m o) by reflexivity.
    assert (HR : forall o, refs m' o = refs m o) by (intros; apply refs_ext; reflexivity).
    assert (HW : forall o, wrefs m' o = wrefs m o) by (intros; apply wrefs_ext; reflexivity).
    assert (Hloc : forall h c t, hloc m' h c t -> hloc m h c t) by (intros h c t; apply hloc_ext; reflexivity).
    split.
    - intros o x Hx. rewrite HR, HW. pose proof (sv_obj _ _ _ _ _ HI o x Hx) as Hok.
      destruct (decide (o ∈ L)) as [Hin|Hout].
      + unfold m'. rewrite (inD_enter_in _ _ _ Hin). destruct (inD m o); [exact Hok | apply okN_ind_mono, Hok].
      + unfold m'. rewrite (inD_enter_out _ _ _ Hout). exact Hok.
    - intros o x Hx. unfold ObjX. pose proof (sv_objx _ _ _ _ _ HI o x Hx) as HX. unfold ObjX in HX.
      destruct (decide (o ∈ L)) as [Hin|Hout].
      + unfold m'. rewrite (inD_enter_in _ _ _ Hin). change (st_dropping (enter L m)) with true.
        destruct (HM o Hin) as (y & Hy & Hb & Hv & Hi & Hmk). assert (y = x) by congruence. subst y.
        destruct HX as [X1 X2 X3 X4 X5 X6]. split.
        * exact X1.
        * intros _ Hd _. unfold dying in Hd. rewrite Hv in Hd. discriminate.
        * intros _ _ _ _. split; [exact Hmk | reflexivity].
        * exact X4.
        * exact X5.
        * intros _. split; [congruence|]. split; congruence.
      + unfold m'. rewrite (inD_enter_out _ _ _ Hout). eapply ObjXp_sd; [|exact HX]. reflexivity.
    - intros h c t Hl. apply Hloc in Hl. destruct (sv_loc _ _ _ _ _ HI _ _ _ Hl) as (xt & Hxt & Hbt & Hct & Hm).
      exists xt. split; [exact Hxt|]. split; [exact Hbt|]. split; [exact Hct|].
      destruct h as [p|].
      + intros xp Hp. destruct (Hm xp Hp) as [M1 M2]. split.
        * intros Hv Hi. destruct (decide (p ∈ L)) as [Hin|Hout].
          { unfold m' in Hi. rewrite (inD_enter_in _ _ _ Hin) in Hi. discriminate. }
          unfold m' in Hi. rewrite (inD_enter_out _ _ _ Hout) in Hi. destruct (M1 Hv Hi) as [Hvt Hit].
          split; [exact Hvt|]. destruct (decide (t ∈ L)) as [Htin|Htout].
          { destruct (HC t Htin _ _ Hl) as (p' & [= <-] & Hp'). contradiction. }
          unfold m'. rewrite (inD_enter_out _ _ _ Htout). exact Hit.
        * intros Hi. destruct (decide (t ∈ L)) as [Htin|Htout].
          { destruct (HC t Htin _ _ Hl) as (p' & [= <-] & Hp').
            destruct (HM p Hp') as (y & Hy & _ & Hv & _). assert (y = xp) by congruence. subst y.
            split; [apply inD_enter_in, Hp'|]. split; [congruence|]. intros Hvd. congruence. }
          unfold m' in Hi. rewrite (inD_enter_out _ _ _ Htout) in Hi. destruct (M2 Hi) as (N1 & N2 & N3).
          split; [apply inD_enter_mono, N1 | auto].
      + destruct Hm as [Hv Hi]. split; [exact Hv|]. destruct (decide (t ∈ L)) as [Htin|Htout].
        * destruct (HC t Htin _ _ Hl) as (p' & Hp' & _). discriminate.
        * unfold m'. rewrite (inD_enter_out _ _ _ Htout). exact Hi.
    - apply (sv_E _ _ _ _ _ HI).
    - intros t Ht. destruct (sv_pc _ _ _ _ _ HI t Ht) as (x & Hx & Hb & Hv & Hi & Hmk).
      exists x. repeat split; auto. destruct (decide (t ∈ L)) as [Htin|Htout].
      + destruct (HM t Htin) as (y & Hy & _ & _ & _ & Hil). assert (y = x) by congruence. subst. congruence.
      + unfold m'. rewrite (inD_enter_out _ _ _ Htout). exact Hi.
    - apply (sv_alive _ _ _ _ _ HI).
    - intros o Ho. unfold m' in Ho. rewrite inD_enter in Ho. apply orb_true_iff in Ho as [Ho|Ho].
      + apply mem_id_elem in Ho. destruct (HM o Ho) as (x & Hx & _). rewrite Hget. eauto.
      + apply (sv_dead _ _ _ _ _ HI o Ho).
    - apply (sv_values _ _ _ _ _ HI).
    - apply (sv_lens _ _ _ _ _ HI).
    - apply (sv_wslots _ _ _ _ _ HI).
    - apply (sv_wparam _ _ _ _ _ HI).
    - apply (sv_wfields _ _ _ _ _ HI).
    - intros o Ho. rewrite HW in Ho. apply (sv_wex _ _ _ _ _ HI o Ho).
  Qed.

  (** the frame from before the list entered the dying set *)
  Lemma FrM_enter_dead E L m m' :
    FrM K E (enter L m) m' ->
    (forall g, g ∈ L -> cnt_id g E = 0%nat /\ exists x, get m g = Some x /\ o_vst x <> VDropping) ->
    LDone K L m' ->
    FrM K E m m'.
  Proof.
    intros F HL HD. unfold FrM in *.
    assert (Hgs : forall o, get (strip (enter L m)) o = get (strip m) o) by reflexivity.
    split.
    - reflexivity.
    - exact (fr_wp _ _ _ _ _ F).
    - intros o Ho. apply (fr_dead _ _ _ _ _ F). rewrite inD_strip in *. apply inD_enter_mono, Ho.
    - intros Hc. discriminate Hc.
    - intros o y Hy. rewrite <- Hgs in Hy. destruct (fr_obj _ _ _ _ _ F o y Hy) as (y' & Hy' & OF).
      exists y'. split; [exact Hy'|].
      assert (Hback : inD (strip m') o = true -> o ∉ L -> inD (strip (enter L m)) o = true -> inD (strip m) o = true).
      { intros _ Hout Hi. rewrite inD_strip in *. rewrite (inD_enter_out _ _ _ Hout) in Hi. exact Hi. }
      split; try apply OF.
      + intros Hv Hex. destruct (of_dropping _ _ _ _ _ _ _ OF Hv Hex) as (D1 & D2 & D3 & D4 & D5).
        split; [exact D1|]. split; [exact D2|]. split; [exact D3|]. split; [exact D4|].
        intros Hi. apply Hback; [exact Hi | | apply D5, Hi].
        intros Hin. destruct (HL o Hin) as (_ & x & Hx & Hnv).
        rewrite Hgs, get_strip, Hx in Hy. cbn in Hy. injection Hy as <-. rewrite norm_vst in Hv. contradiction.
      + intros Hi Hex Hv. apply (of_dead _ _ _ _ _ _ _ OF); auto. rewrite inD_strip in *. apply inD_enter_mono, Hi.
      + intros Hex Hb Hp.
        assert (Hp' : protected E (strip (enter L m)) o y).
        { destruct Hp as [Hp|[_ Hp]]; [left; exact Hp | discriminate Hp]. }
        destruct (of_prot _ _ _ _ _ _ _ OF Hex Hb Hp') as (P1 & P2 & P3 & P4).
        split; [exact P1|]. split; [exact P2|]. split; [|intros _ Hc; discriminate Hc].
        intros Hi. apply Hback; [exact Hi | | apply P3, Hi].
        intros Hin. destruct (HL o Hin) as (Hz & _). destruct Hp as [Hp|[_ Hp]]; [lia | discriminate Hp].
    - intros Hk o y' Hy' Hi Hb Hd.
      destruct (fr_undropped _ _ _ _ _ F Hk o y' Hy' Hi Hb Hd) as (y & Hy & Hi0 & Hb0 & Hd0).
      exists y. rewrite <- Hgs. split; [exact Hy|]. split; [|auto].
      rewrite inD_strip in *. destruct (decide (o ∈ L)) as [Hin|Hout].
      + exfalso. apply get_strip_Some in Hy' as (x' & Hx' & ->). rewrite norm_box in Hb. rewrite norm_dropped in Hd.
        rewrite (HD o x' Hin Hx' Hb Hk) in Hd. discriminate.
      + rewrite (inD_enter_out _ _ _ Hout) in Hi0. exact Hi0.
  Qed.

  (** the members at the start of the drop pass *)
  Lemma enter_facts b E L m :
    SInv K b E [] m -> (forall g, g ∈ L -> Member m g) -> ClosedL L E m ->
    (forall g, g ∈ L -> cnt_id g E = 0%nat /\ DMember L (enter L m) g) /\
    DeadClosed L (enter L m) /\ TargetsIn L L (enter L m).
  Proof.
    intros HI HM [HE HC]. split; [|split].
    - intros g Hg. split; [apply HE, Hg|]. split; [apply inD_enter_in, Hg|].
      destruct (HM g Hg) as (x & Hx & Hb & Hv & _ & Hmk). exists x. split; [exact Hx|]. split; [exact Hb|].
      split; [exact Hmk|]. rewrite decide_True by exact Hg. exact Hv.
    - intros o Ho h c Hl. apply (HC o Ho h c). eapply hloc_ext; [..|exact Hl]; reflexivity.
    - intros g x t Hg Hx Ht Hi. rewrite inD_enter in Hi. apply orb_true_iff in Hi as [Hi|Hi]; [apply mem_id_elem, Hi|].
      exfalso. destruct (HM g Hg) as (y & Hy & _ & Hv & Hig & _). change (get (enter L m) g) with (get m g) in Hx.
      assert (y = x) by congruence. subst y.
      assert (Hl : exists c, hloc m (Some g) c t).
      { destruct Ht as [[j Hj]|Hc]; [exists false; econstructor 3; eauto | exists true; econstructor 4; eauto]. }
      destruct Hl as [c Hl]. destruct (sv_loc _ _ _ _ _ HI _ _ _ Hl) as (xt & _ & _ & _ & Hm).
      destruct (Hm x Hy) as [M1 _]. destruct (M1 Hv Hig) as [_ Hit]. congruence.
  Qed.
End EnterDead.
