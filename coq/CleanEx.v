(** * CleanEx: the hypotheses of the C10 theorems are satisfiable on concrete, non-trivial states
    (computed with [vm_compute] from small programs), and what the theorems then say. *)
From Coq Require Import NArith Bool List Lia.
From stdpp Require Import base list option.
From RecordUpdate Require Import RecordSet.
From RC Require Import Hdr Machine RunInd Clean CleanFrame CleanStep CleanStep2 CleanThm CleanReg CleanLog CleanU CleanUThm.
Import ListNotations RecordSetNotations.

Definition exK : conf := f5_conf.
(** class 1 has a Cleaner; script 0 observes, script 1 panics *)
Definition exP : prog :=
  Prog [Cls 2 [true; true] 1 false None None; Cls 0 [] 0 true None None]
       [[CSObs]; [CPanic]] [].
Definition ex_run (cmds : list cmd) : machine :=
  fold_left (fun m c => exec_top exK exP 40 c m) cmds (init exK).

(** an owner (object 0) whose map (object 1) holds three actions; the second one panics *)
Definition ex_m : machine :=
  ex_run [CCfgAuto false; CNew (LS 0) 1; CRegister (NSlot 0) 0 0; CRegister (NSlot 0) 1 1;
          CRegister (NSlot 0) 0 2].
(** the same with three well-behaved actions *)
Definition ex_n : machine :=
  ex_run [CCfgAuto false; CNew (LS 0) 1; CRegister (NSlot 0) 0 0; CRegister (NSlot 0) 0 1;
          CRegister (NSlot 0) 0 2].

Example ex_m_CI : CI ex_m.
Proof. apply prog_CI. Qed.
Example ex_m_slots :
  (o_mslots <$> get ex_m 1) = Some [MAction 0 0; MAction 1 1; MAction 2 0] /\
  executed_aids (log ex_m) = [] /\ next_aid ex_m = 3.
Proof. vm_compute. auto. Qed.

(** the state in which the crate drops a map value: the owner's drop has reached the Cleaner
    field and cleared it ([C10_cleaner_drop_unlinked]) *)
Definition rec0 : call -> machine -> machine * outcome := fun _ m => (m, ONormal).
Definition ex_u : machine := (step_drop_fields rec0 0 0 ex_m).1.
Definition ex_nu : machine := (step_drop_fields rec0 0 0 ex_n).1.

Lemma ex_unlink m :
  CI m -> (o_fields <$> get m 0) = Some [] -> (o_cleaner <$> get m 0) = Some (Some 1) ->
  CI (step_drop_fields rec0 0 0 m).1 /\ unlinked_m (step_drop_fields rec0 0 0 m).1 1.
Proof.
  intros HI Hf Hc. destruct (get m 0) as [x|] eqn:Ex; [|discriminate].
  cbn in Hf, Hc. injection Hf as Hf. injection Hc as Hc.
  destruct (C10_cleaner_drop_unlinked rec0 0 0 m x 1 HI Ex) as (m1 & Heq & HCI & Hun & _).
  - rewrite Hf. cbn. lia.
  - exact Hc.
  - rewrite Heq. cbn [rec0 fst]. auto.
Qed.

Example ex_u_ok : CI ex_u /\ unlinked_m ex_u 1.
Proof. apply ex_unlink; [exact ex_m_CI|vm_compute; reflexivity..]. Qed.
Example ex_nu_ok : CI ex_nu /\ unlinked_m ex_nu 1.
Proof. apply ex_unlink; [apply prog_CI|vm_compute; reflexivity..]. Qed.

(** Theorem 4 ([C10_drop_runs_all]), unwinding case: the hypotheses hold, the outcome is a
    panic (raised by action 1), all three slots are vacated and all three actions ran *)
Example ex_drop_runs_all_sat :
  rec_ok Pre Post (run exK exP 30) /\ CI ex_u /\ unlinked_m ex_u 1 /\
  (exists x, get ex_u 1 = Some x /\ o_ismap x = true /\ o_vst x = VLive) /\
  (step_drop_value exK exP (run exK exP 30) 1 ex_u).2 = OPanic /\
  (o_mslots <$> get (step_drop_value exK exP (run exK exP 30) 1 ex_u).1 1)
    = Some [MVacant; MVacant; MVacant] /\
  executed_aids (log (step_drop_value exK exP (run exK exP 30) 1 ex_u).1) = [2; 1; 0].
Proof.
  split; [apply run_clean|]. split; [apply ex_u_ok|]. split; [apply ex_u_ok|].
  split; [eexists; split; [vm_compute; reflexivity|split; reflexivity]|].
  vm_compute. auto.
Qed.

(** Theorem 5 ([C10_exactly_partial]): the Cleaner's handle is the only one ([h_rc = 1]) *)
Example ex_exactly_sat :
  rec_ok Pre Post (run exK exP 30) /\ CI ex_nu /\ unlinked_m ex_nu 1 /\
  (exists x, get ex_nu 1 = Some x /\ o_ismap x = true /\ o_vst x = VLive /\
             h_rc (o_hdr x) = 1%N /\ is_in_list_or_queue (o_hdr x) = false) /\
  (step_drop_cc exK exP (run exK exP 30) 1 ex_nu).2 = ONormal /\
  (o_mslots <$> get (step_drop_cc exK exP (run exK exP 30) 1 ex_nu).1 1)
    = Some [MVacant; MVacant; MVacant] /\
  executed_aids (log (step_drop_cc exK exP (run exK exP 30) 1 ex_nu).1) = [2; 1; 0].
Proof.
  split; [apply run_clean|]. split; [apply ex_nu_ok|]. split; [apply ex_nu_ok|].
  split; [eexists; split; [vm_compute; reflexivity|repeat split]|].
  vm_compute. auto.
Qed.

(** Why [unlinked_m] is needed in Theorem 4: a state that satisfies [CI] in which the map is
    still named by the Cleaner of its accessible owner (never the case when the crate drops a
    map value).  Slot 0 is on the free list (its action was cleaned); dropping the map value
    runs action 1, which registers a new action on the owner: it lands in slot 0, behind the
    drop loop, and is still there when the drop returns. *)
Definition exQ : prog :=
  Prog [Cls 2 [true; true] 1 false None None; Cls 0 [] 0 true None None]
       [[CSObs]; [CRegister (NSlot 0) 0 3]] [].
Definition ex_q : machine :=
  fold_left (fun m c => exec_top exK exQ 40 c m)
            [CCfgAuto false; CNew (LS 0) 1; CRegister (NSlot 0) 0 0; CRegister (NSlot 0) 1 1; CClean 0]
            (init exK).
Example ex_linked_drop_refills :
  CI ex_q /\
  (exists x, get ex_q 1 = Some x /\ o_ismap x = true /\ o_vst x = VLive /\
             o_mslots x = [MVacant; MAction 1 1] /\ o_mfree x = [0]) /\
  ~ unlinked_m ex_q 1 /\
  (step_drop_value exK exQ (run exK exQ 30) 1 ex_q).2 = ONormal /\
  (o_mslots <$> get (step_drop_value exK exQ (run exK exQ 30) 1 ex_q).1 1)
    = Some [MAction 2 0; MVacant] /\
  next_aid ex_q = 2.
Proof.
  split; [apply prog_CI|].
  split; [eexists; split; [vm_compute; reflexivity|repeat split]|].
  split.
  - intros Hu. destruct (get ex_q 0) as [x|] eqn:Ex; [|vm_compute in Ex; discriminate].
    apply (Hu 0 x Ex). vm_compute in Ex. injection Ex as <-. reflexivity.
  - vm_compute. auto.
Qed.

(** Theorem 3 ([C10_clean_after_noop]), second alternative: after [clean 0] the map is still
    alive ([strong_count = 1]) but slot 0 no longer holds action 0 *)
Definition ex_n2 : machine :=
  ex_run [CCfgAuto false; CNew (LS 0) 1; CRegister (NSlot 0) 0 0; CRegister (NSlot 0) 0 1;
          CRegister (NSlot 0) 0 2; CClean 0].
Example ex_clean_noop_sat :
  mjoin (cslots ex_n2 !! 0) = Some (Cref 1 0 0) /\
  (weak_strong_count (WTo 1) ex_n2).2 = 1%N /\
  (forall mx s, get ex_n2 1 = Some mx -> o_mslots mx !! 0 <> Some (MAction 0 s)) /\
  executed_aids (log ex_n2) = [0] /\
  executed_aids (log (run exK exP 30 (KCmd None (CClean 0)) ex_n2).1) = [0].
Proof.
  split; [vm_compute; reflexivity|]. split; [vm_compute; reflexivity|].
  split; [|vm_compute; auto].
  intros mx s E. vm_compute in E. injection E as <-. vm_compute. discriminate.
Qed.

(** ... first alternative: the owner - and with it the map - is gone *)
Definition ex_n3 : machine :=
  ex_run [CCfgAuto false; CNew (LS 0) 1; CRegister (NSlot 0) 0 0; CDrop (LS 0)].
Example ex_clean_gone_sat :
  mjoin (cslots ex_n3 !! 0) = Some (Cref 1 0 0) /\
  (weak_strong_count (WTo 1) ex_n3).2 = 0%N /\
  executed_aids (log ex_n3) = [0] /\
  executed_aids (log (run exK exP 30 (KCmd None (CClean 0)) ex_n3).1) = [0].
Proof. vm_compute. auto. Qed.

(** Theorem 2 ([C10_cdrop_neutral]): dropping Cleanable 1 leaves action 1 registered; it still
    runs - once - when the owner goes away *)
Example ex_cdrop :
  let m1 := exec_top exK exP 40 (CCDrop 1) ex_n in
  (o_mslots <$> get m1 1) = Some [MAction 0 0; MAction 1 0; MAction 2 0] /\
  executed_aids (log m1) = [] /\
  executed_aids (log (exec_top exK exP 40 (CDrop (LS 0)) m1)) = [2; 1; 0].
Proof. vm_compute. auto. Qed.

(** ** Finding F6 (fixed in the crate and in [cmd_register]).  [Cleaner::register] used to create
    the map inside [Option::get_or_insert_with(|| Cc::new(..))]; [Cc::new] may start a
    collection, whose finalizers may call [register] on the same Cleaner: two aliasing [&mut] to
    the Option, and the nested map (with the actions just registered in it) was dropped - its
    actions run - when the outer call overwrote the Option.  Now the Option is checked again
    after [Cc::new] returned: on this program the nested map (object 4) is kept and used, the
    spare map (object 3) is allocated and freed at once, actions 0 and 1 stay registered
    together with action 2, and all three run - once - when the Cleaner is dropped. *)
Definition K6 : conf := Conf true true true true true 200 8 80 8 100.
Definition P6 : prog :=
  Prog [Cls 1 [true] 0 false (Some 2) None; Cls 0 [] 0 true None None]
       [[CSObs]; [CSObs]; [CRegister (NSlot 0) 0 1]]
       [CCfgBuffered 1; CNew (LS 0) 1;
        CNew (LS 1) 0; CClone (LS 1) (LFA 1 0); CDrop (LS 1);
        CNew (LS 2) 0; CClone (LS 2) (LFA 2 0); CDrop (LS 2);
        CRegister (NSlot 0) 1 0;
        CDrop (LS 0); CCollect].
Definition f6_key (e : event) : bool :=
  match e with ECb KAction _ _ | ECb KDrop 0 _ | EAlloc 3 _ _ | EFree 3 _ _ | EFree 4 _ _ | EFree 0 _ _ => true
             | _ => false end.
Example ex_reentrant_register_fixed :
  (* after the outer [register] (command 8): one map, named by the owner, three actions *)
  (let m := fold_left (fun m c => exec_top K6 P6 60 c m) (firstn 9 (p_main P6)) (init K6) in
   (o_cleaner <$> get m 0) = Some (Some 4) /\
   ((fun x => (o_vst x, o_box x, o_mslots x)) <$> get m 4)
     = Some (VLive, BAlloc, [MAction 0 0; MAction 1 0; MAction 2 1]) /\
   ((fun x => (o_vst x, o_box x, o_mslots x)) <$> get m 3) = Some (VDropped, BFreed, []) /\
   executed_aids (log m) = [] /\ next_aid m = 3) /\
  (* the whole program *)
  (let m := run_main K6 P6 60 (init K6) in
   ~ In (EBad Fuel 0) (log m) /\
   List.filter f6_key (rev (log m)) =
   [ EAlloc 3 80 8; EFree 3 80 8;
     ECb KDrop 0 (Flags false false true false);
     ECb KAction 0 (Flags false false true false);
     ECb KAction 1 (Flags false false true false);
     ECb KAction 2 (Flags false false true false);
     EFree 4 80 8; EFree 0 200 8 ] /\
   executed_aids (log m) = [2; 1; 0]).
Proof. vm_compute. split; [auto|]. split; [intuition discriminate|auto]. Qed.

(** [C10_register_reentrant] on that program: the state before the outer [register] satisfies
    the hypotheses; the owner's Cleaner then names map 4, which holds the new action (aid 2)
    next to the two registered by the nested calls *)
Definition ex_m8 : machine :=
  fold_left (fun m c => exec_top K6 P6 60 c m) (firstn 8 (p_main P6)) (init K6).
Example ex_register_reentrant_sat :
  let X := run K6 P6 60 (KCmd None (CRegister (NSlot 0) 1 0)) ex_m8 in
  CI ex_m8 /\ X.2 = ONormal /\ head (log X.1) = Some (ERes ROk) /\
  (o_cleaner <$> get ex_m8 0) = Some None /\
  (o_cleaner <$> get X.1 0) = Some (Some 4) /\
  slot_at X.1 4 2 = Some (MAction 2 1) /\ next_aid ex_m8 = 0 /\ next_aid X.1 = 3.
Proof. intros X. split; [apply prog_CI|]. vm_compute. repeat split. Qed.

(** [C10_never_lost] on the F6 program: the run is fuel-free; of the three aids allocated, all
    have run exactly once at the end, none is stored *)
Example ex_never_lost_sat :
  let m := run_main K6 P6 60 (init K6) in
  fuel_free m /\ next_aid m = 3 /\
  forall a, a < 3 -> count_occ Nat.eq_dec (executed_aids (log m)) a = 1.
Proof.
  intros m. split; [|split; [vm_compute; reflexivity|]].
  - intros o Ho. apply elem_of_list_In in Ho. revert Ho. vm_compute. intuition discriminate.
  - intros a Ha. destruct a as [|[|[|a]]]; [vm_compute; reflexivity..|lia].
Qed.

(** [C10_drop_value_post]: its hypotheses at the state in which the crate drops the map value
    of [ex_m] (Cleaner field cleared): [PreU] holds, and [PostU] is what [run] delivers *)
Example ex_drop_value_post_sat :
  PreU (KDropValue 1) ex_u /\
  PostU (KDropValue 1) ex_u (run exK exP 31 (KDropValue 1) ex_u).1 (run exK exP 31 (KDropValue 1) ex_u).2 /\
  (run exK exP 31 (KDropValue 1) ex_u).2 = OPanic.
Proof.
  destruct ex_u_ok as [HI Hu]. split; [|split].
  - split; [exact HI|]. intros _. apply unlinked_cv, Hu.
  - exact (run_clean exK exP 31 (KDropValue 1) ex_u (conj HI I)).
  - vm_compute. reflexivity.
Qed.
