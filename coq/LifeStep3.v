(** * LifeStep3: the step cases that perform lifecycle transitions: value destruction
    ([step_drop_value]), [Cc::drop] ([step_drop_cc]), the finalization and drop passes. *)
From Coq Require Import NArith Bool List Lia.
From stdpp Require Import base list option.
From RecordUpdate Require Import RecordSet.
From RC Require Import Hdr Machine RunInd Flags Flags2.
From RC Require Import Inv InvP LifeInv LifeInv2 LifeChk LifeStep LifeStep2.
From RC Require Import LifeGhost2.
Import ListNotations RecordSetNotations.
Local Open Scope N_scope.

Lemma Quiet_get m m' o x : Quiet m m' -> get m o = Some x -> exists x', get m' o = Some x' /\ lv x' = lv x.
Proof.
  intros (_ & Hlv & _) Hx. specialize (Hlv o). rewrite Hx in Hlv. destruct (get m' o) as [x'|]; [|discriminate].
  cbn in Hlv. exists x'. split; [reflexivity | congruence].
Qed.
Lemma Quiet_get_inv m m' o x' : Quiet m m' -> get m' o = Some x' -> exists x, get m o = Some x /\ lv x' = lv x.
Proof.
  intros (_ & Hlv & _) Hx. specialize (Hlv o). rewrite Hx in Hlv. destruct (get m o) as [x|]; [|discriminate].
  cbn in Hlv. exists x. split; [reflexivity | congruence].
Qed.
Lemma lv_vst x x' : lv x' = lv x -> o_vst x' = o_vst x.
Proof. unfold lv. congruence. Qed.
Lemma lv_box x x' : lv x' = lv x -> o_box x' = o_box x.
Proof. unfold lv. congruence. Qed.
Lemma lv_map x x' : lv x' = lv x -> o_ismap x' = o_ismap x.
Proof. unfold lv. congruence. Qed.
Lemma lv_fin x x' : lv x' = lv x -> h_fin (o_hdr x') = h_fin (o_hdr x).
Proof. unfold lv. congruence. Qed.

Section Special.
  Context (K : conf) (P : prog) (mu : id) (nfa : bool).
  Hypothesis Hprog : nfa = true -> prog_nfa P = true.
  Notation Ls := (Ls K mu nfa).
  Notation LsX := (LsX K mu nfa).
  Notation G := (G mu).
  Notation Pre2 := (Pre2 K nfa).
  Notation Post2 := (Post2 K mu nfa).
  Context (rec : call -> machine -> machine * outcome).
  Hypothesis Hrec : rec_ok Pre2 Post2 rec.

  (** the object [o] of state [m] satisfies [Q] (if the run is still good) *)
  Definition Sat (m : machine) (o : id) (Q : obj -> Prop) : Prop :=
    G m -> exists x, get m o = Some x /\ Q x.

  Lemma Sat_quiet m m' o (Q : obj -> Prop) :
    (forall x x', lv x' = lv x -> Q x -> Q x') -> Quiet m m' -> Sat m o Q -> Sat m' o Q.
  Proof.
    intros HQ Hq HS HG. destruct (HS (Quiet_G mu m m' Hq HG)) as (x & Hx & Hq').
    destruct (Quiet_get m m' o x Hq Hx) as (x' & Hx' & Hl). exists x'. split; [exact Hx' | eapply HQ; eauto].
  Qed.
  Lemma Sat_frame n m m' o (Q Q' : obj -> Prop) :
    Ls n m m' -> (o < n)%nat -> (forall x x', ObjF x x' -> Q x -> Q' x') -> Sat m o Q -> Sat m' o Q'.
  Proof.
    intros (A & _ & C) Ho HQ HS HG. destruct (HS (A HG)) as (x & Hx & Hq).
    destruct (C HG) as [_ F]. destruct (F o x Ho Hx) as (x' & Hx' & HF). exists x'. split; [exact Hx' | eapply HQ; eauto].
  Qed.

  Lemma Sat_frame' m m' o (Q Q' : obj -> Prop) :
    Ls (length (heap m)) m m' -> (forall x x', ObjF x x' -> Q x -> Q' x') -> Sat m o Q -> Sat m' o Q'.
  Proof.
    intros (A & _ & C) HQ HS HG. destruct (HS (A HG)) as (x & Hx & Hq).
    destruct (C HG) as [_ F]. destruct (F o x (lookup_lt_Some _ _ _ Hx) Hx) as (x' & Hx' & HF).
    exists x'. split; [exact Hx' | eapply HQ; eauto].
  Qed.
  Lemma Ls_rec' mi c : Pre2 c mi -> Ls (length (heap mi)) mi (rec c mi).1.
  Proof. intros Hp. apply (Hrec c mi Hp). Qed.
  Lemma Ls_unwinding' mi c : Pre2 c (mi <| panicking := true |>) -> Ls (length (heap mi)) mi (unwinding (rec c) mi).1.
  Proof. intros Hp. apply (Ls_unwinding K mu nfa rec Hrec _ mi mi c (Ls_refl _ _ _ _ _) Hp). Qed.
  Lemma LsX_guard ex n0 m m' : (G m' -> LsX ex n0 m m') -> LsX ex n0 m m'.
  Proof.
    intros H. split; [intros HG; apply (proj1 (H HG) HG)|]. split; [intros HG; apply (proj1 (proj2 (H HG)) HG)|].
    intros HG. apply (proj2 (proj2 (H HG)) HG).
  Qed.

  Definition isDropping (x : obj) : Prop := o_vst x = VDropping.
  Lemma isDropping_lv x x' : lv x' = lv x -> isDropping x -> isDropping x'.
  Proof. unfold isDropping. intros Hl. rewrite (lv_vst _ _ Hl). auto. Qed.
  Lemma isDropping_F x x' : ObjF x x' -> isDropping x -> isDropping x'.
  Proof. intros HF. apply (f_dropping _ _ HF). Qed.

  (** the end of [step_drop_value]: the value is marked dropped *)
  Lemma drop_finish n0 m mi o x (r : outcome) :
    get m o = Some x -> (o_vst x = VLive \/ o_vst x = VMoved) ->
    Ls n0 m mi -> Sat mi o isDropping ->
    let res := (upd o (fun x => x <| o_vst := VDropped |>) mi, r) in
    Ls n0 m res.1 /\ (G res.1 -> exists x', get res.1 o = Some x' /\ o_vst x' = VDropped).
  Proof.
    intros Hx Hv HP HS. cbn [fst snd]. split.
    - apply (LsX_close K mu nfa o).
      + eapply LsX_trans; [apply Ls_X, HP|]. apply LsX_guard. intros HG.
        destruct (HS HG) as (xi & Hxi & Hd). exact (tr_dropped K mu nfa n0 mi o xi Hxi Hd).
      + intros _ y Hy. assert (y = x) by congruence. subst y. destruct Hv as [Hv|Hv]; rewrite Hv; repeat split; discriminate.
    - intros HG. destruct (HS HG) as (xi & Hxi & Hd). eexists. split; [apply (get_upd_eq o _ mi xi Hxi) | reflexivity].
  Qed.

  (** ** value destruction *)
  Lemma l_step_drop_value o m :
    Ls (length (heap m)) m (step_drop_value K P rec o m).1 /\
    ((step_drop_value K P rec o m).2 = ONormal \/ (step_drop_value K P rec o m).2 = OPanic ->
     G (step_drop_value K P rec o m).1 ->
     exists x', get (step_drop_value K P rec o m).1 o = Some x' /\ o_vst x' = VDropped).
  Proof.
    unfold step_drop_value. destruct (get m o) as [x|] eqn:Hx.
    2:{ cbn [fst snd]. split; [go|]. intros _ HG. exfalso. apply (not_G_bad mu BadState o m eq_refl HG). }
    assert (Hbad : forall b, bad_ok b = false ->
              Ls (length (heap m)) m (emit_bad b o m, ONormal).1 /\
              ((emit_bad b o m, ONormal).2 = ONormal \/ (emit_bad b o m, ONormal).2 = OPanic ->
               G (emit_bad b o m, ONormal).1 ->
               exists x', get (emit_bad b o m, ONormal).1 o = Some x' /\ o_vst x' = VDropped)).
    { intros b Hb. cbn [fst snd]. split; [go|]. intros _ HG. exfalso. apply (not_G_bad mu b o m Hb HG). }
    assert (Hmain : (o_vst x = VLive \/ o_vst x = VMoved) ->
      let res :=
        (let m0 := upd o (fun x0 => x0 <| o_vst := VDropping |>) m in
         if o_ismap x
         then let '(m1, r) := rec (KDropMapSlots o 0) m0 in (upd o (fun x0 => x0 <| o_vst := VDropped |>) m1, r)
         else
          let m1 := emit (ECb KDrop o (cur_flags K m0)) m0 in
          let '(m2, boom) := tick KDrop m1 in
          let '(m3, r) := if boom then (m2, raise m2) else rec (KScript (Some o) (oscript P (c_drop (class_of P (o_cls x))))) m2 in
          let '(m4, r0) := match r with
                           | ONormal => rec (KDropFields o 0) m3
                           | OPanic => unwinding (rec (KDropFields o 0)) m3
                           | _ => (m3, r)
                           end in
          (upd o (fun x0 => x0 <| o_vst := VDropped |>) m4, r0)) in
      Ls (length (heap m)) m res.1 /\ (res.2 = ONormal \/ res.2 = OPanic -> G res.1 ->
         exists x', get res.1 o = Some x' /\ o_vst x' = VDropped)).
    { intros Hv. cbv zeta. set (n0 := length (heap m)).
      destruct (o_ismap x) eqn:Hm.
      - pose proof (tr_dropping_map K mu nfa n0 m o x Hx Hm Hv) as HP1.
        assert (HS1 : Sat (upd o (f_vst VDropping) m) o isDropping).
        { intros _. eexists. split; [apply (get_upd_eq o _ m x Hx) | reflexivity]. }
        pose proof (Ls_rec' (upd o (f_vst VDropping) m) (KDropMapSlots o 0) I) as HL.
        pose proof (Sat_frame' _ _ o _ _ HL isDropping_F HS1) as HS2.
        pose proof (Ls_step K mu nfa n0 m _ _ HP1 HL) as HP2.
        change (upd o (fun x0 => x0 <| o_vst := VDropping |>) m) with (upd o (f_vst VDropping) m).
        destruct (rec (KDropMapSlots o 0) (upd o (f_vst VDropping) m)) as [m1 r]. cbn [fst snd] in *.
        destruct (drop_finish n0 m m1 o x r Hx Hv HP2 HS2) as [H1 H2]. split; [exact H1 | intros _; exact H2].
      - pose proof (tr_dropping K mu nfa n0 m o x (cur_flags K (upd o (f_vst VDropping) m)) Hx Hm Hv) as HP1.
        change (upd o (fun x0 => x0 <| o_vst := VDropping |>) m) with (upd o (f_vst VDropping) m).
        set (m1 := emit (ECb KDrop o (cur_flags K (upd o (f_vst VDropping) m))) (upd o (f_vst VDropping) m)) in *.
        assert (HS1 : Sat m1 o isDropping).
        { intros _. eexists. split; [apply (get_upd_eq o _ m x Hx) | reflexivity]. }
        clearbody m1.
        assert (HQ2 : Quiet m1 (tick KDrop m1).1) by lq.
        pose proof (Ls_q K mu nfa n0 m m1 _ HP1 HQ2) as HP2.
        pose proof (Sat_quiet m1 _ o _ isDropping_lv HQ2 HS1) as HS2.
        destruct (tick KDrop m1) as [m2 boom]. cbn [fst snd] in *. clear HQ2.
        assert (H3 : exists m3 r, (if boom then (m2, raise m2) else rec (KScript (Some o) (oscript P (c_drop (class_of P (o_cls x))))) m2) = (m3, r)
                       /\ Ls n0 m m3 /\ Sat m3 o isDropping).
        { destruct boom.
          - exists m2, (raise m2). auto.
          - assert (Hp : Pre2 (KScript (Some o) (oscript P (c_drop (class_of P (o_cls x))))) m2).
            { cbn. intros Hn. apply oscript_nfa, Hprog, Hn. }
            pose proof (Ls_rec' m2 _ Hp) as HL. pose proof (Sat_frame' _ _ o _ _ HL isDropping_F HS2) as HS3.
            pose proof (Ls_step K mu nfa n0 m _ _ HP2 HL) as HP3.
            destruct (rec (KScript (Some o) (oscript P (c_drop (class_of P (o_cls x))))) m2) as [m3 r]. exists m3, r. auto. }
        destruct H3 as (m3 & r & -> & HP3 & HS3).
        assert (H4 : exists m4 r0, match r with
                           | ONormal => rec (KDropFields o 0) m3
                           | OPanic => unwinding (rec (KDropFields o 0)) m3
                           | _ => (m3, r)
                           end = (m4, r0) /\ Ls n0 m m4 /\ Sat m4 o isDropping).
        { destruct r.
          - pose proof (Ls_rec' m3 (KDropFields o 0) I) as HL. pose proof (Sat_frame' _ _ o _ _ HL isDropping_F HS3) as HS4.
            pose proof (Ls_step K mu nfa n0 m _ _ HP3 HL) as HP4.
            destruct (rec (KDropFields o 0) m3) as [m4 r0]. exists m4, r0. auto.
          - pose proof (Ls_unwinding' m3 (KDropFields o 0) I) as HL. pose proof (Sat_frame' _ _ o _ _ HL isDropping_F HS3) as HS4.
            pose proof (Ls_step K mu nfa n0 m _ _ HP3 HL) as HP4.
            destruct (unwinding (rec (KDropFields o 0)) m3) as [m4 r0]. exists m4, r0. auto.
          - exists m3, OAbort. auto.
          - exists m3, OFuel. auto. }
        destruct H4 as (m4 & r0 & -> & HP4 & HS4).
        destruct (drop_finish n0 m m4 o x r0 Hx Hv HP4 HS4) as [H1 H2]. split; [exact H1 | intros _; exact H2]. }
    destruct (o_vst x) eqn:Hv; try (apply Hbad; reflexivity).
    - apply Hmain. auto.
    - apply Hmain. auto.
  Qed.

  (** ** [Cc::drop] *)
  Definition isDropped (x : obj) : Prop := o_vst x = VDropped.
  Lemma isDropped_lv x x' : lv x' = lv x -> isDropped x -> isDropped x'.
  Proof. unfold isDropped. intros Hl. rewrite (lv_vst _ _ Hl). auto. Qed.

  Lemma l_dcc_drop n0 m0 o mi : Ls n0 m0 mi -> Ls n0 m0 (dcc_drop K rec o mi).1.
  Proof.
    intros HP. unfold dcc_drop. cbv zeta.
    set (X := if k_weak K then uhdr o set_dropped (remove_from_list o (dec_rc_m o mi) <| st_dropping := true |>)
              else remove_from_list o (dec_rc_m o mi) <| st_dropping := true |>).
    assert (HPX : Ls n0 m0 X) by (unfold X; destruct (k_weak K); posq).
    assert (Hd : st_dropping (remove_from_list o (dec_rc_m o mi)) = st_dropping (remove_from_list o (dec_rc_m o mi))) by reflexivity.
    pose proof (Hrec (KDropValue o) X I) as [HL HX]. pose proof (Ls_step K mu nfa n0 m0 X _ HPX HL) as HP5.
    destruct (rec (KDropValue o) X) as [m5 r]. cbn [fst snd LifeStep.Post2] in *.
    destruct r; cbn [fst]; try posq.
    set (m6 := drop_metadata K o m5).
    assert (HQ6 : Quiet m5 m6) by (unfold m6; lq).
    pose proof (Ls_q K mu nfa n0 m0 m5 m6 HP5 HQ6) as HP6.
    assert (HP7 : Ls n0 m0 (dealloc K o m6)).
    { eapply Ls_trans; [exact HP6|]. apply tr_free. intros HG6 y Hy.
      destruct (HX (or_introl eq_refl) (Quiet_G mu m5 m6 HQ6 HG6)) as (x5 & Hx5 & Hv5).
      destruct (Quiet_get m5 m6 o x5 HQ6 Hx5) as (y' & Hy' & Hl). assert (y' = y) by congruence. subst y'.
      rewrite (lv_vst _ _ Hl), Hv5. split; [discriminate | intros _; discriminate]. }
    posq.
  Qed.

  Lemma l_dcc_fin n0 m0 o x mi :
    Ls n0 m0 mi -> get mi o = Some x -> o_vst x = VLive -> o_box x = BAlloc ->
    Ls n0 m0 (dcc_fin K P rec o x mi).1.1.
  Proof.
    intros HP Hx Hv Hb. unfold dcc_fin.
    destruct (k_fin K && needs_fin (o_hdr x)) eqn:Hf; [|cbn [fst]; posq].
    apply andb_true_iff in Hf as [Hk Hnf]. unfold needs_fin in Hnf. apply negb_true_iff in Hnf.
    cbv zeta. set (m1 := mi <| st_finalizing := true |>).
    assert (HP1 : Ls n0 m0 m1) by (unfold m1; posq).
    assert (Hx1 : get m1 o = Some x) by exact Hx.
    destruct (o_ismap x) eqn:Hm.
    - pose proof (Ls_trans K mu nfa n0 m0 m1 _ HP1 (tr_setfin K mu nfa n0 m1 o x Hx1)) as HP2.
      cbn [N.eqb]. destruct (h_rc (hdr_of (uhdr o (set_fin true) m1) o) =? 1); cbn [fst]; posq.
    - pose proof (Ls_trans K mu nfa n0 m0 m1 _ HP1
                    (tr_fin K mu nfa n0 m1 o x (cur_flags K (uhdr o (set_fin true) m1)) Hx1 Hnf Hv Hb Hm Hk)) as HP3.
      set (m3 := emit (ECb KFin o (cur_flags K (uhdr o (set_fin true) m1))) (uhdr o (set_fin true) m1)) in *.
      clearbody m3. clear HP HP1.
      repeat adv; fin.
  Qed.

  Lemma l_step_drop_cc o m : chk (KDropCc o) m = true -> Ls (length (heap m)) m (step_drop_cc K P rec o m).1.
  Proof.
    intros Hc. cbn [chk] in Hc. rewrite step_drop_cc_eq. destruct (get m o) as [x|] eqn:Hx; [|discriminate].
    apply andb_true_iff in Hc as [Ha Hc]. unfold is_alloc in Ha. destruct (o_box x) eqn:Hb; try discriminate.
    cbv zeta. pose proof (Ls_refl K mu nfa (length (heap m)) m) as HP0.
    unfold marked in Hc. destruct (is_in_list_or_queue (o_hdr x)); [cbn [fst]; posq|].
    destruct (h_rc (o_hdr x) =? 1); [|cbn [fst]; posq]. cbn in Hc.
    unfold is_live in Hc. destruct (o_vst x) eqn:Hv; try discriminate.
    pose proof (l_dcc_fin (length (heap m)) m o x m HP0 Hx Hv Hb) as HP1.
    destruct (dcc_fin K P rec o x m) as [[m1 r1] go]. cbn [fst snd] in *.
    destruct (negb go); [exact HP1|]. apply l_dcc_drop, HP1.
  Qed.
End Special.
