(** * Flags3: the log only grows.  [run] never removes or rewrites a logged event: the log of
    the result has the log of the start state as a suffix, for every call, from every state
    (no precondition), whatever the outcome, and the new events never contain [ERes RPanicked].
    Same method as Flags2, generic in the log predicate; a second instance shows that
    [st_exec] only changes in [step_collect]. *)
From Coq Require Import NArith Bool List Lia.
From stdpp Require Import base list option.
From RecordUpdate Require Import RecordSet.
From RC Require Import Hdr Machine RunInd Flags Flags2.
Import ListNotations RecordSetNotations.

(** new events on top of [l0], none of them [ERes RPanicked] (which only [exec_top] logs) *)
Definition ext_of (l0 l : list event) : Prop :=
  exists k, l = k ++ l0 /\ Forall (fun e => e <> ERes RPanicked) k.

Lemma ext_of_refl l : ext_of l l.
Proof. exists []. split; [reflexivity | constructor]. Qed.
Lemma ext_of_cons l0 l e : e <> ERes RPanicked -> ext_of l0 l -> ext_of l0 (e :: l).
Proof. intros He (k & -> & Hk). exists (e :: k). split; [reflexivity | constructor; assumption]. Qed.
Lemma ext_of_trans l0 l1 l2 : ext_of l0 l1 -> ext_of l1 l2 -> ext_of l0 l2.
Proof.
  intros (k1 & -> & H1) (k2 & -> & H2). exists (k2 ++ k1).
  split; [apply app_assoc | apply Forall_app; split; assumption].
Qed.
Lemma benign_not_panicked e : benign e -> e <> ERes RPanicked.
Proof. intros H ->. exact H. Qed.

Definition extA (l0 : list event) : lpred :=
  LPred (fun e => e <> ERes RPanicked) (fun _ => ext_of l0)
        (fun e _ l He H => ext_of_cons l0 l e He H) benign_not_panicked.

(** [st_exec] stays [e0] *)
Definition execA (e0 : N) : lpred :=
  LPred (fun _ => True) (fun n _ => n = e0) (fun _ _ _ _ H => H) (fun _ _ => I).

Definition MPre (c : call) (m : machine) : Prop := True.
Definition MPost (c : call) (m m' : machine) (r : outcome) : Prop := ext_of (log m) (log m').

(** the log predicate holds of the machine of a result *)
Definition lres (A : lpred) (x : machine * outcome) : Prop := lp_log A (st_exec x.1) (log x.1).

Lemma lres_intro A t m r : inv A t m -> lres A (m, r).
Proof. intros [_ H]. exact H. Qed.
Lemma lres_elim A m r : lres A (m, r) ->
  inv A (st_collecting m, st_finalizing m, st_dropping m, panicking m) m.
Proof. intros H. apply inv_self, H. Qed.
Lemma lres_unwinding A t (k : machine -> machine * outcome) m :
  (forall m1, inv A (st_collecting m1, st_finalizing m1, st_dropping m1, panicking m1) m1 ->
              lres A (k m1)) ->
  inv A t m -> lres A (unwinding k m).
Proof.
  intros Hk [_ H]. unfold unwinding. cbv beta zeta.
  match goal with |- context [k ?X] =>
    pose proof (Hk X (inv_self A X H)) as H1; unfold lres in *; destruct (k X) as [m1 r1] end.
  exact H1.
Qed.

#[export] Hint Extern 2 (lres _ (unwinding _ _)) => (eapply lres_unwinding; [intros | ]) : fl.
#[export] Hint Extern 2 (lres _ (ok _ _)) => (unfold ok) : fl.
#[export] Hint Extern 3 (lres _ (_, _)) => (eapply lres_intro) : fl.

Ltac lres_pair x :=
  let Hr := fresh "Hr" in let m1 := fresh "m" in let r1 := fresh "r" in
  eassert (Hr : lres _ x) by fl;
  destruct x as [m1 r1]; apply lres_elim in Hr.

Ltac madv1 := adv_gen lres_pair.
Ltac mgo := cbv beta iota zeta; cbn [andb negb]; repeat madv1; fl.

Lemma call_is_collect (k : call) : {k = KCollect} + {k <> KCollect}.
Proof. destruct k; try (right; discriminate). left; reflexivity. Qed.

Section Mono.
  Context (K : conf) (P : prog) (A : lpred).
  Context (HevA : forall e, e <> ERes RPanicked -> lp_ev A e).
  Context (rec : call -> machine -> machine * outcome).
  Context (mrec : forall k t m, inv A t m -> lres A (rec k m)).

  Local Hint Extern 2 (lres _ (rec _ _)) => (eapply mrec) : fl.
  (** every event logged below the top level is acceptable for these predicates *)
  Local Hint Extern 1 (inv _ _ (emit _ _)) => (apply (inv_emit A); [apply HevA; discriminate|]) : fl.
  Local Hint Extern 2 (inv _ _ (fst (trace_pass _ _ _))) =>
    (eapply (inv_trace_pass K P A); [intros; apply HevA; discriminate | ]) : fl.

  Definition mono_ok (X : machine -> machine * outcome) : Prop :=
    forall c f d p m, inv A (c, f, d, p) m -> lres A (X m).

  Lemma g_step_script self cs : mono_ok (step_script rec self cs).
  Proof. intros c f d p m H. unfold step_script. mgo. Qed.
  Lemma g_step_store r v : mono_ok (step_store rec r v).
  Proof. intros c f d p m H. unfold step_store. mgo. Qed.
  Lemma g_step_drop_cc o : mono_ok (step_drop_cc K P rec o).
  Proof. intros c f d p m H. unfold step_drop_cc. mgo. Qed.
  Lemma g_step_drop_value o : mono_ok (step_drop_value K P rec o).
  Proof. intros c f d p m H. unfold step_drop_value. mgo. Qed.
  Lemma g_step_drop_fields o j : mono_ok (step_drop_fields rec o j).
  Proof. intros c f d p m H. unfold step_drop_fields. mgo. Qed.
  Lemma g_step_drop_map_slots o j : mono_ok (step_drop_map_slots rec o j).
  Proof. intros c f d p m H. unfold step_drop_map_slots. mgo. Qed.
  Lemma g_step_clean_run mo aid s : mono_ok (step_clean_run K P rec mo aid s).
  Proof. intros c f d p m H. unfold step_clean_run. mgo. Qed.
  Lemma g_step_unbag k : mono_ok (step_unbag rec k).
  Proof. intros c f d p m H. unfold step_unbag. mgo. Qed.
  Lemma g_step_trigger  : mono_ok (step_trigger K rec).
  Proof. intros c f d p m H. unfold step_trigger. mgo. Qed.
  Lemma g_step_collect_cycles  : mono_ok (step_collect_cycles K rec).
  Proof. intros c f d p m H. unfold step_collect_cycles. mgo. Qed.
  Lemma g_step_collect_loop k : mono_ok (step_collect_loop rec k).
  Proof. intros c f d p m H. unfold step_collect_loop. mgo. Qed.
  Lemma g_step_collect_once  : mono_ok (step_collect_once K P rec).
  Proof. intros c f d p m H. unfold step_collect_once. mgo. Qed.
  Lemma g_step_finalize_list L rest any old_f : mono_ok (step_finalize_list K P rec L rest any old_f).
  Proof. intros c f d p m H. unfold step_finalize_list. mgo. Qed.
  Lemma g_step_drop_list L rest old_d : mono_ok (step_drop_list K rec L rest old_d).
  Proof. intros c f d p m H. unfold step_drop_list. mgo. Qed.
  Lemma g_cmd_new self dst cls : mono_ok (cmd_new K P rec self dst cls).
  Proof. intros c f d p m H. unfold cmd_new. mgo. Qed.
  Lemma g_cmd_clone self src dst : mono_ok (cmd_clone rec self src dst).
  Proof. intros c f d p m H. unfold cmd_clone. mgo. Qed.
  Lemma g_cmd_drop self l : mono_ok (cmd_drop rec self l).
  Proof. intros c f d p m H. unfold cmd_drop. mgo. Qed.
  Lemma g_cmd_move self src dst : mono_ok (cmd_move rec self src dst).
  Proof. intros c f d p m H. unfold cmd_move. mgo. Qed.
  Lemma g_cmd_mark_alive self l : mono_ok (cmd_mark_alive self l).
  Proof. intros c f d p m H. unfold cmd_mark_alive. mgo. Qed.
  Lemma g_cmd_collect self : mono_ok (cmd_collect rec self).
  Proof. intros c f d p m H. unfold cmd_collect. mgo. Qed.
  Lemma g_cmd_downgrade self l w : mono_ok (cmd_downgrade K self l w).
  Proof. intros c f d p m H. unfold cmd_downgrade. mgo. Qed.
  Lemma g_cmd_upgrade self w dst : mono_ok (cmd_upgrade K rec self w dst).
  Proof. intros c f d p m H. unfold cmd_upgrade. mgo. Qed.
  Lemma g_cmd_w_new self w : mono_ok (cmd_w_new K self w).
  Proof. intros c f d p m H. unfold cmd_w_new. mgo. Qed.
  Lemma g_cmd_w_clone self src dst : mono_ok (cmd_w_clone K self src dst).
  Proof. intros c f d p m H. unfold cmd_w_clone. mgo. Qed.
  Lemma g_cmd_w_drop self w : mono_ok (cmd_w_drop K self w).
  Proof. intros c f d p m H. unfold cmd_w_drop. mgo. Qed.
  Lemma g_cmd_try_unwrap self l v : mono_ok (cmd_try_unwrap K self l v).
  Proof. intros c f d p m H. unfold cmd_try_unwrap. mgo. Qed.
  Lemma g_cmd_drop_value self v : mono_ok (cmd_drop_value rec self v).
  Proof. intros c f d p m H. unfold cmd_drop_value. mgo. Qed.
  Lemma g_cmd_fin_again self l : mono_ok (cmd_fin_again K self l).
  Proof. intros c f d p m H. unfold cmd_fin_again. mgo. Qed.
  Lemma g_cmd_new_cyclic self dst cls script sw : mono_ok (cmd_new_cyclic K P rec self dst cls script sw).
  Proof. intros c f d p m H. unfold cmd_new_cyclic. mgo. Qed.
  Lemma g_cmd_register self nd script cs : mono_ok (cmd_register K P rec self nd script cs).
  Proof. intros c f d p m H. unfold cmd_register. mgo. Qed.
  Lemma g_cmd_clean self cs : mono_ok (cmd_clean K rec self cs).
  Proof. intros c f d p m H. unfold cmd_clean. mgo. Qed.
  Lemma g_cmd_c_drop self cs : mono_ok (cmd_c_drop K self cs).
  Proof. intros c f d p m H. unfold cmd_c_drop. mgo. Qed.
  Lemma g_cmd_unbag self k : mono_ok (cmd_unbag rec self k).
  Proof. intros c f d p m H. unfold cmd_unbag. mgo. Qed.
  Lemma g_cmd_borrow self nd : mono_ok (cmd_borrow self nd).
  Proof. intros c f d p m H. unfold cmd_borrow. mgo. Qed.
  Lemma g_cmd_unborrow self nd : mono_ok (cmd_unborrow self nd).
  Proof. intros c f d p m H. unfold cmd_unborrow. mgo. Qed.
  Lemma g_cmd_cfg_auto self b : mono_ok (cmd_cfg_auto K self b).
  Proof. intros c f d p m H. unfold cmd_cfg_auto. mgo. Qed.
  Lemma g_cmd_cfg_percent self n e : mono_ok (cmd_cfg_percent K self n e).
  Proof. intros c f d p m H. unfold cmd_cfg_percent. mgo. Qed.
  Lemma g_cmd_cfg_buffered self b : mono_ok (cmd_cfg_buffered K self b).
  Proof. intros c f d p m H. unfold cmd_cfg_buffered. mgo. Qed.
  Lemma g_cmd_arm self k v : mono_ok (cmd_arm self k v).
  Proof. intros c f d p m H. unfold cmd_arm. mgo. Qed.
  Lemma g_cmd_panic self : mono_ok (cmd_panic self).
  Proof. intros c f d p m H. unfold cmd_panic. mgo. Qed.
  Lemma g_cmd_obs self l : mono_ok (cmd_obs self l).
  Proof. intros c f d p m H. unfold cmd_obs. mgo. Qed.
  Lemma g_cmd_w_obs self w : mono_ok (cmd_w_obs K self w).
  Proof. intros c f d p m H. unfold cmd_w_obs. mgo. Qed.
  Lemma g_cmd_s_obs self : mono_ok (cmd_s_obs K self).
  Proof. intros c f d p m H. unfold cmd_s_obs. mgo. Qed.
  Lemma g_cmd_bag self l k : mono_ok (cmd_bag self l k).
  Proof.
    intros c f d p m H. unfold cmd_bag. cbv beta iota zeta. madv1.
    destruct (y ≫= λ r, read_loc r m0) as [o|]; [|fl].
    generalize (N.to_nat k). intros n. revert m0 Hr.
    induction n as [|n IH]; intros m0 Hr; [fl|].
    destruct (inc_rc (hdr_of m0 o)) as [h|]; [|fl].
    apply IH. fl.
  Qed.

  Lemma g_step_cmd self cm : mono_ok (step_cmd K P rec self cm).
  Proof.
    intros c f d p m. destruct cm; cbn [step_cmd];
      [ apply g_cmd_new
      | apply g_cmd_clone
      | apply g_cmd_drop
      | apply g_cmd_move
      | apply g_cmd_mark_alive
      | apply g_cmd_collect
      | apply g_cmd_downgrade
      | apply g_cmd_upgrade
      | apply g_cmd_w_new
      | apply g_cmd_w_clone
      | apply g_cmd_w_drop
      | apply g_cmd_try_unwrap
      | apply g_cmd_drop_value
      | apply g_cmd_fin_again
      | apply g_cmd_new_cyclic
      | apply g_cmd_register
      | apply g_cmd_clean
      | apply g_cmd_c_drop
      | apply g_cmd_bag
      | apply g_cmd_unbag
      | apply g_cmd_borrow
      | apply g_cmd_unborrow
      | apply g_cmd_cfg_auto
      | apply g_cmd_cfg_percent
      | apply g_cmd_cfg_buffered
      | apply g_cmd_arm
      | apply g_cmd_panic
      | apply g_cmd_obs
      | apply g_cmd_w_obs
      | apply g_cmd_s_obs ].
  Qed.

  (** every activation kind except [collect] itself (which counts one more execution) *)
  Lemma g_step_nc k : k <> KCollect -> mono_ok (step K P rec k).
  Proof.
    intros Hk c f d p m. destruct k; cbn [step];
      [ apply g_step_cmd
      | apply g_step_script
      | apply g_step_store
      | apply g_step_drop_cc
      | apply g_step_drop_value
      | apply g_step_drop_fields
      | apply g_step_drop_map_slots
      | apply g_step_trigger
      | apply g_step_collect_cycles
      | contradiction
      | apply g_step_collect_loop
      | apply g_step_collect_once
      | apply g_step_finalize_list
      | apply g_step_drop_list
      | apply g_step_unbag
      | apply g_step_clean_run ].
  Qed.

  (** [collect], for predicates that do not look at [st_exec] *)
  Context (Hexec : forall t g m, inv A t m -> inv A t (m <| st_exec ::= g |>)).
  Local Hint Extern 1 (inv _ _ (set st_exec _ _)) => (apply Hexec) : fl.
  Lemma g_step_collect : mono_ok (step_collect K rec).
  Proof. intros c f d p m H. unfold step_collect. mgo. Qed.

  Lemma g_step k : mono_ok (step K P rec k).
  Proof.
    destruct (call_is_collect k) as [->|Hk]; [exact g_step_collect | exact (g_step_nc k Hk)].
  Qed.
End Mono.

(** ** Every activation only adds events to the log, and never [ERes RPanicked]: that event is
    logged by [exec_top] alone. *)
Theorem run_log_ext K P n c m : ext_of (log m) (log (run K P n c m).1).
Proof.
  apply (run_ind K P MPre MPost); [| |exact I].
  - intros rec Hrec k m0 _. unfold MPost.
    refine (g_step K P (extA (log m0)) (fun e He => He) rec _ _ k _ _ _ _ m0
              (inv_self (extA (log m0)) m0 (ext_of_refl _))).
    + intros k' t m1 [_ H1]. pose proof (Hrec k' m1 I) as H2. unfold MPost in H2.
      unfold lres. cbn in *. eapply ext_of_trans; eassumption.
    + intros t g m1 [H1 H2]. split; [exact H1 | exact H2].
  - intros k m0 _. unfold MPost. apply ext_of_refl.
Qed.

Corollary run_log_mono K P n c m : suffix (log m) (log (run K P n c m).1).
Proof. destruct (run_log_ext K P n c m) as (k & -> & _). exists k. reflexivity. Qed.

(** ** [executions] only advance in [collect]: an activation of any other kind changes
    [st_exec] only through its recursive sub-activations. *)
Theorem exec_only_in_collect K P rec k m :
  (forall k' m', st_exec (rec k' m').1 = st_exec m') ->
  k <> KCollect -> st_exec (step K P rec k m).1 = st_exec m.
Proof.
  intros Hrec Hk.
  refine (g_step_nc K P (execA (st_exec m)) (fun _ _ => I) rec _ k Hk _ _ _ _ m
            (inv_self (execA (st_exec m)) m eq_refl)).
  intros k' t m1 [_ H1]. unfold lres. cbn in *. rewrite Hrec. exact H1.
Qed.

Theorem exec_in_collect K rec m :
  (forall k' m', st_exec (rec k' m').1 = st_exec m') ->
  st_exec (step_collect K rec m).1 = N.succ (st_exec m).
Proof.
  intros Hrec. unfold step_collect.
  match goal with |- context [rec ?k ?m0] =>
    pose proof (Hrec k m0) as H; destruct (rec k m0) as [m1 r1] end.
  cbn in *. exact H.
Qed.
