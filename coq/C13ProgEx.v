(** * C13ProgEx: the hypotheses of the program-level C13 theorems are satisfiable (concrete runs,
    by computation), with a Weak handle, a finalizer and a Drop impl on the unwrapped class. *)
From Coq Require Import NArith Bool List Lia.
From stdpp Require Import base list option.
From RecordUpdate Require Import RecordSet.
From RC Require Import Hdr Machine RunInd.
From RC Require Import Inv InvP SafeMain C13Prog C13ProgVal.
Import ListNotations RecordSetNotations.
Local Open Scope N_scope.

Definition c13K : conf := Conf true true true true true 48 8 64 8 1000.
(** class 0: one traced field, one Weak field, finalizer = script 0, Drop = script 1 *)
Definition c13P : prog :=
  Prog [Cls 1 [true] 1 false (Some 0%nat) (Some 1%nat)] [[CSObs]; [CSObs]] [].
(** objects 0 and 1; 1 is owned by field 0 of 0; a Weak to 0 in Weak slot 0; a second handle to 0
    is created and dropped again *)
Definition c13_cmds : list cmd :=
  [CNew (LS 0) 0; CNew (LS 1) 0; CMove (LS 1) (LFA 0 0); CDowngrade (LS 0) (WS 0);
   CClone (LS 0) (LS 2); CDrop (LS 2)].
(** the same without the final drop: two handles to object 0 *)
Definition c13_cmds2 : list cmd :=
  [CNew (LS 0) 0; CNew (LS 1) 0; CMove (LS 1) (LFA 0 0); CDowngrade (LS 0) (WS 0);
   CClone (LS 0) (LS 2)].
Notation c13_run cmds := (fold_left (fun m c => exec_top c13K c13P 30 c m) cmds (init c13K)) (only parsing).

Example c13_hyps_ok :
  let m := c13_run c13_cmds in
  (k_clean c13K = true -> k_weak c13K = true) /\ wf_prog c13P = true /\ clean m = true /\
  slots m !! 0%nat = Some (Some 0%nat) /\ values m !! 0%nat = Some None /\ h_rc (hdr_of m 0%nat) = 1 /\
  no_panic_yet m = true /\ refs m 0%nat = 1%nat /\ wslots m !! 0%nat = Some (Some (WTo 0%nat)) /\
  (exists x, get m 0%nat = Some x /\ o_fields x = [Some 1%nat] /\ needs_fin (o_hdr x) = true).
Proof.
  cbv zeta. split; [reflexivity|]. split; [vm_compute; reflexivity|]. split; [vm_compute; reflexivity|].
  split; [vm_compute; reflexivity|]. split; [vm_compute; reflexivity|]. split; [vm_compute; reflexivity|].
  split; [vm_compute; reflexivity|]. split; [vm_compute; reflexivity|]. split; [vm_compute; reflexivity|].
  eexists. split; [vm_compute; reflexivity|]. split; vm_compute; reflexivity.
Qed.

(** what the run does (by computation): [try_unwrap] answers Ok, then the Weak does not upgrade and
    reports strong count 0, weak count 1 *)
Example c13_run_ok :
  let m := c13_run (c13_cmds ++ [CTryUnwrap (LS 0) 0; CUpgrade (WS 0) (LS 3); CWObs (WS 0)]) in
  clean m = true /\ no_bad m = true /\
  firstn 4 (log m) = [ERes ROk; EWObs 0 1; ERes RNone; ERes RUnwrapOk] /\
  values m !! 0%nat = Some (Some 0%nat) /\ slots m !! 0%nat = Some None /\ slots m !! 3%nat = Some None.
Proof. cbv zeta. do 5 (split; [vm_compute; reflexivity|]). vm_compute; reflexivity. Qed.

Example c13_hyps_err :
  let m := c13_run c13_cmds2 in
  clean m = true /\ slots m !! 0%nat = Some (Some 0%nat) /\ values m !! 0%nat = Some None /\
  no_panic_yet m = true /\ refs m 0%nat = 2%nat /\
  exec_top c13K c13P 30 (CTryUnwrap (LS 0) 0) m = emit (ERes RUnwrapErr) m.
Proof. cbv zeta. do 5 (split; [vm_compute; reflexivity|]). vm_compute; reflexivity. Qed.

(** the three theorems combined (generic), then applied to the concrete run (the hypotheses are
    exactly [c13_hyps_ok]) *)
Lemma c13_combined K P fuel cmds :
  (k_clean K = true -> k_weak K = true) -> wf_prog P = true ->
  let m := fold_left (fun m c => exec_top K P fuel c m) cmds (init K) in
  clean m = true ->
  forall i v o j d, slots m !! i = Some (Some o) -> values m !! v = Some None -> h_rc (hdr_of m o) = 1 ->
  wslots m !! j = Some (Some (WTo o)) -> (d < nslots)%nat ->
  exists mf, cmd_try_unwrap K None (LS i) v m = ok mf RUnwrapOk /\
    (exists l', log mf = l' ++ log m /\ forallb ev_alloc l' = true) /\
    refs mf o = 0%nat /\
    (forall rec, cmd_upgrade K rec None (WS j) (LS d) mf = ok mf RNone) /\
    cmd_w_obs K None (WS j) mf = ok (emit (EWObs 0 (N.of_nat (wrefs mf o))) mf) ROk.
Proof.
  intros H1 H2. cbv zeta. intros H3 i v o j d H4 H5 H6 H9 Hd.
  destruct (prog_try_unwrap_ok K P fuel cmds H1 H2 H3 i v o H4 H5 H6)
    as (mf & x & _ & _ & _ & Heq & _ & Hl & _).
  destruct (prog_try_unwrap_value K P fuel cmds H1 H2 H3 i v o H4 H5 H6)
    as (mf' & _ & _ & Heq' & _ & _ & _ & _ & _ & _ & _ & _ & _ & _ & Hrefs & _).
  destruct (prog_try_unwrap_weak_dead K P fuel cmds H1 H2 H3 i v o H4 H5 H6)
    as (mf'' & Heq'' & _ & _ & _ & Hw).
  rewrite Heq in Heq', Heq''. apply ok_inj in Heq' as [<- _]. apply ok_inj in Heq'' as [<- _].
  destruct (Hw j H9) as (_ & _ & _ & _ & _ & Hup & Hobs).
  exists mf. split; [exact Heq|]. split; [exact Hl|]. split; [exact Hrefs|]. split; [|exact Hobs].
  intros rec. apply (Hup rec (LS d) (RSlot d)). cbn [resolve]. rewrite decide_True by exact Hd. reflexivity.
Qed.

Example c13_thms_apply :
  let m := c13_run c13_cmds in
  exists mf, cmd_try_unwrap c13K None (LS 0) 0 m = ok mf RUnwrapOk /\
    (exists l', log mf = l' ++ log m /\ forallb ev_alloc l' = true) /\
    refs mf 0%nat = 0%nat /\
    (forall rec, cmd_upgrade c13K rec None (WS 0) (LS 3) mf = ok mf RNone) /\
    cmd_w_obs c13K None (WS 0) mf = ok (emit (EWObs 0 (N.of_nat (wrefs mf 0%nat))) mf) ROk.
Proof.
  cbv zeta. pose proof c13_hyps_ok as H. cbv zeta in H. destruct H as (H1 & H2 & H3 & H4 & H5 & H6 & H7 & H8 & H9 & _).
  exact (c13_combined c13K c13P 30 c13_cmds H1 H2 H3 0%nat 0%nat 0%nat 0%nat 3%nat H4 H5 H6 H9 ltac:(unfold nslots; lia)).
Qed.
Print Assumptions c13_thms_apply.

(** ** The examples in closed form (programs inlined), for Props/C13prog.v *)
Example c13_example_ok :
  exists (K : conf) (fuel : nat),
    let P := Prog [Cls 1 [true] 1 false (Some 0%nat) (Some 1%nat)] [[CSObs]; [CSObs]] [] in
    let cmds := [CNew (LS 0) 0; CNew (LS 1) 0; CMove (LS 1) (LFA 0 0); CDowngrade (LS 0) (WS 0);
                 CClone (LS 0) (LS 2); CDrop (LS 2)] in
    let m := fold_left (fun m c => exec_top K P fuel c m) cmds (init K) in
    let m2 := fold_left (fun m c => exec_top K P fuel c m)
                        [CTryUnwrap (LS 0) 0; CUpgrade (WS 0) (LS 3); CWObs (WS 0)] m in
    (k_clean K = true -> k_weak K = true) /\ wf_prog P = true /\
    forallb (fun e => match e with EBad Fuel _ | EBad Abort _ => false | _ => true end) (log m) = true /\
    slots m !! 0%nat = Some (Some 0%nat) /\ values m !! 0%nat = Some None /\ h_rc (hdr_of m 0%nat) = 1 /\
    no_panic_yet m = true /\ refs m 0%nat = 1%nat /\ wslots m !! 0%nat = Some (Some (WTo 0%nat)) /\
    (exists x : obj, get m 0%nat = Some x /\ o_fields x = [Some 1%nat] /\ needs_fin (o_hdr x) = true) /\
    no_bad m2 = true /\
    firstn 4 (log m2) = [ERes ROk; EWObs 0 1; ERes RNone; ERes RUnwrapOk] /\
    values m2 !! 0%nat = Some (Some 0%nat) /\ slots m2 !! 0%nat = Some None /\ slots m2 !! 3%nat = Some None.
Proof.
  exists c13K, 30%nat. cbv zeta. split; [intros _; reflexivity|].
  do 8 (split; [vm_compute; reflexivity|]).
  split; [eexists; split; [vm_compute; reflexivity|]; split; vm_compute; reflexivity|].
  do 4 (split; [vm_compute; reflexivity|]). vm_compute; reflexivity.
Qed.
Example c13_example_err :
  exists (K : conf) (fuel : nat),
    let P := Prog [Cls 1 [true] 1 false (Some 0%nat) (Some 1%nat)] [[CSObs]; [CSObs]] [] in
    let cmds := [CNew (LS 0) 0; CNew (LS 1) 0; CMove (LS 1) (LFA 0 0); CDowngrade (LS 0) (WS 0);
                 CClone (LS 0) (LS 2)] in
    let m := fold_left (fun m c => exec_top K P fuel c m) cmds (init K) in
    (k_clean K = true -> k_weak K = true) /\ wf_prog P = true /\
    forallb (fun e => match e with EBad Fuel _ | EBad Abort _ => false | _ => true end) (log m) = true /\
    slots m !! 0%nat = Some (Some 0%nat) /\ values m !! 0%nat = Some None /\
    no_panic_yet m = true /\ refs m 0%nat = 2%nat /\ h_rc (hdr_of m 0%nat) = 2 /\
    exec_top K P fuel (CTryUnwrap (LS 0) 0) m = emit (ERes RUnwrapErr) m.
Proof.
  exists c13K, 30%nat. cbv zeta. split; [intros _; reflexivity|].
  do 7 (split; [vm_compute; reflexivity|]). vm_compute; reflexivity.
Qed.
Print Assumptions c13_example_ok.
Print Assumptions c13_example_err.
