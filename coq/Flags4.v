(** * Flags4: the flag discipline of whole programs (C07 / C12 statements). *)
From Coq Require Import NArith Bool List Lia.
From stdpp Require Import base list option.
From RecordUpdate Require Import RecordSet.
From RC Require Import Hdr Machine RunInd Flags Flags2 Flags3.
Import ListNotations RecordSetNotations.

(** the collector is idle: no phase flag set, the thread is not unwinding *)
Definition idle (m : machine) : Prop :=
  st_collecting m = false /\ st_finalizing m = false /\ st_dropping m = false /\
  panicking m = false.

Definition run_prog (K : conf) (P : prog) (fuel : nat) (cmds : list cmd) (m : machine) : machine :=
  fold_left (fun m c => exec_top K P fuel c m) cmds m.

(** some top-level command ran out of fuel (the only place where [EBad Fuel] is logged, apart
    from the tracing pass running out of its own fuel) *)
Definition fuel_out (m : machine) : Prop := In (EBad Fuel 0%nat) (log m).

Lemma idle_quiet K m : idle m -> quiet K m.
Proof. intros (Hc & _). unfold quiet. rewrite Hc. destruct (k_fin K); reflexivity. Qed.

Lemma idle_ctl m m' : ctl m' = ctl m -> idle m -> idle m'.
Proof. unfold ctl, idle. intros E (H1 & H2 & H3 & H4). repeat split; congruence. Qed.

Lemma init_idle K : idle (init K).
Proof. repeat split. Qed.

Lemma outcome_eq_dec (a b : outcome) : {a = b} + {a <> b}.
Proof. decide equality. Qed.

(** ** One top-level command *)
Section Top.
  Context (K : conf) (P : prog) (fuel : nat).

  (** what [exec_top] adds on top of the log of the command itself *)
  Lemma exec_top_log c m :
    let x := run K P fuel (KCmd None c) m in
    log (exec_top K P fuel c m) =
    match x.2 with
    | ONormal => log x.1
    | OPanic => ERes RPanicked :: log x.1
    | OAbort => EBad Abort 0%nat :: log x.1
    | OFuel => EBad Fuel 0%nat :: log x.1
    end.
  Proof.
    cbv zeta. unfold exec_top. destruct (run K P fuel (KCmd None c) m) as [m' r].
    destruct r; reflexivity.
  Qed.

  Lemma exec_top_ctl c m :
    ctl (exec_top K P fuel c m) = ctl (run K P fuel (KCmd None c) m).1.
  Proof.
    unfold exec_top. destruct (run K P fuel (KCmd None c) m) as [m' r]. destruct r; reflexivity.
  Qed.

  (** Theorem 3 (minimal form): a panic that reaches the top level is reported *)
  Lemma exec_top_panicked c m :
    (run K P fuel (KCmd None c) m).2 = OPanic ->
    head (log (exec_top K P fuel c m)) = Some (ERes RPanicked).
  Proof. intros E. rewrite exec_top_log. cbv zeta. rewrite E. reflexivity. Qed.

  (** [ERes RPanicked] is logged by [exec_top] only, and exactly when the command panicked *)
  Lemma exec_top_panicked_iff c m :
    exists k, log (exec_top K P fuel c m) = k ++ log m /\
              (In (ERes RPanicked) k <-> (run K P fuel (KCmd None c) m).2 = OPanic).
  Proof.
    rewrite exec_top_log. cbv zeta.
    destruct (run_log_ext K P fuel (KCmd None c) m) as (k & -> & Hk).
    rewrite Forall_forall in Hk.
    destruct (run K P fuel (KCmd None c) m).2.
    - exists k. split; [reflexivity|]. split; [intros H; destruct (Hk _ H eq_refl) | discriminate].
    - exists (ERes RPanicked :: k). split; [reflexivity|]. split; [reflexivity | left; reflexivity].
    - exists (EBad Abort 0%nat :: k). split; [reflexivity|].
      split; [intros [H|H]; [discriminate | destruct (Hk _ H eq_refl)] | discriminate].
    - exists (EBad Fuel 0%nat :: k). split; [reflexivity|].
      split; [intros [H|H]; [discriminate | destruct (Hk _ H eq_refl)] | discriminate].
  Qed.

  Lemma exec_top_log_mono c m : suffix (log m) (log (exec_top K P fuel c m)).
  Proof.
    rewrite exec_top_log. cbv zeta.
    pose proof (run_log_mono K P fuel (KCmd None c) m) as H.
    destruct (run K P fuel (KCmd None c) m).2; auto using suffix_cons_r.
  Qed.

  Lemma fuel_out_mono c m : fuel_out m -> fuel_out (exec_top K P fuel c m).
  Proof.
    unfold fuel_out. intros H. destruct (exec_top_log_mono c m) as [k ->].
    apply in_or_app. right. exact H.
  Qed.

  (** from an idle state with a good log: unless the command runs out of fuel, the state is
      idle again and the log is good *)
  Lemma exec_top_idle c m :
    idle m -> log_ok K (log m) ->
    (run K P fuel (KCmd None c) m).2 <> OFuel ->
    idle (exec_top K P fuel c m) /\ log_ok K (log (exec_top K P fuel c m)).
  Proof.
    intros Hi Hl Hf.
    pose proof (run_flags K P fuel (KCmd None c) m (conj Hl (idle_quiet K m Hi))) as HP.
    unfold Post in HP. cbn [target] in HP. destruct HP as [Hl' [Ho|Hc]]; [contradiction|].
    cbn [fst snd flagsA lp_log] in *. split.
    - eapply idle_ctl; [|exact Hi]. rewrite exec_top_ctl. exact Hc.
    - rewrite exec_top_log. cbv zeta.
      destruct (run K P fuel (KCmd None c) m).2; try exact Hl'; constructor; try exact Hl'; exact I.
  Qed.

  Lemma exec_top_fuel c m :
    (run K P fuel (KCmd None c) m).2 = OFuel -> fuel_out (exec_top K P fuel c m).
  Proof. intros E. unfold fuel_out. rewrite exec_top_log. cbv zeta. rewrite E. left. reflexivity. Qed.

  Definition good (m : machine) : Prop := (idle m /\ log_ok K (log m)) \/ fuel_out m.

  Lemma exec_top_good c m : good m -> good (exec_top K P fuel c m).
  Proof.
    intros [[Hi Hl]|Hf]; [|right; apply fuel_out_mono, Hf].
    destruct (outcome_eq_dec (run K P fuel (KCmd None c) m).2 OFuel) as [E|E].
    - right. apply exec_top_fuel, E.
    - left. apply exec_top_idle; assumption.
  Qed.

  Lemma run_prog_good cmds m : good m -> good (run_prog K P fuel cmds m).
  Proof.
    revert m. induction cmds as [|c cmds IH]; intros m H; cbn; [exact H|].
    apply IH, exec_top_good, H.
  Qed.
End Top.

(** ** Theorem 2 / 4: whole programs.  After every top-level command, whatever panicked
    inside it, the collector is idle and the log satisfies [log_ok] - unless some command ran
    out of fuel (recorded as [EBad Fuel 0] in the log; the model state is then meaningless). *)
Theorem prog_good K P fuel cmds : good K (run_prog K P fuel cmds (init K)).
Proof. apply run_prog_good. left. split; [apply init_idle | constructor]. Qed.

Theorem C07_idle K P fuel cmds :
  let m := fold_left (fun m c => exec_top K P fuel c m) cmds (init K) in
  ~ fuel_out m -> idle m.
Proof. intros m Hf. destruct (prog_good K P fuel cmds) as [[H _]|H]; [exact H | contradiction]. Qed.

Theorem C12_log K P fuel cmds :
  let m := fold_left (fun m c => exec_top K P fuel c m) cmds (init K) in
  ~ fuel_out m -> log_ok K (log m).
Proof. intros m Hf. destruct (prog_good K P fuel cmds) as [[_ H]|H]; [exact H | contradiction]. Qed.

(** the log of a program run only grows *)
Theorem run_prog_log_mono K P fuel cmds m : suffix (log m) (log (run_prog K P fuel cmds m)).
Proof.
  revert m. induction cmds as [|c cmds IH]; intros m; cbn; [reflexivity|].
  etransitivity; [apply exec_top_log_mono | apply IH].
Qed.

(** ** C12: collections never nest *)
Theorem C12_no_nesting K rec m :
  st_collecting m = true ->
  step_collect_cycles K rec m = (m, ONormal) /\ step_trigger K rec m = (m, ONormal).
Proof. intros E. unfold step_collect_cycles, step_trigger. rewrite E. split; reflexivity. Qed.

(** ** C07: from an idle state a collection really starts: [collect_cycles] enters [collect],
    which sets [collecting] and counts one more execution before anything else happens. *)
Theorem C07_collect_can_start K P n m :
  st_collecting m = false -> pc_alive m = true ->
  run K P (S (S n)) KCollectCycles m =
  (let '(m1, r) := run K P n (KCollectLoop (if k_fin K then 10 else 1)%nat)
                      (m <| st_collecting := true |> <| st_exec ::= N.succ |>) in
   let m2 := m1 <| st_collecting := false |> in
   match r with ONormal => (adjust_trigger_point K m2, ONormal) | _ => (m2, r) end).
Proof.
  intros Ec Ea. rewrite run_S. cbn [step]. unfold step_collect_cycles. rewrite Ec, Ea.
  rewrite run_S. cbn [step]. unfold step_collect.
  destruct (run K P n _ _) as [m1 r]. reflexivity.
Qed.

(** ** C07: panics propagate *)
Lemma unwinding_not_normal f m : (unwinding f m).2 <> ONormal.
Proof.
  unfold unwinding. destruct (f _) as [m' r]. cbn [snd].
  destruct r, (panicking m); discriminate.
Qed.

Lemma raise_not_normal m : raise m <> ONormal.
Proof. unfold raise. destruct (panicking m); discriminate. Qed.

(** ** C12: [try_unwrap] / [finalize_again] while a collector phase is active *)
Definition is_ebad (e : event) : Prop := exists b o, e = EBad b o.

(** [m'] is [m] with only [EBad] events logged on top *)
Definition only_bad (m m' : machine) : Prop :=
  exists evs, Forall is_ebad evs /\ m' = m <| log := evs ++ log m |>.

Lemma only_bad_refl m : only_bad m m.
Proof. exists []. split; [constructor|]. destruct m; reflexivity. Qed.
Lemma only_bad_emit b o m : only_bad m (emit_bad b o m).
Proof.
  exists [EBad b o]. split; [repeat constructor; eexists _, _; reflexivity|].
  destruct m; reflexivity.
Qed.

Lemma node_via_slot_only_bad i m : only_bad m (node_via_slot i m).1.
Proof. unfold node_via_slot. brk; cbn [fst]; auto using only_bad_refl, only_bad_emit. Qed.

Lemma resolve_only_bad self l m : only_bad m (resolve self l m).1.
Proof.
  unfold resolve. destruct l as [i|j|i j]; cbn [fst]; auto using only_bad_refl.
  - brk; cbn [fst]; auto using only_bad_refl.
  - pose proof (node_via_slot_only_bad i m) as H.
    destruct (node_via_slot i m) as [m1 n]. cbn [fst] in H. brk; cbn [fst]; exact H.
Qed.

Theorem C12_try_unwrap_err K self l v m :
  st_collecting m || st_dropping m || (k_fin K && st_finalizing m) = true ->
  exists x evs, (x = RUnwrapErr \/ x = RSkip) /\ Forall is_ebad evs /\
    cmd_try_unwrap K self l v m = (m <| log := ERes x :: evs ++ log m |>, ONormal).
Proof.
  intros Hc. unfold cmd_try_unwrap.
  pose proof (resolve_only_bad self l m) as H.
  destruct (resolve self l m) as [m1 r]. cbn [fst] in H. destruct H as (evs & Hevs & ->).
  cbn [st_collecting st_dropping st_finalizing set] in *.
  assert (Hok : forall x, ok (m <| log := evs ++ log m |>) x
                          = (m <| log := ERes x :: evs ++ log m |>, ONormal)).
  { intros x. unfold ok, emit. destruct m; reflexivity. }
  brk; rewrite ?Hok; try (eexists _, evs; split; [|split; [exact Hevs|reflexivity]]; auto).
  all: exfalso; cbn in *; congruence.
Qed.

Theorem C12_finalize_again_panics K self l m :
  k_fin K = true -> st_collecting m || st_finalizing m || st_dropping m = true ->
  exists evs, Forall is_ebad evs /\
    (cmd_fin_again K self l m = (m <| log := ERes RSkip :: evs ++ log m |>, ONormal) \/
     cmd_fin_again K self l m = (m <| log := evs ++ log m |>, raise m)).
Proof.
  intros Hk Hc. unfold cmd_fin_again. rewrite Hk. cbn [negb].
  pose proof (resolve_only_bad self l m) as H.
  destruct (resolve self l m) as [m1 r]. cbn [fst] in H. destruct H as (evs & Hevs & ->).
  exists evs. split; [exact Hevs|].
  destruct (r ≫= _) as [o|].
  - right. cbn [st_collecting st_dropping st_finalizing set]. cbn. cbn in Hc. rewrite Hc.
    unfold raise. reflexivity.
  - left. unfold ok, emit. destruct m; reflexivity.
Qed.

(** ** Non-vacuity: a concrete program exercising every callback kind and a panic *)
Section Examples.
  Local Open Scope N_scope.

  Definition exK : conf := Conf true true true false false 64 8 64 8 1000.
  (** class 0: one traced field, finalizer script 0, Drop script 1 (both call [sobs] and
      [try_unwrap] on their own field); class 1: the same with a finalizer that calls
      [finalize_again] (which panics inside the collector) *)
  Definition exP : prog :=
    Prog [Cls 1 [true] 0 false (Some 0%nat) (Some 1%nat);
          Cls 1 [true] 0 false (Some 2%nat) (Some 1%nat)]
         [[CSObs; CTryUnwrap (LFS 0) 0]; [CSObs; CTryUnwrap (LFS 0) 0]; [CFinAgain (LFS 0)]]
         [].
  (** a two-object cycle of class [c], unreachable from the slots *)
  Definition ex_cycle (c : nat) : list cmd :=
    [CNew (LS 0) c; CNew (LS 1) c; CClone (LS 1) (LFA 0 0); CClone (LS 0) (LFA 1 0);
     CDrop (LS 0); CDrop (LS 1)].
  Definition ex_cmds : list cmd :=
    ex_cycle 0 ++ [CCollect; CSObs] ++ ex_cycle 1 ++ [CCollect; CSObs]
    ++ ex_cycle 0 ++ [CCollect; CSObs].
  Definition ex_m : machine := run_prog exK exP 100 ex_cmds (init exK).

  Definition cbkind_eqb (a b : cbkind) : bool :=
    match a, b with
    | KTrace, KTrace | KFin, KFin | KDrop, KDrop | KAction, KAction | KClosure, KClosure => true
    | _, _ => false
    end.
  (** some logged callback entry of kind [k] has flags satisfying [p] *)
  Definition has_cb (k : cbkind) (p : flags -> bool) (l : list event) : bool :=
    existsb (fun e => match e with ECb k' _ f => cbkind_eqb k k' && p f | _ => false end) l.
  Definition has_res (p : Machine.res -> bool) (l : list event) : bool :=
    existsb (fun e => match e with ERes r => p r | _ => false end) l.
  Definition is_fuel (e : event) : bool :=
    match e with EBad Fuel 0%nat => true | _ => false end.

  Lemma fuel_out_existsb m : fuel_out m <-> existsb is_fuel (log m) = true.
  Proof.
    unfold fuel_out. rewrite existsb_exists. split.
    - intros H. eexists; split; [exact H | reflexivity].
    - intros (e & H & He). destruct e as [| | | | | | | | |b o]; try discriminate.
      destruct b; try discriminate. destruct o; try discriminate. exact H.
  Qed.
End Examples.

(** Theorem 1 in readable form *)
Corollary run_flags_restored K P n c m :
  Pre K c m ->
  log_ok K (log (run K P n c m).1) /\
  ((run K P n c m).2 <> OFuel -> ctl (run K P n c m).1 = target c m).
Proof.
  intros Hp. destruct (run_flags K P n c m Hp) as [Hl Hc]. split; [exact Hl|].
  intros Hf. destruct Hc as [Hc|Hc]; [contradiction | exact Hc].
Qed.
