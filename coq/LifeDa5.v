(** * LifeDa5: promptness of deallocation for every program (property C03, third part): in an
    execution without panic, every object whose value has been dropped has had its allocation
    released when the top-level command returns. *)
From Coq Require Import NArith Bool List Lia.
From stdpp Require Import base list option.
From RecordUpdate Require Import RecordSet.
From RC Require Import Hdr Machine RunInd Flags Flags2 Flags3 Flags4 Flags6.
From RC Require Import Inv InvP SafeHelpers SafePrims SafeCalls SafeMain SafeColl SafeFinal.
From RC Require Import LifeGhost Life LifeChk LifeInv LifeInv2 LifeStep LifeStep2 LifeStep5 LifeDa LifeDa2 LifeDa3 LifeDa4.
Import ListNotations RecordSetNotations.
Local Open Scope N_scope.

Section Disp.
  Context (K : conf) (P : prog) (mu : id) (nfa : bool).
  Hypothesis Hprog : nfa = true -> prog_nfa P = true.
  Notation G := (G mu).
  Notation NdX := (NdX mu).
  Notation Nd := (NdX None).
  Notation Pre2 := (Pre2 K nfa).
  Notation Post2 := (Post2 K mu nfa).

  (** what an activation that returns normally guarantees *)
  Definition Dap (c : call) (m m' : machine) : Prop :=
    match c with
    | KDropValue o => NdX (Some o) (length (heap m)) m m'
    | KDropList L _ _ =>
      Nd (length (heap m)) m m' /\ (G m' -> forall g x', g ∈ L -> get m' g = Some x' -> ~ isDA x')
    | _ => Nd (length (heap m)) m m'
    end.
  Definition Post3 (c : call) (m m' : machine) (r : outcome) : Prop :=
    Post2 c m m' r /\ (r = ONormal -> Dap c m m').

  Section Rec.
    Context (rec : call -> machine -> machine * outcome).
    Hypothesis HR : RecD K mu nfa rec.
    Hypothesis Hrec2 : rec_ok Pre2 Post2 rec.
    Hypothesis HN : forall c m, (rec c m).2 = ONormal \/ (rec c m).1 = m.
    Hypothesis HRL : forall L rest d m, (rec (KDropList L rest d) m).2 = ONormal -> G (rec (KDropList L rest d) m).1 ->
      forall g x', g ∈ L -> get (rec (KDropList L rest d) m).1 g = Some x' -> ~ isDA x'.

    Ltac ap L := first [ apply L; assumption | eapply L; eassumption ].

    Lemma d_step_cmd self c m :
      Pre2 (KCmd self c) m -> chk (KCmd self c) m = true -> (step_cmd K P rec self c m).2 = ONormal ->
      Nd (length (heap m)) m (step_cmd K P rec self c m).1.
    Proof.
      intros Hp Hc. destruct c; cbn [step_cmd]; intros Hn.
      - ap d_cmd_new.
      - ap d_cmd_clone.
      - ap d_cmd_drop.
      - ap d_cmd_move.
      - ap d_cmd_mark_alive.
      - ap d_cmd_collect.
      - ap d_cmd_downgrade.
      - ap d_cmd_upgrade.
      - ap d_cmd_w_new.
      - ap d_cmd_w_clone.
      - ap d_cmd_w_drop.
      - ap d_cmd_try_unwrap.
      - ap d_cmd_drop_value.
      - ap d_cmd_fin_again.
      - ap d_cmd_new_cyclic.
      - ap d_cmd_register.
      - ap d_cmd_clean.
      - ap d_cmd_c_drop.
      - ap d_cmd_bag.
      - ap d_cmd_unbag.
      - ap d_cmd_borrow.
      - ap d_cmd_unborrow.
      - ap d_cmd_cfg_auto.
      - ap d_cmd_cfg_percent.
      - ap d_cmd_cfg_buffered.
      - ap d_cmd_arm.
      - ap d_cmd_panic.
      - ap d_cmd_obs.
      - ap d_cmd_w_obs.
      - ap d_cmd_s_obs.
    Qed.

    Lemma d_step c m :
      Pre2 c m -> chk c m = true -> (step K P rec c m).2 = ONormal -> Dap c m (step K P rec c m).1.
    Proof.
      intros Hp Hc. destruct c; cbn [step Dap]; intros Hn.
      - ap d_step_cmd.
      - ap d_step_script.
      - ap d_step_store.
      - ap d_step_drop_cc.
      - ap d_step_drop_value.
      - ap d_step_drop_fields.
      - ap d_step_drop_map_slots.
      - ap d_step_trigger.
      - ap d_step_collect_cycles.
      - ap d_step_collect.
      - ap d_step_collect_loop.
      - ap d_step_collect_once.
      - ap d_step_finalize_list.
      - ap d_step_drop_list.
      - ap d_step_unbag.
      - ap d_step_clean_run.
    Qed.
  End Rec.

  (** ** normalising the recursive calls *)
  Definition nrm (rec : call -> machine -> machine * outcome) : call -> machine -> machine * outcome :=
    fun c m => match rec c m with (m', ONormal) => (m', ONormal) | _ => (m, OFuel) end.

  Lemma nrm_agree rec : agree_on_normal rec (nrm rec).
  Proof. intros k m Hn. unfold nrm. destruct (rec k m) as [m' r]. cbn in Hn. subst r. reflexivity. Qed.

  Section Nrm.
    Context (rec : call -> machine -> machine * outcome).
    Hypothesis Hrec3 : rec_ok Pre2 Post3 rec.

    Lemma nrm_post2 : rec_ok Pre2 Post2 (nrm rec).
    Proof.
      intros c m Hp. unfold nrm. destruct (Hrec3 c m Hp) as [H2 _]. destruct (rec c m) as [m' r]. cbn [fst snd] in *.
      destruct r; [exact H2 | apply Post2_fuel, Hp ..].
    Qed.
    Lemma nrm_RecD : RecD K mu nfa (nrm rec).
    Proof.
      intros c m Hp. unfold nrm. destruct (Hrec3 c m Hp) as [_ HD]. destruct (rec c m) as [m' r]. cbn [fst snd] in *.
      destruct r; try apply NdX_refl. specialize (HD eq_refl). destruct c; cbn [Dap exo] in *; try exact HD. apply HD.
    Qed.
    Lemma nrm_HN c m : (nrm rec c m).2 = ONormal \/ (nrm rec c m).1 = m.
    Proof. unfold nrm. destruct (rec c m) as [m' r]. destruct r; cbn; auto. Qed.
    Lemma nrm_HRL L rest d m : Pre2 (KDropList L rest d) m ->
      (nrm rec (KDropList L rest d) m).2 = ONormal -> G (nrm rec (KDropList L rest d) m).1 ->
      forall g x', g ∈ L -> get (nrm rec (KDropList L rest d) m).1 g = Some x' -> ~ isDA x'.
    Proof.
      intros Hp. unfold nrm. destruct (Hrec3 _ m Hp) as [_ HD]. destruct (rec (KDropList L rest d) m) as [m' r]. cbn [fst snd] in *.
      destruct r; try discriminate. intros _. apply (HD eq_refl).
    Qed.

    Theorem step_ok3 c m : Pre2 c m -> chk c m = true -> Post3 c m (step K P rec c m).1 (step K P rec c m).2.
    Proof.
      intros Hp Hc. split.
      - apply (step_ok2 K P mu nfa Hprog rec (fun c' m' Hp' => proj1 (Hrec3 c' m' Hp')) c m Hp Hc).
      - intros Hn. rewrite <- (step_strict K P rec (nrm rec) c m (nrm_agree rec) Hn).
        apply (d_step (nrm rec) nrm_RecD nrm_post2 nrm_HN (fun L rest d m0 => nrm_HRL L rest d m0 I) c m Hp Hc).
        rewrite (step_strict K P rec (nrm rec) c m (nrm_agree rec) Hn). exact Hn.
    Qed.
  End Nrm.

  Lemma Post3_vac c m m' r : mem_id mu (dead m') = true -> Post3 c m m' r.
  Proof.
    intros Hm. assert (HnG : ~ G m') by (intros [_ H]; congruence).
    assert (Hv : forall ex n, NdX ex n m m') by (intros ex n; split; intros HG; contradiction).
    split; [apply Post2_vac, Hm|]. intros _. destruct c; cbn [Dap]; try apply Hv.
    split; [apply Hv | intros HG; contradiction].
  Qed.
  Lemma Post3_fuel c m : Pre2 c m -> Post3 c m m OFuel.
  Proof. intros Hp. split; [apply Post2_fuel, Hp | discriminate]. Qed.
End Disp.

Section Prog.
  Context (K : conf) (P : prog).
  Hypothesis Hconf : k_clean K = true -> k_weak K = true.
  Hypothesis Hwf : wf_prog P = true.

  Lemma mrun_da mu n : rec_ok (Pre2 K false) (Post3 K mu false) (mrun K P chk mu n).
  Proof.
    apply (mrun_ind K P chk chk_dl mu (Pre2 K false) (Post3 K mu false)).
    - intros c m m' r. apply Post3_vac.
    - intros rec Hrec c m Hp Hc. apply (step_ok3 K P mu false ltac:(discriminate) rec Hrec c m Hp Hc).
    - intros c m. apply Post3_fuel.
  Qed.

  Definition noDA (m : machine) : Prop := forall o x, get m o = Some x -> ~ isDA x.
  Definition TopD (mu : id) (m : machine) : Prop :=
    G mu m -> clean m = true -> no_panic_yet m = true -> noDA m.

  Lemma mrun_log_mono mu n c m : suffix (log m) (log (mrun K P chk mu n c m).1).
  Proof.
    destruct (mrun_eq K P chk chk_dl mu n c m) as (t & _ & ->). cbn [fst]. apply (run_log_mono K P n c m).
  Qed.

  Lemma TopD_mexec mu fuel c m : TopD mu m -> TopD mu (mexec_top K P chk mu fuel c m).
  Proof.
    intros HT. unfold mexec_top.
    pose proof (mrun_log_mono mu fuel (KCmd None c) m) as Hsuf.
    destruct (mrun_da mu fuel (KCmd None c) m ltac:(cbn; discriminate)) as [[(A & _) _] HD].
    destruct (mrun K P chk mu fuel (KCmd None c) m) as [m1 r]. cbn [fst snd] in *.
    destruct r.
    - intros HG Hcl Hnp. specialize (HD eq_refl). cbn [Dap] in HD. destruct HD as (_ & B). destruct (B HG) as [BN _].
      assert (Hn : noDA m).
      { apply HT; [apply A, HG | unfold clean in *; eapply forallb_suffix; eauto | unfold no_panic_yet in *; eapply forallb_suffix; eauto]. }
      intros o x' Hx' Hda. destruct (BN o x' Hx' Hda) as [He|(x & Hx & Hdx)]; [discriminate | exact (Hn o x Hx Hdx)].
    - intros _ _ Hnp. cbn in Hnp. discriminate.
    - intros _ Hcl. cbn in Hcl. discriminate.
    - intros _ Hcl. cbn in Hcl. discriminate.
  Qed.

  Lemma TopD_mfold mu fuel cmds : forall m, TopD mu m -> TopD mu (fold_left (fun m c => mexec_top K P chk mu fuel c m) cmds m).
  Proof. induction cmds as [|c cs IH]; intros m HT; [exact HT|]. cbn [fold_left]. apply IH, TopD_mexec, HT. Qed.

  (** C03, promptness *)
  Theorem prog_prompt fuel cmds :
    let m := fold_left (fun m c => exec_top K P fuel c m) cmds (init K) in
    clean m = true -> no_panic_yet m = true ->
    forall o x, get m o = Some x -> o_vst x = VDropped -> o_box x <> BAlloc.
  Proof.
    intros m Hcl Hnp o x Hx Hv Hb. set (mu := length (heap m)).
    pose proof (mfold_eq K P Hconf Hwf chk chk_dl (chk_ok K) mu fuel cmds Hcl (Nat.le_refl _)) as E.
    assert (HT0 : TopD mu (init K)) by (intros _ _ _ o' x' Hx'; destruct o'; discriminate).
    pose proof (TopD_mfold mu fuel cmds (init K) HT0) as HT. rewrite E in HT. fold m in HT.
    refine (HT _ Hcl Hnp o x Hx (conj Hv Hb)).
    destruct (safe_programs_sinv K P fuel cmds Hconf Hwf Hcl) as (b & Hnb & HI & _). fold m in Hnb, HI.
    split; [exact Hnb|]. destruct (mem_id mu (dead m)) eqn:Hd; [|reflexivity]. exfalso.
    destruct (sv_dead _ _ _ _ _ HI mu Hd) as [y Hy]. apply lookup_lt_Some in Hy. unfold mu in Hy. lia.
  Qed.
End Prog.

Print Assumptions prog_prompt.
