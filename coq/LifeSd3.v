(** * LifeSd3: side records, the closed helpers in the unary form
    [SLs mu n0 m0 m -> SLs mu n0 m0 (h m)] (generated from LifeInv's helper section). *)
From Coq Require Import NArith Bool List Lia.
From stdpp Require Import base list option.
From RecordUpdate Require Import RecordSet.
From RC Require Import Hdr Machine RunInd Flags.
From RC Require Import Inv InvP LifeInv LifeInv2 LifeSd LifeSd2.
Import ListNotations RecordSetNotations.
Local Open Scope N_scope.

#[export] Hint Resolve ss_sfree ss_dealloc ss_uside : lss.
#[export] Hint Extern 1 (SLs _ _ _ (upd _ (fun x => x <| o_cleaner := None |>) _)) => (apply ss_set_cleaner; [discriminate|]) : lss.

Section HelpersS.
  Context (K : conf) (P : prog) (mu : id).
  Implicit Types (m : machine).

  Lemma ss_dec_size n0 m0 o m : SLs mu n0 m0 m -> SLs mu n0 m0 (dec_size o m).
  Proof. unfold dec_size. intros; brk; lss. Qed.
  Hint Resolve ss_dec_size : lss.
  Lemma ss_remove_from_list n0 m0 o m : SLs mu n0 m0 m -> SLs mu n0 m0 (remove_from_list o m).
  Proof. unfold remove_from_list. intros; brk; lss. Qed.
  Lemma ss_add_to_list n0 m0 o m : SLs mu n0 m0 m -> SLs mu n0 m0 (add_to_list o m).
  Proof. unfold add_to_list. intros; brk; lss. Qed.
  Lemma ss_dec_rc_m n0 m0 o m : SLs mu n0 m0 m -> SLs mu n0 m0 (dec_rc_m o m).
  Proof.
    unfold dec_rc_m, dec_rc. intros H. destruct (h_rc (hdr_of m o) =? 0); lss.
  Qed.
  Hint Resolve ss_remove_from_list ss_add_to_list ss_dec_rc_m : lss.
  Lemma ss_drop_metadata n0 m0 o m : SLs mu n0 m0 m -> SLs mu n0 m0 (drop_metadata K o m).
  Proof. unfold drop_metadata. intros; brk; lss. Qed.
  Hint Resolve ss_drop_metadata : lss.
  Lemma ss_weak_strong_count n0 m0 w m : SLs mu n0 m0 m -> SLs mu n0 m0 (weak_strong_count w m).1.
  Proof. unfold weak_strong_count. intros; brk; cbn [fst]; lss. Qed.
  Lemma ss_weak_weak_count n0 m0 w m : SLs mu n0 m0 m -> SLs mu n0 m0 (weak_weak_count w m).1.
  Proof. unfold weak_weak_count. intros; brk; cbn [fst]; lss. Qed.
  Lemma ss_weak_clone n0 m0 w m m' : SLs mu n0 m0 m -> weak_clone w m = Some m' -> SLs mu n0 m0 m'.
  Proof. unfold weak_clone. intros H E; revert E; brk; intros [= <-]; lss. Qed.
  Lemma ss_weak_drop n0 m0 w m : SLs mu n0 m0 m -> SLs mu n0 m0 (weak_drop w m).
  Proof. unfold weak_drop. intros; brk; lss. Qed.
  Hint Resolve ss_weak_strong_count ss_weak_weak_count ss_weak_drop : lss.
  Lemma ss_weak_drop_opt n0 m0 w m : SLs mu n0 m0 m -> SLs mu n0 m0 (weak_drop_opt w m).
  Proof. unfold weak_drop_opt. intros; brk; lss. Qed.
  Hint Resolve ss_weak_drop_opt : lss.
  Lemma ss_node_via_slot n0 m0 i m : SLs mu n0 m0 m -> SLs mu n0 m0 (node_via_slot i m).1.
  Proof. unfold node_via_slot. intros; brk; cbn [fst]; lss. Qed.
  Hint Resolve ss_node_via_slot : lss.
  Lemma ss_resolve n0 m0 self l m : SLs mu n0 m0 m -> SLs mu n0 m0 (resolve self l m).1.
  Proof.
    unfold resolve. intros H. destruct l as [i|j|i j]; cbn [fst]; auto.
    - brk; cbn [fst]; auto.
    - pose proof (ss_node_via_slot n0 m0 i m H) as H'.
      destruct (node_via_slot i m) as [m1 n]. cbn [fst] in H'. brk; cbn [fst]; auto.
  Qed.
  Lemma ss_wresolve n0 m0 self l m : SLs mu n0 m0 m -> SLs mu n0 m0 (wresolve self l m).1.
  Proof.
    unfold wresolve. intros H. destruct l as [i|j|i j|]; cbn [fst]; auto.
    - brk; cbn [fst]; auto.
    - pose proof (ss_node_via_slot n0 m0 i m H) as H'.
      destruct (node_via_slot i m) as [m1 n]. cbn [fst] in H'. brk; cbn [fst]; auto.
  Qed.
  Lemma ss_nresolve n0 m0 self n m : SLs mu n0 m0 m -> SLs mu n0 m0 (nresolve self n m).1.
  Proof. unfold nresolve. intros; brk; cbn [fst]; lss. Qed.
  Lemma ss_write_loc n0 m0 r v m : SLs mu n0 m0 m -> SLs mu n0 m0 (write_loc r v m).
  Proof. unfold write_loc. intros; brk; lss. Qed.
  Lemma ss_write_wloc n0 m0 r v m : SLs mu n0 m0 m -> SLs mu n0 m0 (write_wloc r v m).
  Proof. unfold write_wloc. intros; brk; lss. Qed.
  Hint Resolve ss_resolve ss_wresolve ss_nresolve ss_write_loc ss_write_wloc : lss.
  Lemma ss_set_fuse n0 m0 k n m : SLs mu n0 m0 m -> SLs mu n0 m0 (set_fuse k n m).
  Proof. unfold set_fuse. intros; brk; lss. Qed.
  Hint Resolve ss_set_fuse : lss.
  Lemma ss_tick n0 m0 k m : SLs mu n0 m0 m -> SLs mu n0 m0 (tick k m).1.
  Proof. unfold tick. intros; brk; cbn [fst]; lss. Qed.
  Lemma ss_adjust n0 m0 m : SLs mu n0 m0 m -> SLs mu n0 m0 (adjust K m).
  Proof. unfold adjust. intros; brk; lss. Qed.
  Hint Resolve ss_tick ss_adjust : lss.
  Lemma ss_adjust_trigger_point n0 m0 m : SLs mu n0 m0 m -> SLs mu n0 m0 (adjust_trigger_point K m).
  Proof. unfold adjust_trigger_point. intros; brk; lss. Qed.
  Lemma ss_map_insert n0 m0 mo a s m : SLs mu n0 m0 m -> SLs mu n0 m0 (map_insert mo a s m).1.
  Proof. unfold map_insert. intros; brk; cbn [fst]; lss. Qed.
  Hint Resolve ss_adjust_trigger_point ss_map_insert : lss.

  Lemma ss_fold {B} (f : machine -> B -> machine) n0 m0 :
    (forall m a, SLs mu n0 m0 m -> SLs mu n0 m0 (f m a)) ->
    forall l m, SLs mu n0 m0 m -> SLs mu n0 m0 (fold_left f l m).
  Proof. intros Hf l. induction l as [|a l IH]; cbn; intros m H; auto. Qed.
  Lemma ss_unmark_all n0 m0 l m : SLs mu n0 m0 m -> SLs mu n0 m0 (unmark_all l m).
  Proof. unfold unmark_all. apply ss_fold. intros; lss. Qed.
  Lemma ss_reset_buffered n0 m0 m : SLs mu n0 m0 m -> SLs mu n0 m0 (reset_buffered m).
  Proof. unfold reset_buffered. apply ss_fold. intros; lss. Qed.
  Hint Resolve ss_unmark_all ss_reset_buffered : lss.

  (** tracing *)
  Lemma ss_traced_children n0 m0 m o : SLs mu n0 m0 m -> SLs mu n0 m0 (traced_children P m o).1.
  Proof. unfold traced_children. intros; brk; cbn [fst]; lss. Qed.
  Hint Resolve ss_traced_children : lss.
  Lemma ss_trace_event n0 m0 o m : SLs mu n0 m0 m -> SLs mu n0 m0 (trace_event K o m).1.
  Proof.
    unfold trace_event. intros H. destruct (is_map m o); cbn [fst]; auto.
    apply ss_tick. lss.
  Qed.
  Lemma ss_visit_counting n0 m0 s c : SLs mu n0 m0 (t_m s) -> SLs mu n0 m0 (t_m (visit_counting s c)).
  Proof.
    unfold visit_counting. intros H. brk; cbn [t_m]; lss.
  Qed.
  Lemma ss_visit_root n0 m0 s c : SLs mu n0 m0 (t_m s) -> SLs mu n0 m0 (t_m (visit_root s c)).
  Proof. unfold visit_root. intros; brk; cbn [t_m]; lss. Qed.
  Lemma ss_fold_visit_counting n0 m0 l s : SLs mu n0 m0 (t_m s) -> SLs mu n0 m0 (t_m (fold_left visit_counting l s)).
  Proof. revert s. induction l as [|a l IH]; cbn; intros s H; auto using ss_visit_counting. Qed.
  Lemma ss_fold_visit_root n0 m0 l s : SLs mu n0 m0 (t_m s) -> SLs mu n0 m0 (t_m (fold_left visit_root l s)).
  Proof. revert s. induction l as [|a l IH]; cbn; intros s H; auto using ss_visit_root. Qed.

  Lemma ss_process_counting n0 m0 s o : SLs mu n0 m0 (t_m s) -> SLs mu n0 m0 (t_m (process_counting K P s o).1).
  Proof.
    intros H. unfold process_counting.
    assert (H0 : SLs mu n0 m0 (uhdr o (set_mark IQ) (t_m s))) by lss.
    pose proof (ss_trace_event n0 m0 o _ H0) as H1.
    destruct (trace_event K o (uhdr o (set_mark IQ) (t_m s))) as [m1 boom]. cbn [fst] in H1.
    destruct boom; cbn [fst t_m].
    - lss.
    - pose proof (ss_traced_children n0 m0 m1 o H1) as H2.
      destruct (traced_children P m1 o) as [m2 kids]. cbn [fst] in H2.
      match goal with |- context [fold_left visit_counting kids ?s0] =>
        pose proof (ss_fold_visit_counting n0 m0 kids s0 H2) as H3;
        destruct (fold_left visit_counting kids s0) as [m3 r3 n3 q3] end.
      cbn [t_m] in *. brk; cbn [fst t_m]; lss.
  Qed.
  Lemma ss_process_root n0 m0 s o : SLs mu n0 m0 (t_m s) -> SLs mu n0 m0 (t_m (process_root K P s o).1).
  Proof.
    intros H. unfold process_root.
    pose proof (ss_trace_event n0 m0 o _ H) as H1.
    destruct (trace_event K o (t_m s)) as [m1 boom]. cbn [fst] in H1.
    destruct boom; cbn [fst t_m].
    - lss.
    - pose proof (ss_traced_children n0 m0 m1 o H1) as H2.
      destruct (traced_children P m1 o) as [m2 kids]. cbn [fst] in H2.
      apply ss_fold_visit_root. exact H2.
  Qed.

  Lemma ss_counting n0 m0 n : forall s r, SLs mu n0 m0 (t_m s) -> counting K P n s = Some r -> SLs mu n0 m0 (t_m r.1).
  Proof.
    induction n as [|n IH]; intros s r H E; cbn in E; [discriminate|].
    destruct (pc (t_m s)) as [|o rest] eqn:Epc.
    - destruct (t_q s) as [|o q'] eqn:Eq.
      + injection E as <-. exact H.
      + match type of E with context [process_counting K P ?s0 o] =>
          assert (H1 : SLs mu n0 m0 (t_m s0)) by (cbn [t_m]; lss);
          pose proof (ss_process_counting n0 m0 s0 o H1) as H2;
          destruct (process_counting K P s0 o) as [s' boom] end.
        cbn [fst] in H2. destruct boom; [injection E as <-; exact H2 | eauto].
    - match type of E with context [process_counting K P ?s0 o] =>
        assert (H1 : SLs mu n0 m0 (t_m s0)) by (cbn [t_m]; lss);
        pose proof (ss_process_counting n0 m0 s0 o H1) as H2;
        destruct (process_counting K P s0 o) as [s' boom] end.
      cbn [fst] in H2. destruct boom; [injection E as <-; exact H2 | eauto].
  Qed.
  Lemma ss_roots n0 m0 n : forall s r, SLs mu n0 m0 (t_m s) -> roots K P n s = Some r -> SLs mu n0 m0 (t_m r.1).
  Proof.
    induction n as [|n IH]; intros s r H E; cbn in E; [discriminate|].
    destruct (t_root s) as [|o rest] eqn:Er.
    - destruct (t_q s) as [|o q'] eqn:Eq.
      + injection E as <-. exact H.
      + match type of E with context [process_root K P ?s0 o] =>
          assert (H1 : SLs mu n0 m0 (t_m s0)) by (cbn [t_m]; lss);
          pose proof (ss_process_root n0 m0 s0 o H1) as H2;
          destruct (process_root K P s0 o) as [s' boom] end.
        cbn [fst] in H2. destruct boom; [injection E as <-; exact H2 | eauto].
    - match type of E with context [process_root K P ?s0 o] =>
        assert (H1 : SLs mu n0 m0 (t_m s0)) by (cbn [t_m]; lss);
        pose proof (ss_process_root n0 m0 s0 o H1) as H2;
        destruct (process_root K P s0 o) as [s' boom] end.
      cbn [fst] in H2. destruct boom; [injection E as <-; exact H2 | eauto].
  Qed.
  Lemma ss_trace_pass n0 m0 m : SLs mu n0 m0 m -> SLs mu n0 m0 (trace_pass K P m).1.
  Proof.
    intros H. unfold trace_pass.
    destruct (counting K P (pass_fuel m) (TState m [] [] [])) as [[s b]|] eqn:E1; [|exact H].
    pose proof (ss_counting n0 m0 _ (TState m [] [] []) _ H E1) as H1. cbn [fst] in H1.
    destruct b; [exact H1|].
    destruct (roots K P (pass_fuel m) s) as [[s' b']|] eqn:E2; [|exact H1].
    pose proof (ss_roots n0 m0 _ _ _ H1 E2) as H2. cbn [fst] in H2.
    destruct b'; exact H2.
  Qed.
End HelpersS.

#[export] Hint Resolve ss_dec_size ss_remove_from_list ss_add_to_list ss_dec_rc_m 
  ss_drop_metadata  ss_weak_strong_count ss_weak_weak_count ss_weak_drop ss_weak_drop_opt
  ss_node_via_slot ss_resolve ss_wresolve ss_nresolve ss_write_loc ss_write_wloc ss_set_fuse ss_tick
  ss_adjust ss_adjust_trigger_point ss_map_insert ss_unmark_all ss_reset_buffered ss_traced_children
  ss_trace_pass : lss.
