(** * SafeFinalPropsA: the property lemmas for C01 / C04 / C08 that need no more than the tested
    checker [inv_b] (Inv.v), the pass theorem [PassMain.pass_closed] or plain unfolding of
    Machine.v: reachability (C01), closedness of the collected list (C01), the shape of
    [Cc::drop] for the last owner (C04), [Weak::new] never upgrades (C08), the refutation F4 of
    the converse of C08 by computation.  The part that needs the strengthened invariant [SInv]
    of part A is in SafeFinalProps.v.  Restatements: Props/C01.v, C04.v, C08.v. *)
From Coq Require Import NArith Bool List Lia.
From stdpp Require Import base list option.
From RecordUpdate Require Import RecordSet.
From RC Require Import Hdr Machine RunInd Inv Pass PassMain.
Import ListNotations RecordSetNotations.
Local Open Scope N_scope.

(** ** C01: what the program can reach is allocated, live and outside the dying set *)

(** membership in [Inv.handle_locs] (the converse of [SafeMain.handle_locs_hloc]) *)
Lemma slot_in_handle_locs m i t : slots m !! i = Some (Some t) -> (None, t) ∈ handle_locs m.
Proof.
  intros H. unfold handle_locs. rewrite !elem_of_app. left.
  apply elem_of_list_omap. exists (Some t). split; [eapply elem_of_list_lookup_2; exact H | reflexivity].
Qed.
Lemma bag_in_handle_locs m t : t ∈ bag m -> (None, t) ∈ handle_locs m.
Proof.
  intros H. unfold handle_locs. rewrite !elem_of_app. right; left.
  apply elem_of_list_fmap. exists t. split; [reflexivity | exact H].
Qed.
Lemma field_in_handle_locs m p x j t :
  get m p = Some x -> o_fields x !! j = Some (Some t) -> (Some p, t) ∈ handle_locs m.
Proof.
  intros Hp Hj. unfold handle_locs. rewrite !elem_of_app. right; right.
  apply elem_of_list_In, in_concat. eexists. split.
  - apply elem_of_list_In, elem_of_lookup_imap. exists p, x. split; [reflexivity | exact Hp].
  - apply elem_of_list_In, elem_of_app. left. apply elem_of_list_omap. exists (Some t).
    split; [eapply elem_of_list_lookup_2; exact Hj | reflexivity].
Qed.
Lemma cleaner_in_handle_locs m p x t :
  get m p = Some x -> o_cleaner x = Some t -> (Some p, t) ∈ handle_locs m.
Proof.
  intros Hp Hc. unfold handle_locs. rewrite !elem_of_app. right; right.
  apply elem_of_list_In, in_concat. eexists. split.
  - apply elem_of_list_In, elem_of_lookup_imap. exists p, x. split; [reflexivity | exact Hp].
  - apply elem_of_list_In, elem_of_app. right. rewrite Hc. apply elem_of_list_singleton. reflexivity.
Qed.

(** [sreach m o]: the program can obtain a strong handle to [o]: a slot or the bag holds one, or
    a strong field / the cleaner field of a reachable LIVE value holds one (handles inside a value
    that is being destroyed, was destroyed or was moved out are not accessible to the program:
    [Machine.node_via_slot], [Machine.self_node]) *)
Inductive sreach (m : machine) : id -> Prop :=
| sr_slot i o : slots m !! i = Some (Some o) -> sreach m o
| sr_bag o : o ∈ bag m -> sreach m o
| sr_step p x j t : sreach m p -> get m p = Some x -> o_vst x = VLive ->
    (o_fields x !! j = Some (Some t) \/ o_cleaner x = Some t) -> sreach m t.

(** the same without the liveness premise on the holder (a larger set a priori) *)
Inductive sreach_any (m : machine) : id -> Prop :=
| sra_slot i o : slots m !! i = Some (Some o) -> sreach_any m o
| sra_bag o : o ∈ bag m -> sreach_any m o
| sra_step p x j t : sreach_any m p -> get m p = Some x ->
    (o_fields x !! j = Some (Some t) \/ o_cleaner x = Some t) -> sreach_any m t.

Lemma sreach_sreach_any m o : sreach m o -> sreach_any m o.
Proof.
  induction 1 as [i o H | o H | p x j t _ IH Hx _ Ht];
    [econstructor 1; eauto | econstructor 2; eauto | econstructor 3; eauto].
Qed.

Section C01.
  Context (K : conf).
  Implicit Types (m : machine) (o : id) (x : obj).

  Definition reach_good m o : Prop :=
    exists x, get m o = Some x /\ o_box x = BAlloc /\ o_vst x = VLive /\ mem_id o (dead m) = false.

  Lemma loc_ok_root m t : loc_ok (dead m) m (None, t) = true -> reach_good m t.
  Proof.
    unfold loc_ok, reach_good, get. destruct (heap m !! t) as [xt|]; [|discriminate].
    intros H. apply andb_true_iff in H as [Ha H]. apply andb_true_iff in H as [Hl Hd].
    exists xt. split; [reflexivity|]. unfold is_alloc, is_live in *.
    split; [destruct (o_box xt); congruence|]. split; [destruct (o_vst xt); congruence|].
    apply negb_true_iff, Hd.
  Qed.
  Lemma loc_ok_step m p t : loc_ok (dead m) m (Some p, t) = true -> reach_good m p -> reach_good m t.
  Proof.
    unfold loc_ok, reach_good, get. intros H (xp & Hp & _ & Hv & Hd). rewrite Hp in H.
    destruct (heap m !! t) as [xt|]; [|discriminate].
    apply andb_true_iff in H as [Ha H]. unfold is_live in H at 1. rewrite Hv, Hd in H. cbn in H.
    apply andb_true_iff in H as [Hl Hdt].
    exists xt. split; [reflexivity|]. unfold is_alloc, is_live in *.
    split; [destruct (o_box xt); congruence|]. split; [destruct (o_vst xt); congruence|].
    apply negb_true_iff, Hdt.
  Qed.

  (** C01 (reachability form), stronger variant: the holder need not be assumed live *)
  (** the conjunct I-ref of [inv_b] *)
  Lemma inv_b_loc E m l : inv_b K E m = true -> l ∈ handle_locs m -> loc_ok (dead m) m l = true.
  Proof.
    unfold inv_b. rewrite !andb_true_iff, !forallb_forall. intros (((_ & H) & _) & _) Hin.
    apply H, elem_of_list_In, Hin.
  Qed.

  (** C01 (reachability form), stronger variant: the holder need not be assumed live *)
  Theorem reach_any_live E m : inv_b K E m = true -> forall o, sreach_any m o -> reach_good m o.
  Proof.
    intros HI o Hr. induction Hr as [i o H | o H | p x j t _ IH Hx Ht].
    - apply loc_ok_root, (inv_b_loc E m _ HI), (slot_in_handle_locs _ _ _ H).
    - apply loc_ok_root, (inv_b_loc E m _ HI), (bag_in_handle_locs _ _ H).
    - refine (loc_ok_step m p t _ IH). apply (inv_b_loc E m _ HI).
      destruct Ht as [Ht|Ht]; [eapply field_in_handle_locs | eapply cleaner_in_handle_locs]; eauto.
  Qed.

  Theorem reach_live E m : inv_b K E m = true -> forall o, sreach m o ->
    exists x, get m o = Some x /\ o_box x = BAlloc /\ o_vst x = VLive /\ mem_id o (dead m) = false.
  Proof. intros HI o Hr. apply (reach_any_live E m HI), sreach_sreach_any, Hr. Qed.
End C01.

(** Non-vacuity: a state computed from a program, with a chain slot 0 -> object 0 -> object 1. *)
Definition exK : conf := Conf true true true true true 48 8 64 8 100.
Definition exP1 : prog :=
  Prog [Cls 1 [true] 0 false None None] []
       [CNew (LS 0) 0; CNew (LS 1) 0; CMove (LS 1) (LFA 0 0)].
Definition exM1 : machine := run_main exK exP1 20 (init exK).
Example exM1_inv : inv_b exK [] exM1 = true /\ no_bad exM1 = true.
Proof. vm_compute. split; reflexivity. Qed.
Example exM1_reach : sreach exM1 1%nat.
Proof.
  eapply (sr_step exM1 0%nat _ 0%nat 1%nat).
  - apply (sr_slot exM1 0%nat). vm_compute. reflexivity.
  - vm_compute. reflexivity.
  - reflexivity.
  - left. reflexivity.
Qed.

(** ** C01: the list handed to the finalize / drop phases is closed (corollaries of
    [PassMain.pass_closed]).  Non-vacuity of [PassPre]: [PassEx.exA_pre], [PassEx.exA_result]. *)
Section C01Pass.
  Context (K : conf) (P : prog).

  (** no handle that the tracing pass does not see points into [L]: not an untraced field, not a
      field of a borrowed / non-live / map object, not a field of an object outside [L], not a
      cleaner handle, not a handle held outside the heap *)
  Theorem untraced_is_external m ext m' L :
    PassPre P m ext -> trace_pass K P m = (m', PDone L) ->
    (forall p x j o, get m p = Some x -> o_fields x !! j = Some (Some o) ->
       (c_traced (class_of P (o_cls x)) !! j <> Some true \/ o_borrowed x = true \/ o_vst x <> VLive \/
        o_ismap x = true \/ p ∉ L) -> o ∉ L) /\
    (forall p x o, get m p = Some x -> o_cleaner x = Some o -> o ∉ L) /\
    (forall o, ext o <> 0 -> o ∉ L).
  Proof.
    intros Hpre Hr. split; [|split].
    - intros p x j o Hx Hj Hc Ho.
      destruct (pass_closed K P m ext m' L Hpre Hr o Ho) as (_ & Hf & _).
      destruct (Hf p x j Hx Hj) as (HpL & Htr & Hmap & Hbor & Hv).
      destruct Hc as [Hc|[Hc|[Hc|[Hc|Hc]]]]; congruence || auto.
    - intros p x o Hx Hc Ho.
      destruct (pass_closed K P m ext m' L Hpre Hr o Ho) as (_ & _ & Hcl). exact (Hcl p x Hx Hc).
    - intros o He Ho.
      destruct (pass_closed K P m ext m' L Hpre Hr o Ho) as (He0 & _). exact (He He0).
  Qed.
End C01Pass.

(** ** C04: dropping the last owner ([Cc::drop] when the strong count is 1 and no finalizer runs) *)
Section LastOwner.
  Context (K : conf) (P : prog).
  Implicit Types (m : machine) (o : id) (x : obj).

  (** the state in which the value's destructor is entered: count decremented to 0, unlinked from
      the buffer, [dropping] set, (weak-ptrs) marked dropped *)
  Definition last_owner_mid o m : machine :=
    let m := remove_from_list o (dec_rc_m o m) in
    let m := m <| st_dropping := true |> in
    if k_weak K then uhdr o set_dropped m else m.

  Lemma getA_upd_eq o f m x : get m o = Some x -> get (upd o f m) o = Some (f x).
  Proof.
    unfold get, upd. cbn. intros H.
    transitivity (f <$> heap m !! o); [apply list_lookup_alter | rewrite H; reflexivity].
  Qed.

  Lemma st_dropping_dec_rc_m o m : st_dropping (dec_rc_m o m) = st_dropping m.
  Proof. unfold dec_rc_m. destruct (dec_rc (hdr_of m o)); reflexivity. Qed.
  Lemma st_dropping_remove_from_list o m : st_dropping (remove_from_list o m) = st_dropping m.
  Proof.
    unfold remove_from_list. destruct (is_in_pc (hdr_of m o)); [|reflexivity]. destruct (pc_alive m); [|reflexivity].
    unfold dec_size. match goal with |- context [if ?c then _ else _] => destruct c end; reflexivity.
  Qed.

  (** the definition of [step_drop_cc], specialised: decrement; unlink; set the flags; drop the
      value; on normal return release the side record and free the box *)
  Lemma step_drop_cc_last_owner rec o m x :
    get m o = Some x -> o_box x = BAlloc -> is_in_list_or_queue (o_hdr x) = false -> h_rc (o_hdr x) = 1 ->
    k_fin K && needs_fin (o_hdr x) = false ->
    step_drop_cc K P rec o m =
      let '(m2, r) := rec (KDropValue o) (last_owner_mid o m) in
      match r with
      | ONormal => (dealloc K o (drop_metadata K o m2) <| st_dropping := st_dropping m |>, ONormal)
      | _ => (m2 <| st_dropping := st_dropping m |>, r)
      end.
  Proof.
    intros Hx Hb Hmk Hrc Hfin. unfold step_drop_cc, last_owner_mid. rewrite Hx, Hb, Hmk, Hrc, Hfin.
    cbn [N.eqb Pos.eqb negb]. cbv zeta.
    rewrite st_dropping_remove_from_list, st_dropping_dec_rc_m. reflexivity.
  Qed.

  Lemma drop_metadata_get m o y : get m o = Some y ->
    exists y', get (drop_metadata K o m) o = Some y' /\ o_vst y' = o_vst y /\ o_box y' = o_box y /\ o_ismap y' = o_ismap y.
  Proof.
    intros Hy. assert (Hrefl : exists y', get m o = Some y' /\ o_vst y' = o_vst y /\ o_box y' = o_box y /\ o_ismap y' = o_ismap y) by eauto.
    unfold drop_metadata. destruct (negb (k_weak K)); [exact Hrefl|]. rewrite Hy.
    destruct (h_side (o_hdr y)); [|exact Hrefl]. destruct (o_side y) as [s|] eqn:Es; [|exact Hrefl].
    destruct (w_cnt (sd_wk s) =? 0).
    - unfold sfree. assert (Hg : get (if sd_freed s then emit_bad UseAfterFree o m else m) o = Some y) by (destruct (sd_freed s); exact Hy).
      rewrite Hg, Es. exists (y <| o_side := Some (Side (sd_wk s) true) |>). split; [|auto].
      match goal with |- get (emit ?e (upd o ?f ?mm)) o = _ =>
        change (get (emit e (upd o f mm)) o) with (get (upd o f mm) o) end.
      apply getA_upd_eq. destruct (sd_freed s); exact Hy.
    - unfold uside. exists (y <| o_side ::= fmap (fun s0 => Side (set_acc false (sd_wk s0)) (sd_freed s0)) |>).
      split; [apply getA_upd_eq; destruct (sd_freed s); exact Hy | auto].
  Qed.

  (** [cc_dealloc]: the box is freed with the layout of its value and the event is logged *)
  Lemma dealloc_get m o y : get m o = Some y ->
    get (dealloc K o m) o = Some (y <| o_box := BFreed |>) /\
    In (EFree o (box_layout K y).1 (box_layout K y).2) (log (dealloc K o m)).
  Proof.
    intros Hy. unfold dealloc. rewrite Hy. destruct (box_layout K y) as [sz al]. split; [|left; reflexivity].
    match goal with |- get (emit _ (upd o ?f ?mm)) o = _ =>
      change (get (emit (EFree o sz al) (upd o f mm)) o) with (get (upd o f mm) o) end.
    apply getA_upd_eq.
    destruct (o_box y); repeat (match goal with |- context [if ?c then _ else _] => destruct c end); exact Hy.
  Qed.

  (** the value's destructor returned normally: the call returns normally, the box of [o] is
      freed (its value state is what the destructor left) and the [EFree] event is logged.
      No invariant is needed; [rec] is arbitrary. *)
  Lemma last_owner_freed rec o m x m2 y :
    get m o = Some x -> o_box x = BAlloc -> is_in_list_or_queue (o_hdr x) = false -> h_rc (o_hdr x) = 1 ->
    k_fin K && needs_fin (o_hdr x) = false ->
    rec (KDropValue o) (last_owner_mid o m) = (m2, ONormal) -> get m2 o = Some y ->
    exists mf yf, step_drop_cc K P rec o m = (mf, ONormal) /\
      mf = dealloc K o (drop_metadata K o m2) <| st_dropping := st_dropping m |> /\
      get mf o = Some yf /\ o_box yf = BFreed /\ o_vst yf = o_vst y /\
      In (EFree o (box_layout K y).1 (box_layout K y).2) (log mf).
  Proof.
    intros Hx Hb Hmk Hrc Hfin Hr Hy.
    rewrite (step_drop_cc_last_owner rec o m x Hx Hb Hmk Hrc Hfin), Hr.
    destruct (drop_metadata_get m2 o y Hy) as (y1 & Hy1 & Hv1 & Hb1 & Hm1).
    destruct (dealloc_get (drop_metadata K o m2) o y1 Hy1) as [Hg Hl].
    eexists _, (y1 <| o_box := BFreed |>). split; [reflexivity|]. split; [reflexivity|].
    split; [exact Hg|]. split; [reflexivity|]. split; [exact Hv1|].
    assert (Hbl : box_layout K y1 = box_layout K y) by (unfold box_layout; rewrite Hm1; reflexivity).
    rewrite Hbl in Hl. exact Hl.
  Qed.

End LastOwner.

(** Non-vacuity of the last-owner lemmas (no finalizer: [k_fin = false]): one object held by slot
    0, the slot already cleared by [cmd_drop], destructor run by the real interpreter. *)
Definition exK0 : conf := Conf false true true true true 48 8 64 8 100.
Definition exP2 : prog := Prog [Cls 0 [] 0 false None None] [] [CNew (LS 0) 0].
Definition exM2 : machine := write_loc (RSlot 0) None (run_main exK0 exP2 20 (init exK0)).
Example last_owner_ex :
  exists x m2 y, get exM2 0%nat = Some x /\ o_box x = BAlloc /\ is_in_list_or_queue (o_hdr x) = false /\
    h_rc (o_hdr x) = 1 /\ k_fin exK0 && needs_fin (o_hdr x) = false /\
    run exK0 exP2 10 (KDropValue 0%nat) (last_owner_mid exK0 0%nat exM2) = (m2, ONormal) /\
    get m2 0%nat = Some y /\ o_vst y = VDropped.
Proof.
  do 3 eexists. split; [vm_compute; reflexivity|].
  split; [reflexivity|]. split; [reflexivity|]. split; [reflexivity|]. split; [reflexivity|].
  split; [vm_compute; reflexivity|]. split; [vm_compute; reflexivity | reflexivity].
Qed.

(** ** C08: upgrade *)
Section Upgrade.
  Context (K : conf).
  Implicit Types (m : machine) (o : id) (x : obj).

  (** a [Weak::new()] handle never upgrades *)
  Lemma weak_null_count m : weak_strong_count WNull m = (m, 0).
  Proof. reflexivity. Qed.
  Lemma weak_new_never_upgrades rec self w dst m rw rd :
    k_weak K = true -> wresolve self w m = (m, Some rw) -> resolve self dst m = (m, Some rd) ->
    read_wloc rw m = Some WNull ->
    cmd_upgrade K rec self w dst m = ok m RNone.
  Proof.
    intros Hk H1 H2 Hr. unfold cmd_upgrade. rewrite Hk. cbn [negb]. rewrite H1, H2. cbn [mbind option_bind].
    rewrite Hr. reflexivity.
  Qed.

End Upgrade.

(** Non-vacuity of [weak_new_never_upgrades]: weak slot 0 holds a [Weak::new()] handle. *)
Definition exP3 : prog := Prog [] [] [CWNew (WS 0)].
Definition exM3 : machine := run_main exK exP3 20 (init exK).
Example weak_new_ex :
  k_weak exK = true /\ wresolve None (WS 0) exM3 = (exM3, Some (RWSlot 0)) /\
  resolve None (LS 1) exM3 = (exM3, Some (RSlot 1)) /\ read_wloc (RWSlot 0) exM3 = Some WNull /\
  cmd_upgrade exK (run exK exP3 5) None (WS 0) (LS 1) exM3 = ok exM3 RNone.
Proof. repeat split; vm_compute; reflexivity. Qed.

(** *** The converse fails: finding F4.  An upgrade returns [None] although the target is alive.
    [f4_prog] is the first program of /verif/corpus/f4_upgrade_none_in_finalize_pass.prog:
    objects 0 (class 1, finalizer = script 0) and 1 (class 2) form a cycle; object 2 (class 3, Drop
    = script 1, one Weak field pointing to object 1) is owned by the untraced field 1 of object 0.
    The collection finds the garbage cycle {0,1} and runs the finalizer of 0, which drops object 2
    by a plain [Cc::drop]; that sets [dropping], and the Drop impl of object 2 upgrades its Weak to
    object 1, which is alive but linked in the collector's list: [Weak::strong_count] returns 0
    ([is_in_list_or_queue && dropping]) and the upgrade returns None. *)
Definition f4_classes : list cls :=
  [Cls 2 [true; true] 1 false None None;
   Cls 2 [true; false] 0 false (Some 0%nat) None;
   Cls 1 [true] 0 false None None;
   Cls 0 [] 1 false None (Some 1%nat)].
Definition f4_main : list cmd :=
  [CCfgAuto false; CNew (LS 0) 1; CNew (LS 1) 2; CNew (LS 2) 3; CClone (LS 1) (LFA 0 0);
   CClone (LS 0) (LFA 1 0); CDowngrade (LS 1) (WFA 2 0); CMove (LS 2) (LFA 0 1);
   CDrop (LS 0); CDrop (LS 1); CCollect; CSObs].
Definition f4_prog : prog :=
  Prog f4_classes [[CDrop (LFS 1)]; [CUpgrade (WFS 0) (LS 5); CDrop (LS 5)]] f4_main.
(** the same, except that the finalizer of object 0 afterwards clones its handle to object 1 into
    slot 4 (resurrecting the cycle), so that object 1 is still there in the final state *)
Definition f4r_prog : prog :=
  Prog f4_classes [[CDrop (LFS 1); CClone (LFS 0) (LS 4)]; [CUpgrade (WFS 0) (LS 5); CDrop (LS 5)]] f4_main.

Definition never_destroyed (o : id) (l : list event) : bool :=
  forallb (fun e => match e with
                    | ECb KDrop o' _ => negb (Nat.eqb o' o)
                    | EFree o' _ _ | ESFree o' => negb (Nat.eqb o' o)
                    | _ => true end) l.

(** In the final state of [f4r_prog] (a well-formed program, no misbehaviour logged, invariant and
    exact counts hold) the log contains [ERes RNone] (the result of the upgrade) immediately after
    the entry of object 2's Drop; object 1, the target, is allocated and live with strong count 2,
    outside the dying set, held by slot 4, and its destructor never ran / its box and side record
    were never freed during the whole run: it was alive when the upgrade returned None. *)
Theorem F4_upgrade_none_target_alive :
  exists (K : conf) (fuel : nat),
    let m := run_main K f4r_prog fuel (init K) in
    wf_prog f4r_prog = true /\ no_bad m = true /\ inv_b K [] m = true /\ exact_b [] m = true /\
    (exists l1 l2 f, log m = l1 ++ ERes RNone :: ECb KDrop 2 f :: l2 /\ fl_d f = true) /\
    never_destroyed 1%nat (log m) = true /\
    (exists x, get m 1%nat = Some x /\ o_box x = BAlloc /\ o_vst x = VLive /\ h_rc (o_hdr x) = 2 /\
               is_dropped (o_hdr x) = false /\ mem_id 1%nat (dead m) = false) /\
    slots m !! 4%nat = Some (Some 1%nat) /\
    (exists y, get m 2%nat = Some y /\ o_cls y = 3%nat /\ o_vst y = VDropped).
Proof.
  exists exK, 60%nat. cbv zeta.
  split; [vm_compute; reflexivity|]. split; [vm_compute; reflexivity|].
  split; [vm_compute; reflexivity|]. split; [vm_compute; reflexivity|].
  split.
  { exists (firstn 12 (log (run_main exK f4r_prog 60 (init exK)))),
           (skipn 14 (log (run_main exK f4r_prog 60 (init exK)))), (Flags true true true false).
    split; vm_compute; reflexivity. }
  split; [vm_compute; reflexivity|].
  split; [eexists; split; [vm_compute; reflexivity | repeat split; vm_compute; reflexivity]|].
  split; [vm_compute; reflexivity|].
  eexists; split; [vm_compute; reflexivity | split; reflexivity].
Qed.

(** The corpus program itself: object 1 is collected by the NEXT iteration of the collection loop
    (nothing resurrects it), so the final state does not show it; the order of the log does: when
    the upgrade returned None ([l2] = everything logged before), object 1 had been allocated, its
    destructor had not been entered and nothing of it had been freed; afterwards ([l1]) the
    collector still ran object 1's finalizer (which it only does for objects it considers alive)
    and only then, in the next pass, destroyed it. *)
Theorem F4_corpus :
  exists (K : conf) (fuel : nat),
    let m := run_main K f4_prog fuel (init K) in
    wf_prog f4_prog = true /\ no_bad m = true /\ inv_b K [] m = true /\
    exists l1 l2 f, log m = l1 ++ ERes RNone :: ECb KDrop 2 f :: l2 /\
      In (EAlloc 1%nat (k_nsize K) (k_nalign K)) l2 /\ In (ESAlloc 1%nat) l2 /\ never_destroyed 1%nat l2 = true /\
      (exists f1, In (ECb KFin 1 f1) l1) /\ (exists f2, In (ECb KDrop 1 f2) l1).
Proof.
  exists exK, 60%nat. cbv zeta.
  split; [vm_compute; reflexivity|]. split; [vm_compute; reflexivity|]. split; [vm_compute; reflexivity|].
  exists (firstn 14 (log (run_main exK f4_prog 60 (init exK)))),
         (skipn 16 (log (run_main exK f4_prog 60 (init exK)))), (Flags true true true false).
  split; [vm_compute; reflexivity|].
  split; [vm_compute; tauto|]. split; [vm_compute; tauto|]. split; [vm_compute; reflexivity|].
  split; [exists (Flags true true false false); vm_compute; tauto|].
  exists (Flags true false true false); vm_compute; tauto.
Qed.

Print Assumptions reach_any_live.
Print Assumptions reach_live.
Print Assumptions untraced_is_external.
Print Assumptions step_drop_cc_last_owner.
Print Assumptions last_owner_freed.
Print Assumptions weak_new_never_upgrades.
Print Assumptions F4_upgrade_none_target_alive.
Print Assumptions F4_corpus.
