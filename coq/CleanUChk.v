(** * CleanUChk: the three facts of the count / no-dangling layer used by CleanUStep*.v hold at
    the entry of every activation of a safe run ([chk_ok]) and do not read the ghost [dead]
    ([chk_dl]): the hypotheses of [Life.mrun_ind] / [Life.mfold_eq] for [chkU]. *)
From Coq Require Import NArith Bool List Lia.
From stdpp Require Import base list option.
From RecordUpdate Require Import RecordSet.
From RC Require Import Hdr Machine RunInd.
From RC Require BufBase Pass PassMain.
From RC Require Import Inv InvP SafeHelpers SafeMain SafeColl SafeCollPass SafeFinal.
From RC Require Import LifeGhost.
From RC Require Import Clean CleanFrame CleanStep CleanStep2 CleanThm CleanU CleanUStep.
Import ListNotations RecordSetNotations.

Lemma unlinked_b_dl s m o : unlinked_b (dl s m) o = unlinked_b m o.
Proof. reflexivity. Qed.

Lemma chkU_dl K P c s m : chkU K P c (dl s m) = chkU K P c m.
Proof.
  destruct c as [self cm| | | | | | | | | | | | | | |]; try reflexivity.
  cbn [chkU].
    change (dl s m <| st_finalizing := false |> <| st_dropping := false |>)
      with (dl s (m <| st_finalizing := false |> <| st_dropping := false |>)).
    rewrite trace_pass_dl. cbn [snd]. reflexivity.
Qed.

Lemma unlinked_b_refs0 m o : refs m o = 0%nat -> unlinked_b m o = true.
Proof.
  intros H0. unfold unlinked_b. apply forallb_forall. intros x Hin.
  destruct (eqb_oid (o_cleaner x) o) eqn:E; [|reflexivity]. exfalso.
  apply elem_of_list_In, elem_of_list_lookup in Hin. destruct Hin as (y & Hy).
  destruct (o_cleaner x) as [t|] eqn:Ec; [|discriminate]. cbn in E. apply Nat.eqb_eq in E. subst t.
  pose proof (hloc_refs_pos m (Some y) true o (HL_clean m y x o Hy Ec)). lia.
Qed.

Section Ok.
  Context (K : conf) (P : prog).

  Theorem chkU_ok b E A c m : InvP.Pre K (PreC K) b E c m -> Q K A c m -> chkU K P c m = true.
  Proof.
    intros Hpre _. destruct c as [self cm| | |o| | | | | | | | | | | |]; try reflexivity.
    - (* a value moved out by try_unwrap has a freed box: nothing points to it *)
      destruct cm; try reflexivity. cbn [chkU].
      destruct (mjoin (values m !! v)) as [o|] eqn:Ev; [|reflexivity].
      destruct Hpre as (_ & HS & _). cbn [own_of app] in HS.
      assert (Hv : values m !! v = Some (Some o)).
      { destruct (values m !! v) as [[o'|]|]; cbn in Ev; congruence. }
      destruct (sv_values K _ _ _ _ HS v o Hv) as ((x & Hx & Hb & _) & _).
      apply unlinked_b_refs0.
      destruct (proj1 (okN_freed K _ _ _ _ _ Hb) (sv_obj K _ _ _ _ HS o x Hx)) as (H0 & _). lia.
    - (* Cc::drop on the last handle of a map *)
      cbn [chkU]. destruct (get m o) as [x|] eqn:Hx; [|reflexivity].
      destruct (o_ismap x && (h_rc (o_hdr x) =? 1)%N) eqn:Ec; [|reflexivity].
      apply andb_true_iff in Ec as [_ Erc]. apply N.eqb_eq in Erc.
      destruct Hpre as (_ & HS & _). cbn [own_of app] in HS.
      destruct (sv_E K _ _ _ _ HS o) as (xt & Hxt & Eb); [left|]. rewrite Hx in Hxt. injection Hxt as <-.
      destruct (okN_alloc K _ _ _ _ _ (sv_obj K _ _ _ _ HS o x Hx) Eb) as (H1 & _).
      rewrite cnt_id_cons_eq, Erc in H1. apply unlinked_b_refs0. lia.
    - (* the tracing pass: no Cleaner names a member of the list it returns *)
      cbn [chkU]. destruct Hpre as (_ & HS & _ & HB & _).
      pose proof (PassPre_SInv K P b E m HS HB) as HPP.
      set (m0 := m <| st_finalizing := false |> <| st_dropping := false |>).
      assert (HPP0 : Pass.PassPre P m0 (extc E m))
        by (apply (PassMain.PassPre_heap P m m0); [reflexivity..|exact HPP]).
      destruct (trace_pass K P m0) as [m' r] eqn:Etp. cbn [snd].
      destruct r as [L| |]; [|reflexivity..].
      apply forallb_forall. intros g Hin. apply elem_of_list_In in Hin.
      apply andb_true_iff. split.
      + destruct (PassMain.pass_done_marks K P m0 _ m' L HPP0 Etp) as (_ & _ & _ & _ & HL).
        destruct (HL g Hin) as ((x' & Hx' & _) & _).
        pose proof (Pass.mf_heap K _ _ (Pass.pass_frame K P m0 m' _ Etp)) as Hh.
        apply Forall2_length in Hh. apply Nat.ltb_lt.
        apply lookup_lt_Some in Hx'. change (heap m0) with (heap m) in Hh. lia.
      + destruct (PassMain.pass_closed K P m0 _ m' L HPP0 Etp g Hin) as (_ & _ & Hnc).
        unfold unlinked_b. apply forallb_forall. intros x Hx.
        destruct (eqb_oid (o_cleaner x) g) eqn:Ee; [|reflexivity]. exfalso.
        apply elem_of_list_In, elem_of_list_lookup in Hx. destruct Hx as (y & Hy).
        destruct (o_cleaner x) as [t|] eqn:Ec; [|discriminate]. cbn in Ee. apply Nat.eqb_eq in Ee. subst t.
        exact (Hnc y x Hy Ec).
  Qed.
End Ok.
