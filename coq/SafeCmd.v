(** * SafeCmd: every command of the program language satisfies the post-condition of [KCmd]. *)
From Coq Require Import NArith Bool List Lia.
From stdpp Require Import base list option.
From RecordUpdate Require Import RecordSet.
From RC Require Import Hdr Machine RunInd Inv InvP SafeHelpers SafePrims SafeCalls SafeGlue SafeDrop.
Import ListNotations RecordSetNotations.
Local Open Scope N_scope.

Section Cmds.
  Context (K : conf) (P : prog).
  Context (PreC : bool -> list id -> call -> machine -> Prop)
          (PostC : bool -> list id -> call -> machine -> machine -> outcome -> Prop).
  Context (rec : call -> machine -> machine * outcome).
  Hypothesis Hrec : forall b E, rec_ok (Pre K PreC b E) (Post K PostC b E) rec.
  Hypothesis Hconf : k_clean K = true -> k_weak K = true.
  Implicit Types (m : machine) (o : id) (x : obj).

  Notation PostOf b E c m res := (Post K PostC b E c m (fst res) (snd res)).
  Notation rec_post := (rec_post K PreC PostC rec Hrec).

  Ltac triv_post := rewrite Post_nc by reflexivity; exact I.
  Ltac fin C := eapply Post_intro; [reflexivity | exact C | try exact I | try discriminate; auto].

  (** [ok m r]: log the result and return normally *)
  Lemma ok_post b b' n E c m m' r :
    Cur K b' n E None m E [] m' -> (b' = b /\ n = true) ->
    PostOf b E (KCmd c.1 c.2) m (ok m' r).
  Proof.
    intros C Hn. unfold ok. cbn [fst snd].
    eapply Post_intro; [reflexivity | apply (Cur_emit K _ _ _ _ _ _ _ _ (ERes r) C eq_refl) | exact I | auto].
  Qed.
  Lemma ok_post' b E self c m m' r :
    Cur K b true E None m E [] m' -> PostOf b E (KCmd self c) m (ok m' r).
  Proof. intros C. apply (ok_post b b true E (self, c) m m' r C). auto. Qed.

  (** a location of the command may be resolved *)
  Definition loc_ok_for (self : option id) (m : machine) (l : loc) : Prop :=
    loc_no_self l = true \/ self_good m self \/ self = None.
  Definition node_ok_for (self : option id) (m : machine) (n : nodeloc) : Prop :=
    node_no_self n = true \/ self_good m self \/ self = None.
  Definition wself_ok (self : option id) (m : machine) : Prop :=
    self = None \/ self_good m self \/ self_dropping m self.

  Lemma resolve_ok' b E W m self l :
    SInv K b E W m -> loc_ok_for self m l ->
    exists ro, resolve self l m = (m, ro) /\
      forall r, ro = Some r ->
        idx_valid m r /\ holder_good m r /\ (forall t, read_loc r m = Some t -> good_h m t).
  Proof.
    intros HI [H|[H|H]]; [apply (resolve_ok K b E W m self l HI); auto | apply (resolve_ok K b E W m self l HI); auto|].
    subst self. destruct l as [i|j|i j]; [apply (resolve_ok K b E W m None _ HI); left; reflexivity | | apply (resolve_ok K b E W m None _ HI); left; reflexivity].
    exists None. split; [reflexivity | discriminate].
  Qed.
  Lemma nresolve_ok' b E W m self nd :
    SInv K b E W m -> node_ok_for self m nd ->
    exists no, nresolve self nd m = (m, no) /\ forall o, no = Some o -> good_h m o.
  Proof.
    intros HI [H|[H|H]]; [apply (nresolve_ok K b E W m self nd HI); auto | apply (nresolve_ok K b E W m self nd HI); auto|].
    subst self. destruct nd as [|i]; [|apply (nresolve_ok K b E W m None _ HI); left; reflexivity].
    exists None. split; [reflexivity | discriminate].
  Qed.

  Lemma self_ok_loc E self c m l :
    self_ok E self [c] m -> (cmd_no_self c = true -> loc_no_self l = true) -> loc_ok_for self m l.
  Proof.
    intros Hs Hl. destruct (self_ok_cases E self [c] m Hs) as [H|[H|[H _]]]; [right; right; exact H | right; left; exact H|].
    left. apply Hl. cbn in H. rewrite andb_true_r in H. exact H.
  Qed.
  Lemma self_ok_node E self c m nd :
    self_ok E self [c] m -> (cmd_no_self c = true -> node_no_self nd = true) -> node_ok_for self m nd.
  Proof.
    intros Hs Hl. destruct (self_ok_cases E self [c] m Hs) as [H|[H|[H _]]]; [right; right; exact H | right; left; exact H|].
    left. apply Hl. cbn in H. rewrite andb_true_r in H. exact H.
  Qed.
  Lemma self_ok_w E self cs m : self_ok E self cs m -> wself_ok self m.
  Proof. intros Hs. destruct (self_ok_cases E self cs m Hs) as [H|[H|[_ H]]]; [left|right;left|right;right]; exact H. Qed.

  (** a location resolved at [m0] is still a valid destination later in the same activation *)
  Lemma loc_valid_later b b0 E Ecur E1 m0 m1 r :
    SInv K b0 E1 [] m0 -> idx_valid m0 r -> holder_good m0 r ->
    Cur K b true E None m0 Ecur [] m1 -> loc_valid m1 r.
  Proof.
    intros HI0 Hidx Hh C. pose proof (cur_inv _ _ _ _ _ _ _ _ _ C) as HI1.
    pose proof (cur_fr _ _ _ _ _ _ _ _ _ C) as HF. pose proof (cur_ndd _ _ _ _ _ _ _ _ _ C eq_refl) as HN.
    destruct r as [i|p j]; cbn in *.
    - split; [rewrite <- (proj1 (sv_lens _ _ _ _ _ HI0)); exact Hidx|].
      intros t Ht Hd. cbn [read_loc] in Ht. match type of Ht with mjoin ?q = _ => destruct q as [[t'|]|] eqn:Es end; cbn in Ht; try discriminate. injection Ht as ->.
      destruct (sv_loc _ _ _ _ _ HI1 None false t) as (xt & _ & _ & _ & _ & Hi); [econstructor 1; eauto | congruence].
    - destruct Hidx as (x & Hx & Hj). destruct Hh as (y & Hy & Hb & Hv & Hi & Hm). assert (y = x) by congruence. subst y.
      destruct (fr_obj _ _ _ _ _ HF p x Hx) as (x' & Hx' & OF).
      split.
      + exists x'. split; [exact Hx'|]. split; [rewrite (of_nf _ _ _ _ _ _ _ OF); exact Hj|].
        split; [apply (of_box1 _ _ _ _ _ _ _ OF); congruence|].
        split; [intros Hvd; pose proof (of_nodropping _ _ _ _ _ _ _ OF ltac:(discriminate) Hvd); congruence|].
        split; [intros Hvu; pose proof (of_nouninit _ _ _ _ _ _ _ OF Hvu); congruence|].
        intros Hip. apply (HN p x' Hx' Hip Hi).
      + intros t Ht Hd. cbn [read_loc] in Ht. rewrite Hx' in Ht. cbn in Ht.
        match type of Ht with mjoin ?q = _ => destruct q as [[t'|]|] eqn:Ej end; cbn in Ht; try discriminate. injection Ht as ->.
        destruct (sv_loc _ _ _ _ _ HI1 (Some p) false t) as (xt & _ & _ & _ & Hc); [econstructor 3; eauto|].
        destruct (Hc x' Hx') as [_ Hc2]. destruct (Hc2 Hd) as (Hip & Hnd & _).
        exfalso. apply Hnd. apply (HN p x' Hx' Hip Hi).
  Qed.

  Lemma good_inflight b E W m o :
    SInv K b (o :: E) W m -> inD m o = false -> is_map m o = false -> good_h m o.
  Proof.
    intros HI Hi Hm. destruct (sv_E _ _ _ _ _ HI o) as (x & Hx & Hb); [left|].
    destruct (inflight_live K _ _ _ _ _ _ HI Hx Hi) as (_ & Hv & _). unfold is_map in Hm. rewrite Hx in Hm.
    exists x. auto 8.
  Qed.
  Lemma raise_post' b b' n E self c m m' :
    Cur K b' n E None m E [] m' -> PostOf b E (KCmd self c) m (m', raise m').
  Proof.
    intros C. cbn [fst snd]. unfold raise. destruct (panicking m'); [triv_post|].
    eapply Post_intro; [reflexivity | exact C | exact I | discriminate].
  Qed.

  (** the post-condition of a sub-activation that is returned unchanged when it is not normal *)
  Lemma pass_post b E self c c' m m1 m2 r :
    is_coll c' = false -> ex_of c' = None ->
    Cur K b true E None m (own_of c' ++ E) [] m1 -> Post K PostC b E c' m1 m2 r -> r <> ONormal ->
    Post K PostC b E (KCmd self c) m m2 r.
  Proof.
    intros Hc Hex C HP Hr. destruct r; try congruence; try triv_post.
    destruct (Cur_call_p K PostC c' _ _ _ _ _ _ _ _ _ Hc C HP (fun o => le_n _) (or_introl Hex)) as [C2 _]. fin C2.
  Qed.

  Section Simple.
    Context (b : bool) (E : list id) (self : option id) (m : machine).
    Hypothesis Hnb : NoBad m.
    Hypothesis HI : SInv K b E [] m.
    Let C0 : Cur K b true E None m E [] m := Cur_init K b true E None E [] m Hnb HI.

    Lemma cmd_cfg_auto_ok v : PostOf b E (KCmd self (CCfgAuto v)) m (cmd_cfg_auto K self v m).
    Proof.
      unfold cmd_cfg_auto. destruct (k_auto K); apply ok_post'; [|exact C0].
      eapply Cur_ieq; [exact C0 | repeat split | apply C0].
    Qed.
    Lemma cmd_cfg_percent_ok num e : PostOf b E (KCmd self (CCfgPercent num e)) m (cmd_cfg_percent K self num e m).
    Proof.
      unfold cmd_cfg_percent. destruct (k_auto K); [|apply ok_post'; exact C0].
      destruct (N.shiftl 1 e <? num); [apply raise_post' with (b' := b) (n := true); exact C0|].
      apply ok_post'. eapply Cur_ieq; [exact C0 | repeat split | apply C0].
    Qed.
    Lemma cmd_cfg_buffered_ok v : PostOf b E (KCmd self (CCfgBuffered v)) m (cmd_cfg_buffered K self v m).
    Proof.
      unfold cmd_cfg_buffered. destruct (k_auto K); apply ok_post'; [|exact C0].
      eapply Cur_ieq; [exact C0 | repeat split | apply C0].
    Qed.
    Lemma cmd_arm_ok k v : PostOf b E (KCmd self (CArm k v)) m (cmd_arm self k v m).
    Proof.
      unfold cmd_arm. apply ok_post'. eapply Cur_ieq; [exact C0 | destruct k; repeat split | destruct k; apply C0].
    Qed.
    Lemma cmd_panic_ok : PostOf b E (KCmd self CPanic) m (cmd_panic self m).
    Proof. unfold cmd_panic. apply raise_post' with (b' := b) (n := true). exact C0. Qed.
    Lemma cmd_s_obs_ok : PostOf b E (KCmd self CSObs) m (cmd_s_obs K self m).
    Proof. unfold cmd_s_obs. apply ok_post'. apply Cur_emit; [exact C0 | reflexivity]. Qed.

    Lemma cmd_collect_ok : PostOf b E (KCmd self CCollect) m (cmd_collect rec self m).
    Proof.
      unfold cmd_collect.
      pose proof (rec_post b E KCollectCycles m eq_refl Hnb HI I) as HP.
      destruct (rec KCollectCycles m) as [m1 r]. cbn [fst snd] in HP.
      destruct r; try (eapply (pass_post b E self CCollect KCollectCycles m m m1); [reflexivity | reflexivity | exact C0 | exact HP | discriminate]).
      destruct (Cur_call_n K PostC KCollectCycles _ _ _ _ _ _ _ _ _ eq_refl C0 HP (fun o => le_n _) (or_introl eq_refl)) as [C1 _].
      apply ok_post'. exact C1.
    Qed.
    Lemma cmd_unbag_ok k : PostOf b E (KCmd self (CUnbag k)) m (cmd_unbag rec self k m).
    Proof.
      unfold cmd_unbag.
      pose proof (rec_post b E (KUnbag (N.to_nat k)) m eq_refl Hnb HI I) as HP.
      destruct (rec (KUnbag (N.to_nat k)) m) as [m1 r]. cbn [fst snd] in HP.
      destruct r; try (eapply (pass_post b E self (CUnbag k) (KUnbag (N.to_nat k)) m m m1); [reflexivity | reflexivity | exact C0 | exact HP | discriminate]).
      destruct (Cur_call_n K PostC (KUnbag (N.to_nat k)) _ _ _ _ _ _ _ _ _ eq_refl C0 HP (fun o => le_n _) (or_introl eq_refl)) as [C1 _].
      apply ok_post'. exact C1.
    Qed.
  End Simple.
  Section Res.
    Context (b : bool) (E : list id) (self : option id) (m : machine).
    Hypothesis Hnb : NoBad m.
    Hypothesis HI : SInv K b E [] m.
    Let C0 : Cur K b true E None m E [] m := Cur_init K b true E None E [] m Hnb HI.

    Lemma cmd_obs_ok l : self_ok E self [CObs l] m -> PostOf b E (KCmd self (CObs l)) m (cmd_obs self l m).
    Proof.
      intros Hs. unfold cmd_obs.
      destruct (resolve_ok' b E [] m self l HI (self_ok_loc _ _ _ _ l Hs (fun H => H))) as (ro & -> & Hro).
      destruct ro as [r|]; cbn [mbind option_bind]; [|apply ok_post'; exact C0].
      destruct (Hro r eq_refl) as (_ & _ & Hg).
      destruct (read_loc r m) as [o|] eqn:Hr; [|apply ok_post'; exact C0].
      destruct (Hg o eq_refl) as (x & Hx & Hb & Hv & _). rewrite Hx, Hb, Hv.
      apply ok_post'. apply Cur_emit; [exact C0 | reflexivity].
    Qed.

    Lemma cmd_mark_alive_ok l : self_ok E self [CMarkAlive l] m ->
      PostOf b E (KCmd self (CMarkAlive l)) m (cmd_mark_alive self l m).
    Proof.
      intros Hs. unfold cmd_mark_alive.
      destruct (resolve_ok' b E [] m self l HI (self_ok_loc _ _ _ _ l Hs (fun H => H))) as (ro & -> & Hro).
      destruct ro as [r|]; cbn [mbind option_bind]; [|apply ok_post'; exact C0].
      destruct (Hro r eq_refl) as (_ & _ & Hg).
      destruct (read_loc r m) as [o|] eqn:Hr; [|apply ok_post'; exact C0].
      destruct (Hg o eq_refl) as (x & Hx & Hb & _).
      apply ok_post'. eapply Cur_remove_from_list; eauto.
    Qed.

    Lemma cmd_fin_again_ok l : self_ok E self [CFinAgain l] m ->
      PostOf b E (KCmd self (CFinAgain l)) m (cmd_fin_again K self l m).
    Proof.
      intros Hs. unfold cmd_fin_again. destruct (k_fin K); cbn [negb]; [|apply ok_post'; exact C0].
      destruct (resolve_ok' b E [] m self l HI (self_ok_loc _ _ _ _ l Hs (fun H => H))) as (ro & -> & Hro).
      destruct ro as [r|]; cbn [mbind option_bind]; [|apply ok_post'; exact C0].
      destruct (Hro r eq_refl) as (_ & _ & Hg).
      destruct (read_loc r m) as [o|] eqn:Hr; [|apply ok_post'; exact C0].
      destruct (Hg o eq_refl) as (x & Hx & Hb & _).
      destruct (st_collecting m || st_finalizing m || st_dropping m); [apply raise_post' with (b' := b) (n := true); exact C0|].
      apply ok_post'. eapply Cur_uhdr_same; eauto; intros h; repeat split.
    Qed.

    Lemma cmd_borrow_gen nd v (c : cmd) : node_ok_for self m nd ->
      PostOf b E (KCmd self c) m
        (let '(m, no) := nresolve self nd m in
         match no with
         | Some o => ok (upd o (fun x => x <| o_borrowed := v |>) m) ROk
         | None => ok m RSkip
         end).
    Proof.
      intros Hn. destruct (nresolve_ok' b E [] m self nd HI Hn) as (no & -> & Hno).
      destruct no as [o|]; [|apply ok_post'; exact C0].
      destruct (Hno o eq_refl) as (x & Hx & Hb & _).
      apply ok_post'.
      eapply (Cur_upd_hs K b true E None m E [] E [] m o _ x C0 Hx); try reflexivity; try (intros H; exact H); auto.
      - left. congruence.
      - apply (sv_obj _ _ _ _ _ HI _ _ Hx).
      - eapply ObjXp_nohdr; [apply (sv_objx _ _ _ _ _ HI _ _ Hx) | reflexivity ..|].
        intros Hk. apply (sv_objx _ _ _ _ _ HI _ _ Hx), Hk.
      - intros Hin. destruct (sv_pc _ _ _ _ _ HI _ Hin) as (y & Hy & _ & _ & _ & Hm). cbn. congruence.
    Qed.
    Lemma cmd_borrow_ok nd : self_ok E self [CBorrow nd] m -> PostOf b E (KCmd self (CBorrow nd)) m (cmd_borrow self nd m).
    Proof. intros Hs. apply cmd_borrow_gen. apply (self_ok_node _ _ _ _ nd Hs). auto. Qed.
    Lemma cmd_unborrow_ok nd : self_ok E self [CUnborrow nd] m -> PostOf b E (KCmd self (CUnborrow nd)) m (cmd_unborrow self nd m).
    Proof. intros Hs. apply cmd_borrow_gen. apply (self_ok_node _ _ _ _ nd Hs). auto. Qed.

    Lemma cmd_c_drop_ok c : PostOf b E (KCmd self (CCDrop c)) m (cmd_c_drop K self c m).
    Proof.
      unfold cmd_c_drop. destruct (k_clean K) eqn:Hkc; cbn [negb]; [|apply ok_post'; exact C0].
      destruct (cslots m !! c) as [[cr|]|] eqn:Hc; cbn [mjoin option_join]; try (apply ok_post'; exact C0).
      apply ok_post'. apply Cur_weak_drop; [|auto].
      apply (Cur_cslots K b true E None m E [] m c None (Some cr) C0 Hc).
    Qed.

    Lemma cmd_w_obs_ok w : self_ok E self [CWObs w] m -> PostOf b E (KCmd self (CWObs w)) m (cmd_w_obs K self w m).
    Proof.
      intros Hs. unfold cmd_w_obs. destruct (k_weak K) eqn:Hk; cbn [negb]; [|apply ok_post'; exact C0].
      destruct (wresolve_ok K b E [] m self w HI (self_ok_w _ _ _ _ Hs)) as (ro & -> & Hro).
      destruct ro as [r|]; cbn [mbind option_bind]; [|apply ok_post'; exact C0].
      destruct (Hro r eq_refl) as (_ & Hw).
      destruct (read_wloc r m) as [wr|] eqn:Hr; [|apply ok_post'; exact C0].
      destruct (Hw wr eq_refl) as (_ & Hpos).
      destruct wr as [|o].
      - cbn [weak_strong_count weak_weak_count]. apply ok_post'. apply Cur_emit; [exact C0 | reflexivity].
      - destruct (weak_strong_count_ok K b E [] m o HI Hk) as (sc & -> & _); [specialize (Hpos o eq_refl); lia|].
        destruct (weak_weak_count_ok K b E [] m o HI) as (wc & ->); [specialize (Hpos o eq_refl); lia|].
        apply ok_post'. apply Cur_emit; [exact C0 | reflexivity].
    Qed.
  End Res.
  Lemma inD_remove_from_list o m t : inD (remove_from_list o m) t = inD m t.
  Proof.
    unfold remove_from_list. destruct (is_in_pc (hdr_of m o)); [|reflexivity]. destruct (pc_alive m); [|reflexivity].
    unfold dec_size. match goal with |- context [if ?c then _ else _] => destruct c end; reflexivity.
  Qed.

  Lemma read_loc_hloc m r o : read_loc r m = Some o -> exists h, hloc m h false o.
  Proof.
    destruct r as [i|p j]; cbn.
    - destruct (slots m !! i) as [[t|]|] eqn:Es; cbn; try discriminate. intros [= ->]. exists None. econstructor 1; eauto.
    - destruct (get m p) as [x|] eqn:Hx; cbn; [|discriminate].
      destruct (o_fields x !! j) as [[t|]|] eqn:Ej; cbn; try discriminate. intros [= ->]. exists (Some p). econstructor 3; eauto.
  Qed.

  Lemma rc_pos_of_loc b E W m r o x :
    SInv K b E W m -> read_loc r m = Some o -> get m o = Some x -> o_box x = BAlloc -> h_rc (o_hdr x) <> 0.
  Proof.
    intros HI Hr Hx Hb. destruct (read_loc_hloc _ _ _ Hr) as [h Hl]. apply hloc_refs_pos in Hl.
    destruct (okN_alloc K _ _ _ _ _ (sv_obj _ _ _ _ _ HI _ _ Hx) Hb) as (O1 & _). lia.
  Qed.

  Lemma holder_write_ok m r ex :
    holder_good m r ->
    forall p j x, r = RField p j -> get m p = Some x ->
      (o_box x <> BNotYet \/ o_vst x = VDropping) /\ (o_vst x <> VDropping \/ ex = Some p) /\ o_vst x <> VUninit /\
      (inD m p = false \/ o_vst x = VDropped \/ ex = Some p).
  Proof.
    intros Hh p j x -> Hx. cbn in Hh. destruct Hh as (y & Hy & Hb & Hv & Hi & _). assert (y = x) by congruence. subst.
    split; [left; congruence|]. split; [left; congruence|]. split; [congruence | auto].
  Qed.

  Lemma is_map_later E ex m0 m1 o x : Fr K E ex m0 m1 -> get m0 o = Some x -> is_map m1 o = o_ismap x.
  Proof.
    intros F Hx. destruct (fr_obj _ _ _ _ _ F o x Hx) as (x' & Hx' & OF). unfold is_map. rewrite Hx'. apply OF.
  Qed.

  (** the common tail of clone / move / new / upgrade: store the in-flight handle, report ROk *)
  Lemma store_tail' b b0 E E1 self c m m1 rd o (r : res) :
    SInv K b0 E1 [] m -> idx_valid m rd -> holder_good m rd ->
    Cur K b true E None m (o :: E) [] m1 ->
    is_map m1 o = false -> inD m1 o = false ->
    PostOf b E (KCmd self c) m
      (let '(m, r') := rec (KStore rd o) m1 in match r' with ONormal => ok m r | _ => (m, r') end).
  Proof.
    intros HI Hidx Hh C1 Hm Hi.
    pose proof (loc_valid_later b b0 E (o :: E) E1 m m1 rd HI Hidx Hh C1) as Hlv.
    pose proof (good_inflight b E [] m1 o (cur_inv _ _ _ _ _ _ _ _ _ C1) Hi Hm) as Hg.
    pose proof (rec_post b E (KStore rd o) m1 eq_refl (cur_nb _ _ _ _ _ _ _ _ _ C1) (cur_inv _ _ _ _ _ _ _ _ _ C1) (conj Hlv Hg)) as HP.
    destruct (rec (KStore rd o) m1) as [m2 r']. cbn [fst snd] in HP.
    destruct r'; try (eapply (pass_post b E self c (KStore rd o) m m1 m2); [reflexivity | reflexivity | exact C1 | exact HP | discriminate]).
    destruct (Cur_call_n K PostC (KStore rd o) _ _ _ _ _ _ _ _ _ eq_refl C1 HP (fun o => le_n _) (or_introl eq_refl)) as [C2 _].
    apply ok_post'. exact C2.
  Qed.
  Lemma store_tail b b0 E E1 self c m m1 rd o x (r : res) :
    SInv K b0 E1 [] m -> idx_valid m rd -> holder_good m rd ->
    Cur K b true E None m (o :: E) [] m1 ->
    get m o = Some x -> o_ismap x = false -> inD m1 o = false ->
    PostOf b E (KCmd self c) m
      (let '(m, r') := rec (KStore rd o) m1 in match r' with ONormal => ok m r | _ => (m, r') end).
  Proof.
    intros HI Hidx Hh C1 Hx Hm Hi. apply (store_tail' b b0 E E1 self c m m1 rd o r HI Hidx Hh C1); [|exact Hi].
    rewrite (is_map_later _ _ _ _ _ _ (cur_fr _ _ _ _ _ _ _ _ _ C1) Hx). exact Hm.
  Qed.

  Section Res2.
    Context (b : bool) (E : list id) (self : option id) (m : machine).
    Hypothesis Hnb : NoBad m.
    Hypothesis HI : SInv K b E [] m.
    Let C0 : Cur K b true E None m E [] m := Cur_init K b true E None E [] m Hnb HI.

    Lemma cmd_drop_ok l : self_ok E self [CDrop l] m -> PostOf b E (KCmd self (CDrop l)) m (cmd_drop rec self l m).
    Proof.
      intros Hs. unfold cmd_drop.
      destruct (resolve_ok' b E [] m self l HI (self_ok_loc _ _ _ _ l Hs (fun H => H))) as (ro & -> & Hro).
      destruct ro as [r|]; [|apply ok_post'; exact C0].
      destruct (Hro r eq_refl) as (Hidx & Hh & Hg).
      destruct (read_loc r m) as [o|] eqn:Hr; [|apply ok_post'; exact C0].
      pose proof (Cur_write_loc K b true E None m E [] m r None C0 Hidx ltac:(discriminate) (holder_write_ok m r None Hh)) as C1.
      rewrite Hr in C1. cbn [ol app] in C1.
      assert (Hown : own_ok (write_loc r None m) o).
      { intros Hd. destruct (Hg o eq_refl) as (x & _ & _ & _ & Hi & _).
        assert (inD (write_loc r None m) o = inD m o) by (destruct r; reflexivity). congruence. }
      pose proof (rec_post b E (KDropCc o) _ eq_refl (cur_nb _ _ _ _ _ _ _ _ _ C1) (cur_inv _ _ _ _ _ _ _ _ _ C1) Hown) as HP.
      destruct (rec (KDropCc o) (write_loc r None m)) as [m2 r']. cbn [fst snd] in HP.
      destruct r'; try (eapply (pass_post b E self (CDrop l) (KDropCc o) m _ m2); [reflexivity | reflexivity | exact C1 | exact HP | discriminate]).
      destruct (Cur_call_n K PostC (KDropCc o) _ _ _ _ _ _ _ _ _ eq_refl C1 HP (fun o => le_n _) (or_introl eq_refl)) as [C2 _].
      apply ok_post'. exact C2.
    Qed.

    Lemma cmd_move_ok src dst : self_ok E self [CMove src dst] m ->
      PostOf b E (KCmd self (CMove src dst)) m (cmd_move rec self src dst m).
    Proof.
      intros Hs. unfold cmd_move.
      destruct (resolve_ok' b E [] m self src HI (self_ok_loc _ _ _ _ src Hs ltac:(cbn; intros H; apply andb_true_iff in H; apply H))) as (ros & -> & Hros).
      destruct (resolve_ok' b E [] m self dst HI (self_ok_loc _ _ _ _ dst Hs ltac:(cbn; intros H; apply andb_true_iff in H; apply H))) as (rod & -> & Hrod).
      destruct ros as [rs|]; [|apply ok_post'; exact C0]. destruct rod as [rd|]; [|apply ok_post'; exact C0].
      destruct (Hros rs eq_refl) as (Hidx & Hh & Hg). destruct (Hrod rd eq_refl) as (Hidxd & Hhd & _).
      destruct (read_loc rs m) as [o|] eqn:Hr; [|apply ok_post'; exact C0].
      pose proof (Cur_write_loc K b true E None m E [] m rs None C0 Hidx ltac:(discriminate) (holder_write_ok m rs None Hh)) as C1.
      rewrite Hr in C1. cbn [ol app] in C1.
      destruct (Hg o eq_refl) as (x & Hx & _ & _ & Hi & Hm).
      apply (store_tail b b E E self (CMove src dst) m _ rd o x ROk HI Hidxd Hhd C1 Hx Hm).
      destruct rs; exact Hi.
    Qed.

    Lemma cmd_clone_ok src dst : self_ok E self [CClone src dst] m ->
      PostOf b E (KCmd self (CClone src dst)) m (cmd_clone rec self src dst m).
    Proof.
      intros Hs. unfold cmd_clone.
      destruct (resolve_ok' b E [] m self src HI (self_ok_loc _ _ _ _ src Hs ltac:(cbn; intros H; apply andb_true_iff in H; apply H))) as (ros & -> & Hros).
      destruct (resolve_ok' b E [] m self dst HI (self_ok_loc _ _ _ _ dst Hs ltac:(cbn; intros H; apply andb_true_iff in H; apply H))) as (rod & -> & Hrod).
      destruct ros as [rs|]; [|apply ok_post'; exact C0]. destruct rod as [rd|]; [|apply ok_post'; exact C0].
      destruct (Hros rs eq_refl) as (Hidx & Hh & Hg). destruct (Hrod rd eq_refl) as (Hidxd & Hhd & _).
      destruct (read_loc rs m) as [o|] eqn:Hr; [|apply ok_post'; exact C0].
      destruct (Hg o eq_refl) as (x & Hx & Hb & _ & Hi & Hm).
      destruct (inc_rc (hdr_of m o)) as [h|] eqn:Hinc; [|apply raise_post' with (b' := b) (n := true); exact C0].
      pose proof (Cur_inc_rc K b true E None m E [] m o x h C0 Hx Hb (rc_pos_of_loc _ _ _ _ _ _ _ HI Hr Hx Hb) Hinc) as C1.
      pose proof (Cur_remove_from_list K _ _ _ _ _ _ _ _ o _ C1 (get_upd_eq _ _ _ _ Hx) Hb) as C2.
      apply (store_tail b b E E self (CClone src dst) m _ rd o x ROk HI Hidxd Hhd C2 Hx Hm).
      rewrite inD_remove_from_list. exact Hi.
    Qed.
  End Res2.
  (** a frame without own object is in particular a frame with own object [o] *)
  Lemma Cur_weaken_ex b n E0 m0 E W m1 o : Cur K b n E0 None m0 E W m1 -> Cur K b n E0 (Some o) m0 E W m1.
  Proof. intros [C1 C2 C3 C4]. split; auto. eapply Fr_weaken; [intros; apply le_n | left; reflexivity | exact C3]. Qed.

  Section Res3.
    Context (b : bool) (E : list id) (self : option id) (m : machine).
    Hypothesis Hnb : NoBad m.
    Hypothesis HI : SInv K b E [] m.
    Let C0 : Cur K b true E None m E [] m := Cur_init K b true E None E [] m Hnb HI.

    Lemma refs_hdr_upd o g m' t : refs (uhdr o g m') t = refs m' t.
    Proof. eapply refs_alter_same; try reflexivity. intros y Hy. split; reflexivity. Qed.
    Lemma refs_remove_from_list o m' t : refs (remove_from_list o m') t = refs m' t.
    Proof.
      unfold remove_from_list. destruct (is_in_pc (hdr_of m' o)); [|reflexivity]. destruct (pc_alive m'); [|reflexivity].
      unfold dec_size. match goal with |- context [if ?c then _ else _] => destruct c end;
        (eapply refs_alter_same; [reflexivity | reflexivity | reflexivity | intros y Hy; split; reflexivity]).
    Qed.

    Lemma cmd_bag_ok l k : self_ok E self [CBag l k] m -> PostOf b E (KCmd self (CBag l k)) m (cmd_bag self l k m).
    Proof.
      intros Hs. unfold cmd_bag.
      destruct (resolve_ok' b E [] m self l HI (self_ok_loc _ _ _ _ l Hs (fun H => H))) as (ro & -> & Hro).
      destruct ro as [r|]; cbn [mbind option_bind]; [|apply ok_post'; exact C0].
      destruct (Hro r eq_refl) as (_ & _ & Hg).
      destruct (read_loc r m) as [o|] eqn:Hr; [|apply ok_post'; exact C0].
      destruct (Hg o eq_refl) as (x & Hx & Hb & Hv & Hi & Hm).
      destruct (read_loc_hloc _ _ _ Hr) as [h0 Hl0]. apply hloc_refs_pos in Hl0.
      generalize (N.to_nat k). intros kk.
      assert (Hgen : forall m', Cur K b true E None m E [] m' -> (0 < refs m' o)%nat -> inD m' o = false ->
                PostOf b E (KCmd self (CBag l k)) m
                  ((fix go (k : nat) (m : machine) {struct k} : machine * outcome :=
                      match k with
                      | 0%nat => ok m ROk
                      | S k' =>
                          match inc_rc (hdr_of m o) with
                          | Some h => go k' (remove_from_list o (uhdr o (fun _ : hdr => h) m) <| bag ::= cons o |>)
                          | None => (m, raise m)
                          end
                      end) kk m')).
      { induction kk as [|kk IH]; intros m' C Hpos Hi'.
        - apply ok_post'. exact C.
        - destruct (inc_rc (hdr_of m' o)) as [h|] eqn:Hinc; [|apply raise_post' with (b' := b) (n := true); exact C].
          destruct (refs_pos_hloc m' o Hpos) as (hh & cc & Hl').
          destruct (sv_loc _ _ _ _ _ (cur_inv _ _ _ _ _ _ _ _ _ C) _ _ _ Hl') as (x' & Hx' & Hb' & _).
          assert (Hnz : h_rc (o_hdr x') <> 0).
          { destruct (okN_alloc K _ _ _ _ _ (sv_obj _ _ _ _ _ (cur_inv _ _ _ _ _ _ _ _ _ C) _ _ Hx') Hb') as (O1 & _). lia. }
          pose proof (Cur_inc_rc K b true E None m E [] m' o x' h C Hx' Hb' Hnz Hinc) as C1.
          pose proof (Cur_remove_from_list K _ _ _ _ _ _ _ _ o _ C1 (get_upd_eq _ _ _ _ Hx') Hb') as C2.
          assert (Hi2 : inD (remove_from_list o (uhdr o (fun _ : hdr => h) m')) o = false) by (rewrite inD_remove_from_list; exact Hi').
          assert (Hg2 : good_h (remove_from_list o (uhdr o (fun _ : hdr => h) m')) o).
          { apply (good_inflight b E [] _ o (cur_inv _ _ _ _ _ _ _ _ _ C2) Hi2).
            rewrite (is_map_later _ _ _ _ _ _ (cur_fr _ _ _ _ _ _ _ _ _ C2) Hx). exact Hm. }
          pose proof (Cur_bag_push K _ _ _ _ _ _ _ _ o C2 Hg2) as C3.
          apply IH; [exact C3 | | exact Hi2].
          rewrite refs_unfold. change (bag (?mm <| bag ::= cons o |>)) with (o :: bag mm). rewrite cnt_id_cons_eq. lia. }
      apply Hgen; [exact C0 | exact Hl0 | exact Hi].
    Qed.

    Lemma cmd_drop_value_ok v : PostOf b E (KCmd self (CDropValue v)) m (cmd_drop_value rec self v m).
    Proof.
      unfold cmd_drop_value.
      destruct (values m !! v) as [[o|]|] eqn:Hv; cbn [mjoin option_join]; try (apply ok_post'; exact C0).
      destruct (sv_values _ _ _ _ _ HI v o Hv) as [(x & Hx & Hb & Hvs) Hu].
      assert (C1 : Cur K b true E None m E [] (m <| values := <[v := None]> (values m) |>)).
      { apply Cur_values; [exact C0|]. intros v' o' Hv'.
        apply lookup_insert_Some_inv in Hv' as [[_ Hv']|[Hne Hv']]; [discriminate|].
        destruct (sv_values _ _ _ _ _ HI v' o' Hv') as [Hex Hu']. split; [exact Hex|].
        intros v'' Hv''. apply lookup_insert_Some_inv in Hv'' as [[_ Hv'']|[Hne' Hv'']]; [discriminate|]. apply Hu', Hv''. }
      assert (Hdr : droppable K E (m <| values := <[v := None]> (values m) |>) o).
      { exists x. split; [exact Hx|]. split.
        - apply cnt_id_zero. intros Hin. destruct (sv_E _ _ _ _ _ HI o Hin) as (y & Hy & Hby). congruence.
        - rewrite Hb. split; [exact Hvs|]. intros v' Hv'. cbn in Hv'.
          apply lookup_insert_Some_inv in Hv' as [[_ Hv']|[Hne Hv']]; [discriminate|]. apply Hne. symmetry. apply Hu, Hv'. }
      pose proof (rec_post b E (KDropValue o) _ eq_refl (cur_nb _ _ _ _ _ _ _ _ _ C1) (cur_inv _ _ _ _ _ _ _ _ _ C1) Hdr) as HP.
      change (m <| values ::= <[v := None]> |>) with (m <| values := <[v := None]> (values m) |>).
      destruct (rec (KDropValue o) (m <| values := <[v := None]> (values m) |>)) as [m2 r']. cbn [fst snd] in HP.
      (* the frame of the callee exempts [o]; [o] was not protected and not being dropped *)
      assert (Hcl : forall bb nn, Cur K bb nn E (Some o) m E [] m2 -> (exists x2, get m2 o = Some x2 /\ o_vst x2 = VDropped) ->
                Cur K bb nn E None m E [] m2).
      { intros bb nn Cc (x2 & Hx2 & Hv2). apply (Cur_close_ex K _ _ _ o _ _ _ _ Cc). intros y y' Hy Hy'.
        assert (y = x) by congruence. assert (y' = x2) by congruence. subst.
        split; [congruence|]. split; [congruence|]. split; [congruence|]. split; [congruence|].
        split; [intros Hba; congruence | intros _; congruence]. }
      destruct r'; try triv_post.
      - destruct (Cur_call_n K PostC (KDropValue o) _ _ _ _ _ _ _ _ _ eq_refl (Cur_weaken_ex _ _ _ _ _ _ _ _ C1) HP (fun o => le_n _) (or_intror eq_refl)) as [C2 Ho].
        destruct Ho as (_ & y & x2 & Hy & Hx2 & Hv2 & _). apply ok_post'. apply Hcl; [exact C2 | eauto].
      - destruct (Cur_call_p K PostC (KDropValue o) _ _ _ _ _ _ _ _ _ eq_refl (Cur_weaken_ex _ _ _ _ _ _ _ _ C1) HP (fun o => le_n _) (or_intror eq_refl)) as [C2 Ho].
        destruct Ho as (_ & y & x2 & Hy & Hx2 & Hv2 & _).
        pose proof (Hcl _ _ C2 (ex_intro _ x2 (conj Hx2 Hv2))) as C3. cbn [fst snd]. fin C3.
    Qed.
  End Res3.
  (** straight-line updates between resolving a weak location and writing it *)
  Definition kp (m m' : machine) : Prop :=
    wslots m' = wslots m /\ wparam m' = wparam m /\
    (forall p y, get m p = Some y -> exists y', get m' p = Some y' /\ o_wfields y' = o_wfields y /\
      o_box y' = o_box y /\ o_vst y' = o_vst y /\ o_ismap y' = o_ismap y) /\
    (forall p, get m p = None -> get m' p = None).
  Lemma kp_refl m : kp m m.
  Proof. split; [reflexivity|]. split; [reflexivity|]. split; [|auto]. intros p y Hy. exists y. auto. Qed.
  Lemma kp_trans m1 m2 m3 : kp m1 m2 -> kp m2 m3 -> kp m1 m3.
  Proof.
    intros (A1 & A2 & A3 & A4) (B1 & B2 & B3 & B4). split; [congruence|]. split; [congruence|]. split; [|auto].
    intros p y Hy. destruct (A3 p y Hy) as (y' & Hy' & ? & ? & ? & ?). destruct (B3 p y' Hy') as (y'' & Hy'' & ? & ? & ? & ?).
    exists y''. repeat split; congruence.
  Qed.
  Lemma kp_alter o f m m' :
    heap m' = alter f o (heap m) -> wslots m' = wslots m -> wparam m' = wparam m ->
    (forall y, o_wfields (f y) = o_wfields y /\ o_box (f y) = o_box y /\ o_vst (f y) = o_vst y /\ o_ismap (f y) = o_ismap y) ->
    kp m m'.
  Proof.
    intros Hh H1 H2 Hf. split; [exact H1|]. split; [exact H2|]. split.
    - intros p y Hy. rewrite (get_alter _ _ _ _ p Hh).
      destruct (decide (o = p)) as [->|]; [rewrite Hy; cbn; exists (f y); destruct (Hf y) as (? & ? & ? & ?); auto | exists y; auto].
    - intros p Hn. rewrite (get_alter _ _ _ _ p Hh). destruct (decide (o = p)) as [->|]; [rewrite Hn|]; auto.
  Qed.
  Lemma kp_ieq m m' : heap m' = heap m -> wslots m' = wslots m -> wparam m' = wparam m -> kp m m'.
  Proof.
    intros H1 H2 H3. apply (kp_alter 0%nat (fun y => y)); auto. rewrite alter_id_eq. exact H1.
  Qed.
  Lemma kp_remove_from_list o m : kp m (remove_from_list o m).
  Proof.
    unfold remove_from_list. destruct (is_in_pc (hdr_of m o)); [|apply kp_refl]. destruct (pc_alive m); [|apply kp_refl].
    unfold dec_size. match goal with |- context [if ?c then _ else _] => destruct c end;
      apply (kp_alter o (fun x => x <| o_hdr ::= set_mark NM |>)); try reflexivity; intros y; repeat split.
  Qed.
  Lemma kp_init_side o m : kp m (init_side o m).
  Proof.
    unfold init_side. destruct (get m o) as [x|]; [|apply kp_ieq; reflexivity]. destruct (h_side (o_hdr x)); [apply kp_refl|].
    eapply kp_alter; try reflexivity. intros y; repeat split.
  Qed.
  Lemma kp_weak_clone w m m' : weak_clone w m = Some m' -> kp m m'.
  Proof.
    destruct w as [|o]; cbn; [intros [= <-]; apply kp_refl|].
    destruct (side_wk m o) as [k|]; [|intros [= <-]; apply kp_ieq; reflexivity].
    destruct (inc_wk k); [|discriminate]. intros [= <-]. eapply kp_alter; try reflexivity. intros y. repeat split.
  Qed.
  Lemma widx_valid_kp m m' r : kp m m' -> widx_valid m r -> widx_valid m' r.
  Proof.
    intros (H1 & H2 & H3 & _). destruct r as [i|p j|]; cbn; [rewrite H1; auto | | auto].
    intros (x & Hx & Hj & Hb & Hu). destruct (H3 p x Hx) as (x' & Hx' & Hw & Hb' & Hv' & _). exists x'. rewrite Hw, Hb', Hv'. auto.
  Qed.
  Lemma read_wloc_kp m m' r : kp m m' -> read_wloc r m' = read_wloc r m.
  Proof.
    intros (H1 & H2 & H3 & H4). destruct r as [i|p j|]; cbn; [rewrite H1; reflexivity | | rewrite H2; reflexivity].
    destruct (get m p) as [x|] eqn:Hx.
    - destruct (H3 p x Hx) as (x' & -> & Hw & _). cbn. rewrite Hw. reflexivity.
    - rewrite (H4 p Hx). reflexivity.
  Qed.
  Lemma wnomap_kp m m' w : kp m m' -> wnomap m w -> wnomap m' w.
  Proof.
    intros (_ & _ & H3 & H4) Hw o Ho. specialize (Hw o Ho). unfold is_map in *.
    destruct (get m o) as [x|] eqn:Hx; [destruct (H3 o x Hx) as (x' & -> & _ & _ & _ & ->); exact Hw | rewrite (H4 o Hx); reflexivity].
  Qed.
  Section Weak.
    Context (b : bool) (E : list id) (self : option id) (m : machine).
    Hypothesis Hnb : NoBad m.
    Hypothesis HI : SInv K b E [] m.
    Let C0 : Cur K b true E None m E [] m := Cur_init K b true E None E [] m Hnb HI.

    Lemma weak_drop_opt_tail n' m1 old :
      k_weak K = true -> Cur K b n' E None m E (olw old ++ []) m1 -> Cur K b n' E None m E [] (weak_drop_opt old m1).
    Proof. intros Hk C. apply Cur_weak_drop_opt; [|exact Hk]. destruct old; exact C. Qed.

    Lemma cmd_w_new_ok w : self_ok E self [CWNew w] m -> PostOf b E (KCmd self (CWNew w)) m (cmd_w_new K self w m).
    Proof.
      intros Hs. unfold cmd_w_new. destruct (k_weak K) eqn:Hk; cbn [negb]; [|apply ok_post'; exact C0].
      destruct (wresolve_ok K b E [] m self w HI (self_ok_w _ _ _ _ Hs)) as (ro & -> & Hro).
      destruct ro as [r|]; [|apply ok_post'; exact C0].
      destruct (Hro r eq_refl) as (Hidx & _).
      destruct (wloc_writable r) eqn:Hwr; cbn [negb]; [|apply ok_post'; exact C0].
      apply ok_post'. apply (weak_drop_opt_tail true _ _ Hk).
      apply (Cur_write_wloc K b true E None m E [] m r (Some WNull)); [apply Cur_W_null; exact C0 | auto | intros o Ho; discriminate].
    Qed.

    Lemma cmd_w_drop_ok w : self_ok E self [CWDrop w] m -> PostOf b E (KCmd self (CWDrop w)) m (cmd_w_drop K self w m).
    Proof.
      intros Hs. unfold cmd_w_drop. destruct (k_weak K) eqn:Hk; cbn [negb]; [|apply ok_post'; exact C0].
      destruct (wresolve_ok K b E [] m self w HI (self_ok_w _ _ _ _ Hs)) as (ro & -> & Hro).
      destruct ro as [r|]; [|apply ok_post'; exact C0].
      destruct (Hro r eq_refl) as (Hidx & _).
      destruct (wloc_writable r) eqn:Hwr; cbn [negb]; [|apply ok_post'; exact C0].
      destruct (read_wloc r m) as [wr|] eqn:Hr; [|apply ok_post'; exact C0].
      apply ok_post'. apply Cur_weak_drop; [|exact Hk].
      pose proof (Cur_write_wloc K b true E None m E [] m r None C0 (Hidx eq_refl) ltac:(intros o Ho; discriminate)) as C1.
      rewrite Hr in C1. exact C1.
    Qed.

    Lemma cmd_w_clone_ok src dst : self_ok E self [CWClone src dst] m ->
      PostOf b E (KCmd self (CWClone src dst)) m (cmd_w_clone K self src dst m).
    Proof.
      intros Hs. unfold cmd_w_clone. destruct (k_weak K) eqn:Hk; cbn [negb]; [|apply ok_post'; exact C0].
      destruct (wresolve_ok K b E [] m self src HI (self_ok_w _ _ _ _ Hs)) as (ros & -> & Hros).
      destruct (wresolve_ok K b E [] m self dst HI (self_ok_w _ _ _ _ Hs)) as (rod & -> & Hrod).
      destruct ros as [rs|]; cbn [mbind option_bind]; [|apply ok_post'; exact C0].
      destruct (read_wloc rs m) as [wr|] eqn:Hr; [|apply ok_post'; exact C0].
      destruct rod as [rd|]; [|apply ok_post'; exact C0].
      destruct (Hros rs eq_refl) as (_ & Hw). destruct (Hw wr Hr) as (Hnm & Hpos).
      destruct (Hrod rd eq_refl) as (Hidx & _).
      destruct (wloc_writable rd) eqn:Hwr; cbn [negb]; [|apply ok_post'; exact C0].
      destruct (weak_clone wr m) as [m1|] eqn:Hcl; [|apply raise_post' with (b' := b) (n := true); exact C0].
      pose proof (Cur_weak_clone K b true E None m E [] m m1 wr C0 Hk Hcl) as C1.
      specialize (C1 ltac:(intros o ->; specialize (Hpos o eq_refl); lia)).
      pose proof (kp_weak_clone _ _ _ Hcl) as Hkp.
      apply ok_post'. apply (weak_drop_opt_tail true _ _ Hk).
      apply (Cur_write_wloc K b true E None m E [] m1 rd (Some wr) C1);
        [apply (widx_valid_kp _ _ _ Hkp), Hidx; reflexivity | apply (wnomap_kp _ _ _ Hkp), Hnm].
    Qed.

    Lemma cmd_downgrade_ok l w : self_ok E self [CDowngrade l w] m ->
      PostOf b E (KCmd self (CDowngrade l w)) m (cmd_downgrade K self l w m).
    Proof.
      intros Hs. unfold cmd_downgrade. destruct (k_weak K) eqn:Hk; cbn [negb]; [|apply ok_post'; exact C0].
      destruct (resolve_ok' b E [] m self l HI (self_ok_loc _ _ _ _ l Hs (fun H => H))) as (ro & -> & Hro).
      destruct (wresolve_ok K b E [] m self w HI (self_ok_w _ _ _ _ Hs)) as (rwo & -> & Hrwo).
      destruct ro as [r|]; cbn [mbind option_bind]; [|apply ok_post'; exact C0].
      destruct (Hro r eq_refl) as (_ & _ & Hg).
      destruct (read_loc r m) as [o|] eqn:Hr; [|apply ok_post'; exact C0].
      destruct rwo as [rw|]; [|apply ok_post'; exact C0].
      destruct (Hrwo rw eq_refl) as (Hidx & _).
      destruct (wloc_writable rw) eqn:Hwr; cbn [negb]; [|apply ok_post'; exact C0].
      destruct (Hg o eq_refl) as (x & Hx & Hb & Hv & Hi & Hm).
      pose proof (Cur_init_side K b true E None m E [] m o x C0 Hx Hb Hk) as C1.
      pose proof (init_side_get m o x o Hx) as Hx1. rewrite decide_True in Hx1 by reflexivity.
      assert (Hb1 : o_box (init_obj x) = BAlloc) by (unfold init_obj; destruct (h_side (o_hdr x)); exact Hb).
      destruct (side_wk (init_side o m) o ≫= inc_wk) as [k|] eqn:Hsk; [|apply raise_post' with (b' := b) (n := true); exact C1].
      destruct (side_wk (init_side o m) o) as [k0|] eqn:Hs0; cbn in Hsk; [|discriminate].
      pose proof (Cur_weak_inc K b true E None m E [] (init_side o m) o k0 k C1 Hk Hs0 Hsk (or_introl (ex_intro _ _ (conj Hx1 Hb1)))) as C2.
      assert (Hx2 : get (uside o (fun _ => k) (init_side o m)) o = Some ((init_obj x) <| o_side ::= fmap (fun s => Side k (sd_freed s)) |>))
        by (apply get_upd_eq, Hx1).
      pose proof (Cur_remove_from_list K _ _ _ _ _ _ _ _ o _ C2 Hx2 Hb1) as C3.
      assert (Hkp : kp m (remove_from_list o (uside o (fun _ => k) (init_side o m)))).
      { eapply kp_trans; [apply kp_init_side|]. eapply kp_trans; [|apply kp_remove_from_list].
        eapply kp_alter; try reflexivity. intros y. repeat split. }
      apply ok_post'. apply (weak_drop_opt_tail true _ _ Hk).
      apply (Cur_write_wloc K b true E None m E [] _ rw (Some (WTo o)) C3); [apply (widx_valid_kp _ _ _ Hkp), Hidx; reflexivity|].
      apply (wnomap_kp _ _ _ Hkp). intros o' [= <-]. unfold is_map. rewrite Hx. exact Hm.
    Qed.

    Lemma cmd_upgrade_ok w dst : self_ok E self [CUpgrade w dst] m ->
      PostOf b E (KCmd self (CUpgrade w dst)) m (cmd_upgrade K rec self w dst m).
    Proof.
      intros Hs. unfold cmd_upgrade. destruct (k_weak K) eqn:Hk; cbn [negb]; [|apply ok_post'; exact C0].
      destruct (wresolve_ok K b E [] m self w HI (self_ok_w _ _ _ _ Hs)) as (rwo & -> & Hrwo).
      destruct (resolve_ok' b E [] m self dst HI (self_ok_loc _ _ _ _ dst Hs (fun H => H))) as (ro & -> & Hro).
      destruct rwo as [rw|]; cbn [mbind option_bind]; [|apply ok_post'; exact C0].
      destruct (read_wloc rw m) as [wr|] eqn:Hr; [|apply ok_post'; exact C0].
      destruct ro as [rd|]; [|apply ok_post'; exact C0].
      destruct (Hrwo rw eq_refl) as (_ & Hw). destruct (Hw wr Hr) as (Hnm & Hpos).
      destruct (Hro rd eq_refl) as (Hidxd & Hhd & _).
      destruct wr as [|o]; [cbn [weak_strong_count]; rewrite N.eqb_refl; apply ok_post'; exact C0|].
      destruct (weak_strong_count_ok K b E [] m o HI Hk) as (sc & -> & Hsc); [specialize (Hpos o eq_refl); lia|].
      destruct (sc =? 0) eqn:Hz; [apply ok_post'; exact C0|]. apply N.eqb_neq in Hz.
      destruct (Hsc Hz) as (x & Hx & Hb & Hv & Hi & Hrc & Hd).
      destruct (inc_rc (hdr_of m o)) as [h|] eqn:Hinc; [|apply raise_post' with (b' := b) (n := true); exact C0].
      pose proof (Cur_inc_rc K b true E None m E [] m o x h C0 Hx Hb ltac:(congruence) Hinc) as C1.
      pose proof (Cur_remove_from_list K _ _ _ _ _ _ _ _ o _ C1 (get_upd_eq _ _ _ _ Hx) Hb) as C2.
      apply (store_tail b b E E self (CUpgrade w dst) m _ rd o x (RSome o) HI Hidxd Hhd C2 Hx).
      - specialize (Hnm o eq_refl). unfold is_map in Hnm. rewrite Hx in Hnm. exact Hnm.
      - rewrite inD_remove_from_list. exact Hi.
    Qed.
  End Weak.
  (** a fresh object ([o] does not exist at the entry [m0]) can be the own object of a callee *)
  Lemma Cur_close_fresh b n E0 o m0 E W m1 : get m0 o = None -> Cur K b n E0 (Some o) m0 E W m1 -> Cur K b n E0 None m0 E W m1.
  Proof. intros Hn C. apply (Cur_close_ex K _ _ _ o _ _ _ _ C). intros x x' Hx. congruence. Qed.

  (** dropping the by-value argument of an unwound constructor *)
  Lemma drop_arg_unwinding b E self c m m2 o x0 :
    get m o = None -> Cur K false false E None m E [] m2 ->
    get m2 o = Some x0 -> o_box x0 = BNotYet -> o_vst x0 = VLive ->
    PostOf b E (KCmd self c) m (unwinding (rec (KDropValue o)) m2).
  Proof.
    intros Hfresh C2 Hx0 Hb0 Hv0.
    destruct (unwinding (rec (KDropValue o)) m2) as [m3 r3] eqn:Hunw. cbn [fst snd].
    destruct (unwinding_cur K PostC rec E (Some o) (KDropValue o) m m2 m3 r3 eq_refl (Cur_weaken_ex _ _ _ _ _ _ _ o C2)) as [Hnn Hpp].
    - intros m2' C2' ->. apply (rec_post false E (KDropValue o) _ eq_refl (cur_nb _ _ _ _ _ _ _ _ _ C2') (cur_inv _ _ _ _ _ _ _ _ _ C2')).
      exists x0. split; [exact Hx0|]. split.
      + apply cnt_id_zero. intros Hin. destruct (sv_E _ _ _ _ _ (cur_inv _ _ _ _ _ _ _ _ _ C2') o Hin) as (y & Hy & Hby).
        change (get (m2 <| panicking := true |>) o) with (get m2 o) in Hy. congruence.
      + rewrite Hb0. exact Hv0.
    - right. reflexivity.
    - exact Hunw.
    - destruct r3; try triv_post; [congruence|].
      destruct (Hpp eq_refl) as (m3' & -> & C3 & _).
      pose proof (Cur_close_fresh _ _ _ _ _ _ _ _ Hfresh C3) as C4. fin C4.
  Qed.

  Section New.
    Context (b : bool) (E : list id) (self : option id) (m : machine).
    Hypothesis Hnb : NoBad m.
    Hypothesis HI : SInv K b E [] m.
    Let C0 : Cur K b true E None m E [] m := Cur_init K b true E None E [] m Hnb HI.

    (** the optional collection before an allocation *)
    Lemma trigger_call n' m1 :
      Cur K b n' E None m E [] m1 ->
      forall m2 t, (if k_auto K then rec KTrigger m1 else (m1, ONormal)) = (m2, t) ->
        (t = ONormal -> Cur K b n' E None m E [] m2) /\ (t = OPanic -> Cur K false false E None m E [] m2) /\
        (t = ONormal \/ t = OPanic -> Fr K E None m1 m2).
    Proof.
      intros C1 m2 t Hres. destruct (k_auto K).
      - pose proof (rec_post b E KTrigger m1 eq_refl (cur_nb _ _ _ _ _ _ _ _ _ C1) (cur_inv _ _ _ _ _ _ _ _ _ C1) I) as HP.
        rewrite Hres in HP. cbn [fst snd] in HP.
        split; [intros ->; apply (Cur_call_n K PostC KTrigger _ _ _ _ _ _ _ _ _ eq_refl C1 HP (fun o => le_n _) (or_introl eq_refl))|].
        split; [intros ->; apply (Cur_call_p K PostC KTrigger _ _ _ _ _ _ _ _ _ eq_refl C1 HP (fun o => le_n _) (or_introl eq_refl))|].
        rewrite Post_nc in HP by reflexivity. intros [-> | ->]; apply HP.
      - injection Hres as <- <-. split; [auto|]. split; [discriminate|]. intros _. apply Fr_refl.
    Qed.

    Lemma cmd_new_ok dst cls : self_ok E self [CNew dst cls] m ->
      PostOf b E (KCmd self (CNew dst cls)) m (cmd_new K P rec self dst cls m).
    Proof.
      intros Hs. unfold cmd_new.
      destruct (resolve_ok' b E [] m self dst HI (self_ok_loc _ _ _ _ dst Hs (fun H => H))) as (ro & -> & Hro).
      destruct ro as [r|]; [|apply ok_post'; exact C0].
      destruct (Hro r eq_refl) as (Hidx & Hh & _).
      pose proof (Cur_new_node K P b true E None m E [] m cls C0) as C1.
      set (o := length (heap m)).
      set (x0 := Obj (hdr_new false) VLive BNotYet None cls false (replicate (c_nf (class_of P cls)) None)
                     (replicate (c_nw (class_of P cls)) None) None false [] [] false).
      assert (Hfresh : get m o = None) by (apply lookup_ge_None_2; unfold o; lia).
      assert (Hx1 : get (new_node P cls m).1 o = Some x0) by (unfold new_node, get; cbn; apply list_lookup_middle; reflexivity).
      unfold new_node in *. cbn [fst snd] in *. fold o.
      match goal with |- context [if k_auto K then rec KTrigger ?mm else _] => set (m1 := mm) in * end.
      destruct (if k_auto K then rec KTrigger m1 else (m1, ONormal)) as [m2 t] eqn:Htr.
      destruct (trigger_call true m1 C1 m2 t Htr) as (HtN & HtP & HtF).
      assert (Hx2 : t = ONormal \/ t = OPanic -> get m2 o = Some x0).
      { intros Ht. destruct (fr_obj _ _ _ _ _ (HtF Ht) o x0 Hx1) as (x' & Hx' & OF).
        rewrite (of_notyet _ _ _ _ _ _ _ OF) in Hx'; [exact Hx' | reflexivity | discriminate | discriminate]. }
      destruct t; try triv_post.
      - specialize (HtN eq_refl). specialize (Hx2 (or_introl eq_refl)).
        pose proof (Cur_box_alloc K b true E None m E [] m2 o x0 HtN Hx2 eq_refl eq_refl eq_refl Hfresh) as C3.
        apply (store_tail' b b E E self (CNew dst cls) m _ r o ROk HI Hidx Hh C3).
        + unfold is_map, box_alloc. rewrite Hx2. destruct (box_layout K x0).
          match goal with |- context [get (emit ?e (upd o ?f ?mm)) o] => change (get (emit e (upd o f mm)) o) with (get (upd o f mm) o) end.
          rewrite get_upd, decide_True by reflexivity.
          match goal with |- context [get ?mm o] => change (get mm o) with (get m2 o) end. rewrite Hx2. reflexivity.
        + assert (Hi2 : inD m2 o = false).
          { destruct (inD m2 o) eqn:Ei; [|reflexivity].
            destruct (sv_objx _ _ _ _ _ (cur_inv _ _ _ _ _ _ _ _ _ HtN) _ _ Hx2) as [_ _ _ _ _ X6]. destruct (X6 Ei) as [H _]. exfalso. apply H. reflexivity. }
          unfold box_alloc. rewrite Hx2. destruct (box_layout K x0). exact Hi2.
      - apply (drop_arg_unwinding b E self (CNew dst cls) m m2 o x0 Hfresh (HtP eq_refl) (Hx2 (or_intror eq_refl))); reflexivity.
    Qed.
  End New.
  Section Clean.
    Context (b : bool) (E : list id) (self : option id) (m : machine).
    Hypothesis Hnb : NoBad m.
    Hypothesis HI : SInv K b E [] m.
    Let C0 : Cur K b true E None m E [] m := Cur_init K b true E None E [] m Hnb HI.

    (** an update of the slot map / borrow flag of an allocated object *)
    Lemma Cur_upd_map bb n' Ecur m1 o f y :
      Cur K bb n' E None m Ecur [] m1 -> get m1 o = Some y -> o_box y = BAlloc ->
      (forall z, o_hdr (f z) = o_hdr z /\ o_side (f z) = o_side z /\ o_cls (f z) = o_cls z /\ o_vst (f z) = o_vst z /\
                 o_box (f z) = o_box z /\ o_ismap (f z) = o_ismap z /\ o_fields (f z) = o_fields z /\
                 o_cleaner (f z) = o_cleaner z /\ o_wfields (f z) = o_wfields z) ->
      Cur K bb n' E None m Ecur [] (upd o f m1).
    Proof.
      intros C Hy Hb Hf. destruct (Hf y) as (F1 & F2 & F3 & F4 & F5 & F6 & F7 & F8 & F9).
      pose proof (cur_inv _ _ _ _ _ _ _ _ _ C) as HI1.
      eapply (Cur_upd_hs K bb n' E None m Ecur [] Ecur [] m1 o f y C Hy); auto.
      - left. congruence.
      - rewrite F1. auto.
      - unfold marked. rewrite F1. auto.
      - rewrite (okN_ext K bb _ _ _ y (f y) F1 F4 F5 F2). apply (sv_obj _ _ _ _ _ HI1 _ _ Hy).
      - eapply ObjXp_nohdr; [apply (sv_objx _ _ _ _ _ HI1 _ _ Hy) | auto ..].
        intros Hk. rewrite F2. apply (sv_objx _ _ _ _ _ HI1 _ _ Hy), Hk.
      - intros Hin. rewrite F1. destruct (sv_pc _ _ _ _ _ HI1 _ Hin) as (z & Hz & _ & _ & _ & Hm). congruence.
      - rewrite F1. auto.
    Qed.

    Lemma cmd_clean_ok c : PostOf b E (KCmd self (CClean c)) m (cmd_clean K rec self c m).
    Proof.
      unfold cmd_clean. destruct (k_clean K) eqn:Hkc; cbn [negb]; [|apply ok_post'; exact C0].
      assert (Hk : k_weak K = true) by auto.
      destruct (cslots m !! c) as [[cr|]|] eqn:Hc; cbn [mjoin option_join]; try (apply ok_post'; exact C0).
      set (mo := cr_map cr).
      assert (Hpos : (0 < wrefs m mo + cnt_wr mo [])%nat).
      { rewrite wrefs_unfold. assert (0 < cnt_c mo (cslots m))%nat; [|lia].
        clear -Hc. revert c Hc. induction (cslots m) as [|a l IH]; intros [|c] Hc; cbn in Hc; try discriminate.
        - injection Hc as ->. rewrite cnt_c_cons. cbn. unfold mo. rewrite Nat.eqb_refl. lia.
        - rewrite cnt_c_cons. specialize (IH c Hc). lia. }
      destruct (weak_strong_count_ok K b E [] m mo HI Hk Hpos) as (sc & -> & Hsc).
      destruct (sc =? 0) eqn:Hz; [apply ok_post'; exact C0|]. apply N.eqb_neq in Hz.
      destruct (Hsc Hz) as (x & Hx & Hb & Hv & Hi & Hrc & Hd).
      destruct (inc_rc (hdr_of m mo)) as [h|] eqn:Hinc; [|apply raise_post' with (b' := b) (n := true); exact C0].
      pose proof (Cur_inc_rc K b true E None m E [] m mo x h C0 Hx Hb ltac:(congruence) Hinc) as C1.
      pose proof (Cur_remove_from_list K _ _ _ _ _ _ _ _ mo _ C1 (get_upd_eq _ _ _ _ Hx) Hb) as C2.
      set (m1 := remove_from_list mo (uhdr mo (fun _ => h) m)) in *.
      assert (Hi1 : inD m1 mo = false) by (unfold m1; rewrite inD_remove_from_list; exact Hi).
      (* the final Cc::drop of the upgraded handle, in three flavours *)
      assert (Hdrop : forall bb m4, Cur K bb true E None m (mo :: E) [] m4 -> bb = b -> inD m4 mo = false ->
                PostOf b E (KCmd self (CClean c)) m
                  (let '(m5, r) := rec (KDropCc mo) m4 in match r with ONormal => ok m5 ROk | _ => (m5, r) end)).
      { intros bb m4 C4 -> Hi4.
        assert (Hown : own_ok m4 mo) by (intros Hd4; congruence).
        pose proof (rec_post b E (KDropCc mo) m4 eq_refl (cur_nb _ _ _ _ _ _ _ _ _ C4) (cur_inv _ _ _ _ _ _ _ _ _ C4) Hown) as HP.
        destruct (rec (KDropCc mo) m4) as [m5 r']. cbn [fst snd] in HP.
        destruct r'; try (eapply (pass_post b E self (CClean c) (KDropCc mo) m m4 m5); [reflexivity | reflexivity | exact C4 | exact HP | discriminate]).
        destruct (Cur_call_n K PostC (KDropCc mo) _ _ _ _ _ _ _ _ _ eq_refl C4 HP (fun o => le_n _) (or_introl eq_refl)) as [C5 _].
        apply ok_post'. exact C5. }
      destruct (sv_E _ _ _ _ _ (cur_inv _ _ _ _ _ _ _ _ _ C2) mo) as (mx & Hmx & Hbmx); [left|]. rewrite Hmx.
      destruct (o_mborrowed mx); [apply (Hdrop b m1 C2 eq_refl Hi1)|].
      pose proof (Cur_upd_map b true (mo :: E) m1 mo (fun x => x <| o_mborrowed := true |>) mx C2 Hmx Hbmx ltac:(intros z; repeat split)) as C3.
      set (m2 := upd mo (fun x => x <| o_mborrowed := true |>) m1) in *.
      assert (Hi2 : inD m2 mo = false) by exact Hi1.
      set (mx2 := mx <| o_mborrowed := true |>).
      assert (Hmx2 : get m2 mo = Some mx2) by (apply get_upd_eq, Hmx).
      (* the cleaning action *)
      assert (Hact : forall m3 r,
                (match o_mslots mx !! cr_slot cr with
                 | Some (MAction aid script) =>
                   if decide (aid = cr_aid cr)
                   then rec (KCleanRun mo aid script)
                          (upd mo (fun x => x <| o_mslots ::= <[cr_slot cr := MVacant]> |> <| o_mfree ::= cons (cr_slot cr) |>) m2)
                   else (m2, ONormal)
                 | _ => (m2, ONormal)
                 end) = (m3, r) ->
                (r = ONormal -> Cur K b true E None m (mo :: E) [] m3 /\ inD m3 mo = false) /\
                (r = OPanic -> Cur K false false E None m (mo :: E) [] m3 /\ inD m3 mo = false)).
      { intros m3 r Hres.
        assert (Hsame : (m2, ONormal) = (m3, r) -> (r = ONormal -> Cur K b true E None m (mo :: E) [] m3 /\ inD m3 mo = false) /\
                  (r = OPanic -> Cur K false false E None m (mo :: E) [] m3 /\ inD m3 mo = false)).
        { intros [= <- <-]. split; [auto | discriminate]. }
        destruct (o_mslots mx !! cr_slot cr) as [[|aid script]|]; try exact (Hsame Hres).
        destruct (decide (aid = cr_aid cr)); [|exact (Hsame Hres)].
        pose proof (Cur_upd_map b true (mo :: E) m2 mo (fun x => x <| o_mslots ::= <[cr_slot cr := MVacant]> |> <| o_mfree ::= cons (cr_slot cr) |>) mx2 C3 Hmx2 Hbmx ltac:(intros z; repeat split)) as C3'.
        match type of Hres with rec _ ?mm = _ => set (m2' := mm) in * end.
        pose proof (rec_post b (mo :: E) (KCleanRun mo aid script) m2' eq_refl (cur_nb _ _ _ _ _ _ _ _ _ C3') (cur_inv _ _ _ _ _ _ _ _ _ C3') I) as HP.
        rewrite Hres in HP. cbn [fst snd] in HP.
        assert (Hnd : r = ONormal \/ r = OPanic -> inD m3 mo = false).
        { intros Hr. assert (HF : Fr K (mo :: E) None m2' m3) by (rewrite Post_nc in HP by reflexivity; destruct Hr as [-> | ->]; apply HP).
          destruct (sv_E _ _ _ _ _ (cur_inv _ _ _ _ _ _ _ _ _ C3') mo) as (y0 & Hy0 & Hby0); [left|].
          destruct (fr_obj _ _ _ _ _ HF mo y0 Hy0) as (y & Hy & OF).
          destruct (of_prot _ _ _ _ _ _ _ OF) as (_ & _ & P3 & _); [discriminate | exact Hby0 | left; rewrite cnt_id_cons_eq; lia|].
          destruct (inD m3 mo) eqn:Ei; [|reflexivity]. specialize (P3 eq_refl). change (inD m2' mo) with (inD m1 mo) in P3. congruence. }
        split.
        - intros ->. split; [|apply Hnd; auto].
          apply (proj1 (Cur_call_n K PostC (KCleanRun mo aid script) _ _ _ _ _ _ _ _ _ eq_refl C3' HP (cnt_le_cons E mo) (or_introl eq_refl))).
        - intros ->. split; [|apply Hnd; auto].
          apply (proj1 (Cur_call_p K PostC (KCleanRun mo aid script) _ _ _ _ _ _ _ _ _ eq_refl C3' HP (cnt_le_cons E mo) (or_introl eq_refl))). }
      match goal with |- context [let '(m3, r) := ?t in _] => idtac end || idtac.
      destruct (match o_mslots mx !! cr_slot cr with
                | Some (MAction aid script) =>
                  if decide (aid = cr_aid cr)
                  then rec (KCleanRun mo aid script)
                         (upd mo (fun x => x <| o_mslots ::= <[cr_slot cr := MVacant]> |> <| o_mfree ::= cons (cr_slot cr) |>) m2)
                  else (m2, ONormal)
                | _ => (m2, ONormal)
                end) as [m3 r] eqn:Hres.
      destruct (Hact m3 r eq_refl) as [HaN HaP]. clear Hact.
      destruct r; try triv_post.
      - destruct (HaN eq_refl) as [C4 Hi3].
        destruct (sv_E _ _ _ _ _ (cur_inv _ _ _ _ _ _ _ _ _ C4) mo) as (my & Hmy & Hbmy); [left|].
        pose proof (Cur_upd_map b true (mo :: E) m3 mo (fun x => x <| o_mborrowed := false |>) my C4 Hmy Hbmy ltac:(intros z; repeat split)) as C5.
        apply (Hdrop b _ C5 eq_refl). exact Hi3.
      - destruct (HaP eq_refl) as [C4 Hi3].
        destruct (sv_E _ _ _ _ _ (cur_inv _ _ _ _ _ _ _ _ _ C4) mo) as (my & Hmy & Hbmy); [left|].
        pose proof (Cur_upd_map false false (mo :: E) m3 mo (fun x => x <| o_mborrowed := false |>) my C4 Hmy Hbmy ltac:(intros z; repeat split)) as C5.
        apply (unwinding_post K PostC rec b E (KCmd self (CClean c)) (KDropCc mo) m _ eq_refl eq_refl C5).
        + intros m4' C4' ->. apply (rec_post false E (KDropCc mo) _ eq_refl (cur_nb _ _ _ _ _ _ _ _ _ C4') (cur_inv _ _ _ _ _ _ _ _ _ C4')).
          intros Hd4. change (inD (upd mo (fun x => x <| o_mborrowed := false |>) m3 <| panicking := true |>) mo) with (inD m3 mo) in Hd4. congruence.
        + left. reflexivity.
        + intros. exact I.
    Qed.
  End Clean.
  Lemma heap_st_refl m : heap_st m m.
  Proof. split; intros o x Hx; exists x; split; auto using same_st_refl. Qed.
  Lemma heap_st_trans m1 m2 m3 : heap_st m1 m2 -> heap_st m2 m3 -> heap_st m1 m3.
  Proof.
    intros [A1 A2] [B1 B2]. split.
    - intros q z Hz. destruct (A1 q z Hz) as (z1 & Hz1 & S1' & S2' & S3' & S4'). destruct (B1 q z1 Hz1) as (z2 & Hz2 & T1 & T2 & T3 & T4).
      exists z2. split; [exact Hz2|]. repeat split; try congruence. auto.
    - intros q z2 Hz2. destruct (B2 q z2 Hz2) as (z1 & Hz1 & T1 & T2 & T3 & T4). destruct (A2 q z1 Hz1) as (z & Hz & S1' & S2' & S3' & S4').
      exists z. split; [exact Hz|]. repeat split; try congruence. auto.
  Qed.
  Lemma heap_st_remove_from_list o m : heap_st m (remove_from_list o m).
  Proof.
    unfold remove_from_list. destruct (is_in_pc (hdr_of m o)) eqn:Ep; [|apply heap_st_refl].
    destruct (pc_alive m); [|apply heap_st_refl].
    unfold dec_size. match goal with |- context [if ?c then _ else _] => destruct c end;
      (eapply heap_st_alter; [reflexivity|]; intros z Hz; repeat split; auto;
       unfold marked, is_in_list_or_queue; cbn; intros Hmz;
       rewrite (hdr_of_get _ _ _ Hz) in Ep; unfold is_in_pc in Ep; destruct (h_mark (o_hdr z)); discriminate).
  Qed.
  Lemma heap_st_write_loc r v m : heap_st m (write_loc r v m).
  Proof.
    destruct r as [i|q j]; cbn [write_loc].
    - eapply heap_st_alter with (a := 0%nat) (f := fun x => x); [cbn; rewrite alter_id_eq; reflexivity | intros; apply same_st_refl].
    - eapply heap_st_alter; [reflexivity|]. intros z _. repeat split; auto.
  Qed.

  Section Unwrap.
    Context (b : bool) (E : list id) (self : option id) (m : machine).
    Hypothesis Hnb : NoBad m.
    Hypothesis HI : SInv K b E [] m.
    Let C0 : Cur K b true E None m E [] m := Cur_init K b true E None E [] m Hnb HI.

    (** the box of a uniquely owned value is freed without dropping the value *)
    Lemma Cur_unwrap_free Ecur m2 o x2 :
      Cur K b true E None m (o :: Ecur) [] m2 -> get m2 o = Some x2 -> o_box x2 = BAlloc -> o_vst x2 = VLive ->
      refs m2 o = 0%nat -> cnt_id o Ecur = 0%nat -> inD m2 o = false -> o ∉ pc m2 ->
      ~ protected E m2 o x2 ->
      let mf := dealloc K o (drop_metadata K o (upd o (fun x => x <| o_vst := VMoved |>) m2)) in
      Cur K b true E None m Ecur [] mf /\ values mf = values m2 /\ (forall p, p <> o -> get mf p = get m2 p) /\
      exists y, get mf o = Some y /\ o_box y = BFreed /\ o_vst y = VMoved.
    Proof.
      intros C2 Hx2 Hb2 Hv2 Hr0 He0 Hi2 Hnpc Hnp.
      pose proof (cur_inv _ _ _ _ _ _ _ _ _ C2) as HI2.
      pose proof (sv_obj _ _ _ _ _ HI2 _ _ Hx2) as Hok.
      destruct (okN_alloc K _ _ _ _ _ Hok Hb2) as (O1 & O2 & O3 & O4 & O5 & O6).
      destruct (sv_objx _ _ _ _ _ HI2 _ _ Hx2) as [X1 X2 X3 X4 X5 X6].
      set (m3 := upd o (fun x => x <| o_vst := VMoved |>) m2).
      set (x3 := x2 <| o_vst := VMoved |>).
      assert (Hx3 : get m3 o = Some x3) by (apply get_upd_eq, Hx2).
      assert (Hnb3 : NoBad m3) by (eapply NoBad_log; [reflexivity | apply C2]).
      destruct (drop_metadata_shape K m3 o x3 Hx3 Hnb3) as (g & Hh1 & Hg & He1 & Hd1 & Ha1 & Hnb1).
      { intros Hk Hs. change (o_side x3) with (o_side x2). change (o_hdr x3) with (o_hdr x2) in Hs.
        destruct (o_side x2) as [s|]; [|destruct O5; congruence]. destruct O5 as (_ & ? & _). eauto. }
      set (m4 := drop_metadata K o m3) in *.
      assert (Hx4 : get m4 o = Some (x3 <| o_side := side_after K x3 |>)).
      { rewrite (get_alter_eq m3 m4 o g x3 Hh1 Hx3), Hg. reflexivity. }
      set (f := fun y : obj => y <| o_vst := VMoved |> <| o_side := side_after K x2 |> <| o_box := BFreed |>).
      assert (Hshape : heap (dealloc K o m4) = alter f o (heap m2) /\ ext_eq m2 (dealloc K o m4) /\
                       st_dropping (dealloc K o m4) = st_dropping m2 /\ NoBad (dealloc K o m4)).
      { unfold dealloc. rewrite Hx4. destruct (box_layout K _) as [sz al].
        change (o_box (x3 <| o_side := side_after K x3 |>)) with (o_box x2). rewrite Hb2.
        assert (Hheap : forall mm, heap mm = heap m4 ->
                  alter (fun y => y <| o_box := BFreed |>) o (heap mm) = alter f o (heap m2)).
        { intros mm ->. rewrite Hh1. change (heap m3) with (alter (fun x => x <| o_vst := VMoved |>) o (heap m2)).
          rewrite <- !list_alter_compose. eapply alter_ext_at; [exact Hx2|]. cbn. fold x3. rewrite Hg. reflexivity. }
        match goal with |- context [if ?c then _ else _] => destruct c end.
        - split; [apply (Hheap (emit_bad Underflow o m4)); reflexivity|]. split; [|split].
          + destruct He1 as (? & ? & ? & ? & ? & ? & ? & ? & ? & ?). repeat split; assumption.
          + exact Hd1.
          + apply NoBad_emit. split; [reflexivity|]. apply NoBad_emit. split; [reflexivity | exact Hnb1].
        - split; [apply (Hheap m4); reflexivity|]. split; [|split].
          + destruct He1 as (? & ? & ? & ? & ? & ? & ? & ? & ? & ?). repeat split; assumption.
          + exact Hd1.
          + apply NoBad_emit. split; [reflexivity | exact Hnb1]. }
      destruct Hshape as (Hh & He & Hsd & Hnbf). cbv zeta. fold m3 m4.
      split; [|split; [apply He | split; [intros p Hp; apply (get_alter_ne _ _ _ _ _ Hh Hp) |
                 exists (f x2); split; [apply (get_alter_eq _ _ _ _ _ Hh Hx2) | split; reflexivity]]]].
      eapply (Cur_status K b true E None m (o :: Ecur) [] Ecur [] m2 _ o f x2 C2 Hx2 Hh He); try reflexivity.
      - rewrite Hsd. auto.
      - exact Hnbf.
      - intros o' Hne. split; [symmetry; apply cnt_id_cons_ne; congruence | reflexivity].
      - apply okN_freed; [reflexivity|]. unfold OkFreed, f, side_after, is_live in *. cbn.
        split; [lia|]. split; [reflexivity|].
        destruct (k_weak K) eqn:Hk.
        + destruct (o_side x2) as [s|] eqn:Es.
          * destruct O5 as (S1 & S2 & S3 & S4 & S5). rewrite S1.
            destruct (w_cnt (sd_wk s) =? 0) eqn:Ez; cbn.
            -- apply N.eqb_eq in Ez. lia.
            -- rewrite S2. apply N.eqb_neq in Ez. repeat split; auto.
          * destruct O5 as [S1 S2]. rewrite S1. exact S2.
        + rewrite (X4 eq_refl) in *. destruct O5. assumption.
      - unfold f. split; cbn; auto; try discriminate.
        + intros Hk. unfold side_after. rewrite Hk. auto.
        + intros Hi. congruence.
      - intros h c Hlc. exfalso. eapply hloc_none_of_refs; eauto.
      - intros c t Hlc. assert (t <> o) by (intros ->; eapply hloc_none_of_refs; eauto).
        destruct (sv_loc _ _ _ _ _ HI2 _ _ _ Hlc) as (xt & Hxt & Hbt & Hct & Hm).
        exists xt. split; [rewrite (get_alter_ne _ _ _ _ _ Hh) by assumption; exact Hxt|]. split; [exact Hbt|]. split; [exact Hct|].
        intros xp Hp. rewrite (get_alter_eq _ _ _ _ _ Hh Hx2) in Hp. injection Hp as <-.
        destruct (Hm x2 Hx2) as [_ M2]. destruct He as (_ & _ & _ & _ & _ & _ & _ & Hde & _).
        rewrite !(inD_eq _ _ _ Hde). split; [cbn; discriminate|]. intros Hit. destruct (M2 Hit) as (Hio & _). congruence.
      - intros t Ht. left. split; [|right; exact Ht]. intros ->. apply cnt_id_zero in He0. contradiction.
      - intros Hin. contradiction.
      - intros v Hvl. destruct (sv_values _ _ _ _ _ HI2 _ _ Hvl) as [(y & Hy & Hby & _) _]. congruence.
      - right. split.
        + unfold f. split; cbn; auto; try congruence; try (intros; contradiction).
        + intros Hk Hi Hb' _. cbn in Hb'. discriminate.
    Qed.

    Lemma cmd_try_unwrap_ok l v : self_ok E self [CTryUnwrap l v] m ->
      PostOf b E (KCmd self (CTryUnwrap l v)) m (cmd_try_unwrap K self l v m).
    Proof.
      intros Hs. unfold cmd_try_unwrap.
      destruct (resolve_ok' b E [] m self l HI (self_ok_loc _ _ _ _ l Hs (fun H => H))) as (ro & -> & Hro).
      destruct ro as [r|]; [|apply ok_post'; exact C0].
      destruct (values m !! v) as [[vo|]|] eqn:Hv; try (apply ok_post'; exact C0).
      destruct (Hro r eq_refl) as (Hidx & Hh & Hg).
      destruct (read_loc r m) as [o|] eqn:Hr; [|apply ok_post'; exact C0].
      destruct (Hg o eq_refl) as (x & Hx & Hb & Hvl & Hi & Hm).
      rewrite (hdr_of_get _ _ _ Hx).
      destruct (h_rc (o_hdr x) =? 1) eqn:Hr1; cbn [negb]; [|apply ok_post'; exact C0]. apply N.eqb_eq in Hr1.
      destruct (st_collecting m || st_dropping m || (k_fin K && st_finalizing m)) eqn:Hfl; [apply ok_post'; exact C0|].
      apply orb_false_iff in Hfl as [Hfl _]. apply orb_false_iff in Hfl as [Hcol _].
      (* counts: exactly one handle, the one in the location *)
      destruct (read_loc_hloc _ _ _ Hr) as [h0 Hl0]. apply hloc_refs_pos in Hl0.
      destruct (okN_alloc K _ _ _ _ _ (sv_obj _ _ _ _ _ HI _ _ Hx) Hb) as (O1 & _).
      assert (Hrefs : refs m o = 1%nat /\ cnt_id o E = 0%nat) by lia. destruct Hrefs as [Hr1' He0].
      pose proof (Cur_write_loc K b true E None m E [] m r None C0 Hidx ltac:(discriminate) (holder_write_ok m r None Hh)) as C1.
      rewrite Hr in C1. cbn [ol app] in C1.
      set (m1 := write_loc r None m) in *.
      assert (Hx1 : exists x1, get m1 o = Some x1 /\ o_box x1 = BAlloc /\ o_vst x1 = VLive /\ o_hdr x1 = o_hdr x).
      { unfold m1. destruct r as [i|p j]; cbn [write_loc]; [exists x; auto|]. rewrite get_upd.
        destruct (decide (p = o)) as [->|]; [rewrite Hx; cbn; eexists; split; [reflexivity|]; auto | exists x; auto]. }
      destruct Hx1 as (x1 & Hx1 & Hb1 & Hv1 & Hh1).
      assert (Hr1z : refs m1 o = 0%nat).
      { destruct (okN_alloc K _ _ _ _ _ (sv_obj _ _ _ _ _ (cur_inv _ _ _ _ _ _ _ _ _ C1) _ _ Hx1) Hb1) as (Q1 & _).
        rewrite cnt_id_cons_eq, Hh1, Hr1 in Q1. lia. }
      pose proof (Cur_remove_from_list K _ _ _ _ _ _ _ _ o x1 C1 Hx1 Hb1) as C2.
      destruct (remove_from_list_obj m1 o x1 Hx1) as (x2 & Hx2 & (S1 & S2 & _) & _ & _ & _ & R4 & _ & R6).
      set (m2 := remove_from_list o m1) in *.
      assert (Hi2 : inD m2 o = false).
      { unfold inD. rewrite R6. unfold m1. destruct r; exact Hi. }
      assert (Hnpc : o ∉ pc m2) by (apply (remove_from_list_notin K b (o :: E) [] m1 o (cur_inv _ _ _ _ _ _ _ _ _ C1))).
      assert (Hnp : ~ protected E m2 o x2).
      { intros [Hp|[_ Hp]]; [lia|].
        assert (st_collecting m2 = st_collecting m).
        { unfold m2, remove_from_list. destruct (is_in_pc _); [|destruct r; reflexivity]. destruct (pc_alive m1); [|destruct r; reflexivity].
          unfold dec_size. match goal with |- context [if ?c then _ else _] => destruct c end; destruct r; reflexivity. }
        congruence. }
      destruct (Cur_unwrap_free E m2 o x2 C2 Hx2 ltac:(congruence) ltac:(congruence)
                  ltac:(unfold m2; rewrite refs_remove_from_list; exact Hr1z) He0 Hi2 Hnpc Hnp) as (C3 & Hvf & Hgf & yf & Hyf & Hbf & Hvmf).
      (* the value goes to the value slot; [values] commutes with the two allocation helpers *)
      set (mf := dealloc K o (drop_metadata K o (upd o (fun x => x <| o_vst := VMoved |>) m2))) in *.
      assert (Heq : dealloc K o (drop_metadata K o (upd o (fun x => x <| o_vst := VMoved |>) m2 <| values ::= <[v := Some o]> |>))
                    = mf <| values := <[v := Some o]> (values mf) |>).
      { rewrite drop_metadata_values, dealloc_values. reflexivity. }
      rewrite Heq. apply ok_post'. apply Cur_values; [exact C3|].
      assert (Hvm : values mf = values m).
      { rewrite Hvf. unfold m2, remove_from_list. destruct (is_in_pc _); [|destruct r; reflexivity]. destruct (pc_alive m1); [|destruct r; reflexivity].
        unfold dec_size. match goal with |- context [if ?c then _ else _] => destruct c end; destruct r; reflexivity. }
      assert (Hst : heap_st m m2) by (eapply heap_st_trans; [apply heap_st_write_loc | apply heap_st_remove_from_list]).
      assert (Hnotin : forall v', values m !! v' = Some (Some o) -> False).
      { intros v' Hv'. destruct (sv_values _ _ _ _ _ HI v' o Hv') as [(y & Hy & Hby & _) _]. congruence. }
      intros v0 o0 Hv0. rewrite Hvm in *.
      apply lookup_insert_Some_inv in Hv0 as [[<- Hv0]|[Hne Hv0]].
      - injection Hv0 as <-. split; [exists yf; auto|].
        intros v' Hv'. apply lookup_insert_Some_inv in Hv' as [[<- _]|[Hne' Hv']]; [reflexivity|]. destruct (Hnotin v' Hv').
      - destruct (sv_values _ _ _ _ _ HI v0 o0 Hv0) as [(y & Hy & Hby & Hvy) Hu].
        assert (Hoo : o0 <> o) by (intros ->; congruence).
        split.
        + destruct (proj1 Hst o0 y Hy) as (y2 & Hy2 & Sb & Sv & _). exists y2. rewrite (Hgf o0 Hoo). repeat split; congruence.
        + intros v' Hv'. apply lookup_insert_Some_inv in Hv' as [[<- Hv']|[Hne' Hv']]; [congruence | apply Hu, Hv'].
    Qed.
  End Unwrap.
  Section Register.
    Context (b : bool) (E : list id) (self : option id) (m : machine).
    Hypothesis Hnb : NoBad m.
    Hypothesis HI : SInv K b E [] m.
    Let C0 : Cur K b true E None m E [] m := Cur_init K b true E None E [] m Hnb HI.

    (** the second half of Cleaner::register: insert the action, downgrade the map handle *)
    Lemma register_tail n' m1 mo mx script c :
      k_weak K = true ->
      Cur K b n' E None m E [] m1 -> get m1 mo = Some mx -> o_box mx = BAlloc -> (n' = true) -> (c < nslots)%nat ->
      PostOf b E (KCmd self (CRegister NSelf script c)) m
        (if o_mborrowed mx then (m1, raise m1)
         else
           let aid := next_aid m1 in
           let m2 := m1 <| next_aid := S aid |> in
           let '(m3, slot) := map_insert mo aid script m2 in
           let m4 := init_side mo m3 in
           match (side_wk m4 mo ≫= inc_wk) with
           | None => (m4, raise m4)
           | Some k =>
             let m5 := remove_from_list mo (uside mo (fun _ => k) m4) in
             let old := mjoin (cslots m5 !! c) in
             let m6 := m5 <| cslots ::= <[c := Some (Cref mo slot aid)]> |> in
             let m7 := match old with Some cr => weak_drop (WTo (cr_map cr)) m6 | None => m6 end in
             ok m7 ROk
           end).
    Proof.
      intros Hk C1 Hmx Hbx -> Hc.
      destruct (o_mborrowed mx); [apply raise_post' with (b' := b) (n := true); exact C1|].
      cbv zeta.
      assert (C2 : Cur K b true E None m E [] (m1 <| next_aid := S (next_aid m1) |>))
        by (eapply Cur_ieq; [exact C1 | repeat split | apply C1]).
      set (m2 := m1 <| next_aid := S (next_aid m1) |>) in *.
      assert (Hmx2 : get m2 mo = Some mx) by exact Hmx.
      (* map_insert *)
      assert (Hins : exists m3 slot f, map_insert mo (next_aid m1) script m2 = (m3, slot) /\ m3 = upd mo f m2 /\
                (forall z, o_hdr (f z) = o_hdr z /\ o_side (f z) = o_side z /\ o_cls (f z) = o_cls z /\ o_vst (f z) = o_vst z /\
                   o_box (f z) = o_box z /\ o_ismap (f z) = o_ismap z /\ o_fields (f z) = o_fields z /\
                   o_cleaner (f z) = o_cleaner z /\ o_wfields (f z) = o_wfields z)).
      { unfold map_insert. rewrite Hmx2. destruct (o_mfree mx) as [|i fr].
        - eexists _, _, (fun x => x <| o_mslots ::= fun l => l ++ [MAction (next_aid m1) script] |>). split; [reflexivity|]. split; [reflexivity|].
          intros z. repeat split.
        - eexists _, _, (fun x => x <| o_mslots ::= <[i := MAction (next_aid m1) script]> |> <| o_mfree := fr |>). split; [reflexivity|]. split; [reflexivity|].
          intros z. repeat split. }
      destruct Hins as (m3 & slot & f & -> & -> & Hf).
      pose proof (Cur_upd_map _ _ b true E m2 mo f mx C2 Hmx2 Hbx Hf) as C3.
      set (m3 := upd mo f m2) in *.
      assert (Hmx3 : get m3 mo = Some (f mx)) by (apply get_upd_eq, Hmx2).
      assert (Hbx3 : o_box (f mx) = BAlloc) by (destruct (Hf mx) as (_ & _ & _ & _ & -> & _); exact Hbx).
      pose proof (Cur_init_side K b true E None m E [] m3 mo (f mx) C3 Hmx3 Hbx3 Hk) as C4.
      pose proof (init_side_get m3 mo (f mx) mo Hmx3) as Hmx4. rewrite decide_True in Hmx4 by reflexivity.
      assert (Hbx4 : o_box (init_obj (f mx)) = BAlloc) by (unfold init_obj; destruct (h_side (o_hdr (f mx))); exact Hbx3).
      set (m4 := init_side mo m3) in *.
      destruct (side_wk m4 mo ≫= inc_wk) as [k|] eqn:Hsk; [|apply raise_post' with (b' := b) (n := true); exact C4].
      destruct (side_wk m4 mo) as [k0|] eqn:Hs0; cbn in Hsk; [|discriminate].
      pose proof (Cur_weak_inc K b true E None m E [] m4 mo k0 k C4 Hk Hs0 Hsk (or_introl (ex_intro _ _ (conj Hmx4 Hbx4)))) as C5.
      assert (Hmx5 : get (uside mo (fun _ => k) m4) mo = Some ((init_obj (f mx)) <| o_side ::= fmap (fun s => Side k (sd_freed s)) |>))
        by (apply get_upd_eq, Hmx4).
      pose proof (Cur_remove_from_list K _ _ _ _ _ _ _ _ mo _ C5 Hmx5 Hbx4) as C6.
      set (m5 := remove_from_list mo (uside mo (fun _ => k) m4)) in *.
      (* the cleanable slot *)
      assert (Hlen : (c < length (cslots m5))%nat \/ cslots m5 !! c = None) by (destruct (cslots m5 !! c) eqn:Hc5; [left; eapply lookup_lt_Some; eauto | right; reflexivity]).
      destruct (cslots m5 !! c) as [oldc|] eqn:Hc5.
      - pose proof (Cur_cslots K b true E None m E [] m5 c (Some (Cref mo slot (next_aid m1))) oldc C6 Hc5) as C7.
        cbn [mjoin option_join]. destruct oldc as [cr|]; cbn [olc app] in C7.
        + apply ok_post'. apply Cur_weak_drop; [exact C7 | exact Hk].
        + apply ok_post'. exact C7.
      - (* impossible: the slot index is valid ([sv_lens]) *)
        exfalso. apply lookup_ge_None_1 in Hc5.
        destruct (sv_lens _ _ _ _ _ (cur_inv _ _ _ _ _ _ _ _ _ C6)) as (_ & _ & Hl). lia.
    Qed.
    Lemma cmd_register_ok nd script c : self_ok E self [CRegister nd script c] m ->
      PostOf b E (KCmd self (CRegister nd script c)) m (cmd_register K P rec self nd script c m).
    Proof.
      intros Hs. unfold cmd_register. destruct (k_clean K) eqn:Hkc; cbn [negb]; [|apply ok_post'; exact C0].
      assert (Hk : k_weak K = true) by auto.
      destruct (nresolve_ok' b E [] m self nd HI (self_ok_node _ _ _ _ nd Hs (fun H => H))) as (no & -> & Hno).
      destruct no as [o|]; [|apply ok_post'; exact C0].
      destruct (cslots m !! c) as [cs0|] eqn:Hcs; [|apply ok_post'; exact C0].
      assert (Hc : (c < nslots)%nat).
      { apply lookup_lt_Some in Hcs. destruct (sv_lens _ _ _ _ _ HI) as (_ & _ & Hl). lia. }
      destruct (Hno o eq_refl) as (x & Hx & Hb & Hv & Hi & Hm). rewrite Hx.
      destruct (negb (c_cleaner (class_of P (o_cls x))) || o_ismap x); [apply ok_post'; exact C0|].
      (* the generic continuation *)
      assert (Htail : forall m1 mo, Cur K b true E None m E [] m1 ->
                (exists mx, get m1 mo = Some mx /\ o_box mx = BAlloc) ->
                PostOf b E (KCmd self (CRegister nd script c)) m
                  (match get m1 mo with
                   | Some mx =>
                     if o_mborrowed mx then (m1, raise m1)
                     else
                       let aid := next_aid m1 in
                       let m2 := m1 <| next_aid := S aid |> in
                       let '(m3, slot) := map_insert mo aid script m2 in
                       let m4 := init_side mo m3 in
                       match (side_wk m4 mo ≫= inc_wk) with
                       | None => (m4, raise m4)
                       | Some k =>
                         let m5 := remove_from_list mo (uside mo (fun _ => k) m4) in
                         let old := mjoin (cslots m5 !! c) in
                         let m6 := m5 <| cslots ::= <[c := Some (Cref mo slot aid)]> |> in
                         let m7 := match old with Some cr => weak_drop (WTo (cr_map cr)) m6 | None => m6 end in
                         ok m7 ROk
                       end
                   | None => (emit_bad BadState mo m1, ONormal)
                   end)).
      { intros m1 mo C1 (mx & Hmx & Hbx). rewrite Hmx.
        apply (register_tail true m1 mo mx script c Hk C1 Hmx Hbx eq_refl Hc). }
      destruct (o_cleaner x) as [mo|] eqn:Hcl.
      { (* the node already has its map *)
        apply Htail; [exact C0|].
        destruct (sv_loc _ _ _ _ _ HI (Some o) true mo) as (xt & Hxt & Hbt & _); [econstructor 4; eauto | eauto]. }
      (* a new map *)
      pose proof (Cur_new_map K b true E None m E [] m C0) as C1.
      set (mo := length (heap m)).
      set (x0 := Obj (hdr_new false) VLive BNotYet None 0 true [] [] None false [] [] false).
      assert (Hfresh : get m mo = None) by (apply lookup_ge_None_2; unfold mo; lia).
      assert (Hx1 : get (new_map m).1 mo = Some x0) by (unfold new_map, get; cbn; apply list_lookup_middle; reflexivity).
      unfold new_map in *. cbn [fst snd] in *. fold mo.
      match goal with |- context [if k_auto K then rec KTrigger ?mm else _] => set (m1 := mm) in * end.
      destruct (if k_auto K then rec KTrigger m1 else (m1, ONormal)) as [m2 t] eqn:Htr.
      destruct (trigger_call b E m true m1 C1 m2 t Htr) as (HtN & HtP & HtF).
      assert (Hx2 : t = ONormal \/ t = OPanic -> get m2 mo = Some x0).
      { intros Ht. destruct (fr_obj _ _ _ _ _ (HtF Ht) mo x0 Hx1) as (x' & Hx' & OF).
        rewrite (of_notyet _ _ _ _ _ _ _ OF) in Hx'; [exact Hx' | reflexivity | discriminate | discriminate]. }
      destruct t; try triv_post.
      2: { (* the collection panicked: the map value is dropped while unwinding *)
           pose proof (drop_arg_unwinding b E self (CRegister nd script c) m m2 mo x0 Hfresh (HtP eq_refl) (Hx2 (or_intror eq_refl)) eq_refl eq_refl) as HPu.
           destruct (unwinding (rec (KDropValue mo)) m2) as [m3 r3] eqn:Hunw. cbn [fst snd] in *.
           destruct r3; try exact HPu.
           exfalso. unfold unwinding in Hunw. destruct (rec (KDropValue mo) (m2 <| panicking := true |>)) as [mm rr].
           injection Hunw as _ Hr. destruct rr; try discriminate; destruct (panicking m2); discriminate. }
      specialize (HtN eq_refl). specialize (Hx2 (or_introl eq_refl)).
      pose proof (Cur_box_alloc K b true E None m E [] m2 mo x0 HtN Hx2 eq_refl eq_refl eq_refl Hfresh) as C3.
      set (m3 := box_alloc K mo m2) in *.
      assert (Hi2 : inD m2 mo = false).
      { destruct (inD m2 mo) eqn:Ei; [|reflexivity].
        destruct (sv_objx _ _ _ _ _ (cur_inv _ _ _ _ _ _ _ _ _ HtN) _ _ Hx2) as [_ _ _ _ _ X6]. destruct (X6 Ei) as [H _]. exfalso. apply H. reflexivity. }
      assert (Hx3 : exists x3m, get m3 mo = Some x3m /\ o_box x3m = BAlloc /\ o_vst x3m = VLive /\ o_ismap x3m = true /\ o_mslots x3m = [] /\ inD m3 mo = false /\
                      h_rc (o_hdr x3m) = 1 /\
                      forall p, p <> mo -> get m3 p = get m2 p).
      { unfold m3, box_alloc. rewrite Hx2. destruct (box_layout K x0) as [sz al].
        eexists. split; [|split; [|split; [|split; [|split; [|split; [|split]]]]]].
        - match goal with |- get (emit ?e (upd mo ?f ?mm)) mo = _ => change (get (emit e (upd mo f mm)) mo) with (get (upd mo f mm) mo) end.
          apply get_upd_eq. exact Hx2.
        - reflexivity.
        - reflexivity.
        - reflexivity.
        - reflexivity.
        - exact Hi2.
        - reflexivity.
        - intros p Hp. match goal with |- get (emit ?e (upd mo ?f ?mm)) p = _ => change (get (emit e (upd mo f mm)) p) with (get (upd mo f mm) p) end.
          rewrite get_upd_ne by congruence. reflexivity. }
      destruct Hx3 as (x3m & Hx3m & Hb3m & Hv3m & Hm3m & Hs3m & Hi3m & Hrc3m & Hoth3).
      (* the owner at [m3] *)
      destruct (fr_obj _ _ _ _ _ (cur_fr _ _ _ _ _ _ _ _ _ HtN) o x Hx) as (x2 & Hx2o & OFo).
      assert (Hne : o <> mo) by (intros ->; congruence).
      assert (Hx3o : get m3 o = Some x2) by (rewrite Hoth3 by exact Hne; exact Hx2o).
      rewrite Hx3o. cbn [mbind option_bind].
      destruct (o_cleaner x2) as [existing|] eqn:Hcl2.
      - (* a nested register already created the map: the fresh one is dropped *)
        assert (Hown : own_ok m3 mo) by (intros Hd; congruence).
        pose proof (rec_post b E (KDropCc mo) m3 eq_refl (cur_nb _ _ _ _ _ _ _ _ _ C3) (cur_inv _ _ _ _ _ _ _ _ _ C3) Hown) as HP.
        destruct (rec (KDropCc mo) m3) as [m4 r'] eqn:Hdc. cbn [fst snd] in HP.
        destruct r'; try (eapply (pass_post b E self (CRegister nd script c) (KDropCc mo) m m3 m4); [reflexivity | reflexivity | exact C3 | exact HP | discriminate]).
        destruct (Cur_call_n K PostC (KDropCc mo) _ _ _ _ _ _ _ _ _ eq_refl C3 HP (fun o => le_n _) (or_introl eq_refl)) as [C4 Hq].
        apply Htail; [exact C4|].
        destruct (sv_loc _ _ _ _ _ (cur_inv _ _ _ _ _ _ _ _ _ C3) (Some o) true existing) as (xe & Hxe & Hbe & _); [econstructor 4; eauto|].
        assert (Hne2 : existing <> mo).
        { intros ->. assert (Hl : hloc m3 (Some o) true mo) by (econstructor 4; eauto). apply hloc_refs_pos in Hl.
          destruct (okN_alloc K _ _ _ _ _ (sv_obj _ _ _ _ _ (cur_inv _ _ _ _ _ _ _ _ _ C3) _ _ Hx3m) Hb3m) as (O1 & _).
          rewrite cnt_id_cons_eq in O1. lia. }
        exists xe. split; [|exact Hbe]. rewrite (Hq x3m Hx3m Hm3m Hs3m existing Hne2). exact Hxe.
      - (* store the new map in the owner *)
        assert (C4 : Cur K b true E None m E [] (upd o (fun x => x <| o_cleaner := Some mo |>) m3)).
        { pose proof (Cur_set_cleaner K b true E None m E [] m3 o x2 (Some mo) C3 Hx3o) as C4. rewrite Hcl2 in C4. apply C4.
          - intros _. rewrite (of_ismap _ _ _ _ _ _ _ OFo). exact Hm.
          - intros t [= <-]. exists x3m. split; [exact Hx3m|]. split; [exact Hb3m|]. split; [discriminate|].
            intros xp Hp. split; [intros _ _; auto|]. intros Hd. congruence.
          - left. apply (of_box1 _ _ _ _ _ _ _ OFo). congruence.
          - left. intros Hvd. pose proof (of_nodropping _ _ _ _ _ _ _ OFo ltac:(discriminate) Hvd). congruence.
          - intros Hvu. pose proof (of_nouninit _ _ _ _ _ _ _ OFo Hvu). congruence.
          - assert (Hd3 : inD m3 o = inD m2 o) by (unfold m3, box_alloc; rewrite Hx2; destruct (box_layout K x0); reflexivity).
            destruct (inD m3 o) eqn:Ei3; [right; left | left; reflexivity].
            apply (cur_ndd _ _ _ _ _ _ _ _ _ HtN eq_refl o x2 Hx2o); [congruence | exact Hi]. }
        apply Htail; [exact C4|]. exists x3m. split; [|exact Hb3m]. rewrite get_upd_ne by exact Hne. exact Hx3m.
    Qed.
  End Register.
End Cmds.

