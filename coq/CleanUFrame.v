(** * CleanUFrame: the helpers of the machine model do not touch the ghost [dead] (same rewrite
    database [cv] as the cleaner view). *)
From Coq Require Import NArith Bool List Lia.
From stdpp Require Import base list option.
From RecordUpdate Require Import RecordSet.
From RC Require Import Hdr Machine RunInd Clean CleanFrame.
From RC Require Pass.
Import ListNotations RecordSetNotations.

Lemma dd_set_pc f m : dead (set pc f m) = dead m. Proof. reflexivity. Qed.
Lemma dd_set_pc_size f m : dead (set pc_size f m) = dead m. Proof. reflexivity. Qed.
Lemma dd_set_pc_alive f m : dead (set pc_alive f m) = dead m. Proof. reflexivity. Qed.
Lemma dd_set_st_collecting f m : dead (set st_collecting f m) = dead m. Proof. reflexivity. Qed.
Lemma dd_set_st_finalizing f m : dead (set st_finalizing f m) = dead m. Proof. reflexivity. Qed.
Lemma dd_set_st_dropping f m : dead (set st_dropping f m) = dead m. Proof. reflexivity. Qed.
Lemma dd_set_st_alloc f m : dead (set st_alloc f m) = dead m. Proof. reflexivity. Qed.
Lemma dd_set_st_exec f m : dead (set st_exec f m) = dead m. Proof. reflexivity. Qed.
Lemma dd_set_cf_thr f m : dead (set cf_thr f m) = dead m. Proof. reflexivity. Qed.
Lemma dd_set_cf_pnum f m : dead (set cf_pnum f m) = dead m. Proof. reflexivity. Qed.
Lemma dd_set_cf_pexp f m : dead (set cf_pexp f m) = dead m. Proof. reflexivity. Qed.
Lemma dd_set_cf_buf f m : dead (set cf_buf f m) = dead m. Proof. reflexivity. Qed.
Lemma dd_set_cf_auto f m : dead (set cf_auto f m) = dead m. Proof. reflexivity. Qed.
Lemma dd_set_slots f m : dead (set slots f m) = dead m. Proof. reflexivity. Qed.
Lemma dd_set_wslots f m : dead (set wslots f m) = dead m. Proof. reflexivity. Qed.
Lemma dd_set_cslots f m : dead (set cslots f m) = dead m. Proof. reflexivity. Qed.
Lemma dd_set_values f m : dead (set values f m) = dead m. Proof. reflexivity. Qed.
Lemma dd_set_bag f m : dead (set bag f m) = dead m. Proof. reflexivity. Qed.
Lemma dd_set_wparam f m : dead (set wparam f m) = dead m. Proof. reflexivity. Qed.
Lemma dd_set_fuse_trace f m : dead (set fuse_trace f m) = dead m. Proof. reflexivity. Qed.
Lemma dd_set_fuse_fin f m : dead (set fuse_fin f m) = dead m. Proof. reflexivity. Qed.
Lemma dd_set_fuse_drop f m : dead (set fuse_drop f m) = dead m. Proof. reflexivity. Qed.
Lemma dd_set_fuse_action f m : dead (set fuse_action f m) = dead m. Proof. reflexivity. Qed.
Lemma dd_set_fuse_closure f m : dead (set fuse_closure f m) = dead m. Proof. reflexivity. Qed.
Lemma dd_set_panicking f m : dead (set panicking f m) = dead m. Proof. reflexivity. Qed.
Lemma dd_set_next_aid f m : dead (set next_aid f m) = dead m. Proof. reflexivity. Qed.
Lemma dd_set_heap f m : dead (set heap f m) = dead m. Proof. reflexivity. Qed.
Lemma dd_set_log f m : dead (set log f m) = dead m. Proof. reflexivity. Qed.
Lemma dd_set_dead f m : dead (set dead f m) = f (dead m). Proof. reflexivity. Qed.
Lemma dd_emit e m : dead (emit e m) = dead m. Proof. reflexivity. Qed.
Lemma dd_emit_bad b o m : dead (emit_bad b o m) = dead m. Proof. reflexivity. Qed.
Lemma dd_upd o f m : dead (upd o f m) = dead m. Proof. reflexivity. Qed.
Lemma dd_uhdr o f m : dead (uhdr o f m) = dead m. Proof. reflexivity. Qed.
Lemma dd_uside o f m : dead (uside o f m) = dead m. Proof. reflexivity. Qed.

#[export] Hint Rewrite dd_set_pc dd_set_pc_size dd_set_pc_alive dd_set_st_collecting
  dd_set_st_finalizing dd_set_st_dropping dd_set_st_alloc dd_set_st_exec dd_set_cf_thr
  dd_set_cf_pnum dd_set_cf_pexp dd_set_cf_buf dd_set_cf_auto dd_set_slots dd_set_wslots
  dd_set_cslots dd_set_values dd_set_bag dd_set_wparam dd_set_fuse_trace dd_set_fuse_fin
  dd_set_fuse_drop dd_set_fuse_action dd_set_fuse_closure dd_set_panicking dd_set_next_aid
  dd_set_heap dd_set_log dd_set_dead dd_emit dd_emit_bad dd_upd dd_uhdr dd_uside : cv.

Ltac dd_solve := intros; brk; cbn [fst snd]; autorewrite with cv; reflexivity.

Section Frame.
  Context (K : conf) (P : prog).
  Implicit Types (m : machine).

  Lemma dd_dec_size o m : dead (dec_size o m) = dead m.
  Proof. unfold dec_size. dd_solve. Qed.
  Hint Rewrite dd_dec_size : cv.
  Lemma dd_remove_from_list o m : dead (remove_from_list o m) = dead m.
  Proof. unfold remove_from_list. dd_solve. Qed.
  Lemma dd_add_to_list o m : dead (add_to_list o m) = dead m.
  Proof. unfold add_to_list. dd_solve. Qed.
  Lemma dd_dec_rc_m o m : dead (dec_rc_m o m) = dead m.
  Proof. unfold dec_rc_m. dd_solve. Qed.
  Lemma dd_dealloc o m : dead (dealloc K o m) = dead m.
  Proof. unfold dealloc. dd_solve. Qed.
  Lemma dd_sfree o m : dead (sfree o m) = dead m.
  Proof. unfold sfree. dd_solve. Qed.
  Hint Rewrite dd_remove_from_list dd_add_to_list dd_dec_rc_m dd_dealloc dd_sfree : cv.
  Lemma dd_drop_metadata o m : dead (drop_metadata K o m) = dead m.
  Proof. unfold drop_metadata. dd_solve. Qed.
  Lemma dd_init_side o m : dead (init_side o m) = dead m.
  Proof. unfold init_side. dd_solve. Qed.
  Lemma dd_weak_strong_count w m : dead (weak_strong_count w m).1 = dead m.
  Proof. unfold weak_strong_count. dd_solve. Qed.
  Lemma dd_weak_weak_count w m : dead (weak_weak_count w m).1 = dead m.
  Proof. unfold weak_weak_count. dd_solve. Qed.
  Lemma dd_weak_clone w m m' : weak_clone w m = Some m' -> dead m' = dead m.
  Proof. unfold weak_clone. intros E; revert E; brk; intros [= <-]; autorewrite with cv; reflexivity. Qed.
  Lemma dd_weak_drop w m : dead (weak_drop w m) = dead m.
  Proof. unfold weak_drop. dd_solve. Qed.
  Hint Rewrite dd_drop_metadata dd_init_side dd_weak_strong_count dd_weak_weak_count dd_weak_drop : cv.
  Lemma dd_weak_drop_opt w m : dead (weak_drop_opt w m) = dead m.
  Proof. unfold weak_drop_opt. dd_solve. Qed.
  Hint Rewrite dd_weak_drop_opt : cv.
  Lemma dd_node_via_slot i m : dead (node_via_slot i m).1 = dead m.
  Proof. unfold node_via_slot. dd_solve. Qed.
  Hint Rewrite dd_node_via_slot : cv.
  Lemma dd_resolve self l m : dead (resolve self l m).1 = dead m.
  Proof.
    unfold resolve. destruct l as [i|j|i j]; cbn [fst]; auto.
    - brk; reflexivity.
    - pose proof (dd_node_via_slot i m) as H.
      destruct (node_via_slot i m) as [m1 n]. cbn [fst] in H. brk; cbn [fst]; exact H.
  Qed.
  Lemma dd_wresolve self l m : dead (wresolve self l m).1 = dead m.
  Proof.
    unfold wresolve. destruct l as [i|j|i j|]; cbn [fst]; auto.
    - brk; reflexivity.
    - pose proof (dd_node_via_slot i m) as H.
      destruct (node_via_slot i m) as [m1 n]. cbn [fst] in H. brk; cbn [fst]; exact H.
  Qed.
  Lemma dd_nresolve self n m : dead (nresolve self n m).1 = dead m.
  Proof. unfold nresolve. dd_solve. Qed.
  Lemma dd_write_loc r v m : dead (write_loc r v m) = dead m.
  Proof. unfold write_loc. dd_solve. Qed.
  Lemma dd_write_wloc r v m : dead (write_wloc r v m) = dead m.
  Proof. unfold write_wloc. dd_solve. Qed.
  Hint Rewrite dd_resolve dd_wresolve dd_nresolve dd_write_loc dd_write_wloc : cv.
  Lemma dd_box_alloc o m : dead (box_alloc K o m) = dead m.
  Proof. unfold box_alloc. dd_solve. Qed.
  Lemma dd_set_fuse k n m : dead (set_fuse k n m) = dead m.
  Proof. unfold set_fuse. dd_solve. Qed.
  Hint Rewrite dd_box_alloc dd_set_fuse : cv.
  Lemma dd_tick k m : dead (tick k m).1 = dead m.
  Proof. unfold tick. dd_solve. Qed.
  Lemma dd_adjust m : dead (adjust K m) = dead m.
  Proof. unfold adjust. dd_solve. Qed.
  Hint Rewrite dd_tick dd_adjust : cv.
  Lemma dd_adjust_trigger_point m : dead (adjust_trigger_point K m) = dead m.
  Proof. unfold adjust_trigger_point. dd_solve. Qed.
  Lemma dd_fold {B} (f : machine -> B -> machine) :
    (forall m a, dead (f m a) = dead m) -> forall l m, dead (fold_left f l m) = dead m.
  Proof.
    intros Hf l. induction l as [|a l IH]; cbn; intros m; [reflexivity|]. rewrite IH. apply Hf.
  Qed.
  Lemma dd_unmark_all l m : dead (unmark_all l m) = dead m.
  Proof. unfold unmark_all. apply dd_fold. reflexivity. Qed.
  Lemma dd_new_node c m : dead (new_node P c m).1 = dead m. Proof. reflexivity. Qed.
  Lemma dd_new_map m : dead (new_map m).1 = dead m. Proof. reflexivity. Qed.
  Lemma dd_map_insert mo a s m : dead (map_insert mo a s m).1 = dead m.
  Proof. unfold map_insert. dd_solve. Qed.
  Lemma dd_trace_pass m : dead (trace_pass K P m).1 = dead m.
  Proof.
    destruct (trace_pass K P m) as [m' r] eqn:E. cbn [fst].
    pose proof (Pass.mf_rest K _ _ (Pass.pass_frame K P m m' r E)) as Hr. unfold Pass.mrest in Hr.
    rewrite Hr. reflexivity.
  Qed.
End Frame.

#[export] Hint Rewrite dd_dec_size dd_remove_from_list dd_add_to_list dd_dec_rc_m dd_dealloc
  dd_sfree dd_drop_metadata dd_init_side dd_weak_strong_count dd_weak_weak_count dd_weak_drop
  dd_weak_drop_opt dd_node_via_slot dd_resolve dd_wresolve dd_nresolve dd_write_loc
  dd_write_wloc dd_box_alloc dd_set_fuse dd_tick dd_adjust dd_adjust_trigger_point
  dd_unmark_all dd_new_node dd_new_map dd_map_insert dd_trace_pass : cv.
#[export] Hint Rewrite @dd_fold using (intros; autorewrite with cv; reflexivity) : cv.
