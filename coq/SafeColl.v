(** * SafeColl: part B of the safety layer (the collector activations): definitions.

    - [nofuel], [Q], [nfspec] come from SafeCollQ.v ([Q K A c m := BufStep.PreA K A c m /\ nofuel m]
      is the Buf-side precondition threaded through the combined induction of SafeFinal.v).
    - [strip] / [FrM]: part A's frame relation [Fr] "modulo list marks, tracing counters and the
      collecting flag": [FrM E m m' := Fr K E None (strip m) (strip m')].  Inside a collection marks
      come and go and the dying set grows, so all five inner collector calls are specified with
      [FrM]; [Fr] itself is recovered at the [KCollect] level ([SafeCollFr.Fr_unstrip]), where
      [st_collecting] is false before and after and no allocated object is list-marked.
    - [PreC] / [PostC]: the specification of the five inner collector calls. *)
From Coq Require Import NArith Bool List Lia.
From stdpp Require Import base list option.
From RecordUpdate Require Import RecordSet.
From RC Require Import Hdr Machine RunInd.
From RC Require BufBase BufPass BufStep Buf.
From RC Require Export SafeCollQ.
From RC Require Import Inv InvP SafeHelpers SafePrims SafeCalls SafeGlue SafeDrop SafeCmd SafeCyclic SafeMain.
Import ListNotations RecordSetNotations.
Local Open Scope N_scope.

Lemma not_dirty m : NoBad m -> nofuel m -> ~ BufBase.dirty m.
Proof.
  unfold NoBad, no_badU, nofuel, BufBase.dirty. intros H1 H2 H3.
  apply existsb_exists in H3 as (e & Hin & He).
  rewrite forallb_forall in H1, H2. specialize (H1 e Hin). specialize (H2 e Hin).
  destruct e as [| | | | | | | | |b o]; try discriminate. destruct b; cbn in *; discriminate.
Qed.

Lemma G_Ibuf K A m : BufBase.G K A m -> NoBad m -> nofuel m -> BufBase.Ibuf K A m.
Proof. intros [D|I] Hnb Hnf; [destruct (not_dirty m Hnb Hnf D) | exact I]. Qed.

Lemma noncoll_eq c : noncoll c = noncollector c.
Proof. destruct c; reflexivity. Qed.

Section Defs.
  Context (K : conf).

  (** ** The frame modulo marks *)
  Definition norm_hdr (h : hdr) : hdr :=
    Hdr (h_rc h) (if is_dropped h then tc_dropped else 0) NM (h_fin h) (h_side h).
  Definition norm_obj (x : obj) : obj :=
    match o_box x with BNotYet => x | _ => x <| o_hdr ::= norm_hdr |> end.
  Definition strip (m : machine) : machine :=
    m <| heap ::= fmap norm_obj |> <| st_collecting := false |>.
  Definition FrM (E : list id) (m m' : machine) : Prop := Fr K E None (strip m) (strip m').

  (** ** The lists handed to the finalization and drop passes *)
  Definition Member (m : machine) (g : id) : Prop :=
    exists x, get m g = Some x /\ o_box x = BAlloc /\ o_vst x = VLive /\ inD m g = false /\
              h_mark (o_hdr x) = IL.
  (** no handle outside the list points into the list *)
  Definition DeadClosed (L : list id) (m : machine) : Prop :=
    forall o, o ∈ L -> forall h c, hloc m h c o -> exists p, h = Some p /\ p ∈ L.
  Definition ClosedL (L E : list id) (m : machine) : Prop :=
    (forall o, o ∈ L -> cnt_id o E = 0%nat) /\ DeadClosed L m.

  Definition DMember (rest : list id) (m : machine) (g : id) : Prop :=
    inD m g = true /\ exists x, get m g = Some x /\ o_box x = BAlloc /\ h_mark (o_hdr x) = IL /\
      if decide (g ∈ rest) then o_vst x = VLive else o_vst x = VDropped.
  (** the members not yet dropped only point, inside the dying set, to members *)
  Definition TargetsIn (L rest : list id) (m : machine) : Prop :=
    forall g x t, g ∈ rest -> get m g = Some x ->
      ((exists j, o_fields x !! j = Some (Some t)) \/ o_cleaner x = Some t) -> inD m t = true -> t ∈ L.

  Definition Base (b : bool) (E A : list id) (coll : bool) (m : machine) : Prop :=
    NoBad m /\ SInv K b E [] m /\ st_collecting m = coll /\ BufBase.Ibuf K A m /\ nofuel m.

  Definition PreC (b : bool) (E : list id) (c : call) (m : machine) : Prop :=
    match c with
    | KCollect => Base b E [] false m
    | KCollectLoop _ | KCollectOnce => Base b E [] true m
    | KFinalizeList L rest any old_f =>
      Base b E L true m /\ NoDup L /\ (exists done, L = done ++ rest) /\
      (forall g, g ∈ L -> Member m g) /\ (any = false -> ClosedL L E m)
    | KDropList L rest old_d =>
      Base b E L true m /\ NoDup L /\ (exists done, L = done ++ rest) /\
      (forall g, g ∈ L -> cnt_id g E = 0%nat /\ DMember rest m g) /\
      DeadClosed L m /\ TargetsIn L rest m
    | _ => True
    end.

  (** what the drop pass guarantees about its list when it returns or unwinds *)
  Definition LDone (L : list id) (m' : machine) : Prop :=
    forall o x', o ∈ L -> get m' o = Some x' -> o_box x' = BAlloc -> k_weak K = true ->
                 is_dropped (o_hdr x') = true.
  Definition LDropped (L : list id) (m' : machine) : Prop :=
    forall o, o ∈ L -> exists x', get m' o = Some x' /\ o_vst x' = VDropped.

  Definition PostC (b : bool) (E : list id) (c : call) (m m' : machine) (r : outcome) : Prop :=
    match r with
    | ONormal | OPanic =>
      NoBad m' /\ SInv K (match r with ONormal => b | _ => false end) E [] m' /\
      match c with
      | KCollect => Fr K E None m m'
      | _ => FrM E m m'
      end /\ (r = ONormal -> NewDeadDropped m m') /\
      match c with
      | KDropList L _ _ => LDone L m' /\ (r = ONormal -> LDropped L m')
      | _ => True
      end
    | _ => True
    end.

  Lemma PostC_fuel b E c m : PostC b E c m m OFuel.
  Proof. exact I. Qed.

  Lemma Post_fuel b E c m m' : Post K PostC b E c m m' OFuel.
  Proof. destruct c; exact I. Qed.
End Defs.
