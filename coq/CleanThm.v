(** * CleanThm: property C10 ("cleaning actions run at most once, exactly once by the time the
    Cleaner is gone") - the theorems. *)
From Coq Require Import NArith Bool List Lia.
From stdpp Require Import base list option.
From RecordUpdate Require Import RecordSet.
From RC Require Import Hdr Machine RunInd Clean CleanFrame CleanStep CleanStep2.
Import ListNotations RecordSetNotations.

(** ** The invariant, on machine states *)
Definition CI (m : machine) : Prop := CIv (cv m).

(** all stored aids, object by object, slot by slot *)
Definition slot_aid (s : mslot) : option nat :=
  match s with MAction a _ => Some a | MVacant => None end.
Definition all_aids (m : machine) : list nat :=
  flat_map (fun x => omap slot_aid (o_mslots x)) (heap m).

Record CI_spelled (m : machine) : Prop := {
  cis_lt : forall o k a s, slot_at m o k = Some (MAction a s) -> a < next_aid m;
  cis_inj : forall o k a s o' k' s',
      slot_at m o k = Some (MAction a s) -> slot_at m o' k' = Some (MAction a s') ->
      o = o' /\ k = k';
  cis_nx : forall o k a s, slot_at m o k = Some (MAction a s) -> a ∉ executed_aids (log m);
  cis_xnd : NoDup (executed_aids (log m));
  cis_xlt : forall a, a ∈ executed_aids (log m) -> a < next_aid m;
  cis_obj : forall o x, heap m !! o = Some x ->
      (o_ismap x = false -> o_mslots x = [] /\ o_mfree x = []) /\
      NoDup (o_mfree x) /\
      (forall i, i ∈ o_mfree x -> o_mslots x !! i = Some MVacant) /\
      (forall mo, o_cleaner x = Some mo -> exists y, heap m !! mo = Some y /\ o_ismap y = true);
  (* a map belongs to at most one Cleaner *)
  cis_cl_inj : forall y y' x x' mo, heap m !! y = Some x -> heap m !! y' = Some x' ->
      o_cleaner x = Some mo -> o_cleaner x' = Some mo -> y = y' }.

Lemma CI_spell m : CI m -> CI_spelled m.
Proof.
  intros [A B C D E F G]. constructor.
  - intros o k a s H. rewrite <- slotv_cv in H. exact (A _ _ _ _ H).
  - intros o k a s o' k' s' H H'. rewrite <- slotv_cv in H, H'. exact (B _ _ _ _ _ _ _ H H').
  - intros o k a s H. rewrite <- slotv_cv in H. exact (C _ _ _ _ H).
  - exact D.
  - exact E.
  - intros o x Hx. destruct (F o (view_obj x) (cv_h_lookup m o x Hx)) as [(L1 & L2 & L3) Hc].
    split; [exact L1|]. split; [exact L2|]. split; [exact L3|].
    intros mo Hmo. destruct (Hc mo Hmo) as (w & Hw & Ew).
    destruct (cv_h_lookup_inv _ _ _ Hw) as (y & Hy & ->). exists y. split; [exact Hy|exact Ew].
  - intros y y' x x' mo Hy Hy' Hc Hc'. apply (G y y' mo).
    + rewrite (cleaner_at_Some _ _ _ (cv_h_lookup m y x Hy)). exact Hc.
    + rewrite (cleaner_at_Some _ _ _ (cv_h_lookup m y' x' Hy')). exact Hc'.
Qed.

(** (b) as a [NoDup] statement *)
Lemma NoDup_omap_slots (l : list mslot) :
  (forall i j a s s', l !! i = Some (MAction a s) -> l !! j = Some (MAction a s') -> i = j) ->
  NoDup (omap slot_aid l).
Proof.
  induction l as [|sl l IH]; intros Hinj; [constructor|].
  assert (IH' : NoDup (omap slot_aid l)).
  { apply IH. intros i j a s s' Hi Hj. specialize (Hinj (S i) (S j) a s s' Hi Hj). lia. }
  destruct sl as [|a s]; cbn; [exact IH'|].
  apply list.NoDup_cons. split; [|exact IH'].
  intros Hin. apply elem_of_list_omap in Hin. destruct Hin as (sl & Hsl & Ea).
  destruct sl as [|a' s']; [discriminate|]. injection Ea as ->.
  apply elem_of_list_lookup in Hsl. destruct Hsl as (i & Hi).
  specialize (Hinj 0 (S i) a s s' eq_refl Hi). discriminate.
Qed.

Lemma NoDup_flat_map_aids (h : list obj) (base : nat) :
  (forall o k a s o' k' s' x x',
      h !! o = Some x -> o_mslots x !! k = Some (MAction a s) ->
      h !! o' = Some x' -> o_mslots x' !! k' = Some (MAction a s') -> o = o' /\ k = k') ->
  NoDup (flat_map (fun x => omap slot_aid (o_mslots x)) h).
Proof.
  clear base. induction h as [|x h IH]; intros Hinj; [constructor|]. cbn [flat_map].
  apply NoDup_app. split; [|split].
  - apply NoDup_omap_slots. intros i j a s s' Hi Hj.
    exact (proj2 (Hinj 0 i a s 0 j s' x x eq_refl Hi eq_refl Hj)).
  - intros a Ha Hin. apply elem_of_list_omap in Ha. destruct Ha as (sl & Hsl & Ea).
    destruct sl as [|a' s]; [discriminate|]. injection Ea as ->.
    apply elem_of_list_lookup in Hsl. destruct Hsl as (i & Hi).
    apply elem_of_list_In, in_flat_map in Hin. destruct Hin as (x' & Hx' & Hin).
    apply elem_of_list_In, elem_of_list_lookup in Hx'. destruct Hx' as (o' & Ho').
    apply elem_of_list_In, elem_of_list_omap in Hin. destruct Hin as (sl & Hsl & Ea).
    destruct sl as [|a' s']; [discriminate|]. injection Ea as ->.
    apply elem_of_list_lookup in Hsl. destruct Hsl as (j & Hj).
    destruct (Hinj 0 i a s (S o') j s' x x' eq_refl Hi Ho' Hj) as [E _]. discriminate.
  - apply IH. intros o k a s o' k' s' y y' Ho Hk Ho' Hk'.
    destruct (Hinj (S o) k a s (S o') k' s' y y' Ho Hk Ho' Hk') as [E1 E2]. split; [lia|exact E2].
Qed.

Lemma CI_all_aids_NoDup m : CI m -> NoDup (all_aids m).
Proof.
  intros HI. apply CI_spell in HI. unfold all_aids. apply (NoDup_flat_map_aids _ 0).
  intros o k a s o' k' s' x x' Ho Hk Ho' Hk'. apply (cis_inj _ HI o k a s o' k' s').
  - unfold slot_at. rewrite Ho. exact Hk.
  - unfold slot_at. rewrite Ho'. exact Hk'.
Qed.

(** ** The invariant holds after every program *)
Lemma CI_init K : CI (init K).
Proof.
  unfold CI, cv, init. cbn. constructor; cbn [cv_h cv_n cv_x].
  - intros o k a s H. unfold slotv in H. rewrite lookup_nil in H. discriminate.
  - intros o k a s o' k' s' H. unfold slotv in H. rewrite lookup_nil in H. discriminate.
  - intros o k a s H. unfold slotv in H. rewrite lookup_nil in H. discriminate.
  - constructor.
  - intros a H. inversion H.
  - intros o v H. rewrite lookup_nil in H. discriminate.
  - intros y y' mo H. unfold cleaner_at in H. rewrite lookup_nil in H. discriminate.
Qed.

Lemma CI_exec_top K P fuel c m : CI m -> CI (exec_top K P fuel c m).
Proof.
  intros HI. unfold exec_top.
  pose proof (run_clean K P fuel (KCmd None c) m (conj HI I)) as [HR _].
  destruct (run K P fuel (KCmd None c) m) as [m' r]. cbn [fst snd] in HR.
  apply res_RelW, RelW_CIv in HR. cbn [fst] in HR. unfold CI.
  destruct r; cvs; exact HR.
Qed.

Theorem prog_CI K P fuel cmds :
  CI (fold_left (fun m c => exec_top K P fuel c m) cmds (init K)).
Proof.
  generalize (CI_init K). generalize (init K). induction cmds as [|c cmds IH]; intros m HI; cbn.
  - exact HI.
  - apply IH, CI_exec_top, HI.
Qed.

Theorem prog_CI_spelled K P fuel cmds :
  let m := fold_left (fun m c => exec_top K P fuel c m) cmds (init K) in
  CI_spelled m /\ NoDup (all_aids m).
Proof.
  intros m. split; [apply CI_spell|apply CI_all_aids_NoDup]; apply prog_CI.
Qed.

(** ** Theorem 1: every action runs at most once, ever (whatever panicked, aborted or ran out
    of fuel on the way) *)
Theorem C10_once K P fuel cmds :
  let m := fold_left (fun m c => exec_top K P fuel c m) cmds (init K) in
  NoDup (executed_aids (log m)).
Proof. intros m. exact (ci_xnd _ (prog_CI K P fuel cmds)). Qed.

(** ... and an action that is still registered has not run, so it will run at most once. *)
Theorem C10_stored_not_run K P fuel cmds :
  let m := fold_left (fun m c => exec_top K P fuel c m) cmds (init K) in
  forall o k a s, slot_at m o k = Some (MAction a s) -> a ∉ executed_aids (log m).
Proof. intros m. exact (cis_nx _ (CI_spell _ (prog_CI K P fuel cmds))). Qed.

(** ** New events of a step: none of them is the execution of an action *)
Definition quiet_ext (l l' : list event) : Prop :=
  exists evs, l' = evs ++ l /\ Forall (fun e => aid_of_ev e = None) evs.
Lemma quiet_ext_refl l : quiet_ext l l.
Proof. exists []. split; [reflexivity|constructor]. Qed.
Lemma quiet_ext_cons e l l' : aid_of_ev e = None -> quiet_ext l l' -> quiet_ext l (e :: l').
Proof. intros He (evs & -> & H). exists (e :: evs). split; [reflexivity|constructor; assumption]. Qed.

(** what the cleaner view says about slots, spelled out *)
Lemma cv_eq_spelled m m' :
  cv m' = cv m ->
  executed_aids (log m') = executed_aids (log m) /\
  (o_mslots <$> heap m') = (o_mslots <$> heap m) /\
  (o_mfree <$> heap m') = (o_mfree <$> heap m) /\
  next_aid m' = next_aid m.
Proof.
  intros E. unfold cv in E. injection E as Eh En Ex.
  split; [exact Ex|]. split; [|split; [|exact En]].
  - pose proof (f_equal (fmap v_slots) Eh) as H. rewrite <- !list_fmap_compose in H. exact H.
  - pose proof (f_equal (fmap v_free) Eh) as H. rewrite <- !list_fmap_compose in H. exact H.
Qed.

(** ** Theorem 2: dropping a Cleanable neither runs nor cancels its action *)
Theorem C10_cdrop_neutral K self c m :
  let m' := (cmd_c_drop K self c m).1 in
  quiet_ext (log m) (log m') /\
  executed_aids (log m') = executed_aids (log m) /\
  (o_mslots <$> heap m') = (o_mslots <$> heap m) /\
  (o_mfree <$> heap m') = (o_mfree <$> heap m) /\
  next_aid m' = next_aid m.
Proof.
  intros m'. split.
  - unfold m', cmd_c_drop, ok, weak_drop, sfree, uside, emit_bad, emit, upd, get.
    brk; cbn; repeat first [apply quiet_ext_refl | apply quiet_ext_cons; [reflexivity|]].
  - apply cv_eq_spelled. unfold m', cmd_c_drop, ok. brk; cbn [fst]; cvs; reflexivity.
Qed.

(** ** Theorem 3: [clean()] on a Cleanable whose action is no longer in its slot (it ran, or the
    map is gone) is a no-op *)
Definition same_but_hdr (x y : obj) : Prop :=
  view_obj x = view_obj y /\ o_mborrowed x = o_mborrowed y /\ h_rc (o_hdr x) = h_rc (o_hdr y).

Lemma get_uhdr_eq o f m x :
  get (uhdr o f m) o = Some x -> exists y, get m o = Some y /\ x = y <| o_hdr ::= f |>.
Proof.
  unfold get, uhdr, upd. cbn. rewrite list_lookup_alter. unfold Machine.id in *.
  destruct (heap m !! o) as [y|]; [|discriminate]. intros [= <-]. eauto.
Qed.

Lemma heap_dec_size o m : heap (dec_size o m) = heap m.
Proof. unfold dec_size. destruct (pc_size m =? 0)%N; reflexivity. Qed.

Lemma get_remove_from_list o m x :
  get (remove_from_list o m) o = Some x -> exists y, get m o = Some y /\ same_but_hdr x y.
Proof.
  unfold remove_from_list. destruct (is_in_pc (hdr_of m o)); [destruct (pc_alive m)|].
  - unfold get at 1. rewrite heap_dec_size.
    change (heap (uhdr o (set_mark NM) m <| pc ::= remove_id o |>)) with (heap (uhdr o (set_mark NM) m)).
    intros H. apply get_uhdr_eq in H. destruct H as (y & Hy & ->). exists y.
    split; [exact Hy|]. repeat split.
  - intros H. exists x. split; [exact H|]. repeat split.
  - intros H. exists x. split; [exact H|]. repeat split.
Qed.

Lemma step_drop_cc_shared K P rec o m x :
  get m o = Some x -> (2 <= h_rc (o_hdr x))%N -> cv (step_drop_cc K P rec o m).1 = cv m.
Proof.
  intros Ex Hrc. unfold step_drop_cc. rewrite Ex.
  destruct (is_in_list_or_queue (o_hdr x)); [cbn [fst]; cvs; brk; cvs; reflexivity|].
  destruct (h_rc (o_hdr x) =? 1)%N eqn:E1; [apply N.eqb_eq in E1; lia|].
  cbn [fst]. cvs. brk; cvs; reflexivity.
Qed.

Lemma run_drop_cc_shared K P n o m x :
  get m o = Some x -> (2 <= h_rc (o_hdr x))%N -> cv (run K P n (KDropCc o) m).1 = cv m.
Proof.
  intros Ex Hrc. destruct n as [|n]; [reflexivity|]. cbn [run step].
  eapply step_drop_cc_shared; eassumption.
Qed.

Lemma wsc_spec o m :
  let r := weak_strong_count (WTo o) m in
  heap r.1 = heap m /\ (r.2 <> 0%N -> exists x, get m o = Some x /\ h_rc (o_hdr x) <> 0%N).
Proof.
  unfold weak_strong_count. destruct (get m o) as [x|] eqn:Ex; [|split; [reflexivity|intros H; contradiction]].
  destruct (o_side x) as [sd|]; [|split; [reflexivity|intros H; contradiction]].
  destruct (w_acc (sd_wk sd)).
  - match goal with |- context [if ?b then _ else _] => destruct b eqn:Eb end.
    + split; [brk; reflexivity|]. cbn [snd]. intros H; contradiction.
    + split; [brk; reflexivity|]. cbn [snd]. intros H. exists x. split; [reflexivity|exact H].
  - split; [brk; reflexivity|]. cbn [snd]. intros H; contradiction.
Qed.

Theorem C10_clean_after_noop K P fuel self c m cr :
  mjoin (cslots m !! c) = Some cr ->
  ((weak_strong_count (WTo (cr_map cr)) m).2 = 0%N \/
   (forall mx s, get m (cr_map cr) = Some mx ->
                 o_mslots mx !! cr_slot cr <> Some (MAction (cr_aid cr) s))) ->
  let m' := (run K P fuel (KCmd self (CClean c)) m).1 in
  executed_aids (log m') = executed_aids (log m) /\
  (o_mslots <$> heap m') = (o_mslots <$> heap m) /\
  (o_mfree <$> heap m') = (o_mfree <$> heap m) /\
  next_aid m' = next_aid m.
Proof.
  intros Ecr Hno m'. apply cv_eq_spelled. unfold m'. clear m'.
  destruct fuel as [|n]; [reflexivity|]. cbn [run step step_cmd]. unfold cmd_clean.
  destruct (negb (k_clean K)); [unfold ok; cbn [fst]; cvs; reflexivity|].
  rewrite Ecr. cbv zeta.
  pose proof (cv_weak_strong_count (WTo (cr_map cr)) m) as E0.
  pose proof (wsc_spec (cr_map cr) m) as [Hh0 Hsc]. cbv zeta in Hh0, Hsc.
  destruct (weak_strong_count (WTo (cr_map cr)) m) as [m0 sc]. cbn [fst snd] in *.
  destruct (sc =? 0)%N eqn:Esc; [unfold ok; cbn [fst]; cvs; exact E0|].
  apply N.eqb_neq in Esc. destruct Hno as [Hno|Hno]; [contradiction|].
  destruct (Hsc Esc) as (x & Ex & Hrc0).
  assert (Ex0 : get m0 (cr_map cr) = Some x) by (unfold get in *; rewrite Hh0; exact Ex).
  assert (Eh : hdr_of m0 (cr_map cr) = o_hdr x) by (unfold hdr_of; rewrite Ex0; reflexivity).
  rewrite Eh. unfold inc_rc.
  destruct (h_rc (o_hdr x) =? max_rc)%N; [cbn [fst]; exact E0|].
  set (h := set_rc (h_rc (o_hdr x) + 1) (o_hdr x)).
  set (m1 := remove_from_list (cr_map cr) (uhdr (cr_map cr) (fun _ => h) m0)).
  assert (E1 : cv m1 = cv m) by (unfold m1; cvs; exact E0).
  destruct (get m1 (cr_map cr)) as [mx|] eqn:Emx; [|cbn [fst]; cvs; exact E1].
  assert (Hmx : view_obj mx = view_obj x /\ o_mborrowed mx = o_mborrowed x /\
                (2 <= h_rc (o_hdr mx))%N).
  { unfold m1 in Emx. apply get_remove_from_list in Emx. destruct Emx as (y & Hy & (V1 & V2 & V3)).
    apply get_uhdr_eq in Hy. destruct Hy as (y0 & Hy0 & ->). rewrite Ex0 in Hy0. injection Hy0 as <-.
    split; [rewrite V1; reflexivity|]. split; [rewrite V2; reflexivity|].
    rewrite V3. cbn. lia. }
  destruct Hmx as (V1 & V2 & V3). clearbody m1.
  destruct (o_mborrowed mx).
  - (* the map is being cleaned further up the stack: only the temporary handle is dropped *)
    pose proof (run_drop_cc_shared K P n (cr_map cr) m1 mx Emx V3) as E2.
    destruct (run K P n (KDropCc (cr_map cr)) m1) as [m2 r2]. cbn [fst] in E2.
    destruct r2; unfold ok; cbn [fst]; cvs; congruence.
  - assert (Esl : forall s, o_mslots mx !! cr_slot cr <> Some (MAction (cr_aid cr) s)).
    { intros s. replace (o_mslots mx) with (o_mslots x)
        by (exact (f_equal v_slots (eq_sym V1))). apply (Hno x s Ex). }
    set (m2 := upd (cr_map cr) (fun x => x <| o_mborrowed := true |>) m1).
    assert (HX : (match o_mslots mx !! cr_slot cr with
                  | Some (MAction aid script) =>
                    if decide (aid = cr_aid cr) then
                      run K P n (KCleanRun (cr_map cr) aid script)
                          (upd (cr_map cr) (fun x => x <| o_mslots ::= <[cr_slot cr := MVacant]> |>
                                                       <| o_mfree ::= cons (cr_slot cr) |>) m2)
                    else (m2, ONormal)
                  | _ => (m2, ONormal)
                  end) = (m2, ONormal)).
    { destruct (o_mslots mx !! cr_slot cr) as [[|aid script]|] eqn:E; try reflexivity.
      destruct (decide (aid = cr_aid cr)) as [->|]; [|reflexivity]. exfalso. exact (Esl _ eq_refl). }
    rewrite HX. clear HX.
    set (m3 := upd (cr_map cr) (fun x => x <| o_mborrowed := false |>) m2).
    assert (E3 : cv m3 = cv m) by (unfold m3, m2; cvs; exact E1).
    assert (Emx3 : get m3 (cr_map cr)
                   = Some (mx <| o_mborrowed := true |> <| o_mborrowed := false |>)).
    { unfold m3, m2, get, upd. cbn. rewrite !list_lookup_alter. unfold get in Emx.
      unfold Machine.id in *. rewrite Emx. reflexivity. }
    pose proof (run_drop_cc_shared K P n (cr_map cr) m3 _ Emx3 V3) as E4.
    clearbody m3.
    destruct (run K P n (KDropCc (cr_map cr)) m3) as [m4 r4]. cbn [fst] in E4.
    destruct r4; unfold ok; cbn [fst]; cvs; congruence.
Qed.

(** ** Theorem 4: when the drop of a map value returns - normally or unwinding - every action
    that was stored in it has run exactly once, and every slot is vacant (or holds an action
    registered during the drop itself, see the report: excluded by a reachability argument that
    is not part of this invariant). *)
Lemma count_occ_NoDup_1 (l : list nat) a : NoDup l -> a ∈ l -> count_occ Nat.eq_dec l a = 1.
Proof.
  intros Hnd Hin. apply NoDup_ListNoDup in Hnd. apply elem_of_list_In in Hin.
  pose proof (proj1 (NoDup_count_occ Nat.eq_dec l) Hnd a) as H1.
  pose proof (proj1 (count_occ_In Nat.eq_dec l a) Hin) as H2. lia.
Qed.

Definition drained (m m' : machine) (o : nat) : Prop :=
  CI m' /\
  (forall k a s, slot_at m' o k = Some (MAction a s) -> next_aid m <= a) /\
  (forall k a s, slot_at m o k = Some (MAction a s) ->
                 a ∉ executed_aids (log m) /\
                 count_occ Nat.eq_dec (executed_aids (log m')) a = 1).

Lemma drained_intro m m' o r :
  CI m -> res (cv m) (m', r) -> r <> OFuel -> DMS o 0 (cv m) (cv m') -> drained m m' o.
Proof.
  intros HI HR Hr HD. apply res_Rel in HR; [|exact Hr]. destruct HR as ((HI' & _ & _) & HK1 & _).
  split; [exact HI'|]. split.
  - intros k a s H. rewrite <- slotv_cv in H. destruct (HD k a s H) as [[Hk _]|Hge]; [lia|exact Hge].
  - intros k a s H. rewrite <- slotv_cv in H. split; [exact (ci_nx _ HI _ _ _ _ H)|].
    apply count_occ_NoDup_1; [exact (ci_xnd _ HI')|].
    destruct (HK1 o k a s H) as [H'|Hx]; [|exact Hx].
    destruct (HD k a s H') as [[Hk _]|Hge]; [lia|].
    pose proof (ci_lt _ HI _ _ _ _ H). cbn in *. lia.
Qed.

(** Without any hypothesis on who names the map: every slot of the map is vacant *or holds an
    action registered while the map was being dropped* ([next_aid m <= a]); the full conclusion
    is [C10_drop_runs_all] below. *)
Theorem C10_drop_runs_all_partial K P rec o m x :
  rec_ok Pre Post rec -> CI m ->
  get m o = Some x -> o_ismap x = true -> o_vst x = VLive ->
  let m' := (step_drop_value K P rec o m).1 in
  let r := (step_drop_value K P rec o m).2 in
  (r = ONormal \/ r = OPanic) -> drained m m' o.
Proof.
  intros Hrec HI Ex Hmap Hvst m' r Hr.
  pose proof (f_step_drop_value K P rec Hrec o m (conj HI I)) as [HR HD].
  fold m' r in HR, HD. eapply drained_intro; [exact HI|exact HR| |].
  - destruct Hr as [-> | ->]; discriminate.
  - apply (HD Hr x Ex Hmap). left. exact Hvst.
Qed.

(** if no action was registered while the map was being dropped, every slot is vacant *)
Corollary drained_vacant m m' o :
  drained m m' o -> next_aid m' = next_aid m ->
  forall k sl, slot_at m' o k = Some sl -> sl = MVacant.
Proof.
  intros (HI' & Hfresh & _) En k [|a s] H; [reflexivity|].
  pose proof (cis_lt _ (CI_spell _ HI') _ _ _ _ H). pose proof (Hfresh _ _ _ H). lia.
Qed.

(** *** Theorem 4 at full strength.  Registration goes through the Cleaner of an accessible
    owner, so it cannot reach a map that no Cleaner names ([unlinked_m]); this is the state in
    which a map value is dropped by the crate ([C10_cleaner_drop_unlinked] below: the Cleaner's
    field is cleared before its handle is released).  Without that hypothesis the conclusion
    "every slot is vacant" is false in the model: [CleanEx.ex_linked_drop_refills]. *)
Definition unlinked_m (m : machine) (o : id) : Prop :=
  forall y x, get m y = Some x -> o_cleaner x <> Some o.

Lemma unlinked_cv m o : unlinked_m m o -> unlinked (cv_h (cv m)) o.
Proof.
  intros Hu y Hy. unfold cleaner_at in Hy. destruct (cv_h (cv m) !! y) as [w|] eqn:Hw; [|discriminate].
  destruct (cv_h_lookup_inv _ _ _ Hw) as (x & Hx & ->). exact (Hu y x Hx Hy).
Qed.
Lemma unlinked_cv_inv m o : unlinked (cv_h (cv m)) o -> unlinked_m m o.
Proof.
  intros Hu y x Hx Hc. apply (Hu y). rewrite (cleaner_at_Some _ _ _ (cv_h_lookup _ _ _ Hx)). exact Hc.
Qed.

Definition all_vacant (m : machine) (o : nat) : Prop :=
  forall k sl, slot_at m o k = Some sl -> sl = MVacant.

Lemma all_vacant_intro m m' o x r :
  CI m -> res (cv m) (m', r) -> DMS o 0 (cv m) (cv m') ->
  get m o = Some x -> unlinked_m m o -> all_vacant m' o.
Proof.
  intros HI HR HD Ex Hu k [|a s] H; [reflexivity|]. exfalso.
  apply res_RelW in HR. cbn [fst] in HR. destruct HR as (_ & (_ & _ & _ & _ & _ & HKU) & _).
  assert (Ho : o < length (cv_h (cv m))) by (eapply lookup_lt_Some, cv_h_lookup, Ex).
  destruct (HKU o Ho (unlinked_cv _ _ Hu)) as [_ Hs].
  rewrite <- slotv_cv in H. pose proof (Hs _ _ _ H) as H0.
  pose proof (ci_lt _ HI _ _ _ _ H0) as Hlt.
  destruct (HD k a s H) as [[Hk _]|Hge]; [lia|]. cbn in *. lia.
Qed.

Theorem C10_drop_runs_all K P rec o m x :
  rec_ok Pre Post rec -> CI m ->
  get m o = Some x -> o_ismap x = true -> o_vst x = VLive -> unlinked_m m o ->
  let m' := (step_drop_value K P rec o m).1 in
  let r := (step_drop_value K P rec o m).2 in
  (r = ONormal \/ r = OPanic) -> drained m m' o /\ all_vacant m' o.
Proof.
  intros Hrec HI Ex Hmap Hvst Hu m' r Hr.
  pose proof (f_step_drop_value K P rec Hrec o m (conj HI I)) as [HR HD].
  fold m' r in HR, HD.
  assert (HD0 : DMS o 0 (cv m) (cv m')) by (apply (HD Hr x Ex Hmap); left; exact Hvst).
  split.
  - eapply drained_intro; [exact HI|exact HR| |exact HD0]. destruct Hr as [-> | ->]; discriminate.
  - eapply all_vacant_intro; eassumption.
Qed.

(** ** Theorem 5: the link to "by the time the Cleaner's drop returns".  The Cleaner's drop is
    [Cc::drop] of its handle on the map ([step_drop_fields] -> [KDropCc mo]).  When that handle
    is the last one ([h_rc = 1]) the map value is dropped there and then: all its actions have
    run exactly once when [Cc::drop] returns.

    Known finding F5 (see [C10_refuted_F5] below): if a [clean()] of the same map is in
    progress further up the call stack, its temporary upgraded handle makes [h_rc = 2]; the
    Cleaner's own handle is then only decremented (the map gets buffered in POSSIBLE_CYCLES)
    and the remaining actions run when that outer [clean()] returns and drops its handle -
    still exactly once (Theorems 1 and 4), but after the Cleaner's drop has returned. *)
Lemma get_upd_eq o f m x : get m o = Some x -> get (upd o f m) o = Some (f x).
Proof.
  unfold get, upd. cbn. rewrite list_lookup_alter. unfold Machine.id in *. intros ->. reflexivity.
Qed.
Lemma get_dec_rc_m o m x :
  get m o = Some x -> exists y, get (dec_rc_m o m) o = Some y /\ o_ismap y = o_ismap x /\ o_vst y = o_vst x.
Proof.
  intros Ex. unfold dec_rc_m. destruct (dec_rc (hdr_of m o)).
  - eexists. split; [apply get_upd_eq, Ex|]. split; reflexivity.
  - exists x. split; [exact Ex|]. split; reflexivity.
Qed.
Lemma get_remove_from_list' o m x :
  get m o = Some x ->
  exists y, get (remove_from_list o m) o = Some y /\ o_ismap y = o_ismap x /\ o_vst y = o_vst x.
Proof.
  intros Ex. unfold remove_from_list. destruct (is_in_pc (hdr_of m o)); [destruct (pc_alive m)|].
  - unfold get at 1. rewrite heap_dec_size.
    change (heap (uhdr o (set_mark NM) m <| pc ::= remove_id o |>)) with (heap (uhdr o (set_mark NM) m)).
    eexists. split; [apply (get_upd_eq o _ m x Ex)|]. split; reflexivity.
  - exists x. split; [exact Ex|]. split; reflexivity.
  - exists x. split; [exact Ex|]. split; reflexivity.
Qed.

Theorem C10_exactly_partial K P rec mo m x :
  rec_ok Pre Post rec -> CI m ->
  get m mo = Some x -> o_ismap x = true -> o_vst x = VLive ->
  h_rc (o_hdr x) = 1%N -> is_in_list_or_queue (o_hdr x) = false -> unlinked_m m mo ->
  let m' := (step_drop_cc K P rec mo m).1 in
  (step_drop_cc K P rec mo m).2 = ONormal -> drained m m' mo /\ all_vacant m' mo.
Proof.
  intros Hrec HI Ex Hmap Hvst Hrc Hmark Hu m'.
  unfold m'. clear m'. unfold step_drop_cc. rewrite Ex, Hmark, Hrc. cbn [N.eqb Pos.eqb]. rewrite Hmap.
  set (m0 := match o_box x with BAlloc => m | _ => emit_bad UseAfterFree mo m end).
  assert (E0 : cv m0 = cv m) by (unfold m0; brk; cvs; reflexivity).
  assert (Ex0 : get m0 mo = Some x) by (unfold m0; brk; exact Ex).
  clearbody m0.
  (* the finalization step: CleanerMap's Finalize is empty, the count stays 1 *)
  set (FS := if k_fin K && needs_fin (o_hdr x) then _ else _).
  assert (HFS : exists m1, FS = (m1, ONormal, true) /\ cv m1 = cv m /\
                           exists x1, get m1 mo = Some x1 /\ o_ismap x1 = true /\ o_vst x1 = VLive).
  { unfold FS. destruct (k_fin K && needs_fin (o_hdr x)).
    - set (m1 := uhdr mo (set_fin true) (m0 <| st_finalizing := true |>)).
      assert (Ex1 : get m1 mo = Some (x <| o_hdr ::= set_fin true |>))
        by (unfold m1, uhdr; apply (get_upd_eq mo _ (m0 <| st_finalizing := true |>) x Ex0)).
      assert (Erc : (h_rc (hdr_of m1 mo) =? 1)%N = true)
        by (unfold hdr_of; rewrite Ex1; cbn; rewrite Hrc; reflexivity).
      rewrite Erc. eexists. split; [reflexivity|]. split; [unfold m1; cvs; exact E0|].
      eexists. split; [exact Ex1|]. split; assumption.
    - exists m0. split; [reflexivity|]. split; [exact E0|]. exists x. auto. }
  destruct HFS as (m1 & -> & E1 & x1 & Ex1 & Hmap1 & Hvst1). cbn [negb]. cbv iota beta.
  destruct (get_dec_rc_m mo m1 x1 Ex1) as (x2 & Ex2 & Hmap2 & Hvst2).
  destruct (get_remove_from_list' mo _ x2 Ex2) as (x3 & Ex3 & Hmap3 & Hvst3).
  set (m3 := remove_from_list mo (dec_rc_m mo m1)) in *.
  assert (E3 : cv m3 = cv m) by (unfold m3; cvs; exact E1). clearbody m3.
  set (m4 := if k_weak K then uhdr mo set_dropped (m3 <| st_dropping := true |>)
             else m3 <| st_dropping := true |>).
  assert (E4 : cv m4 = cv m) by (unfold m4; brk; cvs; exact E3).
  assert (Ex4 : exists x4, get m4 mo = Some x4 /\ o_ismap x4 = true /\ o_vst x4 = VLive).
  { unfold m4. destruct (k_weak K).
    - eexists. split; [apply (get_upd_eq mo _ (m3 <| st_dropping := true |>) x3 Ex3)|].
      cbn. split; congruence.
    - exists x3. split; [exact Ex3|]. split; congruence. }
  destruct Ex4 as (x4 & Ex4 & Hmap4 & Hvst4). clearbody m4.
  assert (HP : Pre (KDropValue mo) m4) by (split; [rewrite E4; exact HI|exact I]).
  pose proof (Hrec _ _ HP) as [HR HD]. rewrite E4 in HR, HD.
  destruct (rec (KDropValue mo) m4) as [m5 r5]. cbn [fst snd] in *.
  destruct r5; cbn [fst snd]; intros Hr; try discriminate.
  assert (HD' : DMS mo 0 (cv m) (cv m5)) by (apply (HD (or_introl eq_refl) x4 Ex4 Hmap4); left; exact Hvst4).
  assert (HR' : res (cv m) (dealloc K mo (drop_metadata K mo m5) <| st_dropping := st_dropping m3 |>, ONormal))
    by (unfold res in *; cbn [fst snd] in *; cvs; exact HR).
  assert (HD'' : DMS mo 0 (cv m) (cv (dealloc K mo (drop_metadata K mo m5) <| st_dropping := st_dropping m3 |>)))
    by (cvs; exact HD').
  split.
  - eapply (drained_intro m _ mo ONormal); [exact HI|exact HR'|discriminate|exact HD''].
  - eapply all_vacant_intro; eassumption.
Qed.

(** The Cleaner's drop ([step_drop_fields] past the last field): the Cleaner field is cleared
    first, so the map whose handle is then released is named by no Cleaner. *)
Theorem C10_cleaner_drop_unlinked rec o j m x t :
  CI m -> get m o = Some x -> ~ (j < length (o_fields x)) -> o_cleaner x = Some t ->
  exists m1, step_drop_fields rec o j m = rec (KDropCc t) m1 /\
             CI m1 /\ unlinked_m m1 t /\
             (forall k, slot_at m1 t k = slot_at m t k) /\
             executed_aids (log m1) = executed_aids (log m) /\ next_aid m1 = next_aid m.
Proof.
  intros HI Ex Hj Ect. unfold step_drop_fields. rewrite Ex.
  destruct (decide (j < length (o_fields x))) as [Hlt|_]; [contradiction|]. cbv zeta. rewrite Ect.
  eexists. split; [reflexivity|].
  match goal with |- CI ?M /\ _ => set (m1 := M) end.
  assert (E1 : cv m1 = CV (alter (set_cl None) o (cv_h (cv m))) (cv_n (cv m)) (cv_x (cv m))).
  { unfold m1. rewrite (cv_upd_alter _ (set_cl None)) by reflexivity. cvs. reflexivity. }
  clearbody m1.
  assert (HR : Rel (cv m) (cv m1)) by (rewrite E1; apply Rel_clear_cl', HI).
  split; [exact (Rel_CIv _ _ HR)|]. split; [|split; [|split]].
  - apply unlinked_cv_inv. rewrite E1. cbn [cv_h]. intros y Hy. unfold cleaner_at in Hy.
    destruct (Nat.eq_dec y o) as [->|Hne].
    + rewrite list_lookup_alter in Hy. unfold Machine.id in *.
      destruct (cv_h (cv m) !! o); cbn in Hy; discriminate.
    + rewrite list_lookup_alter_ne in Hy by congruence. apply Hne.
      apply (ci_cl_inj _ HI y o t Hy).
      rewrite (cleaner_at_Some _ _ _ (cv_h_lookup _ _ _ Ex)). exact Ect.
  - intros k. rewrite <- !slotv_cv, E1. cbn [cv_h]. apply slotv_set_cl.
  - exact (f_equal cv_x E1).
  - exact (f_equal cv_n E1).
Qed.

(** ** F5, concretely: corpus/f5_cleaner_deferred_actions.prog.  Class 1 has a Cleaner; action 0
    (registered first) drops the owner, action 1 observes.  [clean 0] runs action 0, which drops
    the owner - its Drop runs, its box is freed, its Cleaner's handle on the map is dropped -
    and only then, when [clean 0] itself returns, does action 1 run. *)
Definition f5_conf : conf := Conf true true true true true 200 8 80 8 100.
Definition f5_prog : prog :=
  Prog [Cls 2 [true; true] 1 false None None; Cls 0 [] 0 true None None]
       [[CDrop (LS 0)]; [CSObs]]
       [CCfgAuto false; CNew (LS 0) 1; CRegister (NSlot 0) 0 0; CRegister (NSlot 0) 1 1; CSObs;
        CClean 0; CSObs; CClean 1].
Definition f5_key (e : event) : bool :=
  match e with ECb KAction _ _ | ECb KDrop _ _ | EFree _ _ _ => true | _ => false end.
(** oldest event first *)
Definition f5_trace : list event :=
  List.filter f5_key (rev (log (run_main f5_conf f5_prog 40 (init f5_conf)))).

Example C10_refuted_F5 :
  f5_trace =
  [ ECb KAction 0 (Flags false false false false);   (* clean 0 runs action 0 ...        *)
    ECb KDrop 0 (Flags false false true false);      (* ... which drops the owner (0) ... *)
    EFree 0 200 8;                                   (* ... whose drop - Cleaner included - returns *)
    ECb KAction 1 (Flags false false true false);    (* action 1 runs only now            *)
    EFree 1 80 8 ]                                   (* and the map is freed              *)
  /\ ~ In (EBad Fuel 0) (log (run_main f5_conf f5_prog 40 (init f5_conf))).
Proof. vm_compute. split; [reflexivity|]. intuition discriminate. Qed.
