(** * LifeSd2: side records, the primitive steps ([sfree], [init_side], [dealloc], [box_alloc],
    new objects). *)
From Coq Require Import NArith Bool List Lia.
From stdpp Require Import base list option.
From RecordUpdate Require Import RecordSet.
From RC Require Import Hdr Machine RunInd Flags.
From RC Require Import Inv InvP LifeInv LifeInv2 LifeSd.
Import ListNotations RecordSetNotations.
Local Open Scope N_scope.

Definition only_so (o : id) (k : list event) : Prop :=
  Forall (fun e => ev_side e = false \/ evs_id e = Some o) k.

Lemma other_isSA o o' e : o' <> o -> ev_side e = false \/ evs_id e = Some o -> isSA o' e = false.
Proof.
  intros Hne [H|H]; [apply ns_isSA, H|]. destruct e; cbn in *; try reflexivity; try discriminate;
    injection H as ->; apply Nat.eqb_neq; congruence.
Qed.
Lemma other_isSF o o' e : o' <> o -> ev_side e = false \/ evs_id e = Some o -> isSF o' e = false.
Proof.
  intros Hne [H|H]; [apply ns_isSF, H|]. destruct e; cbn in *; try reflexivity; try discriminate;
    injection H as ->; apply Nat.eqb_neq; congruence.
Qed.

Section Tr.
  Context (mu : id).
  Notation G := (G mu).
  Notation SLs := (SLs mu).

  Lemma cnt_other_s (p : id -> event -> bool) o o' k l :
    (forall e, ev_side e = false \/ evs_id e = Some o -> p o' e = false) ->
    only_so o k -> cntE (p o') (k ++ l) = cntE (p o') l.
  Proof.
    intros Hp Hk. rewrite cntE_app, (cntE_none (p o') k); [reflexivity|].
    eapply Forall_impl; [|exact Hk]. exact Hp.
  Qed.

  Lemma OKs_other m m' o o' x x' k : o' <> o -> log m' = k ++ log m -> only_so o k ->
    sv x' = sv x -> OKs m o' x -> OKs m' o' x'.
  Proof.
    intros Hne E Hk Hl [H1 H2 H3]. unfold sv in Hl. injection Hl as Hs Hh Hn Hc.
    split; rewrite ?E, ?(cnt_other_s isSA o o' k _ (fun e => other_isSA o o' e Hne) Hk),
             ?(cnt_other_s isSF o o' k _ (fun e => other_isSF o o' e Hne) Hk), ?Hs, ?Hh; assumption.
  Qed.

  Lemma SLs_one n0 m o f k x :
    get m o = Some x -> only_so o k ->
    (G (emits k (upd o f m)) -> G m) ->
    (SLinv m -> lwfS (k ++ log m) /\ OKs (emits k (upd o f m)) o (f x)) ->
    ((o < n0)%nat -> FS x -> FS (f x)) ->
    (forall t, o_cleaner (f x) = Some t -> o_cleaner x = Some t \/ (n0 <= t)%nat) ->
    SLs n0 m (emits k (upd o f m)).
  Proof.
    intros Hx Hk HGb Hok HF HC. set (m' := emits k (upd o f m)).
    assert (Hoth : forall o', o' <> o -> get m' o' = get m o').
    { intros o' Hne. unfold m'. change (get (emits k (upd o f m)) o') with (get (upd o f m) o'). apply get_upd_ne. exact Hne. }
    assert (Hx' : get m' o = Some (f x)) by (apply (get_upd_eq o f m x Hx)).
    assert (HL : length (heap m') = length (heap m)) by apply len_upd.
    split; [exact HGb|]. split.
    - intros _ HI. destruct (Hok HI) as [Hw Ho]. destruct HI as (W & S & HO). split; [exact Hw|]. split.
      + intros e o1 Hin Hid. rewrite HL. change (log m') with (k ++ log m) in Hin.
        apply in_app_iff in Hin as [Hin|Hin]; [|eapply S; eauto].
        unfold only_so in Hk. rewrite Forall_forall in Hk. destruct (Hk _ Hin) as [Hr|Hi].
        * rewrite (ns_id _ Hr) in Hid. discriminate.
        * assert (o1 = o) by congruence. subst o1. apply lookup_lt_Some in Hx. exact Hx.
      + intros o' y' Hy'. destruct (decide (o' = o)) as [->|Hne].
        * assert (y' = f x) by congruence. subst y'. exact Ho.
        * rewrite (Hoth o' Hne) in Hy'.
          exact (OKs_other m m' o o' y' y' k Hne eq_refl Hk eq_refl (HO o' y' Hy')).
    - intros _. split; [lia|]. intros o' y Ho' Hy. destruct (decide (o' = o)) as [->|Hne].
      + assert (y = x) by congruence. subst y. exists (f x). split; [exact Hx'|]. split; [apply HF; assumption | exact HC].
      + exists y. split; [rewrite (Hoth o' Hne); exact Hy|]. split; auto.
  Qed.

  Lemma G_emits_nb k m : G (emits k m) -> G m.
  Proof.
    intros [H1 H2]. split; [|exact H2]. unfold no_badU in *. cbn in H1. rewrite forallb_app in H1.
    apply andb_true_iff in H1. apply H1.
  Qed.

  (** *** freeing the side record *)
  Lemma sfree_step n0 o m : SLs n0 m (sfree o m).
  Proof.
    unfold sfree. destruct (get m o) as [x|] eqn:Hx; [|lss]. destruct (o_side x) as [s|] eqn:Hs; [|lss].
    destruct (sd_freed s) eqn:Hfr.
    { apply SLs_vac. intros HG. apply G_emit in HG as [HG _].
      match type of HG with LifeInv.G _ (upd _ _ ?mm) => assert (HG2 : G mm) by exact HG end.
      exact (not_G_bad mu DoubleFree o m eq_refl HG2). }
    change (emit (ESFree o) (upd o (fun x0 => x0 <| o_side := Some (Side (sd_wk s) true) |>) m))
      with (emits [ESFree o] (upd o (fun x0 => x0 <| o_side := Some (Side (sd_wk s) true) |>) m)).
    apply SLs_one with (x := x); [exact Hx | repeat constructor; right; reflexivity | apply G_emits_nb | | |].
    - intros (W & S & HO). destruct (HO o x Hx) as [H1 H2 H3].
      assert (Hss : sside x = Some false) by (unfold sside; rewrite Hs, Hfr; reflexivity).
      rewrite Hss in H2, H3. rewrite H3 in H1.
      assert (Hin : In (ESAlloc o) (log m)).
      { assert (Hp : (0 < cntE (isSA o) (log m))%nat) by lia. apply cntE_pos in Hp as (e & Hin & He).
        destruct e; try discriminate. cbn in He. apply Nat.eqb_eq in He. subst. exact Hin. }
      split; [split; [split; [exact Hin | exact H2] | exact W]|].
      split; cbn [log emits upd set app]; rewrite ?cnt_cons; cbn [isSA isSF]; rewrite ?Nat.eqb_refl; cbn [o_hdr set].
      + rewrite H3. exact H1.
      + unfold sside. cbn. lia.
      + unfold sside. cbn. exact H3.
    - intros _ (Hn & _). unfold sside in Hn. rewrite Hs in Hn. discriminate.
    - intros t Ht. left. exact Ht.
  Qed.
  Lemma ss_sfree n0 m0 o m : SLs n0 m0 m -> SLs n0 m0 (sfree o m).
  Proof. intros H. eapply SLs_trans; [exact H | apply sfree_step]. Qed.

  Lemma ss_uside n0 m0 o f m : SLs n0 m0 m -> SLs n0 m0 (uside o f m).
  Proof.
    unfold uside. apply ss_upd. intros x. unfold sv, sside, notyet. cbn. destruct (o_side x); reflexivity.
  Qed.

  (** the cleaner handle of an object is cleared, or set to an object created by the running
      activation *)
  Lemma ss_set_cleaner n0 m0 o v m : (forall t, v = Some t -> (n0 <= t)%nat) ->
    SLs n0 m0 m -> SLs n0 m0 (upd o (fun x => x <| o_cleaner := v |>) m).
  Proof.
    intros Hv H. eapply SLs_trans; [exact H|]. destruct (get m o) as [x|] eqn:Hx.
    - rewrite <- (emits_nil (upd o _ m)).
      apply SLs_one with (x := x); [exact Hx | constructor | apply G_emits_nb | | |].
      + intros (W & S & HO). split; [exact W|]. destruct (HO o x Hx) as [H1 H2 H3]. split; assumption.
      + intros _ Hf. exact Hf.
      + intros t Ht. right. apply Hv. exact Ht.
    - apply ss_upd_at; [|apply SLs_refl]. intros y Hy. congruence.
  Qed.

  (** *** deallocation: the side record is not touched; a box that was never allocated cannot be
      freed *)
  Lemma dealloc_step K n0 o m : SLs n0 m (dealloc K o m).
  Proof.
    unfold dealloc. destruct (get m o) as [x|] eqn:Hx; [|lss]. destruct (box_layout K x) as [sz al].
    destruct (o_box x) eqn:Hb.
    1,3: apply SLs_vac; intros HG; apply G_emit in HG as [HG _];
         match type of HG with LifeInv.G _ (upd _ _ ?mm) => assert (HG2 : G mm) by exact HG end;
         destruct (st_alloc (emit_bad DoubleFree o m) <? sz) in HG2;
         [apply G_emit in HG2 as [HG2 _] | ]; apply (not_G_bad mu DoubleFree o m eq_refl HG2).
    cbv zeta. apply ss_emit; [reflexivity|].
    destruct (st_alloc m <? sz); (apply ss_upd_at; [|lss]); intros y Hy;
      (assert (y = x) by (change (get m o = Some y) in Hy; congruence)); subst y;
      unfold sv, sside, notyet; cbn; rewrite Hb; reflexivity.
  Qed.
  Lemma ss_dealloc K n0 m0 o m : SLs n0 m0 m -> SLs n0 m0 (dealloc K o m).
  Proof. intros H. eapply SLs_trans; [exact H | apply dealloc_step]. Qed.

  (** *** allocating the side record: never on a box that was not allocated yet (unless the object
      was created by the running activation) *)
  Lemma init_side_step n0 o m :
    (G m -> forall x, get m o = Some x -> (n0 <= o)%nat \/ notyet x = false) -> SLs n0 m (init_side o m).
  Proof.
    intros Hny. unfold init_side. destruct (get m o) as [x|] eqn:Hx; [|lss].
    destruct (h_side (o_hdr x)) eqn:Hh; [apply SLs_refl|].
    change (emit (ESAlloc o) (upd o (fun x0 => x0 <| o_side := Some (Side (wk_new true) false) |> <| o_hdr ::= set_side true |>) m))
      with (emits [ESAlloc o] (upd o (fun x0 => x0 <| o_side := Some (Side (wk_new true) false) |> <| o_hdr ::= set_side true |>) m)).
    apply SLs_guard. intros HG. apply G_emits_nb in HG. assert (HGm : G m) by exact HG.
    specialize (Hny HGm x eq_refl).
    apply SLs_one with (x := x); [exact Hx | repeat constructor; right; reflexivity | apply G_emits_nb | | |].
    - intros (W & S & HO). destruct (HO o x Hx) as [H1 H2 H3]. rewrite Hh in H1, H3.
      assert (Hss : sside x = None) by (destruct (sside x); [discriminate | reflexivity]). rewrite Hss in H2.
      split; [split; [exact H1 | exact W]|].
      split; cbn [log emits upd set app]; rewrite ?cnt_cons; cbn [isSA isSF]; rewrite ?Nat.eqb_refl;
        unfold sside; cbn; lia || reflexivity.
    - intros Hlt (_ & _ & Hn). destruct Hny as [Hge|Hf]; [lia | congruence].
    - intros t Ht. left. exact Ht.
  Qed.

  (** *** [box_alloc] (own objects only: the header is re-initialised) *)
  Lemma box_alloc_step K n0 o m :
    (n0 <= o)%nat -> (G m -> forall x, get m o = Some x -> FS x) -> SLs n0 m (box_alloc K o m).
  Proof.
    intros Hn Hfs. destruct (get m o) as [x|] eqn:Hx.
    2:{ unfold box_alloc. rewrite Hx. lss. }
    rewrite (box_alloc_eq K m o x Hx). apply SLs_guard. intros HG. apply G_emits_nb in HG.
    assert (HGm : G m) by exact HG. destruct (Hfs HGm x eq_refl) as (Hs & Hh & Hny).
    set (m1 := m <| st_alloc ::= fun a => a + (box_layout K x).1 |>).
    eapply SLs_trans; [assert (H1 : SLs n0 m m1) by (unfold m1; lss); exact H1|].
    assert (E : emits [EAlloc o (box_layout K x).1 (box_layout K x).2]
                  (upd o (fun x0 => x0 <| o_box := BAlloc |> <| o_hdr := hdr_new (k_fin K && st_finalizing m) |>) m1)
                = emit (EAlloc o (box_layout K x).1 (box_layout K x).2)
                  (emits [] (upd o (fun x0 => x0 <| o_box := BAlloc |> <| o_hdr := hdr_new (k_fin K && st_finalizing m) |>) m1)))
      by (rewrite emits_nil; reflexivity).
    rewrite E. apply ss_emit; [reflexivity|].
    apply SLs_one with (x := x); [exact Hx | constructor | apply G_emits_nb | | |].
    - intros (W & S & HO). destruct (HO o x Hx) as [H1 H2 H3]. rewrite Hh in H1. rewrite Hs in H2.
      split; [exact W|]. split; cbn [log emits upd set app]; unfold sside in *; cbn; rewrite ?Hs; try assumption.
      destruct (o_side x); [discriminate | reflexivity].
    - intros Hlt. lia.
    - intros t Ht. left. exact Ht.
  Qed.

  (** *** a new object *)
  Lemma new_step n0 m (x0 : obj) : o_side x0 = None -> h_side (o_hdr x0) = false ->
    SLs n0 m (m <| heap ::= fun h => h ++ [x0] |>).
  Proof.
    intros Hs Hh. set (m' := m <| heap ::= fun h => h ++ [x0] |>).
    assert (Hold : forall o x, get m o = Some x -> get m' o = Some x).
    { intros o x Hx. unfold get, m'. cbn. rewrite lookup_app_l; [exact Hx | apply lookup_lt_Some in Hx; exact Hx]. }
    split; [auto|]. split.
    - intros _ (W & S & HO). split; [exact W|]. split.
      + intros e o Hin Hid. unfold m'. cbn. rewrite app_length. specialize (S e o Hin Hid). lia.
      + intros o x' Hx'. unfold get, m' in Hx'. cbn in Hx'.
        destruct (decide (o < length (heap m))%nat) as [Hlt|Hge].
        * rewrite lookup_app_l in Hx' by exact Hlt.
          eapply (OKs_quiet m m' o x' x' []); [reflexivity | constructor | reflexivity | apply HO, Hx'].
        * rewrite lookup_app_r in Hx' by lia.
          destruct (o - length (heap m))%nat as [|n] eqn:En; [|destruct n; discriminate]. injection Hx' as <-.
          assert (Hz : forall p, (forall e, p e = true -> evs_id e = Some o) -> cntE p (log m) = 0%nat).
          { intros p Hp. destruct (cntE p (log m)) eqn:E; [reflexivity|]. exfalso.
            assert (Hpos : (0 < cntE p (log m))%nat) by lia. apply cntE_pos in Hpos as (e & Hin & He).
            specialize (S e o Hin (Hp e He)). lia. }
          split; change (log m') with (log m); unfold sside; rewrite ?Hs, ?Hh.
          -- apply Hz. intros e He. destruct e; try discriminate. cbn in *. apply Nat.eqb_eq in He. congruence.
          -- apply Hz. intros e He. destruct e; try discriminate. cbn in *. apply Nat.eqb_eq in He. congruence.
          -- reflexivity.
    - intros _. split; [unfold m'; cbn; rewrite app_length; lia|]. intros o x _ Hx. exists x. split; [apply Hold, Hx | auto].
  Qed.
End Tr.
