(** * LifeSd4: side records, every activation preserves the invariant. *)
From Coq Require Import NArith Bool List Lia.
From stdpp Require Import base list option.
From RecordUpdate Require Import RecordSet.
From RC Require Import Hdr Machine RunInd Flags Flags2.
From RC Require Import Inv InvP LifeInv LifeInv2 LifeChk LifeStep3 LifeStep4 LifeSd LifeSd2 LifeSd3.
From RC Require Import LifeGhost2.
Import ListNotations RecordSetNotations.
Local Open Scope N_scope.

Definition RecS (mu : id) (rec : call -> machine -> machine * outcome) : Prop :=
  forall c m, SLs mu (length (heap m)) m (rec c m).1.

Lemma SLs_rec mu rec n0 m0 mi c : (n0 <= length (heap m0))%nat -> RecS mu rec -> SLs mu n0 m0 mi -> SLs mu n0 m0 (rec c mi).1.
Proof. intros Hn HR H. eapply SLs_step; [exact Hn | exact H | apply HR]. Qed.
Lemma SLs_unwinding mu rec n0 m0 mi c : (n0 <= length (heap m0))%nat -> RecS mu rec -> SLs mu n0 m0 mi -> SLs mu n0 m0 (unwinding (rec c) mi).1.
Proof.
  intros Hn HR H. unfold unwinding.
  assert (H1 : SLs mu n0 m0 (mi <| panicking := true |>)) by lss.
  pose proof (SLs_rec mu rec n0 m0 _ c Hn HR H1) as H2. destruct (rec c (mi <| panicking := true |>)) as [m1 r1].
  cbn [fst snd] in *. lss.
Qed.

#[export] Hint Extern 2 (SLs _ _ _ (fst (ok _ _))) => (unfold ok; cbn [fst]) : lss.
#[export] Hint Extern 2 (SLs _ _ _ (ok _ _).1) => (unfold ok; cbn [fst]) : lss.
#[export] Hint Extern 2 (SLs _ _ _ (fold_left _ _ _)) => (apply ss_fold; [intros | ]) : lss.

Ltac posqS := solve [eauto 14 with lss].

Ltac advS :=
  match goal with
  | HR : RecS _ ?rec |- SLs ?mu ?n0 ?m0 _ =>
    inner_scrut ltac:(fun x =>
      lazymatch x with
      | rec ?c ?X =>
        let HP := fresh "HP" in let HP2 := fresh "HR" in
        assert (HP : SLs mu n0 m0 X) by posqS;
        pose proof (SLs_rec mu rec n0 m0 X c ltac:(first [apply Nat.le_refl | assumption | lia]) HR HP) as HP2; clear HP;
        destruct (rec c X) as [? ?]; cbn [fst snd] in *
      | unwinding (rec ?c) ?X =>
        let HP := fresh "HP" in let HP2 := fresh "HR" in
        assert (HP : SLs mu n0 m0 X) by posqS;
        pose proof (SLs_unwinding mu rec n0 m0 X c ltac:(first [apply Nat.le_refl | assumption | lia]) HR HP) as HP2; clear HP;
        destruct (unwinding (rec c) X) as [? ?]; cbn [fst snd] in *
      | weak_clone ?w ?X =>
        let HP := fresh "HP" in let E := fresh "E" in
        assert (HP : SLs mu n0 m0 X) by posqS;
        destruct (weak_clone w X) eqn:E;
        [ pose proof (ss_weak_clone mu n0 m0 w X _ HP E) | ]
      | _ =>
        lazymatch type of x with
        | (machine * _)%type =>
          let HP := fresh "HP" in
          assert (HP : SLs mu n0 m0 x.1) by posqS;
          destruct x as [? ?]; cbn [fst snd] in *
        | _ => destruct x eqn:?
        end
      end)
  end; cbv beta iota zeta.

Ltac finS :=
  cbn [fst snd];
  first
  [ posqS
  | match goal with
    | HR : RecS _ ?rec |- SLs ?mu ?n0 ?m0 (?rec ?c ?X).1 => apply (SLs_rec mu rec n0 m0 X c ltac:(first [apply Nat.le_refl | assumption | lia]) HR); posqS
    | HR : RecS _ ?rec |- SLs ?mu ?n0 ?m0 (unwinding (?rec ?c) ?X).1 => apply (SLs_unwinding mu rec n0 m0 X c ltac:(first [apply Nat.le_refl | assumption | lia]) HR); posqS
    end ].
Ltac startS := intros; match goal with |- SLs ?mu ?n0 ?m0 _ => pose proof (SLs_refl mu n0 m0) as HP0 end.
Ltac goS := startS; cbv beta iota zeta; repeat advS; finS.

Section Walk.
  Context (K : conf) (P : prog) (mu : id).
  Notation SLs := (SLs mu).
  Context (rec : call -> machine -> machine * outcome).
  Hypothesis HR : RecS mu rec.

  Lemma s_step_script self cs m : SLs (length (heap m)) m (step_script rec self cs m).1.
  Proof. unfold step_script. goS. Qed.
  Lemma s_step_store r v m : SLs (length (heap m)) m (step_store rec r v m).1.
  Proof. unfold step_store. goS. Qed.
  Lemma s_step_drop_value o m : SLs (length (heap m)) m (step_drop_value K P rec o m).1.
  Proof. unfold step_drop_value. goS. Qed.
  Lemma s_step_drop_fields o j m : SLs (length (heap m)) m (step_drop_fields rec o j m).1.
  Proof. unfold step_drop_fields. goS. Qed.
  Lemma s_step_drop_map_slots o j m : SLs (length (heap m)) m (step_drop_map_slots rec o j m).1.
  Proof. unfold step_drop_map_slots. goS. Qed.
  Lemma s_step_clean_run mo aid sc m : SLs (length (heap m)) m (step_clean_run K P rec mo aid sc m).1.
  Proof. unfold step_clean_run. goS. Qed.
  Lemma s_step_unbag k m : SLs (length (heap m)) m (step_unbag rec k m).1.
  Proof. unfold step_unbag. goS. Qed.
  Lemma s_step_trigger m : SLs (length (heap m)) m (step_trigger K rec m).1.
  Proof. unfold step_trigger. goS. Qed.
  Lemma s_step_collect_cycles m : SLs (length (heap m)) m (step_collect_cycles K rec m).1.
  Proof. unfold step_collect_cycles. goS. Qed.
  Lemma s_step_collect m : SLs (length (heap m)) m (step_collect K rec m).1.
  Proof. unfold step_collect. goS. Qed.
  Lemma s_step_collect_loop k m : SLs (length (heap m)) m (step_collect_loop rec k m).1.
  Proof. unfold step_collect_loop. goS. Qed.
  Lemma s_step_collect_once m : SLs (length (heap m)) m (step_collect_once K P rec m).1.
  Proof. unfold step_collect_once. goS. Qed.
  Lemma s_step_finalize_list L rest any old_f m : SLs (length (heap m)) m (step_finalize_list K P rec L rest any old_f m).1.
  Proof. unfold step_finalize_list. goS. Qed.
  Lemma s_step_drop_list L rest old_d m : SLs (length (heap m)) m (step_drop_list K rec L rest old_d m).1.
  Proof. unfold step_drop_list. goS. Qed.

  Lemma s_dcc_fin n0 m0 o x mi : (n0 <= length (heap m0))%nat -> SLs n0 m0 mi -> SLs n0 m0 (dcc_fin K P rec o x mi).1.1.
  Proof. intros Hn0 HD. unfold dcc_fin. repeat advS; finS. Qed.
  Lemma s_dcc_drop n0 m0 o mi : (n0 <= length (heap m0))%nat -> SLs n0 m0 mi -> SLs n0 m0 (dcc_drop K rec o mi).1.
  Proof. intros Hn0 HD. unfold dcc_drop. cbv zeta. repeat advS; finS. Qed.
  Lemma s_step_drop_cc o m : SLs (length (heap m)) m (step_drop_cc K P rec o m).1.
  Proof.
    rewrite step_drop_cc_eq. pose proof (SLs_refl mu (length (heap m)) m) as HP0.
    destruct (get m o) as [x|]; [|finS]. cbv zeta.
    set (m1 := match o_box x with BAlloc => m | _ => emit_bad UseAfterFree o m end).
    assert (HP1 : SLs (length (heap m)) m m1) by (unfold m1; destruct (o_box x); lss). clearbody m1.
    destruct (is_in_list_or_queue (o_hdr x)); [finS|]. destruct (h_rc (o_hdr x) =? 1); [|finS].
    pose proof (s_dcc_fin _ m o x m1 (Nat.le_refl _) HP1) as HP2.
    destruct (dcc_fin K P rec o x m1) as [[m2 r2] go]. cbn [fst snd] in *.
    destruct (negb go); [exact HP2 | apply s_dcc_drop; [apply Nat.le_refl | exact HP2]].
  Qed.

  Lemma s_cmd_clone self src dst m : SLs (length (heap m)) m (cmd_clone rec self src dst m).1.
  Proof. unfold cmd_clone. goS. Qed.
  Lemma s_cmd_drop self l m : SLs (length (heap m)) m (cmd_drop rec self l m).1.
  Proof. unfold cmd_drop. goS. Qed.
  Lemma s_cmd_move self src dst m : SLs (length (heap m)) m (cmd_move rec self src dst m).1.
  Proof. unfold cmd_move. goS. Qed.
  Lemma s_cmd_mark_alive self l m : SLs (length (heap m)) m (cmd_mark_alive self l m).1.
  Proof. unfold cmd_mark_alive. goS. Qed.
  Lemma s_cmd_collect self m : SLs (length (heap m)) m (cmd_collect rec self m).1.
  Proof. unfold cmd_collect. goS. Qed.
  Lemma s_cmd_upgrade self w dst m : SLs (length (heap m)) m (cmd_upgrade K rec self w dst m).1.
  Proof. unfold cmd_upgrade. goS. Qed.
  Lemma s_cmd_w_new self w m : SLs (length (heap m)) m (cmd_w_new K self w m).1.
  Proof. unfold cmd_w_new. goS. Qed.
  Lemma s_cmd_w_clone self src dst m : SLs (length (heap m)) m (cmd_w_clone K self src dst m).1.
  Proof. unfold cmd_w_clone. goS. Qed.
  Lemma s_cmd_w_drop self w m : SLs (length (heap m)) m (cmd_w_drop K self w m).1.
  Proof. unfold cmd_w_drop. goS. Qed.
  Lemma s_cmd_try_unwrap self l v m : SLs (length (heap m)) m (cmd_try_unwrap K self l v m).1.
  Proof. unfold cmd_try_unwrap. goS. Qed.
  Lemma s_cmd_drop_value self v m : SLs (length (heap m)) m (cmd_drop_value rec self v m).1.
  Proof. unfold cmd_drop_value. goS. Qed.
  Lemma s_cmd_fin_again self l m : SLs (length (heap m)) m (cmd_fin_again K self l m).1.
  Proof. unfold cmd_fin_again. goS. Qed.
  Lemma s_cmd_clean self c m : SLs (length (heap m)) m (cmd_clean K rec self c m).1.
  Proof. unfold cmd_clean. goS. Qed.
  Lemma s_cmd_c_drop self c m : SLs (length (heap m)) m (cmd_c_drop K self c m).1.
  Proof. unfold cmd_c_drop. goS. Qed.
  Lemma s_cmd_unbag self k m : SLs (length (heap m)) m (cmd_unbag rec self k m).1.
  Proof. unfold cmd_unbag. goS. Qed.
  Lemma s_cmd_borrow self nd m : SLs (length (heap m)) m (cmd_borrow self nd m).1.
  Proof. unfold cmd_borrow. goS. Qed.
  Lemma s_cmd_unborrow self nd m : SLs (length (heap m)) m (cmd_unborrow self nd m).1.
  Proof. unfold cmd_unborrow. goS. Qed.
  Lemma s_cmd_cfg_auto self b m : SLs (length (heap m)) m (cmd_cfg_auto K self b m).1.
  Proof. unfold cmd_cfg_auto. goS. Qed.
  Lemma s_cmd_cfg_percent self n e m : SLs (length (heap m)) m (cmd_cfg_percent K self n e m).1.
  Proof. unfold cmd_cfg_percent. goS. Qed.
  Lemma s_cmd_cfg_buffered self b m : SLs (length (heap m)) m (cmd_cfg_buffered K self b m).1.
  Proof. unfold cmd_cfg_buffered. goS. Qed.
  Lemma s_cmd_arm self k v m : SLs (length (heap m)) m (cmd_arm self k v m).1.
  Proof. unfold cmd_arm. goS. Qed.
  Lemma s_cmd_panic self m : SLs (length (heap m)) m (cmd_panic self m).1.
  Proof. unfold cmd_panic. goS. Qed.
  Lemma s_cmd_obs self l m : SLs (length (heap m)) m (cmd_obs self l m).1.
  Proof. unfold cmd_obs. goS. Qed.
  Lemma s_cmd_w_obs self w m : SLs (length (heap m)) m (cmd_w_obs K self w m).1.
  Proof. unfold cmd_w_obs. goS. Qed.
  Lemma s_cmd_s_obs self m : SLs (length (heap m)) m (cmd_s_obs K self m).1.
  Proof. unfold cmd_s_obs. goS. Qed.
  Lemma s_cmd_bag self l k m : SLs (length (heap m)) m (cmd_bag self l k m).1.
  Proof.
    unfold cmd_bag. startS. cbv beta iota zeta. advS.
    destruct (o ≫= λ r, read_loc r m0) as [t|]; [|finS].
    generalize (N.to_nat k). intros n. revert m0 HP. induction n as [|n IH]; intros m0 HP; [finS|].
    destruct (inc_rc (hdr_of m0 t)) as [h|] eqn:Ei; [|finS].
    apply IH. posqS.
  Qed.
End Walk.
