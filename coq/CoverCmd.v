(** * CoverCmd: the coverage invariant is preserved by every non-collector activation: script,
    store, unbag, cleaning action, the drop glues, [Cc::drop] ([cv_step_*]) and the thirty commands
    ([cv_cmd_*], [nsimp_cmd_*]); assembled in [cv_step_noncollector].

    Every lemma follows the normal-return path of the corresponding [step_*] / [cmd_*] definition:
    the layer-1 knowledge ([SafePrims.Cur]: [SInv] with exact counts, frames) is re-established at
    each recursive call from the primitives of SafePrims.v (so that the hypotheses on [rec] apply),
    the coverage knowledge [Cv] from the primitives of CoverStep.v.  Outcomes other than [ONormal]
    carry no obligation (a panic makes [no_panic_yet] false at top level, [exec_top] logs
    [ERes RPanicked] / [EBad Abort] / [EBad Fuel]).

    The only place where [rust_cmd] is used is [cv_cmd_move] (the holder of the destination field
    must still be held by its slot after the source slot was emptied). *)
From Coq Require Import NArith Bool List Lia.
From stdpp Require Import base list option list_numbers.
From RecordUpdate Require Import RecordSet.
From RC Require Import Hdr Machine RunInd.
From RC Require BufBase BufPass BufStep Buf.
From RC Require Import Inv InvP SafeHelpers SafePrims SafeCalls SafeGlue SafeDrop SafeCmd SafeCyclic SafeMain.
From RC Require Import Cover SafeColl SafeCollTop Quiet QuietCover CoverStep.
Import ListNotations RecordSetNotations.

Lemma unwinding_not_normal f m : (unwinding f m).2 <> ONormal.
Proof.
  unfold unwinding. destruct (f (m <| panicking := true |>)) as [m' r]. cbn.
  destruct r, (panicking m); discriminate.
Qed.
Lemma raise_not_normal m : raise m <> ONormal.
Proof. unfold raise. destruct (panicking m); discriminate. Qed.

Section NC.
  Context (K : conf) (P : prog).
  Hypothesis Hconf : k_clean K = true -> k_weak K = true.
  Hypothesis Hwf : wf_prog P = true.
  Hypothesis Hrust : forallb rust_script (p_scripts P) = true.
  Context (A : list id) (rec : call -> machine -> machine * outcome).
  Notation PreC := (SafeColl.PreC K).
  Notation PostC := (SafeColl.PostC K).
  Hypothesis Hrec1 : forall b E, rec_ok (Pre K PreC b E) (Post K PostC b E) rec.
  Hypothesis Hrec2 : forall E c m,
    Pre K PreC true E c m -> CvPre P E A c m -> (rec c m).2 = ONormal -> CvPost P E A c (rec c m).1.
  (** the buffer invariant holds again after every call that returns (Buf.v; true of the
      guarded [run K P n] of SafeFinal.v) *)
  Hypothesis Hrec3 : forall c m, is_coll c = false -> (rec c m).2 = ONormal ->
    BufBase.G K A (rec c m).1 /\ nofuel (rec c m).1.
  Implicit Types (m : machine) (o : id) (x : obj) (E : list id).

  Notation Cv := (Cv P).
  Notation CvPre := (CvPre P).
  Notation CvPost := (CvPost P).
  Notation Cl := (Cl P).

  (** a recursive call that returns normally *)
  Lemma sub E c m m' :
    is_coll c = false -> NoBad m -> SInv K true (own_of c ++ E) [] m ->
    match c with
    | KCmd self c => self_ok E self [c] m
    | KScript self cs => self_ok E self cs m
    | KStore r v => loc_valid m r /\ good_h m v
    | KDropCc o => own_ok m o
    | KDropValue o => droppable K E m o
    | KDropFields o _ | KDropMapSlots o _ => exists x, get m o = Some x /\ o_vst x = VDropping
    | _ => True
    end ->
    CvPre E A c m -> rec c m = (m', ONormal) ->
    Post K PostC true E c m m' ONormal /\ CvPost E A c m'.
  Proof.
    intros Hc Hnb HI Hx V Hr.
    assert (Hpre : Pre K PreC true E c m) by (rewrite Pre_nc by exact Hc; auto).
    pose proof (Hrec1 true E c m Hpre) as H1. pose proof (Hrec2 E c m Hpre V) as H2.
    rewrite Hr in H1, H2. cbn [fst snd] in H1, H2. auto.
  Qed.

  Lemma sub_buf E c m m' :
    is_coll c = false -> rec c m = (m', ONormal) -> Post K PostC true E c m m' ONormal -> BufBase.Ibuf K A m'.
  Proof.
    intros Hc Hr HP. pose proof (Hrec3 c m Hc) as H3. rewrite Hr in H3. destruct (H3 eq_refl) as [HG Hnf].
    rewrite Post_nc in HP by exact Hc. apply G_Ibuf; [exact HG | apply HP | exact Hnf].
  Qed.

  Lemma script_rust s : rust_script (script_of P s) = true.
  Proof.
    unfold script_of. destruct (p_scripts P !! s) as [cs|] eqn:Hs; [|reflexivity]. cbn.
    rewrite forallb_forall in Hrust. apply Hrust, elem_of_list_In. eapply elem_of_list_lookup_2, Hs.
  Qed.
  Lemma oscript_rust s : rust_script (oscript P s) = true.
  Proof. destruct s; [apply script_rust | reflexivity]. Qed.

  (** *** script *)
  Lemma cv_step_script E self cs m :
    Pre K PreC true E (KScript self cs) m -> CvPre E A (KScript self cs) m ->
    (step_script rec self cs m).2 = ONormal -> CvPost E A (KScript self cs) (step_script rec self cs m).1.
  Proof.
    rewrite Pre_nc by reflexivity. cbn [own_of app]. intros (Hnb & HI & Hself) [V Hr].
    unfold step_script. destruct cs as [|c cs']; [intros _; exact V|].
    cbn in Hr. apply andb_true_iff in Hr as [Hr1 Hr2].
    destruct (rec (KCmd self c) m) as [m1 r1] eqn:Hc1.
    destruct r1; try (cbn; discriminate).
    destruct (sub E (KCmd self c) m m1 eq_refl Hnb HI (self_ok_head _ _ _ _ _ Hself) (conj V Hr1) Hc1) as [HP1 V1].
    pose proof (Cur_init K true true E None E [] m Hnb HI) as C0.
    destruct (Cur_call_n K PostC (KCmd self c) _ _ _ _ _ _ _ _ _ eq_refl C0 HP1 (fun o => le_n _) (or_introl eq_refl)) as [C1 _].
    destruct (rec (KScript self cs') m1) as [m2 r2] eqn:Hc2. cbn [fst snd]. intros ->.
    destruct (sub E (KScript self cs') m1 m2 eq_refl (cur_nb _ _ _ _ _ _ _ _ _ C1) (cur_inv _ _ _ _ _ _ _ _ _ C1)
                (self_ok_tail K _ _ _ _ _ _ Hself (cur_fr _ _ _ _ _ _ _ _ _ C1)) (conj V1 Hr2) Hc2) as [_ V2].
    exact V2.
  Qed.

  Notation nb C := (cur_nb _ _ _ _ _ _ _ _ _ C).
  Notation inv C := (cur_inv _ _ _ _ _ _ _ _ _ C).
  Notation frm C := (cur_fr _ _ _ _ _ _ _ _ _ C).

  Lemma Cv_heap E X m m' :
    heap m' = heap m -> slots m' = slots m -> bag m' = bag m -> values m' = values m -> dead m' = dead m ->
    pc m' = pc m -> Cv E A X m -> Cv E A X m'.
  Proof. intros. eapply Cv_nsimp0; [apply nsimp_same; eassumption | assumption]. Qed.

  Lemma MO_unexempt X X' m : (forall r, r ∈ X -> r ∈ X' \/ notalive m r) -> MO X A m -> MO X' A m.
  Proof.
    intros HX [M1 M2]. split; [|exact M2]. intros o x Hx Hm Ha Hn. apply (M1 o x Hx Hm Ha).
    intros Hin. destruct (HX o Hin) as [?|Hna]; [contradiction | apply (Hna x Hx Ha)].
  Qed.

  (** *** unbag *)
  Lemma cv_step_unbag E k m :
    Pre K PreC true E (KUnbag k) m -> CvPre E A (KUnbag k) m ->
    (step_unbag rec k m).2 = ONormal -> CvPost E A (KUnbag k) (step_unbag rec k m).1.
  Proof.
    rewrite Pre_nc by reflexivity. cbn [own_of app]. intros (Hnb & HI & _) [V _].
    pose proof (Cur_init K true true E None E [] m Hnb HI) as C0.
    unfold step_unbag. destruct k as [|k']; [intros _; exact V|].
    destruct (bag m) as [|o bg] eqn:Hb; [intros _; exact V|].
    pose proof (Cur_bag_pop K _ _ _ _ _ _ _ _ o bg C0 Hb) as C1.
    assert (Hown : own_ok (m <| bag := bg |>) o).
    { intros Hd. destruct (sv_loc _ _ _ _ _ HI None false o) as (xt & _ & _ & _ & _ & Hi); [constructor 2; rewrite Hb; left|].
      change (inD (m <| bag := bg |>) o) with (inD m o) in Hd. congruence. }
    assert (V1 : Cv (o :: E) A [] (m <| bag := bg |>)).
    { destruct V as [V1 V2]. split; [apply CoverE_bag_pop; assumption | eapply MO_heap; [|exact V2]; reflexivity]. }
    destruct (rec (KDropCc o) (m <| bag := bg |>)) as [m1 r1] eqn:Hc1.
    destruct r1; try (cbn; discriminate).
    destruct (sub E (KDropCc o) _ m1 eq_refl (nb C1) (inv C1) Hown (conj V1 I) Hc1) as [HP1 V2].
    destruct (Cur_call_n K PostC (KDropCc o) _ _ _ _ _ _ _ _ _ eq_refl C1 HP1 (fun o => le_n _) (or_introl eq_refl)) as [C2 _].
    destruct (rec (KUnbag k') m1) as [m2 r2] eqn:Hc2. cbn [fst snd]. intros ->.
    destruct (sub E (KUnbag k') m1 m2 eq_refl (nb C2) (inv C2) I (conj V2 I) Hc2) as [_ V3]. exact V3.
  Qed.

  (** *** a cleaning action *)
  Lemma cv_step_clean_run E mo aid script m :
    Pre K PreC true E (KCleanRun mo aid script) m -> CvPre E A (KCleanRun mo aid script) m ->
    (step_clean_run K P rec mo aid script m).2 = ONormal ->
    CvPost E A (KCleanRun mo aid script) (step_clean_run K P rec mo aid script m).1.
  Proof.
    rewrite Pre_nc by reflexivity. cbn [own_of app]. intros (Hnb & HI & _) [V _].
    pose proof (Cur_init K true true E None E [] m Hnb HI) as C0.
    unfold step_clean_run.
    pose proof (Cur_tick K _ _ _ _ _ _ _ _ KAction (Cur_emit K _ _ _ _ _ _ _ _ (ECb KAction aid (cur_flags K m)) C0 eq_refl)) as C1.
    assert (V1 : Cv E A [] (tick KAction (emit (ECb KAction aid (cur_flags K m)) m)).1).
    { eapply Cv_nsimp0; [|exact V]. eapply nsimp_trans; [apply nsimp_emit | apply nsimp_tick]. }
    destruct (tick KAction (emit (ECb KAction aid (cur_flags K m)) m)) as [m1 boom]. cbn [fst] in C1, V1.
    destruct boom; [cbn [fst snd]; intros Hn; destruct (raise_not_normal _ Hn)|].
    destruct (rec (KScript None (script_of P script)) m1) as [m2 r2] eqn:Hc2. cbn [fst snd]. intros ->.
    destruct (sub E (KScript None (script_of P script)) m1 m2 eq_refl (nb C1) (inv C1) I (conj V1 (script_rust script)) Hc2) as [_ V2].
    exact V2.
  Qed.

  (** *** store *)
  Lemma cv_step_store E rl v m :
    Pre K PreC true E (KStore rl v) m -> CvPre E A (KStore rl v) m ->
    (step_store rec rl v m).2 = ONormal -> CvPost E A (KStore rl v) (step_store rec rl v m).1.
  Proof.
    rewrite Pre_nc by reflexivity. cbn [own_of app]. intros (Hnb & HI & (Hidx & Hold) & Hgood) [V Hso].
    pose proof (Cur_init K true true E None (v :: E) [] m Hnb HI) as C0.
    unfold step_store.
    assert (Hiv : idx_valid m rl).
    { destruct rl as [i|p j]; cbn in *; [rewrite (proj1 (sv_lens _ _ _ _ _ HI)); exact Hidx|].
      destruct Hidx as (x & Hx & Hj & _). eauto. }
    pose proof (Cur_write_loc K true true E None m E [] m rl (Some v) C0 Hiv) as C1.
    specialize (C1 (fun t Ht => ltac:(injection Ht as <-; exact Hgood))).
    assert (Hh : forall p j x, rl = RField p j -> get m p = Some x ->
               (o_box x <> BNotYet \/ o_vst x = VDropping) /\ (o_vst x <> VDropping \/ None = Some p) /\ o_vst x <> VUninit /\
               (inD m p = false \/ o_vst x = VDropped \/ None = Some p)).
    { intros p j x -> Hx. cbn in Hidx. destruct Hidx as (y & Hy & _ & Hb & Hvd & Hnu & Hdd). assert (y = x) by congruence. subst.
      repeat split; auto. destruct (inD m p); auto. }
    specialize (C1 Hh).
    assert (V1 : Cv (olist (read_loc rl m) ++ E) A [] (write_loc rl (Some v) m)).
    { destruct V as [V1 V2]. split; [|apply MO_write_loc, V2].
      apply (CoverE_write_loc P E A rl (Some v) m Hiv (fun _ _ => Hso) V1). }
    destruct (read_loc rl m) as [t|] eqn:Hr; cbn [ol olist app] in C1, V1; [|intros _; exact V1].
    assert (Hown : own_ok (write_loc rl (Some v) m) t).
    { intros Hd. assert (Hd' : inD m t = true) by (destruct rl; exact Hd).
      specialize (Hold t eq_refl Hd'). unfold marked_at in *.
      destruct rl as [i|p j]; [exact Hold|]. cbn [write_loc]. unfold hdr_of in *. rewrite get_upd.
      destruct (decide (p = t)) as [->|]; [|exact Hold]. destruct (get m t); exact Hold. }
    destruct (rec (KDropCc t) (write_loc rl (Some v) m)) as [m1 r1] eqn:Hc1. cbn [fst snd]. intros ->.
    destruct (sub E (KDropCc t) _ m1 eq_refl (nb C1) (inv C1) Hown (conj V1 I) Hc1) as [_ V2]. exact V2.
  Qed.

  (** *** drop glue: the strong fields, then the weak fields, then the cleaner *)
  Lemma cv_step_drop_fields E o j m :
    Pre K PreC true E (KDropFields o j) m -> CvPre E A (KDropFields o j) m ->
    (step_drop_fields rec o j m).2 = ONormal -> CvPost E A (KDropFields o j) (step_drop_fields rec o j m).1.
  Proof.
    rewrite Pre_nc by reflexivity. cbn [own_of app]. intros (Hnb & HI & x & Hx & Hv) [V _].
    pose proof (Cur_init K true true E (Some o) E [] m Hnb HI) as C0.
    unfold step_drop_fields. rewrite Hx.
    destruct (decide (j < length (o_fields x))%nat) as [Hj|Hj].
    - set (m1 := upd o (fun x => x <| o_fields ::= <[j := None]> |>) m).
      assert (Hrl : read_loc (RField o j) m = mjoin (o_fields x !! j)) by (cbn; rewrite Hx; reflexivity).
      assert (Hiv : idx_valid m (RField o j)) by (cbn; eauto).
      assert (C1 : Cur K true true E (Some o) m (ol (mjoin (o_fields x !! j)) ++ E) [] m1).
      { rewrite <- Hrl. apply (Cur_write_loc K true true E (Some o) m E [] m (RField o j) None C0 Hiv).
        - discriminate.
        - intros p j' y [= <- <-] Hy. assert (y = x) by congruence. subst. split; [auto|]. split; [auto|]. split; [congruence | auto]. }
      assert (V1 : Cv (olist (mjoin (o_fields x !! j)) ++ E) A [] m1).
      { rewrite <- Hrl. destruct V as [V1 V2]. split; [|apply (MO_write_loc [] A (RField o j) None m V2)].
        apply (CoverE_write_loc P E A (RField o j) None m Hiv); [discriminate | exact V1]. }
      set (x1 := x <| o_fields ::= <[j := None]> |>).
      assert (Hx1 : get m1 o = Some x1) by (apply get_upd_eq, Hx).
      destruct (mjoin (o_fields x !! j)) as [t|] eqn:Hf; cbn [ol olist app] in C1, V1.
      + assert (Hown : own_ok m1 t).
        { intros Hd. change (inD m1 t) with (inD m t) in Hd.
          assert (Hl : hloc m (Some o) false t).
          { destruct (o_fields x !! j) as [[t'|]|] eqn:Ej; cbn in Hf; try discriminate. injection Hf as ->. econstructor 3; eauto. }
          destruct (sv_loc _ _ _ _ _ HI _ _ _ Hl) as (xt & Hxt & _ & _ & Hc). destruct (Hc x Hx) as [_ Hc2].
          destruct (Hc2 Hd) as (_ & _ & Hm). specialize (Hm Hv).
          unfold m1. rewrite marked_at_upd by reflexivity. rewrite (marked_at_get _ _ _ Hxt). exact Hm. }
        destruct (rec (KDropCc t) m1) as [m2 r1] eqn:Hc1.
        destruct r1; try (cbn [fst snd]; discriminate); try (intros Hn; destruct (unwinding_not_normal _ _ Hn)).
        destruct (sub E (KDropCc t) m1 m2 eq_refl (nb C1) (inv C1) Hown (conj V1 I) Hc1) as [HP1 V2].
        destruct (Cur_call_n K PostC (KDropCc t) _ _ _ _ _ _ _ _ _ eq_refl C1 HP1 (fun o => le_n _) (or_introl eq_refl)) as [C2 _].
        assert (HF12 : Fr K E None m1 m2) by (rewrite Post_nc in HP1 by reflexivity; apply HP1).
        destruct (fr_obj _ _ _ _ _ HF12 o x1 Hx1) as (x2 & Hx2 & OF).
        destruct (of_dropping _ _ _ _ _ _ _ OF Hv) as (D1 & _); [discriminate|].
        destruct (rec (KDropFields o (S j)) m2) as [m3 r2] eqn:Hc2. cbn [fst snd]. intros ->.
        destruct (sub E (KDropFields o (S j)) m2 m3 eq_refl (nb C2) (inv C2) (ex_intro _ x2 (conj Hx2 D1)) (conj V2 I) Hc2) as [_ V3].
        exact V3.
      + destruct (rec (KDropFields o (S j)) m1) as [m3 r2] eqn:Hc2. cbn [fst snd]. intros ->.
        destruct (sub E (KDropFields o (S j)) m1 m3 eq_refl (nb C1) (inv C1) (ex_intro _ x1 (conj Hx1 Hv)) (conj V1 I) Hc2) as [_ V3].
        exact V3.
    - set (m1 := fold_left (fun m w => weak_drop_opt w m) (o_wfields x) m).
      set (m2 := upd o (fun x => x <| o_wfields ::= fmap (fun _ => None) |>) m1).
      pose proof (Cur_drop_wfields K true true E (Some o) m E [] m o x C0 Hx (or_intror Hv) (or_intror eq_refl)) as C1. fold m1 m2 in C1.
      destruct (fold_weak_drop_keep (o_wfields x) m o x Hx) as (y1 & Hy1 & S1 & S2 & S3 & S4 & S5 & S6 & S7 & S8). fold m1 in Hy1.
      set (x2 := y1 <| o_wfields ::= fmap (fun _ => None) |>).
      assert (Hx2 : get m2 o = Some x2) by (apply get_upd_eq, Hy1).
      assert (V2 : Cv E A [] m2).
      { eapply Cv_nsimp0; [|exact V]. eapply nsimp_trans; [apply nsimp_fold_weak_drop|].
        apply nsimp_upd_same. intros y. repeat split. }
      destruct (o_cleaner x) as [t|] eqn:Hcl; [|intros _; exact V2].
      set (m3 := upd o (fun x => x <| o_cleaner := None |>) m2).
      assert (Hc2 : o_cleaner x2 = Some t) by (unfold x2; cbn; congruence).
      assert (C2 : Cur K true true E (Some o) m (t :: E) [] m3).
      { pose proof (Cur_set_cleaner K true true E (Some o) m E [] m2 o x2 None C1 Hx2) as C2.
        rewrite Hc2 in C2.
        apply C2; [congruence | discriminate | right; unfold x2; cbn; congruence | right; reflexivity | unfold x2; cbn; congruence | auto]. }
      assert (V3 : Cv (t :: E) A [] m3).
      { destruct V2 as [V21 V22]. split; [apply (CoverE_take_cleaner P E A o t m2 x2 Hx2 Hc2 V21)|].
        apply MO_upd_same; [|exact V22]. intros y. repeat split. }
      assert (Hown : own_ok m3 t).
      { intros Hd. change (inD m3 t) with (inD m2 t) in Hd.
        assert (Hl : hloc m2 (Some o) true t) by (econstructor 4; [exact Hx2 | exact Hc2]).
        destruct (sv_loc _ _ _ _ _ (inv C1) _ _ _ Hl) as (xt & Hxt & _ & _ & Hc). destruct (Hc x2 Hx2) as [_ Hc2'].
        destruct (Hc2' Hd) as (_ & _ & Hm). assert (Hv2 : o_vst x2 = VDropping) by (unfold x2; cbn; congruence). specialize (Hm Hv2).
        unfold m3. rewrite marked_at_upd by reflexivity. rewrite (marked_at_get m2 t xt Hxt). exact Hm. }
      destruct (rec (KDropCc t) m3) as [m4 r1] eqn:Hc1. cbn [fst snd]. intros ->.
      destruct (sub E (KDropCc t) m3 m4 eq_refl (nb C2) (inv C2) Hown (conj V3 I) Hc1) as [_ V4]. exact V4.
  Qed.

  (** *** drop of a CleanerMap's value *)
  Lemma cv_step_drop_map_slots E o j m :
    Pre K PreC true E (KDropMapSlots o j) m -> CvPre E A (KDropMapSlots o j) m ->
    (step_drop_map_slots rec o j m).2 = ONormal -> CvPost E A (KDropMapSlots o j) (step_drop_map_slots rec o j m).1.
  Proof.
    rewrite Pre_nc by reflexivity. cbn [own_of app]. intros (Hnb & HI & x & Hx & Hv) [V _].
    pose proof (Cur_init K true true E (Some o) E [] m Hnb HI) as C0.
    unfold step_drop_map_slots. rewrite Hx.
    destruct (o_mslots x !! j) as [sl|] eqn:Hsl; [|intros _; exact V].
    set (f := fun x : obj => x <| o_mslots ::= <[j := MVacant]> |>).
    set (m1 := upd o f m).
    assert (C1 : Cur K true true E (Some o) m E [] m1).
    { eapply (Cur_upd_hs K true true E (Some o) m E [] E [] m o f x C0 Hx (or_intror Hv)); try reflexivity; try (intros H; exact H); auto.
      - apply (sv_obj _ _ _ _ _ HI _ _ Hx).
      - eapply ObjXp_nohdr; [apply (sv_objx _ _ _ _ _ HI _ _ Hx) | reflexivity ..|].
        intros Hk. apply (sv_objx _ _ _ _ _ HI _ _ Hx), Hk.
      - intros Hin. destruct (sv_pc _ _ _ _ _ HI _ Hin) as (y & Hy & _ & Hvy & _). congruence. }
    assert (V1 : Cv E A [] m1).
    { eapply Cv_nsimp0; [|exact V]. apply nsimp_upd_same. intros y. repeat split. }
    set (x1 := f x).
    assert (Hx1 : get m1 o = Some x1) by (apply get_upd_eq, Hx).
    assert (Hv1 : o_vst x1 = VDropping) by exact Hv.
    assert (Hmid : forall m2,
               (match sl with MAction aid script => rec (KCleanRun o aid script) m1 | MVacant => (m1, ONormal) end) = (m2, ONormal) ->
               Cur K true true E (Some o) m E [] m2 /\ Cv E A [] m2 /\ exists x2, get m2 o = Some x2 /\ o_vst x2 = VDropping).
    { intros m2 Hcall. destruct sl as [|aid script].
      - injection Hcall as <-. split; [exact C1|]. split; [exact V1|]. eauto.
      - destruct (sub E (KCleanRun o aid script) m1 m2 eq_refl (nb C1) (inv C1) I (conj V1 I) Hcall) as [HP1 V2].
        destruct (Cur_call_n K PostC (KCleanRun o aid script) _ _ _ _ _ _ _ _ _ eq_refl C1 HP1 (fun o => le_n _) (or_introl eq_refl)) as [C2 _].
        split; [exact C2|]. split; [exact V2|].
        assert (HF : Fr K E None m1 m2) by (rewrite Post_nc in HP1 by reflexivity; apply HP1).
        destruct (fr_obj _ _ _ _ _ HF o x1 Hx1) as (x2 & Hx2 & OF).
        destruct (of_dropping _ _ _ _ _ _ _ OF Hv1) as (D1 & _); [discriminate|]. eauto. }
    destruct (match sl with MAction aid script => rec (KCleanRun o aid script) m1 | MVacant => (m1, ONormal) end) as [m2 r1] eqn:Hcall.
    destruct r1; try (cbn [fst snd]; discriminate); try (intros Hn; destruct (unwinding_not_normal _ _ Hn)).
    destruct (Hmid m2 eq_refl) as (C2 & V2 & x2 & Hx2 & V2').
    destruct (rec (KDropMapSlots o (S j)) m2) as [m3 r2] eqn:Hc2. cbn [fst snd]. intros ->.
    destruct (sub E (KDropMapSlots o (S j)) m2 m3 eq_refl (nb C2) (inv C2) (ex_intro _ x2 (conj Hx2 V2')) (conj V2 I) Hc2) as [_ V3].
    exact V3.
  Qed.

  (** *** drop of a value: Drop impl, then the drop glue *)
  Lemma cv_step_drop_value E o m :
    Pre K PreC true E (KDropValue o) m -> CvPre E A (KDropValue o) m ->
    (step_drop_value K P rec o m).2 = ONormal -> CvPost E A (KDropValue o) (step_drop_value K P rec o m).1.
  Proof.
    rewrite Pre_nc by reflexivity. cbn [own_of app]. intros (Hnb & HI & Hdr) [V _].
    pose proof (Cur_init K true true E (Some o) E [] m Hnb HI) as C0.
    pose proof (Cur_vst_dropping K true true E m E [] m o C0 Hdr) as C1.
    destruct Hdr as (x & Hx & He0 & Hdr).
    assert (Hvst : o_vst x = VLive \/ o_vst x = VMoved).
    { destruct (o_box x); [left; exact Hdr | left; apply Hdr | right; apply Hdr]. }
    unfold step_drop_value. rewrite Hx.
    set (m1 := upd o (fun x => x <| o_vst := VDropping |>) m) in *.
    set (x1 := x <| o_vst := VDropping |>).
    assert (Hx1 : get m1 o = Some x1) by (apply get_upd_eq, Hx).
    assert (Hv1 : o_vst x1 = VDropping) by reflexivity.
    assert (Hna : notalive m1 o).
    { intros y Hy [_ Hl]. assert (y = x1) by congruence. subst y. rewrite Hv1 in Hl. discriminate. }
    assert (V1 : Cv E A [] m1).
    { assert (V0 : Cv (o :: E) A [o] m1) by (eapply Cv_nsimp0; [apply nsimp_set_vst; discriminate | exact V]).
      destruct V0 as [V01 V02]. split; [apply (CoverE_drop_root_dead P E A o m1 Hna V01)|].
      apply (MO_unexempt [o] [] m1); [|exact V02]. intros r Hr. apply elem_of_list_singleton in Hr. subst r. right. exact Hna. }
    assert (Hfinal : forall m', Cv E A [] m' -> Cv E A [] (upd o (fun x => x <| o_vst := VDropped |>) m')).
    { intros m' V'. eapply Cv_nsimp0; [apply nsimp_set_vst; discriminate | exact V']. }
    assert (Hmain :
      (if o_ismap x
       then let '(m2, r) := rec (KDropMapSlots o 0) m1 in (upd o (fun x => x <| o_vst := VDropped |>) m2, r)
       else let m := emit (ECb KDrop o (cur_flags K m1)) m1 in
            let '(m, boom) := tick KDrop m in
            let '(m, r) := if boom then (m, raise m)
                           else rec (KScript (Some o) (oscript P (c_drop (class_of P (o_cls x))))) m in
            let '(m, r) :=
              match r with
              | ONormal => rec (KDropFields o 0) m
              | OPanic => unwinding (rec (KDropFields o 0)) m
              | _ => (m, r)
              end in
            (upd o (fun x => x <| o_vst := VDropped |>) m, r)).2 = ONormal ->
      CvPost E A (KDropValue o)
      (if o_ismap x
       then let '(m2, r) := rec (KDropMapSlots o 0) m1 in (upd o (fun x => x <| o_vst := VDropped |>) m2, r)
       else let m := emit (ECb KDrop o (cur_flags K m1)) m1 in
            let '(m, boom) := tick KDrop m in
            let '(m, r) := if boom then (m, raise m)
                           else rec (KScript (Some o) (oscript P (c_drop (class_of P (o_cls x))))) m in
            let '(m, r) :=
              match r with
              | ONormal => rec (KDropFields o 0) m
              | OPanic => unwinding (rec (KDropFields o 0)) m
              | _ => (m, r)
              end in
            (upd o (fun x => x <| o_vst := VDropped |>) m, r)).1).
    { destruct (o_ismap x) eqn:Hmap.
      - destruct (rec (KDropMapSlots o 0) m1) as [m2 r1] eqn:Hc1. cbn [fst snd]. intros ->.
        destruct (sub E (KDropMapSlots o 0) m1 m2 eq_refl (nb C1) (inv C1) (ex_intro _ x1 (conj Hx1 Hv1)) (conj V1 I) Hc1) as [_ V2].
        apply Hfinal, V2.
      - cbv zeta.
        pose proof (Cur_tick K _ _ _ _ _ _ _ _ KDrop (Cur_emit K _ _ _ _ _ _ _ _ (ECb KDrop o (cur_flags K m1)) C1 eq_refl)) as C2.
        assert (V2 : Cv E A [] (tick KDrop (emit (ECb KDrop o (cur_flags K m1)) m1)).1).
        { eapply Cv_nsimp0; [|exact V1]. eapply nsimp_trans; [apply nsimp_emit | apply nsimp_tick]. }
        assert (Hg2 : forall o', get (tick KDrop (emit (ECb KDrop o (cur_flags K m1)) m1)).1 o' = get m1 o')
          by (intros o'; unfold tick; destruct (get_fuse KDrop _ =? 0)%N; reflexivity).
        destruct (tick KDrop (emit (ECb KDrop o (cur_flags K m1)) m1)) as [m2 boom]; cbn [fst] in C2, V2, Hg2.
        assert (Hx2 : get m2 o = Some x1) by (rewrite Hg2; exact Hx1).
        set (script := oscript P (c_drop (class_of P (o_cls x)))).
        destruct boom.
        { unfold raise. destruct (panicking m2); [cbn [fst snd]; discriminate|].
          pose proof (unwinding_not_normal (rec (KDropFields o 0)) m2) as Hnn.
          destruct (unwinding (rec (KDropFields o 0)) m2) as [m4 r4]. cbn [fst snd] in *. intros ->. congruence. }
        destruct (rec (KScript (Some o) script) m2) as [m3 r] eqn:Hcs.
        destruct r; try (cbn [fst snd]; discriminate).
        2: { pose proof (unwinding_not_normal (rec (KDropFields o 0)) m3) as Hnn.
             destruct (unwinding (rec (KDropFields o 0)) m3) as [m4 r4]. cbn [fst snd] in *. intros ->. congruence. }
        assert (Hso : self_ok E (Some o) script m2) by (right; split; [apply (wf_drop_script P Hwf) | exists x1; auto]).
        destruct (sub E (KScript (Some o) script) m2 m3 eq_refl (nb C2) (inv C2) Hso (conj V2 (oscript_rust _)) Hcs) as [HP1 V3].
        destruct (Cur_call_n K PostC (KScript (Some o) script) _ _ _ _ _ _ _ _ _ eq_refl C2 HP1 (fun o => le_n _) (or_introl eq_refl)) as [C3 _].
        assert (HF : Fr K E None m2 m3) by (rewrite Post_nc in HP1 by reflexivity; apply HP1).
        destruct (fr_obj _ _ _ _ _ HF o x1 Hx2) as (x3 & Hx3 & OF).
        destruct (of_dropping _ _ _ _ _ _ _ OF Hv1) as (D1 & _); [discriminate|].
        destruct (rec (KDropFields o 0) m3) as [m4 r2] eqn:Hc2. cbn [fst snd]. intros ->.
        destruct (sub E (KDropFields o 0) m3 m4 eq_refl (nb C3) (inv C3) (ex_intro _ x3 (conj Hx3 D1)) (conj V3 I) Hc2) as [_ V4].
        apply Hfinal, V4. }
    destruct Hvst as [Hv|Hv]; rewrite Hv; exact Hmain.
  Qed.

  (** *** Cc::drop *)
  Lemma add_to_list_in o m :
    pc_alive m = true -> (is_in_pc (hdr_of m o) = true -> o ∈ pc m) -> o ∈ pc (add_to_list o m).
  Proof.
    unfold add_to_list. destruct (is_in_pc (hdr_of m o)) eqn:Ep; [auto|]. intros -> _.
    destruct (_ && _); cbn; left.
  Qed.

  Lemma Ibuf_marked_A m o x :
    BufBase.Ibuf K A m -> get m o = Some x -> o_box x = BAlloc -> marked x = true -> o ∈ A.
  Proof.
    intros HB Hx Hb Hm. unfold marked, is_in_list_or_queue in Hm. destruct (h_mark (o_hdr x)) eqn:Em; try discriminate.
    - eapply Ibuf_IL_member; eauto.
    - destruct (Buf.Ibuf_spec K A m HB) as (_ & _ & (_ & _ & _ & B4) & _). destruct (B4 o x Hx Em).
  Qed.
  Lemma Ibuf_PC_pc m o x :
    BufBase.Ibuf K A m -> get m o = Some x -> h_mark (o_hdr x) = PC -> o ∈ pc m.
  Proof. intros HB Hx Hm. destruct (Buf.Ibuf_spec K A m HB) as (_ & (_ & B2) & _). eapply B2; eauto. Qed.

  (** handle_possible_cycle: the object is buffered, so its in-flight handle may be forgotten *)
  Lemma cv_drop_cc_buffer E o m x :
    SInv K true (o :: E) [] m -> BufBase.Ibuf K A m -> Cv (o :: E) A [] m ->
    get m o = Some x -> h_rc (o_hdr x) <> 0%N -> h_rc (o_hdr x) <> 1%N ->
    Cv E A [] (add_to_list o (dec_rc_m o m)).
  Proof.
    intros HI HB V Hx Hnz Hr1.
    assert (N : nsimp P [] m (add_to_list o (dec_rc_m o m))).
    { eapply nsimp_trans; [apply nsimp_dec_rc | apply nsimp_add_to_list]. right. intros y Hy _. congruence. }
    destruct (Cv_nsimp0 P (o :: E) A [] m _ N V) as [V1 V2]. split; [|exact V2].
    apply (CoverE_drop_root_cl P E A o _); [|exact V1]. apply Cl_pc.
    apply add_to_list_in.
    - rewrite (dec_rc_m_eq m o x Hx Hnz). apply (sv_alive _ _ _ _ _ HI).
    - rewrite (dec_rc_m_eq m o x Hx Hnz). unfold hdr_of, uhdr. rewrite (get_upd_eq _ _ _ _ Hx). cbn. intros Hp.
      change (pc (uhdr o (fun _ => set_rc (h_rc (o_hdr x) - 1) (o_hdr x)) m)) with (pc m).
      apply (Ibuf_PC_pc m o x HB Hx). unfold is_in_pc in Hp. cbn in Hp. destruct (h_mark (o_hdr x)); try discriminate. reflexivity.
  Qed.

  (** the last part of Cc::drop: the strong count reaches zero *)
  Lemma cv_drop_cc_tail E o m0 mg xg :
    Cur K true true E None m0 (o :: E) [] mg -> Cv (o :: E) A [] mg ->
    get mg o = Some xg -> o_box xg = BAlloc -> o_vst xg = VLive -> inD mg o = false ->
    marked xg = false -> h_rc (o_hdr xg) = 1%N -> is_dropped (o_hdr xg) = false ->
    forall res,
    res = (let m := dec_rc_m o mg in
       let m := remove_from_list o m in
       let old_d := st_dropping m in
       let m := m <| st_dropping := true |> in
       let m := if k_weak K then uhdr o set_dropped m else m in
       let '(m, r) := rec (KDropValue o) m in
       match r with
       | ONormal =>
         let m := drop_metadata K o m in
         let m := dealloc K o m in
         (m <| st_dropping := old_d |>, ONormal)
       | _ => (m <| st_dropping := old_d |>, r)
       end) ->
    res.2 = ONormal -> Cv E A [] res.1.
  Proof.
    intros Cg Vg Hxg Hbg Hvg Hig Hmg Hrg Hdg res ->. cbv zeta.
    pose proof (Cur_dec_rc K _ _ _ _ _ _ _ _ _ Cg) as C1.
    assert (Va : Cv (o :: E) A [o] (dec_rc_m o mg)).
    { apply (Cv_nsimp P [o] (o :: E) A [] mg); [|exact Vg]. apply nsimp_dec_rc. left. left. }
    rewrite (dec_rc_m_eq mg o xg Hxg) in * by (rewrite Hrg; discriminate).
    set (x1 := xg <| o_hdr ::= fun _ => set_rc (h_rc (o_hdr xg) - 1) (o_hdr xg) |>).
    set (m1 := uhdr o (fun _ => set_rc (h_rc (o_hdr xg) - 1) (o_hdr xg)) mg) in *.
    assert (Hx1 : get m1 o = Some x1) by (apply get_upd_eq, Hxg).
    pose proof (Cur_remove_from_list K _ _ _ _ _ _ _ _ o x1 C1 Hx1 Hbg) as C2.
    destruct (remove_from_list_obj m1 o x1 Hx1) as (x2 & Hx2 & (S1 & S2 & S3 & S4 & S5 & S6 & S7 & S8 & S9) & R1 & R2 & R3 & R4 & R5 & R6).
    assert (Vb : Cv (o :: E) A [o] (remove_from_list o m1)).
    { apply (Cv_nsim P [] (o :: E) A [o] m1); [apply nsim_remove_from_list | | exact Va].
      intros r Hr. destruct (decide (r = o)) as [->|Hne]; [right; apply Cl_E; left | left; apply pc_remove_from_list; assumption]. }
    set (m2 := remove_from_list o m1) in *.
    assert (Hrc2 : h_rc (o_hdr x2) = 0%N) by (rewrite R1; unfold x1; cbn; rewrite Hrg; reflexivity).
    assert (Hb2 : o_box x2 = BAlloc) by (rewrite S2; exact Hbg).
    assert (Hv2 : o_vst x2 = VLive) by (rewrite S1; exact Hvg).
    assert (Hi2 : inD m2 o = false) by (unfold inD; rewrite R6; exact Hig).
    assert (Hm2 : marked x2 = false) by (apply R4; exact Hmg).
    assert (Hd2 : is_dropped (o_hdr x2) = false) by (unfold is_dropped; rewrite R2; exact Hdg).
    assert (Hnpc : o ∉ pc m2) by (apply (remove_from_list_notin K true E [] m1 o (inv C1))).
    pose proof (inv C2) as HI2.
    assert (He0 : cnt_id o E = 0%nat).
    { destruct (okN_alloc K _ _ _ _ _ (sv_obj _ _ _ _ _ HI2 _ _ Hx2)) as (O1 & _); [congruence|]. rewrite Hrc2 in O1. lia. }
    pose proof (Cur_init K true true E (Some o) E [] m2 (nb C2) HI2) as D0.
    pose proof (Cur_set_dropping_true K _ _ _ _ _ _ _ _ D0) as D1.
    set (m3 := m2 <| st_dropping := true |>) in *.
    assert (Hx3 : get m3 o = Some x2) by exact Hx2.
    assert (Vc : Cv (o :: E) A [o] m3) by (eapply Cv_heap; [..|exact Vb]; reflexivity).
    set (m4 := if k_weak K then uhdr o set_dropped m3 else m3).
    assert (D2 : Cur K true true E (Some o) m2 E [] m4 /\
                 exists x4, get m4 o = Some x4 /\ o_box x4 = BAlloc /\ o_vst x4 = VLive /\ h_rc (o_hdr x4) = 0%N /\
                            (k_weak K = true -> is_dropped (o_hdr x4) = true) /\ inD m4 o = false /\ o ∉ pc m4).
    { unfold m4. destruct (k_weak K) eqn:Hk.
      - split.
        + apply (Cur_set_dropped K _ _ _ _ _ _ _ _ o x2 D1 Hx3); auto; congruence.
        + exists (x2 <| o_hdr ::= set_dropped |>). split; [apply get_upd_eq, Hx3|]. cbn. repeat split; auto; congruence.
      - split; [exact D1|]. exists x2. repeat split; auto; try congruence; try discriminate. }
    destruct D2 as (D2 & x4 & Hx4 & Hb4 & Hv4 & Hrc4 & Hdr4 & Hi4 & Hpc4).
    assert (Vd : Cv (o :: E) A [o] m4).
    { unfold m4. destruct (k_weak K); [|exact Vc]. eapply Cv_nsimp0; [|exact Vc]. apply nsimp_uhdr_rc. reflexivity. }
    assert (Hdroppable : droppable K E m4 o).
    { exists x4. split; [exact Hx4|]. split; [exact He0|]. rewrite Hb4. split; [exact Hv4|]. split; [exact Hdr4|]. left. auto. }
    fold m4.
    destruct (rec (KDropValue o) m4) as [m5 r] eqn:Hc. destruct r; try (cbn [fst snd]; discriminate). intros _.
    destruct (sub E (KDropValue o) m4 m5 eq_refl (nb D2) (inv D2) Hdroppable (conj Vd I) Hc) as [_ V5].
    cbn [fst snd]. eapply Cv_nsimp0; [|exact V5].
    eapply nsimp_trans; [apply nsimp_drop_metadata|]. eapply nsimp_trans; [apply nsimp_dealloc|]. apply nsimp_same; reflexivity.
  Qed.

  Lemma cv_step_drop_cc E o m :
    Pre K PreC true E (KDropCc o) m -> BufBase.Ibuf K A m -> CvPre E A (KDropCc o) m ->
    (step_drop_cc K P rec o m).2 = ONormal -> CvPost E A (KDropCc o) (step_drop_cc K P rec o m).1.
  Proof.
    rewrite Pre_nc by reflexivity. cbn [own_of app]. intros (Hnb & HI & Hown) HB [V _].
    pose proof (Cur_init K true true E None (o :: E) [] m Hnb HI) as C0.
    destruct (Cur_own_alloc K _ _ _ _ _ _ _ _ _ C0) as (x & Hx & Hb & R1 & R2).
    unfold step_drop_cc. rewrite Hx, Hb.
    destruct (is_in_list_or_queue (o_hdr x)) eqn:Hmk.
    { intros _. cbn [fst snd].
      assert (HoA : o ∈ A) by (eapply Ibuf_marked_A; eauto).
      destruct V as [V1 V2]. destruct (proj2 V2 o HoA) as (x' & Hx' & Hnm). assert (x' = x) by congruence. subst x'.
      assert (N : nsimp P [] m (dec_rc_m o m)) by (apply nsimp_dec_rc; right; intros y Hy Hm; congruence).
      destruct (Cv_nsimp0 P (o :: E) A [] m _ N (conj V1 V2)) as [V1' V2']. split; [|exact V2'].
      apply (CoverE_drop_root_cl P E A o _); [apply Cl_A, HoA | exact V1']. }
    assert (Hi : inD m o = false).
    { destruct (inD m o) eqn:Ei; [|reflexivity]. specialize (Hown Ei). rewrite (marked_at_get _ _ _ Hx) in Hown.
      unfold marked in Hown. congruence. }
    destruct (inflight_live K _ _ _ _ _ _ HI Hx Hi) as (_ & Hv & Hd & Hnz).
    destruct (h_rc (o_hdr x) =? 1)%N eqn:Hr1.
    2: { apply N.eqb_neq in Hr1. intros _. cbn [fst snd]. apply (cv_drop_cc_buffer E o m x HI HB V Hx Hnz Hr1). }
    apply N.eqb_eq in Hr1.
    set (finstep := fun m : machine =>
        if k_fin K && needs_fin (o_hdr x)
        then
         let old_f := st_finalizing m in
         let m0 := m <| st_finalizing := true |> in
         let m1 := uhdr o (set_fin true) m0 in
         let '(m2, r) :=
           if o_ismap x
           then (m1, ONormal)
           else
            let m2 := emit (ECb KFin o (cur_flags K m1)) m1 in
            let '(m3, boom) := tick KFin m2 in
            if boom then (m3, raise m3) else rec (KScript (Some o) (oscript P (c_fin (class_of P (o_cls x))))) m3 in
         match r with
         | ONormal =>
             if (h_rc (hdr_of m2 o) =? 1)%N
             then (m2 <| st_finalizing := old_f |>, ONormal, true)
             else (add_to_list o (dec_rc_m o m2) <| st_finalizing := old_f |>, ONormal, false)
         | _ => (m2 <| st_finalizing := old_f |>, r, false)
         end
        else (m, ONormal, true)).
    assert (Hfin : forall mf rf go, finstep m = (mf, rf, go) ->
              (go = true -> rf = ONormal /\ Cur K true true E None m (o :: E) [] mf /\ Cv (o :: E) A [] mf /\
                 exists xf, get mf o = Some xf /\ o_box xf = BAlloc /\ o_vst xf = VLive /\ inD mf o = false /\
                            marked xf = false /\ h_rc (o_hdr xf) = 1%N /\ is_dropped (o_hdr xf) = false) /\
              (go = false -> rf = ONormal -> Cv E A [] mf)).
    { intros mf rf go Hres. unfold finstep in Hres.
      destruct (k_fin K && needs_fin (o_hdr x)) eqn:Hkf.
      2: { injection Hres as <- <- <-. split; [|discriminate]. intros _. split; [reflexivity|]. split; [exact C0|]. split; [exact V|].
           exists x. unfold marked. repeat split; auto. }
      cbv zeta in Hres.
      pose proof (Cur_set_finalizing K _ _ _ _ _ _ _ _ true C0) as C1.
      set (m1 := m <| st_finalizing := true |>) in *.
      assert (Hx1 : get m1 o = Some x) by exact Hx.
      pose proof (Cur_uhdr_same K _ _ _ _ _ _ _ _ o (set_fin true) x C1 Hx1 Hb) as C2.
      specialize (C2 ltac:(intros h; repeat split)).
      set (m2 := uhdr o (set_fin true) m1) in *.
      set (x2 := x <| o_hdr ::= set_fin true |>).
      assert (Hx2 : get m2 o = Some x2) by (apply get_upd_eq, Hx1).
      assert (V2 : Cv (o :: E) A [] m2).
      { eapply Cv_nsimp0; [|exact V]. apply (nsimp_trans P [] m m1 m2); [apply nsimp_same; reflexivity | apply nsimp_uhdr_rc; reflexivity]. }
      assert (Hcall : forall m3,
                (if o_ismap x then (m2, ONormal)
                 else let m2' := emit (ECb KFin o (cur_flags K m2)) m2 in
                      let '(m3, boom) := tick KFin m2' in
                      if boom then (m3, raise m3) else rec (KScript (Some o) (oscript P (c_fin (class_of P (o_cls x))))) m3) = (m3, ONormal) ->
                Cur K true true E None m (o :: E) [] m3 /\ Cv (o :: E) A [] m3 /\
                   (h_rc (hdr_of m3 o) <> 1%N -> BufBase.Ibuf K A m3) /\
                   exists x3, get m3 o = Some x3 /\ o_box x3 = BAlloc /\ o_vst x3 = VLive /\ inD m3 o = false /\ marked x3 = false).
      { intros m3 Hc. destruct (o_ismap x) eqn:Hmap.
        - injection Hc as <-. split; [exact C2|]. split; [exact V2|]. split.
          + intros Hne. exfalso. apply Hne. rewrite (hdr_of_get _ _ _ Hx2). exact Hr1.
          + exists x2. unfold marked. repeat split; auto.
        - cbv zeta in Hc.
          pose proof (Cur_tick K _ _ _ _ _ _ _ _ KFin (Cur_emit K _ _ _ _ _ _ _ _ (ECb KFin o (cur_flags K m2)) C2 eq_refl)) as C3.
          assert (V3 : Cv (o :: E) A [] (tick KFin (emit (ECb KFin o (cur_flags K m2)) m2)).1).
          { eapply Cv_nsimp0; [|exact V2]. eapply nsimp_trans; [apply nsimp_emit | apply nsimp_tick]. }
          assert (Hg3 : forall o', get (tick KFin (emit (ECb KFin o (cur_flags K m2)) m2)).1 o' = get m2 o')
            by (intros o'; unfold tick; destruct (get_fuse KFin _ =? 0)%N; reflexivity).
          assert (Hd3 : forall o', inD (tick KFin (emit (ECb KFin o (cur_flags K m2)) m2)).1 o' = inD m o')
            by (intros o'; unfold tick; destruct (get_fuse KFin _ =? 0)%N; reflexivity).
          destruct (tick KFin (emit (ECb KFin o (cur_flags K m2)) m2)) as [m3' boom]. cbn [fst] in C3, V3, Hg3, Hd3.
          destruct boom; [injection Hc as _ Hc; destruct (raise_not_normal _ Hc)|].
          assert (Hx3' : get m3' o = Some x2) by (rewrite Hg3; exact Hx2).
          assert (Hso : self_ok (o :: E) (Some o) (oscript P (c_fin (class_of P (o_cls x)))) m3').
          { left. exists x2. rewrite Hd3. repeat split; auto. left. rewrite cnt_id_cons_eq. lia. }
          destruct (sub (o :: E) (KScript (Some o) (oscript P (c_fin (class_of P (o_cls x))))) m3' m3 eq_refl (nb C3) (inv C3) Hso
                      (conj V3 (oscript_rust _)) Hc) as [HP1 V4].
          destruct (Cur_call_n K PostC (KScript (Some o) _) _ _ _ _ _ _ _ _ _ eq_refl C3 HP1 (cnt_le_cons E o) (or_introl eq_refl)) as [C4 _].
          split; [exact C4|]. split; [exact V4|]. split; [intros _; eapply sub_buf; [|exact Hc|exact HP1]; reflexivity|].
          rewrite Post_nc in HP1 by reflexivity. destruct HP1 as (_ & _ & HF & _).
          destruct (fr_obj _ _ _ _ _ HF o x2 Hx3') as (x3 & Hx3 & OF).
          destruct (of_prot _ _ _ _ _ _ _ OF) as (P1 & P2 & P3 & _); [discriminate | exact Hb | left; rewrite cnt_id_cons_eq; lia |].
          exists x3. split; [exact Hx3|]. split; [exact P1|]. split; [rewrite P2; exact Hv|].
          split; [destruct (inD m3 o) eqn:Ei; [rewrite Hd3 in P3; rewrite (P3 eq_refl) in Hi; discriminate | reflexivity]|].
          apply (of_unmarked _ _ _ _ _ _ _ OF); [exact Hmk | congruence]. }
      fold m1 m2 in Hres.
      destruct (if o_ismap x then (m2, ONormal)
                else let m2' := emit (ECb KFin o (cur_flags K m2)) m2 in
                     let '(m3, boom) := tick KFin m2' in
                     if boom then (m3, raise m3) else rec (KScript (Some o) (oscript P (c_fin (class_of P (o_cls x))))) m3) as [m3 r] eqn:Hc.
      destruct r.
      - destruct (Hcall m3 eq_refl) as (C3 & V3 & HB3 & x3 & Hx3 & Hb3 & Hv3 & Hi3 & Hm3).
        rewrite (hdr_of_get _ _ _ Hx3) in Hres, HB3.
        destruct (h_rc (o_hdr x3) =? 1)%N eqn:Hr3; injection Hres as <- <- <-.
        + split; [|discriminate]. intros _. split; [reflexivity|]. apply N.eqb_eq in Hr3.
          split; [eapply Cur_ieq; [exact C3 | repeat split | apply C3]|].
          split; [eapply Cv_heap; [..|exact V3]; reflexivity|].
          exists x3.
          destruct (inflight_live K _ _ _ _ _ _ (inv C3) Hx3 Hi3) as (_ & _ & Hd3 & _).
          repeat split; auto.
        + split; [discriminate|]. intros _ _. apply N.eqb_neq in Hr3.
          destruct (inflight_live K _ _ _ _ _ _ (inv C3) Hx3 Hi3) as (_ & _ & _ & Hnz3).
          eapply Cv_heap; [..|apply (cv_drop_cc_buffer E o m3 x3 (inv C3) (HB3 Hr3) V3 Hx3 Hnz3 Hr3)]; reflexivity.
      - injection Hres as <- <- <-. split; discriminate.
      - injection Hres as <- <- <-. split; discriminate.
      - injection Hres as <- <- <-. split; discriminate. }
    match goal with |- context [if k_fin K && needs_fin (o_hdr x) then ?a else ?bb] =>
      change (if k_fin K && needs_fin (o_hdr x) then a else bb) with (finstep m) end.
    destruct (finstep m) as [[mf rf] go] eqn:Hfs. destruct (Hfin mf rf go eq_refl) as [Hgo Hnogo]. clear Hfin.
    destruct go; cbn [negb].
    - destruct (Hgo eq_refl) as (-> & Cf & Vf & xf & Hxf & Hbf & Hvf & Hif & Hmf & Hrf & Hdf).
      apply (cv_drop_cc_tail E o m mf xf Cf Vf Hxf Hbf Hvf Hif Hmf Hrf Hdf _ eq_refl).
    - cbn [fst snd]. intros Hn. apply Hnogo; [reflexivity | exact Hn].
  Qed.

  (** ** Commands *)
  (** *** locations *)
  Lemma nsimp_node_via_slot Xs i m : nsimp P Xs m (node_via_slot i m).1.
  Proof.
    unfold node_via_slot. destruct (slots m !! i) as [[o|]|]; try apply nsimp_refl.
    destruct (get m o) as [x|]; [|apply nsimp_emit_bad]. destruct (o_box x); try apply nsimp_emit_bad.
    destruct (_ && _); [apply nsimp_refl | apply nsimp_emit_bad].
  Qed.
  Lemma nsimp_resolve Xs self l m : nsimp P Xs m (resolve self l m).1.
  Proof.
    destruct l as [i|j|i j]; cbn [resolve]; [apply nsimp_refl | destruct (self_node self m); apply nsimp_refl |].
    pose proof (nsimp_node_via_slot Xs i m) as N. destruct (node_via_slot i m) as [m1 [o|]]; exact N.
  Qed.
  Lemma nsimp_wresolve Xs self l m : nsimp P Xs m (wresolve self l m).1.
  Proof.
    destruct l as [i|j|i j|]; cbn [wresolve]; [apply nsimp_refl | destruct (self_node self m); apply nsimp_refl | | apply nsimp_refl].
    pose proof (nsimp_node_via_slot Xs i m) as N. destruct (node_via_slot i m) as [m1 [o|]]; exact N.
  Qed.
  Lemma nsimp_nresolve Xs self nd m : nsimp P Xs m (nresolve self nd m).1.
  Proof. destruct nd; cbn [nresolve]; [apply nsimp_refl | apply nsimp_node_via_slot]. Qed.

  Lemma resolve_inv self l m m' rl :
    resolve self l m = (m', Some rl) ->
    match l with
    | LS i => rl = RSlot i
    | LFS j => exists p x, self = Some p /\ get m p = Some x /\ rl = RField p j
    | LFA i j => exists p, slots m !! i = Some (Some p) /\ rl = RField p j
    end.
  Proof.
    destruct l as [i|j|i j]; cbn [resolve].
    - destruct (decide (i < nslots)%nat); intros [= _ <-]; reflexivity.
    - unfold self_node. destruct self as [p|]; [|discriminate]. destruct (get m p) as [x|] eqn:Hx; [|discriminate].
      destruct (value_accessible true x); [|discriminate]. rewrite Hx.
      destruct (decide (j < length (o_fields x))%nat); intros [= _ <-]. eauto.
    - unfold node_via_slot. destruct (slots m !! i) as [[p|]|] eqn:Es; try discriminate.
      destruct (get m p) as [x|] eqn:Hx; [|discriminate]. destruct (o_box x); try discriminate.
      destruct (_ && _); [|discriminate]. rewrite Hx.
      destruct (decide (j < length (o_fields x))%nat); intros [= _ <-]. eauto.
  Qed.

  Lemma self_cases E self c m :
    self_ok E self [c] m -> BufBase.Ibuf K A m ->
    forall p, self = Some p -> (p ∈ E \/ p ∈ A) \/ cmd_no_self c = true.
  Proof.
    intros Hs HB p ->. cbn in Hs. destruct Hs as [(x & Hx & Hb & Hv & Hi & Hm & [Hp|[Hp Hc]])|[Hn _]].
    - left; left. apply cnt_id_pos. exact Hp.
    - left; right. eapply Ibuf_marked_A; eauto.
    - right. rewrite andb_true_r in Hn. exact Hn.
  Qed.

  (** the handle read from a location of the command is classified without the buffer *)
  Lemma held_cl E self c l m m' rl o :
    self_ok E self [c] m -> BufBase.Ibuf K A m -> (cmd_no_self c = true -> loc_no_self l = true) ->
    resolve self l m = (m', Some rl) -> read_loc rl m = Some o -> ClNP P E A m o.
  Proof.
    intros Hs HB Hl Hres Hrd. apply resolve_inv in Hres. destruct l as [i|j|i j].
    - subst rl. cbn in Hrd. destruct (slots m !! i) as [[t|]|] eqn:Es; cbn in Hrd; try discriminate.
      injection Hrd as ->. eapply ClNP_slot; eauto.
    - destruct Hres as (p & x & -> & Hx & ->). cbn in Hrd. rewrite Hx in Hrd. cbn in Hrd.
      destruct (o_fields x !! j) as [[t|]|] eqn:Ej; cbn in Hrd; try discriminate. injection Hrd as ->.
      eapply ClNP_field; [exact Hx | exact Ej|].
      destruct (self_cases E (Some p) c m Hs HB p eq_refl) as [[?|?]|Hn]; [apply ClNP_E; assumption | apply ClNP_A; assumption|].
      specialize (Hl Hn). discriminate.
    - destruct Hres as (p & Hp & ->). cbn in Hrd. destruct (get m p) as [x|] eqn:Hx; cbn in Hrd; [|discriminate].
      destruct (o_fields x !! j) as [[t|]|] eqn:Ej; cbn in Hrd; try discriminate. injection Hrd as ->.
      eapply ClNP_field; [exact Hx | exact Ej | eapply ClNP_slot; eauto].
  Qed.

  (** the destination of a store: its holder is reached through [Self] or through a slot that
      still holds it *)
  Lemma store_ok_of E self c dst m m' rl m1 :
    self_ok E self [c] m -> BufBase.Ibuf K A m -> (cmd_no_self c = true -> loc_no_self dst = true) ->
    resolve self dst m = (m', Some rl) ->
    (forall i j p, dst = LFA i j -> slots m !! i = Some (Some p) -> slots m1 !! i = Some (Some p)) ->
    store_ok P E A rl m1.
  Proof.
    intros Hs HB Hl Hres Hsl. apply resolve_inv in Hres. destruct dst as [i|j|i j].
    - subst rl. exact I.
    - destruct Hres as (p & x & -> & Hx & ->). intros xp _ _. right.
      destruct (self_cases E (Some p) c m Hs HB p eq_refl) as [[?|?]|Hn]; [apply Cl_E; assumption | apply Cl_A; assumption|].
      specialize (Hl Hn). discriminate.
    - destruct Hres as (p & Hp & ->). intros xp _ _. right. eapply Cl_slot. apply (Hsl i j p eq_refl Hp).
  Qed.
  (** ... or the stored handle is a fresh object without successors *)
  Lemma store_ok_fresh E o rl m1 :
    CoverE P (o :: E) A [] m1 -> all_succ m1 o = [] -> (forall p j, rl = RField p j -> p <> o) ->
    store_ok P E A rl m1.
  Proof.
    intros H Hs Hne. destruct rl as [i|p j]; [exact I|]. intros xp Hx Hr.
    destruct Hr as (Hb & _ & Hv & _). destruct (H p xp Hx Hb Hv) as [?|[Hn|Hc]]; [auto | inversion Hn|].
    right. eapply Cl_fresh_root; [exact Hs | apply (Hne p j eq_refl) | exact Hc].
  Qed.

  (** *** commands that only make neutral updates *)
  Lemma cv_pure E self c m (res : machine * outcome) :
    nsimp P [] m res.1 -> Cv E A [] m -> CvPost E A (KCmd self c) res.1.
  Proof. intros N V. eapply Cv_nsimp0; eauto. Qed.

  Lemma nsimp_ok Xs m m' r : nsimp P Xs m m' -> nsimp P Xs m (ok m' r).1.
  Proof. intros N. unfold ok. cbn [fst]. eapply nsimp_trans; [exact N | apply nsimp_emit]. Qed.

  Lemma nsimp_cmd_cfg_auto self b m : nsimp P [] m (cmd_cfg_auto K self b m).1.
  Proof. unfold cmd_cfg_auto. destruct (k_auto K); apply nsimp_ok; [apply nsimp_same; reflexivity | apply nsimp_refl]. Qed.
  Lemma nsimp_cmd_cfg_percent self n e m : nsimp P [] m (cmd_cfg_percent K self n e m).1.
  Proof.
    unfold cmd_cfg_percent. destruct (k_auto K); [|apply nsimp_ok, nsimp_refl].
    destruct (_ <? _)%N; [apply nsimp_refl | apply nsimp_ok; apply nsimp_same; reflexivity].
  Qed.
  Lemma nsimp_cmd_cfg_buffered self b m : nsimp P [] m (cmd_cfg_buffered K self b m).1.
  Proof. unfold cmd_cfg_buffered. destruct (k_auto K); apply nsimp_ok; [apply nsimp_same; reflexivity | apply nsimp_refl]. Qed.
  Lemma nsimp_cmd_arm self k v m : nsimp P [] m (cmd_arm self k v m).1.
  Proof. unfold cmd_arm. apply nsimp_ok, nsimp_set_fuse. Qed.
  Lemma nsimp_cmd_panic self m : nsimp P [] m (cmd_panic self m).1.
  Proof. apply nsimp_refl. Qed.
  Lemma nsimp_cmd_s_obs self m : nsimp P [] m (cmd_s_obs K self m).1.
  Proof. unfold cmd_s_obs. apply nsimp_ok, nsimp_emit. Qed.
  Lemma nsimp_cmd_obs self l m : nsimp P [] m (cmd_obs self l m).1.
  Proof.
    unfold cmd_obs. pose proof (nsimp_resolve [] self l m) as N. destruct (resolve self l m) as [m1 r]. cbn [fst] in N.
    destruct (r ≫= _) as [o|]; [|apply nsimp_ok, N]. destruct (get m1 o) as [x|]; [|apply nsimp_ok; eapply nsimp_trans; [exact N | apply nsimp_emit_bad]].
    apply nsimp_ok. eapply nsimp_trans; [exact N|]. eapply nsimp_trans; [|apply nsimp_emit].
    set (m2 := match o_box x with BAlloc => m1 | _ => emit_bad UseAfterFree o m1 end).
    assert (N2 : nsimp P [] m1 m2) by (subst m2; destruct (o_box x); first [apply nsimp_refl | apply nsimp_emit_bad]).
    eapply nsimp_trans; [exact N2|]. destruct (o_vst x); first [apply nsimp_refl | apply nsimp_emit_bad].
  Qed.
  Lemma nsimp_cmd_w_obs self w m : nsimp P [] m (cmd_w_obs K self w m).1.
  Proof.
    unfold cmd_w_obs. destruct (negb (k_weak K)); [apply nsimp_ok, nsimp_refl|].
    pose proof (nsimp_wresolve [] self w m) as N. destruct (wresolve self w m) as [m1 r]. cbn [fst] in N.
    destruct (r ≫= _) as [wr|]; [|apply nsimp_ok, N].
    pose proof (nsimp_weak_strong_count P [] wr m1) as N2. destruct (weak_strong_count wr m1) as [m2 sc]. cbn [fst] in N2.
    pose proof (nsim_weak_weak_count P [] wr m2) as N3.
    assert (Hpc : pc (weak_weak_count wr m2).1 = pc m2).
    { destruct wr as [|o]; cbn; [reflexivity|]. destruct (get m2 o) as [x|]; [|reflexivity]. destruct (o_side x) as [s|]; [|reflexivity].
      cbn. destruct (sd_freed s); reflexivity. }
    destruct (weak_weak_count wr m2) as [m3 wc]. cbn [fst] in N3, Hpc.
    apply nsimp_ok. eapply nsimp_trans; [exact N|]. eapply nsimp_trans; [exact N2|].
    eapply nsimp_trans; [apply nsimp_pceq; eassumption | apply nsimp_emit].
  Qed.
  Lemma nsimp_cmd_fin_again self l m : nsimp P [] m (cmd_fin_again K self l m).1.
  Proof.
    unfold cmd_fin_again. destruct (negb (k_fin K)); [apply nsimp_ok, nsimp_refl|].
    pose proof (nsimp_resolve [] self l m) as N. destruct (resolve self l m) as [m1 r]. cbn [fst] in N.
    destruct (r ≫= _) as [o|]; [|apply nsimp_ok, N].
    destruct (_ || _); [exact N|]. apply nsimp_ok. eapply nsimp_trans; [exact N | apply nsimp_uhdr_rc; reflexivity].
  Qed.
  Lemma nsimp_cmd_c_drop self c m : nsimp P [] m (cmd_c_drop K self c m).1.
  Proof.
    unfold cmd_c_drop. destruct (negb (k_clean K)); [apply nsimp_ok, nsimp_refl|].
    destruct (mjoin (cslots m !! c)) as [cr|]; [|apply nsimp_ok, nsimp_refl].
    apply nsimp_ok. eapply nsimp_trans; [|apply nsimp_weak_drop]. apply nsimp_same; reflexivity.
  Qed.
  Lemma nsimp_cmd_w_new self w m : nsimp P [] m (cmd_w_new K self w m).1.
  Proof.
    unfold cmd_w_new. destruct (negb (k_weak K)); [apply nsimp_ok, nsimp_refl|].
    pose proof (nsimp_wresolve [] self w m) as N. destruct (wresolve self w m) as [m1 r]. cbn [fst] in N.
    destruct r as [rw|]; [|apply nsimp_ok, N]. destruct (negb (wloc_writable rw)); [apply nsimp_ok, N|].
    apply nsimp_ok. eapply nsimp_trans; [exact N|]. eapply nsimp_trans; [apply nsimp_write_wloc | apply nsimp_weak_drop_opt].
  Qed.
  Lemma nsimp_cmd_w_drop self w m : nsimp P [] m (cmd_w_drop K self w m).1.
  Proof.
    unfold cmd_w_drop. destruct (negb (k_weak K)); [apply nsimp_ok, nsimp_refl|].
    pose proof (nsimp_wresolve [] self w m) as N. destruct (wresolve self w m) as [m1 r]. cbn [fst] in N.
    destruct r as [rw|]; [|apply nsimp_ok, N]. destruct (negb (wloc_writable rw)); [apply nsimp_ok, N|].
    destruct (read_wloc rw m1) as [wr|]; [|apply nsimp_ok, N].
    apply nsimp_ok. eapply nsimp_trans; [exact N|]. eapply nsimp_trans; [apply nsimp_write_wloc | apply nsimp_weak_drop].
  Qed.
  Lemma nsimp_cmd_w_clone self src dst m : nsimp P [] m (cmd_w_clone K self src dst m).1.
  Proof.
    unfold cmd_w_clone. destruct (negb (k_weak K)); [apply nsimp_ok, nsimp_refl|].
    pose proof (nsimp_wresolve [] self src m) as N. destruct (wresolve self src m) as [m1 rs]. cbn [fst] in N.
    pose proof (nsimp_wresolve [] self dst m1) as N1. destruct (wresolve self dst m1) as [m2 rd]. cbn [fst] in N1.
    assert (N2 : nsimp P [] m m2) by (eapply nsimp_trans; eauto).
    destruct (rs ≫= _) as [wr|]; [|apply nsimp_ok, N2]. destruct rd as [rd|]; [|apply nsimp_ok, N2].
    destruct (negb (wloc_writable rd)); [apply nsimp_ok, N2|].
    destruct (weak_clone wr m2) as [m3|] eqn:Hcl; [|exact N2].
    apply nsimp_ok. eapply nsimp_trans; [exact N2|]. eapply nsimp_trans; [eapply nsimp_weak_clone, Hcl|].
    eapply nsimp_trans; [apply nsimp_write_wloc | apply nsimp_weak_drop_opt].
  Qed.
  Lemma nsimp_cmd_borrow self nd m : nsimp P [] m (cmd_borrow self nd m).1.
  Proof.
    unfold cmd_borrow. pose proof (nsimp_nresolve [] self nd m) as N. destruct (nresolve self nd m) as [m1 no]. cbn [fst] in N.
    destruct no as [o|]; apply nsimp_ok; [|exact N]. eapply nsimp_trans; [exact N | apply nsimp_borrow].
  Qed.

  (** *** commands without recursive call that un-buffer, activate or move handles *)
  Lemma Cv_ok E X m r : Cv E A X m -> Cv E A X (ok m r).1.
  Proof. intros V. unfold ok. cbn [fst]. eapply Cv_nsimp0; [apply nsimp_emit | exact V]. Qed.

  Lemma cv_cmd_mark_alive E self l m :
    SInv K true E [] m -> self_ok E self [CMarkAlive l] m -> BufBase.Ibuf K A m -> Cv E A [] m ->
    Cv E A [] (cmd_mark_alive self l m).1.
  Proof.
    intros HI Hs HB V. unfold cmd_mark_alive.
    destruct (resolve_ok' K true E [] m self l HI (self_ok_loc _ _ _ _ l Hs (fun H => H))) as (ro & Hres & Hro). rewrite Hres.
    destruct ro as [r|]; cbn [mbind option_bind]; [|apply Cv_ok, V].
    destruct (read_loc r m) as [o|] eqn:Hr; [|apply Cv_ok, V].
    apply Cv_ok. apply (Cv_unbuffer P E A [] o m m (nsim_refl P [] m)); [|exact V].
    eapply (held_cl E self (CMarkAlive l) l m m r o Hs HB (fun H => H) Hres Hr).
  Qed.

  Lemma cv_cmd_downgrade E self l w m :
    SInv K true E [] m -> self_ok E self [CDowngrade l w] m -> BufBase.Ibuf K A m -> Cv E A [] m ->
    Cv E A [] (cmd_downgrade K self l w m).1.
  Proof.
    intros HI Hs HB V. unfold cmd_downgrade. destruct (negb (k_weak K)); [apply Cv_ok, V|].
    destruct (resolve_ok' K true E [] m self l HI (self_ok_loc _ _ _ _ l Hs (fun H => H))) as (ro & Hres & Hro). rewrite Hres.
    destruct (wresolve_ok K true E [] m self w HI (self_ok_w _ _ _ _ Hs)) as (rwo & -> & Hrwo).
    destruct ro as [r|]; cbn [mbind option_bind]; [|apply Cv_ok, V].
    destruct (read_loc r m) as [o|] eqn:Hr; [|apply Cv_ok, V].
    destruct rwo as [rw|]; [|apply Cv_ok, V].
    destruct (negb (wloc_writable rw)); [apply Cv_ok, V|].
    assert (N1 : nsimp P [] m (init_side o m)) by apply nsimp_init_side.
    destruct (side_wk (init_side o m) o ≫= inc_wk) as [k|]; [|cbn [fst]; eapply Cv_nsimp0; eauto].
    apply Cv_ok.
    assert (N2 : nsimp P [] m (uside o (fun _ => k) (init_side o m))) by (eapply nsimp_trans; [exact N1 | apply nsimp_uside]).
    eapply Cv_nsimp0; [eapply nsimp_trans; [apply nsimp_write_wloc | apply nsimp_weak_drop_opt]|].
    apply (Cv_unbuffer P E A [] o m _ (proj1 N2)); [|eapply Cv_nsimp0; [exact N2 | exact V]].
    eapply (held_cl E self (CDowngrade l w) l m m r o Hs HB (fun H => H) Hres Hr).
  Qed.

  Lemma nresolve_inv self nd m m' o :
    nresolve self nd m = (m', Some o) ->
    match nd with NSelf => self = Some o | NSlot i => slots m !! i = Some (Some o) end.
  Proof.
    destruct nd as [|i]; cbn [nresolve].
    - unfold self_node. destruct self as [p|]; [|discriminate]. destruct (get m p) as [x|]; [|discriminate].
      destruct (value_accessible true x); [|discriminate]. intros [= _ <-]. reflexivity.
    - unfold node_via_slot. destruct (slots m !! i) as [[p|]|] eqn:Es; try discriminate.
      destruct (get m p) as [x|]; [|discriminate]. destruct (o_box x); try discriminate.
      destruct (_ && _); [|discriminate]. intros [= _ <-]. reflexivity.
  Qed.

  Lemma cv_cmd_unborrow E self nd m :
    SInv K true E [] m -> self_ok E self [CUnborrow nd] m -> BufBase.Ibuf K A m -> Cv E A [] m ->
    Cv E A [] (cmd_unborrow self nd m).1.
  Proof.
    intros HI Hs HB V. unfold cmd_unborrow.
    destruct (nresolve_ok' K true E [] m self nd HI (self_ok_node _ _ _ _ nd Hs (fun H => H))) as (no & Hres & Hno). rewrite Hres.
    destruct no as [o|]; [|apply Cv_ok, V]. apply Cv_ok.
    destruct (Hno o eq_refl) as (x & Hx & Hb & Hv & Hi & Hm).
    destruct V as [V1 V2]. split; [|apply MO_upd_same; [intros y; repeat split | exact V2]].
    eapply CoverE_upd_act; [exact Hx | reflexivity | reflexivity | | exact V1].
    apply nresolve_inv in Hres. destruct nd as [|i].
    - destruct (self_cases E self (CUnborrow NSelf) m Hs HB o Hres) as [[?|?]|Hn]; [apply Cl_E; assumption | apply Cl_A; assumption | discriminate].
    - eapply Cl_slot. exact Hres.
  Qed.

  Lemma inc_rc_pos h h' : inc_rc h = Some h' -> h_rc h' <> 0%N.
  Proof. unfold inc_rc. destruct (_ =? _)%N; [discriminate|]. intros [= <-]. cbn. lia. Qed.

  Lemma cv_cmd_bag E self l k m :
    SInv K true E [] m -> self_ok E self [CBag l k] m -> BufBase.Ibuf K A m -> Cv E A [] m ->
    Cv E A [] (cmd_bag self l k m).1.
  Proof.
    intros HI Hs HB V. unfold cmd_bag.
    destruct (resolve_ok' K true E [] m self l HI (self_ok_loc _ _ _ _ l Hs (fun H => H))) as (ro & Hres & Hro). rewrite Hres.
    destruct ro as [r|]; cbn [mbind option_bind]; [|apply Cv_ok, V].
    destruct (read_loc r m) as [o|] eqn:Hr; [|apply Cv_ok, V].
    pose proof (held_cl E self (CBag l k) l m m r o Hs HB (fun H => H) Hres Hr) as Hh.
    generalize (N.to_nat k). intros kk. clear Hres Hr Hro HI Hs HB. revert m V Hh.
    induction kk as [|kk IH]; intros m V Hh; [apply Cv_ok, V|].
    destruct (inc_rc (hdr_of m o)) as [h|] eqn:Hinc; [|exact V].
    apply IH.
    - assert (N1 : nsimp P [] m (uhdr o (fun _ => h) m)).
      { apply nsimp_uhdr. right. intros _ _. eapply inc_rc_pos, Hinc. }
      assert (V2 : Cv E A [] (remove_from_list o (uhdr o (fun _ => h) m))).
      { apply (Cv_unbuffer P E A [] o m _ (proj1 N1) Hh). eapply Cv_nsimp0; [exact N1 | exact V]. }
      destruct V2 as [V21 V22]. split; [|eapply MO_heap; [|exact V22]; reflexivity].
      apply CoverE_bag_push. eapply CoverE_more; [| |exact V21]; [intros t Ht; right; exact Ht | auto].
    - apply ClNP_bag. cbn. left.
  Qed.

  Lemma values_remove_from_list o m : values (remove_from_list o m) = values m.
  Proof.
    unfold remove_from_list. destruct (is_in_pc (hdr_of m o)); [|reflexivity]. destruct (pc_alive m); [|reflexivity].
    unfold dec_size. destruct (_ =? 0)%N; reflexivity.
  Qed.
  Lemma notalive_set_vst o v m : v <> VLive -> notalive (upd o (fun x => x <| o_vst := v |>) m) o.
  Proof.
    intros Hv y Hy [_ Hl]. rewrite get_upd, decide_True in Hy by reflexivity.
    destruct (get m o) as [z|]; cbn in Hy; [|discriminate]. injection Hy as <-. cbn in Hl. contradiction.
  Qed.

  Lemma cv_cmd_try_unwrap E self l v m :
    SInv K true E [] m -> self_ok E self [CTryUnwrap l v] m -> Cv E A [] m ->
    Cv E A [] (cmd_try_unwrap K self l v m).1.
  Proof.
    intros HI Hs V. unfold cmd_try_unwrap.
    destruct (resolve_ok' K true E [] m self l HI (self_ok_loc _ _ _ _ l Hs (fun H => H))) as (ro & Hres & Hro). rewrite Hres.
    destruct ro as [r|]; [|apply Cv_ok, V].
    destruct (values m !! v) as [[o'|]|] eqn:Hval; try (apply Cv_ok, V).
    destruct (Hro r eq_refl) as (Hidx & _ & _).
    destruct (read_loc r m) as [o|] eqn:Hr; [|apply Cv_ok, V].
    destruct (negb (h_rc (hdr_of m o) =? 1)%N); [apply Cv_ok, V|].
    destruct (_ || _); [apply Cv_ok, V|]. apply Cv_ok.
    set (m1 := write_loc r None m).
    assert (V1 : Cv (o :: E) A [] m1).
    { destruct V as [V1 V2]. split; [|apply MO_write_loc, V2].
      pose proof (CoverE_write_loc P E A r None m Hidx ltac:(discriminate) V1) as H. rewrite Hr in H. exact H. }
    set (m2 := remove_from_list o m1).
    assert (V2 : Cv (o :: E) A [] m2).
    { apply (Cv_unbuffer P (o :: E) A [] o m1 m1 (nsim_refl P [] m1)); [apply ClNP_E; left | exact V1]. }
    set (m3 := upd o (fun x => x <| o_vst := VMoved |>) m2).
    assert (V3 : Cv E A [] m3).
    { assert (V3' : Cv (o :: E) A [] m3) by (eapply Cv_nsimp0; [apply nsimp_set_vst; discriminate | exact V2]).
      destruct V3' as [V31 V32]. split; [|exact V32].
      apply (CoverE_drop_root_dead P E A o m3); [apply notalive_set_vst; discriminate | exact V31]. }
    assert (Hv3 : values m3 !! v = Some None).
    { change (values m3) with (values m2). unfold m2. rewrite values_remove_from_list.
      assert (values m1 = values m) by (unfold m1; destruct r; reflexivity). congruence. }
    assert (V4 : Cv E A [] (m3 <| values ::= <[v := Some o]> |>)).
    { destruct V3 as [V31 V32]. split; [apply CoverE_values_set; assumption | eapply MO_heap; [|exact V32]; reflexivity]. }
    eapply Cv_nsimp0; [|exact V4]. eapply nsimp_trans; [apply nsimp_drop_metadata | apply nsimp_dealloc].
  Qed.

  (** *** commands with recursive calls *)
  Lemma cv_cmd_collect E self m :
    NoBad m -> SInv K true E [] m -> Cv E A [] m ->
    (cmd_collect rec self m).2 = ONormal -> Cv E A [] (cmd_collect rec self m).1.
  Proof.
    intros Hnb HI V. unfold cmd_collect.
    destruct (rec KCollectCycles m) as [m1 r] eqn:Hc. destruct r; try (cbn [fst snd]; discriminate). intros _.
    destruct (sub E KCollectCycles m m1 eq_refl Hnb HI I (conj V I) Hc) as [_ V1]. apply Cv_ok, V1.
  Qed.
  Lemma cv_cmd_unbag E self k m :
    NoBad m -> SInv K true E [] m -> Cv E A [] m ->
    (cmd_unbag rec self k m).2 = ONormal -> Cv E A [] (cmd_unbag rec self k m).1.
  Proof.
    intros Hnb HI V. unfold cmd_unbag.
    destruct (rec (KUnbag (N.to_nat k)) m) as [m1 r] eqn:Hc. destruct r; try (cbn [fst snd]; discriminate). intros _.
    destruct (sub E (KUnbag (N.to_nat k)) m m1 eq_refl Hnb HI I (conj V I) Hc) as [_ V1]. apply Cv_ok, V1.
  Qed.

  Lemma cv_cmd_drop E self l m :
    NoBad m -> SInv K true E [] m -> self_ok E self [CDrop l] m -> Cv E A [] m ->
    (cmd_drop rec self l m).2 = ONormal -> Cv E A [] (cmd_drop rec self l m).1.
  Proof.
    intros Hnb HI Hs V. unfold cmd_drop.
    pose proof (Cur_init K true true E None E [] m Hnb HI) as C0.
    destruct (resolve_ok' K true E [] m self l HI (self_ok_loc _ _ _ _ l Hs (fun H => H))) as (ro & -> & Hro).
    destruct ro as [r|]; [|intros _; apply Cv_ok, V].
    destruct (Hro r eq_refl) as (Hidx & Hh & Hg).
    destruct (read_loc r m) as [o|] eqn:Hr; [|intros _; apply Cv_ok, V].
    pose proof (Cur_write_loc K true true E None m E [] m r None C0 Hidx ltac:(discriminate) (holder_write_ok m r None Hh)) as C1.
    rewrite Hr in C1. cbn [ol app] in C1.
    assert (V1 : Cv (o :: E) A [] (write_loc r None m)).
    { destruct V as [V1 V2]. split; [|apply MO_write_loc, V2].
      pose proof (CoverE_write_loc P E A r None m Hidx ltac:(discriminate) V1) as H. rewrite Hr in H. exact H. }
    assert (Hown : own_ok (write_loc r None m) o).
    { intros Hd. destruct (Hg o eq_refl) as (x & _ & _ & _ & Hi & _).
      assert (inD (write_loc r None m) o = inD m o) by (destruct r; reflexivity). congruence. }
    destruct (rec (KDropCc o) (write_loc r None m)) as [m2 r'] eqn:Hc. destruct r'; try (cbn [fst snd]; discriminate). intros _.
    destruct (sub E (KDropCc o) _ m2 eq_refl (nb C1) (inv C1) Hown (conj V1 I) Hc) as [_ V2]. apply Cv_ok, V2.
  Qed.

  (** the common tail of clone / move / new / upgrade *)
  Lemma cv_store_tail E m m1 rd o (r : res) :
    SInv K true E [] m -> idx_valid m rd -> holder_good m rd ->
    Cur K true true E None m (o :: E) [] m1 -> is_map m1 o = false -> inD m1 o = false ->
    Cv (o :: E) A [] m1 -> store_ok P E A rd m1 ->
    (let '(m, r') := rec (KStore rd o) m1 in match r' with ONormal => ok m r | _ => (m, r') end).2 = ONormal ->
    Cv E A [] (let '(m, r') := rec (KStore rd o) m1 in match r' with ONormal => ok m r | _ => (m, r') end).1.
  Proof.
    intros HI Hidx Hh C1 Hm Hi V1 Hso.
    pose proof (loc_valid_later K true true E (o :: E) E m m1 rd HI Hidx Hh C1) as Hlv.
    pose proof (good_inflight K true E [] m1 o (inv C1) Hi Hm) as Hg.
    destruct (rec (KStore rd o) m1) as [m2 r'] eqn:Hc. destruct r'; try (cbn [fst snd]; discriminate). intros _.
    destruct (sub E (KStore rd o) m1 m2 eq_refl (nb C1) (inv C1) (conj Hlv Hg) (conj V1 Hso) Hc) as [_ V2]. apply Cv_ok, V2.
  Qed.

  Lemma slots_remove_from_list o m : slots (remove_from_list o m) = slots m.
  Proof.
    unfold remove_from_list. destruct (is_in_pc (hdr_of m o)); [|reflexivity]. destruct (pc_alive m); [|reflexivity].
    unfold dec_size. destruct (_ =? 0)%N; reflexivity.
  Qed.

  Lemma cv_cmd_move E self src dst m :
    NoBad m -> SInv K true E [] m -> self_ok E self [CMove src dst] m -> BufBase.Ibuf K A m -> Cv E A [] m ->
    rust_cmd (CMove src dst) = true ->
    (cmd_move rec self src dst m).2 = ONormal -> Cv E A [] (cmd_move rec self src dst m).1.
  Proof.
    intros Hnb HI Hs HB V Hrust'. unfold cmd_move.
    pose proof (Cur_init K true true E None E [] m Hnb HI) as C0.
    destruct (resolve_ok' K true E [] m self src HI (self_ok_loc _ _ _ _ src Hs ltac:(cbn; intros H; apply andb_true_iff in H; apply H))) as (ros & Hress & Hros).
    rewrite Hress.
    destruct (resolve_ok' K true E [] m self dst HI (self_ok_loc _ _ _ _ dst Hs ltac:(cbn; intros H; apply andb_true_iff in H; apply H))) as (rod & Hresd & Hrod).
    rewrite Hresd.
    destruct ros as [rs|]; [|intros _; apply Cv_ok, V]. destruct rod as [rd|]; [|intros _; apply Cv_ok, V].
    destruct (Hros rs eq_refl) as (Hidx & Hh & Hg). destruct (Hrod rd eq_refl) as (Hidxd & Hhd & _).
    destruct (read_loc rs m) as [o|] eqn:Hr; [|intros _; apply Cv_ok, V].
    pose proof (Cur_write_loc K true true E None m E [] m rs None C0 Hidx ltac:(discriminate) (holder_write_ok m rs None Hh)) as C1.
    rewrite Hr in C1. cbn [ol app] in C1.
    assert (V1 : Cv (o :: E) A [] (write_loc rs None m)).
    { destruct V as [V1 V2]. split; [|apply MO_write_loc, V2].
      pose proof (CoverE_write_loc P E A rs None m Hidx ltac:(discriminate) V1) as H. rewrite Hr in H. exact H. }
    destruct (Hg o eq_refl) as (x & Hx & _ & _ & Hi & Hm).
    apply (cv_store_tail E m _ rd o ROk HI Hidxd Hhd C1); [| |exact V1|].
    - rewrite (is_map_later K _ _ _ _ _ _ (frm C1) Hx). exact Hm.
    - destruct rs; exact Hi.
    - eapply (store_ok_of E self (CMove src dst) dst m m rd _ Hs HB); [cbn; intros H; apply andb_true_iff in H; apply H | exact Hresd|].
      intros i j p -> Hp. apply resolve_inv in Hress. destruct src as [i'|j'|i' j'].
      + subst rs. cbn in Hrust'. apply negb_true_iff, Nat.eqb_neq in Hrust'. cbn. rewrite list_lookup_insert_ne by exact Hrust'. exact Hp.
      + destruct Hress as (p' & x' & _ & _ & ->). exact Hp.
      + destruct Hress as (p' & _ & ->). exact Hp.
  Qed.

  Lemma cv_cmd_clone E self src dst m :
    NoBad m -> SInv K true E [] m -> self_ok E self [CClone src dst] m -> BufBase.Ibuf K A m -> Cv E A [] m ->
    (cmd_clone rec self src dst m).2 = ONormal -> Cv E A [] (cmd_clone rec self src dst m).1.
  Proof.
    intros Hnb HI Hs HB V. unfold cmd_clone.
    pose proof (Cur_init K true true E None E [] m Hnb HI) as C0.
    destruct (resolve_ok' K true E [] m self src HI (self_ok_loc _ _ _ _ src Hs ltac:(cbn; intros H; apply andb_true_iff in H; apply H))) as (ros & -> & Hros).
    destruct (resolve_ok' K true E [] m self dst HI (self_ok_loc _ _ _ _ dst Hs ltac:(cbn; intros H; apply andb_true_iff in H; apply H))) as (rod & Hresd & Hrod).
    rewrite Hresd.
    destruct ros as [rs|]; [|intros _; apply Cv_ok, V]. destruct rod as [rd|]; [|intros _; apply Cv_ok, V].
    destruct (Hros rs eq_refl) as (Hidx & Hh & Hg). destruct (Hrod rd eq_refl) as (Hidxd & Hhd & _).
    destruct (read_loc rs m) as [o|] eqn:Hr; [|intros _; apply Cv_ok, V].
    destruct (Hg o eq_refl) as (x & Hx & Hb & _ & Hi & Hm).
    destruct (inc_rc (hdr_of m o)) as [h|] eqn:Hinc; [|intros Hn; destruct (raise_not_normal _ Hn)].
    pose proof (Cur_inc_rc K true true E None m E [] m o x h C0 Hx Hb (rc_pos_of_loc K _ _ _ _ _ _ _ HI Hr Hx Hb) Hinc) as C1.
    pose proof (Cur_remove_from_list K _ _ _ _ _ _ _ _ o _ C1 (get_upd_eq _ _ _ _ Hx) Hb) as C2.
    assert (N1 : nsimp P [] m (uhdr o (fun _ => h) m)) by (apply nsimp_uhdr; right; intros _ _; eapply inc_rc_pos, Hinc).
    assert (V2 : Cv (o :: E) A [] (remove_from_list o (uhdr o (fun _ => h) m))).
    { apply (Cv_unbuffer P (o :: E) A [] o _ _ (nsim_refl P [] _)); [apply ClNP_E; left|].
      destruct (Cv_nsimp0 P E A [] m _ N1 V) as [V1 V2]. split; [|exact V2].
      eapply CoverE_more; [| |exact V1]; [intros t Ht; right; exact Ht | auto]. }
    apply (cv_store_tail E m _ rd o ROk HI Hidxd Hhd C2); [| |exact V2|].
    - rewrite (is_map_later K _ _ _ _ _ _ (frm C2) Hx). exact Hm.
    - rewrite inD_remove_from_list. exact Hi.
    - eapply (store_ok_of E self (CClone src dst) dst m m rd _ Hs HB); [cbn; intros H; apply andb_true_iff in H; apply H | exact Hresd|].
      intros i j p _ Hp. rewrite slots_remove_from_list. exact Hp.
  Qed.

  Lemma cv_cmd_upgrade E self w dst m :
    NoBad m -> SInv K true E [] m -> self_ok E self [CUpgrade w dst] m -> BufBase.Ibuf K A m -> Cv E A [] m ->
    (cmd_upgrade K rec self w dst m).2 = ONormal -> Cv E A [] (cmd_upgrade K rec self w dst m).1.
  Proof.
    intros Hnb HI Hs HB V. unfold cmd_upgrade. destruct (k_weak K) eqn:Hk; cbn [negb]; [|intros _; apply Cv_ok, V].
    pose proof (Cur_init K true true E None E [] m Hnb HI) as C0.
    destruct (wresolve_ok K true E [] m self w HI (self_ok_w _ _ _ _ Hs)) as (rwo & -> & Hrwo).
    destruct (resolve_ok' K true E [] m self dst HI (self_ok_loc _ _ _ _ dst Hs (fun H => H))) as (ro & Hresd & Hro).
    rewrite Hresd.
    destruct rwo as [rw|]; cbn [mbind option_bind]; [|intros _; apply Cv_ok, V].
    destruct (read_wloc rw m) as [wr|] eqn:Hr; [|intros _; apply Cv_ok, V].
    destruct ro as [rd|]; [|intros _; apply Cv_ok, V].
    destruct (Hrwo rw eq_refl) as (_ & Hw). destruct (Hw wr Hr) as (Hnm & Hpos).
    destruct (Hro rd eq_refl) as (Hidxd & Hhd & _).
    destruct wr as [|o]; [cbn [weak_strong_count]; rewrite N.eqb_refl; intros _; apply Cv_ok, V|].
    destruct (weak_strong_count_ok K true E [] m o HI Hk) as (sc & -> & Hsc); [specialize (Hpos o eq_refl); lia|].
    destruct (sc =? 0)%N eqn:Hz; [intros _; apply Cv_ok, V|]. apply N.eqb_neq in Hz.
    destruct (Hsc Hz) as (x & Hx & Hb & Hv & Hi & Hrc & Hd).
    destruct (inc_rc (hdr_of m o)) as [h|] eqn:Hinc; [|intros Hn; destruct (raise_not_normal _ Hn)].
    pose proof (Cur_inc_rc K true true E None m E [] m o x h C0 Hx Hb ltac:(congruence) Hinc) as C1.
    pose proof (Cur_remove_from_list K _ _ _ _ _ _ _ _ o _ C1 (get_upd_eq _ _ _ _ Hx) Hb) as C2.
    assert (N1 : nsimp P [] m (uhdr o (fun _ => h) m)) by (apply nsimp_uhdr; right; intros _ _; eapply inc_rc_pos, Hinc).
    assert (V2 : Cv (o :: E) A [] (remove_from_list o (uhdr o (fun _ => h) m))).
    { apply (Cv_unbuffer P (o :: E) A [] o _ _ (nsim_refl P [] _)); [apply ClNP_E; left|].
      destruct (Cv_nsimp0 P E A [] m _ N1 V) as [V1 V2]. split; [|exact V2].
      eapply CoverE_more; [| |exact V1]; [intros t Ht; right; exact Ht | auto]. }
    apply (cv_store_tail E m _ rd o (RSome o) HI Hidxd Hhd C2); [| |exact V2|].
    - rewrite (is_map_later K _ _ _ _ _ _ (frm C2) Hx). specialize (Hnm o eq_refl). unfold is_map in Hnm. rewrite Hx in Hnm. exact Hnm.
    - rewrite inD_remove_from_list. exact Hi.
    - eapply (store_ok_of E self (CUpgrade w dst) dst m m rd _ Hs HB); [intros H; exact H | exact Hresd|].
      intros i j p _ Hp. rewrite slots_remove_from_list. exact Hp.
  Qed.

  Lemma cv_cmd_drop_value E self v m :
    NoBad m -> SInv K true E [] m -> Cv E A [] m ->
    (cmd_drop_value rec self v m).2 = ONormal -> Cv E A [] (cmd_drop_value rec self v m).1.
  Proof.
    intros Hnb HI V. unfold cmd_drop_value.
    pose proof (Cur_init K true true E None E [] m Hnb HI) as C0.
    destruct (values m !! v) as [[o|]|] eqn:Hv; cbn [mjoin option_join]; try (intros _; apply Cv_ok, V).
    destruct (sv_values _ _ _ _ _ HI v o Hv) as [(x & Hx & Hb & Hvs) Hu].
    assert (C1 : Cur K true true E None m E [] (m <| values := <[v := None]> (values m) |>)).
    { apply Cur_values; [exact C0|]. intros v' o' Hv'.
      apply lookup_insert_Some_inv in Hv' as [[_ Hv']|[Hne Hv']]; [discriminate|].
      destruct (sv_values _ _ _ _ _ HI v' o' Hv') as [Hex Hu']. split; [exact Hex|].
      intros v'' Hv''. apply lookup_insert_Some_inv in Hv'' as [[_ Hv'']|[Hne' Hv'']]; [discriminate|]. apply Hu', Hv''. }
    assert (Hdr : droppable K E (m <| values := <[v := None]> (values m) |>) o).
    { exists x. split; [exact Hx|]. split.
      - apply cnt_id_zero. intros Hin. destruct (sv_E _ _ _ _ _ HI o Hin) as (y & Hy & Hby). congruence.
      - rewrite Hb. split; [exact Hvs|]. intros v' Hv'. cbn in Hv'.
        apply lookup_insert_Some_inv in Hv' as [[_ Hv']|[Hne Hv']]; [discriminate|]. apply Hne. symmetry. apply Hu, Hv'. }
    assert (V1 : Cv (o :: E) A [o] (m <| values ::= <[v := None]> |>)).
    { destruct V as [V1 V2]. split; [apply CoverE_values_unset; assumption|].
      eapply MO_heap; [reflexivity|]. eapply MO_mono; [| |exact V2]; [intros r Hr; inversion Hr | auto]. }
    change (m <| values ::= <[v := None]> |>) with (m <| values := <[v := None]> (values m) |>) in *.
    destruct (rec (KDropValue o) (m <| values := <[v := None]> (values m) |>)) as [m2 r'] eqn:Hc.
    destruct r'; try (cbn [fst snd]; discriminate). intros _.
    destruct (sub E (KDropValue o) _ m2 eq_refl (nb C1) (inv C1) Hdr (conj V1 I) Hc) as [_ V2]. apply Cv_ok, V2.
  Qed.

  (** the optional collection before an allocation *)
  Lemma cv_trigger_call E m m1 :
    Cur K true true E None m E [] m1 -> Cv E A [] m1 ->
    forall m2, (if k_auto K then rec KTrigger m1 else (m1, ONormal)) = (m2, ONormal) ->
      Cur K true true E None m E [] m2 /\ Cv E A [] m2 /\ Fr K E None m1 m2.
  Proof.
    intros C1 V1 m2 Hres.
    destruct (trigger_call K PreC PostC rec Hrec1 true E m true m1 C1 m2 ONormal Hres) as (HtN & _ & HtF).
    split; [apply HtN; reflexivity|]. split; [|apply HtF; left; reflexivity].
    destruct (k_auto K); [|injection Hres as <-; exact V1].
    destruct (sub E KTrigger m1 m2 eq_refl (nb C1) (inv C1) I (conj V1 I) Hres) as [_ V2]. exact V2.
  Qed.

  Lemma strong_targets_fresh n : omap (fun a : option id => a) (replicate n None) = [].
  Proof. induction n as [|n IH]; [reflexivity | exact IH]. Qed.

  (** [box_alloc] of an object that becomes an in-flight root *)
  Lemma Cv_box_alloc E o m x :
    get m o = Some x -> Cv E A [] m -> Cv (o :: E) A [] (box_alloc K o m).
  Proof.
    intros Hx [V1 V2]. unfold box_alloc. rewrite Hx. destruct (box_layout K x) as [sz al].
    eapply Cv_nsimp0; [apply nsimp_emit|].
    set (m1 := m <| st_alloc ::= fun a => (a + sz)%N |>).
    assert (Hx1 : get m1 o = Some x) by exact Hx.
    split.
    - eapply CoverE_upd_act; [exact Hx1 | reflexivity | reflexivity | apply Cl_E; left|].
      eapply CoverE_more; [| |eapply (CoverE_nsim P [] E A m m1); [apply nsim_same; reflexivity | intros r Hr; left; exact Hr | exact V1]];
        [intros t Ht; right; exact Ht | auto].
    - apply MO_upd; [|eapply MO_heap; [|exact V2]; reflexivity]. intros y Hy. split; [reflexivity|]. intros _ _ _. cbn. discriminate.
  Qed.

  Lemma cv_cmd_new E self dst cls m :
    NoBad m -> SInv K true E [] m -> self_ok E self [CNew dst cls] m -> Cv E A [] m ->
    (cmd_new K P rec self dst cls m).2 = ONormal -> Cv E A [] (cmd_new K P rec self dst cls m).1.
  Proof.
    intros Hnb HI Hs V. unfold cmd_new.
    pose proof (Cur_init K true true E None E [] m Hnb HI) as C0.
    destruct (resolve_ok' K true E [] m self dst HI (self_ok_loc _ _ _ _ dst Hs (fun H => H))) as (ro & -> & Hro).
    destruct ro as [r|]; [|intros _; apply Cv_ok, V].
    destruct (Hro r eq_refl) as (Hidx & Hh & _).
    pose proof (Cur_new_node K P true true E None m E [] m cls C0) as C1.
    assert (V1 : Cv E A [] (new_node P cls m).1) by (eapply Cv_nsimp0; [apply nsimp_new_node | exact V]).
    set (o := length (heap m)).
    set (x0 := Obj (hdr_new false) VLive BNotYet None cls false (replicate (c_nf (class_of P cls)) None)
                   (replicate (c_nw (class_of P cls)) None) None false [] [] false).
    assert (Hfresh : get m o = None) by (apply lookup_ge_None_2; unfold o; lia).
    assert (Hx1 : get (new_node P cls m).1 o = Some x0) by (unfold new_node, get; cbn; apply list_lookup_middle; reflexivity).
    unfold new_node in *. cbn [fst snd] in *. fold o.
    match goal with |- context [if k_auto K then rec KTrigger ?mm else _] => set (m1 := mm) in * end.
    destruct (if k_auto K then rec KTrigger m1 else (m1, ONormal)) as [m2 t] eqn:Htr.
    destruct t; try (cbn [fst snd]; discriminate); try (intros Hn; destruct (unwinding_not_normal _ _ Hn)).
    destruct (cv_trigger_call E m m1 C1 V1 m2 Htr) as (C2 & V2 & HF).
    assert (Hx2 : get m2 o = Some x0).
    { destruct (fr_obj _ _ _ _ _ HF o x0 Hx1) as (x' & Hx' & OF).
      rewrite (of_notyet _ _ _ _ _ _ _ OF) in Hx'; [exact Hx' | reflexivity | discriminate | discriminate]. }
    pose proof (Cur_box_alloc K true true E None m E [] m2 o x0 C2 Hx2 eq_refl eq_refl eq_refl Hfresh) as C3.
    pose proof (Cv_box_alloc E o m2 x0 Hx2 V2) as V3.
    assert (Hx3 : exists x3, get (box_alloc K o m2) o = Some x3 /\ o_fields x3 = o_fields x0 /\ o_cleaner x3 = None /\ o_ismap x3 = false).
    { unfold box_alloc. rewrite Hx2. destruct (box_layout K x0).
      match goal with |- context [get (emit ?e (upd o ?f ?mm)) o] => change (get (emit e (upd o f mm)) o) with (get (upd o f mm) o) end.
      rewrite get_upd, decide_True by reflexivity.
      match goal with |- context [get ?mm o] => change (get mm o) with (get m2 o) end. rewrite Hx2. cbn. eauto. }
    destruct Hx3 as (x3 & Hx3 & Hf3 & Hc3 & Hm3).
    apply (cv_store_tail E m _ r o ROk HI Hidx Hh C3); [| |exact V3|].
    - unfold is_map. rewrite Hx3. exact Hm3.
    - assert (Hi2 : inD m2 o = false).
      { destruct (inD m2 o) eqn:Ei; [|reflexivity].
        destruct (sv_objx _ _ _ _ _ (inv C2) _ _ Hx2) as [_ _ _ _ _ X6]. destruct (X6 Ei) as [H _]. exfalso. apply H. reflexivity. }
      unfold box_alloc. rewrite Hx2. destruct (box_layout K x0). exact Hi2.
    - apply (store_ok_fresh E o r _ (proj1 V3)).
      + rewrite (all_succ_get _ o x3 Hx3). unfold strong_targets. rewrite Hf3, Hc3. cbn. rewrite strong_targets_fresh. reflexivity.
      + intros p j -> ->. cbn in Hh. destruct Hh as (y & Hy & _). congruence.
  Qed.

  (** *** new_cyclic *)
  Lemma nsimp_box_alloc_dead Xs o m x :
    get m o = Some x -> o_vst x <> VLive -> nsimp P Xs m (box_alloc K o m).
  Proof.
    intros Hx Hv. unfold box_alloc. rewrite Hx. destruct (box_layout K x) as [sz al].
    eapply nsimp_trans; [|apply nsimp_emit].
    set (m1 := m <| st_alloc ::= fun a => (a + sz)%N |>).
    apply (nsimp_trans P Xs m m1); [apply nsimp_same; reflexivity|].
    apply nsimp_pceq; [|reflexivity]. apply nsim_upd. intros y Hy. assert (y = x) by (change (get m o = Some y) in Hy; congruence). subst y.
    assert (Hna : ~ alive (x <| o_box := BAlloc |> <| o_hdr := hdr_new (k_fin K && st_finalizing m1) |>)) by (intros [_ Hl]; exact (Hv Hl)).
    split; [apply osim_dead; [reflexivity..|exact Hna] | intros _; apply rcok_dead, Hna].
  Qed.

  Lemma succ_nil m o x :
    get m o = Some x -> (forall j t, o_fields x !! j = Some (Some t) -> False) -> o_cleaner x = None -> all_succ m o = [].
  Proof.
    intros Hx Hf Hc. rewrite (all_succ_get m o x Hx). destruct (strong_targets x) as [|t l] eqn:Hs; [reflexivity|].
    assert (Ht : t ∈ strong_targets x) by (rewrite Hs; left).
    apply strong_targets_elem in Ht as [[j Hj]|Ht]; [destruct (Hf j t Hj) | congruence].
  Qed.

  Lemma cv_cyc_finish_tail E m ma o rd mq :
    k_weak K = true -> Cur K true true E None m E [WTo o] ma -> get m o = None ->
    SInv K true E [] m -> idx_valid m rd -> holder_good m rd ->
    Cur K true true E (Some o) (ma <| wparam ::= cons (WTo o) |>) E [] mq -> cyc_core mq o -> Cv E A [] mq ->
    forall res,
    res = (let m := upd o (fun x => x <| o_vst := VLive |>) mq in
         let m := uhdr o (fun h => default h (inc_rc h)) m in
         let m := m <| wparam ::= tail |> in
         let m := weak_drop (WTo o) m in
         let '(m, r3) := rec (KStore rd o) m in
         match r3 with ONormal => ok m ROk | _ => (m, r3) end) ->
    res.2 = ONormal -> Cv E A [] res.1.
  Proof.
    intros Hk Ca Hfresh HI0 Hidx Hh Cq (x & Hx & Hb & Hv & Hm & Hf & Hc) Vq res ->.
    pose proof (inv Cq) as HIq.
    destruct (sv_objx _ _ _ _ _ HIq _ _ Hx) as [_ _ _ _ _ X6].
    assert (Hi : inD mq o = false).
    { destruct (inD mq o) eqn:Ei; [|reflexivity]. destruct (X6 eq_refl) as (_ & _ & ?). congruence. }
    pose proof (Cur_cyc_finish K _ _ _ _ _ _ _ o x Cq Hx Hb Hv Hf Hc) as Cf.
    pose proof (Cur_bridge K _ _ _ _ E o m _ _ ma _ _ _ (WTo o) Ca Hfresh Cf) as Cb.
    pose proof (Cur_weak_drop K _ _ _ _ _ _ _ _ _ Cb Hk) as Cd. cbn [andb] in Cd.
    cbv zeta.
    set (m_a := upd o (fun x => x <| o_vst := VLive |>) mq) in *.
    assert (Va : Cv (o :: E) A [] m_a).
    { destruct Vq as [Vq1 Vq2]. split.
      - eapply CoverE_upd_act; [exact Hx | reflexivity | reflexivity | apply Cl_E; left|].
        eapply CoverE_more; [| |exact Vq1]; [intros t Ht; right; exact Ht | auto].
      - apply MO_upd; [|exact Vq2]. intros y Hy. assert (y = x) by congruence. subst y. split; [reflexivity|]. intros Hm'. congruence. }
    match type of Cd with Cur _ _ _ _ _ _ _ _ ?mm => set (mf := mm) in * end.
    assert (Vf : Cv (o :: E) A [] mf).
    { eapply Cv_nsimp0; [|exact Va]. unfold mf.
      eapply nsimp_trans; [|apply nsimp_weak_drop].
      apply (nsimp_trans P [] m_a (uhdr o (fun h => default h (inc_rc h)) m_a)); [|apply nsimp_same; reflexivity].
      apply nsimp_uhdr. right. intros h Hh0. destruct (inc_rc h) as [h'|] eqn:Hinc; cbn; [eapply inc_rc_pos, Hinc | exact Hh0]. }
    assert (Hg : exists y, get mf o = Some y /\ o_ismap y = false /\ o_fields y = o_fields x /\ o_cleaner y = o_cleaner x).
    { unfold mf.
      match goal with |- context [weak_drop _ ?mm] => destruct (weak_drop_keep (WTo o) mm o (x <| o_vst := VLive |> <| o_hdr ::= fun h => default h (inc_rc h) |>)) as (y & Hy & S) end.
      - unfold uhdr. apply (get_upd_eq o _ _ (x <| o_vst := VLive |>)). apply get_upd_eq, Hx.
      - exists y. split; [exact Hy|]. destruct S as (_ & _ & _ & _ & S5 & S6 & _ & S8). rewrite S5, S6, S8. auto. }
    destruct Hg as (y & Hy & Hmy & Hfy & Hcy).
    apply (cv_store_tail E m mf rd o ROk HI0 Hidx Hh Cd); [| |exact Vf|].
    - unfold is_map. rewrite Hy. exact Hmy.
    - unfold mf, inD. rewrite dead_weak_drop. exact Hi.
    - apply (store_ok_fresh E o rd mf (proj1 Vf)).
      + apply (succ_nil mf o y Hy); [rewrite Hfy; exact Hf | rewrite Hcy; exact Hc].
      + intros p j -> ->. cbn in Hh. destruct Hh as (z & Hz & _). congruence.
  Qed.

  Lemma cv_cmd_new_cyclic E self dst cls script sw m :
    NoBad m -> SInv K true E [] m -> self_ok E self [CNewCyclic dst cls script sw] m -> Cv E A [] m ->
    (cmd_new_cyclic K P rec self dst cls script sw m).2 = ONormal ->
    Cv E A [] (cmd_new_cyclic K P rec self dst cls script sw m).1.
  Proof.
    intros Hnb HI Hs V. unfold cmd_new_cyclic. destruct (k_weak K) eqn:Hk; cbn [negb]; [|intros _; apply Cv_ok, V].
    pose proof (Cur_init K true true E None E [] m Hnb HI) as C0.
    destruct (resolve_ok' K true E [] m self dst HI (self_ok_loc _ _ _ _ dst Hs (fun H => H))) as (ro & -> & Hro).
    destruct ro as [r|]; [|intros _; apply Cv_ok, V].
    destruct (Hro r eq_refl) as (Hidx & Hh & _).
    pose proof (Cur_new_node K P true true E None m E [] m cls C0) as C1.
    set (o := length (heap m)).
    set (x0 := Obj (hdr_new false) VLive BNotYet None cls false (replicate (c_nf (class_of P cls)) None)
                   (replicate (c_nw (class_of P cls)) None) None false [] [] false).
    assert (Hfresh : get m o = None) by (apply lookup_ge_None_2; unfold o; lia).
    assert (Hx1 : get (new_node P cls m).1 o = Some x0) by (unfold new_node, get; cbn; apply list_lookup_middle; reflexivity).
    assert (Hnf : forall j t, replicate (c_nf (class_of P cls)) (@None id) !! j = Some (Some t) -> False).
    { intros j t Hj. apply lookup_replicate in Hj as [Hj _]. discriminate. }
    pose proof (Cur_set_uninit K _ _ _ _ _ _ _ _ o x0 C1 Hx1 Hfresh eq_refl eq_refl Hnf eq_refl) as C1u.
    assert (V1u : Cv E A [] (upd o (fun x => x <| o_vst := VUninit |>) (new_node P cls m).1)).
    { eapply Cv_nsimp0; [|exact V]. eapply nsimp_trans; [apply nsimp_new_node | apply nsimp_set_vst; discriminate]. }
    set (xu := x0 <| o_vst := VUninit |>).
    assert (Hxu : get (upd o (fun x => x <| o_vst := VUninit |>) (new_node P cls m).1) o = Some xu) by (apply get_upd_eq, Hx1).
    unfold new_node in *. cbn [fst snd] in *. fold o.
    match goal with |- context [if k_auto K then rec KTrigger ?mm else _] => set (m1 := mm) in * end.
    destruct (if k_auto K then rec KTrigger m1 else (m1, ONormal)) as [m2 t] eqn:Htr.
    destruct t; try (cbn [fst snd]; discriminate).
    destruct (cv_trigger_call E m m1 C1u V1u m2 Htr) as (HtN & V2 & HtF).
    assert (Hx2 : get m2 o = Some xu).
    { destruct (fr_obj _ _ _ _ _ HtF o xu Hxu) as (x' & Hx' & OF).
      rewrite (of_notyet _ _ _ _ _ _ _ OF) in Hx'; [exact Hx' | reflexivity | discriminate | discriminate]. }
    pose proof (Cur_cyc_alloc K _ _ _ _ _ _ _ _ o xu HtN Hx2 Hk Hfresh eq_refl eq_refl eq_refl eq_refl Hnf eq_refl) as Ca.
    assert (Va : Cv E A [] (cyc_alloc K o m2)).
    { eapply Cv_nsimp0; [|exact V2]. unfold cyc_alloc.
      assert (N1 : nsimp P [] m2 (uside o (fun k => default k (inc_wk k)) (init_side o (box_alloc K o m2)))).
      { eapply nsimp_trans; [apply (nsimp_box_alloc_dead [] o m2 xu Hx2); discriminate|].
        eapply nsimp_trans; [apply nsimp_init_side | apply nsimp_uside]. }
      eapply nsimp_trans; [exact N1|]. apply nsimp_dec_rc. right. intros y Hy Hmy.
      destruct (ns_old _ _ _ _ (proj1 N1) o xu Hx2) as (y' & Hy' & S & _). assert (y' = y) by congruence. subst y'.
      rewrite (os_ismap _ _ _ S) in Hmy. discriminate. }
    fold (cyc_alloc K o m2). set (ma := cyc_alloc K o m2) in *.
    destruct (cyc_alloc_shape K m2 o xu Hx2) as (Hha & _).
    pose proof (get_alter_eq _ _ _ _ _ Hha Hx2) as Hxa. fold ma in Hxa.
    set (xa := cyc_obj (k_fin K && st_finalizing m2) xu) in *.
    set (mp := ma <| wparam ::= cons (WTo o) |>).
    assert (Hboxp : cyc_box mp o (c_nw (class_of P cls))).
    { exists xa. split; [exact Hxa|]. unfold xa, cyc_obj, xu, x0. cbn. auto 10. }
    assert (HIp : SInv K true E [] mp).
    { apply SInv_wparam_push; [apply Ca|]. intros o' [= <-]. unfold is_map. rewrite Hxa. reflexivity. }
    pose proof (Cur_init K true true E (Some o) E [] mp (NoBad_log ma mp eq_refl (nb Ca)) HIp) as Cp.
    pose proof (Cur_tick K _ _ _ _ _ _ _ _ KClosure (Cur_emit K _ _ _ _ _ _ _ _ (ECb KClosure o (cur_flags K mp)) Cp eq_refl)) as Ct.
    fold mp.
    assert (Vt : Cv E A [] (tick KClosure (emit (ECb KClosure o (cur_flags K mp)) mp)).1).
    { eapply Cv_nsimp0; [|exact Va]. apply (nsimp_trans P [] ma mp); [apply nsimp_same; reflexivity|].
      eapply nsimp_trans; [apply nsimp_emit | apply nsimp_tick]. }
    assert (Hht : heap (tick KClosure (emit (ECb KClosure o (cur_flags K mp)) mp)).1 = heap mp).
    { unfold tick. destruct (get_fuse KClosure _ =? 0)%N; reflexivity. }
    destruct (tick KClosure (emit (ECb KClosure o (cur_flags K mp)) mp)) as [mt boom]. cbn [fst] in Ct, Hht, Vt.
    pose proof (cyc_box_heap _ _ _ _ Hht Hboxp) as Hboxt.
    destruct boom.
    { unfold raise. destruct (panicking mt); cbn [fst snd]; discriminate. }
    destruct (rec (KScript None (script_of P script)) mt) as [mq r'] eqn:Hcs.
    destruct r'; try (cbn [fst snd]; discriminate).
    destruct (sub E (KScript None (script_of P script)) mt mq eq_refl (nb Ct) (inv Ct) I (conj Vt (script_rust script)) Hcs) as [HP Vq].
    assert (HFq : Fr K E None mt mq) by (rewrite Post_nc in HP by reflexivity; apply HP).
    destruct (Cur_call_n K PostC (KScript None (script_of P script)) _ _ _ _ _ _ _ _ _ eq_refl Ct HP (fun o => le_n _) (or_introl eq_refl)) as [Cq _].
    pose proof (cyc_box_fr K _ _ _ _ o _ HFq ltac:(discriminate) Hboxt) as Hboxq.
    destruct (sw && bool_decide (0 < c_nw (class_of P cls))%nat) eqn:Hsw.
    - apply andb_true_iff in Hsw as [_ Hnwpos]. apply bool_decide_eq_true in Hnwpos.
      destruct (weak_clone (WTo o) mq) as [mw|] eqn:Hcl.
      2: { unfold raise. destruct (panicking mq); cbn [fst snd]; discriminate. }
      assert (Hwq : wparam mq = WTo o :: wparam ma) by (rewrite (fr_wp _ _ _ _ _ (frm Cq)); reflexivity).
      pose proof (Cur_weak_clone K _ _ _ _ _ _ _ mq mw (WTo o) Cq Hk Hcl) as Cw.
      assert (Hpos : forall o', WTo o = WTo o' -> (0 < wrefs mq o' + cnt_wr o' [])%nat).
      { intros o' [= <-]. rewrite wrefs_unfold, Hwq. cbn [map]. rewrite cnt_w_cons. cbn. rewrite Nat.eqb_refl. lia. }
      specialize (Cw Hpos).
      assert (Hboxw : cyc_box mw o (c_nw (class_of P cls))).
      { unfold weak_clone in Hcl. destruct (side_wk mq o) as [k|]; [destruct (inc_wk k) as [k'|]; [|discriminate]|]; injection Hcl as <-.
        - destruct Hboxq as (x & Hx & Hq). eexists. split; [apply get_upd_eq, Hx|]. cbn. exact Hq.
        - apply (cyc_box_heap mq); [reflexivity | exact Hboxq]. }
      destruct Hboxw as (xw & Hxw & Hbw & Hvw & Hmw & Hfw & Hcw & Hww).
      pose proof (Cur_write_wfield K _ _ _ _ _ _ [] mw o 0%nat (Some (WTo o)) xw Cw Hxw) as Cww.
      assert (Hrd : read_wloc (RWField o 0) mw = None).
      { cbn. rewrite Hxw. cbn. rewrite Hww, lookup_replicate_2 by exact Hnwpos. reflexivity. }
      rewrite Hrd in Cww. cbn [olw app] in Cww.
      specialize (Cww ltac:(rewrite Hww, replicate_length; exact Hnwpos) ltac:(left; congruence) (or_intror eq_refl)).
      specialize (Cww ltac:(intros o' [= <-]; unfold is_map; rewrite Hxw; exact Hmw)).
      cbn [fst snd].
      eapply (cv_cyc_finish_tail E m ma o r _ Hk Ca Hfresh HI Hidx Hh Cww); [| |reflexivity].
      + exists (xw <| o_wfields ::= <[0%nat := Some (WTo o)]> |>). split; [apply get_upd_eq, Hxw|]. cbn. auto 10.
      + eapply Cv_nsimp0; [|exact Vq]. eapply nsimp_trans; [eapply nsimp_weak_clone, Hcl|].
        apply nsimp_upd_same. intros y. repeat split.
    - cbn [fst snd]. eapply (cv_cyc_finish_tail E m ma o r _ Hk Ca Hfresh HI Hidx Hh Cq (cyc_box_core _ _ _ Hboxq) Vq); reflexivity.
  Qed.

  (** *** Cleaner::register *)
  Lemma cv_register_tail E m1 mo script c :
    Cv E A [] m1 -> ClNP P E A m1 mo ->
    Cv E A []
      (match get m1 mo with
       | Some mx =>
         if o_mborrowed mx then (m1, raise m1)
         else
           let aid := next_aid m1 in
           let m2 := m1 <| next_aid := S aid |> in
           let '(m3, slot) := map_insert mo aid script m2 in
           let m4 := init_side mo m3 in
           match (side_wk m4 mo ≫= inc_wk) with
           | None => (m4, raise m4)
           | Some k =>
             let m5 := remove_from_list mo (uside mo (fun _ => k) m4) in
             let old := mjoin (cslots m5 !! c) in
             let m6 := m5 <| cslots ::= <[c := Some (Cref mo slot aid)]> |> in
             let m7 := match old with Some cr => weak_drop (WTo (cr_map cr)) m6 | None => m6 end in
             ok m7 ROk
           end
       | None => (emit_bad BadState mo m1, ONormal)
       end).1.
  Proof.
    intros V Hcl. destruct (get m1 mo) as [mx|]; [|cbn [fst]; eapply Cv_nsimp0; [apply nsimp_emit_bad | exact V]].
    destruct (o_mborrowed mx); [exact V|]. cbv zeta.
    set (m2 := m1 <| next_aid := S (next_aid m1) |>).
    assert (N2 : nsimp P [] m1 m2) by (apply nsimp_same; reflexivity).
    pose proof (nsimp_map_insert P [] mo (next_aid m1) script m2) as N3.
    destruct (map_insert mo (next_aid m1) script m2) as [m3 slot]. cbn [fst] in N3.
    assert (N4 : nsimp P [] m1 (init_side mo m3)).
    { eapply nsimp_trans; [exact N2|]. eapply nsimp_trans; [exact N3 | apply nsimp_init_side]. }
    destruct (side_wk (init_side mo m3) mo ≫= inc_wk) as [k|]; [|cbn [fst]; eapply Cv_nsimp0; eauto].
    apply Cv_ok.
    assert (N5 : nsimp P [] m1 (uside mo (fun _ => k) (init_side mo m3))) by (eapply nsimp_trans; [exact N4 | apply nsimp_uside]).
    assert (V5 : Cv E A [] (remove_from_list mo (uside mo (fun _ => k) (init_side mo m3)))).
    { apply (Cv_unbuffer P E A [] mo m1 _ (proj1 N5) Hcl). eapply Cv_nsimp0; [exact N5 | exact V]. }
    set (m5 := remove_from_list mo (uside mo (fun _ => k) (init_side mo m3))) in *.
    set (m6 := m5 <| cslots ::= <[c := Some (Cref mo slot (next_aid m1))]> |>).
    assert (V6 : Cv E A [] m6) by (eapply Cv_heap; [..|exact V5]; reflexivity).
    destruct (mjoin (cslots m5 !! c)) as [cr|]; [|exact V6].
    eapply Cv_nsimp0; [apply nsimp_weak_drop | exact V6].
  Qed.

  Lemma cv_cmd_register E self nd script c m :
    NoBad m -> SInv K true E [] m -> self_ok E self [CRegister nd script c] m -> Cv E A [] m ->
    (cmd_register K P rec self nd script c m).2 = ONormal -> Cv E A [] (cmd_register K P rec self nd script c m).1.
  Proof.
    intros Hnb HI Hs V. unfold cmd_register. destruct (k_clean K) eqn:Hkc; cbn [negb]; [|intros _; apply Cv_ok, V].
    pose proof (Cur_init K true true E None E [] m Hnb HI) as C0.
    assert (Hk : k_weak K = true) by auto.
    destruct (nresolve_ok' K true E [] m self nd HI (self_ok_node _ _ _ _ nd Hs (fun H => H))) as (no & -> & Hno).
    destruct no as [o|]; [|intros _; apply Cv_ok, V].
    destruct (cslots m !! c) as [cs0|] eqn:Hcs; [|intros _; apply Cv_ok, V].
    destruct (Hno o eq_refl) as (x & Hx & Hb & Hv & Hi & Hm). rewrite Hx.
    destruct (negb (c_cleaner (class_of P (o_cls x))) || o_ismap x); [intros _; apply Cv_ok, V|].
    destruct (o_cleaner x) as [mo|] eqn:Hcl.
    { intros _. apply cv_register_tail; [exact V|]. apply ClNP_pin. eapply PR_cleaner; eauto. }
    pose proof (Cur_new_map K true true E None m E [] m C0) as C1.
    assert (V1 : Cv E A [] (new_map m).1) by (eapply Cv_nsimp0; [apply nsimp_new_map | exact V]).
    set (mo := length (heap m)).
    set (x0 := Obj (hdr_new false) VLive BNotYet None 0 true [] [] None false [] [] false).
    assert (Hfresh : get m mo = None) by (apply lookup_ge_None_2; unfold mo; lia).
    assert (Hx1 : get (new_map m).1 mo = Some x0) by (unfold new_map, get; cbn; apply list_lookup_middle; reflexivity).
    unfold new_map in *. cbn [fst snd] in *. fold mo.
    match goal with |- context [if k_auto K then rec KTrigger ?mm else _] => set (m1 := mm) in * end.
    destruct (if k_auto K then rec KTrigger m1 else (m1, ONormal)) as [m2 t] eqn:Htr.
    destruct t; try (cbn [fst snd]; discriminate).
    2: { pose proof (unwinding_not_normal (rec (KDropValue mo)) m2) as Hnn.
         destruct (unwinding (rec (KDropValue mo)) m2) as [m3 r3]. cbn [fst snd] in *. destruct r3; try (cbn; discriminate). congruence. }
    destruct (cv_trigger_call E m m1 C1 V1 m2 Htr) as (HtN & V2 & HtF).
    assert (Hx2 : get m2 mo = Some x0).
    { destruct (fr_obj _ _ _ _ _ HtF mo x0 Hx1) as (x' & Hx' & OF).
      rewrite (of_notyet _ _ _ _ _ _ _ OF) in Hx'; [exact Hx' | reflexivity | discriminate | discriminate]. }
    pose proof (Cur_box_alloc K true true E None m E [] m2 mo x0 HtN Hx2 eq_refl eq_refl eq_refl Hfresh) as C3.
    pose proof (Cv_box_alloc E mo m2 x0 Hx2 V2) as V3.
    set (m3 := box_alloc K mo m2) in *.
    assert (Hi2 : inD m2 mo = false).
    { destruct (inD m2 mo) eqn:Ei; [|reflexivity].
      destruct (sv_objx _ _ _ _ _ (inv HtN) _ _ Hx2) as [_ _ _ _ _ X6]. destruct (X6 Ei) as [H _]. exfalso. apply H. reflexivity. }
    assert (Hx3 : exists x3m, get m3 mo = Some x3m /\ o_box x3m = BAlloc /\ o_vst x3m = VLive /\ o_ismap x3m = true /\ o_mslots x3m = [] /\ inD m3 mo = false /\
                    h_rc (o_hdr x3m) = 1%N /\
                    forall p, p <> mo -> get m3 p = get m2 p).
    { unfold m3, box_alloc. rewrite Hx2. destruct (box_layout K x0) as [sz al].
      eexists. split; [|split; [|split; [|split; [|split; [|split; [|split]]]]]].
      - match goal with |- get (emit ?e (upd mo ?f ?mm)) mo = _ => change (get (emit e (upd mo f mm)) mo) with (get (upd mo f mm) mo) end.
        apply get_upd_eq. exact Hx2.
      - reflexivity.
      - reflexivity.
      - reflexivity.
      - reflexivity.
      - exact Hi2.
      - reflexivity.
      - intros p Hp. match goal with |- get (emit ?e (upd mo ?f ?mm)) p = _ => change (get (emit e (upd mo f mm)) p) with (get (upd mo f mm) p) end.
        rewrite get_upd_ne by congruence. reflexivity. }
    destruct Hx3 as (x3m & Hx3m & Hb3m & Hv3m & Hm3m & Hs3m & Hi3m & Hrc3m & Hoth3).
    destruct (fr_obj _ _ _ _ _ (frm HtN) o x Hx) as (x2 & Hx2o & OFo).
    assert (Hne : o <> mo) by (intros ->; congruence).
    assert (Hx3o : get m3 o = Some x2) by (rewrite Hoth3 by exact Hne; exact Hx2o).
    rewrite Hx3o. cbn [mbind option_bind].
    destruct (o_cleaner x2) as [existing|] eqn:Hcl2.
    - assert (Hown : own_ok m3 mo) by (intros Hd; congruence).
      destruct (rec (KDropCc mo) m3) as [m4 r'] eqn:Hdc.
      destruct r'; try (cbn [fst snd]; discriminate).
      destruct (sub E (KDropCc mo) m3 m4 eq_refl (nb C3) (inv C3) Hown (conj V3 I) Hdc) as [HP V4].
      destruct (Cur_call_n K PostC (KDropCc mo) _ _ _ _ _ _ _ _ _ eq_refl C3 HP (fun o => le_n _) (or_introl eq_refl)) as [C4 Hq].
      intros _. apply cv_register_tail; [exact V4|].
      apply ClNP_pin. eapply PR_cleaner; [|exact Hcl2]. rewrite (Hq x3m Hx3m Hm3m Hs3m o Hne). exact Hx3o.
    - intros _. apply cv_register_tail.
      + destruct V3 as [V31 V32]. split; [apply (CoverE_set_cleaner P E A o mo m3 x2 Hx3o Hcl2 V31)|].
        apply MO_upd_same; [intros y; repeat split | exact V32].
      + apply ClNP_pin. eapply PR_cleaner; [apply get_upd_eq, Hx3o | reflexivity].
  Qed.

  (** *** Cleanable::clean *)
  Lemma cv_cmd_clean E self c m :
    NoBad m -> SInv K true E [] m -> Cv E A [] m ->
    (cmd_clean K rec self c m).2 = ONormal -> Cv E A [] (cmd_clean K rec self c m).1.
  Proof.
    intros Hnb HI V. unfold cmd_clean. destruct (k_clean K) eqn:Hkc; cbn [negb]; [|intros _; apply Cv_ok, V].
    pose proof (Cur_init K true true E None E [] m Hnb HI) as C0.
    assert (Hk : k_weak K = true) by auto.
    destruct (cslots m !! c) as [[cr|]|] eqn:Hc; cbn [mjoin option_join]; try (intros _; apply Cv_ok, V).
    set (mo := cr_map cr).
    assert (Hpos : (0 < wrefs m mo + cnt_wr mo [])%nat).
    { rewrite wrefs_unfold. assert (0 < cnt_c mo (cslots m))%nat; [|lia].
      clear -Hc. revert c Hc. induction (cslots m) as [|a l IH]; intros [|c] Hc; cbn in Hc; try discriminate.
      - injection Hc as ->. rewrite cnt_c_cons. cbn. unfold mo. rewrite Nat.eqb_refl. lia.
      - rewrite cnt_c_cons. specialize (IH c Hc). lia. }
    destruct (weak_strong_count_ok K true E [] m mo HI Hk Hpos) as (sc & -> & Hsc).
    destruct (sc =? 0)%N eqn:Hz; [intros _; apply Cv_ok, V|]. apply N.eqb_neq in Hz.
    destruct (Hsc Hz) as (x & Hx & Hb & Hv & Hi & Hrc & Hd).
    destruct (inc_rc (hdr_of m mo)) as [h|] eqn:Hinc; [|intros Hn; destruct (raise_not_normal _ Hn)].
    pose proof (Cur_inc_rc K true true E None m E [] m mo x h C0 Hx Hb ltac:(congruence) Hinc) as C1.
    pose proof (Cur_remove_from_list K _ _ _ _ _ _ _ _ mo _ C1 (get_upd_eq _ _ _ _ Hx) Hb) as C2.
    assert (N1 : nsimp P [] m (uhdr mo (fun _ => h) m)) by (apply nsimp_uhdr; right; intros _ _; eapply inc_rc_pos, Hinc).
    assert (V2 : Cv (mo :: E) A [] (remove_from_list mo (uhdr mo (fun _ => h) m))).
    { apply (Cv_unbuffer P (mo :: E) A [] mo _ _ (nsim_refl P [] _)); [apply ClNP_E; left|].
      destruct (Cv_nsimp0 P E A [] m _ N1 V) as [V1 V2]. split; [|exact V2].
      eapply CoverE_more; [| |exact V1]; [intros t Ht; right; exact Ht | auto]. }
    set (m1 := remove_from_list mo (uhdr mo (fun _ => h) m)) in *.
    assert (Hi1 : inD m1 mo = false) by (unfold m1; rewrite inD_remove_from_list; exact Hi).
    assert (Hdrop : forall m4, Cur K true true E None m (mo :: E) [] m4 -> inD m4 mo = false -> Cv (mo :: E) A [] m4 ->
              (let '(m5, r) := rec (KDropCc mo) m4 in match r with ONormal => ok m5 ROk | _ => (m5, r) end).2 = ONormal ->
              Cv E A [] (let '(m5, r) := rec (KDropCc mo) m4 in match r with ONormal => ok m5 ROk | _ => (m5, r) end).1).
    { intros m4 C4 Hi4 V4.
      assert (Hown : own_ok m4 mo) by (intros Hd4; congruence).
      destruct (rec (KDropCc mo) m4) as [m5 r'] eqn:Hdc. destruct r'; try (cbn [fst snd]; discriminate). intros _.
      destruct (sub E (KDropCc mo) m4 m5 eq_refl (nb C4) (inv C4) Hown (conj V4 I) Hdc) as [_ V5]. apply Cv_ok, V5. }
    destruct (sv_E _ _ _ _ _ (inv C2) mo) as (mx & Hmx & Hbmx); [left|]. rewrite Hmx.
    destruct (o_mborrowed mx); [apply (Hdrop m1 C2 Hi1 V2)|].
    pose proof (Cur_upd_map K E m true true (mo :: E) m1 mo (fun x => x <| o_mborrowed := true |>) mx C2 Hmx Hbmx ltac:(intros z; repeat split)) as C3.
    set (m2 := upd mo (fun x => x <| o_mborrowed := true |>) m1) in *.
    assert (V3 : Cv (mo :: E) A [] m2) by (eapply Cv_nsimp0; [apply nsimp_upd_same; intros y; repeat split | exact V2]).
    assert (Hi2 : inD m2 mo = false) by exact Hi1.
    set (mx2 := mx <| o_mborrowed := true |>).
    assert (Hmx2 : get m2 mo = Some mx2) by (apply get_upd_eq, Hmx).
    assert (Hact : forall m3,
              (match o_mslots mx !! cr_slot cr with
               | Some (MAction aid script) =>
                 if decide (aid = cr_aid cr)
                 then rec (KCleanRun mo aid script)
                        (upd mo (fun x => x <| o_mslots ::= <[cr_slot cr := MVacant]> |> <| o_mfree ::= cons (cr_slot cr) |>) m2)
                 else (m2, ONormal)
               | _ => (m2, ONormal)
               end) = (m3, ONormal) ->
              Cur K true true E None m (mo :: E) [] m3 /\ inD m3 mo = false /\ Cv (mo :: E) A [] m3).
    { intros m3 Hres.
      assert (Hsame : (m2, ONormal) = (m3, ONormal) -> Cur K true true E None m (mo :: E) [] m3 /\ inD m3 mo = false /\ Cv (mo :: E) A [] m3).
      { intros [= <-]. auto. }
      destruct (o_mslots mx !! cr_slot cr) as [[|aid script]|]; try exact (Hsame Hres).
      destruct (decide (aid = cr_aid cr)); [|exact (Hsame Hres)].
      pose proof (Cur_upd_map K E m true true (mo :: E) m2 mo (fun x => x <| o_mslots ::= <[cr_slot cr := MVacant]> |> <| o_mfree ::= cons (cr_slot cr) |>) mx2 C3 Hmx2 Hbmx ltac:(intros z; repeat split)) as C3'.
      match type of Hres with rec _ ?mm = _ => set (m2' := mm) in * end.
      assert (V3' : Cv (mo :: E) A [] m2') by (eapply Cv_nsimp0; [apply nsimp_upd_same; intros y; repeat split | exact V3]).
      destruct (sub (mo :: E) (KCleanRun mo aid script) m2' m3 eq_refl (nb C3') (inv C3') I (conj V3' I) Hres) as [HP V4].
      split; [|split; [|exact V4]].
      - apply (proj1 (Cur_call_n K PostC (KCleanRun mo aid script) _ _ _ _ _ _ _ _ _ eq_refl C3' HP (cnt_le_cons E mo) (or_introl eq_refl))).
      - assert (HF : Fr K (mo :: E) None m2' m3) by (rewrite Post_nc in HP by reflexivity; apply HP).
        destruct (sv_E _ _ _ _ _ (inv C3') mo) as (y0 & Hy0 & Hby0); [left|].
        destruct (fr_obj _ _ _ _ _ HF mo y0 Hy0) as (y & Hy & OF).
        destruct (of_prot _ _ _ _ _ _ _ OF) as (_ & _ & P3 & _); [discriminate | exact Hby0 | left; rewrite cnt_id_cons_eq; lia|].
        destruct (inD m3 mo) eqn:Ei; [|reflexivity]. specialize (P3 eq_refl). change (inD m2' mo) with (inD m1 mo) in P3. congruence. }
    destruct (match o_mslots mx !! cr_slot cr with
              | Some (MAction aid script) =>
                if decide (aid = cr_aid cr)
                then rec (KCleanRun mo aid script)
                       (upd mo (fun x => x <| o_mslots ::= <[cr_slot cr := MVacant]> |> <| o_mfree ::= cons (cr_slot cr) |>) m2)
                else (m2, ONormal)
              | _ => (m2, ONormal)
              end) as [m3 r] eqn:Hres.
    destruct r; try (cbn [fst snd]; discriminate); try (intros Hn; destruct (unwinding_not_normal _ _ Hn)).
    destruct (Hact m3 eq_refl) as (C4 & Hi3 & V4).
    destruct (sv_E _ _ _ _ _ (inv C4) mo) as (my & Hmy & Hbmy); [left|].
    pose proof (Cur_upd_map K E m true true (mo :: E) m3 mo (fun x => x <| o_mborrowed := false |>) my C4 Hmy Hbmy ltac:(intros z; repeat split)) as C5.
    apply (Hdrop _ C5); [exact Hi3|]. eapply Cv_nsimp0; [apply nsimp_upd_same; intros y; repeat split | exact V4].
  Qed.

  (** ** All commands, all non-collector activations *)
  Lemma cv_step_cmd E self c m :
    Pre K PreC true E (KCmd self c) m -> BufBase.Ibuf K A m -> CvPre E A (KCmd self c) m ->
    (step_cmd K P rec self c m).2 = ONormal -> CvPost E A (KCmd self c) (step_cmd K P rec self c m).1.
  Proof.
    rewrite Pre_nc by reflexivity. cbn [own_of app]. intros (Hnb & HI & Hs) HB [V Hr].
    change (Cv E A [] m) in V. unfold CvPost. cbn [postA].
    destruct c; cbn [step_cmd].
    - apply cv_cmd_new; assumption.
    - apply cv_cmd_clone; assumption.
    - apply cv_cmd_drop; assumption.
    - apply cv_cmd_move; assumption.
    - intros _. apply cv_cmd_mark_alive; assumption.
    - apply cv_cmd_collect; assumption.
    - intros _. apply cv_cmd_downgrade; assumption.
    - apply cv_cmd_upgrade; assumption.
    - intros _. apply (cv_pure E self (CWNew w) m _ (nsimp_cmd_w_new self w m) V).
    - intros _. apply (cv_pure E self (CWClone src dst) m _ (nsimp_cmd_w_clone self src dst m) V).
    - intros _. apply (cv_pure E self (CWDrop w) m _ (nsimp_cmd_w_drop self w m) V).
    - intros _. apply cv_cmd_try_unwrap; assumption.
    - apply cv_cmd_drop_value; assumption.
    - intros _. apply (cv_pure E self (CFinAgain l) m _ (nsimp_cmd_fin_again self l m) V).
    - apply cv_cmd_new_cyclic; assumption.
    - apply cv_cmd_register; assumption.
    - apply cv_cmd_clean; assumption.
    - intros _. apply (cv_pure E self (CCDrop c) m _ (nsimp_cmd_c_drop self c m) V).
    - intros _. apply cv_cmd_bag; assumption.
    - apply cv_cmd_unbag; assumption.
    - intros _. apply (cv_pure E self (CBorrow n) m _ (nsimp_cmd_borrow self n m) V).
    - intros _. apply cv_cmd_unborrow; assumption.
    - intros _. apply (cv_pure E self (CCfgAuto b) m _ (nsimp_cmd_cfg_auto self b m) V).
    - intros _. apply (cv_pure E self (CCfgPercent num e) m _ (nsimp_cmd_cfg_percent self num e m) V).
    - intros _. apply (cv_pure E self (CCfgBuffered n) m _ (nsimp_cmd_cfg_buffered self n m) V).
    - intros _. apply (cv_pure E self (CArm k n) m _ (nsimp_cmd_arm self k n m) V).
    - intros _. apply (cv_pure E self CPanic m _ (nsimp_cmd_panic self m) V).
    - intros _. apply (cv_pure E self (CObs l) m _ (nsimp_cmd_obs self l m) V).
    - intros _. apply (cv_pure E self (CWObs w) m _ (nsimp_cmd_w_obs self w m) V).
    - intros _. apply (cv_pure E self CSObs m _ (nsimp_cmd_s_obs self m) V).
  Qed.

  Theorem cv_step_noncollector E c m :
    noncollector c = true -> Pre K PreC true E c m -> BufBase.Ibuf K A m -> CvPre E A c m ->
    (step K P rec c m).2 = ONormal -> CvPost E A c (step K P rec c m).1.
  Proof.
    destruct c; cbn [noncollector step]; try discriminate; intros _ Hpre HB V.
    - apply cv_step_cmd; assumption.
    - apply cv_step_script; assumption.
    - apply cv_step_store; assumption.
    - apply cv_step_drop_cc; assumption.
    - apply cv_step_drop_value; assumption.
    - apply cv_step_drop_fields; assumption.
    - apply cv_step_drop_map_slots; assumption.
    - apply cv_step_unbag; assumption.
    - apply cv_step_clean_run; assumption.
  Qed.
End NC.
