(** * SafeCollNf: no activation logs [EBad Fuel] unless it returns [OFuel].

    [nofuel m] ("no fuel exhaustion was logged") is preserved by every helper of Machine.v
    (hint database [nf]), hence by every [step_*]/[cmd_*] whose outcome is not [OFuel], assuming
    the same of the recursive calls ([step_nofuel]), hence by every [run K P n] ([run_nofuel]). *)
From Coq Require Import NArith Bool List Lia.
From stdpp Require Import base list option.
From RecordUpdate Require Import RecordSet.
From RC Require Import Hdr Machine RunInd.
From RC Require Import SafeCollQ.
Import ListNotations RecordSetNotations.
Local Open Scope N_scope.

Create HintDb nf discriminated.

(** destruct the innermost scrutinee, repeatedly (as [BufBase.brk]) *)
Ltac nbrk :=
  repeat match goal with
         | |- context [match ?x with _ => _ end] =>
           lazymatch x with
           | context [match _ with _ => _ end] => fail
           | _ => destruct x eqn:?
           end
         end.

(** ** The primitive updates *)
Lemma nofuel_emit_bad b o m : b <> Fuel -> nofuel m -> nofuel (emit_bad b o m).
Proof. intros Hb. apply nofuel_emit. destruct b; try reflexivity. congruence. Qed.

Lemma nofuel_upd o f m : nofuel m -> nofuel (upd o f m).
Proof. apply nofuel_log. reflexivity. Qed.
Lemma nofuel_uhdr o f m : nofuel m -> nofuel (uhdr o f m).
Proof. apply nofuel_log. reflexivity. Qed.
Lemma nofuel_uside o f m : nofuel m -> nofuel (uside o f m).
Proof. apply nofuel_log. reflexivity. Qed.

#[export] Hint Extern 1 (nofuel (emit _ _)) => (apply nofuel_emit; [reflexivity|]) : nf.
#[export] Hint Extern 1 (nofuel (emit_bad _ _ _)) => (apply nofuel_emit_bad; [discriminate|]) : nf.
#[export] Hint Resolve nofuel_upd nofuel_uhdr nofuel_uside : nf.
(** record setters of fields other than [log] (one lemma per field: a generic
    [reflexivity] on [log (set f g X) = log X] can make the unifier normalise [X]) *)
Lemma nofuel_set_heap g m : nofuel m -> nofuel (set heap g m).
Proof. exact (fun H => H). Qed.
Lemma nofuel_set_pc g m : nofuel m -> nofuel (set pc g m).
Proof. exact (fun H => H). Qed.
Lemma nofuel_set_pc_size g m : nofuel m -> nofuel (set pc_size g m).
Proof. exact (fun H => H). Qed.
Lemma nofuel_set_pc_alive g m : nofuel m -> nofuel (set pc_alive g m).
Proof. exact (fun H => H). Qed.
Lemma nofuel_set_st_collecting g m : nofuel m -> nofuel (set st_collecting g m).
Proof. exact (fun H => H). Qed.
Lemma nofuel_set_st_finalizing g m : nofuel m -> nofuel (set st_finalizing g m).
Proof. exact (fun H => H). Qed.
Lemma nofuel_set_st_dropping g m : nofuel m -> nofuel (set st_dropping g m).
Proof. exact (fun H => H). Qed.
Lemma nofuel_set_st_alloc g m : nofuel m -> nofuel (set st_alloc g m).
Proof. exact (fun H => H). Qed.
Lemma nofuel_set_st_exec g m : nofuel m -> nofuel (set st_exec g m).
Proof. exact (fun H => H). Qed.
Lemma nofuel_set_cf_thr g m : nofuel m -> nofuel (set cf_thr g m).
Proof. exact (fun H => H). Qed.
Lemma nofuel_set_cf_pnum g m : nofuel m -> nofuel (set cf_pnum g m).
Proof. exact (fun H => H). Qed.
Lemma nofuel_set_cf_pexp g m : nofuel m -> nofuel (set cf_pexp g m).
Proof. exact (fun H => H). Qed.
Lemma nofuel_set_cf_buf g m : nofuel m -> nofuel (set cf_buf g m).
Proof. exact (fun H => H). Qed.
Lemma nofuel_set_cf_auto g m : nofuel m -> nofuel (set cf_auto g m).
Proof. exact (fun H => H). Qed.
Lemma nofuel_set_slots g m : nofuel m -> nofuel (set slots g m).
Proof. exact (fun H => H). Qed.
Lemma nofuel_set_wslots g m : nofuel m -> nofuel (set wslots g m).
Proof. exact (fun H => H). Qed.
Lemma nofuel_set_cslots g m : nofuel m -> nofuel (set cslots g m).
Proof. exact (fun H => H). Qed.
Lemma nofuel_set_values g m : nofuel m -> nofuel (set values g m).
Proof. exact (fun H => H). Qed.
Lemma nofuel_set_bag g m : nofuel m -> nofuel (set bag g m).
Proof. exact (fun H => H). Qed.
Lemma nofuel_set_wparam g m : nofuel m -> nofuel (set wparam g m).
Proof. exact (fun H => H). Qed.
Lemma nofuel_set_fuse_trace g m : nofuel m -> nofuel (set fuse_trace g m).
Proof. exact (fun H => H). Qed.
Lemma nofuel_set_fuse_fin g m : nofuel m -> nofuel (set fuse_fin g m).
Proof. exact (fun H => H). Qed.
Lemma nofuel_set_fuse_drop g m : nofuel m -> nofuel (set fuse_drop g m).
Proof. exact (fun H => H). Qed.
Lemma nofuel_set_fuse_action g m : nofuel m -> nofuel (set fuse_action g m).
Proof. exact (fun H => H). Qed.
Lemma nofuel_set_fuse_closure g m : nofuel m -> nofuel (set fuse_closure g m).
Proof. exact (fun H => H). Qed.
Lemma nofuel_set_panicking g m : nofuel m -> nofuel (set panicking g m).
Proof. exact (fun H => H). Qed.
Lemma nofuel_set_next_aid g m : nofuel m -> nofuel (set next_aid g m).
Proof. exact (fun H => H). Qed.
Lemma nofuel_set_dead g m : nofuel m -> nofuel (set dead g m).
Proof. exact (fun H => H). Qed.
#[export] Hint Resolve nofuel_set_heap nofuel_set_pc nofuel_set_pc_size nofuel_set_pc_alive nofuel_set_st_collecting nofuel_set_st_finalizing nofuel_set_st_dropping nofuel_set_st_alloc nofuel_set_st_exec nofuel_set_cf_thr nofuel_set_cf_pnum nofuel_set_cf_pexp nofuel_set_cf_buf nofuel_set_cf_auto nofuel_set_slots nofuel_set_wslots nofuel_set_cslots nofuel_set_values nofuel_set_bag nofuel_set_wparam nofuel_set_fuse_trace nofuel_set_fuse_fin nofuel_set_fuse_drop nofuel_set_fuse_action nofuel_set_fuse_closure nofuel_set_panicking nofuel_set_next_aid nofuel_set_dead : nf.
(** position hypotheses of the form [r <> OFuel -> nofuel m] *)
Lemma raise_nf m : raise m <> OFuel.
Proof. unfold raise. destruct (panicking m); discriminate. Qed.
Ltac nf_tac := first [assumption | discriminate | apply raise_nf | congruence].
#[export] Hint Extern 3 (nofuel ?m) =>
  match goal with H : _ -> nofuel m |- _ => apply H; nf_tac end : nf.

Ltac nf_solve := solve [eauto 60 with nf].
(** the proof of a helper lemma: unfold it, split its cases *)
Ltac nf_helper := intros; nbrk; cbn [fst snd]; nf_solve.

Lemma nofuel_fold {B} (f : machine -> B -> machine) :
  (forall m b, nofuel m -> nofuel (f m b)) -> forall l m, nofuel m -> nofuel (fold_left f l m).
Proof. intros Hf l. induction l as [|a l IH]; intros m H; cbn; [exact H|]. apply IH, Hf, H. Qed.

Section Helpers.
  Context (K : conf) (P : prog).
  Implicit Types (m : machine).

  Lemma nofuel_dec_size o m : nofuel m -> nofuel (dec_size o m).
  Proof. unfold dec_size. nf_helper. Qed.
  Hint Resolve nofuel_dec_size : nf.
  Lemma nofuel_remove_from_list o m : nofuel m -> nofuel (remove_from_list o m).
  Proof. unfold remove_from_list. nf_helper. Qed.
  Lemma nofuel_add_to_list o m : nofuel m -> nofuel (add_to_list o m).
  Proof. unfold add_to_list. nf_helper. Qed.
  Lemma nofuel_dec_rc_m o m : nofuel m -> nofuel (dec_rc_m o m).
  Proof. unfold dec_rc_m. nf_helper. Qed.
  Lemma nofuel_dealloc o m : nofuel m -> nofuel (dealloc K o m).
  Proof. unfold dealloc. nf_helper. Qed.
  Lemma nofuel_sfree o m : nofuel m -> nofuel (sfree o m).
  Proof. unfold sfree. nf_helper. Qed.
  Hint Resolve nofuel_sfree : nf.
  Lemma nofuel_drop_metadata o m : nofuel m -> nofuel (drop_metadata K o m).
  Proof. unfold drop_metadata. nf_helper. Qed.
  Lemma nofuel_init_side o m : nofuel m -> nofuel (init_side o m).
  Proof. unfold init_side. nf_helper. Qed.
  Lemma nofuel_weak_strong_count w m : nofuel m -> nofuel (weak_strong_count w m).1.
  Proof. unfold weak_strong_count. nf_helper. Qed.
  Lemma nofuel_weak_weak_count w m : nofuel m -> nofuel (weak_weak_count w m).1.
  Proof. unfold weak_weak_count. nf_helper. Qed.
  Lemma nofuel_weak_clone w m m' : weak_clone w m = Some m' -> nofuel m -> nofuel m'.
  Proof.
    unfold weak_clone. intros E H. destruct w as [|o]; [congruence|].
    destruct (side_wk m o) as [k|]; [destruct (inc_wk k)|]; inversion E; subst; nf_solve.
  Qed.
  Lemma nofuel_weak_drop w m : nofuel m -> nofuel (weak_drop w m).
  Proof. unfold weak_drop. nf_helper. Qed.
  Hint Resolve nofuel_weak_drop : nf.
  Lemma nofuel_weak_drop_opt w m : nofuel m -> nofuel (weak_drop_opt w m).
  Proof. unfold weak_drop_opt. nf_helper. Qed.
  Hint Resolve nofuel_weak_drop_opt : nf.
  Lemma nofuel_fold_weak_drop l m : nofuel m -> nofuel (fold_left (fun m w => weak_drop_opt w m) l m).
  Proof. apply nofuel_fold. intros. nf_solve. Qed.
  Lemma nofuel_node_via_slot i m : nofuel m -> nofuel (node_via_slot i m).1.
  Proof. unfold node_via_slot. nf_helper. Qed.
  Hint Resolve nofuel_node_via_slot : nf.
  Lemma nofuel_resolve self l m : nofuel m -> nofuel (resolve self l m).1.
  Proof.
    unfold resolve. intros H. destruct l as [i|j|i j]; [exact H|destruct (self_node self m); exact H|].
    pose proof (nofuel_node_via_slot i m H) as H1.
    destruct (node_via_slot i m) as [m1 [o|]]; exact H1.
  Qed.
  Lemma nofuel_wresolve self l m : nofuel m -> nofuel (wresolve self l m).1.
  Proof.
    unfold wresolve. intros H.
    destruct l as [i|j|i j|]; [exact H|destruct (self_node self m); exact H| |exact H].
    pose proof (nofuel_node_via_slot i m H) as H1.
    destruct (node_via_slot i m) as [m1 [o|]]; exact H1.
  Qed.
  Lemma nofuel_nresolve self n m : nofuel m -> nofuel (nresolve self n m).1.
  Proof. unfold nresolve. destruct n; [auto|apply nofuel_node_via_slot]. Qed.
  Lemma nofuel_write_loc r v m : nofuel m -> nofuel (write_loc r v m).
  Proof. unfold write_loc. nf_helper. Qed.
  Lemma nofuel_write_wloc r v m : nofuel m -> nofuel (write_wloc r v m).
  Proof. unfold write_wloc. nf_helper. Qed.
  Lemma nofuel_set_fuse k n m : nofuel m -> nofuel (set_fuse k n m).
  Proof. unfold set_fuse. nf_helper. Qed.
  Hint Resolve nofuel_set_fuse : nf.
  Lemma nofuel_tick k m : nofuel m -> nofuel (tick k m).1.
  Proof. unfold tick. nf_helper. Qed.
  Hint Resolve nofuel_tick : nf.
  Lemma nofuel_new_node cls m : nofuel m -> nofuel (new_node P cls m).1.
  Proof. apply nofuel_log. reflexivity. Qed.
  Lemma nofuel_new_map m : nofuel m -> nofuel (new_map m).1.
  Proof. apply nofuel_log. reflexivity. Qed.
  Lemma nofuel_box_alloc o m : nofuel m -> nofuel (box_alloc K o m).
  Proof. unfold box_alloc. nf_helper. Qed.
  Lemma nofuel_map_insert mo a sc m : nofuel m -> nofuel (map_insert mo a sc m).1.
  Proof. unfold map_insert. nf_helper. Qed.
  Lemma nofuel_adjust m : nofuel m -> nofuel (adjust K m).
  Proof. unfold adjust. nf_helper. Qed.
  Hint Resolve nofuel_adjust : nf.
  Lemma nofuel_adjust_trigger_point m : nofuel m -> nofuel (adjust_trigger_point K m).
  Proof. unfold adjust_trigger_point. nf_helper. Qed.
  Lemma nofuel_ok m r : nofuel m -> nofuel (ok m r).1.
  Proof. unfold ok. nf_helper. Qed.
  Lemma nofuel_fold_uhdr f L m : nofuel m -> nofuel (fold_left (fun m g => uhdr g f m) L m).
  Proof. apply nofuel_fold. intros. nf_solve. Qed.
  Lemma nofuel_unmark_all L m : nofuel m -> nofuel (unmark_all L m).
  Proof. apply nofuel_fold_uhdr. Qed.
  Lemma nofuel_reset_buffered m : nofuel m -> nofuel (reset_buffered m).
  Proof. apply nofuel_fold_uhdr. Qed.
  Hint Resolve nofuel_unmark_all nofuel_reset_buffered : nf.
  Lemma nofuel_fold_dealloc L m :
    nofuel m -> nofuel (fold_left (fun m g => dealloc K g (drop_metadata K g m)) L m).
  Proof. apply nofuel_fold. intros. apply nofuel_dealloc, nofuel_drop_metadata. assumption. Qed.

  (** *** the tracing phases *)
  Lemma nofuel_traced_children m p : nofuel m -> nofuel (traced_children P m p).1.
  Proof. unfold traced_children. nf_helper. Qed.
  Lemma nofuel_trace_event p m : nofuel m -> nofuel (trace_event K p m).1.
  Proof. unfold trace_event. nf_helper. Qed.
  Hint Resolve nofuel_traced_children nofuel_trace_event : nf.

  Lemma nofuel_visit_counting s c : nofuel (t_m s) -> nofuel (t_m (visit_counting s c)).
  Proof. unfold visit_counting. intros. nbrk; cbn [t_m]; nf_solve. Qed.
  Lemma nofuel_fold_visit_counting kids : forall s,
    nofuel (t_m s) -> nofuel (t_m (fold_left visit_counting kids s)).
  Proof.
    induction kids as [|c kids IH]; intros s H; cbn; [exact H|]. apply IH, nofuel_visit_counting, H.
  Qed.
  Lemma nofuel_process_counting s p :
    nofuel (t_m s) -> nofuel (t_m (process_counting K P s p).1).
  Proof.
    unfold process_counting. intros H.
    pose proof (nofuel_trace_event p (uhdr p (set_mark IQ) (t_m s)) ltac:(nf_solve)) as H1.
    destruct (trace_event K p (uhdr p (set_mark IQ) (t_m s))) as [m1 boom]. cbn [fst] in H1.
    destruct boom; [cbn [fst t_m]; nf_solve|].
    pose proof (nofuel_traced_children m1 p H1) as H2.
    destruct (traced_children P m1 p) as [m2 kids]. cbn [fst] in H2.
    pose proof (nofuel_fold_visit_counting kids (TState m2 (t_root s) (t_non s) (t_q s)) H2) as H3.
    destruct (_ =? _); cbn [fst t_m]; nf_solve.
  Qed.
  Lemma nofuel_counting fuel : forall s r,
    nofuel (t_m s) -> counting K P fuel s = Some r -> nofuel (t_m r.1).
  Proof.
    induction fuel as [|f IH]; intros s r H E; cbn [counting] in E; [discriminate|].
    destruct (pc (t_m s)) as [|p rest] eqn:Epc.
    - destruct (t_q s) as [|p q'] eqn:Eq; [inversion E; subst; exact H|].
      match type of E with context [process_counting K P ?s1 p] =>
        pose proof (nofuel_process_counting s1 p ltac:(cbn [t_m]; nf_solve)) as H1;
        destruct (process_counting K P s1 p) as [s' boom] end.
      cbn [fst] in H1. destruct boom; [inversion E; subst; exact H1|]. eapply IH; eassumption.
    - match type of E with context [process_counting K P ?s1 p] =>
        pose proof (nofuel_process_counting s1 p ltac:(cbn [t_m]; nf_solve)) as H1;
        destruct (process_counting K P s1 p) as [s' boom] end.
      cbn [fst] in H1. destruct boom; [inversion E; subst; exact H1|]. eapply IH; eassumption.
  Qed.

  Lemma nofuel_visit_root s c : nofuel (t_m s) -> nofuel (t_m (visit_root s c)).
  Proof. unfold visit_root. intros. nbrk; cbn [t_m]; nf_solve. Qed.
  Lemma nofuel_fold_visit_root kids : forall s,
    nofuel (t_m s) -> nofuel (t_m (fold_left visit_root kids s)).
  Proof.
    induction kids as [|c kids IH]; intros s H; cbn; [exact H|]. apply IH, nofuel_visit_root, H.
  Qed.
  Lemma nofuel_process_root s p : nofuel (t_m s) -> nofuel (t_m (process_root K P s p).1).
  Proof.
    unfold process_root. intros H.
    pose proof (nofuel_trace_event p (t_m s) H) as H1.
    destruct (trace_event K p (t_m s)) as [m1 boom]. cbn [fst] in H1.
    destruct boom; [cbn [fst t_m]; nf_solve|].
    pose proof (nofuel_traced_children m1 p H1) as H2.
    destruct (traced_children P m1 p) as [m2 kids]. cbn [fst] in *.
    apply nofuel_fold_visit_root. exact H2.
  Qed.
  Lemma nofuel_roots fuel : forall s r,
    nofuel (t_m s) -> roots K P fuel s = Some r -> nofuel (t_m r.1).
  Proof.
    induction fuel as [|f IH]; intros s r H E; cbn [roots] in E; [discriminate|].
    destruct (t_root s) as [|p rest] eqn:Er.
    - destruct (t_q s) as [|p q'] eqn:Eq; [inversion E; subst; exact H|].
      match type of E with context [process_root K P ?s1 p] =>
        pose proof (nofuel_process_root s1 p ltac:(cbn [t_m]; nf_solve)) as H1;
        destruct (process_root K P s1 p) as [s' boom] end.
      cbn [fst] in H1. destruct boom; [inversion E; subst; exact H1|]. eapply IH; eassumption.
    - match type of E with context [process_root K P ?s1 p] =>
        pose proof (nofuel_process_root s1 p ltac:(cbn [t_m]; nf_solve)) as H1;
        destruct (process_root K P s1 p) as [s' boom] end.
      cbn [fst] in H1. destruct boom; [inversion E; subst; exact H1|]. eapply IH; eassumption.
  Qed.

  Lemma nofuel_trace_pass m : nofuel m -> nofuel (trace_pass K P m).1.
  Proof.
    unfold trace_pass. intros H.
    destruct (counting K P (pass_fuel m) (TState m [] [] [])) as [[s b]|] eqn:Ec; [|exact H].
    pose proof (nofuel_counting _ (TState m [] [] []) _ H Ec) as H1. cbn [fst] in H1.
    destruct b; [exact H1|].
    destruct (roots K P (pass_fuel m) s) as [[s' b']|] eqn:Er; [|exact H1].
    pose proof (nofuel_roots _ _ _ H1 Er) as H2. destruct b'; exact H2.
  Qed.
End Helpers.

#[export] Hint Resolve
  nofuel_dec_size nofuel_remove_from_list nofuel_add_to_list nofuel_dec_rc_m nofuel_dealloc
  nofuel_sfree nofuel_drop_metadata nofuel_init_side nofuel_weak_strong_count
  nofuel_weak_weak_count nofuel_weak_drop nofuel_weak_drop_opt nofuel_fold_weak_drop
  nofuel_node_via_slot nofuel_resolve nofuel_wresolve nofuel_nresolve nofuel_write_loc
  nofuel_write_wloc nofuel_set_fuse nofuel_tick nofuel_new_node nofuel_new_map nofuel_box_alloc
  nofuel_map_insert nofuel_adjust nofuel_adjust_trigger_point nofuel_ok nofuel_fold_uhdr
  nofuel_unmark_all nofuel_reset_buffered nofuel_fold_dealloc nofuel_traced_children
  nofuel_trace_event nofuel_trace_pass : nf.

(** ** The activations *)
Lemma unwinding_nf f m :
  (nofuel (m <| panicking := true |>) ->
   (f (m <| panicking := true |>)).2 <> OFuel -> nofuel (f (m <| panicking := true |>)).1) ->
  nofuel m -> (unwinding f m).2 <> OFuel -> nofuel (unwinding f m).1.
Proof.
  unfold unwinding. intros Hf Hm. specialize (Hf ltac:(nf_solve)).
  destruct (f (m <| panicking := true |>)) as [m' r]. cbn [fst snd] in *. intros Hr.
  assert (Hr' : r <> OFuel) by (intros ->; apply Hr; reflexivity).
  specialize (Hf Hr'). nf_solve.
Qed.

(** one step of symbolic execution: destruct the innermost scrutinee, recording [nofuel] of the
    machine component it returns *)
Ltac nstep Hrec :=
  match goal with
  | |- context [match ?X with _ => _ end] =>
    lazymatch X with context [match _ with _ => _ end] => fail | _ => idtac end;
    first
    [ lazymatch X with
      | unwinding (?rc ?c) ?E0 =>
        let H := fresh "HN" in
        assert (H : (unwinding (rc c) E0).2 <> OFuel -> nofuel (unwinding (rc c) E0).1)
          by (apply unwinding_nf; [intros; apply Hrec; assumption | nf_solve]);
        destruct (unwinding (rc c) E0) as [? ?]; cbn [fst snd] in H
      | ?rc ?c ?E0 =>
        lazymatch type of Hrec with nfspec ?rc' => constr_eq rc rc' end;
        let H := fresh "HN" in
        assert (H : (rc c E0).2 <> OFuel -> nofuel (rc c E0).1) by (apply Hrec; nf_solve);
        destruct (rc c E0) as [? ?]; cbn [fst snd] in H
      end
    | lazymatch X with
      | weak_clone ?w ?E0 =>
        let E := fresh "Ewc" in
        destruct (weak_clone w E0) eqn:E; [apply nofuel_weak_clone in E; [|nf_solve]|]
      end
    | lazymatch type of X with
      | (machine * _)%type =>
        let H := fresh "HN" in
        assert (H : nofuel X.1) by nf_solve;
        destruct X as [? ?] eqn:?; cbn [fst snd] in H
      end
    | destruct X eqn:? ]
  end.

Ltac nleaf Hrec :=
  cbn [fst snd];
  let Hne := fresh "Hne" in
  intros Hne;
  first
  [ exfalso; apply Hne; reflexivity
  | apply Hrec; [nf_solve | exact Hne]
  | apply unwinding_nf; [intros; apply Hrec; assumption | nf_solve | exact Hne]
  | nf_solve ].

Ltac nrun Hrec := repeat (progress (cbv beta iota) || nstep Hrec); try (nleaf Hrec).

Section Steps.
  Context (K : conf) (P : prog).
  Context (rec : call -> machine -> machine * outcome).
  Hypothesis Hrec : nfspec rec.

  Notation NF X := (X.2 <> OFuel -> nofuel X.1).

  Lemma nf_step_script self cs m : nofuel m -> NF (step_script rec self cs m).
  Proof. intros Hm. unfold step_script. nrun Hrec. Qed.
  Lemma nf_step_store r v m : nofuel m -> NF (step_store rec r v m).
  Proof. intros Hm. unfold step_store. nrun Hrec. Qed.
  Lemma nf_step_drop_cc o m : nofuel m -> NF (step_drop_cc K P rec o m).
  Proof. intros Hm. unfold step_drop_cc. nrun Hrec. Qed.
  Lemma nf_step_drop_value o m : nofuel m -> NF (step_drop_value K P rec o m).
  Proof. intros Hm. unfold step_drop_value. nrun Hrec. Qed.
  Lemma nf_step_drop_fields o j m : nofuel m -> NF (step_drop_fields rec o j m).
  Proof. intros Hm. unfold step_drop_fields. nrun Hrec. Qed.
  Lemma nf_step_drop_map_slots o j m : nofuel m -> NF (step_drop_map_slots rec o j m).
  Proof. intros Hm. unfold step_drop_map_slots. nrun Hrec. Qed.
  Lemma nf_step_clean_run mo aid sc m : nofuel m -> NF (step_clean_run K P rec mo aid sc m).
  Proof. intros Hm. unfold step_clean_run. nrun Hrec. Qed.
  Lemma nf_step_trigger m : nofuel m -> NF (step_trigger K rec m).
  Proof. intros Hm. unfold step_trigger. nrun Hrec. Qed.
  Lemma nf_step_collect_cycles m : nofuel m -> NF (step_collect_cycles K rec m).
  Proof. intros Hm. unfold step_collect_cycles. nrun Hrec. Qed.
  Lemma nf_step_collect m : nofuel m -> NF (step_collect K rec m).
  Proof. intros Hm. unfold step_collect. nrun Hrec. Qed.
  Lemma nf_step_collect_loop k m : nofuel m -> NF (step_collect_loop rec k m).
  Proof. intros Hm. unfold step_collect_loop. nrun Hrec. Qed.
  Lemma nf_step_finalize_list L rest any old_f m : nofuel m -> NF (step_finalize_list K P rec L rest any old_f m).
  Proof. intros Hm. unfold step_finalize_list. nrun Hrec. Qed.
  Lemma nf_step_drop_list L rest old_d m : nofuel m -> NF (step_drop_list K rec L rest old_d m).
  Proof. intros Hm. unfold step_drop_list. nrun Hrec. Qed.
  Lemma nf_step_unbag k m : nofuel m -> NF (step_unbag rec k m).
  Proof. intros Hm. unfold step_unbag. nrun Hrec. Qed.
  Lemma nf_cmd_new self dst cls m : nofuel m -> NF (cmd_new K P rec self dst cls m).
  Proof. intros Hm. unfold cmd_new. nrun Hrec. Qed.
  Lemma nf_cmd_clone self src dst m : nofuel m -> NF (cmd_clone rec self src dst m).
  Proof. intros Hm. unfold cmd_clone. nrun Hrec. Qed.
  Lemma nf_cmd_drop self l m : nofuel m -> NF (cmd_drop rec self l m).
  Proof. intros Hm. unfold cmd_drop. nrun Hrec. Qed.
  Lemma nf_cmd_move self src dst m : nofuel m -> NF (cmd_move rec self src dst m).
  Proof. intros Hm. unfold cmd_move. nrun Hrec. Qed.
  Lemma nf_cmd_mark_alive self l m : nofuel m -> NF (cmd_mark_alive self l m).
  Proof. intros Hm. unfold cmd_mark_alive. nrun Hrec. Qed.
  Lemma nf_cmd_collect self m : nofuel m -> NF (cmd_collect rec self m).
  Proof. intros Hm. unfold cmd_collect. nrun Hrec. Qed.
  Lemma nf_cmd_downgrade self l w m : nofuel m -> NF (cmd_downgrade K self l w m).
  Proof. intros Hm. unfold cmd_downgrade. nrun Hrec. Qed.
  Lemma nf_cmd_upgrade self w dst m : nofuel m -> NF (cmd_upgrade K rec self w dst m).
  Proof. intros Hm. unfold cmd_upgrade. nrun Hrec. Qed.
  Lemma nf_cmd_w_new self w m : nofuel m -> NF (cmd_w_new K self w m).
  Proof. intros Hm. unfold cmd_w_new. nrun Hrec. Qed.
  Lemma nf_cmd_w_clone self src dst m : nofuel m -> NF (cmd_w_clone K self src dst m).
  Proof. intros Hm. unfold cmd_w_clone. nrun Hrec. Qed.
  Lemma nf_cmd_w_drop self w m : nofuel m -> NF (cmd_w_drop K self w m).
  Proof. intros Hm. unfold cmd_w_drop. nrun Hrec. Qed.
  Lemma nf_cmd_try_unwrap self l v m : nofuel m -> NF (cmd_try_unwrap K self l v m).
  Proof. intros Hm. unfold cmd_try_unwrap. nrun Hrec. Qed.
  Lemma nf_cmd_drop_value self v m : nofuel m -> NF (cmd_drop_value rec self v m).
  Proof. intros Hm. unfold cmd_drop_value. nrun Hrec. Qed.
  Lemma nf_cmd_fin_again self l m : nofuel m -> NF (cmd_fin_again K self l m).
  Proof. intros Hm. unfold cmd_fin_again. nrun Hrec. Qed.
  Lemma nf_cmd_new_cyclic self dst cls sc sw m : nofuel m -> NF (cmd_new_cyclic K P rec self dst cls sc sw m).
  Proof. intros Hm. unfold cmd_new_cyclic. nrun Hrec. Qed.
  Lemma nf_cmd_register self nd sc c m : nofuel m -> NF (cmd_register K P rec self nd sc c m).
  Proof. intros Hm. unfold cmd_register. nrun Hrec. Qed.
  Lemma nf_cmd_clean self c m : nofuel m -> NF (cmd_clean K rec self c m).
  Proof. intros Hm. unfold cmd_clean. nrun Hrec. Qed.
  Lemma nf_cmd_c_drop self c m : nofuel m -> NF (cmd_c_drop K self c m).
  Proof. intros Hm. unfold cmd_c_drop. nrun Hrec. Qed.
  Lemma nf_cmd_unbag self k m : nofuel m -> NF (cmd_unbag rec self k m).
  Proof. intros Hm. unfold cmd_unbag. nrun Hrec. Qed.
  Lemma nf_cmd_borrow self nd m : nofuel m -> NF (cmd_borrow self nd m).
  Proof. intros Hm. unfold cmd_borrow. nrun Hrec. Qed.
  Lemma nf_cmd_unborrow self nd m : nofuel m -> NF (cmd_unborrow self nd m).
  Proof. intros Hm. unfold cmd_unborrow. nrun Hrec. Qed.
  Lemma nf_cmd_cfg_auto self b m : nofuel m -> NF (cmd_cfg_auto K self b m).
  Proof. intros Hm. unfold cmd_cfg_auto. nrun Hrec. Qed.
  Lemma nf_cmd_cfg_percent self num e m : nofuel m -> NF (cmd_cfg_percent K self num e m).
  Proof. intros Hm. unfold cmd_cfg_percent. nrun Hrec. Qed.
  Lemma nf_cmd_cfg_buffered self b m : nofuel m -> NF (cmd_cfg_buffered K self b m).
  Proof. intros Hm. unfold cmd_cfg_buffered. nrun Hrec. Qed.
  Lemma nf_cmd_arm self k v m : nofuel m -> NF (cmd_arm self k v m).
  Proof. intros Hm. unfold cmd_arm. nrun Hrec. Qed.
  Lemma nf_cmd_panic self m : nofuel m -> NF (cmd_panic self m).
  Proof. intros Hm. unfold cmd_panic. nrun Hrec. Qed.
  Lemma nf_cmd_obs self l m : nofuel m -> NF (cmd_obs self l m).
  Proof. intros Hm. unfold cmd_obs. nrun Hrec. Qed.
  Lemma nf_cmd_w_obs self w m : nofuel m -> NF (cmd_w_obs K self w m).
  Proof. intros Hm. unfold cmd_w_obs. nrun Hrec. Qed.
  Lemma nf_cmd_s_obs self m : nofuel m -> NF (cmd_s_obs K self m).
  Proof. intros Hm. unfold cmd_s_obs. nrun Hrec. Qed.

  Lemma nf_step_collect_once m : nofuel m -> NF (step_collect_once K P rec m).
  Proof.
    intros Hm. unfold step_collect_once.
    nstep Hrec. destruct p as [L| |]; [|nleaf Hrec|cbn [fst snd]; intros Hne; exfalso; apply Hne; reflexivity].
    nrun Hrec.
  Qed.

  Lemma nf_cmd_bag self l k m : nofuel m -> NF (cmd_bag self l k m).
  Proof.
    intros Hm. unfold cmd_bag. nstep Hrec. nstep Hrec; [|nleaf Hrec].
    generalize (N.to_nat k). intros n. revert HN. generalize m0. clear.
    induction n as [|n IH]; intros mi HN.
    - nleaf tt.
    - cbn. destruct (inc_rc (hdr_of mi i)) as [h|] eqn:E; [|nleaf tt].
      apply IH. nf_solve.
  Qed.

  Lemma nf_step_cmd self c m : nofuel m -> NF (step_cmd K P rec self c m).
  Proof.
    intros Hm. destruct c; cbn [step_cmd].
    - apply nf_cmd_new, Hm.
    - apply nf_cmd_clone, Hm.
    - apply nf_cmd_drop, Hm.
    - apply nf_cmd_move, Hm.
    - apply nf_cmd_mark_alive, Hm.
    - apply nf_cmd_collect, Hm.
    - apply nf_cmd_downgrade, Hm.
    - apply nf_cmd_upgrade, Hm.
    - apply nf_cmd_w_new, Hm.
    - apply nf_cmd_w_clone, Hm.
    - apply nf_cmd_w_drop, Hm.
    - apply nf_cmd_try_unwrap, Hm.
    - apply nf_cmd_drop_value, Hm.
    - apply nf_cmd_fin_again, Hm.
    - apply nf_cmd_new_cyclic, Hm.
    - apply nf_cmd_register, Hm.
    - apply nf_cmd_clean, Hm.
    - apply nf_cmd_c_drop, Hm.
    - apply nf_cmd_bag, Hm.
    - apply nf_cmd_unbag, Hm.
    - apply nf_cmd_borrow, Hm.
    - apply nf_cmd_unborrow, Hm.
    - apply nf_cmd_cfg_auto, Hm.
    - apply nf_cmd_cfg_percent, Hm.
    - apply nf_cmd_cfg_buffered, Hm.
    - apply nf_cmd_arm, Hm.
    - apply nf_cmd_panic, Hm.
    - apply nf_cmd_obs, Hm.
    - apply nf_cmd_w_obs, Hm.
    - apply nf_cmd_s_obs, Hm.
  Qed.

  Lemma nf_step c m : nofuel m -> NF (step K P rec c m).
  Proof.
    intros Hm. destruct c; cbn [step].
    - apply nf_step_cmd, Hm.
    - apply nf_step_script, Hm.
    - apply nf_step_store, Hm.
    - apply nf_step_drop_cc, Hm.
    - apply nf_step_drop_value, Hm.
    - apply nf_step_drop_fields, Hm.
    - apply nf_step_drop_map_slots, Hm.
    - apply nf_step_trigger, Hm.
    - apply nf_step_collect_cycles, Hm.
    - apply nf_step_collect, Hm.
    - apply nf_step_collect_loop, Hm.
    - apply nf_step_collect_once, Hm.
    - apply nf_step_finalize_list, Hm.
    - apply nf_step_drop_list, Hm.
    - apply nf_step_unbag, Hm.
    - apply nf_step_clean_run, Hm.
  Qed.
End Steps.

Theorem step_nofuel K P rec : nfspec rec -> nfspec (step K P rec).
Proof. intros Hrec c m Hm. apply nf_step; assumption. Qed.

Theorem run_nofuel K P n : nfspec (run K P n).
Proof.
  induction n as [|n IH].
  - intros c m _ H. exfalso. apply H. reflexivity.
  - intros c m. rewrite run_S. apply step_nofuel, IH.
Qed.

Print Assumptions run_nofuel.
