(** * RunInd: the induction principle for the fuelled interpreter.

    [run (S n) c m = step (run n) c m], so a pre/post-condition pair holds of every run as soon
    as every [step] case preserves it assuming it of the recursive calls.  All machine
    invariants (Flags.v, Buf.v, Life.v, Count.v, ...) are instances. *)
From Coq Require Import NArith Bool List.
From stdpp Require Import base list option.
From RC Require Import Hdr Machine.

Section RunInd.
  Context (K : conf) (P : prog).
  Variable Pre : call -> machine -> Prop.
  Variable Post : call -> machine -> machine -> outcome -> Prop.

  Definition rec_ok (rec : call -> machine -> machine * outcome) : Prop :=
    forall c m, Pre c m -> Post c m (rec c m).1 (rec c m).2.

  Hypothesis step_ok : forall rec, rec_ok rec -> rec_ok (step K P rec).
  Hypothesis fuel_ok : forall c m, Pre c m -> Post c m m OFuel.

  Theorem run_ind : forall n, rec_ok (run K P n).
  Proof.
    induction n as [|n IH]; intros c m Hpre; cbn [run].
    - apply fuel_ok, Hpre.
    - apply step_ok; [exact IH | exact Hpre].
  Qed.
End RunInd.


(** Layered invariants: a second pre/post pair may rely on a first one that has already been
    established for every [run n]. *)
Section RunInd2.
  Context (K : conf) (P : prog).
  Variable Pre1 : call -> machine -> Prop.
  Variable Post1 : call -> machine -> machine -> outcome -> Prop.
  Variable Pre2 : call -> machine -> Prop.
  Variable Post2 : call -> machine -> machine -> outcome -> Prop.

  Hypothesis layer1 : forall n, rec_ok Pre1 Post1 (run K P n).
  Hypothesis step_ok2 : forall rec,
      rec_ok Pre1 Post1 rec -> rec_ok Pre2 Post2 rec -> rec_ok Pre2 Post2 (step K P rec).
  Hypothesis fuel_ok2 : forall c m, Pre2 c m -> Post2 c m m OFuel.

  Theorem run_ind2 : forall n, rec_ok Pre2 Post2 (run K P n).
  Proof.
    induction n as [|n IH]; intros c m Hpre; cbn [run].
    - apply fuel_ok2, Hpre.
    - apply step_ok2; [apply layer1 | exact IH | exact Hpre].
  Qed.
End RunInd2.

(** [run] unfolds one step at a time. *)
Lemma run_S K P n c m : run K P (S n) c m = step K P (run K P n) c m.
Proof. reflexivity. Qed.
Lemma run_O K P c m : run K P O c m = (m, OFuel).
Proof. reflexivity. Qed.
