(** * CleanWalkOwner: the owner-level reading of C10, as far as it is true in the model.

    [prog_R]: two top-level states of a clean run are related by [CleanWalkRel.R] (the heap grows,
    [o_ismap] is stable, a Cleaner field only changes to [None] or to a fresh object, a box once
    allocated is never "not yet allocated" again, ...).

    [prog_owner_partial]: in a clean, panic-free run, if [o]'s Cleaner named [mo] at an earlier
    top-level state, [o]'s value is [VDropped] now AND ITS CLEANER FIELD HAS BEEN CLEARED (this
    hypothesis is what fails in CleanWalkOwnerEx.v: an owner destroyed during its own
    [register]), then no Cleaner names [mo], no handle to it exists, its strong count is 0 if it
    is still allocated; with [Quiet.MapsOwned] (every allocated live CleanerMap has a positive
    strong count - the open hypothesis of Quiet.v) the map value is not alive any more. *)
From Coq Require Import NArith Bool List Lia.
From stdpp Require Import base list option.
From RecordUpdate Require Import RecordSet.
From RC Require Import Hdr Machine RunInd Inv.
From RC Require Import InvP SafeHelpers SafeMain SafeColl SafeFinal LifeGhost Life.
From RC Require Import Clean CleanFrame CleanStep CleanThm CleanLog CleanProg CleanUFrame.
From RC Require Import CleanWalk CleanWalkRel CleanWalkChk CleanWalkStep CleanWalkThm CleanWalkProg.
From RC Require Quiet.
Import ListNotations RecordSetNotations.

Section Owner.
  Context (K : conf) (P : prog).
  Hypothesis Hconf : k_clean K = true -> k_weak K = true.
  Hypothesis Hwf : wf_prog P = true.
  Context (fuel : nat).

  Notation mx mu := (fun m0 c => mexec_top K P (chkW K P) mu fuel c m0).
  Notation rx := (fun m c => exec_top K P fuel c m).

  Lemma clean_run_from cs : forall m0, clean (fold_left rx cs m0) = true -> clean m0 = true.
  Proof.
    induction cs as [|c cs IH]; intros m0 H; [exact H|]. cbn [fold_left] in H.
    apply IH in H. apply (clean_exec_top K P fuel c m0 H).
  Qed.

  Lemma taint_mexec mu c mf :
    clean (mexec_top K P (chkW K P) mu fuel c mf) = true -> mem_id mu (dead mf) = true ->
    mem_id mu (dead (mexec_top K P (chkW K P) mu fuel c mf)) = true.
  Proof.
    intros Hc HT. destruct (inv_mexec K P fuel mu c mf Hc (or_introl HT)) as [H|H]; [exact H|].
    (* [J] alone is not enough: use the post-condition again *)
    destruct (clean_mexec K P fuel mu c mf Hc) as [_ Hr].
    pose proof (C10W_nested_inv mu K P fuel (KCmd None c) mf (or_introl HT) Hr) as HQ.
    unfold mexec_top in *. destruct (mrun K P (chkW K P) mu fuel (KCmd None c) mf) as [m1 r]. cbn [fst snd] in *.
    destruct r; try discriminate; cvs; (destruct HQ as [HQ|(HQ & _)]; [exact HQ|congruence]).
  Qed.

  Lemma taint_mfold mu cs : forall mf, clean (fold_left (mx mu) cs mf) = true ->
    mem_id mu (dead mf) = true -> mem_id mu (dead (fold_left (mx mu) cs mf)) = true.
  Proof.
    induction cs as [|c cs IH]; intros mf Hc HT; [exact HT|]. cbn [fold_left] in *.
    apply IH; [exact Hc|]. apply taint_mexec; [|exact HT]. apply (clean_mfold K P fuel mu cs _ Hc).
  Qed.

  Lemma R_mexec mu c mf :
    clean (mexec_top K P (chkW K P) mu fuel c mf) = true -> mem_id mu (dead mf) = false -> J (zv mf) ->
    let mf' := mexec_top K P (chkW K P) mu fuel c mf in
    mem_id mu (dead mf') = true \/ (R None (length (zv mf)) (zv mf) (zv mf') /\ J (zv mf')).
  Proof.
    intros Hc Hg HJ. destruct (clean_mexec K P fuel mu c mf Hc) as [_ Hr].
    pose proof (C10W_nested_inv mu K P fuel (KCmd None c) mf (or_intror (conj HJ I)) Hr) as HQ.
    cbv zeta. unfold mexec_top in *. destruct (mrun K P (chkW K P) mu fuel (KCmd None c) mf) as [m1 r]. cbn [fst snd] in *.
    destruct r; try discriminate; cvs;
      (destruct HQ as [HQ|(_ & HR & HJ' & _)]; [left; exact HQ|right; split; [exact HR|exact HJ']]).
  Qed.

  Lemma R_mfold mu cs : forall mf, clean (fold_left (mx mu) cs mf) = true ->
    mem_id mu (dead mf) = false -> J (zv mf) ->
    mem_id mu (dead (fold_left (mx mu) cs mf)) = true \/
    R None (length (zv mf)) (zv mf) (zv (fold_left (mx mu) cs mf)).
  Proof.
    induction cs as [|c cs IH]; intros mf Hc Hg HJ; [right; apply R_refl|]. cbn [fold_left] in *.
    pose proof (clean_mfold K P fuel mu cs _ Hc) as Hc1.
    destruct (R_mexec mu c mf Hc1 Hg HJ) as [HT|[HR1 HJ1]].
    - left. apply taint_mfold; assumption.
    - destruct (mem_id mu (dead (mexec_top K P (chkW K P) mu fuel c mf))) eqn:G1; [left; apply taint_mfold; assumption|].
      destruct (IH _ Hc G1 HJ1) as [HT|HR2]; [left; exact HT|right].
      eapply R_trans; [exact HR1|]. apply (R_weaken _ _ _ _ _ HR2). apply (r_len _ _ _ _ HR1).
  Qed.

  Theorem prog_R cmds1 cmds2 :
    let m1 := fold_left rx cmds1 (init K) in
    let m := fold_left rx (cmds1 ++ cmds2) (init K) in
    clean m = true -> R None (length (zv m1)) (zv m1) (zv m).
  Proof.
    cbv zeta. intros Hc.
    set (m1 := fold_left rx cmds1 (init K)). set (m := fold_left rx (cmds1 ++ cmds2) (init K)) in *.
    assert (Hc1 : clean m1 = true).
    { unfold m in Hc. rewrite fold_left_app in Hc. apply (clean_run_from cmds2 _ Hc). }
    set (mu := S (list_max (dead m) + list_max (dead m1) + length (heap m) + length (heap m1))).
    pose proof (mfold_eq K P Hconf Hwf (chkW K P) (chkW_dl K P) (chkW_ok K P) mu fuel (cmds1 ++ cmds2)) as HE.
    cbv zeta in HE. fold m in HE. specialize (HE Hc ltac:(unfold mu; lia)).
    pose proof (mfold_eq K P Hconf Hwf (chkW K P) (chkW_dl K P) (chkW_ok K P) mu fuel cmds1) as HE1.
    cbv zeta in HE1. fold m1 in HE1. specialize (HE1 Hc1 ltac:(unfold mu; lia)).
    rewrite fold_left_app, HE1 in HE.
    pose proof (R_mfold mu cmds2 m1) as HR. rewrite HE in HR.
    destruct (HR Hc) as [HT|HR']; [apply mem_id_list_max; unfold mu; lia|exact (prog_J K P Hconf Hwf fuel cmds1 Hc1)| |exact HR'].
    rewrite mem_id_list_max in HT by (unfold mu; lia). discriminate.
  Qed.

  Theorem prog_owner_partial cmds1 cmds2 o mo xo xo' :
    let m1 := fold_left rx cmds1 (init K) in
    let m := fold_left rx (cmds1 ++ cmds2) (init K) in
    clean m = true -> no_panic_yet m = true ->
    get m1 o = Some xo -> o_cleaner xo = Some mo ->
    get m o = Some xo' -> o_vst xo' = VDropped -> o_cleaner xo' = None ->
    exists xm, get m mo = Some xm /\ o_ismap xm = true /\ unlinked_m m mo /\ refs m mo = 0 /\
               (o_box xm = BAlloc -> h_rc (o_hdr xm) = 0%N) /\
               (Quiet.MapsOwned m -> o_vst xm <> VLive).
  Proof.
    cbv zeta. intros Hc Hnp Hxo Hcl Hxo' Hv Hcl'.
    set (m1 := fold_left rx cmds1 (init K)) in *. set (m := fold_left rx (cmds1 ++ cmds2) (init K)) in *.
    pose proof (prog_R cmds1 cmds2 Hc) as HR. cbv zeta in HR. fold m1 m in HR.
    pose proof (prog_CI K P fuel cmds1) as HI1. fold m1 in HI1.
    (* at [m1]: [mo] is an existing map, named by [o] only *)
    assert (Hca : cleaner_at (cv_h (cv m1)) o = Some mo).
    { rewrite (cleaner_at_Some _ _ _ (cv_h_lookup _ _ _ Hxo)). exact Hcl. }
    destruct (proj2 (ci_obj _ HI1 o _ (cv_h_lookup _ _ _ Hxo)) mo Hcl) as (wm & Hwm & Em).
    destruct (cv_h_lookup_inv _ _ _ Hwm) as (xm1 & Hxm1 & ->). cbn in Em.
    assert (Hlt : mo < length (zv m1)) by (rewrite zv_length; eapply lookup_lt_Some, Hxm1).
    destruct (r_ism _ _ _ _ HR mo _ (zv_lookup _ _ _ Hxm1)) as (wm' & Hwm' & Em').
    destruct (zv_lookup_inv _ _ _ Hwm') as (xm & Hxm & ->). cbn in Em'.
    assert (Hu : unlinked_m m mo).
    { intros y xy Hy Hcy.
      destruct (r_kc _ _ _ _ HR y _ mo (zv_lookup _ _ _ Hy) Hcy) as [(w & Hw & Hcw)|Hge]; [|lia].
      destruct (zv_lookup_inv _ _ _ Hw) as (xy1 & Hxy1 & ->). cbn in Hcw.
      assert (Hcb : cleaner_at (cv_h (cv m1)) y = Some mo).
      { rewrite (cleaner_at_Some _ _ _ (cv_h_lookup _ _ _ Hxy1)). exact Hcw. }
      pose proof (ci_cl_inj _ HI1 y o mo Hcb Hca) as ->.
      pose proof (eq_trans (eq_sym Hy) Hxo') as [= ->]. congruence. }
    exists xm. split; [exact Hxm|]. split; [congruence|]. split; [exact Hu|].
    destruct (safe_programs_sinv K P fuel (cmds1 ++ cmds2) Hconf Hwf Hc) as (b & _ & HS & Hex & _). fold m in HS, Hex.
    rewrite (Hex Hnp) in HS.
    assert (Hrefs : refs m mo = 0).
    { destruct (Nat.eq_dec (refs m mo) 0) as [E|Hne]; [exact E|exfalso].
      destruct (refs_pos_hloc m mo ltac:(lia)) as (h & c & Hl).
      destruct (sv_loc K _ _ _ _ HS h c mo Hl) as (xt & Hxt & _ & Hnm & _).
      pose proof (eq_trans (eq_sym Hxt) Hxm) as [= ->].
      inversion Hl as [i t Hs|t Hb|p xp j t Hp Hf|p xp t Hp Hcp]; subst.
      - specialize (Hnm eq_refl). congruence.
      - specialize (Hnm eq_refl). congruence.
      - specialize (Hnm eq_refl). congruence.
      - exact (Hu p xp Hp Hcp). }
    split; [exact Hrefs|].
    pose proof (sv_obj K _ _ _ _ HS mo xm Hxm) as Hok. rewrite Hrefs in Hok. cbn [cnt_id filter length Nat.add] in Hok.
    assert (Hrc : o_box xm = BAlloc -> h_rc (o_hdr xm) = 0%N).
    { intros Hb. destruct (okN_alloc K _ _ _ _ _ Hok Hb) as (_ & H2 & _). rewrite (H2 eq_refl). reflexivity. }
    split; [exact Hrc|].
    intros HMO Hlive. destruct (o_box xm) eqn:Eb.
    - assert (Hc1 : clean m1 = true).
      { unfold m in Hc. rewrite fold_left_app in Hc. apply (clean_run_from cmds2 _ Hc). }
      destruct (safe_programs_sinv K P fuel cmds1 Hconf Hwf Hc1) as (b1 & _ & HS1 & _). fold m1 in HS1.
      destruct (sv_loc K _ _ _ _ HS1 (Some o) true mo (HL_clean m1 o xo mo Hxo Hcl)) as (xt1 & Hxt1 & Hb1 & _).
      pose proof (eq_trans (eq_sym Hxt1) Hxm1) as [= ->].
      destruct (r_bm _ _ _ _ HR mo _ (zv_lookup _ _ _ Hxm1)) as (w' & Hw' & Hb').
      + cbn. rewrite Hb1. discriminate.
      + pose proof (eq_trans (eq_sym Hw') (zv_lookup _ _ _ Hxm)) as [= ->]. cbn in Hb'. congruence.
    - exact (HMO mo xm Hxm ltac:(congruence) Eb Hlive (Hrc eq_refl)).
    - apply (okN_freed K _ _ _ _ _ Eb) in Hok. destruct Hok as (_ & Hl & _). unfold is_live in Hl. rewrite Hlive in Hl. discriminate.
  Qed.
End Owner.
