(** * CleanWalkOwnerEx: the OWNER-LEVEL reading of C10 ("when the value of an object with a
    Cleaner has been destroyed, the map its Cleaner named has been destroyed too, hence all its
    actions have run") is FALSE in the model, for a clean, panic-free run of a well-formed program
    that logs no [EBad] at all.

    The program: owner 0 (class 0, with a Cleaner) in slot 0; object 1 (class 1, finalizer
    [CDrop (LS 0)]) made a garbage self-cycle; automatic collection is switched on and
    [register] is called on the owner through the slot.  The owner has no map yet, so
    [Cleaner::register] calls [Cc::new(CleanerMap)], which starts a collection; the finalizer of
    object 1 drops slot 0 - the last handle of the owner -: the owner is finalized, dropped and
    FREED inside its own [register].  [register] then goes on: it stores the new map (object 2) in
    the Cleaner field of the dead owner and registers the action there.  Final state: owner 0
    [VDropped]/[BFreed] with [o_cleaner = Some 2]; map 2 [VLive]/[BAlloc], strong count 1, holding
    [MAction 0 1], which never runs.

    What it means for the real crate: [Cleaner::register] takes [&self]; in safe Rust the borrow
    keeps a handle of the owner alive for the duration of the call, so this interleaving cannot
    be written.  The test harness (harness/src/main.rs, [Cmd::Register]: [let node = unsafe { &*p }])
    and the model ([cmd_register] with [NSlot]) reach the node through a raw pointer taken from
    the slot and hold no handle: replaying this program on the harness is a use-after-free IN THE
    HARNESS, not a defect of rust-cc.  It is a deviation between model/harness and safe client
    code: the model accepts (no [EBad]) a run that safe code cannot produce, and the owner-level
    property needs the hypothesis that no owner is destroyed during its own [register]
    (e.g. "no [VDropped] object has a Cleaner field", [OwnersCleared] in CleanWalkOwner.v). *)
From Coq Require Import NArith Bool List.
From stdpp Require Import base list option.
From RC Require Import Hdr Machine RunInd Inv Clean CleanThm CleanLog CleanEx.
From RC Require SafeMain.
Import ListNotations.

Definition ownK : conf := f5_conf.
Definition ownP : prog :=
  Prog [Cls 0 [] 0 true None None; Cls 1 [true] 0 false (Some 0) None] [[CDrop (LS 0)]; [CSObs]] [].
Definition own_cmds : list cmd :=
  [CCfgAuto false; CNew (LS 0) 0; CNew (LS 1) 1; CClone (LS 1) (LFA 1 0); CDrop (LS 1);
   CCfgAuto true; CRegister (NSlot 0) 1 0].
Notation own_m := (fold_left (fun m c => exec_top ownK ownP 60 c m) own_cmds (init ownK)).

Lemma own_obj0 : exists xo, get own_m 0 = Some xo /\ o_ismap xo = false /\ o_vst xo = VDropped /\
                            o_box xo = BFreed /\ o_cleaner xo = Some 2.
Proof.
  assert (E0 : ((fun x => (o_ismap x, o_vst x, o_box x, o_cleaner x)) <$> get own_m 0)
               = Some (false, VDropped, BFreed, Some 2)) by (vm_compute; reflexivity).
  destruct (get own_m 0) as [xo|]; [|discriminate]. cbn in E0. injection E0 as A1 A2 A3 A4. eauto 6.
Qed.
Lemma own_obj2 : exists xm, get own_m 2 = Some xm /\ o_ismap xm = true /\ o_vst xm = VLive /\ o_box xm = BAlloc /\
                            h_rc (o_hdr xm) = 1%N /\ o_mslots xm = [MAction 0 1].
Proof.
  assert (E2 : ((fun x => (o_ismap x, o_vst x, o_box x, h_rc (o_hdr x), o_mslots x)) <$> get own_m 2)
               = Some (true, VLive, BAlloc, 1%N, [MAction 0 1])) by (vm_compute; reflexivity).
  destruct (get own_m 2) as [xm|]; [|discriminate]. cbn in E2. injection E2 as B1 B2 B3 B4 B5. eauto 7.
Qed.
Lemma own_flags : wf_prog ownP = true /\ SafeMain.clean own_m = true /\ no_panic_yet own_m = true /\
                  no_bad own_m = true /\ executed_aids (log own_m) = [] /\ next_aid own_m = 1.
Proof. vm_compute. auto 10. Qed.

(** the owner-level statement fails: the value of owner 0 is destroyed, its Cleaner names map 2,
    map 2 is alive and still holds the action 0, which has not run *)
Example owner_level_false :
  (k_clean ownK = true -> k_weak ownK = true) /\ wf_prog ownP = true /\
  SafeMain.clean own_m = true /\ no_panic_yet own_m = true /\ no_bad own_m = true /\
  (exists xo, get own_m 0 = Some xo /\ o_ismap xo = false /\ o_vst xo = VDropped /\
              o_box xo = BFreed /\ o_cleaner xo = Some 2) /\
  (exists xm, get own_m 2 = Some xm /\ o_ismap xm = true /\ o_vst xm = VLive /\ o_box xm = BAlloc /\
              h_rc (o_hdr xm) = 1%N /\ o_mslots xm = [MAction 0 1]) /\
  executed_aids (log own_m) = [] /\ next_aid own_m = 1.
Proof.
  destruct own_flags as (F1 & F2 & F3 & F4 & F5 & F6).
  split; [intros _; reflexivity|]. split; [exact F1|]. split; [exact F2|]. split; [exact F3|]. split; [exact F4|].
  split; [exact own_obj0|]. split; [exact own_obj2|]. split; [exact F5|exact F6].
Qed.
Print Assumptions owner_level_false.

(** the events of the run, oldest first *)
Example owner_level_false_log :
  rev (log own_m) =
  [ERes ROk; EAlloc 0 200 8; ERes ROk; EAlloc 1 200 8; ERes ROk; ERes ROk; ERes ROk; ERes ROk;
   ECb KTrace 1 (Flags true false false true); ECb KFin 1 (Flags true true false false);
   ECb KFin 0 (Flags true true false false); ECb KDrop 0 (Flags true true true false);
   EFree 0 200 8; ERes ROk;
   ECb KTrace 1 (Flags true false false true); ECb KDrop 1 (Flags true false true false);
   EFree 1 200 8; EAlloc 2 80 8; ESAlloc 2; ERes ROk].
Proof. vm_compute. reflexivity. Qed.
