(** * SoleChk: the decidable facts assumed at the entry of every activation by the walk of
    SoleWalk*.v ([LifeChk.chk] + the result of the tracing pass), with [chk_dl] / [chk_ok]. *)
From Coq Require Import NArith Bool List Lia.
From stdpp Require Import base list option.
From RecordUpdate Require Import RecordSet.
From RC Require Import Hdr Machine RunInd.
From RC Require BufBase Pass PassMain.
From RC Require Import Inv InvP SafeHelpers SafePrims SafeCalls SafeMain SafeColl SafeCollPass SafeFinal.
From RC Require Import LifeGhost LifeChk.
From RC Require Import SoleInv SolePrim SoleStep SoleWalk2.
Import ListNotations RecordSetNotations.
Local Open Scope N_scope.

Section Chk.
  Context (K : conf) (P : prog).

  Definition passgood_b (m : machine) : bool :=
    let m0 := m <| st_finalizing := false |> <| st_dropping := false |> in
    match (trace_pass K P m0).2 with
    | PFuel => false
    | PPanicked => forallb (fun x' => implb (is_alloc x') (negb (marked x'))) (heap (trace_pass K P m0).1)
    | PDone L =>
      forallb (fun ox => implb (is_alloc ox.2) (mem_id ox.1 L || negb (marked ox.2))) (imap pair (heap (trace_pass K P m0).1))
      && forallb (fun px => forallb (fun f => match f with
                                              | Some t => implb (mem_id t L) (mem_id px.1 L && is_live px.2)
                                              | None => true end) (o_fields px.2)) (imap pair (heap m))
    end.

  Definition chk (c : call) (m : machine) : bool :=
    LifeChk.chk c m && match c with KCollectOnce => passgood_b m | _ => true end.

  Lemma passgood_dl s m : passgood_b (dl s m) = passgood_b m.
  Proof.
    unfold passgood_b. cbv zeta. rewrite !set_st_finalizing_dl, !set_st_dropping_dl, trace_pass_dl. cbn [fst snd].
    rewrite !heap_dl. reflexivity.
  Qed.
  Lemma chk_dl c s m : chk c (dl s m) = chk c m.
  Proof. unfold chk. rewrite LifeChk.chk_dl. destruct c; try reflexivity. rewrite passgood_dl. reflexivity. Qed.

  Lemma passgood_spec m : passgood_b m = true -> PassGood K P m.
  Proof.
    unfold passgood_b, PassGood. cbv zeta. set (m0 := m <| st_finalizing := false |> <| st_dropping := false |>).
    destruct (trace_pass K P m0) as [m1 pr]. cbn [fst snd]. intros H. destruct pr as [L| |]; [| |discriminate].
    - apply andb_true_iff in H as [H1 H2]. rewrite forallb_forall in H1, H2. split; [discriminate|]. split.
      + intros t x' Hx' Hb Hm. exists L. split; [reflexivity|].
        specialize (H1 (t, x')). cbn [fst snd] in H1. unfold is_alloc in H1. rewrite Hb, Hm in H1. cbn in H1.
        rewrite orb_false_r in H1. apply mem_id_elem. apply H1. apply elem_of_list_In, elem_of_lookup_imap. exists t, x'. auto.
      + intros L' [= <-] t Ht p xp j Hxp Hj.
        assert (Hpx : In (p, xp) (imap pair (heap m))) by (apply elem_of_list_In, elem_of_lookup_imap; exists p, xp; auto).
        specialize (H2 (p, xp) Hpx). cbn [fst snd] in H2. rewrite forallb_forall in H2.
        assert (Hin : In (Some t) (o_fields xp)) by (apply elem_of_list_In; eapply elem_of_list_lookup_2; exact Hj).
        specialize (H2 (Some t) Hin). cbn in H2. rewrite (proj2 (mem_id_elem t L) Ht) in H2. cbn in H2.
        apply andb_true_iff in H2 as [A B]. split; [apply mem_id_elem, A|].
        unfold is_live in B. destruct (o_vst xp); try discriminate. reflexivity.
    - rewrite forallb_forall in H. split; [discriminate|]. split; [|discriminate].
      intros t x' Hx' Hb Hm. exfalso. specialize (H x'). unfold is_alloc in H. rewrite Hb, Hm in H. cbn in H.
      assert (Hin : In x' (heap m1)) by (apply elem_of_list_In; eapply elem_of_list_lookup_2; exact Hx'). specialize (H Hin). discriminate.
  Qed.

  Lemma passgood_ok b E m : PreC K b E KCollectOnce m -> passgood_b m = true.
  Proof.
    intros (Hnb & HI & Hc & HB & Hn). unfold passgood_b. cbv zeta.
    set (m0 := m <| st_finalizing := false |> <| st_dropping := false |>).
    pose proof (PassPre_SInv K P b E m HI HB) as Hpp.
    assert (Hpp0 : Pass.PassPre P m0 (extc E m)) by (eapply PassMain.PassPre_heap; [| | |exact Hpp]; reflexivity).
    pose proof (PassMain.pass_fuel_ok K P m0 _ Hpp0) as Hnf.
    destruct (trace_pass K P m0) as [m1 pr] eqn:Hr. cbn [fst snd] in *. destruct pr as [L| |]; [| |congruence].
    - destruct (PassMain.pass_done_marks K P m0 _ m1 L Hpp0 Hr) as (_ & _ & _ & Hmk & _).
      pose proof (PassMain.pass_closed K P m0 _ m1 L Hpp0 Hr) as Hcl.
      apply andb_true_iff. split; apply forallb_forall.
      + intros [o x'] Hin. apply elem_of_list_In, elem_of_lookup_imap in Hin as (o' & y & [= <- <-] & Hy). cbn [fst snd].
        unfold is_alloc. destruct (o_box x') eqn:Hb; try reflexivity. cbn.
        destruct (mem_id o L) eqn:Hm; [reflexivity|]. cbn.
        assert (Hal : Pass.alloc m1 o) by (exists x'; auto). destruct (Hmk o Hal) as [_ Hnm].
        assert (Hno : o ∉ L) by (apply mem_id_false, Hm). specialize (Hnm Hno).
        unfold marked. rewrite (hdr_of_get m1 o x' Hy) in Hnm.
        unfold is_in_list_or_queue. rewrite Hnm. reflexivity.
      + intros [p xp] Hin. apply elem_of_list_In, elem_of_lookup_imap in Hin as (p' & y & [= <- <-] & Hy). cbn [fst snd].
        apply forallb_forall. intros [t|] Hf; [|reflexivity]. destruct (mem_id t L) eqn:Hm; [|reflexivity]. cbn.
        apply mem_id_elem in Hm. apply elem_of_list_In, elem_of_list_lookup in Hf as [j Hj].
        destruct (Hcl t Hm) as (_ & Hflds & _). destruct (Hflds p xp j Hy Hj) as (HpL & _ & _ & _ & Hv).
        rewrite (proj2 (mem_id_elem p L) HpL). unfold is_live. rewrite Hv. reflexivity.
    - destruct (PassMain.pass_panicked K P m0 _ m1 Hpp0 Hr) as (Hmk & _).
      apply forallb_forall. intros x' Hin. apply elem_of_list_In, elem_of_list_lookup in Hin as [o Ho].
      unfold is_alloc. destruct (o_box x') eqn:Hb; try reflexivity. cbn.
      assert (Hal : Pass.alloc m1 o) by (exists x'; auto). specialize (Hmk o Hal).
      rewrite (hdr_of_get m1 o x' Ho) in Hmk.
      unfold marked, is_in_list_or_queue. destruct Hmk as [-> | ->]; reflexivity.
  Qed.

  Lemma chk_ok b E A c m : Pre K (PreC K) b E c m -> Q K A c m -> chk c m = true.
  Proof.
    intros Hpre HQ. unfold chk. rewrite (LifeChk.chk_ok K b E A c m Hpre HQ). cbn.
    destruct c; try reflexivity. apply (passgood_ok b E m Hpre).
  Qed.
End Chk.
