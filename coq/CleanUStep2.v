(** * CleanUStep2: [new], [register], [clean], the dispatchers and the step case of
    [Life.mrun_ind], modulo taint (see CleanU.v). *)
From Coq Require Import NArith Bool List Lia.
From stdpp Require Import base list option.
From RecordUpdate Require Import RecordSet.
From RC Require Import Hdr Machine RunInd Inv.
From RC Require Import Clean CleanFrame CleanStep CleanStep2 CleanThm CleanReg CleanUFrame CleanU CleanUStep.
Import ListNotations RecordSetNotations.

Ltac finX tac :=
  unfold ok;
  lazymatch goal with
  | |- tres _ _ (unwinding _ _) => apply tres_unwinding'; finX tac
  | |- tres _ _ (_, OFuel) => first [apply tres_fuel; relU | apply tres_intro; relU]
  | |- tres _ _ (_, raise _) => apply tres_raise; relU
  | |- tres _ _ (_, _) => apply tres_intro; relU
  | |- tres _ _ (_ _ _) => eapply rec_call; [eassumption | relU | first [xpre | tac]]
  end.
Ltac res_pairX tac x :=
  let Hr := fresh "Hr" in let m1 := fresh "m" in let r1 := fresh "r" in
  match goal with |- tres ?mu ?v0 _ => assert (Hr : tres mu v0 x) by finX tac end;
  destruct x as [m1 r1]; destruct r1; unfold tres in Hr; cbn [fst snd] in Hr.
Ltac adv1X tac :=
  inner_scrut ltac:(fun x =>
    lazymatch type of x with
    | (machine * outcome)%type => res_pairX tac x
    | option machine => fail
    | (machine * _)%type => mach_pairU x
    | _ => destruct x eqn:?
    end); cbv beta iota zeta; cbn [negb andb orb].
Ltac goX tac := cbv beta iota zeta; cbn [negb andb orb]; repeat adv1X tac; finX tac.

Section StepsU3.
  Context (mu : id) (K : conf) (P : prog).
  Context (rec : call -> machine -> machine * outcome).
  Context (Hrec : rec_ok (Pre2 mu) (Post2 mu) rec).
  Implicit Types (m : machine).

  Notation tn m := (mem_id mu (dead m) = true).
  Notation gd m := (mem_id mu (dead m) = false).
  Notation tok := (tok mu).

  Lemma tres_taint v0 x : tres mu None x -> tres mu v0 x.
  Proof. intros H. apply tres_None in H. unfold tres. destruct x.2; left; exact H. Qed.

  (** the rest of the activation from a tainted position *)
  Ltac taint_rest Ht :=
    apply tres_taint;
    let H := fresh "Ht" in
    lazymatch type of Ht with
    | mem_id _ (dead ?m2) = true => pose proof (or_introl Ht : TR mu None m2) as H
    end; goU.

  (** *** Cc::new *)
  Lemma tok_cmd_new self dst cls : tok (cmd_new K P rec self dst cls).
  Proof. intros m H. unfold cmd_new. goU. Qed.

  Lemma U_cmd_new self dst cls m :
    gd m -> CIv (cv m) -> tres mu (Some (cv m)) (cmd_new K P rec self dst cls m).
  Proof.
    intros Hg HI. pose proof (TR_self mu m Hg HI) as H0. unfold cmd_new. adv1U.
    destruct y as [r|]; [|goU].
    pose proof (cv_new_node P cls m0) as En. pose proof (dd_new_node P cls m0) as Dn.
    assert (Hlen : length (cv_h (cv m0)) = length (heap m0))
      by (unfold cv; cbn [cv_h]; apply fmap_length).
    unfold new_node in *. cbn [fst] in En, Dn.
    set (o := length (heap m0)) in *.
    set (m1 := m0 <| heap ::= fun h => h ++ _ |>) in *.
    assert (H1 : TR mu (Some (cv m)) m1) by (rewrite En, Dn; apply TR_new; exact Hr).
    assert (Hnm1 : exists w, cv_h (cv m1) !! o = Some w /\ v_ismap w = false).
    { exists (VObj false [] [] None). rewrite En. cbn [cv_h]. split; [|reflexivity].
      rewrite lookup_app_r by lia. replace (o - length (cv_h (cv m0))) with 0 by lia. reflexivity. }
    clearbody m1. clearbody o. cbv beta iota zeta.
    destruct (k_auto K); [|goU].
    destruct (mem_id mu (dead m1)) eqn:G1; [taint_rest G1|].
    destruct H1 as [H1|H1]; [congruence|]. cbn [RelO] in H1.
    destruct (rec_good mu rec Hrec KTrigger m1 G1 (Rel_CIv _ _ H1) I) as [Ht|[HR _]].
    - destruct (rec KTrigger m1) as [m2 t]. cbn [fst] in Ht. taint_rest Ht.
    - destruct (rec KTrigger m1) as [m2 t]. cbn [fst snd] in HR.
      assert (Hnm2 : exists w, cv_h (cv m2) !! o = Some w /\ v_ismap w = false).
      { destruct Hnm1 as (w & Hw & Ew). destruct (res_mono _ _ HR) as (_ & _ & Hk & _).
        destruct (Hk o w Hw) as (w' & Hw' & Ew'). exists w'. split; [exact Hw'|congruence]. }
      assert (Hr2 : tres mu (Some (cv m)) (m2, t)) by (eapply tres_of_res; [exact H1|exact HR]).
      destruct t; unfold tres in Hr2; cbn [fst snd] in Hr2; cbv beta iota zeta; try goU.
      goX ltac:(let Hm := fresh in intros _ _ Hm; exfalso; revert Hm; unfold is_mapv; cvs;
                let w := fresh in let Hw := fresh in let Ew := fresh in
                intros (w & Hw & Ew); destruct Hnm2 as (w2 & Hw2 & Ew2);
                unfold Machine.id in *; rewrite Hw2 in Hw; injection Hw as <-; congruence).
  Qed.

  (** *** Cleaner::register *)
  Lemma tok_cmd_register self nd script c : tok (cmd_register K P rec self nd script c).
  Proof. intros m H. unfold cmd_register. goU. Qed.

  Lemma U_cmd_register self nd script c m :
    gd m -> CIv (cv m) -> tres mu (Some (cv m)) (cmd_register K P rec self nd script c m).
  Proof.
    intros Hg HI. pose proof (TR_self mu m Hg HI) as H0. unfold cmd_register.
    destruct (negb (k_clean K)); [goU|].
    pose proof (cv_nresolve self nd m) as E0. pose proof (dd_nresolve self nd m) as D0.
    destruct (nresolve self nd m) as [m0 no]. cbn [fst snd] in *.
    assert (G0 : gd m0) by (rewrite D0; exact Hg).
    assert (Hr : Rel (cv m) (cv m0)) by (rewrite E0; apply Rel_refl, HI).
    pose proof (or_intror Hr : TR mu (Some (cv m)) m0) as Hr'.
    destruct no as [o|]; [|goU]. destruct (cslots m0 !! c) as [cs|]; [|goU].
    destruct (get m0 o) as [x|] eqn:Ex; [|goU].
    destruct (negb (c_cleaner (class_of P (o_cls x))) || o_ismap x); [goU|].
    (* everything after the map has been found or created *)
    assert (TAIL : forall M mo, Rel (cv m) (cv M) -> is_mapv M mo ->
                     (length (cv_h (cv m)) <= mo \/ ~ unlinked (cv_h (cv M)) mo) ->
                     tres mu (Some (cv m))
                       match get M mo with
                       | Some mx =>
                         if o_mborrowed mx then (M, raise M)
                         else
                           let aid := next_aid M in
                           let m := M <| next_aid := S aid |> in
                           let '(m, slot) := map_insert mo aid script m in
                           let m := init_side mo m in
                           match (side_wk m mo ≫= inc_wk) with
                           | None => (m, raise m)
                           | Some k =>
                             let m := remove_from_list mo (uside mo (fun _ => k) m) in
                             let old := mjoin (cslots m !! c) in
                             let m := m <| cslots ::= <[c := Some (Cref mo slot aid)]> |> in
                             let m := match old with Some cr => weak_drop (WTo (cr_map cr)) m | None => m end in
                             ok m ROk
                           end
                       | None => (emit_bad BadState mo M, ONormal)
                       end).
    { intros M mo HRM Hmap Hlk. pose proof (or_intror HRM : TR mu (Some (cv m)) M) as HRM'.
      destruct (get M mo) as [mx|] eqn:Emx; [|goU].
      destruct (o_mborrowed mx); [goU|]. cbv zeta.
      assert (Hins : TR mu (Some (cv m)) (map_insert mo (next_aid M) script (M <| next_aid := S (next_aid M) |>)).1).
      { right. cbn [RelO]. eapply rel_map_insert; [exact HRM|exact Emx|exact (is_mapv_get _ _ _ Hmap Emx)|exact Hlk]. }
      destruct (map_insert mo (next_aid M) script (M <| next_aid := S (next_aid M) |>)) as [m4 slot].
      cbn [fst] in Hins. goU. }
    destruct (o_cleaner x) as [mo|] eqn:Ecl.
    - (* the owner already has a map *)
      assert (Hmap : is_mapv m0 mo).
      { destruct (ci_obj _ (Rel_CIv _ _ Hr) o _ (cv_h_lookup _ _ _ Ex)) as [_ Hc]. apply Hc. exact Ecl. }
      assert (Hlinked : linked m0 mo).
      { exists o. rewrite (cleaner_at_Some _ _ _ (cv_h_lookup _ _ _ Ex)). exact Ecl. }
      cbv beta iota zeta. apply TAIL; [exact Hr|exact Hmap|right; exact (linked_not_unlinked _ _ Hlinked)].
    - (* a new map *)
      cbv beta iota zeta.
      pose proof (cv_new_map m0) as En. pose proof (dd_new_map m0) as Dn.
      assert (Hlen : length (cv_h (cv m0)) = length (heap m0))
        by (unfold cv; cbn [cv_h]; apply fmap_length).
      unfold new_map in *. cbn [fst] in En, Dn.
      set (mo := length (heap m0)) in *.
      set (m1 := m0 <| heap ::= fun h => h ++ _ |>) in *.
      assert (H01 : Rel (cv m0) (cv m1)) by (rewrite En; apply Rel_new'; eapply Rel_CIv, Hr).
      assert (H1 : Rel (cv m) (cv m1)) by (eapply Rel_trans; eassumption).
      assert (G1 : gd m1) by (rewrite Dn; exact G0).
      assert (Hmap1 : is_mapv m1 mo).
      { exists (VObj true [] [] None). rewrite En. cbn [cv_h]. split; [|reflexivity].
        rewrite lookup_app_r by lia. replace (mo - length (cv_h (cv m0))) with 0 by lia. reflexivity. }
      assert (Hun1 : unlinked (cv_h (cv m1)) mo).
      { intros y Hy. rewrite En in Hy. cbn [cv_h] in Hy. rewrite cleaner_at_snoc in Hy by reflexivity.
        pose proof (cleaner_at_lt _ _ _ (Rel_CIv _ _ Hr) Hy) as Hlt. rewrite Hlen in Hlt.
        exact (Nat.lt_irrefl _ Hlt). }
      assert (Hlen1 : length (cv_h (cv m1)) = S mo)
        by (rewrite En; cbn [cv_h]; rewrite app_length, Hlen; cbn [length]; lia).
      assert (Ho1 : is_Some (cv_h (cv m1) !! o)).
      { destruct (Rel_mono _ _ H01) as (_ & _ & Hk & _).
        destruct (Hk o _ (cv_h_lookup _ _ _ Ex)) as (w' & Hw' & _). eauto. }
      assert (Hge : length (cv_h (cv m)) <= mo).
      { destruct (Rel_mono _ _ Hr) as (_ & _ & _ & Hl & _). lia. }
      clearbody m1. clearbody mo.
      assert (HT : exists m2 t, (if k_auto K then rec KTrigger m1 else (m1, ONormal)) = (m2, t) /\
                                (tn m2 \/
                                 (gd m2 /\ res (cv m) (m2, t) /\ is_mapv m2 mo /\ unlinked (cv_h (cv m2)) mo /\
                                  is_Some (cv_h (cv m2) !! o) /\ mono (cv m0) (cv m2)))).
      { destruct (k_auto K).
        - destruct (rec_good mu rec Hrec KTrigger m1 G1 (Rel_CIv _ _ H1) I) as [Ht|[HR _]].
          + destruct (rec KTrigger m1) as [m2 t]. exists m2, t. split; [reflexivity|]. left. exact Ht.
          + destruct (rec KTrigger m1) as [m2 t]. cbn [fst snd] in HR. exists m2, t.
            split; [reflexivity|]. destruct (mem_id mu (dead m2)) eqn:G2; [left; reflexivity|]. right.
            split; [reflexivity|]. split; [eapply res_trans; eassumption|].
            pose proof (res_mono _ _ HR) as Hmono. cbn [fst] in Hmono.
            split; [eapply is_mapv_mono; [exact Hmono|exact Hmap1]|].
            assert (Hm02 : mono (cv m0) (cv m2))
              by (eapply mono_trans; [exact (Rel_mono _ _ H01)|exact Hmono]).
            destruct Hmono as (_ & _ & Hk & _ & HKC & _). split; [|split; [|exact Hm02]].
            * intros y Hy. destruct (HKC y mo Hy) as [Hy1|Hge1]; [exact (Hun1 y Hy1)|lia].
            * destruct Ho1 as [w Hw]. destruct (Hk o w Hw) as (w' & Hw' & _). eauto.
        - exists m1, ONormal. split; [reflexivity|]. right. split; [exact G1|].
          split; [apply res_intro, H1|].
          split; [exact Hmap1|]. split; [exact Hun1|]. split; [exact Ho1|exact (Rel_mono _ _ H01)]. }
      destruct HT as (m2 & t & -> & [Ht|(G2 & H2 & Hmap2 & Hun2 & Ho2 & Hm02)]); [taint_rest Ht|].
      pose proof (tres_of_res mu (Some (cv m)) m (m2, t) (Rel_refl _ HI) H2) as H2'.
      destruct t; unfold res in H2; unfold tres in H2'; cbn [fst snd] in H2, H2'; cbv beta iota zeta.
      + (* the Option is checked again *)
        match goal with |- context [get ?M o ≫= o_cleaner] => set (m2' := M) end.
        assert (E2' : cv m2' = cv m2) by (unfold m2'; cvs; reflexivity).
        assert (G2' : gd m2') by (unfold m2'; cvs; exact G2).
        assert (H2x : Rel (cv m) (cv m2')) by (rewrite E2'; exact H2).
        destruct (get m2' o ≫= o_cleaner) as [ex|] eqn:Eex.
        * (* a nested register gave the owner a map meanwhile: the spare one is dropped *)
          destruct (get m2' o) as [xo|] eqn:Exo; [cbn in Eex|discriminate].
          assert (Hcl : cleaner_at (cv_h (cv m2')) o = Some ex)
            by (rewrite (cleaner_at_Some _ _ _ (cv_h_lookup _ _ _ Exo)); exact Eex).
          assert (Hmapx : is_mapv m2' ex).
          { destruct (ci_obj _ (Rel_CIv _ _ H2x) o _ (cv_h_lookup _ _ _ Exo)) as [_ Hc]. apply Hc, Eex. }
          assert (Hgex : length (cv_h (cv m)) <= ex).
          { destruct Hm02 as (_ & _ & _ & _ & HKC & _). rewrite E2' in Hcl.
            destruct (HKC o ex Hcl) as [H0'|Hge0]; [|lia].
            rewrite (cleaner_at_Some _ _ _ (cv_h_lookup _ _ _ Ex)) in H0'. cbn in H0'. congruence. }
          clearbody m2'.
          destruct (rec_good mu rec Hrec (KDropCc mo) m2' G2' (Rel_CIv _ _ H2x) I) as [Ht|[HR3 _]].
          -- destruct (rec (KDropCc mo) m2') as [m3 r3]. cbn [fst] in Ht. taint_rest Ht.
          -- destruct (rec (KDropCc mo) m2') as [m3 r3]. cbn [fst snd] in HR3. cbv beta iota zeta.
             destruct (mem_id mu (dead m3)) eqn:G3; [taint_rest G3|].
             assert (Hmap3 : is_mapv m3 ex) by (eapply is_mapv_mono; [exact (res_mono _ _ HR3)|exact Hmapx]).
             pose proof (res_trans _ _ _ H2x HR3) as H3.
             pose proof (tres_of_res mu (Some (cv m)) m (m3, r3) (Rel_refl _ HI) H3) as H3'.
             destruct r3; unfold res in H3; unfold tres in H3'; cbn [fst snd] in H3, H3'; [|goU..].
             apply TAIL; [exact H3|exact Hmap3|left; exact Hgex].
        * (* link the map to its owner *)
          cbv beta iota zeta.
          match goal with |- tres _ _ (match get ?M _ with _ => _ end) => set (m3 := M) end.
          assert (E3 : cv m3 = CV (alter (set_cl (Some mo)) o (cv_h (cv m2))) (cv_n (cv m2)) (cv_x (cv m2))).
          { unfold m3. rewrite (cv_upd_alter _ (set_cl (Some mo))) by reflexivity. rewrite E2'. reflexivity. }
          assert (H3 : Rel (cv m) (cv m3)) by (rewrite E3; apply Rel_link'; assumption).
          assert (Hmap3 : is_mapv m3 mo).
          { destruct Hmap2 as (w & Hw & Ew). unfold is_mapv. rewrite E3. cbn [cv_h].
            destruct (ismap_alter (set_cl (Some mo)) o _ mo w (fun _ _ => eq_refl) Hw) as (w3 & H3' & E3').
            exists w3. split; [exact H3'|congruence]. }
          assert (Hlinked3 : linked m3 mo).
          { exists o. rewrite E3. cbn [cv_h]. destruct Ho2 as [w Hw].
            unfold cleaner_at. rewrite list_lookup_alter. unfold Machine.id in *. rewrite Hw.
            reflexivity. }
          clearbody m3. clearbody m2'.
          apply TAIL; [exact H3|exact Hmap3|right; exact (linked_not_unlinked _ _ Hlinked3)].
      + (* the trigger panicked: the new map (a by-value argument) is dropped while unwinding *)
        pose proof (unwinding_not_normal (rec (KDropValue mo)) m2) as Hnn.
        assert (HU : tres mu (Some (cv m)) (unwinding (rec (KDropValue mo)) m2))
          by (finX ltac:(intros _ _ _; unfold unl; cvs; exact Hun2)).
        destruct (unwinding (rec (KDropValue mo)) m2) as [m3 r3]. cbn [snd] in Hnn.
        destruct r3; [contradiction|..]; unfold tres in HU; cbn [fst snd] in HU; goU.
      + goU.
      + goU.
  Qed.

  (** *** Cleanable::clean *)
  Lemma tok_cmd_clean self c : tok (cmd_clean K rec self c).
  Proof. intros m H. unfold cmd_clean. goU. Qed.

  Lemma U_cmd_clean self c m :
    gd m -> CIv (cv m) -> tres mu (Some (cv m)) (cmd_clean K rec self c m).
  Proof.
    intros Hg HI. pose proof (TR_self mu m Hg HI) as H0. unfold cmd_clean.
    destruct (negb (k_clean K)); [goU|].
    destruct (mjoin (cslots m !! c)) as [cr|]; [|goU].
    cbv zeta.
    pose proof (cv_weak_strong_count (WTo (cr_map cr)) m) as E0.
    pose proof (dd_weak_strong_count (WTo (cr_map cr)) m) as D0.
    destruct (weak_strong_count (WTo (cr_map cr)) m) as [m0 y]. cbn [fst] in E0, D0.
    assert (Hr : TR mu (Some (cv m)) m0) by (rewrite E0, D0; exact H0).
    destruct (y =? 0)%N; [goU|].
    destruct (inc_rc (hdr_of m0 (cr_map cr))) as [h|]; [|goU].
    set (m1 := remove_from_list (cr_map cr) (uhdr (cr_map cr) (fun _ => h) m0)).
    assert (E1 : cv m1 = cv m) by (unfold m1; cvs; exact E0).
    assert (G1 : gd m1) by (unfold m1; cvs; rewrite D0; exact Hg).
    assert (H1 : Rel (cv m) (cv m1)) by (rewrite E1; apply Rel_refl, HI).
    pose proof (or_intror H1 : TR mu (Some (cv m)) m1) as H1'.
    clearbody m1.
    destruct (get m1 (cr_map cr)) as [mx|] eqn:Emx; [|goU].
    destruct (o_mborrowed mx); [goU|].
    set (m2 := upd (cr_map cr) (fun x => x <| o_mborrowed := true |>) m1).
    assert (E2 : cv m2 = cv m1) by (unfold m2; cvs; reflexivity).
    assert (G2 : gd m2) by exact G1.
    assert (H2 : TR mu (Some (cv m)) m2) by (right; cbn [RelO]; rewrite E2; exact H1).
    destruct (o_mslots mx !! cr_slot cr) as [[|aid script]|] eqn:Esl; [clearbody m2; goU| |clearbody m2; goU].
    destruct (decide (aid = cr_aid cr)) as [Ea|Ea]; [|clearbody m2; goU].
    set (m3 := upd (cr_map cr) (fun x => x <| o_mslots ::= <[cr_slot cr := MVacant]> |>
                                           <| o_mfree ::= cons (cr_slot cr) |>) m2).
    assert (E3 : cv m3 = CV (alter (vacate_free (cr_slot cr)) (cr_map cr) (cv_h (cv m1)))
                            (cv_n (cv m1)) (cv_x (cv m1))).
    { unfold m3. rewrite (cv_upd_alter _ (vacate_free (cr_slot cr))) by reflexivity.
      rewrite E2. reflexivity. }
    assert (HV : vacated (cr_map cr) (cr_slot cr) (view_obj mx) (cv m1) (cv m3)).
    { rewrite E3.
      exact (vacate_all (vacate_free (cr_slot cr)) (cv m1) (cr_map cr) (cr_slot cr) (view_obj mx)
               (Rel_CIv _ _ H1) (cv_h_lookup _ _ _ Emx) eq_refl eq_refl eq_refl
               (or_intror (conj eq_refl (ex_intro _ aid (ex_intro _ script Esl))))). }
    destruct HV as (HW & HK & En1 & Hn & Hpre).
    assert (G3 : gd m3) by exact G1.
    clearbody m3. clearbody m2.
    assert (Hsl0 : slotv (cv_h (cv m1)) (cr_map cr) (cr_slot cr) = Some (MAction aid script))
      by (rewrite (slotv_eq _ _ _ _ (cv_h_lookup _ _ _ Emx)); exact Esl).
    destruct (rec_good mu rec Hrec (KCleanRun (cr_map cr) aid script) m3 G3 (RelW_CIv _ _ HW)
                (Hpre aid script Esl)) as [Ht|[HR Hx]].
    - destruct (rec (KCleanRun (cr_map cr) aid script) m3) as [m4 r4]. cbn [fst] in Ht.
      destruct r4; taint_rest Ht.
    - assert (Hr4 : tres mu (Some (cv m)) (rec (KCleanRun (cr_map cr) aid script) m3)).
      { destruct (rec (KCleanRun (cr_map cr) aid script) m3) as [m4 r4]. cbn [fst snd] in *.
        eapply tres_of_res; [exact H1|].
        destruct r4; unfold res in *; cbn [fst snd] in *;
          first [ (eapply Rel_vacate_run; [exact HW|exact HK|exact En1|exact Hsl0|exact HR|apply Hx; discriminate])
                | (eapply RelW_trans; [exact HW|exact HR]) ]. }
      clear HR Hx.
      destruct (rec (KCleanRun (cr_map cr) aid script) m3) as [m4 r4].
      destruct r4; unfold tres in Hr4; cbn [fst snd] in Hr4; goU.
  Qed.

  (** *** the dispatchers *)
  Lemma U_step_cmd self cm m :
    Pre2 mu (KCmd self cm) m -> chkU K P (KCmd self cm) m = true ->
    Post2 mu (KCmd self cm) m (step_cmd K P rec self cm m).1 (step_cmd K P rec self cm m).2.
  Proof.
    intros HP Hchk.
    assert (Hgen : forall X, gen_okU mu X -> Post2 mu (KCmd self cm) m (X m).1 (X m).2)
      by (intros X HX; apply (gen_post2 mu X (KCmd self cm) m HX); [intros; exact I|exact HP]).
    assert (Hman : forall X, tok X -> (gd m -> CIv (cv m) -> tres mu (Some (cv m)) (X m)) ->
                             Post2 mu (KCmd self cm) m (X m).1 (X m).2).
    { intros X HT HX. destruct (mem_id mu (dead m)) eqn:Hg; [apply taint_post; assumption|].
      destruct HP as [HP|[HI _]]; [congruence|].
      apply post_of_tres; [exact Hg|apply HX; [reflexivity|exact HI]|intros _; exact I]. }
    destruct cm; cbn [step_cmd].
    - apply Hman; [apply tok_cmd_new|apply U_cmd_new].
    - apply Hgen, u_cmd_clone, Hrec.
    - apply Hgen, u_cmd_drop, Hrec.
    - apply Hgen, u_cmd_move, Hrec.
    - apply Hgen, u_cmd_mark_alive.
    - apply Hgen, u_cmd_collect, Hrec.
    - apply Hgen, u_cmd_downgrade.
    - apply Hgen, u_cmd_upgrade, Hrec.
    - apply Hgen, u_cmd_w_new.
    - apply Hgen, u_cmd_w_clone.
    - apply Hgen, u_cmd_w_drop.
    - apply Hgen, u_cmd_try_unwrap.
    - apply Hman; [apply tok_cmd_drop_value, Hrec|intros Hg HI; apply (U_cmd_drop_value mu K P rec Hrec); assumption].
    - apply Hgen, u_cmd_fin_again.
    - apply Hgen, u_cmd_new_cyclic, Hrec.
    - apply Hman; [apply tok_cmd_register|apply U_cmd_register].
    - apply Hman; [apply tok_cmd_clean|apply U_cmd_clean].
    - apply Hgen, u_cmd_c_drop.
    - apply Hgen, u_cmd_bag.
    - apply Hgen, u_cmd_unbag, Hrec.
    - apply Hgen, u_cmd_borrow.
    - apply Hgen, u_cmd_unborrow.
    - apply Hgen, u_cmd_cfg_auto.
    - apply Hgen, u_cmd_cfg_percent.
    - apply Hgen, u_cmd_cfg_buffered.
    - apply Hgen, u_cmd_arm.
    - apply Hgen, u_cmd_panic.
    - apply Hgen, u_cmd_obs.
    - apply Hgen, u_cmd_w_obs.
    - apply Hgen, u_cmd_s_obs.
  Qed.

  (** the step case of [Life.mrun_ind] *)
  Theorem U_step c m :
    Pre2 mu c m -> chkU K P c m = true -> Post2 mu c m (step K P rec c m).1 (step K P rec c m).2.
  Proof.
    intros HP Hchk.
    assert (Hgen : forall X, gen_okU mu X -> (forall m' r, xPost c m m' r) -> Post2 mu c m (X m).1 (X m).2)
      by (intros X HX Hxp; apply (gen_post2 mu X c m HX Hxp HP)).
    destruct c; cbn [step].
    - apply U_step_cmd; assumption.
    - apply Hgen; [apply u_step_script, Hrec|intros; exact I].
    - apply Hgen; [apply u_step_store, Hrec|intros; exact I].
    - apply (U_step_drop_cc mu K P rec Hrec); assumption.
    - apply (U_step_drop_value mu K P rec Hrec); assumption.
    - apply Hgen; [apply u_step_drop_fields, Hrec|intros; exact I].
    - apply (U_step_drop_map_slots mu rec Hrec); assumption.
    - apply Hgen; [apply u_step_trigger, Hrec|intros; exact I].
    - apply Hgen; [apply u_step_collect_cycles, Hrec|intros; exact I].
    - apply Hgen; [apply u_step_collect, Hrec|intros; exact I].
    - apply Hgen; [apply u_step_collect_loop, Hrec|intros; exact I].
    - apply (U_step_collect_once mu K P rec Hrec); assumption.
    - apply (U_step_finalize_list mu K P rec Hrec); assumption.
    - apply (U_step_drop_list mu K rec Hrec); assumption.
    - apply Hgen; [apply u_step_unbag, Hrec|intros; exact I].
    - apply (U_step_clean_run mu K P rec Hrec); assumption.
  Qed.
End StepsU3.
