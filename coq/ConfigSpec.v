(** * ConfigSpec: the trigger policy generated from src/config.rs.

    [should_collect_spec] : the closed formula of [Config::should_collect].
    [adjust_spec]         : property C15 of [Config::adjust], for EVERY interpretation of the float
                            operations ([F], [of_usize], [fmul], [fle], [feq0] are universally
                            quantified once the section is closed) -- nothing is assumed about
                            floating point arithmetic, not even that [fle] is reflexive.

    [T0] is the generated constant [DEFAULT_BYTES_THRESHOLD], used symbolically; the only fact used
    about it is [T0pos : 0 < T0] (checked on the generated value by computation).

    About the shape of [adjust_spec].  The Rust code evaluates the early-return test
    [(bytes_threshold as f64) * adjustment_percent == 0.0] ONCE, before the halving loop and with the
    ORIGINAL threshold, while the loop condition re-evaluates the product with the CURRENT threshold.
    The intended statement guards its last clause by [feq0 (fmul (of_usize thr') p) = false] where
    [thr'] is the FINAL threshold.  That statement is TRUE for the real code and is proved below
    verbatim: in the only execution where nothing can be said about the product (the early return),
    the threshold is unchanged, so final and original products coincide and the guard is false; in
    every other execution the disjunction holds unconditionally.  [adjust_spec_strong] records this
    stronger fact (guard on the ORIGINAL threshold, plus "unchanged on early return"), so no clause
    of the intended statement had to be weakened and there is no counterexample to exhibit.
    [adjust_example_*] evaluate the generated code on a concrete exact-arithmetic interpretation. *)
From Coq Require Import NArith Bool Lia.
From RC Require Import Word.
From RC.gen Require ConfigGen.
Module C := ConfigGen.
Local Open Scope N_scope.

(** ** should_collect *)
Theorem should_collect_spec auto thr bt alloc buf :
  C.should_collect auto thr bt alloc buf =
  auto && ((thr <? alloc) || match bt with Some b => b <? buf | None => false end).
Proof.
  unfold C.should_collect. destruct auto; cbn [negb andb]; [|reflexivity].
  destruct (thr <? alloc); reflexivity.
Qed.

Theorem should_collect_no_auto thr bt alloc buf : C.should_collect false thr bt alloc buf = false.
Proof. reflexivity. Qed.

Theorem should_collect_asserts auto thr bt alloc buf :
  C.should_collect_asserts auto thr bt alloc buf = true /\
  C.should_collect_noovf auto thr bt alloc buf = true.
Proof. split; reflexivity. Qed.

(** ** Config::new *)
Theorem config_new_spec :
  C.Config_new_bytes_threshold = C.DEFAULT_BYTES_THRESHOLD /\
  C.Config_new_buffered_threshold = None /\ C.Config_new_auto_collect = true /\
  C.Config_new_adjustment_percent_dec = (1, 1).   (* 1 / 10^1 = 0.1 *)
Proof. repeat split; reflexivity. Qed.

(** ** adjust *)
Local Notation T0 := C.DEFAULT_BYTES_THRESHOLD.

Lemma T0pos : 0 < T0.
Proof. vm_compute. reflexivity. Qed.

Lemma T0val : T0 = 100.
Proof. reflexivity. Qed.

Lemma pow62 : 2 ^ 62 = 4611686018427387904. Proof. reflexivity. Qed.
Lemma pow63 : 2 ^ 63 = 9223372036854775808. Proof. reflexivity. Qed.

Lemma pow2_ge1 n : 1 <= 2 ^ n.
Proof. pose proof (pow2_pos n). lia. Qed.

Lemma pow2_S (n : nat) : 2 ^ N.of_nat (S n) = 2 * 2 ^ N.of_nat n.
Proof. rewrite Nat2N.inj_succ. apply N.pow_succ_r'. Qed.

(* from here on the constant is used symbolically *)
Local Opaque C.DEFAULT_BYTES_THRESHOLD.

(** *** First loop: doubling *)
Lemma loop1_spec : forall fuel cur alloc,
  0 < cur -> cur <= alloc -> alloc < 2 ^ 62 -> alloc < cur * 2 ^ N.of_nat fuel ->
  exists j, C.adjust_loop1 fuel alloc cur = Some (cur * 2 ^ j) /\
            alloc < cur * 2 ^ j /\ cur * 2 ^ j / 2 <= alloc.
Proof.
  induction fuel as [|fuel IH]; intros cur alloc Hpos Hle Hb Hfuel.
  - cbn in Hfuel. lia.
  - cbn [C.adjust_loop1]. pose proof Hb as Hb'. rewrite pow62 in Hb'.
    rewrite Usz_checked_shl1_small by (rewrite pow63; lia).
    destruct (alloc <? cur * 2) eqn:E.
    + apply N.ltb_lt in E. exists 1. rewrite N.pow_1_r. repeat split; [exact E|].
      rewrite N.div_mul by discriminate. exact Hle.
    + apply N.ltb_ge in E. rewrite pow2_S in Hfuel.
      destruct (IH (cur * 2) alloc) as (j & Hj & H1 & H2); try assumption; try lia.
      exists (N.succ j). rewrite N.pow_succ_r'.
      replace (cur * (2 * 2 ^ j)) with (cur * 2 * 2 ^ j) by lia.
      auto.
Qed.

(** *** Second loop: halving, stops at the default *)
Section Adjust.
  Variables (F : Type) (of_usize : N -> F) (fmul : F -> F -> F) (fle : F -> F -> bool)
            (feq0 : F -> bool).
  Notation adjust := (C.adjust F of_usize fmul fle feq0).
  Notation loop2 := (C.adjust_loop2 F of_usize fmul fle).

  (** the clause about the final threshold that holds whenever the halving loop ran *)
  Definition settled (p : F) (alloc thr' : N) : Prop :=
    fle (of_usize alloc) (fmul (of_usize thr') p) = false \/ thr' / 2 <= alloc \/ thr' = T0.

  Lemma loop2_spec : forall fuel j p alloc,
    alloc < T0 * 2 ^ j -> T0 * 2 ^ j < 2 ^ N.of_nat fuel ->
    exists thr', loop2 fuel p alloc (T0 * 2 ^ j) = Some thr' /\
      (exists k', thr' = T0 * 2 ^ k') /\ T0 <= thr' /\ alloc < thr' /\ settled p alloc thr'.
  Proof.
    pose proof T0pos as HT.
    induction fuel as [|fuel IH]; intros j p alloc Hlt Hfuel.
    - cbn in Hfuel. pose proof (pow2_ge1 j). nia.
    - cbn [C.adjust_loop2]. rewrite Usz_shr_1.
      set (cur := T0 * 2 ^ j) in *.
      assert (Hcur : T0 <= cur) by (subst cur; pose proof (pow2_ge1 j); nia).
      destruct (fle (of_usize alloc) (fmul (of_usize cur) p)) eqn:Efle.
      2:{ exists cur. repeat split; auto. exists j; reflexivity. left; exact Efle. }
      destruct (cur / 2 <=? alloc) eqn:E1.
      { apply N.leb_le in E1. exists cur. repeat split; auto. exists j; reflexivity.
        right; left; exact E1. }
      apply N.leb_gt in E1.
      destruct (cur / 2 <=? T0) eqn:E2.
      { apply N.leb_le in E2. exists T0. repeat split; try lia.
        - exists 0. rewrite N.pow_0_r. lia.
        - right; right; reflexivity. }
      apply N.leb_gt in E2.
      (* cur / 2 > T0, hence j > 0 and cur / 2 = T0 * 2^(j-1) *)
      destruct (N.eq_dec j 0) as [->|Hj].
      { exfalso. subst cur. rewrite N.pow_0_r, N.mul_1_r in E2.
        assert (T0 / 2 <= T0) by (apply N.div_le_upper_bound; [discriminate | lia]). lia. }
      assert (Ehalf : cur / 2 = T0 * 2 ^ N.pred j).
      { subst cur. rewrite <- (N.succ_pred j Hj) at 1. rewrite N.pow_succ_r'.
        replace (T0 * (2 * 2 ^ N.pred j)) with (T0 * 2 ^ N.pred j * 2) by lia.
        apply N.div_mul; discriminate. }
      rewrite Ehalf in *.
      apply IH; [exact E1|].
      rewrite pow2_S in Hfuel.
      assert (cur = T0 * 2 ^ N.pred j * 2).
      { subst cur. rewrite <- (N.succ_pred j Hj) at 1. rewrite N.pow_succ_r'. lia. }
      lia.
  Qed.

  Lemma fuel200 n : n < 2 ^ 62 -> n < 2 ^ N.of_nat 200.
  Proof.
    intros H. apply N.lt_le_trans with (1 := H).
    apply N.pow_le_mono_r; [discriminate|]. vm_compute; discriminate.
  Qed.

  (** *** C15, stronger form: guard on the ORIGINAL threshold. *)
  Theorem adjust_spec_strong thr alloc p k :
    thr = T0 * 2 ^ k -> alloc < 2 ^ 62 -> thr < 2 ^ 62 ->
    exists thr', adjust 200 thr p alloc = Some thr' /\
      (exists k', thr' = T0 * 2 ^ k') /\ T0 <= thr' /\ alloc < thr' /\
      (thr <= alloc \/ feq0 (fmul (of_usize thr) p) = false -> settled p alloc thr') /\
      (alloc < thr -> feq0 (fmul (of_usize thr) p) = true -> thr' = thr) /\
      (thr <= alloc -> thr < thr' /\ thr' / 2 <= alloc).
  Proof.
    intros Hk Ha Ht. pose proof T0pos as HT. pose proof (pow2_ge1 k) as Hp.
    assert (HT0 : T0 <= thr) by (subst thr; nia).
    unfold C.adjust. destruct (thr <=? alloc) eqn:E.
    - apply N.leb_le in E.
      assert (Hfuel : alloc < thr * 2 ^ N.of_nat 200).
      { apply N.lt_le_trans with (1 := fuel200 _ Ha).
        rewrite <- (N.mul_1_l (2 ^ N.of_nat 200)) at 1.
        apply N.mul_le_mono_r. lia. }
      destruct (loop1_spec 200 thr alloc) as (j & Hj & H1 & H2); try assumption; try lia.
      rewrite Hj. exists (thr * 2 ^ j).
      assert (Hge : thr <= thr * 2 ^ j) by (pose proof (pow2_ge1 j); nia).
      split; [reflexivity|]. split; [|split; [lia|split; [exact H1|split; [|split]]]].
      + exists (k + j). subst thr. rewrite N.pow_add_r. lia.
      + intros _. right; left; exact H2.
      + intros; lia.
      + intros _. split; [lia | exact H2].
    - apply N.leb_gt in E.
      destruct (feq0 (fmul (of_usize thr) p)) eqn:Ez.
      + exists thr.
        split; [reflexivity|]. split; [|split; [lia|split; [exact E|split; [|split]]]].
        * exists k; exact Hk.
        * intros [H|H]; [lia | discriminate].
        * reflexivity.
        * intros; lia.
      + subst thr.
        destruct (loop2_spec 200 k p alloc E (fuel200 _ Ht)) as (thr' & H1 & H2 & H3 & H4 & H5).
        rewrite H1. exists thr'.
        split; [reflexivity|]. split; [exact H2|split; [exact H3|split; [exact H4|split; [|split]]]].
        * intros _; exact H5.
        * intros _ H; discriminate.
        * intros; lia.
  Qed.

  (** *** C15 as stated: guard on the FINAL threshold. *)
  Theorem adjust_spec thr alloc p k :
    thr = T0 * 2 ^ k -> alloc < 2 ^ 62 -> thr < 2 ^ 62 ->
    exists thr', adjust 200 thr p alloc = Some thr' /\
      (exists k', thr' = T0 * 2 ^ k') /\ T0 <= thr' /\ alloc < thr' /\
      (feq0 (fmul (of_usize thr') p) = false ->
       fle (of_usize alloc) (fmul (of_usize thr') p) = false \/ thr' / 2 <= alloc \/ thr' = T0).
  Proof.
    intros Hk Ha Ht.
    destruct (adjust_spec_strong thr alloc p k Hk Ha Ht) as (thr' & H1 & H2 & H3 & H4 & H5 & H6 & _).
    exists thr'. split; [exact H1|]. split; [exact H2|]. split; [exact H3|]. split; [exact H4|].
    intros Hz. change (settled p alloc thr').
    destruct (N.le_gt_cases thr alloc) as [Hle|Hgt]; [apply H5; left; exact Hle|].
    destruct (feq0 (fmul (of_usize thr) p)) eqn:Ez.
    - rewrite (H6 Hgt eq_refl) in Hz. rewrite Hz in Ez; discriminate.
    - apply H5; right; reflexivity.
  Qed.

  (** *** Fuel: 200 is enough (above), and more fuel never changes a result. *)
  Lemma loop1_mono : forall fuel fuel' alloc cur r, (fuel <= fuel')%nat ->
    C.adjust_loop1 fuel alloc cur = Some r -> C.adjust_loop1 fuel' alloc cur = Some r.
  Proof.
    induction fuel as [|fuel IH]; intros fuel' alloc cur r Hle H; [discriminate|].
    destruct fuel' as [|fuel']; [lia|]. cbn [C.adjust_loop1] in *.
    destruct (Usz.checked_shl1 cur) as [x|]; [|exact H].
    destruct (alloc <? x); [exact H|]. apply IH with (2 := H). lia.
  Qed.

  Lemma loop2_mono : forall fuel fuel' p alloc cur r, (fuel <= fuel')%nat ->
    loop2 fuel p alloc cur = Some r -> loop2 fuel' p alloc cur = Some r.
  Proof.
    induction fuel as [|fuel IH]; intros fuel' p alloc cur r Hle H; [discriminate|].
    destruct fuel' as [|fuel']; [lia|]. cbn [C.adjust_loop2] in *.
    destruct (fle _ _); [|exact H].
    destruct (_ <=? alloc); [exact H|].
    destruct (_ <=? T0); [exact H|]. apply IH with (2 := H). lia.
  Qed.

  Theorem adjust_fuel_mono fuel fuel' thr p alloc r : (fuel <= fuel')%nat ->
    adjust fuel thr p alloc = Some r -> adjust fuel' thr p alloc = Some r.
  Proof.
    intros Hle. unfold C.adjust.
    destruct (thr <=? alloc).
    - destruct (C.adjust_loop1 fuel alloc thr) as [x|] eqn:E; [|discriminate].
      rewrite (loop1_mono _ _ _ _ _ Hle E). auto.
    - destruct (feq0 _); [auto|].
      destruct (loop2 fuel p alloc thr) as [x|] eqn:E; [|discriminate].
      rewrite (loop2_mono _ _ _ _ _ _ Hle E). auto.
  Qed.

  Corollary adjust_fuel_enough thr alloc p k fuel :
    thr = T0 * 2 ^ k -> alloc < 2 ^ 62 -> thr < 2 ^ 62 -> (200 <= fuel)%nat ->
    adjust fuel thr p alloc = adjust 200 thr p alloc /\ adjust 200 thr p alloc <> None.
  Proof.
    intros Hk Ha Ht Hf.
    destruct (adjust_spec thr alloc p k Hk Ha Ht) as (thr' & H & _).
    rewrite H. split; [|discriminate]. apply adjust_fuel_mono with (2 := H). exact Hf.
  Qed.

  (** *** Small facts *)
  Theorem adjust_zero_percent thr p alloc fuel :
    alloc < thr -> feq0 (fmul (of_usize thr) p) = true -> adjust fuel thr p alloc = Some thr.
  Proof.
    intros H Hz. unfold C.adjust. replace (thr <=? alloc) with false by (symmetry; apply N.leb_gt, H).
    rewrite Hz. reflexivity.
  Qed.

  Theorem adjust_asserts thr p alloc :
    C.adjust_asserts F thr p alloc = true /\ C.adjust_noovf F thr p alloc = true.
  Proof. split; reflexivity. Qed.

  (** The threshold never drops below the default and always ends strictly above the allocated
      bytes, so the invariant of the Config struct comment ([allocated_bytes < bytes_threshold])
      is re-established by every [adjust]. *)
  Corollary adjust_invariant thr alloc p k :
    thr = T0 * 2 ^ k -> alloc < 2 ^ 62 -> thr < 2 ^ 62 ->
    exists thr', adjust 200 thr p alloc = Some thr' /\ T0 <= thr' /\ alloc < thr' /\
                 C.should_collect true thr' None alloc 0 = false.
  Proof.
    intros Hk Ha Ht.
    destruct (adjust_spec thr alloc p k Hk Ha Ht) as (thr' & H1 & _ & H3 & H4 & _).
    exists thr'. repeat split; auto. rewrite should_collect_spec.
    replace (thr' <? alloc) with false by (symmetry; apply N.ltb_ge; lia). reflexivity.
  Qed.
End Adjust.

(** ** A concrete exact interpretation (used by tools/leafcheck.py as well)

    Floats are modelled by rationals [n / 1024]: [of_usize n = n * 1024], a percent [j / 1024] is
    represented by [j * 1024 / 1024 ... ] -- to keep everything integral we represent a value [x]
    by the numerator of [x * 2^20]: [of_usize n = n * 2^20], percent [j/1024 = j * 2^10], and
    [fmul a b = a * b / 2^20] is exact whenever one factor is an integer (a multiple of 2^20). *)
Definition Fq := N.
Definition q_of_usize (n : N) : Fq := n * 2 ^ 20.
Definition q_mul (a b : Fq) : Fq := a * b / 2 ^ 20.
Definition q_le (a b : Fq) : bool := a <=? b.
Definition q_eq0 (a : Fq) : bool := a =? 0.
Definition q_adjust := C.adjust Fq q_of_usize q_mul q_le q_eq0.
Definition q_percent (j : N) : Fq := j * 2 ^ 10.   (* j / 1024 *)

(* default percent 0.1 ~ 102/1024: 1000 allocated against threshold 100 -> doubled to 1600 *)
Example adjust_example_grow : q_adjust 200 100 (q_percent 102) 1000 = Some 1600.
Proof. vm_compute. reflexivity. Qed.
(* 10 allocated, threshold 25600: halved while alloc <= thr * p, clamped at the default *)
Example adjust_example_shrink : q_adjust 200 25600 (q_percent 102) 10 = Some 100.
Proof. vm_compute. reflexivity. Qed.
(* halving stops as soon as alloc > thr * p *)
Example adjust_example_shrink2 : q_adjust 200 25600 (q_percent 102) 200 = Some 1600.
Proof. vm_compute. reflexivity. Qed.
(* percent 0: early return, nothing changes *)
Example adjust_example_zero : q_adjust 200 25600 (q_percent 0) 10 = Some 25600.
Proof. vm_compute. reflexivity. Qed.
(* percent 1.0: halving stops because the halved threshold would not exceed alloc *)
Example adjust_example_one : q_adjust 200 25600 (q_percent 1024) 7000 = Some 12800.
Proof. vm_compute. reflexivity. Qed.
(* out of fuel is reported, never silently truncated *)
Example adjust_example_fuel : q_adjust 3 100 (q_percent 102) 100000 = None.
Proof. vm_compute. reflexivity. Qed.
