(** * SafeCollFin: the finalization pass ([KFinalizeList]). *)
From Coq Require Import NArith Bool List Lia.
From stdpp Require Import base list option.
From RecordUpdate Require Import RecordSet.
From RC Require Import Hdr Machine RunInd.
From RC Require BufBase BufPass BufStep Buf.
From RC Require Import Inv InvP SafeHelpers SafePrims SafeCalls SafeGlue SafeDrop SafeCmd SafeCyclic SafeMain.
From RC Require Import SafeColl SafeCollFr SafeCollHdr SafeCollTop SafeCollPass SafeCollDead SafeCollOnce.
Import ListNotations RecordSetNotations.
Local Open Scope N_scope.

Section Small.
  Context (K : conf).
  Implicit Types (m : machine) (o : id) (x : obj).

  Lemma Ibuf_mild A m m' :
    BufBase.mild K m m' -> BufBase.Ibuf K A m -> NoBad m' -> nofuel m' -> BufBase.Ibuf K A m'.
  Proof. intros M HB Hnb Hn. apply G_Ibuf; auto. eapply BufBase.mild_G; [exact M | right; exact HB]. Qed.

  Lemma log_tick k m : log (tick k m).1 = log m.
  Proof. unfold tick. destruct (get_fuse k m =? 0); [reflexivity|]. destruct k; reflexivity. Qed.
  Lemma get_tick k m o : get (tick k m).1 o = get m o.
  Proof. unfold tick. destruct (get_fuse k m =? 0); [reflexivity|]. destruct k; reflexivity. Qed.
  Lemma dead_tick k m : dead (tick k m).1 = dead m.
  Proof. unfold tick. destruct (get_fuse k m =? 0); [reflexivity|]. destruct k; reflexivity. Qed.
  Lemma coll_tick k m : st_collecting (tick k m).1 = st_collecting m.
  Proof. unfold tick. destruct (get_fuse k m =? 0); [reflexivity|]. destruct k; reflexivity. Qed.

  (** members stay members across an activation (part A's [of_prot]) *)
  Lemma Member_fr E ex m m' g :
    Fr K E ex m m' -> ex <> Some g -> st_collecting m = true -> Member m g -> Member m' g.
  Proof.
    intros F Hex Hc (x & Hx & Hb & Hv & Hi & Hmk).
    destruct (fr_obj _ _ _ _ _ F g x Hx) as (x' & Hx' & OF).
    assert (Hm : marked x = true) by (unfold marked, is_in_list_or_queue; rewrite Hmk; reflexivity).
    destruct (of_prot _ _ _ _ _ _ _ OF Hex Hb (or_intror (conj Hm Hc))) as (P1 & P2 & P3 & P4).
    exists x'. split; [exact Hx'|]. split; [exact P1|]. split; [congruence|]. split.
    - destruct (inD m' g) eqn:Ei; [|reflexivity]. rewrite (P3 eq_refl) in Hi. discriminate.
    - rewrite (P4 Hm Hc). exact Hmk.
  Qed.

  Lemma Member_get m m' g :
    (forall x, get m g = Some x -> exists x', get m' g = Some x' /\ o_box x' = o_box x /\ o_vst x' = o_vst x /\
                                            h_mark (o_hdr x') = h_mark (o_hdr x)) ->
    dead m' = dead m -> Member m g -> Member m' g.
  Proof.
    intros Hg Hd (x & Hx & Hb & Hv & Hi & Hmk). destruct (Hg x Hx) as (x' & Hx' & E1 & E2 & E3).
    exists x'. rewrite (inD_eq m m' g Hd). repeat split; congruence.
  Qed.

  (** un-marking the list *)
  Lemma unmark_ok b E L old_f m :
    NoBad m -> SInv K b E [] m -> NoDup L -> (forall g, g ∈ L -> Member m g) ->
    let m' := unmark_all L (m <| st_finalizing := old_f |>) in
    NoBad m' /\ SInv K b E [] m' /\ FrM K E m m'.
  Proof.
    intros Hnb HI Hnd HM. cbv zeta. unfold unmark_all.
    set (ma := m <| st_finalizing := old_f |>).
    set (m' := fold_left (fun m o => uhdr o (set_mark NM) m) L ma).
    destruct (fold_uhdr_proj (set_mark NM) L ma) as (P1 & P2 & P3 & P4 & P5 & P6 & P7 & P8 & P9 & P10 & P11 & P12 & P13 & P14 & P15).
    fold m' in P1, P2, P3, P4, P5, P6, P7, P8, P9, P10, P11, P12, P13, P14, P15.
    assert (Hget : forall o, get m' o = if decide (o ∈ L) then (fun x => x <| o_hdr ::= set_mark NM |>) <$> get m o else get m o).
    { intros o. unfold m'. rewrite (get_fold_uhdr_nodup (set_mark NM) L Hnd ma o). reflexivity. }
    assert (HF : heaps_hsim m m').
    { apply heaps_hsim_intro; [exact P15|]. intros o x Hx. rewrite Hget, Hx. destruct (decide (o ∈ L)); cbn.
      - eexists. split; [reflexivity|]. destruct x as [h ? ? ? ? ? ? ? ? ? ? ? ?]. cbn. apply (hsim_set (Obj h _ _ _ _ _ _ _ _ _ _ _ _)); cbn; auto.
      - eexists. split; [reflexivity | apply hsim_refl]. }
    assert (Hsame : forall o x x', get m o = Some x -> get m' o = Some x' -> o ∉ L -> x' = x).
    { intros o x x' Hx Hx' Hn. rewrite Hget, decide_False in Hx' by exact Hn. congruence. }
    assert (HnL : forall o x x', get m o = Some x -> get m' o = Some x' -> (inD m o = true \/ o_box x = BNotYet) -> o_hdr x' = o_hdr x).
    { intros o x x' Hx Hx' Hor. destruct (decide (o ∈ L)) as [Hin|Hout]; [|rewrite (Hsame o x x' Hx Hx' Hout); reflexivity].
      destruct (HM o Hin) as (y & Hy & Hb & _ & Hi & _). assert (y = x) by congruence. subst y. destruct Hor; congruence. }
    split; [eapply NoBad_log; [|exact Hnb]; exact P12|]. split.
    - refine (SInv_hsim K b E [] m m' HI HF P1 P2 P3 P4 P5 P6 P8 P9 _ _ _).
      + intros Hsd. rewrite P11. exact Hsd.
      + intros o x x' Hx Hx' Hi. apply (HnL o x x' Hx Hx'). auto.
      + intros t Ht. rewrite P7 in Ht. destruct (sv_pc _ _ _ _ _ HI t Ht) as (x & Hx & Hb & Hv & Hi & Hmk).
        split; [exists x; auto|]. unfold hdr_of. rewrite Hget, Hx. rewrite decide_False; [exact Hmk|].
        intros Hin. destruct (HM t Hin) as (y & Hy & _ & _ & _ & Hil). assert (y = x) by congruence. subst. congruence.
    - apply (FrM_hsim K E m m' HF P8 P4).
      + intros o x x' Hx Hx' Hb. apply (HnL o x x' Hx Hx'). auto.
      + intros o x x' Hx Hx' Hi. apply (HnL o x x' Hx Hx'). auto.
  Qed.

  (** re-buffering the list *)
  Lemma rebuffer_ok b E L m :
    NoBad m -> SInv K b E [] m -> NoDup L -> (forall g, g ∈ L -> Member m g) ->
    let m2 := fold_left (fun m g => uhdr g (fun h => set_mark PC (reset_tc h)) m) L m in
    let m' := m2 <| pc ::= fun old => L ++ old |> <| pc_size ::= fun s => N.of_nat (length L) + s |> in
    NoBad m' /\ SInv K b E [] m' /\ FrM K E m m' /\ dead m' = dead m.
  Proof.
    intros Hnb HI Hnd HM. cbv zeta.
    set (f := fun h => set_mark PC (reset_tc h)).
    set (m2 := fold_left (fun m g => uhdr g f m) L m).
    set (m' := m2 <| pc ::= fun old => L ++ old |> <| pc_size ::= fun s => N.of_nat (length L) + s |>).
    destruct (fold_uhdr_proj f L m) as (P1 & P2 & P3 & P4 & P5 & P6 & P7 & P8 & P9 & P10 & P11 & P12 & P13 & P14 & P15).
    fold m2 in P1, P2, P3, P4, P5, P6, P7, P8, P9, P10, P11, P12, P13, P14, P15.
    assert (Hget : forall o, get m' o = if decide (o ∈ L) then (fun x => x <| o_hdr ::= f |>) <$> get m o else get m o).
    { intros o. change (get m' o) with (get m2 o). unfold m2. apply (get_fold_uhdr_nodup f L Hnd m o). }
    assert (HF : heaps_hsim m m').
    { apply heaps_hsim_intro; [exact P15|]. intros o x Hx. rewrite Hget, Hx. destruct (decide (o ∈ L)) as [Hin|]; cbn.
      - destruct (HM o Hin) as (y & Hy & _ & Hv & _). assert (y = x) by congruence. subst y.
        eexists. split; [reflexivity|]. destruct x as [h ? ? ? ? ? ? ? ? ? ? ? ?]. cbn in *.
        apply (hsim_set (Obj h _ _ _ _ _ _ _ _ _ _ _ _)); cbn; auto.
      - eexists. split; [reflexivity | apply hsim_refl]. }
    assert (Hsame : forall o x x', get m o = Some x -> get m' o = Some x' -> o ∉ L -> x' = x).
    { intros o x x' Hx Hx' Hn. rewrite Hget, decide_False in Hx' by exact Hn. congruence. }
    assert (HnL : forall o x x', get m o = Some x -> get m' o = Some x' -> (inD m o = true \/ o_box x = BNotYet) -> o_hdr x' = o_hdr x).
    { intros o x x' Hx Hx' Hor. destruct (decide (o ∈ L)) as [Hin|Hout]; [|rewrite (Hsame o x x' Hx Hx' Hout); reflexivity].
      destruct (HM o Hin) as (y & Hy & Hb & _ & Hi & _). assert (y = x) by congruence. subst y. destruct Hor; congruence. }
    split; [eapply NoBad_log; [|exact Hnb]; exact P12|]. split; [|split].
    - refine (SInv_hsim K b E [] m m' HI HF P1 P2 P3 P4 P5 P6 P8 P9 _ _ _).
      + intros Hsd. change (st_dropping m') with (st_dropping m2). rewrite P11. exact Hsd.
      + intros o x x' Hx Hx' Hi. apply (HnL o x x' Hx Hx'). auto.
      + intros t Ht. change (pc m') with (L ++ pc m2) in Ht. rewrite P7 in Ht. apply elem_of_app in Ht.
        destruct (decide (t ∈ L)) as [Hin|Hout].
        * destruct (HM t Hin) as (x & Hx & Hb & Hv & Hi & _). split; [exists x; auto|].
          unfold hdr_of. rewrite Hget, Hx, decide_True by exact Hin. reflexivity.
        * destruct Ht as [Ht|Ht]; [contradiction|].
          destruct (sv_pc _ _ _ _ _ HI t Ht) as (x & Hx & Hb & Hv & Hi & Hmk). split; [exists x; auto|].
          unfold hdr_of. rewrite Hget, Hx, decide_False by exact Hout. exact Hmk.
    - apply (FrM_hsim K E m m' HF P8 P4).
      + intros o x x' Hx Hx' Hb. apply (HnL o x x' Hx Hx'). auto.
      + intros o x x' Hx Hx' Hi. apply (HnL o x x' Hx Hx'). auto.
    - exact P8.
  Qed.
End Small.

Section Fin.
  Context (K : conf) (P : prog).
  Context (rec : call -> machine -> machine * outcome).
  Hypothesis HrecQ : forall b E A c m,
    Pre K (PreC K) b E c m -> Q K A c m -> Post K (PostC K) b E c m (rec c m).1 (rec c m).2.
  Hypothesis Hbuf : BufStep.rok K rec.
  Hypothesis Hnf : nfspec rec.

  Notation PostOf b E c m res := (Post K (PostC K) b E c m (fst res) (snd res)).
  Notation rec_all := (rec_all K rec HrecQ Hbuf Hnf).

  (** the drop pass on a closed list (shared with [SafeCollOnce.once_tail]) *)
  Lemma drop_pass_call b E L m :
    NoBad m -> SInv K b E [] m -> st_collecting m = true -> BufBase.Ibuf K L m -> nofuel m ->
    NoDup L -> (forall g, g ∈ L -> Member m g) -> ClosedL L E m ->
    let res := rec (KDropList L L (st_dropping m)) (enter L m) in
    match res.2 with
    | ONormal | OPanic =>
      NoBad res.1 /\ SInv K (match res.2 with ONormal => b | _ => false end) E [] res.1 /\
      FrM K E m res.1 /\ (res.2 = ONormal -> NewDeadDropped m res.1)
    | _ => True
    end.
  Proof.
    intros Hnb HI Hc HB Hn Hnd HM HCl. cbv zeta.
    destruct (enter_facts K b E L m HI HM HCl) as (HDM & HDC & HTI).
    destruct (rec_all b E L (KDropList L L (st_dropping m)) (enter L m)) as (HP & F3 & G3).
    { cbn. split; [|split; [exact Hnd|split; [exists []; reflexivity|split; [exact HDM|split; [exact HDC|exact HTI]]]]].
      split; [exact Hnb|]. split; [apply SInv_enter_dead; assumption|]. split; [exact Hc|].
      split; [eapply Ibuf_same; [..|exact HB]; reflexivity | exact Hn]. }
    { cbn. split; [right; eapply Ibuf_same; [..|exact HB]; reflexivity | exact Hc]. }
    { exact Hn. }
    destruct (rec (KDropList L L (st_dropping m)) (enter L m)) as [m' r]. cbn [fst snd] in *.
    assert (HL : forall g, g ∈ L -> cnt_id g E = 0%nat /\ exists x, get m g = Some x /\ o_vst x <> VDropping).
    { intros g Hg. split; [apply HCl, Hg|]. destruct (HM g Hg) as (x & Hx & _ & Hv & _). exists x. split; [exact Hx | congruence]. }
    destruct r; try exact I.
    - destruct HP as (A1 & A2 & A3 & A4 & A5 & A6). split; [exact A1|]. split; [exact A2|]. split.
      + eapply FrM_enter_dead; eauto.
      + intros _ o x' Hx' Hi Hi0. destruct (decide (o ∈ L)) as [Hin|Hout].
        * destruct (A6 eq_refl o Hin) as (y & Hy & Hvy). congruence.
        * eapply (A4 eq_refl o x' Hx' Hi). rewrite inD_enter_out by exact Hout. exact Hi0.
    - destruct HP as (A1 & A2 & A3 & A4 & A5 & A6). split; [exact A1|]. split; [exact A2|]. split; [|discriminate].
      eapply FrM_enter_dead; eauto.
  Qed.

  Section Member.
    Variables (b : bool) (E L : list id) (g : id) (rest' : list id) (any old_f : bool) (m : machine).
    Hypothesis Hnd : NoDup L.
    Hypothesis HLd : exists done, L = done ++ g :: rest'.

    Let c0 := KFinalizeList L (g :: rest') any old_f.

    (** the list goes on after [g] *)
    Lemma fin_continue mc :
      Cur K b true E None m E [] mc -> st_collecting mc = true -> BufBase.Ibuf K L mc -> nofuel mc ->
      (forall g', g' ∈ L -> Member mc g') ->
      PostOf b E c0 m (rec (KFinalizeList L rest' true old_f) mc).
    Proof.
      intros C Hc HB Hn HM. destruct HLd as (done & HL).
      destruct (rec_all b E L (KFinalizeList L rest' true old_f) mc) as (HP & F & G).
      { cbn. split; [|split; [exact Hnd|split; [|split; [exact HM | discriminate]]]].
        - split; [apply C|]. split; [apply C|]. split; [exact Hc|]. split; [exact HB | exact Hn].
        - exists (done ++ [g]). rewrite <- app_assoc. exact HL. }
      { cbn. split; [right; exact HB | exact Hc]. }
      { exact Hn. }
      destruct (rec (KFinalizeList L rest' true old_f) mc) as [m' r]. cbn [fst snd] in *.
      pose proof (Fr_strip K E None m mc (cur_fr _ _ _ _ _ _ _ _ _ C)) as F0.
      destruct r; try exact I.
      - destruct HP as (A1 & A2 & A3 & A4 & _). cbn. split; [exact A1|]. split; [exact A2|].
        split; [eapply FrM_trans; [exact F0 | exact A3]|]. split; [|exact I].
        intros _. eapply NDD_transM; [apply (sv_dead _ _ _ _ _ (cur_inv _ _ _ _ _ _ _ _ _ C)) | apply (cur_ndd _ _ _ _ _ _ _ _ _ C); reflexivity | exact A3 | apply A4; reflexivity].
      - destruct HP as (A1 & A2 & A3 & A4 & _). cbn. split; [exact A1|]. split; [exact A2|].
        split; [eapply FrM_trans; [exact F0 | exact A3]|]. split; [discriminate | exact I].
    Qed.

    (** a finalizer panicked: the guard restores the flag, the list is un-marked *)
    Lemma fin_unwind bb nn mc :
      Cur K bb nn E None m E [] mc -> (forall g', g' ∈ L -> Member mc g') ->
      PostOf b E c0 m (unmark_all L (mc <| st_finalizing := old_f |>), OPanic).
    Proof.
      intros C HM.
      destruct (unmark_ok K false E L old_f mc (cur_nb _ _ _ _ _ _ _ _ _ C)
                  (SInv_inexact K _ _ _ _ (cur_inv _ _ _ _ _ _ _ _ _ C)) Hnd HM) as (U1 & U2 & U3).
      cbn. split; [exact U1|]. split; [exact U2|]. split; [|split; [discriminate | exact I]].
      eapply FrM_trans; [apply (Fr_strip K E None m mc), C | exact U3].
    Qed.
  End Member.

  Lemma step_finalize_list_ok b E L rest any old_f m :
    PreC K b E (KFinalizeList L rest any old_f) m ->
    PostOf b E (KFinalizeList L rest any old_f) m (step_finalize_list K P rec L rest any old_f m).
  Proof.
    intros ((Hnb & HI & Hc & HB & Hn) & Hnd & HLd & HM & HCl). unfold step_finalize_list.
    destruct rest as [|g rest'].
    - (* the end of the list *)
      set (m1 := m <| st_finalizing := old_f |>).
      assert (HI1 : SInv K b E [] m1) by (eapply SInv_same; eauto; reflexivity).
      assert (HM1 : forall g, g ∈ L -> Member m1 g) by (intros g Hg; eapply Member_same; [| |apply HM, Hg]; reflexivity).
      assert (HF1 : FrM K E m m1) by (apply FrM_flags; reflexivity).
      destruct any; cbn [negb].
      + (* some finalizer ran: re-buffer *)
        destruct (rebuffer_ok K b E L m1 Hnb HI1 Hnd HM1) as (R1 & R2 & R3 & R4).
        cbn [fst snd]. cbn. split; [exact R1|]. split; [exact R2|]. split; [eapply FrM_trans; eauto|]. split; [|exact I].
        intros _. apply NDD_refl. exact R4.
      + (* nothing to finalize: the drop pass *)
        assert (HCl1 : ClosedL L E m1).
        { destruct (HCl eq_refl) as [HE HC]. split; [exact HE|]. eapply DeadClosed_same; [..|exact HC]; reflexivity. }
        pose proof (drop_pass_call b E L m1 Hnb HI1 Hc (Ibuf_same K L m m1 eq_refl eq_refl eq_refl eq_refl eq_refl eq_refl eq_refl HB) Hn Hnd HM1 HCl1) as HD.
        cbv zeta in HD. change (st_dropping m1) with (st_dropping m) in *.
        change (m1 <| st_dropping := true |> <| dead ::= app L |>) with (enter L m1).
        destruct (rec (KDropList L L (st_dropping m)) (enter L m1)) as [m' r]. cbn [fst snd] in *.
        destruct r; try exact I.
        * destruct HD as (A1 & A2 & A3 & A4). cbn. split; [exact A1|]. split; [exact A2|]. split; [eapply FrM_trans; eauto|]. split; [|exact I].
          intros _. eapply (NDD_proper m1 m'); [reflexivity | reflexivity | reflexivity | apply A4; reflexivity].
        * destruct HD as (A1 & A2 & A3 & A4). cbn. split; [exact A1|]. split; [exact A2|]. split; [eapply FrM_trans; eauto|]. split; [discriminate | exact I].
    - (* a member *)
      assert (Hg : g ∈ L).
      { destruct HLd as (done & ->). apply elem_of_app. right. left. }
      destruct (HM g Hg) as (x & Hx & Hbx & Hvx & Hix & Hmk).
      rewrite (hdr_of_get _ _ _ Hx).
      destruct (needs_fin (o_hdr x)) eqn:Hnfin.
      + (* finalize [g] *)
        pose proof (Cur_init K b true E None E [] m Hnb HI) as C0.
        assert (C1 : Cur K b true E None m E [] (uhdr g (set_fin true) m)).
        { apply (Cur_uhdr_same K b true E None m E [] m g (set_fin true) x C0 Hx Hbx). intros h. repeat split. }
        set (m1 := uhdr g (set_fin true) m) in *.
        set (x1 := x <| o_hdr ::= set_fin true |>).
        assert (Hx1 : get m1 g = Some x1) by (apply get_upd_eq, Hx).
        assert (M1 : BufBase.mild K m m1).
        { apply BufBase.mild_uhdr; intros h; [reflexivity | intros Ht; exact Ht]. }
        assert (HM1 : forall g', g' ∈ L -> Member m1 g').
        { intros g' Hg'. eapply (Member_get m m1 g'); [| reflexivity | apply HM, Hg'].
          intros y Hy. unfold m1, uhdr. rewrite get_upd. destruct (decide (g = g')) as [->|].
          - rewrite Hy. cbn. eexists. split; [reflexivity|]. auto.
          - exists y. auto. }
        assert (Hn1 : nofuel m1) by exact Hn.
        assert (Hc1 : st_collecting m1 = true) by exact Hc.
        assert (HB1 : BufBase.Ibuf K L m1) by (eapply Ibuf_mild; eauto; apply C1).
        unfold is_map. fold m1. rewrite Hx1. change (o_ismap x1) with (o_ismap x).
        destruct (o_ismap x) eqn:Hmap.
        * (* a CleanerMap: its Finalize is empty *)
          apply (fin_continue b E L g rest' any old_f m Hnd HLd m1 C1 Hc1 HB1 Hn1 HM1).
        * (* the finalizer of [g] *)
          set (m2 := emit (ECb KFin g (cur_flags K m1)) m1).
          pose proof (Cur_tick K _ _ _ _ _ _ _ _ KFin (Cur_emit K _ _ _ _ _ _ _ _ (ECb KFin g (cur_flags K m1)) C1 eq_refl)) as C3.
          fold m2 in C3.
          assert (M3 : BufBase.mild K m (tick KFin m2).1).
          { eapply BufBase.mild_trans; [exact M1|]. eapply BufBase.mild_trans; [apply (BufBase.mild_emit K (ECb KFin g (cur_flags K m1)) m1); reflexivity | apply BufBase.mild_tick]. }
          assert (Hn3 : nofuel (tick KFin m2).1).
          { eapply nofuel_log; [apply log_tick|]. apply nofuel_emit; [reflexivity | exact Hn1]. }
          assert (Hc3 : st_collecting (tick KFin m2).1 = true) by (rewrite coll_tick; exact Hc).
          assert (Hg3 : forall o, get (tick KFin m2).1 o = get m1 o) by (intros o; rewrite get_tick; reflexivity).
          assert (Hd3 : dead (tick KFin m2).1 = dead m) by (rewrite dead_tick; reflexivity).
          destruct (tick KFin m2) as [m3 boom]. cbn [fst snd] in *.
          assert (HB3 : BufBase.Ibuf K L m3) by (eapply Ibuf_mild; eauto; apply C3).
          assert (HM3 : forall g', g' ∈ L -> Member m3 g').
          { intros g' Hg'. eapply (Member_get m1 m3 g'); [| exact Hd3 | apply HM1, Hg']. intros y Hy. rewrite Hg3. exists y. auto. }
          destruct boom.
          -- (* the fuse fires *)
             unfold raise. destruct (panicking m3); [exact I|].
             apply (fin_unwind b E L g rest' any old_f m Hnd b true m3 C3 HM3).
          -- rewrite Hg3, Hx1.
             set (script := oscript P (c_fin (class_of P (o_cls x1)))).
             destruct (rec_all b E L (KScript (Some g) script) m3) as (HP & F4 & G4).
             { rewrite Pre_nc by reflexivity. cbn [own_of app]. split; [apply C3|]. split; [apply C3|].
               left. exists x1. rewrite Hg3. split; [exact Hx1|]. split; [exact Hbx|]. split; [exact Hvx|].
               split; [rewrite (inD_eq m m3 g Hd3); exact Hix|]. split; [exact Hmap|].
               right. split; [|exact Hc3]. unfold marked, is_in_list_or_queue. cbn. rewrite Hmk. reflexivity. }
             { cbn. right. exact HB3. }
             { exact Hn3. }
             destruct (rec (KScript (Some g) script) m3) as [m4 r4]. cbn [fst snd] in *.
             destruct r4; try exact I.
             ++ (* the finalizer returned *)
                destruct (Cur_call_n K (PostC K) (KScript (Some g) script) _ _ _ _ _ _ _ _ _ eq_refl C3 HP (cnt_le_refl E) (or_introl eq_refl)) as [C4 _].
                destruct (G4 ltac:(discriminate)) as [HG4 Hn4]. cbn in HG4.
                assert (HF4 : Fr K E None m3 m4) by (rewrite Post_nc in HP by reflexivity; apply HP).
                assert (Hc4 : st_collecting m4 = true) by (rewrite (fr_coll _ _ _ _ _ HF4); exact Hc3).
                apply (fin_continue b E L g rest' any old_f m Hnd HLd m4 C4 Hc4).
                ** apply G_Ibuf; [exact HG4 | apply C4 | exact Hn4].
                ** exact Hn4.
                ** intros g' Hg'. eapply Member_fr; [exact HF4 | discriminate | exact Hc3 | apply HM3, Hg'].
             ++ (* the finalizer panicked *)
                destruct (Cur_call_p K (PostC K) (KScript (Some g) script) _ _ _ _ _ _ _ _ _ eq_refl C3 HP (cnt_le_refl E) (or_introl eq_refl)) as [C4 _].
                assert (HF4 : Fr K E None m3 m4) by (rewrite Post_nc in HP by reflexivity; apply HP).
                apply (fin_unwind b E L g rest' any old_f m Hnd false false m4 C4).
                intros g' Hg'. eapply Member_fr; [exact HF4 | discriminate | exact Hc3 | apply HM3, Hg'].
      + (* already finalized: skip *)
        destruct HLd as (done & HL).
        destruct (rec_all b E L (KFinalizeList L rest' any old_f) m) as (HP & _ & _).
        { cbn. split; [|split; [exact Hnd|split; [|split; [exact HM | exact HCl]]]].
          - exact (conj Hnb (conj HI (conj Hc (conj HB Hn)))).
          - exists (done ++ [g]). rewrite <- app_assoc. exact HL. }
        { cbn. split; [right; exact HB | exact Hc]. }
        { exact Hn. }
        exact HP.
  Qed.
End Fin.
