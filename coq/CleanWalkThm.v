(** * CleanWalkThm: the walk assembled: every activation of the marked interpreter [Life.mrun]
    with the check [chkW] obeys [Pre3]/[Post3] - the invariant [J] ("a CleanerMap whose value is
    being / has been destroyed is named by no Cleaner; once destroyed it holds no action") and the
    relation [R], modulo taint. *)
From Coq Require Import NArith Bool List Lia.
From stdpp Require Import base list option.
From RecordUpdate Require Import RecordSet.
From RC Require Import Hdr Machine RunInd Inv.
From RC Require Import InvP SafeMain SafeColl SafeFinal LifeGhost Life.
From RC Require Import Clean CleanFrame CleanStep CleanUFrame CleanU CleanUStep.
From RC Require Import CleanWalk CleanWalkRel CleanWalkChk CleanWalkStep CleanWalkStep2 CleanWalkStep3
  CleanWalkStep4 CleanWalkStep5 CleanWalkStep6 CleanWalkStep7 CleanWalkStep8.
Import ListNotations RecordSetNotations.

Section Thm.
  Context (mu : id) (K : conf) (P : prog).

  Theorem W_step rec : rec_ok (Pre3 mu) (Post3 mu) rec ->
    forall c m, Pre3 mu c m -> chkW K P c m = true ->
    Post3 mu c m (step K P rec c m).1 (step K P rec c m).2.
  Proof.
    intros Hrec c m HP Hc.
    assert (G : forall X c0 m0, gen_okW mu X -> ex3 c0 = None -> (forall m', xPost c0 m0 m') ->
                Pre3 mu c0 m0 -> Post3 mu c0 m0 (X m0).1 (X m0).2)
      by (intros X c0 m0; apply gen_post3).
    destruct c as [self cm|self cs|r v|o|o|o j|o j| | | |k| |L rest any old_f|L rest old_d|k|mo a sc];
      cbn [step].
    - destruct cm; cbn [step_cmd];
        first [ (eapply W_cmd_try_unwrap; eassumption) | (eapply W_cmd_drop_value; eassumption)
              | (apply G; [|reflexivity|intros; exact I|exact HP];
                 first [ apply w_cmd_clone | apply w_cmd_drop | apply w_cmd_move | apply w_cmd_mark_alive
                       | apply w_cmd_collect | apply w_cmd_downgrade | apply w_cmd_upgrade | apply w_cmd_w_new
                       | apply w_cmd_w_clone | apply w_cmd_w_drop | apply w_cmd_fin_again | apply w_cmd_c_drop
                       | apply w_cmd_bag | apply w_cmd_unbag | apply w_cmd_borrow | apply w_cmd_unborrow
                       | apply w_cmd_cfg_auto | apply w_cmd_cfg_percent | apply w_cmd_cfg_buffered | apply w_cmd_arm
                       | apply w_cmd_panic | apply w_cmd_obs | apply w_cmd_w_obs | apply w_cmd_s_obs
                       | apply w_cmd_new | apply w_cmd_new_cyclic | apply w_cmd_register | apply w_cmd_clean ]; try exact Hrec) ].
    - apply G; [apply w_step_script; exact Hrec|reflexivity|intros; exact I|exact HP].
    - apply G; [apply w_step_store; exact Hrec|reflexivity|intros; exact I|exact HP].
    - eapply W_step_drop_cc; eassumption.
    - eapply W_step_drop_value; eassumption.
    - apply G; [apply w_step_drop_fields; exact Hrec|reflexivity|intros; exact I|exact HP].
    - eapply W_step_drop_map_slots; eassumption.
    - apply G; [apply w_step_trigger; exact Hrec|reflexivity|intros; exact I|exact HP].
    - apply G; [apply w_step_collect_cycles; exact Hrec|reflexivity|intros; exact I|exact HP].
    - apply G; [apply w_step_collect; exact Hrec|reflexivity|intros; exact I|exact HP].
    - apply G; [apply w_step_collect_loop; exact Hrec|reflexivity|intros; exact I|exact HP].
    - eapply W_step_collect_once; eassumption.
    - eapply W_step_finalize_list; eassumption.
    - eapply W_step_drop_list; eassumption.
    - apply G; [apply w_step_unbag; exact Hrec|reflexivity|intros; exact I|exact HP].
    - apply G; [apply w_step_clean_run; exact Hrec|reflexivity|intros; exact I|exact HP].
  Qed.

  Theorem C10W_nested_inv n : rec_ok (Pre3 mu) (Post3 mu) (mrun K P (chkW K P) mu n).
  Proof.
    apply (mrun_ind K P (chkW K P) (chkW_dl K P) mu (Pre3 mu) (Post3 mu)).
    - apply Post3_vac.
    - intros rec Hrec c m HP Hc. apply (W_step rec Hrec c m HP Hc).
    - apply Post3_fuel.
  Qed.
End Thm.

Print Assumptions W_step.
Print Assumptions C10W_nested_inv.
