(** * CleanWalkStep6: the tracing pass, [clean()], [try_unwrap], dropping a moved-out value. *)
From Coq Require Import NArith Bool List Lia.
From stdpp Require Import base list option.
From RecordUpdate Require Import RecordSet.
From RC Require Import Hdr Machine RunInd Inv.
From RC Require Import Clean CleanFrame CleanStep CleanUFrame CleanU CleanUStep.
From RC Require Import CleanWalk CleanWalkRel CleanWalkChk CleanWalkStep CleanWalkStep2 CleanWalkStep3 CleanWalkStep4 CleanWalkStep5.
Import ListNotations RecordSetNotations.

Section S6.
  Context (mu : id) (K : conf) (P : prog).
  Context (rec : call -> machine -> machine * outcome).
  Context (Hrec : rec_ok (Pre3 mu) (Post3 mu) rec).
  Implicit Types (m : machine).

  Notation tn m := (mem_id mu (dead m) = true).
  Notation gd m := (mem_id mu (dead m) = false).

  Lemma W_step_collect_once m :
    Pre3 mu KCollectOnce m -> chkW K P KCollectOnce m = true ->
    Post3 mu KCollectOnce m (step_collect_once K P rec m).1 (step_collect_once K P rec m).2.
  Proof.
    intros HP Hchk. destruct (mem_id mu (dead m)) eqn:Hg; [apply taint_post; [apply tok_step_collect_once; exact Hrec|exact Hg]|].
    destruct HP as [HP|(HJ & _)]; [congruence|].
    pose proof (TX_self mu m None (length (zv m)) Hg HJ (le_n _)) as H0.
    unfold chkW in Hchk. apply andb_true_iff in Hchk as [Hchk _]. cbn [chkU] in Hchk.
    apply post_of_xres; [exact Hg| |intros; exact I]. cbn [ex3].
    unfold step_collect_once.
    assert (Hr1 : TX mu (Some (None, length (zv m), zv m))
                     (trace_pass K P (m <| st_finalizing := false |> <| st_dropping := false |>)).1) by relW.
    destruct (trace_pass K P (m <| st_finalizing := false |> <| st_dropping := false |>)) as [m1 pr].
    cbn [fst snd] in *. cbv beta iota zeta.
    destruct pr as [L| |]; [|goT..].
    assert (HL : forall g, g ∈ L -> g < length (zv m) /\ g < length (zv m) /\ zunl (zv m) g).
    { intros g Hin. rewrite forallb_forall in Hchk. specialize (Hchk g (proj1 (elem_of_list_In _ _) Hin)).
      apply andb_true_iff in Hchk as [H1 H2]. apply Nat.ltb_lt in H1. rewrite <- zv_length in H1.
      split; [exact H1|]. split; [exact H1|apply zunl_of_b, H2]. }
    goX ltac:(first
      [ (let HR := fresh in let g' := fresh in let Hg' := fresh in
         intros _ HR; destruct HR as (HR & _ & _); intros _ g' Hg';
         destruct (HL g' Hg') as (A & B & C); exact (lz_mono _ _ _ _ _ HR A B C))
      | (let HR := fresh in let g' := fresh in let Hg' := fresh in
         intros _ HR; destruct HR as (HR & _ & _); intros g' Hg';
         destruct (HL g' Hg') as (A & B & C); exact (lz_mono _ _ _ _ _ HR A B C)) ]) fail.
  Qed.

  Lemma W_cmd_drop_value self v m :
    Pre3 mu (KCmd self (CDropValue v)) m -> chkW K P (KCmd self (CDropValue v)) m = true ->
    Post3 mu (KCmd self (CDropValue v)) m (cmd_drop_value rec self v m).1 (cmd_drop_value rec self v m).2.
  Proof.
    intros HP Hchk. destruct (mem_id mu (dead m)) eqn:Hg; [apply taint_post; [apply tok_cmd_drop_value; exact Hrec|exact Hg]|].
    destruct HP as [HP|(HJ & _)]; [congruence|].
    pose proof (TX_self mu m None (length (zv m)) Hg HJ (le_n _)) as H0.
    unfold chkW in Hchk. apply andb_true_iff in Hchk as [HcU HcX]. cbn [chkU chkX] in HcU, HcX.
    apply post_of_xres; [exact Hg| |intros; exact I]. cbn [ex3].
    unfold cmd_drop_value.
    destruct (mjoin (values m !! v)) as [o|]; [|goT].
    goX ltac:(intros _ _; split;
              [ cbn [xPre]; cvs; intros ? _ _; exact (zunl_of_b _ _ HcU)
              | right; right; intros w0 Hw0; left; apply (nyb_spec m o); [apply negb_true_iff, HcX|exact Hw0] ]) fail.
  Qed.

  (** *** [try_unwrap] *)
  Lemma heap_node_via_slot i m : heap (node_via_slot i m).1 = heap m.
  Proof. unfold node_via_slot. brk; reflexivity. Qed.
  Lemma slots_node_via_slot i m : slots (node_via_slot i m).1 = slots m.
  Proof. unfold node_via_slot. brk; reflexivity. Qed.
  Lemma heap_resolve self l m : heap (resolve self l m).1 = heap m.
  Proof.
    unfold resolve. destruct l as [i|j|i j]; cbn [fst]; auto.
    - brk; reflexivity.
    - pose proof (heap_node_via_slot i m) as H.
      destruct (node_via_slot i m) as [m1 n]. cbn [fst] in H. brk; cbn [fst]; exact H.
  Qed.
  Lemma slots_resolve self l m : slots (resolve self l m).1 = slots m.
  Proof.
    unfold resolve. destruct l as [i|j|i j]; cbn [fst]; auto.
    - brk; reflexivity.
    - pose proof (slots_node_via_slot i m) as H.
      destruct (node_via_slot i m) as [m1 n]. cbn [fst] in H. brk; cbn [fst]; exact H.
  Qed.

  Lemma read_loc_boxed m m1 r o :
    refs_boxed m = true -> heap m1 = heap m -> slots m1 = slots m -> read_loc r m1 = Some o ->
    forall w0, zv m !! o = Some w0 -> z_box w0 <> BNotYet.
  Proof.
    intros Hrb Eh Es Hrd. apply nyb_spec. unfold refs_boxed in Hrb. apply andb_true_iff in Hrb as [Hs Hf].
    rewrite forallb_forall in Hs, Hf. destruct r as [i|p j]; cbn in Hrd.
    - rewrite Es in Hrd. destruct (slots m !! i) as [[t|]|] eqn:Ei; cbn in Hrd; try discriminate. injection Hrd as ->.
      assert (Hin : In (Some o) (slots m)) by (apply elem_of_list_In, elem_of_list_lookup; exists i; exact Ei).
      specialize (Hs _ Hin). cbn in Hs. apply negb_true_iff, Hs.
    - unfold get in Hrd. rewrite Eh in Hrd. destruct (heap m !! p) as [xp|] eqn:Ep; cbn in Hrd; [|discriminate].
      destruct (o_fields xp !! j) as [[t|]|] eqn:Ej; cbn in Hrd; try discriminate. injection Hrd as ->.
      assert (Hin : In xp (heap m)) by (apply elem_of_list_In, elem_of_list_lookup; exists p; exact Ep).
      specialize (Hf _ Hin). rewrite forallb_forall in Hf.
      assert (Hin2 : In (Some o) (o_fields xp)) by (apply elem_of_list_In, elem_of_list_lookup; exists j; exact Ej).
      specialize (Hf _ Hin2). cbn in Hf. apply negb_true_iff, Hf.
  Qed.

  Lemma W_cmd_try_unwrap self l v m :
    Pre3 mu (KCmd self (CTryUnwrap l v)) m -> chkW K P (KCmd self (CTryUnwrap l v)) m = true ->
    Post3 mu (KCmd self (CTryUnwrap l v)) m (cmd_try_unwrap K self l v m).1 (cmd_try_unwrap K self l v m).2.
  Proof.
    intros HP Hchk. destruct (mem_id mu (dead m)) eqn:Hg; [apply taint_post; [apply tok_cmd_try_unwrap|exact Hg]|].
    destruct HP as [HP|(HJ & _)]; [congruence|].
    pose proof (TX_self mu m None (length (zv m)) Hg HJ (le_n _)) as H0.
    unfold chkW in Hchk. apply andb_true_iff in Hchk as [_ HcX]. cbn [chkX] in HcX.
    apply post_of_xres; [exact Hg| |intros; exact I]. cbn [ex3].
    unfold cmd_try_unwrap.
    pose proof (heap_resolve self l m) as Eh. pose proof (slots_resolve self l m) as Es.
    assert (Hr1 : TX mu (Some (None, length (zv m), zv m)) (resolve self l m).1) by relW.
    destruct (resolve self l m) as [m1 r]. cbn [fst snd] in *.
    destruct r as [r|]; [|goT]. destruct (values m1 !! v) as [[?|]|]; try goT.
    destruct (read_loc r m1) as [o|] eqn:Erd; [|goT].
    pose proof (read_loc_boxed m m1 r o HcX Eh Es Erd) as Hb.
    goX fail ltac:(rewrite (zv_upd_alter _ (zvst VMoved)) by (intros; reflexivity); cvs;
                   eapply TX_dealloc_boxed; [reflexivity|exact Hb|];
                   eapply TX_vst_alive; [eassumption|exact I]).
  Qed.

  (** *** [clean()] *)
  Lemma w_cmd_clean self c : gen_okW mu (cmd_clean K rec self c).
  Proof.
    intros s m H. unfold cmd_clean.
    goX fail ltac:(match goal with |- context [<[?k := MVacant]>] =>
                     rewrite (zv_upd_alter _ (zslots (<[k := MVacant]>))) by (intros; reflexivity) end;
                   cvs; apply TX_vacate; eassumption).
  Qed.
End S6.
