(** * PassRoots: the invariant of the root-tracing phase ([roots] = trace_roots). *)
From Coq Require Import NArith Bool List Lia.
From stdpp Require Import base list option numbers list_numbers.
From RecordUpdate Require Import RecordSet.
From RC Require Import Hdr Machine Pass PassCount.
Import ListNotations RecordSetNotations.

Section Roots.
  Context (K : conf) (P : prog) (m0 : machine) (ext : id → N).
  Hypothesis Hpre : PassPre P m0 ext.
  (** the state at the end of the counting phase *)
  Context (s1 : tstate).
  Hypothesis HC : CInv K P m0 [] [] s1.
  Hypothesis Hpc1 : pc (t_m s1) = [].
  Hypothesis Hq1 : t_q s1 = [].

  Notation mk m v := (h_mark (hdr_of m v)).
  Notation tc m v := (h_tc (hdr_of m v)).
  Notation rc m v := (h_rc (hdr_of m v)).

  (** the visited objects *)
  Definition V : list id := proc s1.
  Definition lists (s : tstate) : list id := t_root s ++ t_non s ++ t_q s.

  Lemma V_tracked : tracked s1 [] = V.
  Proof. unfold tracked, V, proc. by rewrite Hpc1, Hq1, !(right_id_L [] (++)). Qed.
  Lemma V_nodup : NoDup V.
  Proof. rewrite <- V_tracked. apply HC. Qed.
  Lemma V_reach v : v ∈ V → reach P m0 v.
  Proof. rewrite <- V_tracked. apply HC. Qed.
  Lemma V_alloc v : v ∈ V → alloc m0 v.
  Proof. intros Hv. by apply (pp_reach _ _ _ Hpre), V_reach. Qed.
  Lemma V_tc v : v ∈ V → tc (t_m s1) v = N.of_nat (cnt P m0 V v).
  Proof.
    intros Hv. rewrite <- V_tracked in Hv. rewrite (ci_tc _ _ _ _ _ _ HC v Hv), occ_nil.
    by rewrite Nat.add_0_r.
  Qed.
  Lemma V_closed p c : p ∈ V → c ∈ kids P m0 p → c ∈ V.
  Proof.
    intros Hp Hc. destruct (decide (c ∈ V)) as [|Hn]; [done|]. exfalso.
    rewrite <- V_tracked in Hn. destruct (ci_un _ _ _ _ _ _ HC c Hn) as [Hz _].
    assert (Hpos : (0 < cnt P m0 (proc s1) c)%nat); [|lia].
    apply elem_of_list_split in Hp as (l1 & l2 & Hp). fold V. rewrite Hp, cnt_app, cnt_cons.
    apply occ_pos in Hc. lia.
  Qed.

  Record RInv (busy : list id) (s : tstate) : Prop := {
    ri_frame : mframe K m0 (t_m s);
    ri_nobad : nobad m0 (t_m s);
    ri_pc : pc (t_m s) = [];
    ri_size : pc_size (t_m s) = 0%N;
    ri_hdr : ∀ v, hdr_of (t_m s) v = set_mark (mk (t_m s) v) (hdr_of (t_m s1) v);
    ri_nodup : NoDup (lists s);
    ri_rootsub : ∀ v, v ∈ t_root s → v ∈ t_root s1;
    ri_nonsub : ∀ v, v ∈ t_non s ++ t_q s → v ∈ t_non s1;
    ri_il : ∀ v, alloc m0 v → mk (t_m s) v = IL ↔ v ∈ t_root s ++ t_non s;
    ri_iq : ∀ v, alloc m0 v → mk (t_m s) v = IQ ↔ v ∈ t_q s;
    ri_nopc : ∀ v, alloc m0 v → mk (t_m s) v ≠ PC;
    ri_busy : ∀ v, v ∈ busy → v ∈ V ∧ v ∉ lists s;
    ri_closed : ∀ p c, p ∈ V → p ∉ lists s → p ∉ busy → c ∈ kids P m0 p → c ∉ t_non s;
  }.

  Lemma lists_sub busy s v : RInv busy s → v ∈ lists s → v ∈ V.
  Proof.
    intros HI. unfold lists, V, proc. rewrite !elem_of_app. intros [H|H].
    - left. by apply (ri_rootsub _ _ HI).
    - right. apply (ri_nonsub _ _ HI). by apply elem_of_app.
  Qed.

  Lemma RInv_init : RInv [] s1.
  Proof.
    pose proof HC as [Hfr Hnb Hsuf Hsz Hnd Hre Hil Hiq Hpc Htc Hun Hnon Hroot].
    split; try done.
    - by rewrite Hsz, Hpc1.
    - intros v. by destruct (hdr_of (t_m s1) v).
    - unfold lists. rewrite Hq1, (right_id_L [] (++)). apply V_nodup.
    - intros v. by rewrite Hq1, (right_id_L [] (++)).
    - intros v Hv. rewrite (Hiq v Hv), Hq1. done.
    - intros v Hv. rewrite (Hpc v Hv), Hpc1. apply not_elem_of_nil.
    - intros v Hv. by apply elem_of_nil in Hv.
    - intros p c Hp Hn. exfalso. apply Hn. unfold lists. by rewrite Hq1, (right_id_L [] (++)).
  Qed.

  Lemma RInv_transport busy s m' :
    RInv busy s → heap m' = heap (t_m s) → pc m' = pc (t_m s) →
    pc_size m' = pc_size (t_m s) → mframe K m0 m' →
    (∀ b o, EBad b o ∈ log m' → EBad b o ∈ log (t_m s)) →
    RInv busy (TState m' (t_root s) (t_non s) (t_q s)).
  Proof.
    intros [Hfr Hnb Hpc Hsz Hh Hnd Hrs Hns Hil Hiq Hnp Hb Hcl] Hheap Hp Hs Hfr' Hlog.
    assert (Hhd : ∀ v, hdr_of m' v = hdr_of (t_m s) v) by (intros; by apply hdr_of_heap).
    split; unfold lists, nobad in *; cbn [t_m t_root t_non t_q] in *; rewrite ?Hp, ?Hs; try done.
    - intros b o Hbad. by apply Hnb, Hlog.
    - intros v. rewrite !Hhd. apply Hh.
    - intros v Hv. rewrite Hhd. by apply Hil.
    - intros v Hv. rewrite Hhd. by apply Hiq.
    - intros v Hv. rewrite Hhd. by apply Hnp.
  Qed.

  (** one reported child in the root-tracing phase *)
  Lemma visit_root_inv busy s c :
    RInv busy s → c ∈ V →
    RInv busy (visit_root s c) ∧ c ∉ t_non (visit_root s c) ∧
    (∀ v, v ∈ t_non (visit_root s c) → v ∈ t_non s) ∧
    (∀ v, v ∈ lists (visit_root s c) ↔ v ∈ lists s) ∧
    length (lists (visit_root s c)) = length (lists s).
  Proof.
    intros HI Hc. pose proof HI as [Hfr Hnb Hpc Hsz Hh Hnd Hrs Hns Hil Hiq Hnp Hb Hcl].
    pose proof (V_alloc c Hc) as Hal.
    pose proof (visit_root_frame K s c) as Hfr1.
    assert (Hfr' : mframe K m0 (t_m (visit_root s c))) by (by eapply mframe_trans).
    clear Hfr1. revert Hfr'.
    destruct (proj2 (mframe_alloc K _ _ c Hfr) Hal) as (x & Hx & Hbox).
    pose proof (hdr_of_get _ _ _ Hx) as Hhx.
    unfold visit_root. rewrite Hx, Hbox, <- Hhx. unfold is_in_list.
    assert (Hrc1 : rc (t_m s) c = rc (t_m s1) c) by (rewrite (Hh c); done).
    assert (Htc1 : tc (t_m s) c = tc (t_m s1) c) by (rewrite (Hh c); done).
    assert (Hstay : c ∉ t_non s →
      RInv busy s ∧ c ∉ t_non s ∧ (∀ v, v ∈ t_non s → v ∈ t_non s) ∧
      (∀ v, v ∈ lists s ↔ v ∈ lists s) ∧ length (lists s) = length (lists s)) by done.
    destruct (mk (t_m s) c) eqn:Hmk; cbn [mark_eqb andb].
    - intros _. destruct s. apply Hstay. intros Hn.
      assert (mk (t_m {| t_m := t_m; t_root := t_root; t_non := t_non; t_q := t_q |}) c = IL)
        by (apply Hil; [done|]; apply elem_of_app; by right). congruence.
    - intros _. destruct s. apply Hstay. intros Hn.
      assert (mk (t_m {| t_m := t_m; t_root := t_root; t_non := t_non; t_q := t_q |}) c = IL)
        by (apply Hil; [done|]; apply elem_of_app; by right). congruence.
    - destruct (N.eqb_spec (rc (t_m s) c) (tc (t_m s) c)) as [Heq|Hne].
      + (* rescued: non_root_list -> queue *)
        assert (Hcn : c ∈ t_non s).
        { apply (Hil c Hal) in Hmk. apply elem_of_app in Hmk as [Hr|?]; [|done]. exfalso.
          apply Hrs in Hr. apply (ci_root _ _ _ _ _ _ HC) in Hr. congruence. }
        assert (Hndn : NoDup (t_non s)).
        { unfold lists in Hnd. apply NoDup_app in Hnd as (_ & _ & Hnd).
          by apply NoDup_app in Hnd as (? & _ & _). }
        assert (Hperm : t_root s ++ remove_id c (t_non s) ++ t_q s ++ [c] ≡ₚ lists s).
        { unfold lists. f_equiv. rewrite (remove_id_perm c (t_non s) Hcn Hndn) at 2.
          cbn. rewrite (assoc_L (++)), <- Permutation_cons_append. done. }
        assert (Hsome : is_Some (get (t_m s) c)) by eauto.
        destruct (upd1_uhdr c (set_mark IQ) (t_m s) Hsome) as [Uh Uo Upc Usz Ulog].
        set (m' := uhdr c (set_mark IQ) (t_m s)) in *.
        intros Hfr'. cbn [t_m] in Hfr'. unfold lists at 1 2 3. cbn [t_m t_root t_non t_q].
        split; [|split; [|split; [|split]]].
        * split; unfold lists, nobad in *; cbn [t_m t_root t_non t_q]; rewrite ?Upc, ?Usz, ?Ulog;
            try done.
          -- intros v. destruct (decide (v = c)) as [->|Hn].
             ++ rewrite Uh. rewrite (Hh c). done.
             ++ rewrite !Uo by done. apply Hh.
          -- by rewrite Hperm.
          -- intros v Hv. apply Hns. rewrite !elem_of_app, remove_id_elem, elem_of_list_singleton in Hv.
             rewrite elem_of_app. destruct Hv as [[? _]|[?| ->]]; tauto.
          -- intros v Hv. destruct (decide (v = c)) as [->|Hn].
             ++ rewrite Uh. cbn. split; [done|]. rewrite elem_of_app, remove_id_elem.
                intros [Hr|[_ ?]]; [|done]. exfalso.
                apply Hrs in Hr. apply (ci_root _ _ _ _ _ _ HC) in Hr. congruence.
             ++ rewrite Uo by done. rewrite (Hil v Hv), !elem_of_app, remove_id_elem. tauto.
          -- intros v Hv. destruct (decide (v = c)) as [->|Hn].
             ++ rewrite Uh. cbn. rewrite elem_of_app, elem_of_list_singleton. tauto.
             ++ rewrite Uo by done. rewrite (Hiq v Hv), elem_of_app, elem_of_list_singleton. tauto.
          -- intros v Hv. destruct (decide (v = c)) as [->|Hn].
             ++ by rewrite Uh.
             ++ rewrite Uo by done. by apply Hnp.
          -- intros v Hv. destruct (Hb v Hv) as [? Hl]. split; [done|]. by rewrite Hperm.
          -- intros p c' Hp Hl Hbz Hk. rewrite Hperm in Hl. rewrite remove_id_elem.
             intros [? _]. by eapply Hcl.
        * rewrite remove_id_elem. tauto.
        * intros v. rewrite remove_id_elem. tauto.
        * intros v. by rewrite Hperm.
        * by rewrite Hperm.
      + intros _. destruct s. apply Hstay. intros Hn. apply Hne.
        cbn [Machine.t_m Machine.t_non] in *.
        assert (Hn1 : c ∈ Machine.t_non s1) by (apply Hns, elem_of_app; by left).
        apply (ci_non _ _ _ _ _ _ HC) in Hn1. congruence.
    - intros _. destruct s. apply Hstay. intros Hn.
      assert (mk (t_m {| t_m := t_m; t_root := t_root; t_non := t_non; t_q := t_q |}) c = IL)
        by (apply Hil; [done|]; apply elem_of_app; by right). congruence.
  Qed.
End Roots.
