(** * PassRoots: the invariant of the root-tracing phase ([roots] = trace_roots). *)
From Coq Require Import NArith Bool List Lia.
From stdpp Require Import base list option numbers list_numbers.
From RecordUpdate Require Import RecordSet.
From RC Require Import Hdr Machine Pass PassCount.
Import ListNotations RecordSetNotations.

Section Roots.
  Context (K : conf) (P : prog) (m0 : machine) (ext : id → N).
  Hypothesis Hpre : PassPre P m0 ext.
  (** the state at the end of the counting phase *)
  Context (s1 : tstate).
  Hypothesis HC : CInv K P m0 [] [] s1.
  Hypothesis Hpc1 : pc (t_m s1) = [].
  Hypothesis Hq1 : t_q s1 = [].

  Notation mk m v := (h_mark (hdr_of m v)).
  Notation tc m v := (h_tc (hdr_of m v)).
  Notation rc m v := (h_rc (hdr_of m v)).

  (** the visited objects *)
  Definition V : list id := proc s1.
  Definition lists (s : tstate) : list id := t_root s ++ t_non s ++ t_q s.

  Lemma V_tracked : tracked s1 [] = V.
  Proof. unfold tracked, V, proc. by rewrite Hpc1, Hq1, !(right_id_L [] (++)). Qed.
  Lemma V_nodup : NoDup V.
  Proof. rewrite <- V_tracked. apply HC. Qed.
  Lemma V_reach v : v ∈ V → reach P m0 v.
  Proof. rewrite <- V_tracked. apply HC. Qed.
  Lemma V_alloc v : v ∈ V → alloc m0 v.
  Proof. intros Hv. by apply (pp_reach _ _ _ Hpre), V_reach. Qed.
  Lemma V_tc v : v ∈ V → tc (t_m s1) v = N.of_nat (cnt P m0 V v).
  Proof.
    intros Hv. rewrite <- V_tracked in Hv. rewrite (ci_tc _ _ _ _ _ _ HC v Hv), occ_nil.
    by rewrite Nat.add_0_r.
  Qed.
  Lemma V_closed p c : p ∈ V → c ∈ kids P m0 p → c ∈ V.
  Proof.
    intros Hp Hc. destruct (decide (c ∈ V)) as [|Hn]; [done|]. exfalso.
    rewrite <- V_tracked in Hn. destruct (ci_un _ _ _ _ _ _ HC c Hn) as [Hz _].
    assert (Hpos : (0 < cnt P m0 (proc s1) c)%nat); [|lia].
    apply elem_of_list_split in Hp as (l1 & l2 & Hp). fold V. rewrite Hp, cnt_app, cnt_cons.
    apply occ_pos in Hc. lia.
  Qed.

  Record RInv (busy : list id) (s : tstate) : Prop := {
    ri_frame : mframe K m0 (t_m s);
    ri_nobad : nobad m0 (t_m s);
    ri_pc : pc (t_m s) = [];
    ri_size : pc_size (t_m s) = 0%N;
    ri_hdr : ∀ v, hdr_of (t_m s) v = set_mark (mk (t_m s) v) (hdr_of (t_m s1) v);
    ri_nodup : NoDup (lists s);
    ri_rootsub : ∀ v, v ∈ t_root s → v ∈ t_root s1;
    ri_nonsub : ∀ v, v ∈ t_non s ++ t_q s → v ∈ t_non s1;
    ri_il : ∀ v, alloc m0 v → mk (t_m s) v = IL ↔ v ∈ t_root s ++ t_non s;
    ri_iq : ∀ v, alloc m0 v → mk (t_m s) v = IQ ↔ v ∈ t_q s;
    ri_nopc : ∀ v, alloc m0 v → mk (t_m s) v ≠ PC;
    ri_busy : ∀ v, v ∈ busy → v ∈ V ∧ v ∉ lists s;
    ri_closed : ∀ p c, p ∈ V → p ∉ lists s → p ∉ busy → c ∈ kids P m0 p → c ∉ t_non s;
    (* whatever left the non-root list is reachable from a root *)
    ri_resc : ∀ v, v ∈ t_non s1 → v ∉ t_non s → ∃ u, u ∈ t_root s1 ∧ treach P m0 u v;
    (* unvisited objects are not touched *)
    ri_out : ∀ v, v ∉ V → hdr_of (t_m s) v = hdr_of (t_m s1) v;
  }.

  Lemma lists_sub busy s v : RInv busy s → v ∈ lists s → v ∈ V.
  Proof.
    intros HI. unfold lists, V, proc. rewrite !elem_of_app. intros [H|H].
    - left. by apply (ri_rootsub _ _ HI).
    - right. apply (ri_nonsub _ _ HI). by apply elem_of_app.
  Qed.

  Lemma RInv_init : RInv [] s1.
  Proof.
    pose proof HC as [Hfr Hnb Hsuf Hsz Hnd Hre Hil Hiq Hpc Htc Hun Hnon Hroot].
    split; try done.
    - by rewrite Hsz, Hpc1.
    - intros v. by destruct (hdr_of (t_m s1) v).
    - unfold lists. rewrite Hq1, (right_id_L [] (++)). apply V_nodup.
    - intros v. by rewrite Hq1, (right_id_L [] (++)).
    - intros v Hv. rewrite (Hiq v Hv), Hq1. done.
    - intros v Hv. rewrite (Hpc v Hv), Hpc1. apply not_elem_of_nil.
    - intros v Hv. by apply elem_of_nil in Hv.
    - intros p c Hp Hn. exfalso. apply Hn. unfold lists. by rewrite Hq1, (right_id_L [] (++)).
  Qed.

  Lemma RInv_transport busy s m' :
    RInv busy s → heap m' = heap (t_m s) → pc m' = pc (t_m s) →
    pc_size m' = pc_size (t_m s) → mframe K m0 m' →
    (∀ b o, EBad b o ∈ log m' → EBad b o ∈ log (t_m s)) →
    RInv busy (TState m' (t_root s) (t_non s) (t_q s)).
  Proof.
    intros [Hfr Hnb Hpc Hsz Hh Hnd Hrs Hns Hil Hiq Hnp Hb Hcl Hre Hout] Hheap Hp Hs Hfr' Hlog.
    assert (Hhd : ∀ v, hdr_of m' v = hdr_of (t_m s) v) by (intros; by apply hdr_of_heap).
    split; unfold lists, nobad in *; cbn [t_m t_root t_non t_q] in *; rewrite ?Hp, ?Hs; try done.
    - intros b o Hbad. by apply Hnb, Hlog.
    - intros v. rewrite !Hhd. apply Hh.
    - intros v Hv. rewrite Hhd. by apply Hil.
    - intros v Hv. rewrite Hhd. by apply Hiq.
    - intros v Hv. rewrite Hhd. by apply Hnp.
    - intros v Hv. rewrite Hhd. by apply Hout.
  Qed.

  (** one reported child in the root-tracing phase *)
  Lemma visit_root_inv busy s c :
    RInv busy s → c ∈ V → (∃ p, p ∈ busy ∧ c ∈ kids P m0 p) →
    RInv busy (visit_root s c) ∧ c ∉ t_non (visit_root s c) ∧
    (∀ v, v ∈ t_non (visit_root s c) → v ∈ t_non s) ∧
    (∀ v, v ∈ lists (visit_root s c) ↔ v ∈ lists s) ∧
    length (lists (visit_root s c)) = length (lists s).
  Proof.
    intros HI Hc Hkid. pose proof HI as [Hfr Hnb Hpc Hsz Hh Hnd Hrs Hns Hil Hiq Hnp Hb Hcl Hre Hout].
    pose proof (V_alloc c Hc) as Hal.
    pose proof (visit_root_frame K s c) as Hfr1.
    assert (Hfr' : mframe K m0 (t_m (visit_root s c))) by (by eapply mframe_trans).
    clear Hfr1. revert Hfr'.
    destruct (proj2 (mframe_alloc K _ _ c Hfr) Hal) as (x & Hx & Hbox).
    pose proof (hdr_of_get _ _ _ Hx) as Hhx.
    unfold visit_root. rewrite Hx, Hbox, <- Hhx. unfold is_in_list.
    assert (Hrc1 : rc (t_m s) c = rc (t_m s1) c) by (rewrite (Hh c); done).
    assert (Htc1 : tc (t_m s) c = tc (t_m s1) c) by (rewrite (Hh c); done).
    assert (Hstay : c ∉ t_non s →
      RInv busy s ∧ c ∉ t_non s ∧ (∀ v, v ∈ t_non s → v ∈ t_non s) ∧
      (∀ v, v ∈ lists s ↔ v ∈ lists s) ∧ length (lists s) = length (lists s)) by done.
    assert (Heta : TState (t_m s) (t_root s) (t_non s) (t_q s) = s) by (by destruct s).
    destruct (mk (t_m s) c) eqn:Hmk; cbn [mark_eqb andb].
    - rewrite Heta. intros _. apply Hstay. intros Hn.
      assert (mk (t_m s) c = IL) by (apply Hil; [done|]; apply elem_of_app; by right).
      congruence.
    - rewrite Heta. intros _. apply Hstay. intros Hn.
      assert (mk (t_m s) c = IL) by (apply Hil; [done|]; apply elem_of_app; by right).
      congruence.
    - destruct (N.eqb_spec (rc (t_m s) c) (tc (t_m s) c)) as [Heq|Hne].
      + (* rescued: non_root_list -> queue *)
        assert (Hcn : c ∈ t_non s).
        { apply (Hil c Hal) in Hmk. apply elem_of_app in Hmk as [Hr|?]; [|done]. exfalso.
          apply Hrs in Hr. apply (ci_root _ _ _ _ _ _ HC) in Hr. congruence. }
        assert (Hndn : NoDup (t_non s)).
        { unfold lists in Hnd. apply NoDup_app in Hnd as (_ & _ & Hnd).
          by apply NoDup_app in Hnd as (? & _ & _). }
        assert (Hperm : t_root s ++ remove_id c (t_non s) ++ t_q s ++ [c] ≡ₚ lists s).
        { unfold lists. f_equiv. rewrite (remove_id_perm c (t_non s) Hcn Hndn) at 2.
          cbn. rewrite (assoc_L (++)), <- Permutation_cons_append. done. }
        assert (Hsome : is_Some (get (t_m s) c)) by eauto.
        destruct (upd1_uhdr c (set_mark IQ) (t_m s) Hsome) as [Uh Uo Upc Usz Ulog].
        set (m' := uhdr c (set_mark IQ) (t_m s)) in *.
        intros Hfr'. cbn [t_m] in Hfr'. unfold lists at 1 2 3. cbn [t_m t_root t_non t_q].
        split; [|split; [|split; [|split]]].
        * split; unfold lists, nobad in *; cbn [t_m t_root t_non t_q]; rewrite ?Upc, ?Usz, ?Ulog;
            try done.
          -- intros v. destruct (decide (v = c)) as [->|Hn].
             ++ rewrite Uh. rewrite (Hh c). done.
             ++ rewrite !Uo by done. apply Hh.
          -- by rewrite Hperm.
          -- intros v Hv. apply Hns. rewrite !elem_of_app, remove_id_elem, elem_of_list_singleton in Hv.
             rewrite elem_of_app. destruct Hv as [[? _]|[?| ->]]; tauto.
          -- intros v Hv. destruct (decide (v = c)) as [->|Hn].
             ++ rewrite Uh. cbn. split; [done|]. rewrite elem_of_app, remove_id_elem.
                intros [Hr|[_ ?]]; [|done]. exfalso.
                apply Hrs in Hr. apply (ci_root _ _ _ _ _ _ HC) in Hr. congruence.
             ++ rewrite Uo by done. rewrite (Hil v Hv), !elem_of_app, remove_id_elem. tauto.
          -- intros v Hv. destruct (decide (v = c)) as [->|Hn].
             ++ rewrite Uh. cbn. rewrite elem_of_app, elem_of_list_singleton. tauto.
             ++ rewrite Uo by done. rewrite (Hiq v Hv), elem_of_app, elem_of_list_singleton. tauto.
          -- intros v Hv. destruct (decide (v = c)) as [->|Hn].
             ++ by rewrite Uh.
             ++ rewrite Uo by done. by apply Hnp.
          -- intros v Hv. destruct (Hb v Hv) as [? Hl]. split; [done|]. by rewrite Hperm.
          -- intros p c' Hp Hl Hbz Hk. rewrite Hperm in Hl. rewrite remove_id_elem.
             intros [? _]. by eapply Hcl.
          -- intros v Hv1 Hvn. destruct (decide (v = c)) as [->|Hn].
             ++ destruct Hkid as (p & Hpb & Hck). destruct (Hb p Hpb) as [HpV Hpl].
                unfold V, proc in HpV. apply elem_of_app in HpV as [Hpr|Hpn].
                ** exists p. split; [done|]. eapply treach_step; [apply treach_refl|done].
                ** destruct (Hre p Hpn) as (u & Hu & Ht).
                   { intros Hin. apply Hpl. rewrite !elem_of_app. tauto. }
                   exists u. split; [done|]. by eapply treach_step.
             ++ apply Hre; [done|]. intros Hin. apply Hvn. by rewrite remove_id_elem.
          -- intros v Hv. assert (v ≠ c) by (intros ->; done). rewrite Uo by done. by apply Hout.
        * rewrite remove_id_elem. tauto.
        * intros v. rewrite remove_id_elem. tauto.
        * intros v. by rewrite Hperm.
        * by rewrite Hperm.
      + rewrite Heta. intros _. apply Hstay. intros Hn. apply Hne.
        assert (Hn1 : c ∈ t_non s1) by (apply Hns, elem_of_app; by left).
        apply (ci_non _ _ _ _ _ _ HC) in Hn1. congruence.
    - rewrite Heta. intros _. apply Hstay. intros Hn.
      assert (mk (t_m s) c = IL) by (apply Hil; [done|]; apply elem_of_app; by right).
      congruence.
  Qed.

  Lemma fold_visit_root_inv p l done s :
    RInv [p] s → (∀ c, c ∈ l → c ∈ V ∧ c ∈ kids P m0 p) → (∀ c, c ∈ done → c ∉ t_non s) →
    RInv [p] (fold_left visit_root l s) ∧
    (∀ c, c ∈ done ++ l → c ∉ t_non (fold_left visit_root l s)) ∧
    (∀ v, v ∈ lists (fold_left visit_root l s) ↔ v ∈ lists s) ∧
    length (lists (fold_left visit_root l s)) = length (lists s).
  Proof.
    revert done s. induction l as [|c l IH]; intros done s HI HV Hd.
    - cbn. rewrite (right_id_L [] (++)). done.
    - cbn [fold_left].
      destruct (HV c ltac:(left)) as [HcV Hck].
      destruct (visit_root_inv [p] s c HI HcV) as (HI' & Hc & Hsub & Hl & Hlen).
      { exists p. split; [by left|done]. }
      destruct (IH (done ++ [c]) (visit_root s c) HI') as (HI2 & Hd2 & Hl2 & Hlen2).
      + intros c' Hc'. apply HV. by right.
      + intros c' [Hc'| ->%elem_of_list_singleton]%elem_of_app; [|done].
        intros Hn. by apply (Hd c' Hc'), Hsub.
      + split; [done|]. split; [|split].
        * intros c'. rewrite <- (assoc_L (++)) in Hd2. apply Hd2.
        * intros v. by rewrite Hl2.
        * by rewrite Hlen2.
  Qed.

  Lemma RInv_unbusy p s :
    RInv [p] s → (∀ c, c ∈ kids P m0 p → c ∉ t_non s) → RInv [] s.
  Proof.
    intros [Hfr Hnb Hpc Hsz Hh Hnd Hrs Hns Hil Hiq Hnp Hb Hcl Hre Hout] Hk. split; try done.
    - intros v Hv. by apply elem_of_nil in Hv.
    - intros p' c Hp Hl _ Hc. destruct (decide (p' = p)) as [->|Hne]; [by apply Hk|].
      eapply Hcl; try done. by intros ->%elem_of_list_singleton.
  Qed.

  Lemma pop_root_inv s p root' q' :
    RInv [] s →
    (t_root s = p :: root' ∧ q' = t_q s) ∨ (t_root s = [] ∧ root' = [] ∧ t_q s = p :: q') →
    RInv [p] (TState (uhdr p (set_mark NM) (t_m s)) root' (t_non s) q') ∧
    length (lists s) = S (length (root' ++ t_non s ++ q')).
  Proof.
    intros HI Hcase. pose proof HI as [Hfr Hnb Hpc Hsz Hh Hnd Hrs Hns Hil Hiq Hnp Hb Hcl Hre Hout].
    assert (Hperm : lists s ≡ₚ p :: (root' ++ t_non s ++ q')).
    { unfold lists. destruct Hcase as [(-> & ->)|(-> & -> & ->)]; [done|].
      cbn. by rewrite <- Permutation_middle. }
    assert (H1 : ∀ v, v ∈ root' → v ∈ t_root s).
    { intros v. destruct Hcase as [(Hr & Hq)|(Hr & Hr' & Hq)]; rewrite Hr; [by right|].
      by rewrite Hr'. }
    assert (H2 : ∀ v, v ∈ q' → v ∈ t_q s).
    { intros v. destruct Hcase as [(Hr & Hq)|(Hr & Hr' & Hq)]; rewrite Hq; [done|by right]. }
    assert (H3 : ∀ v, v ≠ p → v ∈ t_root s → v ∈ root').
    { intros v Hn. destruct Hcase as [(Hr & Hq)|(Hr & Hr' & Hq)]; rewrite Hr.
      - by intros [?|?]%elem_of_cons. - by intros ?%elem_of_nil. }
    assert (H4 : ∀ v, v ≠ p → v ∈ t_q s → v ∈ q').
    { intros v Hn. destruct Hcase as [(Hr & Hq)|(Hr & Hr' & Hq)]; rewrite Hq; [done|].
      by intros [?|?]%elem_of_cons. }
    assert (Hpl : p ∈ lists s) by (rewrite Hperm; left).
    assert (HpV : p ∈ V) by (by eapply lists_sub).
    pose proof (V_alloc p HpV) as Hal.
    assert (Hnd' : NoDup (p :: (root' ++ t_non s ++ q'))) by (by rewrite <- Hperm).
    apply NoDup_cons in Hnd' as [Hpn Hnd'].
    assert (Hsome : is_Some (get (t_m s) p)).
    { apply alloc_get. by apply (mframe_alloc K _ _ p Hfr). }
    destruct (upd1_uhdr p (set_mark NM) (t_m s) Hsome) as [Uh Uo Upc Usz Ulog].
    set (m' := uhdr p (set_mark NM) (t_m s)) in *.
    split; [|by rewrite Hperm].
    split; unfold lists, nobad in *; cbn [t_m t_root t_non t_q]; rewrite ?Upc, ?Usz, ?Ulog;
      try done.
    - eapply mframe_trans; [done|]. apply mframe_uhdr_all, hdr_sim_set_mark.
    - intros v. destruct (decide (v = p)) as [->|Hn].
      + rewrite Uh. rewrite (Hh p). done.
      + rewrite !Uo by done. apply Hh.
    - intros v Hv. by apply Hrs, H1.
    - intros v Hv. apply Hns. rewrite elem_of_app in *. destruct Hv as [?|?]; [by left|].
      right. by apply H2.
    - intros v Hv. destruct (decide (v = p)) as [->|Hn].
      + rewrite Uh. cbn. split; [done|]. intros Hin. exfalso. apply Hpn.
        rewrite !elem_of_app in *. tauto.
      + rewrite Uo by done. rewrite (Hil v Hv). rewrite !elem_of_app.
        specialize (H1 v). specialize (H3 v Hn). tauto.
    - intros v Hv. destruct (decide (v = p)) as [->|Hn].
      + rewrite Uh. cbn. split; [done|]. intros Hin. exfalso. apply Hpn.
        rewrite !elem_of_app in *. tauto.
      + rewrite Uo by done. rewrite (Hiq v Hv).
        specialize (H2 v). specialize (H4 v Hn). tauto.
    - intros v Hv. destruct (decide (v = p)) as [->|Hn].
      + by rewrite Uh.
      + rewrite Uo by done. by apply Hnp.
    - intros v ->%elem_of_list_singleton. done.
    - intros p' c Hp Hl Hbz Hk. apply (Hcl p' c); try done.
      + rewrite Hperm. rewrite elem_of_cons. intros [->|?]; [|done]. apply Hbz. by left.
      + apply not_elem_of_nil.
    - intros v Hv. assert (v ≠ p) by (intros ->; done). rewrite Uo by done. by apply Hout.
  Qed.

  Lemma roots_panic s :
    RInv [] s ∨ (∃ p, RInv [p] s) → PanicPost K P m0 (unmark_all (lists s) (t_m s)).
  Proof.
    intros HI'.
    assert (HI : ∃ b, RInv b s) by (destruct HI' as [?|[? ?]]; eauto). clear HI'.
    destruct HI as [b [Hfr Hnb Hpc Hsz Hh Hnd Hrs Hns Hil Hiq Hnp Hb Hcl Hre Hout]].
    destruct (fold_uhdr_same (set_mark NM) (lists s) (t_m s)) as (Hpc3 & Hsz3 & Hlog3).
    fold (unmark_all (lists s) (t_m s)) in *. set (m3 := unmark_all _ _) in *.
    assert (Hfr3 : mframe K m0 m3) by (eapply mframe_trans; [done|apply unmark_all_frame]).
    assert (Hm3 : ∀ v, alloc m0 v →
              hdr_of m3 v = if decide (v ∈ lists s) then set_mark NM (hdr_of (t_m s) v)
                            else hdr_of (t_m s) v).
    { intros v Hv. apply hdr_of_fold_uhdr; [done|]. apply alloc_get.
      by apply (mframe_alloc K _ _ v Hfr). }
    assert (Hnm : ∀ v, alloc m0 v → mk m3 v = NM).
    { intros v Hv. rewrite (Hm3 v Hv). destruct (decide (v ∈ lists s)) as [|Hn]; [done|].
      destruct (mk (t_m s) v) eqn:Hmk; [done| | |].
      - by apply Hnp in Hmk.
      - apply (Hil v Hv) in Hmk. exfalso. apply Hn. unfold lists. rewrite !elem_of_app in *. tauto.
      - apply (Hiq v Hv) in Hmk. exfalso. apply Hn. unfold lists. rewrite !elem_of_app. tauto. }
    split; [done|]. split; [unfold nobad; rewrite Hlog3; apply Hnb|].
    split; [rewrite Hpc3, Hpc; apply suffix_nil|]. split; [by rewrite Hsz3, Hpc3, Hsz, Hpc|].
    split.
    - intros v Hv. rewrite (Hnm v Hv), Hpc3, Hpc. split; [by left|]. split; [done|].
      by intros ?%elem_of_nil.
    - split; [intros v; rewrite Hpc3, Hpc; by intros ?%elem_of_nil|].
      intros v.
      destruct (fold_uhdr_tc (set_mark NM) (lists s) (t_m s) v) as [E3 T3]; [done|].
      fold (unmark_all (lists s) (t_m s)) in E3, T3. fold m3 in E3, T3.
      destruct (decide (v ∈ V)) as [Hv|Hv].
      + right. split; [by apply V_reach|]. etrans; [exact T3|]. rewrite (Hh v). cbn [h_tc set_mark].
        eapply (CInv_tc_le K P m0 ext Hpre [] s1 v HC). by rewrite V_tracked.
      + left. rewrite E3, (Hout v Hv).
        * apply (ci_un _ _ _ _ _ _ HC). by rewrite V_tracked.
        * intros Hl. apply Hv. apply (lists_sub b s v); [|done].
          by split.
  Qed.

  Lemma process_root_inv s p :
    RInv [p] s →
    match process_root K P s p with
    | (s', false) => RInv [] s' ∧ length (lists s') = length (lists s)
    | (s', true) => PanicPost K P m0 (t_m s')
    end.
  Proof.
    intros HI. unfold process_root.
    pose proof (trace_event_same K p (t_m s)) as (Hh & Hp & Hs & Hl).
    pose proof (trace_event_frame K p (t_m s)) as Hf.
    destruct (trace_event K p (t_m s)) as [m1 boom]. cbn [fst] in *.
    assert (Hfr1 : mframe K m0 m1) by (eapply mframe_trans; [apply HI|done]).
    pose proof (RInv_transport _ _ m1 HI Hh Hp Hs Hfr1 Hl) as HI1.
    destruct boom.
    - cbn [t_m]. apply (roots_panic (TState m1 _ _ _)). right. eauto.
    - destruct (ri_busy _ _ HI1 p ltac:(left)) as [HpV Hpl].
      assert (Hlm : live_or_map m1 p).
      { apply (mframe_live_or_map K _ _ p Hfr1). by apply (pp_reach _ _ _ Hpre), V_reach. }
      rewrite (traced_children_ok _ _ _ Hlm), (mframe_kids K P _ _ p Hfr1).
      destruct (fold_visit_root_inv p (kids P m0 p) [] _ HI1) as (HI2 & Hd & Hmem & Hlen).
      + intros c Hc. split; [by eapply V_closed|done].
      + intros c Hc. by apply elem_of_nil in Hc.
      + split; [|done]. eapply RInv_unbusy; [done|]. intros c Hc. by apply Hd.
  Qed.

  Lemma roots_inv fuel s :
    RInv [] s → (length (lists s) < fuel)%nat →
    ∃ s' b, roots K P fuel s = Some (s', b) ∧
      if (b : bool) then PanicPost K P m0 (t_m s')
      else RInv [] s' ∧ t_root s' = [] ∧ t_q s' = [].
  Proof.
    revert s. induction fuel as [|f IH]; intros s HI Hfuel; [lia|]. cbn [roots].
    destruct (t_root s) as [|p rest] eqn:Hr.
    - destruct (t_q s) as [|p q'] eqn:Hq.
      + exists s, false. done.
      + destruct (pop_root_inv s p [] q' HI) as [HI1 Hlen]; [right; done|].
        pose proof (process_root_inv _ p HI1) as Hpr.
        destruct (process_root K P _ p) as [s1' boom]. destruct boom.
        * exists s1', true. done.
        * destruct Hpr as [HI2 Hlen2]. apply IH; [done|].
          unfold lists in *. cbn [t_root t_non t_q] in *. lia.
    - destruct (pop_root_inv s p rest (t_q s) HI) as [HI1 Hlen]; [left; done|].
      pose proof (process_root_inv _ p HI1) as Hpr.
      destruct (process_root K P _ p) as [s1' boom]. destruct boom.
      + exists s1', true. done.
      + destruct Hpr as [HI2 Hlen2]. apply IH; [done|].
        unfold lists in *. cbn [t_root t_non t_q] in *. lia.
  Qed.

  Lemma lists_bound : (length (lists s1) ≤ length (heap m0))%nat.
  Proof.
    unfold lists. rewrite Hq1, (right_id_L [] (++)). fold (proc s1). fold V.
    apply nodup_bound; [apply V_nodup|]. intros v Hv. by apply alloc_lt, V_alloc.
  Qed.
End Roots.
