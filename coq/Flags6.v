(** * Flags6: a panic is never swallowed below the top level.

    Per activation, in open-recursion form: if an activation returns [ONormal], then every
    recursive sub-activation it reached returned [ONormal] too.  "Reached" is expressed
    extensionally: the result of a normally-returning activation does not depend on what [rec]
    does at the points where [rec] returns a panic / abort / out-of-fuel.  (Had the activation
    reached such a point and continued, its result - whose log extends the log of the
    sub-activation, Flags3 - would change with the machine returned there.) *)
From Coq Require Import NArith Bool List Lia.
From stdpp Require Import base list option.
From RecordUpdate Require Import RecordSet.
From RC Require Import Hdr Machine RunInd Flags Flags2 Flags3 Flags4.
Import ListNotations RecordSetNotations.

Definition agree_on_normal (rec rec' : call -> machine -> machine * outcome) : Prop :=
  forall k m, (rec k m).2 = ONormal -> rec' k m = rec k m.

Ltac inner_scrut_in H k :=
  match type of H with
  | context [match ?x with _ => _ end] =>
    lazymatch x with
    | context [match _ with _ => _ end] => fail
    | _ => k x
    end
  end.

Ltac simp_all := cbv beta iota zeta in *; cbn [fst snd andb negb] in *.

Section Strict.
  Context (K : conf) (P : prog).
  Context (rec rec' : call -> machine -> machine * outcome).
  Context (Hag : agree_on_normal rec rec').

  (** follow the normally-returning path of [Hn : (X rec m).2 = ONormal]: a sub-activation that
      returned normally is the same for [rec']; one that did not makes [Hn] absurd *)
  Ltac pstep Hn :=
    first
    [ discriminate Hn
    | inner_scrut_in Hn ltac:(fun x =>
        lazymatch x with
        | rec ?k ?m0 =>
          let E := fresh "E" in let m1 := fresh "m" in let r1 := fresh "r" in
          destruct (rec k m0) as [m1 r1] eqn:E; destruct r1;
          [ rewrite (Hag k m0) by (rewrite E; reflexivity); rewrite ?E | .. ]
        | unwinding ?g ?m0 =>
          let HU := fresh "HU" in let m2 := fresh "m" in let r2 := fresh "r" in
          pose proof (unwinding_not_normal g m0) as HU;
          destruct (unwinding g m0) as [m2 r2]; destruct r2; [contradiction | ..]
        | _ => destruct x eqn:?
        end) ]; simp_all.

  Ltac pfin Hn :=
    try reflexivity;
    try (exfalso; first [ eapply unwinding_not_normal; exact Hn | eapply raise_not_normal; exact Hn ]);
    try (match type of Hn with (rec ?k ?m0).2 = ONormal => rewrite (Hag k m0 Hn); reflexivity end).

  Ltac pgo Hn := simp_all; repeat pstep Hn; pfin Hn.

  Definition strict (X : (call -> machine -> machine * outcome) -> machine -> machine * outcome) :=
    forall m, (X rec m).2 = ONormal -> X rec' m = X rec m.

  Lemma p_step_script self cs : strict (fun rc => step_script rc self cs).
  Proof. intros m Hn. unfold step_script in *. pgo Hn. Qed.
  Lemma p_step_store r v : strict (fun rc => step_store rc r v).
  Proof. intros m Hn. unfold step_store in *. pgo Hn. Qed.
  Lemma p_step_drop_cc o : strict (fun rc => step_drop_cc K P rc o).
  Proof. intros m Hn. unfold step_drop_cc in *. pgo Hn. Qed.
  Lemma p_step_drop_value o : strict (fun rc => step_drop_value K P rc o).
  Proof. intros m Hn. unfold step_drop_value in *. pgo Hn. Qed.
  Lemma p_step_drop_fields o j : strict (fun rc => step_drop_fields rc o j).
  Proof. intros m Hn. unfold step_drop_fields in *. pgo Hn. Qed.
  Lemma p_step_drop_map_slots o j : strict (fun rc => step_drop_map_slots rc o j).
  Proof. intros m Hn. unfold step_drop_map_slots in *. pgo Hn. Qed.
  Lemma p_step_clean_run mo aid s : strict (fun rc => step_clean_run K P rc mo aid s).
  Proof. intros m Hn. unfold step_clean_run in *. pgo Hn. Qed.
  Lemma p_step_unbag k : strict (fun rc => step_unbag rc k).
  Proof. intros m Hn. unfold step_unbag in *. pgo Hn. Qed.
  Lemma p_step_trigger  : strict (fun rc => step_trigger K rc).
  Proof. intros m Hn. unfold step_trigger in *. pgo Hn. Qed.
  Lemma p_step_collect_cycles  : strict (fun rc => step_collect_cycles K rc).
  Proof. intros m Hn. unfold step_collect_cycles in *. pgo Hn. Qed.
  Lemma p_step_collect  : strict (fun rc => step_collect K rc).
  Proof. intros m Hn. unfold step_collect in *. pgo Hn. Qed.
  Lemma p_step_collect_loop k : strict (fun rc => step_collect_loop rc k).
  Proof. intros m Hn. unfold step_collect_loop in *. pgo Hn. Qed.
  Lemma p_step_collect_once  : strict (fun rc => step_collect_once K P rc).
  Proof. intros m Hn. unfold step_collect_once in *. pgo Hn. Qed.
  Lemma p_step_finalize_list L rest any old_f : strict (fun rc => step_finalize_list K P rc L rest any old_f).
  Proof. intros m Hn. unfold step_finalize_list in *. pgo Hn. Qed.
  Lemma p_step_drop_list L rest old_d : strict (fun rc => step_drop_list K rc L rest old_d).
  Proof. intros m Hn. unfold step_drop_list in *. pgo Hn. Qed.
  Lemma p_cmd_new self dst cls : strict (fun rc => cmd_new K P rc self dst cls).
  Proof. intros m Hn. unfold cmd_new in *. pgo Hn. Qed.
  Lemma p_cmd_clone self src dst : strict (fun rc => cmd_clone rc self src dst).
  Proof. intros m Hn. unfold cmd_clone in *. pgo Hn. Qed.
  Lemma p_cmd_drop self l : strict (fun rc => cmd_drop rc self l).
  Proof. intros m Hn. unfold cmd_drop in *. pgo Hn. Qed.
  Lemma p_cmd_move self src dst : strict (fun rc => cmd_move rc self src dst).
  Proof. intros m Hn. unfold cmd_move in *. pgo Hn. Qed.
  Lemma p_cmd_collect self : strict (fun rc => cmd_collect rc self).
  Proof. intros m Hn. unfold cmd_collect in *. pgo Hn. Qed.
  Lemma p_cmd_upgrade self w dst : strict (fun rc => cmd_upgrade K rc self w dst).
  Proof. intros m Hn. unfold cmd_upgrade in *. pgo Hn. Qed.
  Lemma p_cmd_drop_value self v : strict (fun rc => cmd_drop_value rc self v).
  Proof. intros m Hn. unfold cmd_drop_value in *. pgo Hn. Qed.
  Lemma p_cmd_new_cyclic self dst cls script sw : strict (fun rc => cmd_new_cyclic K P rc self dst cls script sw).
  Proof. intros m Hn. unfold cmd_new_cyclic in *. pgo Hn. Qed.
  Lemma p_cmd_register self nd script cs : strict (fun rc => cmd_register K P rc self nd script cs).
  Proof. intros m Hn. unfold cmd_register in *. pgo Hn. Qed.
  Lemma p_cmd_clean self cs : strict (fun rc => cmd_clean K rc self cs).
  Proof. intros m Hn. unfold cmd_clean in *. pgo Hn. Qed.
  Lemma p_cmd_unbag self k : strict (fun rc => cmd_unbag rc self k).
  Proof. intros m Hn. unfold cmd_unbag in *. pgo Hn. Qed.

  Lemma p_step_cmd self cm : strict (fun rc => step_cmd K P rc self cm).
  Proof.
    intros m. destruct cm; cbn [step_cmd];
      first [ intros _; reflexivity
            | apply p_cmd_new
            | apply p_cmd_clone
            | apply p_cmd_drop
            | apply p_cmd_move
            | apply p_cmd_collect
            | apply p_cmd_upgrade
            | apply p_cmd_drop_value
            | apply p_cmd_new_cyclic
            | apply p_cmd_register
            | apply p_cmd_clean
            | apply p_cmd_unbag ].
  Qed.

  Lemma p_step k : strict (fun rc => step K P rc k).
  Proof.
    intros m. destruct k; cbn [step];
      [ apply p_step_cmd
      | apply p_step_script
      | apply p_step_store
      | apply p_step_drop_cc
      | apply p_step_drop_value
      | apply p_step_drop_fields
      | apply p_step_drop_map_slots
      | apply p_step_trigger
      | apply p_step_collect_cycles
      | apply p_step_collect
      | apply p_step_collect_loop
      | apply p_step_collect_once
      | apply p_step_finalize_list
      | apply p_step_drop_list
      | apply p_step_unbag
      | apply p_step_clean_run ].
  Qed.
End Strict.

(** ** C07: panics propagate.  An activation that returns normally did so without any of its
    sub-activations panicking, aborting or running out of fuel. *)
Theorem step_strict K P rec rec' k m :
  agree_on_normal rec rec' ->
  (step K P rec k m).2 = ONormal -> step K P rec' k m = step K P rec k m.
Proof. intros Hag Hn. exact (p_step K P rec rec' Hag k m Hn). Qed.

(** the simplest instance, spelled out: a script stops at the first command that does not
    return normally and returns that outcome *)
Lemma step_script_propagates rec self c cs m :
  (rec (KCmd self c) m).2 <> ONormal ->
  step_script rec self (c :: cs) m = rec (KCmd self c) m.
Proof.
  intros H. unfold step_script. destruct (rec (KCmd self c) m) as [m1 r1].
  destruct r1; [contradiction H; reflexivity | reflexivity..].
Qed.

(** [Cc::drop]: a panicking destructor panics the drop *)
Lemma step_script_nil rec self m : step_script rec self [] m = (m, ONormal).
Proof. reflexivity. Qed.

(** ** Corollary: a run that completed normally is independent of the remaining fuel. *)
Lemma run_agree_S K P n : agree_on_normal (run K P n) (run K P (S n)).
Proof.
  induction n as [|n IH]; intros k m Hn; [discriminate Hn|].
  rewrite (run_S K P (S n)), (run_S K P n). rewrite run_S in Hn.
  apply step_strict; assumption.
Qed.

Theorem run_normal_stable K P n n' k m :
  (run K P n k m).2 = ONormal -> (n <= n')%nat -> run K P n' k m = run K P n k m.
Proof.
  intros Hn Hle. induction Hle as [|n' Hle IH]; [reflexivity|].
  rewrite <- IH. apply run_agree_S. rewrite IH. exact Hn.
Qed.

(** ** The crate's own drop paths run destructors with [dropping] set.

    [ev_ok] cannot say [fl_d f = true] for every [ECb KDrop] event: the destructor of a value
    that the program moved out of its box ([try_unwrap] followed by dropping the value), or of the
    argument of a [Cc::new] that unwinds, runs as ordinary user code (see
    [ex_kdrop_not_dropping] in Props/C12.v).  What does hold: [Cc::drop] ([step_drop_cc]) and the
    collector's drop pass ([step_drop_list]) enter [KDropValue] only with [st_dropping = true].
    "Only" is again extensional: these activations do not depend on what [rec] does on
    [KDropValue] calls made with [dropping] clear. *)
Definition dv_ok (k : call) (m : machine) : Prop :=
  match k with KDropValue _ => st_dropping m = true | _ => True end.

Section CallsOnly.
  Context (K : conf) (P : prog).
  Context (rec rec' : call -> machine -> machine * outcome).
  Context (Hag : forall k m, dv_ok k m -> rec' k m = rec k m).

  Ltac cstep :=
    first
    [ match goal with
      | |- context [rec' ?k ?m0] =>
        rewrite (Hag k m0) by (cbn; first [exact I | reflexivity])
      end
    | match goal with
      | |- context [match ?x with _ => _ end] =>
        lazymatch x with
        | context [match _ with _ => _ end] => fail
        | _ => destruct x eqn:?
        end
      end ]; cbv beta iota zeta; cbn [fst snd andb negb].

  Lemma drop_cc_drops_dropping o m : step_drop_cc K P rec' o m = step_drop_cc K P rec o m.
  Proof. unfold step_drop_cc. cbv beta iota zeta. repeat cstep; reflexivity. Qed.

  Lemma drop_list_drops_dropping L rest old_d m :
    st_dropping m = true ->
    step_drop_list K rec' L rest old_d m = step_drop_list K rec L rest old_d m.
  Proof.
    intros Hd. unfold step_drop_list. cbv beta iota zeta.
    destruct rest as [|g rest']; [reflexivity|].
    assert (E : rec' (KDropValue g)
                  (if k_weak K
                   then uhdr g set_dropped
                          (if is_in_list (hdr_of m g) then m else emit_bad AssertFail g m)
                   else if is_in_list (hdr_of m g) then m else emit_bad AssertFail g m)
                = rec (KDropValue g)
                  (if k_weak K
                   then uhdr g set_dropped
                          (if is_in_list (hdr_of m g) then m else emit_bad AssertFail g m)
                   else if is_in_list (hdr_of m g) then m else emit_bad AssertFail g m)).
    { apply Hag. cbn. destruct (k_weak K), (is_in_list (hdr_of m g)); exact Hd. }
    rewrite E. repeat cstep; reflexivity.
  Qed.
End CallsOnly.
