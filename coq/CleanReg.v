(** * CleanReg: [Cleaner::register] never loses a registered action, also when it is re-entered
    from the collection that its own [Cc::new] may start (finding F6, fixed). *)
From Coq Require Import NArith Bool List Lia.
From stdpp Require Import base list option.
From RecordUpdate Require Import RecordSet.
From RC Require Import Hdr Machine RunInd Clean CleanFrame CleanStep CleanStep2 CleanThm.
Import ListNotations RecordSetNotations.

(** ** Dropping the last handle of a map that holds no action changes nothing in the view *)
Definition no_action (w : vobj) : Prop := forall k a s, v_slots w !! k <> Some (MAction a s).
Definition inert (m : machine) (mo : nat) : Prop :=
  exists w, cv_h (cv m) !! mo = Some w /\ v_ismap w = true /\ no_action w.

Lemma inert_cv m m' mo : cv m' = cv m -> inert m mo -> inert m' mo.
Proof. unfold inert. intros ->. auto. Qed.
Lemma inert_get m mo x :
  inert m mo -> get m mo = Some x ->
  o_ismap x = true /\ forall k a s, o_mslots x !! k <> Some (MAction a s).
Proof.
  intros (w & Hw & Ew & Hn) Ex. pose proof (cv_h_lookup _ _ _ Ex) as Hl.
  unfold Machine.id in *. rewrite Hl in Hw. injection Hw as <-.
  split; [exact Ew|exact Hn].
Qed.

Lemma cv_upd_at (f : obj -> obj) o m x :
  get m o = Some x -> view_obj (f x) = view_obj x -> cv (upd o f m) = cv m.
Proof.
  intros Ex Hf. unfold cv, upd. cbn. f_equal. apply list_eq. intros i.
  rewrite !list_lookup_fmap. destruct (decide (i = o)) as [->|Hne].
  - rewrite list_lookup_alter. unfold get in Ex. unfold Machine.id in *. rewrite Ex. cbn. f_equal. exact Hf.
  - rewrite list_lookup_alter_ne by congruence. reflexivity.
Qed.

Section Spare.
  Context (K : conf) (P : prog) (mo : nat).

  Lemma run_drop_map_slots_inert n : forall j m,
    inert m mo -> cv (run K P n (KDropMapSlots mo j) m).1 = cv m.
  Proof.
    induction n as [|n IH]; intros j m Hin; [reflexivity|]. cbn [run step]. unfold step_drop_map_slots.
    destruct (get m mo) as [x|] eqn:Ex; [|cbn [fst]; cvs; reflexivity].
    destruct (inert_get _ _ _ Hin Ex) as [Hmap Hno].
    destruct (o_mslots x !! j) as [sl|] eqn:Esl; [|reflexivity].
    destruct sl as [|a s]; [|exfalso; exact (Hno _ _ _ Esl)].
    cbv beta iota zeta.
    set (m1 := upd mo (fun x => x <| o_mslots ::= <[j := MVacant]> |>) m).
    assert (E1 : cv m1 = cv m).
    { unfold m1. apply (cv_upd_at _ mo m x Ex). unfold view_obj. cbn.
      rewrite (list_insert_id _ _ _ Esl). reflexivity. }
    rewrite (IH (S j) m1 (inert_cv _ _ _ E1 Hin)). exact E1.
  Qed.

  Lemma run_drop_value_inert n m : inert m mo -> cv (run K P n (KDropValue mo) m).1 = cv m.
  Proof.
    intros Hin. destruct n as [|n]; [reflexivity|]. cbn [run step]. unfold step_drop_value.
    destruct (get m mo) as [x|] eqn:Ex; [|cbn [fst]; cvs; reflexivity].
    destruct (inert_get _ _ _ Hin Ex) as [Hmap _]. rewrite Hmap.
    set (m1 := upd mo (fun x => x <| o_vst := VDropping |>) m).
    assert (E1 : cv m1 = cv m) by (unfold m1; cvs; reflexivity).
    pose proof (run_drop_map_slots_inert n 0 m1 (inert_cv _ _ _ E1 Hin)) as E2.
    destruct (run K P n (KDropMapSlots mo 0) m1) as [m2 r2]. cbn [fst] in E2.
    destruct (o_vst x); cbn [fst]; cvs; congruence.
  Qed.

  Lemma run_drop_cc_inert n m : inert m mo -> cv (run K P n (KDropCc mo) m).1 = cv m.
  Proof.
    intros Hin. destruct n as [|n]; [reflexivity|]. cbn [run step]. unfold step_drop_cc.
    destruct (get m mo) as [x|] eqn:Ex; [|cbn [fst]; cvs; reflexivity].
    destruct (inert_get _ _ _ Hin Ex) as [Hmap _]. rewrite Hmap.
    set (m0 := match o_box x with BAlloc => m | _ => emit_bad UseAfterFree mo m end).
    assert (E0 : cv m0 = cv m) by (unfold m0; brk; cvs; reflexivity). clearbody m0.
    cbv beta iota zeta.
    repeat first
      [ match goal with
        | |- context [match ?x with _ => _ end] =>
          lazymatch x with
          | context [match _ with _ => _ end] => fail
          | run K P n (KDropValue mo) ?M =>
            let E := fresh "E" in
            assert (E : cv (run K P n (KDropValue mo) M).1 = cv m)
              by (rewrite run_drop_value_inert;
                  [cvs; exact E0 | eapply inert_cv; [|exact Hin]; cvs; exact E0]);
            destruct (run K P n (KDropValue mo) M) as [? []]; cbn [fst snd] in E
          | _ => destruct x eqn:?
          end
        end; cbv beta iota zeta; cbn [negb andb] ].
    all: cbn [fst]; cvs; congruence.
  Qed.
End Spare.

(** ** What a successful [register] has done *)
(** the owner [o]'s Cleaner names a map that holds the action just registered: its aid is the
    last one allocated, not older than the call *)
Definition reg_done (script o : nat) (v v' : cview) : Prop :=
  exists mo slot aid,
    cv_n v' = S aid /\ cv_n v <= aid /\
    cleaner_at (cv_h v') o = Some mo /\ slotv (cv_h v') mo slot = Some (MAction aid script).

Lemma map_insert_spec m mo mx s :
  CIv (cv m) -> get m mo = Some mx ->
  let r := map_insert mo (next_aid m) s (m <| next_aid := S (next_aid m) |>) in
  cv_n (cv r.1) = S (next_aid m) /\
  slotv (cv_h (cv r.1)) mo r.2 = Some (MAction (next_aid m) s) /\
  forall y, cleaner_at (cv_h (cv r.1)) y = cleaner_at (cv_h (cv m)) y.
Proof.
  intros HI Emx. unfold map_insert.
  change (get (m <| next_aid := S (next_aid m) |>) mo) with (get m mo). rewrite Emx.
  pose proof (cv_h_lookup _ _ _ Emx) as Hl.
  assert (En : cv (m <| next_aid := S (next_aid m) |>)
               = CV (cv_h (cv m)) (S (cv_n (cv m))) (cv_x (cv m))) by reflexivity.
  destruct (o_mfree mx) as [|i fr] eqn:Efr; cbn [fst snd].
  - rewrite (cv_upd_alter _ (ins_app (next_aid m) s)) by reflexivity. rewrite En.
    cbn [cv_h cv_n cv_x]. split; [reflexivity|]. split.
    + rewrite (slotv_alter_eq _ _ _ _ _ Hl). apply (ins_app_slot (next_aid m) s (view_obj mx)).
    + intros y. apply cleaner_at_alter_same. reflexivity.
  - rewrite (cv_upd_alter _ (ins_free i (next_aid m) s fr)) by reflexivity. rewrite En.
    cbn [cv_h cv_n cv_x]. split; [reflexivity|]. split.
    + rewrite (slotv_alter_eq _ _ _ _ _ Hl). apply ins_free_slot.
      destruct (ci_obj _ HI mo _ Hl) as [(_ & _ & L3) _].
      eapply lookup_lt_Some, (L3 i). cbn. rewrite Efr. left.
    + intros y. apply cleaner_at_alter_same. reflexivity.
Qed.

Section Register.
  Context (K : conf) (P : prog).
  Context (rec : call -> machine -> machine * outcome).
  Context (Hrec : rec_ok Pre Post rec).
  (** dropping the spare, empty map is invisible (true of [run]: [run_drop_cc_inert]) *)
  Context (Hspare : forall mo m, inert m mo -> cv (rec (KDropCc mo) m).1 = cv m).

  Definition regG (script o : nat) (v : cview) (x : machine * outcome) : Prop :=
    x.2 = ONormal -> head (log x.1) = Some (ERes ROk) -> reg_done script o v (cv x.1).

  Ltac skip_tac :=
    unfold regG, ok, raise; cbn [fst snd];
    let H1 := fresh in let H2 := fresh in
    intros H1 H2;
    first [ discriminate H1
          | (destruct (panicking _); discriminate H1)
          | (exfalso; unfold emit_bad, emit in H2; cbn in H2; congruence) ].

  (** everything after the map has been found or created; [Hc]: the owner's Cleaner names [mo] *)
  Ltac reg_tail2 HI Hn Hc :=
    lazymatch goal with
    | |- regG _ _ _ (match get ?M ?mo with _ => _ end) =>
      let mx := fresh "mx" in let Emx := fresh "Emx" in
      destruct (get M mo) as [mx|] eqn:Emx; [|skip_tac];
      destruct (o_mborrowed mx); [skip_tac|]; cbv zeta;
      lazymatch goal with
      | |- context [map_insert mo (next_aid M) ?s _] =>
        let Hins := fresh "Hins" in
        pose proof (map_insert_spec M mo mx s HI Emx) as Hins; cbv zeta in Hins;
        destruct (map_insert mo (next_aid M) s (M <| next_aid := S (next_aid M) |>))
          as [m4 slot]; cbn [fst snd] in Hins; destruct Hins as (Hi1 & Hi2 & Hi3);
        brk; try skip_tac;
        unfold regG, ok; cbn [fst snd]; intros _ _;
        exists mo, slot, (next_aid M); cvs;
        (split; [exact Hi1|]); (split; [exact Hn|]); (split; [rewrite Hi3; exact Hc|exact Hi2])
      end
    end.

  Lemma register_post self nd script c m :
    CIv (cv m) ->
    exists m0, cv m0 = cv m /\
      forall o, (nresolve self nd m).2 = Some o ->
                regG script o (cv m) (cmd_register K P rec self nd script c m).
  Proof.
    intros HI.
    exists (nresolve self nd m).1. split; [apply cv_nresolve|].
    intros o Eo. unfold cmd_register.
    destruct (negb (k_clean K)); [skip_tac|].
    pose proof (cv_nresolve self nd m) as E0.
    destruct (nresolve self nd m) as [m0 no]. cbn [fst snd] in *. subst no.
    destruct (cslots m0 !! c) as [cs|]; [|skip_tac].
    destruct (get m0 o) as [x|] eqn:Ex; [|skip_tac].
    destruct (negb (c_cleaner (class_of P (o_cls x))) || o_ismap x); [skip_tac|].
    assert (HI0 : CIv (cv m0)) by (rewrite E0; exact HI).
    assert (Hn0 : cv_n (cv m) <= cv_n (cv m0)) by (rewrite E0; lia).
    destruct (o_cleaner x) as [mo|] eqn:Ecl.
    - (* the owner already has a map *)
      assert (Hc : cleaner_at (cv_h (cv m0)) o = Some mo)
        by (rewrite (cleaner_at_Some _ _ _ (cv_h_lookup _ _ _ Ex)); exact Ecl).
      cbv beta iota zeta. reg_tail2 HI0 Hn0 Hc.
    - (* a new map *)
      cbv beta iota zeta.
      pose proof (cv_new_map m0) as En.
      assert (Hlen : length (cv_h (cv m0)) = length (heap m0))
        by (unfold cv; cbn [cv_h]; apply fmap_length).
      unfold new_map in *. cbn [fst] in En.
      set (mo := length (heap m0)) in *.
      set (m1 := m0 <| heap ::= fun h => h ++ _ |>) in *.
      assert (H01 : Rel (cv m0) (cv m1)) by (rewrite En; apply Rel_new'; exact HI0).
      assert (Hin1 : inert m1 mo).
      { exists (VObj true [] [] None). rewrite En. cbn [cv_h]. split; [|split; [reflexivity|]].
        - rewrite lookup_app_r by lia. replace (mo - length (cv_h (cv m0))) with 0 by lia. reflexivity.
        - intros k a s. cbn. rewrite lookup_nil. discriminate. }
      assert (Hun1 : unlinked (cv_h (cv m1)) mo).
      { intros y Hy. rewrite En in Hy. cbn [cv_h] in Hy. rewrite cleaner_at_snoc in Hy by reflexivity.
        pose proof (cleaner_at_lt _ _ _ HI0 Hy) as Hlt. rewrite Hlen in Hlt.
        exact (Nat.lt_irrefl _ Hlt). }
      assert (Hlen1 : length (cv_h (cv m1)) = S mo)
        by (rewrite En; cbn [cv_h]; rewrite app_length, Hlen; cbn [length]; lia).
      assert (Ho1 : is_Some (cv_h (cv m1) !! o)).
      { destruct H01 as ((_ & (_ & _ & Hk & _) & _) & _).
        destruct (Hk o _ (cv_h_lookup _ _ _ Ex)) as (w' & Hw' & _). eauto. }
      assert (Hn1 : cv_n (cv m) <= cv_n (cv m1)) by (rewrite En; exact Hn0).
      clearbody m1. clearbody mo.
      assert (HT : exists m2 t, (if k_auto K then rec KTrigger m1 else (m1, ONormal)) = (m2, t) /\
                                res (cv m1) (m2, t)).
      { destruct (k_auto K).
        - assert (HP : Pre KTrigger m1) by (split; [eapply Rel_CIv, H01|exact I]).
          pose proof (rec_post rec Hrec _ _ HP) as [HR _].
          destruct (rec KTrigger m1) as [m2 t]. cbn [fst snd] in HR. exists m2, t.
          split; [reflexivity|]. exact HR.
        - exists m1, ONormal. split; [reflexivity|]. apply res_intro, Rel_refl, (Rel_CIv _ _ H01). }
      destruct HT as (m2 & t & -> & HR12).
      destruct (res_RelW _ _ HR12) as (HI2 & (N2 & _ & Hk2 & _ & HKC2 & HKU2) & _). cbn [fst] in *.
      assert (Hin2 : inert m2 mo).
      { destruct Hin1 as (w1 & Hw1 & Ew1 & Hno1). destruct (Hk2 mo w1 Hw1) as (w2 & Hw2 & Ew2).
        exists w2. split; [exact Hw2|]. split; [congruence|].
        intros k a s Hs. destruct (HKU2 mo ltac:(lia) Hun1) as [_ Hsl].
        specialize (Hsl k a s). rewrite (slotv_eq _ _ _ _ Hw2), (slotv_eq _ _ _ _ Hw1) in Hsl.
        exact (Hno1 _ _ _ (Hsl Hs)). }
      assert (Ho2 : is_Some (cv_h (cv m2) !! o))
        by (destruct Ho1 as [w Hw]; destruct (Hk2 o w Hw) as (w' & Hw' & _); eauto).
      assert (Hn2 : cv_n (cv m) <= cv_n (cv m2)) by lia.
      destruct t; cbv beta iota zeta; [| |skip_tac|skip_tac].
      2: { (* the trigger panicked *)
           pose proof (unwinding_not_normal (rec (KDropValue mo)) m2) as Hnn.
           destruct (unwinding (rec (KDropValue mo)) m2) as [m3 r3]. cbn [snd] in Hnn.
           destruct r3; [contradiction|skip_tac..]. }
      match goal with |- context [get ?M o ≫= o_cleaner] => set (m2' := M) end.
      assert (E2' : cv m2' = cv m2) by (unfold m2'; cvs; reflexivity).
      destruct (get m2' o ≫= o_cleaner) as [ex|] eqn:Eex.
      + (* a nested register gave the owner a map meanwhile: the spare one is dropped *)
        destruct (get m2' o) as [xo|] eqn:Exo; [cbn in Eex|discriminate].
        assert (Hcl : cleaner_at (cv_h (cv m2')) o = Some ex)
          by (rewrite (cleaner_at_Some _ _ _ (cv_h_lookup _ _ _ Exo)); exact Eex).
        pose proof (Hspare mo m2' (inert_cv _ _ _ E2' Hin2)) as E3.
        clearbody m2'.
        destruct (rec (KDropCc mo) m2') as [m3 r3]. cbn [fst] in E3. cbv beta iota zeta.
        destruct r3; [|skip_tac..].
        assert (HI3 : CIv (cv m3)) by (rewrite E3, E2'; exact HI2).
        assert (Hn3 : cv_n (cv m) <= cv_n (cv m3)) by (rewrite E3, E2'; exact Hn2).
        assert (Hc3 : cleaner_at (cv_h (cv m3)) o = Some ex) by (rewrite E3; exact Hcl).
        reg_tail2 HI3 Hn3 Hc3.
      + (* link the map to its owner *)
        cbv beta iota zeta.
        match goal with |- regG _ _ _ (match get ?M _ with _ => _ end) => set (m3 := M) end.
        assert (E3 : cv m3 = CV (alter (set_cl (Some mo)) o (cv_h (cv m2))) (cv_n (cv m2)) (cv_x (cv m2))).
        { unfold m3. rewrite (cv_upd_alter _ (set_cl (Some mo))) by reflexivity. rewrite E2'. reflexivity. }
        assert (Hun2 : unlinked (cv_h (cv m2)) mo).
        { intros y Hy. destruct (HKC2 y mo Hy) as [Hy1|Hge1]; [exact (Hun1 y Hy1)|lia]. }
        assert (HI3 : CIv (cv m3)).
        { rewrite E3. eapply Rel_CIv. apply (Rel_link' (cv m0) (cv m2) o mo).
          - eapply Rel_trans; [exact H01|]. apply (res_Rel _ _ _ HR12). discriminate.
          - rewrite Hlen. lia.
          - destruct Hin2 as (w & Hw & Ew & _). eauto.
          - exact Hun2. }
        assert (Hn3 : cv_n (cv m) <= cv_n (cv m3)) by (rewrite E3; exact Hn2).
        assert (Hc3 : cleaner_at (cv_h (cv m3)) o = Some mo).
        { rewrite E3. cbn [cv_h]. destruct Ho2 as [w Hw].
          unfold cleaner_at. rewrite list_lookup_alter. unfold Machine.id in *. rewrite Hw. reflexivity. }
        clearbody m3. clearbody m2'. reg_tail2 HI3 Hn3 Hc3.
  Qed.
End Register.

Lemma cleaner_at_inv m (o : nat) mo :
  cleaner_at (cv_h (cv m)) o = Some mo -> exists x, get m o = Some x /\ o_cleaner x = Some mo.
Proof.
  unfold cleaner_at. destruct (cv_h (cv m) !! o) as [w|] eqn:Hw; [|discriminate].
  destruct (cv_h_lookup_inv _ _ _ Hw) as (x & Hx & ->). intros H. exists x. split; [exact Hx|exact H].
Qed.

(** ** The theorem, for every run: after a successful [register] (it returned a Cleanable:
    outcome [ONormal], result [ROk]) the owner's Cleaner names a map that holds the new action,
    and no action registered anywhere before the call has been lost - each one is still in its
    slot or has been executed; in particular the actions of the map this owner's Cleaner named
    before the call. *)
Theorem C10_register_reentrant K P n self nd script c m :
  CI m ->
  let X := run K P (S n) (KCmd self (CRegister nd script c)) m in
  X.2 = ONormal -> head (log X.1) = Some (ERes ROk) ->
  (exists o x' mo slot aid,
      (nresolve self nd m).2 = Some o /\
      get X.1 o = Some x' /\ o_cleaner x' = Some mo /\
      slot_at X.1 mo slot = Some (MAction aid script) /\
      next_aid X.1 = S aid /\ next_aid m <= aid) /\
  CI X.1 /\
  (forall o' k a s, slot_at m o' k = Some (MAction a s) ->
                    slot_at X.1 o' k = Some (MAction a s) \/ a ∈ executed_aids (log X.1)).
Proof.
  intros HI X Hr Hh. split; [|split].
  - destruct (register_post K P (run K P n) (run_clean K P n)
                (fun mo m0 Hin => run_drop_cc_inert K P mo n m0 Hin) self nd script c m HI)
      as (m0 & E0 & HG).
    assert (Eo : exists o, (nresolve self nd m).2 = Some o).
    { unfold X in Hh. cbn [run step step_cmd] in Hh. unfold cmd_register in Hh.
      destruct (negb (k_clean K)); [cbn in Hh; discriminate|].
      destruct (nresolve self nd m) as [m1 [o|]]; [eauto|cbn in Hh; discriminate]. }
    destruct Eo as (o & Eo). specialize (HG o Eo Hr Hh).
    destruct HG as (mo & slot & aid & H1 & H2 & H3 & H4).
    destruct (cleaner_at_inv _ _ _ H3) as (x' & Hx' & Hc').
    exists o, x', mo, slot, aid. split; [exact Eo|]. split; [exact Hx'|]. split; [exact Hc'|].
    split; [rewrite <- slotv_cv; exact H4|]. split; [exact H1|exact H2].
  - pose proof (run_clean K P (S n) (KCmd self (CRegister nd script c)) m (conj HI I)) as [HR _].
    apply res_RelW, RelW_CIv in HR. exact HR.
  - pose proof (run_clean K P (S n) (KCmd self (CRegister nd script c)) m (conj HI I)) as [HR _].
    fold X in HR. apply res_Rel in HR; [|rewrite Hr; discriminate].
    destruct HR as (_ & HK1 & _). intros o' k a s H. rewrite <- slotv_cv in H |- *. apply HK1, H.
Qed.
