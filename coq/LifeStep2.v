(** * LifeStep2: the step cases that only compose quiet helpers and recursive calls. *)
From Coq Require Import NArith Bool List Lia.
From stdpp Require Import base list option.
From RecordUpdate Require Import RecordSet.
From RC Require Import Hdr Machine RunInd Flags Flags2.
From RC Require Import Inv InvP LifeInv LifeInv2 LifeChk LifeStep.
Import ListNotations RecordSetNotations.
Local Open Scope N_scope.

#[export] Hint Extern 2 (Quiet _ (fold_left _ _ _)) => (apply q_fold; [intros | ]) : lq.

Ltac posq :=
  match goal with
  | HP : LifeInv.Ls _ _ _ ?n0 ?m0 ?mi |- LifeInv.Ls _ _ _ ?n0 ?m0 _ =>
    solve [eapply (Ls_q _ _ _ n0 m0 mi); [exact HP | lq]]
  end.

Ltac pre2 :=
  cbn [LifeStep.Pre2];
  first
  [ exact I
  | assumption
  | (let Hn_ := fresh "Hn_" in intros Hn_;
     match goal with
     | Hprog : _ = true -> prog_nfa _ = true |- _ =>
       first [ apply oscript_nfa, Hprog, Hn_ | apply script_nfa, Hprog, Hn_ ]
     end)
  | (let Hn_ := fresh "Hn_" in intros Hn_;
     match goal with
     | H : _ = true -> forallb no_fa_cmd (_ :: _) = true |- _ =>
       specialize (H Hn_); cbn [forallb] in H; apply andb_true_iff in H; apply H
     end)
  | auto ].

Ltac adv :=
  match goal with
  | Hrec : rec_ok _ _ ?rec |- LifeInv.Ls _ _ _ ?n0 ?m0 _ =>
    inner_scrut ltac:(fun x =>
      lazymatch x with
      | rec ?c ?X =>
        let HP := fresh "HP" in let HX := fresh "HX" in let Hp := fresh "Hp" in let HL := fresh "HL" in let HP2 := fresh "HR" in
        eassert (HP : LifeInv.Ls _ _ _ n0 m0 X) by posq;
        eassert (Hp : LifeStep.Pre2 _ _ c X) by pre2;
        pose proof (Hrec c X Hp) as [HL HX];
        pose proof (Ls_step _ _ _ n0 m0 X _ HP HL) as HP2; clear HP;
        destruct (rec c X) as [? ?]; cbn [fst snd LifeStep.Post2] in *
      | unwinding (rec ?c) ?X =>
        let HP := fresh "HP" in let Hp := fresh "Hp" in let HP2 := fresh "HR" in
        eassert (HP : LifeInv.Ls _ _ _ n0 m0 X) by posq;
        eassert (Hp : LifeStep.Pre2 _ _ c (X <| panicking := true |>)) by pre2;
        pose proof (Ls_unwinding _ _ _ rec Hrec n0 m0 X c HP Hp) as HP2; clear HP;
        destruct (unwinding (rec c) X) as [? ?]; cbn [fst snd] in *
      | weak_clone ?w ?X =>
        let HP := fresh "HP" in let E := fresh "E" in
        eassert (HP : LifeInv.Ls _ _ _ n0 m0 X) by posq;
        destruct (weak_clone w X) eqn:E;
        [ pose proof (Ls_q _ _ _ n0 m0 X _ HP (q_weak_clone X w X _ (Quiet_refl X) E)) | ]
      | _ =>
        cbn [LifeStep.Pre2] in *;
        lazymatch type of x with
        | (machine * _)%type =>
          let HP := fresh "HP" in
          eassert (HP : LifeInv.Ls _ _ _ n0 m0 x.1) by posq;
          destruct x as [? ?]; cbn [fst snd] in *
        | _ => destruct x eqn:?; cbn [LifeStep.Pre2] in *
        end
      end)
  end; cbv beta iota zeta.

Ltac fin :=
  cbn [fst snd];
  first
  [ posq
  | match goal with
    | Hrec : rec_ok _ _ ?rec |- LifeInv.Ls _ _ _ ?n0 ?m0 (?rec ?c ?X).1 =>
      eapply (Ls_rec _ _ _ rec Hrec); [posq | pre2]
    | Hrec : rec_ok _ _ ?rec |- LifeInv.Ls _ _ _ ?n0 ?m0 (unwinding (?rec ?c) ?X).1 =>
      eapply (Ls_unwinding _ _ _ rec Hrec); [posq | pre2]
    end ].

Ltac start :=
  intros;
  match goal with |- LifeInv.Ls ?K ?mu ?nfa ?n0 ?m0 _ => pose proof (Ls_refl K mu nfa n0 m0) as HP0 end.
Ltac go := start; cbv beta iota zeta; repeat adv; fin.

Section Walk.
  Context (K : conf) (P : prog) (mu : id) (nfa : bool).
  Hypothesis Hprog : nfa = true -> prog_nfa P = true.
  Notation Ls := (Ls K mu nfa).
  Notation G := (G mu).
  Notation Pre2 := (Pre2 K nfa).
  Notation Post2 := (Post2 K mu nfa).
  Context (rec : call -> machine -> machine * outcome).
  Hypothesis Hrec : rec_ok Pre2 Post2 rec.

  Lemma l_step_script self cs m :
    Pre2 (KScript self cs) m -> Ls (length (heap m)) m (step_script rec self cs m).1.
  Proof. unfold step_script. go. Qed.
  Lemma l_step_store r v m : Ls (length (heap m)) m (step_store rec r v m).1.
  Proof. unfold step_store. go. Qed.
  Lemma l_step_drop_fields o j m : Ls (length (heap m)) m (step_drop_fields rec o j m).1.
  Proof. unfold step_drop_fields. go. Qed.
  Lemma l_step_drop_map_slots o j m : Ls (length (heap m)) m (step_drop_map_slots rec o j m).1.
  Proof. unfold step_drop_map_slots. go. Qed.
  Lemma l_step_clean_run mo aid sc m : Ls (length (heap m)) m (step_clean_run K P rec mo aid sc m).1.
  Proof. unfold step_clean_run. go. Qed.
  Lemma l_step_unbag k m : Ls (length (heap m)) m (step_unbag rec k m).1.
  Proof. unfold step_unbag. go. Qed.
  Lemma l_step_trigger m : Ls (length (heap m)) m (step_trigger K rec m).1.
  Proof. unfold step_trigger. go. Qed.
  Lemma l_step_collect_cycles m : Ls (length (heap m)) m (step_collect_cycles K rec m).1.
  Proof. unfold step_collect_cycles. go. Qed.
  Lemma l_step_collect m : Ls (length (heap m)) m (step_collect K rec m).1.
  Proof. unfold step_collect. go. Qed.
  Lemma l_step_collect_loop k m : Ls (length (heap m)) m (step_collect_loop rec k m).1.
  Proof. unfold step_collect_loop. go. Qed.
  Lemma l_step_collect_once m : Ls (length (heap m)) m (step_collect_once K P rec m).1.
  Proof. unfold step_collect_once. go. Qed.

  Lemma l_cmd_clone self src dst m : Ls (length (heap m)) m (cmd_clone rec self src dst m).1.
  Proof. unfold cmd_clone. go. Qed.
  Lemma l_cmd_drop self l m : Ls (length (heap m)) m (cmd_drop rec self l m).1.
  Proof. unfold cmd_drop. go. Qed.
  Lemma l_cmd_move self src dst m : Ls (length (heap m)) m (cmd_move rec self src dst m).1.
  Proof. unfold cmd_move. go. Qed.
  Lemma l_cmd_mark_alive self l m : Ls (length (heap m)) m (cmd_mark_alive self l m).1.
  Proof. unfold cmd_mark_alive. go. Qed.
  Lemma l_cmd_collect self m : Ls (length (heap m)) m (cmd_collect rec self m).1.
  Proof. unfold cmd_collect. go. Qed.
  Lemma l_cmd_downgrade self l w m : Ls (length (heap m)) m (cmd_downgrade K self l w m).1.
  Proof. unfold cmd_downgrade. go. Qed.
  Lemma l_cmd_upgrade self w dst m : Ls (length (heap m)) m (cmd_upgrade K rec self w dst m).1.
  Proof. unfold cmd_upgrade. go. Qed.
  Lemma l_cmd_w_new self w m : Ls (length (heap m)) m (cmd_w_new K self w m).1.
  Proof. unfold cmd_w_new. go. Qed.
  Lemma l_cmd_w_clone self src dst m : Ls (length (heap m)) m (cmd_w_clone K self src dst m).1.
  Proof. unfold cmd_w_clone. go. Qed.
  Lemma l_cmd_w_drop self w m : Ls (length (heap m)) m (cmd_w_drop K self w m).1.
  Proof. unfold cmd_w_drop. go. Qed.
  Lemma l_cmd_drop_value self v m : Ls (length (heap m)) m (cmd_drop_value rec self v m).1.
  Proof. unfold cmd_drop_value. go. Qed.
  Lemma l_cmd_clean self c m : Ls (length (heap m)) m (cmd_clean K rec self c m).1.
  Proof. unfold cmd_clean. go. Qed.
  Lemma l_cmd_c_drop self c m : Ls (length (heap m)) m (cmd_c_drop K self c m).1.
  Proof. unfold cmd_c_drop. go. Qed.
  Lemma l_cmd_unbag self k m : Ls (length (heap m)) m (cmd_unbag rec self k m).1.
  Proof. unfold cmd_unbag. go. Qed.
  Lemma l_cmd_borrow self nd m : Ls (length (heap m)) m (cmd_borrow self nd m).1.
  Proof. unfold cmd_borrow. go. Qed.
  Lemma l_cmd_unborrow self nd m : Ls (length (heap m)) m (cmd_unborrow self nd m).1.
  Proof. unfold cmd_unborrow. go. Qed.
  Lemma l_cmd_cfg_auto self b m : Ls (length (heap m)) m (cmd_cfg_auto K self b m).1.
  Proof. unfold cmd_cfg_auto. go. Qed.
  Lemma l_cmd_cfg_percent self n e m : Ls (length (heap m)) m (cmd_cfg_percent K self n e m).1.
  Proof. unfold cmd_cfg_percent. go. Qed.
  Lemma l_cmd_cfg_buffered self b m : Ls (length (heap m)) m (cmd_cfg_buffered K self b m).1.
  Proof. unfold cmd_cfg_buffered. go. Qed.
  Lemma l_cmd_arm self k v m : Ls (length (heap m)) m (cmd_arm self k v m).1.
  Proof. unfold cmd_arm. go. Qed.
  Lemma l_cmd_panic self m : Ls (length (heap m)) m (cmd_panic self m).1.
  Proof. unfold cmd_panic. go. Qed.
  Lemma l_cmd_obs self l m : Ls (length (heap m)) m (cmd_obs self l m).1.
  Proof. unfold cmd_obs. go. Qed.
  Lemma l_cmd_w_obs self w m : Ls (length (heap m)) m (cmd_w_obs K self w m).1.
  Proof. unfold cmd_w_obs. go. Qed.
  Lemma l_cmd_s_obs self m : Ls (length (heap m)) m (cmd_s_obs K self m).1.
  Proof. unfold cmd_s_obs. go. Qed.
  Lemma l_cmd_bag self l k m : Ls (length (heap m)) m (cmd_bag self l k m).1.
  Proof.
    unfold cmd_bag. start. cbv beta iota zeta. adv.
    destruct (o ≫= λ r, read_loc r m0) as [t|]; [|fin].
    generalize (N.to_nat k). intros n. revert m0 HP. induction n as [|n IH]; intros m0 HP; [fin|].
    destruct (inc_rc (hdr_of m0 t)) as [h|] eqn:Ei; [|fin].
    apply IH. posq.
  Qed.
End Walk.
