(** * CleanUThm: the cleaner discipline at the nested activations of safe runs - the theorems.

    [Life.mrun K P chk mu] is the interpreter that appends the marker [mu] to the ghost [dead]
    whenever an activation starts in a state where the decidable check [chk] fails, and goes on.
    With [chk := chkU K P] (three consequences of the pre-conditions of the count /
    no-dangling layer, [CleanUChk.chkU_ok]):

    - [C10_nested_inv]: every activation of [mrun] obeys [Pre2]/[Post2] - the invariant [CI] and
      the relations [K1], [K2], [K3] of Clean*.v, now with the pre-condition "no Cleaner names
      the map" at [KDropValue] / [KDropMapSlots] and "no Cleaner names a member" at
      [KDropList] / [KFinalizeList]; it is established at the entry of every nested activation
      by the induction ([Life.mrun_ind] + [CleanUStep2.U_step]) and is vacuous only on marked
      states;
    - [C10_marked_never]: along every clean run of a well-formed program no marker is ever set:
      [mrun] and [run] coincide ([Life.mfold_eq]);
    - [C10_nested_run]: the same for [run], per activation. *)
From Coq Require Import NArith Bool List Lia.
From stdpp Require Import base list option.
From RecordUpdate Require Import RecordSet.
From RC Require Import Hdr Machine RunInd.
From RC Require Import Inv InvP SafeMain SafeColl SafeFinal LifeGhost Life.
From RC Require Import Clean CleanFrame CleanStep CleanStep2 CleanThm CleanU CleanUStep CleanUStep2 CleanUChk.
Import ListNotations RecordSetNotations.

Section Thm.
  Context (K : conf) (P : prog).

  Theorem C10_nested_inv mu n : rec_ok (Pre2 mu) (Post2 mu) (mrun K P (chkU K P) mu n).
  Proof.
    apply (mrun_ind K P (chkU K P) (chkU_dl K P) mu (Pre2 mu) (Post2 mu)).
    - apply Post2_vac.
    - intros rec Hrec c m HP Hc. apply (U_step mu K P rec Hrec c m HP Hc).
    - apply Post2_fuel.
  Qed.

  Lemma cv_dl t m : cv (dl t m) = cv m.
  Proof. reflexivity. Qed.

  Lemma xPost_dl c m m' r t : xPost c m (dl t m') r <-> xPost c m m' r.
  Proof. destruct c; cbn [xPost]; rewrite ?cv_dl; reflexivity. Qed.

  (** the same, for the uninstrumented interpreter: either some nested activation started in a
      state that violates the pre-conditions of the count layer (then a marker [mu] was set; for
      clean runs of well-formed programs this never happens, [C10_marked_never]) or the
      post-condition holds *)
  Theorem C10_nested_run mu n c m :
    mem_id mu (dead m) = false -> PreU c m ->
    exists t, MKmu mu t /\
      (mem_id mu (dead (run K P n c m).1 ++ t) = true \/
       PostU c m (run K P n c m).1 (run K P n c m).2).
  Proof.
    intros Hg HP. pose proof (C10_nested_inv mu n c m (or_intror HP)) as H.
    destruct (mrun_eq K P (chkU K P) (chkU_dl K P) mu n c m) as (t & Ht & E). rewrite E in H.
    cbn [fst snd] in H. exists t. split; [exact Ht|].
    destruct H as [H|[_ [HR HX]]]; [left; exact H|right].
    split; [|apply (xPost_dl c m _ _ t), HX].
    unfold res in *. cbn [fst snd] in *. rewrite cv_dl in HR. exact HR.
  Qed.

  Hypothesis Hconf : k_clean K = true -> k_weak K = true.
  Hypothesis Hwf : wf_prog P = true.

  Theorem C10_marked_never mu fuel cmds :
    let m := fold_left (fun m c => exec_top K P fuel c m) cmds (init K) in
    clean m = true -> length (heap m) <= mu ->
    fold_left (fun m0 c => mexec_top K P (chkU K P) mu fuel c m0) cmds (init K) = m.
  Proof. apply (mfold_eq K P Hconf Hwf (chkU K P) (chkU_dl K P) (chkU_ok K P)). Qed.
End Thm.

(** ** What the post-condition says when a map value is dropped: (1) + Theorem 4 at every real
    call site.  [PreU (KDropValue o) m] contains [is_mapv m o -> unl m o]: no Cleaner names the
    map; [PostU] then gives: every action that was stored in it has run exactly once and every
    slot is vacant. *)
Lemma unl_unlinked_m m o : unl m o -> unlinked_m m o.
Proof. apply unlinked_cv_inv. Qed.

Theorem C10_drop_value_unlinked c m o :
  c = KDropValue o -> PreU c m -> forall x, get m o = Some x -> o_ismap x = true -> unlinked_m m o.
Proof.
  intros -> [_ Hx] x Ex Em. apply unl_unlinked_m, Hx. exists (view_obj x).
  split; [apply cv_h_lookup, Ex|exact Em].
Qed.

Theorem C10_drop_value_post m m' r o x :
  PreU (KDropValue o) m -> PostU (KDropValue o) m m' r ->
  get m o = Some x -> o_ismap x = true -> o_vst x = VLive -> (r = ONormal \/ r = OPanic) ->
  drained m m' o /\ all_vacant m' o.
Proof.
  intros [HI Hx] [HR HD] Ex Em Ev Hr. cbn [xPre xPost] in *.
  assert (HD0 : DMS o 0 (cv m) (cv m')) by (apply (HD Hr x Ex Em); left; exact Ev).
  assert (Hu : unlinked_m m o).
  { apply unl_unlinked_m, Hx. exists (view_obj x). split; [apply cv_h_lookup, Ex|exact Em]. }
  split.
  - eapply drained_intro; [exact HI|exact HR| |exact HD0]. destruct Hr as [-> | ->]; discriminate.
  - eapply all_vacant_intro; eassumption.
Qed.

Print Assumptions C10_nested_inv.
Print Assumptions C10_nested_run.
Print Assumptions C10_marked_never.
Print Assumptions C10_drop_value_post.
