(** * CleanWalk: the view [zv] of a machine state on which the "dead map is vacant" invariant
    (C10, program level, goal (1)) depends - per heap object: [o_vst], [o_box], [o_ismap],
    [o_mslots], [o_cleaner] - and the helpers of the machine model that leave it alone
    (rewrite database [cv], shared with the cleaner view [cv] and the ghost [dead]). *)
From Coq Require Import NArith Bool List Lia.
From stdpp Require Import base list option.
From RecordUpdate Require Import RecordSet.
From RC Require Import Hdr Machine RunInd Clean CleanFrame CleanUFrame.
From RC Require Pass.
Import ListNotations RecordSetNotations.

Record zobj := ZObj { z_vst : vstate; z_box : bstate; z_ismap : bool; z_slots : list mslot;
                      z_cleaner : option id }.
Definition zview_obj (x : obj) : zobj :=
  ZObj (o_vst x) (o_box x) (o_ismap x) (o_mslots x) (o_cleaner x).
Definition zv (m : machine) : list zobj := zview_obj <$> heap m.

Lemma zv_lookup m o x : get m o = Some x -> zv m !! o = Some (zview_obj x).
Proof. unfold get, zv. intros H. rewrite list_lookup_fmap. unfold Machine.id in *. rewrite H. reflexivity. Qed.
Lemma zv_lookup_inv m o w : zv m !! o = Some w -> exists x, get m o = Some x /\ w = zview_obj x.
Proof.
  unfold get, zv. rewrite list_lookup_fmap. unfold Machine.id in *.
  destruct (heap m !! o) as [x|]; [|discriminate]. intros [= <-]. eauto.
Qed.
Lemma zv_length m : length (zv m) = length (heap m).
Proof. unfold zv. apply fmap_length. Qed.

Lemma zv_upd_alter (f : obj -> obj) (g : zobj -> zobj) o m :
  (forall x, zview_obj (f x) = g (zview_obj x)) -> zv (upd o f m) = alter g o (zv m).
Proof.
  intros Hf. unfold zv, upd. cbn. apply list_alter_fmap.
  apply Forall_forall. intros x _. apply Hf.
Qed.
Lemma alter_id_l {A} (l : list A) o : alter (fun v => v) o l = l.
Proof. revert o. induction l as [|a l IH]; intros [|o]; cbn; f_equal; auto. Qed.
Lemma alter_ge_l {A} (g : A -> A) (l : list A) o : length l <= o -> alter g o l = l.
Proof. revert o. induction l as [|a l IH]; intros [|o] H; cbn in *; try reflexivity; [lia|]. f_equal. apply IH. lia. Qed.
Lemma zv_upd_same (f : obj -> obj) o m :
  (forall x, zview_obj (f x) = zview_obj x) -> zv (upd o f m) = zv m.
Proof. intros Hf. rewrite (zv_upd_alter f (fun v => v)) by exact Hf. apply alter_id_l. Qed.

Lemma zv_set_pc f m : zv (set pc f m) = zv m. Proof. reflexivity. Qed.
Lemma zv_set_pc_size f m : zv (set pc_size f m) = zv m. Proof. reflexivity. Qed.
Lemma zv_set_pc_alive f m : zv (set pc_alive f m) = zv m. Proof. reflexivity. Qed.
Lemma zv_set_st_collecting f m : zv (set st_collecting f m) = zv m. Proof. reflexivity. Qed.
Lemma zv_set_st_finalizing f m : zv (set st_finalizing f m) = zv m. Proof. reflexivity. Qed.
Lemma zv_set_st_dropping f m : zv (set st_dropping f m) = zv m. Proof. reflexivity. Qed.
Lemma zv_set_st_alloc f m : zv (set st_alloc f m) = zv m. Proof. reflexivity. Qed.
Lemma zv_set_st_exec f m : zv (set st_exec f m) = zv m. Proof. reflexivity. Qed.
Lemma zv_set_cf_thr f m : zv (set cf_thr f m) = zv m. Proof. reflexivity. Qed.
Lemma zv_set_cf_pnum f m : zv (set cf_pnum f m) = zv m. Proof. reflexivity. Qed.
Lemma zv_set_cf_pexp f m : zv (set cf_pexp f m) = zv m. Proof. reflexivity. Qed.
Lemma zv_set_cf_buf f m : zv (set cf_buf f m) = zv m. Proof. reflexivity. Qed.
Lemma zv_set_cf_auto f m : zv (set cf_auto f m) = zv m. Proof. reflexivity. Qed.
Lemma zv_set_slots f m : zv (set slots f m) = zv m. Proof. reflexivity. Qed.
Lemma zv_set_wslots f m : zv (set wslots f m) = zv m. Proof. reflexivity. Qed.
Lemma zv_set_cslots f m : zv (set cslots f m) = zv m. Proof. reflexivity. Qed.
Lemma zv_set_values f m : zv (set values f m) = zv m. Proof. reflexivity. Qed.
Lemma zv_set_bag f m : zv (set bag f m) = zv m. Proof. reflexivity. Qed.
Lemma zv_set_wparam f m : zv (set wparam f m) = zv m. Proof. reflexivity. Qed.
Lemma zv_set_fuse_trace f m : zv (set fuse_trace f m) = zv m. Proof. reflexivity. Qed.
Lemma zv_set_fuse_fin f m : zv (set fuse_fin f m) = zv m. Proof. reflexivity. Qed.
Lemma zv_set_fuse_drop f m : zv (set fuse_drop f m) = zv m. Proof. reflexivity. Qed.
Lemma zv_set_fuse_action f m : zv (set fuse_action f m) = zv m. Proof. reflexivity. Qed.
Lemma zv_set_fuse_closure f m : zv (set fuse_closure f m) = zv m. Proof. reflexivity. Qed.
Lemma zv_set_panicking f m : zv (set panicking f m) = zv m. Proof. reflexivity. Qed.
Lemma zv_set_dead f m : zv (set dead f m) = zv m. Proof. reflexivity. Qed.
Lemma zv_set_next_aid f m : zv (set next_aid f m) = zv m. Proof. reflexivity. Qed.
Lemma zv_set_log f m : zv (set log f m) = zv m. Proof. reflexivity. Qed.
#[export] Hint Rewrite
 zv_set_pc zv_set_pc_size zv_set_pc_alive zv_set_st_collecting zv_set_st_finalizing zv_set_st_dropping zv_set_st_alloc zv_set_st_exec zv_set_cf_thr zv_set_cf_pnum zv_set_cf_pexp zv_set_cf_buf zv_set_cf_auto zv_set_slots zv_set_wslots zv_set_cslots zv_set_values zv_set_bag zv_set_wparam zv_set_fuse_trace zv_set_fuse_fin zv_set_fuse_drop zv_set_fuse_action zv_set_fuse_closure zv_set_panicking zv_set_dead zv_set_next_aid zv_set_log : cv.

Lemma zv_emit e m : zv (emit e m) = zv m. Proof. reflexivity. Qed.
Lemma zv_emit_bad b o m : zv (emit_bad b o m) = zv m. Proof. reflexivity. Qed.
#[export] Hint Rewrite zv_emit zv_emit_bad : cv.
#[export] Hint Rewrite zv_upd_same using (intros; reflexivity) : cv.
Lemma zv_uhdr o f m : zv (uhdr o f m) = zv m.
Proof. unfold uhdr. apply zv_upd_same. reflexivity. Qed.
Lemma zv_uside o f m : zv (uside o f m) = zv m.
Proof. unfold uside. apply zv_upd_same. reflexivity. Qed.
#[export] Hint Rewrite zv_uhdr zv_uside : cv.

Ltac zv_solve := intros; brk; cbn [fst snd]; cvs; reflexivity.

Definition zbox (b : bstate) (w : zobj) : zobj :=
  ZObj (z_vst w) b (z_ismap w) (z_slots w) (z_cleaner w).
Definition zvst (v : vstate) (w : zobj) : zobj :=
  ZObj v (z_box w) (z_ismap w) (z_slots w) (z_cleaner w).
Definition zslots (f : list mslot -> list mslot) (w : zobj) : zobj :=
  ZObj (z_vst w) (z_box w) (z_ismap w) (f (z_slots w)) (z_cleaner w).
Definition zcl (c : option id) (w : zobj) : zobj :=
  ZObj (z_vst w) (z_box w) (z_ismap w) (z_slots w) c.

Section Frame.
  Context (K : conf) (P : prog).
  Implicit Types (m : machine).

  Lemma zv_dec_size o m : zv (dec_size o m) = zv m.
  Proof. unfold dec_size. zv_solve. Qed.
  Hint Rewrite zv_dec_size : cv.
  Lemma zv_remove_from_list o m : zv (remove_from_list o m) = zv m.
  Proof. unfold remove_from_list. zv_solve. Qed.
  Lemma zv_add_to_list o m : zv (add_to_list o m) = zv m.
  Proof. unfold add_to_list. zv_solve. Qed.
  Lemma zv_dec_rc_m o m : zv (dec_rc_m o m) = zv m.
  Proof. unfold dec_rc_m. zv_solve. Qed.
  Lemma zv_dealloc o m : zv (dealloc K o m) = alter (zbox BFreed) o (zv m).
  Proof.
    unfold dealloc. destruct (get m o) as [x|] eqn:Ex.
    - destruct (box_layout K x) as [sz al].
      rewrite zv_emit, (zv_upd_alter _ (zbox BFreed)) by (intros; reflexivity).
      brk; cvs; reflexivity.
    - cvs. unfold get in Ex. rewrite alter_ge_l; [reflexivity|]. rewrite zv_length.
      apply lookup_ge_None_1. exact Ex.
  Qed.
  Lemma zv_sfree o m : zv (sfree o m) = zv m.
  Proof. unfold sfree. zv_solve. Qed.
  Hint Rewrite zv_remove_from_list zv_add_to_list zv_dec_rc_m zv_sfree : cv.
  Lemma zv_drop_metadata o m : zv (drop_metadata K o m) = zv m.
  Proof. unfold drop_metadata. zv_solve. Qed.
  Lemma zv_init_side o m : zv (init_side o m) = zv m.
  Proof. unfold init_side. zv_solve. Qed.
  Lemma zv_weak_strong_count w m : zv (weak_strong_count w m).1 = zv m.
  Proof. unfold weak_strong_count. zv_solve. Qed.
  Lemma zv_weak_weak_count w m : zv (weak_weak_count w m).1 = zv m.
  Proof. unfold weak_weak_count. zv_solve. Qed.
  Lemma zv_weak_clone w m m' : weak_clone w m = Some m' -> zv m' = zv m.
  Proof. unfold weak_clone. intros E; revert E; brk; intros [= <-]; cvs; reflexivity. Qed.
  Lemma zv_weak_drop w m : zv (weak_drop w m) = zv m.
  Proof. unfold weak_drop. zv_solve. Qed.
  Hint Rewrite zv_drop_metadata zv_init_side zv_weak_strong_count zv_weak_weak_count
    zv_weak_drop : cv.
  Lemma zv_weak_drop_opt w m : zv (weak_drop_opt w m) = zv m.
  Proof. unfold weak_drop_opt. zv_solve. Qed.
  Hint Rewrite zv_weak_drop_opt : cv.

  Lemma zv_node_via_slot i m : zv (node_via_slot i m).1 = zv m.
  Proof. unfold node_via_slot. zv_solve. Qed.
  Hint Rewrite zv_node_via_slot : cv.
  Lemma zv_resolve self l m : zv (resolve self l m).1 = zv m.
  Proof.
    unfold resolve. destruct l as [i|j|i j]; cbn [fst]; auto.
    - brk; reflexivity.
    - pose proof (zv_node_via_slot i m) as H.
      destruct (node_via_slot i m) as [m1 n]. cbn [fst] in H. brk; cbn [fst]; exact H.
  Qed.
  Lemma zv_wresolve self l m : zv (wresolve self l m).1 = zv m.
  Proof.
    unfold wresolve. destruct l as [i|j|i j|]; cbn [fst]; auto.
    - brk; reflexivity.
    - pose proof (zv_node_via_slot i m) as H.
      destruct (node_via_slot i m) as [m1 n]. cbn [fst] in H. brk; cbn [fst]; exact H.
  Qed.
  Lemma zv_nresolve self n m : zv (nresolve self n m).1 = zv m.
  Proof. unfold nresolve. zv_solve. Qed.
  Lemma zv_write_loc r v m : zv (write_loc r v m) = zv m.
  Proof. unfold write_loc. zv_solve. Qed.
  Lemma zv_write_wloc r v m : zv (write_wloc r v m) = zv m.
  Proof. unfold write_wloc. zv_solve. Qed.
  Hint Rewrite zv_resolve zv_wresolve zv_nresolve zv_write_loc zv_write_wloc : cv.

  Lemma zv_box_alloc o m : zv (box_alloc K o m) = alter (zbox BAlloc) o (zv m).
  Proof.
    unfold box_alloc. destruct (get m o) as [x|] eqn:Ex.
    - destruct (box_layout K x) as [sz al].
      rewrite zv_emit, (zv_upd_alter _ (zbox BAlloc)) by (intros; reflexivity).
      cvs. reflexivity.
    - cvs. unfold get in Ex. rewrite alter_ge_l; [reflexivity|]. rewrite zv_length.
      apply lookup_ge_None_1. exact Ex.
  Qed.
  Lemma zv_set_fuse k n m : zv (set_fuse k n m) = zv m.
  Proof. unfold set_fuse. zv_solve. Qed.
  Hint Rewrite zv_set_fuse : cv.
  Lemma zv_tick k m : zv (tick k m).1 = zv m.
  Proof. unfold tick. zv_solve. Qed.
  Lemma zv_adjust m : zv (adjust K m) = zv m.
  Proof. unfold adjust. zv_solve. Qed.
  Hint Rewrite zv_tick zv_adjust : cv.
  Lemma zv_adjust_trigger_point m : zv (adjust_trigger_point K m) = zv m.
  Proof. unfold adjust_trigger_point. zv_solve. Qed.
  Hint Rewrite zv_adjust_trigger_point : cv.

  Lemma zv_fold {B} (f : machine -> B -> machine) :
    (forall m a, zv (f m a) = zv m) -> forall l m, zv (fold_left f l m) = zv m.
  Proof.
    intros Hf l. induction l as [|a l IH]; cbn; intros m; [reflexivity|].
    rewrite IH. apply Hf.
  Qed.
  Lemma zv_unmark_all l m : zv (unmark_all l m) = zv m.
  Proof. unfold unmark_all. apply zv_fold. intros; cvs; reflexivity. Qed.
  Hint Rewrite zv_unmark_all : cv.

  Lemma zv_new_node c m :
    zv (new_node P c m).1 = zv m ++ [ZObj VLive BNotYet false [] None].
  Proof. unfold new_node, zv. cbn. rewrite fmap_app. reflexivity. Qed.
  Lemma zv_new_map m : zv (new_map m).1 = zv m ++ [ZObj VLive BNotYet true [] None].
  Proof. unfold new_map, zv. cbn. rewrite fmap_app. reflexivity. Qed.

  Lemma zv_trace_pass m : zv (trace_pass K P m).1 = zv m.
  Proof.
    destruct (trace_pass K P m) as [m' r] eqn:E. cbn [fst].
    pose proof (Pass.mf_heap K _ _ (Pass.pass_frame K P m m' r E)) as Hh.
    unfold zv. induction Hh as [|x y l l' Hxy _ IH]; [reflexivity|]. cbn. f_equal; [|exact IH].
    destruct Hxy as (t & k & ->). reflexivity.
  Qed.
End Frame.

#[export] Hint Rewrite zv_dec_size zv_remove_from_list zv_add_to_list zv_dec_rc_m zv_dealloc
  zv_sfree zv_drop_metadata zv_init_side zv_weak_strong_count zv_weak_weak_count zv_weak_drop
  zv_weak_drop_opt zv_node_via_slot zv_resolve zv_wresolve zv_nresolve zv_write_loc
  zv_write_wloc zv_box_alloc zv_set_fuse zv_tick zv_adjust zv_adjust_trigger_point
  zv_unmark_all zv_new_node zv_new_map zv_trace_pass : cv.
#[export] Hint Rewrite @zv_fold using (intros; autorewrite with cv; reflexivity) : cv.
