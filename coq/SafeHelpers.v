(** * SafeHelpers: counting lemmas, the transfer lemma for the strengthened invariant
    ([SInv_alter]), the frame relation ([Fr]) and its closure properties, and the lemmas about
    updates that only touch header / side record. *)
From Coq Require Import NArith Bool List Lia.
From stdpp Require Import base list option.
From RecordUpdate Require Import RecordSet.
From RC Require Import Hdr Machine RunInd Inv InvP.
Import ListNotations RecordSetNotations.
Local Open Scope N_scope.

(** ** Counting *)
Lemma mem_id_elem o l : mem_id o l = true <-> o ∈ l.
Proof.
  unfold mem_id. rewrite existsb_exists. split.
  - intros (y & Hin & He). apply Nat.eqb_eq in He. subst. apply elem_of_list_In, Hin.
  - intros Hin. exists o. split; [apply elem_of_list_In, Hin | apply Nat.eqb_refl].
Qed.
Lemma mem_id_false o l : mem_id o l = false <-> o ∉ l.
Proof. rewrite <- mem_id_elem. destruct (mem_id o l); split; congruence. Qed.

Lemma cnt_id_nil o : cnt_id o [] = 0%nat.
Proof. reflexivity. Qed.
Lemma cnt_id_cons o a l : cnt_id o (a :: l) = ((if Nat.eqb a o then 1 else 0) + cnt_id o l)%nat.
Proof. unfold cnt_id. cbn [filter]. unfold filter at 1; cbn. destruct (Nat.eqb a o) eqn:E.
  - rewrite decide_True by reflexivity. reflexivity.
  - rewrite decide_False by discriminate. reflexivity.
Qed.
Lemma cnt_id_cons_eq o l : cnt_id o (o :: l) = S (cnt_id o l).
Proof. rewrite cnt_id_cons, Nat.eqb_refl. reflexivity. Qed.
Lemma cnt_id_cons_ne o a l : a <> o -> cnt_id o (a :: l) = cnt_id o l.
Proof. intros H. rewrite cnt_id_cons. apply Nat.eqb_neq in H. rewrite H. reflexivity. Qed.
Lemma cnt_id_app o l1 l2 : cnt_id o (l1 ++ l2) = (cnt_id o l1 + cnt_id o l2)%nat.
Proof. unfold cnt_id. rewrite list.filter_app, app_length. reflexivity. Qed.
Lemma cnt_id_pos o l : (0 < cnt_id o l)%nat <-> o ∈ l.
Proof.
  induction l as [|a l IH]; [cbn; split; [lia | intros H; inversion H]|].
  rewrite cnt_id_cons, elem_of_cons. destruct (Nat.eqb a o) eqn:E.
  - apply Nat.eqb_eq in E. subst. split; [auto | lia].
  - apply Nat.eqb_neq in E. rewrite <- IH. split; [intros; right; lia | intros [->|?]; [congruence | lia]].
Qed.
Lemma cnt_id_zero o l : cnt_id o l = 0%nat <-> o ∉ l.
Proof. rewrite <- cnt_id_pos. lia. Qed.

Lemma cnt_opt_nil o : cnt_opt o [] = 0%nat.
Proof. reflexivity. Qed.
Lemma cnt_opt_cons o a l : cnt_opt o (a :: l) = ((if eqb_oid a o then 1 else 0) + cnt_opt o l)%nat.
Proof. unfold cnt_opt. unfold filter at 1; cbn. destruct (eqb_oid a o) eqn:E.
  - rewrite decide_True by reflexivity. reflexivity.
  - rewrite decide_False by discriminate. reflexivity.
Qed.
Lemma cnt_opt_app o l1 l2 : cnt_opt o (l1 ++ l2) = (cnt_opt o l1 + cnt_opt o l2)%nat.
Proof. unfold cnt_opt. rewrite list.filter_app, app_length. reflexivity. Qed.
Lemma eqb_oid_Some a o : eqb_oid a o = true <-> a = Some o.
Proof. destruct a as [y|]; cbn; [rewrite Nat.eqb_eq; split; congruence | split; discriminate]. Qed.
Lemma eqb_oid_refl o : eqb_oid (Some o) o = true.
Proof. apply Nat.eqb_refl. Qed.
Lemma cnt_opt_insert o l i old v :
  l !! i = Some old ->
  (cnt_opt o (<[i := v]> l) + (if eqb_oid old o then 1 else 0) = cnt_opt o l + (if eqb_oid v o then 1 else 0))%nat.
Proof.
  revert i. induction l as [|a l IH]; intros [|i] H; cbn in H; try discriminate.
  - injection H as ->. cbn [insert list_insert]. rewrite !cnt_opt_cons. lia.
  - change (<[S i := v]> (a :: l)) with (a :: <[i := v]> l). rewrite !cnt_opt_cons. specialize (IH i H). lia.
Qed.
Lemma cnt_opt_pos o l : (0 < cnt_opt o l)%nat <-> exists j, l !! j = Some (Some o).
Proof.
  induction l as [|a l IH].
  - cbn. split; [lia | intros [j H]; discriminate].
  - rewrite cnt_opt_cons. split.
    + destruct (eqb_oid a o) eqn:E.
      * apply eqb_oid_Some in E. subst. intros _. exists 0%nat. reflexivity.
      * intros H. destruct (proj1 IH) as [j Hj]; [lia|]. exists (S j). exact Hj.
    + intros [[|j] Hj]; cbn in Hj.
      * injection Hj as ->. rewrite eqb_oid_refl. lia.
      * assert (0 < cnt_opt o l)%nat by (apply IH; eauto). lia.
Qed.
Lemma cnt_opt_zero o l : cnt_opt o l = 0%nat <-> forall j, l !! j <> Some (Some o).
Proof.
  pose proof (cnt_opt_pos o l) as H. split.
  - intros Hz j Hj. assert (0 < cnt_opt o l)%nat by (apply H; eauto). lia.
  - intros Hn. destruct (cnt_opt o l) eqn:E; [reflexivity|]. destruct (proj1 H) as [j Hj]; [lia|]. destruct (Hn j Hj).
Qed.
Lemma cnt_opt_replicate o n : cnt_opt o (replicate n None) = 0%nat.
Proof. induction n as [|n IH]; [reflexivity|]. cbn [replicate]. rewrite cnt_opt_cons, IH. reflexivity. Qed.

Lemma cnt_w_cons o a l : cnt_w o (a :: l) = ((if eqb_wref a o then 1 else 0) + cnt_w o l)%nat.
Proof. unfold cnt_w. unfold filter at 1; cbn. destruct (eqb_wref a o) eqn:E.
  - rewrite decide_True by reflexivity. reflexivity.
  - rewrite decide_False by discriminate. reflexivity.
Qed.
Lemma cnt_w_app o l1 l2 : cnt_w o (l1 ++ l2) = (cnt_w o l1 + cnt_w o l2)%nat.
Proof. unfold cnt_w. rewrite list.filter_app, app_length. reflexivity. Qed.
Lemma eqb_wref_Some a o : eqb_wref a o = true <-> a = Some (WTo o).
Proof. destruct a as [[|y]|]; cbn; try (split; discriminate). rewrite Nat.eqb_eq; split; congruence. Qed.
Lemma cnt_w_insert o l i old v :
  l !! i = Some old ->
  (cnt_w o (<[i := v]> l) + (if eqb_wref old o then 1 else 0) = cnt_w o l + (if eqb_wref v o then 1 else 0))%nat.
Proof.
  revert i. induction l as [|a l IH]; intros [|i] H; cbn in H; try discriminate.
  - injection H as ->. cbn [insert list_insert]. rewrite !cnt_w_cons. lia.
  - change (<[S i := v]> (a :: l)) with (a :: <[i := v]> l). rewrite !cnt_w_cons. specialize (IH i H). lia.
Qed.
Lemma cnt_w_pos o l : (0 < cnt_w o l)%nat <-> exists j, l !! j = Some (Some (WTo o)).
Proof.
  induction l as [|a l IH].
  - cbn. split; [lia | intros [j H]; discriminate].
  - rewrite cnt_w_cons. split.
    + destruct (eqb_wref a o) eqn:E.
      * apply eqb_wref_Some in E. subst. intros _. exists 0%nat. reflexivity.
      * intros H. destruct (proj1 IH) as [j Hj]; [lia|]. exists (S j). exact Hj.
    + intros [[|j] Hj]; cbn in Hj.
      * injection Hj as ->. cbn. rewrite Nat.eqb_refl. lia.
      * assert (0 < cnt_w o l)%nat by (apply IH; eauto). lia.
Qed.
Lemma cnt_w_replicate o n : cnt_w o (replicate n None) = 0%nat.
Proof. induction n as [|n IH]; [reflexivity|]. cbn [replicate]. rewrite cnt_w_cons, IH. reflexivity. Qed.
Lemma cnt_w_map_none o (l : list (option wref)) : cnt_w o (fmap (fun _ => None) l) = 0%nat.
Proof. induction l as [|a l IH]; [reflexivity|]. cbn [fmap list_fmap]. rewrite cnt_w_cons, IH. reflexivity. Qed.
Lemma cnt_wr_cons o w W : cnt_wr o (w :: W) = ((if eqb_wref (Some w) o then 1 else 0) + cnt_wr o W)%nat.
Proof. unfold cnt_wr. cbn [map]. apply cnt_w_cons. Qed.

(** ** Sums over the heap *)
Definition hsum (g : obj -> nat) (h : list obj) : nat := fold_right (fun x acc => (g x + acc)%nat) 0%nat h.
Lemma hsum_cons g x h : hsum g (x :: h) = (g x + hsum g h)%nat.
Proof. reflexivity. Qed.
Lemma hsum_app g h1 h2 : hsum g (h1 ++ h2) = (hsum g h1 + hsum g h2)%nat.
Proof. induction h1 as [|x h1 IH]; [reflexivity|]. cbn [app]. rewrite !hsum_cons, IH. lia. Qed.
Lemma hsum_alter g f a h x :
  h !! a = Some x -> (hsum g (alter f a h) + g x = hsum g h + g (f x))%nat.
Proof.
  revert a. induction h as [|y h IH]; intros [|a] E; cbn in E; try discriminate.
  - injection E as ->. cbn [alter list_alter]. rewrite !hsum_cons. lia.
  - change (alter f (S a) (y :: h)) with (y :: alter f a h). rewrite !hsum_cons. specialize (IH a E). lia.
Qed.
Lemma hsum_alter_same g f a h : (forall x, h !! a = Some x -> g (f x) = g x) -> hsum g (alter f a h) = hsum g h.
Proof.
  revert a. induction h as [|y h IH]; intros [|a] Hf; try reflexivity.
  - cbn [alter list_alter]. rewrite !hsum_cons, (Hf y eq_refl). reflexivity.
  - change (alter f (S a) (y :: h)) with (y :: alter f a h). rewrite !hsum_cons, IH; auto.
Qed.
Lemma hsum_pos g h : (0 < hsum g h)%nat <-> exists p x, h !! p = Some x /\ (0 < g x)%nat.
Proof.
  induction h as [|y h IH].
  - cbn. split; [lia | intros (p & x & H & _); discriminate].
  - rewrite hsum_cons. split.
    + intros H. destruct (g y) eqn:E.
      * destruct (proj1 IH) as (p & x & Hp & Hx); [lia|]. exists (S p), x. auto.
      * exists 0%nat, y. split; [reflexivity | lia].
    + intros ([|p] & x & Hp & Hx); cbn in Hp.
      * injection Hp as ->. lia.
      * assert (0 < hsum g h)%nat by (apply IH; eauto). lia.
Qed.
Lemma hsum_ext g1 g2 h : (forall p x, h !! p = Some x -> g1 x = g2 x) -> hsum g1 h = hsum g2 h.
Proof.
  induction h as [|y h IH]; intros H; [reflexivity|]. rewrite !hsum_cons.
  rewrite (H 0%nat y eq_refl), IH; [reflexivity|]. intros p x Hp. apply (H (S p) x Hp).
Qed.

Definition cnt_c (o : id) (l : list (option cref)) : nat :=
  length (filter (fun c => match c with Some cr => Nat.eqb (cr_map cr) o | None => false end = true) l).
Definition eqb_cref (c : option cref) (o : id) : bool :=
  match c with Some cr => Nat.eqb (cr_map cr) o | None => false end.
Lemma cnt_c_cons o a l : cnt_c o (a :: l) = ((if eqb_cref a o then 1 else 0) + cnt_c o l)%nat.
Proof. unfold cnt_c. unfold filter at 1; cbn. fold (eqb_cref a o). destruct (eqb_cref a o) eqn:E.
  - rewrite decide_True by reflexivity. reflexivity.
  - rewrite decide_False by discriminate. reflexivity.
Qed.
Lemma cnt_c_insert o l i old v :
  l !! i = Some old ->
  (cnt_c o (<[i := v]> l) + (if eqb_cref old o then 1 else 0) = cnt_c o l + (if eqb_cref v o then 1 else 0))%nat.
Proof.
  revert i. induction l as [|a l IH]; intros [|i] H; cbn in H; try discriminate.
  - injection H as ->. cbn [insert list_insert]. rewrite !cnt_c_cons. lia.
  - change (<[S i := v]> (a :: l)) with (a :: <[i := v]> l). rewrite !cnt_c_cons. specialize (IH i H). lia.
Qed.

Lemma refs_unfold m o :
  refs m o = (cnt_opt o (slots m) + cnt_id o (bag m) + hsum (obj_refs o) (heap m))%nat.
Proof. reflexivity. Qed.
Lemma wrefs_unfold m o :
  wrefs m o = (cnt_w o (wslots m) + cnt_w o (map Some (wparam m)) + cnt_c o (cslots m)
               + hsum (fun x => cnt_w o (o_wfields x)) (heap m))%nat.
Proof. reflexivity. Qed.
Global Opaque refs wrefs.

Lemma refs_ext m m' o : slots m' = slots m -> bag m' = bag m -> heap m' = heap m -> refs m' o = refs m o.
Proof. intros H1 H2 H3. rewrite !refs_unfold, H1, H2, H3. reflexivity. Qed.
Lemma wrefs_ext m m' o : wslots m' = wslots m -> wparam m' = wparam m -> cslots m' = cslots m -> heap m' = heap m ->
  wrefs m' o = wrefs m o.
Proof. intros H1 H2 H3 H4. rewrite !wrefs_unfold, H1, H2, H3, H4. reflexivity. Qed.

Lemma obj_refs_pos o x : (0 < obj_refs o x)%nat <-> (exists j, o_fields x !! j = Some (Some o)) \/ o_cleaner x = Some o.
Proof.
  unfold obj_refs. split.
  - intros H. destruct (eqb_oid (o_cleaner x) o) eqn:E.
    + right. apply eqb_oid_Some, E.
    + left. apply cnt_opt_pos. lia.
  - intros [H|H].
    + apply cnt_opt_pos in H. lia.
    + rewrite H, eqb_oid_refl. lia.
Qed.

Lemma hloc_refs_pos m h c t : hloc m h c t -> (0 < refs m t)%nat.
Proof.
  rewrite refs_unfold. intros [i t' H | t' H | p xp j t' Hp Hj | p xp t' Hp Hc].
  - assert (0 < cnt_opt t' (slots m))%nat by (apply cnt_opt_pos; eauto). lia.
  - apply cnt_id_pos in H. lia.
  - assert (0 < hsum (obj_refs t') (heap m))%nat; [|lia].
    apply hsum_pos. exists p, xp. split; [exact Hp|]. apply obj_refs_pos. eauto.
  - assert (0 < hsum (obj_refs t') (heap m))%nat; [|lia].
    apply hsum_pos. exists p, xp. split; [exact Hp|]. apply obj_refs_pos. eauto.
Qed.
Lemma refs_pos_hloc m t : (0 < refs m t)%nat -> exists h c, hloc m h c t.
Proof.
  rewrite refs_unfold. intros H.
  destruct (cnt_opt t (slots m)) eqn:E1.
  - destruct (cnt_id t (bag m)) eqn:E2.
    + assert (0 < hsum (obj_refs t) (heap m))%nat as H' by lia.
      apply hsum_pos in H' as (p & xp & Hp & Hx). apply obj_refs_pos in Hx as [[j Hj]|Hc].
      * exists (Some p), false. econstructor 3; eauto.
      * exists (Some p), true. econstructor 4; eauto.
    + exists None, false. constructor 2. apply cnt_id_pos. lia.
  - assert (0 < cnt_opt t (slots m))%nat as H' by lia. apply cnt_opt_pos in H' as [i Hi].
    exists None, false. econstructor 1; eauto.
Qed.

(** ** Heap access *)
Lemma get_upd o f m o' :
  get (upd o f m) o' = if decide (o = o') then f <$> get m o' else get m o'.
Proof.
  unfold get, upd. cbn. destruct (decide (o = o')) as [->|Hne].
  - apply list_lookup_alter.
  - apply list_lookup_alter_ne, Hne.
Qed.
Lemma get_upd_eq o f m x : get m o = Some x -> get (upd o f m) o = Some (f x).
Proof. intros E. rewrite get_upd, decide_True, E by reflexivity. reflexivity. Qed.
Lemma get_upd_ne o f m o' : o <> o' -> get (upd o f m) o' = get m o'.
Proof. intros. rewrite get_upd, decide_False by assumption. reflexivity. Qed.
Lemma get_lt m o x : get m o = Some x -> (o < length (heap m))%nat.
Proof. apply lookup_lt_Some. Qed.
Lemma hdr_of_get m o x : get m o = Some x -> hdr_of m o = o_hdr x.
Proof. unfold hdr_of. intros ->. reflexivity. Qed.
Lemma marked_at_get m o x : get m o = Some x -> marked_at m o = marked x.
Proof. unfold marked_at, marked. intros H. rewrite (hdr_of_get _ _ _ H). reflexivity. Qed.

Global Arguments cnt_id : simpl never.
Global Arguments cnt_opt : simpl never.
Global Arguments cnt_w : simpl never.
Global Arguments cnt_wr : simpl never.
Global Arguments cnt_c : simpl never.
Global Arguments hsum : simpl never.
Global Arguments marked : simpl never.
Global Arguments inD : simpl never.

(** ** Transfer of the invariant across an update of one object that keeps the status of every
    object (box, value state, is-map; list marks only appear) *)
Definition same_st (x x' : obj) : Prop :=
  o_box x' = o_box x /\ o_vst x' = o_vst x /\ o_ismap x' = o_ismap x /\ (marked x = true -> marked x' = true).
Lemma same_st_refl x : same_st x x.
Proof. repeat split; auto. Qed.

Definition heap_st (m m' : machine) : Prop :=
  (forall o x, get m o = Some x -> exists x', get m' o = Some x' /\ same_st x x') /\
  (forall o x', get m' o = Some x' -> exists x, get m o = Some x /\ same_st x x').

Lemma get_alter m m' a f o : heap m' = alter f a (heap m) ->
  get m' o = if decide (a = o) then f <$> get m o else get m o.
Proof.
  intros H. unfold get. rewrite H. destruct (decide (a = o)) as [->|Hne].
  - apply list_lookup_alter.
  - apply list_lookup_alter_ne, Hne.
Qed.

Lemma heap_st_alter m m' a f :
  heap m' = alter f a (heap m) -> (forall x, get m a = Some x -> same_st x (f x)) -> heap_st m m'.
Proof.
  intros Hh Hf. split; intros o x Hx.
  - rewrite (get_alter _ _ _ _ o Hh). destruct (decide (a = o)) as [->|Hne].
    + rewrite Hx. cbn. eauto.
    + eauto using same_st_refl.
  - rewrite (get_alter _ _ _ _ o Hh) in Hx. destruct (decide (a = o)) as [->|Hne].
    + destruct (get m o) as [y|] eqn:E; cbn in Hx; [|discriminate]. injection Hx as <-. eauto.
    + eauto using same_st_refl.
Qed.

Lemma inD_eq m m' o : dead m' = dead m -> inD m' o = inD m o.
Proof. unfold inD. intros ->. reflexivity. Qed.

Lemma is_map_st m m' o : heap_st m m' -> is_map m' o = is_map m o.
Proof.
  intros [H1 H2]. unfold is_map. destruct (get m o) as [x|] eqn:E.
  - destruct (H1 o x E) as (x' & -> & _ & _ & Hm & _). exact Hm.
  - destruct (get m' o) as [x'|] eqn:E'; [|reflexivity].
    destruct (H2 o x' E') as (x & Hx & _). congruence.
Qed.

Section Transfer.
  Context (K : conf).

  Lemma LocOk_transfer m m' h c t :
    heap_st m m' -> dead m' = dead m -> LocOk m h c t -> LocOk m' h c t.
  Proof.
    intros [H1 H2] Hd (xt & Ht & Hb & Hc & Hh).
    destruct (H1 t xt Ht) as (xt' & Ht' & Sb & Sv & Sm & Sk).
    exists xt'. split; [exact Ht'|]. split; [congruence|]. split; [intros; rewrite Sm; auto|].
    destruct h as [p|].
    - intros xp' Hp'. destruct (H2 p xp' Hp') as (xp & Hp & Pb & Pv & Pm & Pk).
      destruct (Hh xp Hp) as [Ha Hb']. rewrite !(inD_eq _ _ _ Hd). split.
      + intros Hl Hnd. rewrite Sv. apply Ha; [congruence | exact Hnd].
      + intros Hin. destruct (Hb' Hin) as (Hp1 & Hp2 & Hp3). split; [exact Hp1|]. split; [congruence|].
        intros Hv. apply Sk, Hp3. congruence.
    - rewrite (inD_eq _ _ _ Hd), Sv. exact Hh.
  Qed.

  Lemma ObjXp_sd ind sd sd' x : (sd = true -> sd' = true) -> ObjXp K ind sd x -> ObjXp K ind sd' x.
  Proof.
    intros Hs [X1 X2 X3 X4 X5 X6]. split; auto.
    intros Hk Hi Hb Hd. destruct (X3 Hk Hi Hb Hd) as [? ?]. auto.
  Qed.

  Lemma wnomap_st m m' w : heap_st m m' -> wnomap m w -> wnomap m' w.
  Proof. intros Hs Hw o Ho. rewrite (is_map_st _ _ _ Hs). apply Hw, Ho. Qed.

  Lemma SInv_alter b E W E' W' m m' a f :
    SInv K b E W m ->
    heap m' = alter f a (heap m) ->
    dead m' = dead m -> pc_alive m' = pc_alive m -> values m' = values m ->
    (st_dropping m = true -> st_dropping m' = true) ->
    length (slots m') = length (slots m) -> length (wslots m') = length (wslots m) ->
    length (cslots m') = length (cslots m) ->
    (forall x, get m a = Some x -> same_st x (f x)) ->
    (forall o, o <> a \/ get m a = None ->
       (refs m' o + cnt_id o E' = refs m o + cnt_id o E /\
        wrefs m' o + cnt_wr o W' = wrefs m o + cnt_wr o W)%nat) ->
    (forall x, get m a = Some x ->
       obj_okN K b (refs m' a + cnt_id a E') (wrefs m' a + cnt_wr a W') (inD m a) (f x) = true /\
       ObjXp K (inD m a) (st_dropping m') (f x)) ->
    (forall h c t, hloc m' h c t -> hloc m h c t \/ LocOk m' h c t) ->
    (forall t, t ∈ E' -> t ∈ E \/ exists x, get m t = Some x /\ o_box x = BAlloc) ->
    (forall t, t ∈ pc m' ->
       (t ∈ pc m /\ (forall x, t = a -> get m a = Some x -> h_mark (o_hdr (f x)) = PC)) \/
       exists xt, get m' t = Some xt /\ o_box xt = BAlloc /\ o_vst xt = VLive /\ inD m' t = false /\
                  h_mark (o_hdr xt) = PC) ->
    (forall i w, wslots m' !! i = Some w -> (exists i', wslots m !! i' = Some w) \/ wnomap m w) ->
    (forall w, w ∈ wparam m' -> w ∈ wparam m \/ wnomap m (Some w)) ->
    (forall x j w, get m a = Some x -> o_wfields (f x) !! j = Some w ->
       (exists j', o_wfields x !! j' = Some w) \/ wnomap m w) ->
    SInv K b E' W' m'.
  Proof.
    intros HI Hh Hd Hal Hv Hsd Hl1 Hl2 Hl3 Hst Hn Hoa Hloc HE Hpc Hw1 Hw2 Hw3.
    pose proof (heap_st_alter _ _ _ _ Hh Hst) as HS.
    assert (Hget : forall o, get m' o = if decide (a = o) then f <$> get m o else get m o)
      by (intros; apply get_alter, Hh).
    destruct HI as [I1 I2 I3 I4 I5 I6 I7 I8 I9 I10 I11 I12 I13]. split.
    - intros o x' Hx'. rewrite Hget in Hx'. rewrite (inD_eq _ _ _ Hd).
      destruct (decide (a = o)) as [->|Hne].
      + destruct (get m o) as [x|] eqn:Ex; cbn in Hx'; [|discriminate]. injection Hx' as <-.
        apply (Hoa x eq_refl).
      + destruct (Hn o) as [-> ->]; [left; congruence|]. apply I1, Hx'.
    - intros o x' Hx'. rewrite Hget in Hx'. unfold ObjX. rewrite (inD_eq _ _ _ Hd).
      destruct (decide (a = o)) as [->|Hne].
      + destruct (get m o) as [x|] eqn:Ex; cbn in Hx'; [|discriminate]. injection Hx' as <-.
        apply (Hoa x eq_refl).
      + eapply ObjXp_sd; [exact Hsd|]. apply (I2 o x' Hx').
    - intros h c t Hl. destruct (Hloc h c t Hl) as [Hl'|Hok]; [|exact Hok].
      eapply LocOk_transfer; eauto.
    - intros t Ht. destruct (HE t Ht) as [Ht'|(x & Hx & Hb)].
      + destruct (I4 t Ht') as (x & Hx & Hb). destruct (proj1 HS t x Hx) as (x' & Hx' & Sb & _).
        exists x'. split; [exact Hx' | congruence].
      + destruct (proj1 HS t x Hx) as (x' & Hx' & Sb & _). exists x'. split; [exact Hx' | congruence].
    - intros t Ht. destruct (Hpc t Ht) as [[Ht' Hm]|Hok]; [|exact Hok].
      destruct (I5 t Ht') as (x & Hx & Hb & Hv' & Hnd & Hmk).
      rewrite Hget, (inD_eq _ _ _ Hd). destruct (decide (a = t)) as [->|Hne].
      + rewrite Hx. cbn. exists (f x). destruct (Hst x Hx) as (Sb & Sv & _).
        repeat split; try congruence. apply (Hm x eq_refl Hx).
      + exists x. auto.
    - congruence.
    - intros o Ho. rewrite (inD_eq _ _ _ Hd) in Ho. destruct (I7 o Ho) as [x Hx].
      destruct (proj1 HS o x Hx) as (x' & Hx' & _). eauto.
    - intros v o Hvo. rewrite Hv in Hvo. destruct (I8 v o Hvo) as [(x & Hx & Hb & Hvs) Hu]. split.
      + destruct (proj1 HS o x Hx) as (x' & Hx' & Sb & Sv & _). exists x'. repeat split; congruence.
      + intros v'. rewrite Hv. apply Hu.
    - destruct I9 as (? & ? & ?). repeat split; congruence.
    - intros i w Hi. destruct (Hw1 i w Hi) as [[i' Hi']|Hw]; eapply wnomap_st; eauto.
    - intros w Hw. destruct (Hw2 w Hw) as [Hw'|Hw']; eapply wnomap_st; eauto.
    - intros p xp' j w Hp Hj. rewrite Hget in Hp. destruct (decide (a = p)) as [->|Hne].
      + destruct (get m p) as [xp|] eqn:Ex; cbn in Hp; [|discriminate]. injection Hp as <-.
        destruct (Hw3 xp j w eq_refl Hj) as [[j' Hj']|Hw]; eapply wnomap_st; eauto.
      + eapply wnomap_st; eauto.
    - intros o Ho. rewrite Hget. destruct (decide (a = o)) as [->|Hne].
      + destruct (get m o) as [x|] eqn:Ex; cbn; [eauto|].
        destruct (Hn o) as [_ Hw]; [right; reflexivity|]. rewrite Hw in Ho.
        destruct (I13 o Ho) as [y Hy]. congruence.
      + destruct (Hn o) as [_ Hw]; [left; congruence|]. rewrite Hw in Ho. apply I13, Ho.
  Qed.
End Transfer.

(** ** The frame relation *)
Section Frame.
  Context (K : conf).

  Lemma ObjFr_refl E ex m m' o x : (forall o, inD m' o = true -> inD m o = true) -> ObjFr E ex m m' o x x.
  Proof. intros Hd. split; auto; intros; repeat split; auto. Qed.

  Lemma Fr_refl E ex m : Fr K E ex m m.
  Proof.
    split; auto.
    - intros o x Hx. exists x. split; [exact Hx | apply ObjFr_refl; auto].
    - intros _ o x' Hx Hi Hb Hd. exists x'. auto.
  Qed.

  Lemma protected_trans E ex m m' o x x' :
    st_collecting m' = st_collecting m -> ObjFr E ex m m' o x x' -> ex <> Some o -> o_box x = BAlloc ->
    protected E m o x -> protected E m' o x'.
  Proof.
    intros Hc F Hex Hb [Hp|[Hm Hcol]]; [left; exact Hp|]. right.
    destruct (of_prot _ _ _ _ _ _ _ F Hex Hb (or_intror (conj Hm Hcol))) as (_ & _ & _ & Hmk).
    split; [|congruence]. unfold marked, is_in_list_or_queue in *. rewrite (Hmk Hm Hcol). exact Hm.
  Qed.

  Lemma ObjFr_trans E ex m1 m2 m3 o x1 x2 x3 :
    st_collecting m2 = st_collecting m1 -> (inD m1 o = true -> inD m2 o = true) ->
    ObjFr E ex m1 m2 o x1 x2 -> ObjFr E ex m2 m3 o x2 x3 -> ObjFr E ex m1 m3 o x1 x3.
  Proof.
    intros Hc Hdd A B. split.
    - rewrite (of_cls _ _ _ _ _ _ _ B). apply A.
    - rewrite (of_ismap _ _ _ _ _ _ _ B). apply A.
    - rewrite (of_nf _ _ _ _ _ _ _ B). apply A.
    - intros H. apply B, A, H.
    - intros H. apply B, A, H.
    - intros H. apply B, A, H.
    - intros Hb Hv Hex. pose proof (of_notyet _ _ _ _ _ _ _ A Hb Hv Hex) as ->. apply B; assumption.
    - intros Hv Hex. destruct (of_dropping _ _ _ _ _ _ _ A Hv Hex) as (A1 & A2 & A3 & A4 & A5).
      destruct (of_dropping _ _ _ _ _ _ _ B A1 Hex) as (B1 & B2 & B3 & B4 & B5).
      repeat split; try congruence. auto.
    - intros Hex Hv. apply A; [exact Hex|]. apply B; assumption.
    - intros Hex Hv Hb. destruct (of_uninit _ _ _ _ _ _ _ A Hex Hv Hb) as (Hv2 & Hb2 & U1 & U2 & U3).
      destruct (of_uninit _ _ _ _ _ _ _ B Hex Hv2 Hb2) as (Hv3 & Hb3 & V1 & V2 & V3). repeat split; congruence.
    - intros Hv. apply A, B, Hv.
    - intros Hi Hex Hv3.
      destruct (of_dead _ _ _ _ _ _ _ B (Hdd Hi) Hex Hv3) as [B1 B2].
      destruct (of_dead _ _ _ _ _ _ _ A Hi Hex) as [A1 A2]; [|split; congruence].
      intros Hv2. apply Hv3. apply B, Hv2.
    - intros Hm Hb3. apply (of_unmarked _ _ _ _ _ _ _ B); [|exact Hb3].
      apply (of_unmarked _ _ _ _ _ _ _ A); [exact Hm|].
      intros Hb2. apply Hb3. apply B, Hb2.
    - intros Hex Hb Hp.
      destruct (of_prot _ _ _ _ _ _ _ A Hex Hb Hp) as (A1 & A2 & A3 & A4).
      pose proof (protected_trans _ _ _ _ _ _ _ Hc A Hex Hb Hp) as Hp2.
      destruct (of_prot _ _ _ _ _ _ _ B Hex A1 Hp2) as (B1 & B2 & B3 & B4).
      repeat split; try congruence; auto.
      intros Hm Hcol. rewrite B4, A4; auto; [|congruence].
      unfold marked, is_in_list_or_queue in *. rewrite (A4 Hm Hcol). exact Hm.
  Qed.

  Lemma Fr_trans E ex m1 m2 m3 : Fr K E ex m1 m2 -> Fr K E ex m2 m3 -> Fr K E ex m1 m3.
  Proof.
    intros [A1 Aw A2 Ac A3 A4] [B1 Bw B2 Bc B3 B4]. split.
    - congruence.
    - congruence.
    - auto.
    - intros Hc o Hi. apply (Ac Hc), Bc; [congruence | exact Hi].
    - intros o x1 H1. destruct (A3 o x1 H1) as (x2 & H2 & F12). destruct (B3 o x2 H2) as (x3 & H3 & F23).
      exists x3. split; [exact H3|]. eapply ObjFr_trans; eauto.
    - intros Hk o x3 H3 Hi Hb Hd. destruct (B4 Hk o x3 H3 Hi Hb Hd) as (x2 & H2 & Hi2 & Hb2 & Hd2).
      apply (A4 Hk o x2 H2 Hi2 Hb2 Hd2).
  Qed.

  (** fewer protected objects, fewer own objects: a weaker frame *)
  Lemma Fr_weaken E E' ex ex' m m' :
    (forall o, (cnt_id o E' <= cnt_id o E)%nat) -> (ex = None \/ ex' = ex) ->
    Fr K E ex m m' -> Fr K E' ex' m m'.
  Proof.
    intros HE Hex [A1 Aw A2 Ac A3 A4]. split; auto.
    intros o x Hx. destruct (A3 o x Hx) as (x' & Hx' & F). exists x'. split; [exact Hx'|].
    assert (Hne : ex' <> Some o -> ex <> Some o) by (destruct Hex as [->| ->]; [discriminate | auto]).
    destruct F as [F1 F2 F3 F4 F5 F6 F7 F8 F8' F8'' Fn Fd F9 F10]. split; auto.
    intros Hx2 Hb Hp. apply F10; auto.
    destruct Hp as [Hp|Hp]; [left; specialize (HE o); lia | right; exact Hp].
  Qed.
  Lemma Fr_drop_own E o ex m m' : Fr K (o :: E) ex m m' -> Fr K E ex m m'.
  Proof.
    apply Fr_weaken; [|auto]. intros o'. rewrite cnt_id_cons. lia.
  Qed.

  Lemma NDD_refl m m' : dead m' = dead m -> NewDeadDropped m m'.
  Proof. intros Hd o x' _ H1 H2. rewrite (inD_eq _ _ _ Hd) in H1. congruence. Qed.
  Lemma NDD_trans E ex m1 m2 m3 :
    (forall o, inD m2 o = true -> is_Some (get m2 o)) ->
    NewDeadDropped m1 m2 -> Fr K E ex m2 m3 -> NewDeadDropped m2 m3 -> NewDeadDropped m1 m3.
  Proof.
    intros Hex A F B o x3 H3 Hi3 Hi1. destruct (inD m2 o) eqn:Hi2.
    - destruct (Hex o Hi2) as [x2 H2].
      destruct (fr_obj _ _ _ _ _ F o x2 H2) as (x3' & H3' & OF). assert (x3' = x3) by congruence. subst.
      apply OF. eapply A; eauto.
    - eapply B; eauto.
  Qed.

  (** one-object update *)
  Lemma Fr_alter E ex m m' a f :
    heap m' = alter f a (heap m) -> dead m' = dead m -> st_collecting m' = st_collecting m ->
    wparam m' = wparam m ->
    (forall x, get m a = Some x -> ObjFr E ex m m' a x (f x)) ->
    (k_weak K = true -> forall x, get m a = Some x -> inD m a = true -> o_box (f x) = BAlloc ->
       is_dropped (o_hdr (f x)) = false -> o_box x = BAlloc /\ is_dropped (o_hdr x) = false) ->
    Fr K E ex m m'.
  Proof.
    intros Hh Hd Hc Hwp HA HU.
    assert (Hget : forall o, get m' o = if decide (a = o) then f <$> get m o else get m o)
      by (intros; apply get_alter, Hh).
    assert (HD : forall o, inD m' o = inD m o) by (intros; apply inD_eq, Hd).
    split; auto.
    - intros o. rewrite HD. auto.
    - intros _ o. rewrite HD. auto.
    - intros o x Hx. rewrite Hget. destruct (decide (a = o)) as [->|Hne].
      + rewrite Hx. cbn. eauto.
      + exists x. split; [exact Hx|]. apply ObjFr_refl. intros o'. rewrite HD. auto.
    - intros Hk o x' Hx' Hi Hb Hdr. rewrite Hget in Hx'. rewrite HD in Hi.
      destruct (decide (a = o)) as [->|Hne].
      + destruct (get m o) as [x|] eqn:Ex; cbn in Hx'; [|discriminate]. injection Hx' as <-.
        destruct (HU Hk x eq_refl Hi Hb Hdr) as [? ?]. exists x. auto.
      + exists x'. auto.
  Qed.

  (** an update that keeps box, value state and the strong fields *)
  Lemma ObjFr_hs E ex m m' a x x' :
    (forall o, inD m' o = true -> inD m o = true) ->
    o_cls x' = o_cls x -> o_ismap x' = o_ismap x -> o_fields x' = o_fields x -> o_cleaner x' = o_cleaner x ->
    o_wfields x' = o_wfields x ->
    o_vst x' = o_vst x -> o_box x' = o_box x -> (o_box x <> BNotYet \/ o_vst x = VDropping) ->
    (marked x = false -> marked x' = false) -> (marked x = true -> h_mark (o_hdr x') = h_mark (o_hdr x)) ->
    ObjFr E ex m m' a x x'.
  Proof.
    intros Hd H1 H2 H3 H4 Hw H5 H6 H7 H8 H9. split; try congruence; auto; try (intros; destruct H7; congruence).
    - intros Hv _. repeat split; auto; congruence.
    - intros _ Hv Hb. repeat split; congruence.
    - intros _ Hb _. repeat split; auto; congruence.
  Qed.
End Frame.

(** ** Updates that do not touch the heap / that touch only header and side record *)
Definition ext_eq (m m' : machine) : Prop :=
  slots m' = slots m /\ bag m' = bag m /\ wslots m' = wslots m /\ wparam m' = wparam m /\
  cslots m' = cslots m /\ values m' = values m /\ pc m' = pc m /\ dead m' = dead m /\
  pc_alive m' = pc_alive m /\ st_collecting m' = st_collecting m.
Definition ieq (m m' : machine) : Prop :=
  heap m' = heap m /\ ext_eq m m' /\ st_dropping m' = st_dropping m.

Lemma ext_eq_refl m : ext_eq m m. Proof. repeat split. Qed.
Lemma ieq_refl m : ieq m m. Proof. repeat split. Qed.
Lemma ext_eq_upd o f m : ext_eq m (upd o f m). Proof. repeat split. Qed.
Lemma ext_eq_trans m1 m2 m3 : ext_eq m1 m2 -> ext_eq m2 m3 -> ext_eq m1 m3.
Proof. unfold ext_eq. intuition congruence. Qed.
Lemma ieq_trans m1 m2 m3 : ieq m1 m2 -> ieq m2 m3 -> ieq m1 m3.
Proof. intros (A1 & A2 & A3) (B1 & B2 & B3). split; [congruence|]. split; [eapply ext_eq_trans; eauto | congruence]. Qed.

Lemma hloc_ext m m' h c t :
  heap m' = heap m -> slots m' = slots m -> bag m' = bag m -> hloc m' h c t -> hloc m h c t.
Proof.
  intros Hh Hs Hb [i t' H | t' H | p xp j t' Hp Hj | p xp t' Hp Hc].
  - econstructor 1. rewrite <- Hs. eauto.
  - constructor 2. rewrite <- Hb. exact H.
  - econstructor 3; eauto. unfold get in *. rewrite <- Hh. exact Hp.
  - econstructor 4; eauto. unfold get in *. rewrite <- Hh. exact Hp.
Qed.

Lemma alter_id_eq {A} (l : list A) a : alter (fun x => x) a l = l.
Proof. revert a. induction l as [|y l IH]; intros [|a]; cbn; try reflexivity. f_equal. apply IH. Qed.

Lemma refs_alter_same m m' a f o :
  heap m' = alter f a (heap m) -> slots m' = slots m -> bag m' = bag m ->
  (forall x, get m a = Some x -> o_fields (f x) = o_fields x /\ o_cleaner (f x) = o_cleaner x) ->
  refs m' o = refs m o.
Proof.
  intros Hh Hs Hb Hf. rewrite !refs_unfold, Hs, Hb, Hh. f_equal.
  apply hsum_alter_same. intros x Hx. unfold obj_refs. destruct (Hf x Hx) as [-> ->]. reflexivity.
Qed.
Lemma wrefs_alter_same m m' a f o :
  heap m' = alter f a (heap m) -> wslots m' = wslots m -> wparam m' = wparam m -> cslots m' = cslots m ->
  (forall x, get m a = Some x -> o_wfields (f x) = o_wfields x) ->
  wrefs m' o = wrefs m o.
Proof.
  intros Hh H1 H2 H3 Hf. rewrite !wrefs_unfold, H1, H2, H3, Hh. f_equal.
  apply hsum_alter_same. intros x Hx. rewrite (Hf x Hx). reflexivity.
Qed.

Lemma hloc_alter_same m m' a f h c t :
  heap m' = alter f a (heap m) -> slots m' = slots m -> bag m' = bag m ->
  (forall x, get m a = Some x -> o_fields (f x) = o_fields x /\ o_cleaner (f x) = o_cleaner x) ->
  hloc m' h c t -> hloc m h c t.
Proof.
  intros Hh Hs Hb Hf Hl.
  assert (Hget : forall o, get m' o = if decide (a = o) then f <$> get m o else get m o)
    by (intros; apply get_alter, Hh).
  destruct Hl as [i t' H | t' H | p xp j t' Hp Hj | p xp t' Hp Hc].
  - econstructor 1. rewrite <- Hs. eauto.
  - constructor 2. rewrite <- Hb. exact H.
  - rewrite Hget in Hp. destruct (decide (a = p)) as [->|Hne].
    + destruct (get m p) as [x|] eqn:Ex; cbn in Hp; [|discriminate]. injection Hp as <-.
      destruct (Hf x eq_refl) as [Hf1 Hf2]. rewrite Hf1 in Hj. econstructor 3; eauto.
    + econstructor 3; eauto.
  - rewrite Hget in Hp. destruct (decide (a = p)) as [->|Hne].
    + destruct (get m p) as [x|] eqn:Ex; cbn in Hp; [|discriminate]. injection Hp as <-.
      destruct (Hf x eq_refl) as [Hf1 Hf2]. rewrite Hf2 in Hc. econstructor 4; eauto.
    + econstructor 4; eauto.
Qed.

Section HS.
  Context (K : conf).

  (** header / side-record / borrow-flag / slot-map update of the object [a] *)
  Lemma SInv_hs b E W E' W' m m' a f x :
    SInv K b E W m -> get m a = Some x ->
    heap m' = alter f a (heap m) -> ext_eq m m' -> (st_dropping m = true -> st_dropping m' = true) ->
    o_vst (f x) = o_vst x -> o_box (f x) = o_box x -> o_ismap (f x) = o_ismap x ->
    o_fields (f x) = o_fields x -> o_cleaner (f x) = o_cleaner x -> o_wfields (f x) = o_wfields x ->
    (marked x = true -> marked (f x) = true) ->
    (forall o, o <> a -> cnt_id o E' = cnt_id o E /\ cnt_wr o W' = cnt_wr o W) ->
    (forall t, t ∈ E' -> t ∈ E \/ (t = a /\ o_box x = BAlloc)) ->
    obj_okN K b (refs m a + cnt_id a E') (wrefs m a + cnt_wr a W') (inD m a) (f x) = true ->
    ObjXp K (inD m a) (st_dropping m') (f x) ->
    (a ∈ pc m -> h_mark (o_hdr (f x)) = PC) ->
    SInv K b E' W' m'.
  Proof.
    intros HI Hx Hh (Hs & Hb & Hws & Hwp & Hcs & Hv & Hpc & Hd & Hal & Hcol) Hsd
           Fv Fb Fm Ff Fc Fw Fk Hcnt HE Hok Hox Hmk.
    assert (Hf : forall y, get m a = Some y -> y = x) by (intros; congruence).
    assert (HR : forall o, refs m' o = refs m o).
    { intros o. eapply refs_alter_same; eauto. intros y Hy. rewrite (Hf y Hy). auto. }
    assert (HW : forall o, wrefs m' o = wrefs m o).
    { intros o. eapply wrefs_alter_same; eauto. intros y Hy. rewrite (Hf y Hy). auto. }
    eapply (SInv_alter K b E W E' W' m m' a f HI).
    - exact Hh.
    - exact Hd.
    - exact Hal.
    - exact Hv.
    - exact Hsd.
    - rewrite Hs. reflexivity.
    - rewrite Hws. reflexivity.
    - rewrite Hcs. reflexivity.
    - intros y Hy. rewrite (Hf y Hy). repeat split; auto.
    - intros o [Hne|Hn]; [|congruence]. rewrite HR, HW. destruct (Hcnt o Hne) as [-> ->]. auto.
    - intros y Hy. rewrite (Hf y Hy), HR, HW. auto.
    - intros h c t Hl. left. eapply hloc_alter_same; eauto. intros y Hy. rewrite (Hf y Hy). auto.
    - intros t Ht. destruct (HE t Ht) as [?|[-> Hbx]]; [auto | right; eauto].
    - intros t Ht. rewrite Hpc in Ht. left. split; [exact Ht|]. intros y -> Hy. rewrite (Hf y Hy). auto.
    - intros i w Hi. left. exists i. rewrite <- Hws. exact Hi.
    - intros w Hw. left. rewrite <- Hwp. exact Hw.
    - intros y j w Hy Hj. left. exists j. rewrite (Hf y Hy), Fw in Hj. rewrite (Hf y Hy). exact Hj.
  Qed.

  Lemma SInv_ieq b E W m m' : ieq m m' -> SInv K b E W m -> SInv K b E W m'.
  Proof.
    intros (Hh & He & Hsd) HI.
    pose proof He as (Hs & Hb & Hws & Hwp & Hcs & Hv & Hpc & Hd & Hal & Hcol).
    assert (HR : forall o, refs m' o = refs m o) by (intros; apply refs_ext; auto).
    assert (HW : forall o, wrefs m' o = wrefs m o) by (intros; apply wrefs_ext; auto).
    eapply (SInv_alter K b E W E W m m' 0%nat (fun x => x) HI).
    - rewrite alter_id_eq. exact Hh.
    - exact Hd.
    - exact Hal.
    - exact Hv.
    - rewrite Hsd. auto.
    - rewrite Hs. reflexivity.
    - rewrite Hws. reflexivity.
    - rewrite Hcs. reflexivity.
    - intros. apply same_st_refl.
    - intros o _. rewrite HR, HW. auto.
    - intros y Hy. rewrite HR, HW, Hsd. split; [apply (sv_obj _ _ _ _ _ HI), Hy | apply (sv_objx _ _ _ _ _ HI _ _ Hy)].
    - intros h c t Hl. left. eapply hloc_ext; eauto.
    - auto.
    - intros t Ht. rewrite Hpc in Ht. left. split; [exact Ht|]. intros y -> Hy.
      destruct (sv_pc _ _ _ _ _ HI _ Ht) as (z & Hz & _ & _ & _ & Hm). congruence.
    - intros i w Hi. left. exists i. rewrite <- Hws. exact Hi.
    - intros w Hw. left. rewrite <- Hwp. exact Hw.
    - intros y j w Hy Hj. left. eauto.
  Qed.

  Lemma Fr_ieq E ex m m' : ieq m m' -> Fr K E ex m m'.
  Proof.
    intros (Hh & (Hs & Hb & Hws & Hwp & Hcs & Hv & Hpc & Hd & Hal & Hcol) & Hsd).
    eapply (Fr_alter K E ex m m' 0%nat (fun x => x)); [| exact Hd | exact Hcol | exact Hwp | |].
    - rewrite alter_id_eq. exact Hh.
    - intros x Hx. apply ObjFr_refl. intros o. rewrite (inD_eq _ _ _ Hd). auto.
    - intros _ x Hx Hi Hb' Hdr. auto.
  Qed.

  Lemma Fr_hs E ex m m' a f x :
    get m a = Some x -> heap m' = alter f a (heap m) -> ext_eq m m' ->
    o_cls (f x) = o_cls x -> o_vst (f x) = o_vst x -> o_box (f x) = o_box x -> o_ismap (f x) = o_ismap x ->
    o_fields (f x) = o_fields x -> o_cleaner (f x) = o_cleaner x -> o_wfields (f x) = o_wfields x ->
    (o_box x <> BNotYet \/ o_vst x = VDropping) ->
    (marked x = false -> marked (f x) = false) ->
    (marked x = true -> h_mark (o_hdr (f x)) = h_mark (o_hdr x)) ->
    (k_weak K = true -> inD m a = true -> is_dropped (o_hdr (f x)) = false -> is_dropped (o_hdr x) = false) ->
    Fr K E ex m m'.
  Proof.
    intros Hx Hh (Hs & Hb & Hws & Hwp & Hcs & Hv & Hpc & Hd & Hal & Hcol) Fc Fv Fb Fm Ff Fcl Fwf Hny Hm1 Hm2 Hdr.
    eapply (Fr_alter K E ex m m' a f); [exact Hh | exact Hd | exact Hcol | exact Hwp | |].
    - intros y Hy. assert (y = x) by congruence. subst y.
      apply ObjFr_hs; auto. intros o. rewrite (inD_eq _ _ _ Hd). auto.
    - intros Hk y Hy Hi Hb' Hdr'. assert (y = x) by congruence. subst y. split; [congruence | auto].
  Qed.
End HS.

